"""Per-property configuration: every check package carries its own harness/cNN/vconfig.json
(read by vcheck and mkmanifest.py). Keys: level, technique, design_ref, quick{checks,shards[,deadline_s,race_checks,race_shards]},
thorough{...}, race (bool: also build a -race binary and run ^TestRace), fuzz [[target, seconds], ...], rule, text,
level_note, assumptions."""
import glob, json, os

ROOT = os.path.dirname(os.path.abspath(__file__))
PROPS = {}
for f in sorted(glob.glob(os.path.join(ROOT, "harness", "c[0-9][0-9]", "vconfig.json"))):
    pkg = os.path.basename(os.path.dirname(f))
    cfg = json.load(open(f))
    cfg.setdefault("pkg", pkg)
    cfg.setdefault("quick", dict(checks=200, shards=1))
    cfg.setdefault("thorough", dict(checks=2000, shards=16))
    PROPS[pkg.upper()] = cfg
