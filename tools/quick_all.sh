#!/bin/bash
# Runs the quick tier of every property at the given seeds (default 1) and prints one summary line each.
# usage: tools/quick_all.sh "1 2 3" [Cxx ...]
cd "$(dirname "$0")/.."
seeds=${1:-1}; shift
for s in $seeds; do
for p in ${@:-C01 C02 C03 C04 C05 C06 C07 C08 C09 C10 C11 C12 C13 C14 C15 C16 C17 C18 C19 C20}; do
  start=$(date +%s)
  out=$(./vcheck $p --tier quick --seed $s 2>&1)
  rc=$?
  echo "== $p seed=$s exit=$rc wall=$(( $(date +%s) - start ))s $(echo "$out" | grep -E '^(OK|INCONCLUSIVE|VIOLATION)' | head -3 | tr '\n' ' ' | cut -c1-300)"
  if [ $rc -ne 0 ]; then echo "$out" | grep -v '^KNOWN' | tail -30 | cut -c1-300; fi
done
done
