#!/bin/bash
# usage: tools/applyfix.sh <patch.diff> <message-file>   - applies a reviewed repair to /repo as one "fix:" commit:
# test files are left out (the repository's suite stays unedited), the suite is run (retried, its server tests are
# timing-sensitive under load) and the commit is made only when it is green.
set -e
patch=$1; msg=$2
cd /repo
test -z "$(git status --porcelain)" || { echo "/repo not clean"; exit 2; }
git apply --exclude='*_test.go' "$patch"
export GOFLAGS=-mod=mod GOPROXY=off; unset GOSUMDB
go build ./... || { git checkout -- .; echo BUILD FAILED; exit 1; }
ok=0
for i in 1 2 3 4; do
  if go test -count=1 -vet=off ./... > /tmp/applyfix.log 2>&1; then ok=1; break; fi
  grep -E '^(--- FAIL|FAIL|panic)' /tmp/applyfix.log | head -5
done
if [ $ok = 0 ]; then git checkout -- .; echo "SUITE FAILED 4 times"; exit 1; fi
git commit -q -a -F "$msg"
git log --oneline | head -1
