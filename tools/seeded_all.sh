#!/bin/bash
# Re-evaluates every seeded change against the quick tier of its property (no re-confirmation), in N parallel lanes.
# usage: tools/seeded_all.sh [lanes] [seeds, e.g. 2 or 2,3]   -> logs under .work/seeded-all/
cd "$(dirname "$0")/.."
lanes=${1:-4}
seeds=${2:-1}
mkdir -p .work/seeded-all
ls seeded | grep '^C' | sort > .work/seeded-all/names.txt
for i in $(seq 0 $((lanes-1))); do
  awk -v n=$lanes -v i=$i 'NR%n==i' .work/seeded-all/names.txt > .work/seeded-all/lane$i.txt
  ( python3 seeded/run.py $(cat .work/seeded-all/lane$i.txt) --noconfirm --seeds $seeds > .work/seeded-all/lane$i.log 2>&1 ) &
done
wait
grep -h "tier=quick" .work/seeded-all/lane*.log | sort > .work/seeded-all/summary.txt
echo "caught: $(grep -c 'caught=True' .work/seeded-all/summary.txt)  not caught: $(grep -c 'caught=False' .work/seeded-all/summary.txt)"
grep 'caught=False' .work/seeded-all/summary.txt
grep -h "does not apply" .work/seeded-all/lane*.log
