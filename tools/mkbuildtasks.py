#!/usr/bin/env python3
"""Writes one task file per property for the builders of a round: /tmp/build/<Cxx>.task.md.
usage: tools/mkbuildtasks.py ROUND LETTER1 LETTER2 remarks-file   (e.g. 9 Q R notes/round9-side-remarks.md)"""
import json, os, re, sys
rnd, A, B, remarks = sys.argv[1], sys.argv[2], sys.argv[3], sys.argv[4]
root = os.path.dirname(os.path.dirname(os.path.abspath(__file__)))
txt = open(os.path.join(root, remarks)).read()
sections = dict((m.group(1), m.group(2).strip()) for m in re.finditer(r"^## (C\d\d)\n(.*?)(?=^## |\Z)", txt, re.S | re.M))
OUT = "/tmp/build%s" % rnd
os.makedirs(OUT, exist_ok=True)
for i in range(1, 21):
    pid = "C%02d" % i
    rows = []
    for v in (A, B):
        d = os.path.join(root, "seeded", "%s-%s" % (pid, v))
        if not os.path.exists(d): continue
        m = json.load(open(os.path.join(d, "meta.json")))
        ev = m.get("evaluation", {}).get("quick", {})
        caught = ev.get("caught")
        rows.append("- `%s-%s` (%s): %s\n  needs: %s" % (pid, v, "caught by the quick tier as it stands" if caught else "**MISSED by the quick tier**", m.get("title", ""), m.get("needs_to_manifest", "")))
    t = f"""# Round {rnd} task for the builder of {pid}

Read `/verif/notes/BUILDER_BRIEF.md` first (hard rules, framework contract, validation steps) and the section of
`/verif/DESIGN.md` on {pid}; your package is `/verif/harness/c{i:02d}/` (read its SENSITIVITY.md to see what earlier rounds added).
The property text is line {i} of `/verif/properties.jsonl`. Do not edit anything outside your package directory except as
the brief allows; never touch `/repo`; do not commit.

## 1. Seeded changes of this round (written by an independent agent that saw only the property text)

{chr(10).join(rows) if rows else '(none)'}

Each lives in `/verif/seeded/<name>/` (`patch.diff`, `demo_test.go`, `meta.json`). Evaluate with
`python3 /verif/seeded/run.py <name> --noconfirm --seeds 1,2` (applies the patch in a scratch worktree, runs your quick tier
against it through a build overlay; /repo is not touched).

For every MISSED change: work out which part of the *statement* it breaks and why the generators or oracles never got there,
then close the gap **by a generated class or a stronger oracle that follows from the statement** - not by hard-coding the
failing input (a deterministic enumeration over a small finite space that contains the input is fine). The change must then
be caught by the **quick** tier at seeds 1 and 2, the unchanged tree must stay silent at seeds 1..5
(`/verif/vcheck {pid} --seed N`), and the quick tier should stay under about 60 s on a busy machine. If a change breaks
something the statement does not say, say so in your report instead of bending the check. Also re-run the change that
was caught, to be sure it still is.

## 2. Remarks about the UNCHANGED library (from the breakers; the lead's first verdicts)

{sections.get(pid, '(none for this property)')}

For each remark marked **open**: decide from the statement of {pid} whether the unchanged library violates it. If it does
and you can reproduce it through your oracle: write a probe (`pbt.Probe`), add the generated class that finds it, add a
`known:` line to `/verif/KNOWN_FINDINGS.txt` (append only) with the exclusion active only while the probe reproduces, and put a
minimal candidate repair as a unified diff (made with `git diff` in a scratch worktree of /repo under /tmp, removed afterwards)
into `/verif/notes/fixes-r{rnd}/{pid}-<slug>.diff` together with a line in your report saying whether `go test ./...` of the
patched worktree stays green (the lead applies repairs as `fix:` commits; a repair must correct the behaviour, not remove
it or special-case the input). If it is outside the statement, say why in one line. Do not spend more than a third of
your effort on this section.

## 3. Coverage-guided layer

`pbt.FuzzGen` (harness/pbt/pbt.go) is new: a native fuzz target that feeds the fuzzer's octets to your existing generators
through `rapid.MakeFuzz`; it is registered in your package as `fuzzgen_test.go` and in `vconfig.json` under `fuzz` (packages
c12-c15 do not have it). Try `/verif/vcheck {pid} --fuzzonly --fuzztime 30` on the unchanged tree (must stay silent) and, if
your package has it, against one of the seeded changes
(`VERIF_OVERLAY=... ` is set up by run.py only for the quick tier, so use a hand-made overlay as the brief describes) and note
in SENSITIVITY.md whether the fuzzer finds it within 60 s. If a sub-check is unsuitable for it (needs sockets, a watchdog
that misfires under 16 parallel workers, very slow cases) pass its name: `pbt.FuzzGen(f, "sub-name", ...)`.

## 4. Report and records

* Add a "Round {rnd}" section to `harness/c{i:02d}/SENSITIVITY.md`: one table row per change (what it needs, result before, what
  was added, result now) and one line per remark (verdict).
* Update `rule`/`text`/`level_note` in `harness/c{i:02d}/vconfig.json` if the domain or the oracle changed.
* In each `/verif/seeded/<name>/meta.json` you worked on, add the keys `initially_missed` (bool) and `closed_by` (one sentence).
* Final message: what you added, the runs you made (commands and outcomes), findings on the unchanged tree with concrete
  inputs and the candidate diff, anything you could not close and why.
"""
    open(OUT + "/%s.task.md" % pid, "w").write(t)
print("tasks under", OUT)
