#!/usr/bin/env python3
"""Writes the briefs for one round of independent breaker sub-agents to /tmp/seed/<Cxx>.brief.md and creates their
scratch worktrees /tmp/seed/<Cxx>.wt. The briefs contain only the property text, the titles of earlier changes
(so that ideas are not repeated) and the procedure - nothing about the checks in /verif.
usage: tools/mkbriefs.py LETTER1 LETTER2 [angle-file]   (e.g. O P)"""
import json, os, glob, sys, subprocess
A, B = sys.argv[1], sys.argv[2]
angle = open(sys.argv[3]).read() if len(sys.argv) > 3 else ""
root = os.path.dirname(os.path.dirname(os.path.abspath(__file__)))
props = {}
for l in open(os.path.join(root, 'properties.jsonl')):
    p = json.loads(l); props[p['id']] = p
titles = {}
for d in sorted(glob.glob(os.path.join(root, 'seeded/C*'))):
    m = json.load(open(d + '/meta.json'))
    titles.setdefault(m['property'], []).append(m.get('title', '').strip())
os.makedirs('/tmp/seed', exist_ok=True)
for pid, p in props.items():
    wt = '/tmp/seed/%s.wt' % pid; out = '/tmp/seed/%s.out' % pid
    txt = f"""# Task: write two realistic changes to miekg/dns that silently break one stated property

You are working in `{wt}`, your own scratch git worktree of the Go DNS library miekg/dns
(pinned commit). Work ONLY inside `{wt}` and `{out}`. Never touch `/repo` or `/verif` and do not
read anything under `/verif` (your work is used as an independent test of a checker that lives there,
so anything you learn from it would spoil the experiment).

Environment for every go command (no network; do NOT set GOSUMDB=off):
`export GOFLAGS=-mod=mod GOPROXY=off`

NEVER use `git stash` (the stash is shared between all worktrees of the repository and other agents are
working next to you): to test the unchanged library use `git diff > {out}/p.diff; git checkout -- .` and
`git apply {out}/p.diff` to get your edit back.

The machine is busy: the repository's timing-sensitive tests (TestTimeout, TestInProgressQueriesAtShutdown*,
TestShutdown*) occasionally fail with or without any change - re-run before you blame your edit, and make your
own demonstration independent of timing where you can.

## The property

**{pid} - {p['title']}**

Statement: {p['statement']}

Quantified over: {p['quantifier']['text']}

Why the repository's tests cannot settle it: {p['why_tests_cant']}

Code it is anchored in: files {', '.join(p['anchors']['files'])}; mechanisms:
""" + "\n".join(f"- {m['name']} ({m['where']})" for m in p['anchors'].get('mechanism', [])) + f"""

## What to produce

Two *independent* changes, **{A}** and **{B}**, each a small patch to non-test `.go` files of the library
(not to `*_test.go`, not to go.mod) such that

1. the library still compiles and the repository's whole test suite still passes with the change
   (`go build ./... && go test -count=1 -vet=off ./...` in `{wt}`),
2. the property above no longer holds: there is an input / schedule / sequence of calls for which the
   library's behaviour now contradicts the statement (read the statement carefully - break what it
   says, not something nearby),
3. you have a demonstration `demo_test.go` (package `dns`, or `dnsutil` if the change is there; test
   function names must start with `TestSeeded`) that FAILS with the change applied and PASSES on the
   unchanged library. The demonstration should state the property violation directly (e.g. compare
   against octets written by hand from the RFC, or against an independent computation), not just
   compare with a recorded old output.

The changes must look like something a maintainer could plausibly commit: a refactoring, an
optimisation, a feature addition, a bug fix for something else, or a clean-up that is subtly wrong - not a
planted `if x == 1337`. And they must need **something specific to manifest** rather than fail on ordinary use
(a particular interleaving, a fault at a particular point, a multi-step sequence of operations, an unusual input,
or two cooperating sites that each look fine alone).
{angle}
These earlier changes were already written by others for this property - do NOT repeat their idea,
site or trigger; find something in a different place or of a different kind:

""" + "\n".join("- " + t for t in titles.get(pid, [])) + f"""

## Procedure

For each change X in ({A}, {B}):

1. make the edit in `{wt}`, run `go build ./... && go test -count=1 -vet=off ./...` (must pass);
2. write the demonstration as `{wt}/zz_seeded_demo_test.go` (or under `dnsutil/`), run
   `go test -count=1 -vet=off -run TestSeeded .` -> must FAIL; then `git diff > {out}/p.diff; git checkout -- .`
   (the untracked demo file stays) and run it again -> must PASS on the unchanged library; `git apply {out}/p.diff`;
3. save to `{out}/X/`: `patch.diff` (output of `git diff` of the library edit only, must apply with
   `git apply` to a clean checkout), `demo_test.go` (the demonstration), and `notes.json` with the keys
   `title` (one sentence: what was changed and the visible consequence), `what_breaks` (which clause
   of the property, and why the repository's tests do not notice), `needs_to_manifest` (the specific
   input / sequence / schedule needed; what remains unaffected), `files` (list of edited files),
   `suite_passes`, `demo_fails_with_change`, `demo_passes_without` (booleans you verified);
4. `git checkout -- . && rm -f zz_seeded_demo_test.go dnsutil/zz_seeded_demo_test.go {out}/p.diff` so the worktree is
   clean before the next change.

Do not leave other files behind. Your final message: for {A} and {B} one paragraph each (site, trigger,
what you verified), plus any side remark about behaviour of the *unchanged* library that seems to
contradict the property (with the concrete input) - those are valuable too.
"""
    open('/tmp/seed/%s.brief.md' % pid, 'w').write(txt)
    os.makedirs(out, exist_ok=True)
    subprocess.run(['git', '-C', '/repo', 'worktree', 'add', '--detach', wt, 'HEAD'], capture_output=True)
print("briefs and worktrees ready under /tmp/seed")
