package c14

import (
	"encoding/json"
	"fmt"
	"net"
	"sort"
	"strings"
	"sync"
	"sync/atomic"
	"time"

	"github.com/miekg/dns"
	"pgregory.net/rapid"

	"verif/harness/pbt"
	wm "verif/harness/wiremodel"
)

// ---------------------------------------------------------------------------------------------
// (b) ServeMux routing against a reference written from the property statement

// regOp is one registration operation on the mux: Handle(Pattern, handler #k) or HandleRemove(Pattern),
// k being the position of the operation in the combined sequence Patterns ++ Ops.
type regOp struct {
	Remove  bool
	Lookup  bool // not a registration: the case's request is served at this point of the sequence
	Pattern string
}

type muxCase struct {
	Patterns []string // Handle operations executed first, in this order; handler k belongs to Patterns[k]
	Ops      []regOp  // further Handle / HandleRemove operations (and intermediate lookups), executed after Patterns
	Fresh    string   // how the mux comes to life: "" / "new" = NewServeMux(), "zero" = zero value ServeMux
	Pre      int      // requests served on the fresh mux BEFORE the first registration (0..3)
	QName    string
	QType    uint16
	NQ       int // number of questions (0..2); the first is QName/QType
	ID       uint16
	Opcode   int
	RD, CD   bool
	AD, TC   bool
}

const (
	knownDSTop  = "mux-ds-topmost-ancestor"
	knownDSRoot = "mux-ds-root-shadows-parent"
	// a DS query whose name is NOT itself a registered pattern: the longest registered suffix is
	// already the zone that encloses the name from above (the parent side of a possible cut at the
	// name); the library skips it and hands the query to the next registered ancestor
	knownDSBelow = "mux-ds-below-apex-skips-enclosing-zone"
)

// capture is a ResponseWriter that records what is written.
type capture struct {
	msgs []*dns.Msg
	raw  [][]byte
}

func (c *capture) LocalAddr() net.Addr         { return memAddr(53) }
func (c *capture) RemoteAddr() net.Addr        { return memAddr(40000) }
func (c *capture) WriteMsg(m *dns.Msg) error   { c.msgs = append(c.msgs, m); return nil }
func (c *capture) Write(b []byte) (int, error) { c.raw = append(c.raw, b); return len(b), nil }
func (c *capture) Close() error                { return nil }
func (c *capture) TsigStatus() error           { return nil }
func (c *capture) TsigTimersOnly(bool)         {}
func (c *capture) Hijack()                     {}

func lowerLabels(s string) ([]string, error) {
	n, _, err := wm.UnescName(s)
	if err != nil {
		return nil, err
	}
	out := make([]string, len(n))
	for i, l := range n {
		out[i] = string(wm.LowerBytes(append([]byte{}, l...))) // ASCII letters only; other octets compare as they are
	}
	return out, nil
}

// ops is the whole registration history of the case.
func (c muxCase) ops() []regOp {
	out := make([]regOp, 0, len(c.Patterns)+len(c.Ops))
	for _, p := range c.Patterns {
		out = append(out, regOp{Pattern: p})
	}
	return append(out, c.Ops...)
}

func (c muxCase) opName(i int) string {
	o := c.ops()
	if i < 0 || i >= len(o) {
		return "?"
	}
	return o[i].Pattern
}

func isSuffix(pat, q []string) bool {
	if len(pat) > len(q) {
		return false
	}
	d := len(q) - len(pat)
	for i := range pat {
		if pat[i] != q[d+i] {
			return false
		}
	}
	return true
}

// route is the reference: index of the pattern whose handler must run, or -1 for REFUSED.
// matches lists the distinct registered names that are suffixes of the question name, longest first
// (each with the index of its last registration); the root pattern, having no labels, is last.
func route(c muxCase) (want int, matches []int, err error) { return routeAt(c, len(c.ops())) }

// routeAt is the reference after the first nops operations of the sequence.
func routeAt(c muxCase, nops int) (want int, matches []int, err error) {
	if c.NQ == 0 {
		return -1, nil, nil
	}
	q, err := lowerLabels(c.QName)
	if err != nil {
		return 0, nil, err
	}
	type reg struct {
		labels []string
		idx    int
	}
	byName := map[string]*reg{}
	var order []string
	// the registered set is the result of the operation sequence: names are compared as label
	// sequences ignoring case, whatever spelling (case, trailing dot) each operation used
	for i, op := range c.ops()[:nops] {
		if op.Lookup {
			continue
		}
		l, err := lowerLabels(op.Pattern)
		if err != nil {
			return 0, nil, err
		}
		k := strings.Join(l, "\x00") + fmt.Sprint("/", len(l))
		switch r, ok := byName[k]; {
		case op.Remove:
			delete(byName, k)
		case ok:
			r.idx = i // a later Handle for the same name replaces the handler
		default:
			byName[k] = &reg{l, i}
			order = append(order, k)
		}
	}
	var ms []*reg
	seen := map[string]bool{}
	for _, k := range order {
		if r := byName[k]; r != nil && !seen[k] && isSuffix(r.labels, q) {
			seen[k] = true
			ms = append(ms, r)
		}
	}
	sort.SliceStable(ms, func(i, j int) bool { return len(ms[i].labels) > len(ms[j].labels) })
	for _, r := range ms {
		matches = append(matches, r.idx)
	}
	switch {
	case len(ms) == 0:
		return -1, matches, nil
	case c.QType == dns.TypeDS && len(ms) >= 2 && len(ms[0].labels) == len(q):
		// The question name is itself a registered zone (the child): the DS record set of a zone
		// apex lives in the enclosing parent zone, i.e. the next-longest registered suffix.
		return ms[1].idx, matches, nil
	default:
		// Every other DS query: the longest registered suffix is a proper ancestor of the name
		// and therefore already the zone enclosing it from above - whether or not the name is a
		// zone cut there, no zone further up holds anything for it.
		return ms[0].idx, matches, nil
	}
}

// apexAt: is the question name itself registered after the first nops operations?
func apexAt(c muxCase, nops int) bool {
	q, err := lowerLabels(c.QName)
	if err != nil || c.NQ == 0 {
		return false
	}
	apex := false
	for _, op := range c.ops()[:nops] {
		if op.Lookup {
			continue
		}
		if l, err := lowerLabels(op.Pattern); err == nil && len(l) == len(q) && isSuffix(l, q) {
			apex = !op.Remove
		}
	}
	return apex
}

// removalClasses describes the HandleRemove operations of the case: whether one removes a name that is
// registered at that moment, and whether it spells the name differently from the registration.
func removalClasses(c muxCase) []string {
	live := map[string]string{} // canonical key -> spelling used by the last Handle
	var out []string
	add := func(s string) {
		for _, x := range out {
			if x == s {
				return
			}
		}
		out = append(out, s)
	}
	q, _ := lowerLabels(c.QName)
	for _, op := range c.ops() {
		l, err := lowerLabels(op.Pattern)
		if err != nil || op.Lookup {
			continue
		}
		k := strings.Join(l, "\x00") + fmt.Sprint("/", len(l))
		if !op.Remove {
			live[k] = op.Pattern
			continue
		}
		sp, ok := live[k]
		switch {
		case !ok:
			add("remove=absent")
		case sp == op.Pattern:
			add("remove=same-spelling")
		default:
			add("remove=other-spelling")
		}
		if ok && isSuffix(l, q) {
			add("remove-hits-matching-pattern")
		}
		delete(live, k)
	}
	if out == nil {
		out = []string{"remove=none"}
	}
	return out
}

// knownClass: DS routing classes of finding #15 (DESIGN §4) and of the round-7 finding
// (DS query for a name that is not itself registered, >= 2 registered suffixes).
func knownClass(c muxCase, matches []int, rootRegistered bool, apex bool) string {
	if c.QType != dns.TypeDS || c.NQ == 0 {
		return ""
	}
	if !apex && len(matches) >= 2 {
		return knownDSBelow
	}
	nonroot := len(matches)
	if rootRegistered {
		nonroot--
	}
	switch {
	case rootRegistered && nonroot >= 2:
		return knownDSRoot
	case !rootRegistered && nonroot >= 3:
		return knownDSTop
	}
	return ""
}

func rootRegistered(c muxCase) bool { return rootAt(c, len(c.ops())) }

func rootAt(c muxCase, nops int) bool {
	root := false
	for _, op := range c.ops()[:nops] {
		if op.Lookup {
			continue
		}
		if l, err := lowerLabels(op.Pattern); err == nil && len(l) == 0 {
			root = !op.Remove
		}
	}
	return root
}

func (c muxCase) request() *dns.Msg {
	r := new(dns.Msg)
	r.Id = c.ID
	r.Opcode = c.Opcode
	r.RecursionDesired = c.RD
	r.CheckingDisabled = c.CD
	r.AuthenticatedData = c.AD
	r.Truncated = c.TC
	if c.NQ >= 1 {
		r.Question = append(r.Question, dns.Question{Name: c.QName, Qtype: c.QType, Qclass: dns.ClassINET})
	}
	if c.NQ >= 2 {
		r.Question = append(r.Question, dns.Question{Name: "second.example.", Qtype: dns.TypeTXT, Qclass: dns.ClassINET})
	}
	return r
}

func checkRefused(c muxCase, req *dns.Msg, w *capture) error {
	if len(w.msgs) != 1 || len(w.raw) != 0 {
		return pbt.Errf("no handler matches: expected exactly one REFUSED reply, got %d messages", len(w.msgs)+len(w.raw))
	}
	m := w.msgs[0]
	if m.Id != c.ID || !m.Response || m.Rcode != dns.RcodeRefused || m.Opcode != c.Opcode {
		return pbt.Errf("REFUSED reply: id=%d qr=%v rcode=%d opcode=%d for request id=%d opcode=%d", m.Id, m.Response, m.Rcode, m.Opcode, c.ID, c.Opcode)
	}
	if c.Opcode == dns.OpcodeQuery && (m.RecursionDesired != c.RD || m.CheckingDisabled != c.CD) {
		return pbt.Errf("REFUSED reply to a query: rd=%v cd=%v, request rd=%v cd=%v", m.RecursionDesired, m.CheckingDisabled, c.RD, c.CD)
	}
	if c.NQ == 0 {
		if len(m.Question) != 0 {
			return pbt.Errf("REFUSED reply has a question although the request had none")
		}
	} else if len(m.Question) != 1 || m.Question[0] != req.Question[0] {
		return pbt.Errf("REFUSED reply question %v, request's first question %v", m.Question, req.Question[0])
	}
	if len(m.Answer)+len(m.Ns)+len(m.Extra) != 0 {
		return pbt.Errf("REFUSED reply carries records")
	}
	if _, err := m.Pack(); err != nil {
		return pbt.Errf("REFUSED reply does not pack: %v", err)
	}
	return nil
}

func (c muxCase) opsText() string {
	var sb strings.Builder
	for i, op := range c.ops() {
		if op.Lookup {
			fmt.Fprintf(&sb, "[#%d ServeDNS]", i)
		} else if op.Remove {
			fmt.Fprintf(&sb, "[#%d HandleRemove(%q)]", i, op.Pattern)
		} else {
			fmt.Fprintf(&sb, "[#%d Handle(%q)]", i, op.Pattern)
		}
	}
	return sb.String()
}

func textBucket(n int) string {
	switch {
	case n >= 1004:
		return "1004+"
	case n >= 1000:
		return "1000-1003"
	case n >= 500:
		return "500-999"
	}
	return "240-499"
}

func checkMux(c muxCase) error {
	if len(c.Patterns) > 8 || len(c.Ops) > 48 || c.NQ < 0 || c.NQ > 2 || c.Opcode < 0 || c.Opcode > 15 {
		pbt.Note(nil, false, "invalid-case")
		return nil
	}
	for _, op := range c.ops() {
		if op.Pattern == "" && !op.Lookup {
			pbt.Note(nil, false, "invalid-case")
			return nil
		}
	}
	if c.Pre < 0 || c.Pre > 3 || (c.Fresh != "" && c.Fresh != "new" && c.Fresh != "zero") {
		pbt.Note(nil, false, "invalid-case")
		return nil
	}
	want, matches, err := route(c)
	if err != nil {
		pbt.Note(nil, false, "invalid-case")
		return nil
	}
	kb, _ := json.Marshal(c)
	ds := c.QType == dns.TypeDS
	cls := []string{fmt.Sprintf("matches=%d", min(len(matches), 4)), fmt.Sprintf("ds=%v", ds), fmt.Sprintf("root=%v", rootRegistered(c)), fmt.Sprintf("nq=%d", c.NQ)}
	if want < 0 {
		cls = append(cls, "expect=refused")
	} else {
		cls = append(cls, "expect=handler")
	}
	if strings.Contains(c.QName, `\.`) {
		cls = append(cls, "escaped-dot-in-qname")
	}
	if len(c.QName) >= 240 {
		ql, _, _ := wm.UnescName(c.QName)
		cls = append(cls, fmt.Sprintf("qname-wire=%d", ql.WireLen()), "qname-text="+textBucket(len(c.QName)))
	}
	rc := removalClasses(c)
	cls = append(cls, rc...)
	removalMatters := false
	for _, x := range rc {
		if x == "remove-hits-matching-pattern" {
			removalMatters = true
		}
	}
	if k := knownClass(c, matches, rootRegistered(c), apexAt(c, len(c.ops()))); k != "" {
		cls = append(cls, "known-class="+k)
	}
	if ds && len(matches) > 0 {
		if apexAt(c, len(c.ops())) {
			cls = append(cls, fmt.Sprintf("ds-qname=registered-apex/ancestors=%d", min(len(matches)-1, 3)))
		} else {
			cls = append(cls, fmt.Sprintf("ds-qname=below-the-zones/ancestors=%d", min(len(matches), 3)))
		}
	}
	pbt.Note(kb, len(matches) >= 2 || removalMatters || len(c.QName) >= 240, cls...)

	fresh := "new"
	if c.Fresh == "zero" {
		fresh = "zero"
	}
	cls2 := []string{"mux=" + fresh, fmt.Sprintf("lookups-before-first-registration=%d", c.Pre)}
	if c.Pre > 0 && len(c.ops()) > 0 {
		cls2 = append(cls2, "lookup-then-registration-then-lookup")
	}
	nl := 0
	for _, op := range c.Ops {
		if op.Lookup {
			nl++
		}
	}
	if nl > 0 {
		cls2 = append(cls2, "intermediate-lookups")
	}
	pbt.Class(cls2...)

	// Every operation runs under a watchdog: a mux operation or a request that does not return is
	// reported at once (and not retried: each attempt would leave a stuck goroutine behind).
	var step atomic.Value
	step.Store("start")
	done := make(chan error, 1)
	go func() { done <- runMux(c, want, matches, &step) }()
	select {
	case err := <-done:
		return err
	case <-time.After(muxWatchdog):
		return pbt.NoShrink{Err: pbt.Errf("mux %s, operations %s question %q: %v did not return within %v (every later Handle/HandleRemove/ServeDNS on this mux would block as well)",
			fresh, c.opsText(), c.QName, step.Load(), muxWatchdog)}
	}
}

const muxWatchdog = 10 * time.Second

// runMux executes the case: lookups on the fresh mux, the operation sequence with its intermediate
// lookups (each compared with the reference for the operations done so far), the final lookup.
func runMux(c muxCase, want int, matches []int, step *atomic.Value) error {
	var mux *dns.ServeMux
	if c.Fresh == "zero" {
		mux = new(dns.ServeMux) // "The zero ServeMux is empty and ready for use."
	} else {
		mux = dns.NewServeMux()
	}
	var called []int
	lookup := func(at int, want int, matches []int, what string) error {
		called = nil
		req := c.request()
		w := &capture{}
		step.Store(what)
		mux.ServeDNS(w, req)
		if want < 0 {
			if len(called) != 0 {
				return pbt.Errf("operations %s question %q type %d, %s: handler of %q (#%d) called, expected REFUSED", c.opsText(), c.QName, c.QType, what, c.opName(called[0]), called[0])
			}
			return checkRefused(c, req, w)
		}
		if len(called) != 1 || called[0] != want {
			got := "REFUSED/none"
			if len(called) > 0 {
				got = fmt.Sprintf("%q (#%d)", c.opName(called[0]), called[0])
			}
			return pbt.Errf("operations %s question %q type %s, %s: routed to %s, expected %q (#%d); matching registrations longest first: %v",
				c.opsText(), c.QName, dns.Type(c.QType), what, got, c.opName(want), want, matches)
		}
		if len(w.msgs)+len(w.raw) != 0 {
			return pbt.Errf("the mux wrote a reply although a handler was found")
		}
		return nil
	}
	for k := 0; k < c.Pre; k++ {
		if err := lookup(0, -1, nil, fmt.Sprintf("ServeDNS #%d on the fresh mux (before any registration)", k)); err != nil {
			return err
		}
	}
	for i, op := range c.ops() {
		i := i
		switch {
		case op.Lookup:
			w, m, err := routeAt(c, i)
			if err != nil {
				return nil
			}
			if k := knownClass(c, m, rootAt(c, i), apexAt(c, i)); k != "" && excludedNow(k, c, m) {
				continue
			}
			if err := lookup(i, w, m, fmt.Sprintf("ServeDNS at step #%d", i)); err != nil {
				return err
			}
		case op.Remove:
			step.Store(fmt.Sprintf("step #%d HandleRemove(%q)", i, op.Pattern))
			mux.HandleRemove(op.Pattern)
		default:
			step.Store(fmt.Sprintf("step #%d Handle(%q)", i, op.Pattern))
			mux.HandleFunc(op.Pattern, func(w dns.ResponseWriter, r *dns.Msg) { called = append(called, i) })
		}
	}
	return lookup(len(c.ops()), want, matches, "final ServeDNS")
}

// ---------------------------------------------------------------------------------------------
// generator

var muxLabels = []string{"a", "b", "c", "A", `a\.b`}

func genMuxName(t *rapid.T, maxDepth int, label string) string {
	n := rapid.IntRange(0, maxDepth).Draw(t, label+"depth")
	if n == 0 {
		return "."
	}
	ls := make([]string, n)
	for i := range ls {
		ls[i] = rapid.SampledFrom(muxLabels).Draw(t, label)
	}
	return strings.Join(ls, ".") + "."
}

func flipCase(t *rapid.T, s string) string {
	b := []byte(s)
	for i := range b {
		if (b[i] >= 'a' && b[i] <= 'z' || b[i] >= 'A' && b[i] <= 'Z') && rapid.IntRange(0, 3).Draw(t, "flip") == 0 {
			b[i] ^= 0x20
		}
	}
	return string(b)
}

// ---------------------------------------------------------------------------------------------
// names at the size limits: wire length 240..255 in maximal labels, every octet from one escaping
// class (plain, needs \c, needs \DDD), so that the presentation form runs up to its maximum of
// 1004 characters

var fillOctets = []byte{'a', 'Z', '7', '.', '\\', ' ', '"', 0x00, 0x1f, 0x7f, 0x80, 0xff}

// limitName builds a name of exactly wire octets on the wire (1 <= wire <= 255): labels as long as
// possible, rotated by rot, every octet = fill (fill2 on every alt-th octet when alt > 0).
func limitName(wire int, fill, fill2 byte, alt, rot int) wm.Name {
	var lens []int
	left := wire - 1
	for left > 0 {
		l := 63
		if l > left-1 {
			l = left - 1
		}
		if l == 0 { // one octet left cannot hold a label: shorten the previous one
			lens[len(lens)-1]--
			l = 1
		}
		lens = append(lens, l)
		left -= l + 1
	}
	var n wm.Name
	k := 0
	for i := range lens {
		l := make([]byte, lens[(i+rot)%len(lens)])
		for j := range l {
			l[j] = fill
			if k++; alt > 0 && k%alt == 0 {
				l[j] = fill2
			}
		}
		n = append(n, l)
	}
	return n
}

// limitCase: question = the limit name; registered = none / root / suffixes of the name.
func limitCase(n wm.Name, pats int, qtype uint16) muxCase {
	c := muxCase{QName: wm.EscName(n), QType: qtype, NQ: 1, ID: 77, RD: true}
	suffix := func(k int) string {
		if k > len(n) {
			k = len(n)
		}
		return wm.EscName(n[len(n)-k:])
	}
	switch pats {
	case 1:
		c.Patterns = []string{"."}
	case 2:
		c.Patterns = []string{suffix(1)}
	case 3:
		c.Patterns = []string{".", suffix(2), suffix(1)}
	case 4:
		c.Patterns = []string{suffix(len(n))}
	case 5:
		c.Patterns = []string{suffix(len(n) - 1), "x."}
	}
	return c
}

func eachLimitName(emit func(muxCase)) {
	lo := 250
	if pbt.Thorough() {
		lo = 1
	}
	for wire := lo; wire <= 255; wire++ {
		if wire == 2 || (wire > 8 && wire < 240 && wire%16 != 0) {
			continue // no name is 2 octets long on the wire
		}
		for _, f := range fillOctets {
			for rot := 0; rot < 4; rot++ {
				for pats := 0; pats <= 5; pats++ {
					for _, qt := range []uint16{dns.TypeA, dns.TypeDS} {
						if wire == 1 && (rot > 0 || pats > 1) {
							continue
						}
						lc := limitCase(limitName(wire, f, 0, 0, rot), pats, qt)
						// known DS routing findings: their class is left out of the enumeration
						// while they reproduce (the A query of the same name and patterns stays)
						if _, matches, err := route(lc); err == nil {
							if k := knownClass(lc, matches, rootRegistered(lc), apexAt(lc, len(lc.ops()))); k != "" && excludedNow(k, lc, matches) {
								pbt.Excluded(k)
								continue
							}
						}
						emit(lc)
					}
				}
			}
		}
	}
}

var muxTypes = []uint16{dns.TypeA, dns.TypeDS, dns.TypeDS, dns.TypeNS, dns.TypeSOA, dns.TypeDNSKEY, dns.TypeANY, dns.TypeCDS}

func genMux(t *rapid.T) muxCase {
	var c muxCase
	c.QName = genMuxName(t, 5, "q")
	if c.QName == "." && rapid.IntRange(0, 3).Draw(t, "notroot") > 0 {
		c.QName = rapid.SampledFrom(muxLabels).Draw(t, "q1") + "." + strings.TrimPrefix(genMuxName(t, 4, "q"), ".")
	}
	qlabels := strings.Split(strings.TrimSuffix(c.QName, "."), ".")
	if c.QName == "." {
		qlabels = nil
	}
	np := rapid.IntRange(0, 6).Draw(t, "npat")
	for i := 0; i < np; i++ {
		var p string
		switch rapid.IntRange(0, 9).Draw(t, "pk") {
		case 0:
			p = "."
		case 1:
			p = genMuxName(t, 4, "p")
		default: // a suffix of the question name (split on the dots that separate the generated labels)
			k := 0
			if len(qlabels) > 0 {
				k = rapid.IntRange(1, min(len(qlabels), 4)).Draw(t, "suffix")
			}
			if k == 0 {
				p = genMuxName(t, 2, "p")
			} else {
				p = strings.Join(qlabels[len(qlabels)-k:], ".") + "."
			}
		}
		p = flipCase(t, p)
		if p != "." && rapid.IntRange(0, 4).Draw(t, "unqualified") == 0 {
			p = strings.TrimSuffix(p, ".")
		}
		c.Patterns = append(c.Patterns, p)
	}
	// turn the tail of the Handle list into a generated operation sequence: removals of names
	// registered earlier (re-spelled: other letter case, with/without the trailing dot) or of
	// unrelated names, and re-registrations after a removal
	if len(c.Patterns) > 0 && rapid.IntRange(0, 9).Draw(t, "withops") < 6 {
		keep := rapid.IntRange(0, len(c.Patterns)).Draw(t, "keep")
		tail := c.Patterns[keep:]
		c.Patterns = c.Patterns[:keep:keep]
		var handled []string
		handled = append(handled, c.Patterns...)
		respell := func(p string) string {
			p = flipCase(t, p)
			if p != "." {
				if rapid.Bool().Draw(t, "dot") {
					p = strings.TrimSuffix(p, ".") + "."
				} else {
					p = strings.TrimSuffix(p, ".")
				}
			}
			return p
		}
		for _, p := range tail {
			c.Ops = append(c.Ops, regOp{Pattern: p})
			handled = append(handled, p)
			for rapid.IntRange(0, 9).Draw(t, "rm") < 4 && len(c.Ops) < 14 {
				var victim string
				switch k := rapid.IntRange(0, 9).Draw(t, "victim"); {
				case k == 0:
					victim = genMuxName(t, 3, "rp")
				case k <= 3:
					victim = handled[rapid.IntRange(0, len(handled)-1).Draw(t, "which")]
				default:
					victim = respell(handled[rapid.IntRange(0, len(handled)-1).Draw(t, "which")])
				}
				c.Ops = append(c.Ops, regOp{Remove: true, Pattern: victim})
				if rapid.IntRange(0, 4).Draw(t, "again") == 0 {
					c.Ops = append(c.Ops, regOp{Pattern: respell(victim)})
					handled = append(handled, victim)
				}
			}
		}
		if len(c.Ops) == 0 && len(handled) > 0 {
			c.Ops = append(c.Ops, regOp{Remove: true, Pattern: respell(handled[rapid.IntRange(0, len(handled)-1).Draw(t, "which")])})
		}
	}
	c.QName = flipCase(t, c.QName)
	c.QType = rapid.SampledFrom(muxTypes).Draw(t, "qtype")
	if rapid.IntRange(0, 19).Draw(t, "limitname") == 3 {
		// a question name at (or near) the 255-octet limit, filled from one escaping class
		wire := 255 - rapid.SampledFrom([]int{0, 0, 0, 1, 2, 3, 5, 15}).Draw(t, "short")
		f := rapid.SampledFrom(fillOctets).Draw(t, "fill")
		f2 := rapid.SampledFrom(fillOctets).Draw(t, "fill2")
		alt := rapid.SampledFrom([]int{0, 0, 0, 2, 7, 250}).Draw(t, "alt")
		lc := limitCase(limitName(wire, f, f2, alt, rapid.IntRange(0, 3).Draw(t, "rot")), rapid.IntRange(0, 5).Draw(t, "pats"), c.QType)
		c.QName, c.Patterns, c.Ops = lc.QName, lc.Patterns, nil
		if len(c.Patterns) > 0 && rapid.Bool().Draw(t, "rmroot") {
			c.Ops = []regOp{{Remove: true, Pattern: c.Patterns[0]}}
		}
	}
	// life cycle: how the mux is created, requests served before the first registration, and
	// requests between the registration operations
	if rapid.IntRange(0, 3).Draw(t, "zeromux") == 0 {
		c.Fresh = "zero"
	}
	if rapid.IntRange(0, 3).Draw(t, "prelookup") == 0 {
		c.Pre = rapid.IntRange(1, 2).Draw(t, "pre")
	}
	if rapid.IntRange(0, 3).Draw(t, "midlookups") == 0 {
		if len(c.Ops) == 0 && len(c.Patterns) > 0 { // make room for lookups between the registrations
			for _, p := range c.Patterns {
				c.Ops = append(c.Ops, regOp{Pattern: p})
			}
			c.Patterns = nil
		}
		var ops []regOp
		for _, op := range c.Ops {
			if rapid.IntRange(0, 2).Draw(t, "lk") == 0 {
				ops = append(ops, regOp{Lookup: true})
			}
			ops = append(ops, op)
		}
		c.Ops = ops
	}
	c.NQ = rapid.SampledFrom([]int{1, 1, 1, 1, 1, 1, 1, 1, 1, 1, 2, 2, 0}).Draw(t, "nq")
	c.ID = uint16(rapid.IntRange(0, 65535).Draw(t, "id"))
	if rapid.IntRange(0, 3).Draw(t, "otherop") == 0 {
		c.Opcode = rapid.IntRange(0, 15).Draw(t, "opcode")
	}
	c.RD, c.CD = rapid.Bool().Draw(t, "rd"), rapid.Bool().Draw(t, "cd")
	c.AD, c.TC = rapid.Bool().Draw(t, "ad"), rapid.Bool().Draw(t, "tc")
	// known DS routing findings: while they reproduce, ask for another type instead
	if _, matches, err := route(c); err == nil {
		if k := knownClass(c, matches, rootRegistered(c), apexAt(c, len(c.ops()))); k != "" && excludedNow(k, c, matches) {
			pbt.Excluded(k)
			c.QType = dns.TypeDNSKEY
		}
	}
	return c
}

// excludedNow: the class k is only left out while the finding(s) that make the library fail on it
// still reproduce. With the root registered and >= 3 nested zones both findings apply.
func excludedNow(k string, c muxCase, matches []int) bool {
	switch k {
	case knownDSBelow:
		return pbt.Known(knownDSBelow)
	case knownDSTop:
		return pbt.Known(knownDSTop)
	case knownDSRoot:
		if pbt.Known(knownDSRoot) {
			return true
		}
		return len(matches)-1 >= 3 && pbt.Known(knownDSTop)
	}
	return false
}

// ---------------------------------------------------------------------------------------------
// concurrent Handle / HandleRemove / ServeDNS (meaningful under -race; the routing invariant is
// checked in any binary): every request is answered by REFUSED or by the handler of a pattern
// that was registered at some point of the run and is a label-boundary suffix of the name.

type muxOp struct {
	Op      int // 0 Handle, 1 HandleRemove, 2 ServeDNS
	Pattern string
	QName   string
	QType   uint16
}

type muxRaceCase struct {
	Initial []string
	Workers [][]muxOp
}

func genMuxRace(t *rapid.T) muxRaceCase {
	var c muxRaceCase
	for i := rapid.IntRange(0, 3).Draw(t, "ninit"); i > 0; i-- {
		c.Initial = append(c.Initial, genMuxName(t, 3, "ip"))
	}
	nw := rapid.IntRange(2, 6).Draw(t, "workers")
	for w := 0; w < nw; w++ {
		var ops []muxOp
		for i := rapid.IntRange(1, 40).Draw(t, "nops"); i > 0; i-- {
			op := muxOp{Op: rapid.SampledFrom([]int{0, 1, 2, 2}).Draw(t, "op")}
			op.Pattern = flipCase(t, genMuxName(t, 3, "p"))
			op.QName = flipCase(t, genMuxName(t, 4, "q"))
			op.QType = rapid.SampledFrom([]uint16{dns.TypeA, dns.TypeDS, dns.TypeNS}).Draw(t, "qt")
			ops = append(ops, op)
		}
		c.Workers = append(c.Workers, ops)
	}
	return c
}

func checkMuxRace(c muxRaceCase) error {
	if len(c.Workers) == 0 || len(c.Workers) > 16 {
		pbt.Note(nil, false, "invalid-case")
		return nil
	}
	kb, _ := json.Marshal(c)
	nops := 0
	for _, w := range c.Workers {
		nops += len(w)
	}
	pbt.Note(kb, nops >= 4, fmt.Sprintf("workers=%d", len(c.Workers)))
	mux := dns.NewServeMux()
	var mu sync.Mutex
	var errs []string
	mk := func(p string) dns.HandlerFunc {
		pl, _ := lowerLabels(p)
		return func(w dns.ResponseWriter, r *dns.Msg) {
			ql, err := lowerLabels(r.Question[0].Name)
			if err != nil || !isSuffix(pl, ql) {
				mu.Lock()
				errs = append(errs, fmt.Sprintf("handler of %q called for %q", p, r.Question[0].Name))
				mu.Unlock()
			}
			w.Write(nil) // marks "handled"
		}
	}
	for _, p := range c.Initial {
		mux.Handle(p, mk(p))
	}
	var wg sync.WaitGroup
	start := make(chan struct{})
	for _, ops := range c.Workers {
		wg.Add(1)
		go func(ops []muxOp) {
			defer wg.Done()
			<-start
			for _, op := range ops {
				switch op.Op {
				case 0:
					mux.Handle(op.Pattern, mk(op.Pattern))
				case 1:
					mux.HandleRemove(op.Pattern)
				default:
					r := new(dns.Msg)
					r.SetQuestion(op.QName, op.QType)
					w := &capture{}
					mux.ServeDNS(w, r)
					bad := ""
					switch {
					case len(w.raw) == 1 && len(w.msgs) == 0: // a handler ran
					case len(w.raw) == 0 && len(w.msgs) == 1:
						if m := w.msgs[0]; m.Rcode != dns.RcodeRefused || m.Id != r.Id || !m.Response {
							bad = "reply is not REFUSED with the request's id"
						}
					default:
						bad = fmt.Sprintf("%d handler runs and %d replies for one request", len(w.raw), len(w.msgs))
					}
					if bad != "" {
						mu.Lock()
						errs = append(errs, bad)
						mu.Unlock()
					}
				}
			}
		}(ops)
	}
	close(start)
	fin := make(chan struct{})
	go func() { wg.Wait(); close(fin) }()
	select {
	case <-fin:
	case <-time.After(muxWatchdog):
		return pbt.NoShrink{Err: pbt.Errf("concurrent mux use: the workers did not finish within %v (a mux operation or request does not return)", muxWatchdog)}
	}
	if len(errs) > 0 {
		return pbt.Errf("concurrent mux use: %s", strings.Join(errs, "; "))
	}
	return nil
}

func init() {
	pbt.Register(pbt.Sub[muxCase]{Name: "mux-routing", Weight: 200, Gen: genMux, Check: checkMux})
	pbt.RegisterEnum(pbt.Enum[muxCase]{Name: "mux-limit-names", Exhaustive: true, Each: eachLimitName, Check: checkMux})
	pbt.Register(pbt.Sub[muxRaceCase]{Name: "mux-concurrent", Weight: 2, Gen: genMuxRace, Check: checkMuxRace})

	pbt.Probe(knownDSTop, func() error {
		return checkMux(muxCase{Patterns: []string{"a.", "b.a.", "c.b.a."}, QName: "c.b.a.", QType: dns.TypeDS, NQ: 1, ID: 1})
	})
	// round 7: the question name is below the registered zones, not one of them
	pbt.Probe(knownDSBelow, func() error {
		return checkMux(muxCase{Patterns: []string{"example.com.", "com."}, QName: "www.example.com.", QType: dns.TypeDS, NQ: 1, ID: 1})
	})
	pbt.Probe(knownDSRoot, func() error {
		return checkMux(muxCase{Patterns: []string{".", "a.", "b.a."}, QName: "b.a.", QType: dns.TypeDS, NQ: 1, ID: 1})
	})
}
