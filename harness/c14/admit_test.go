package c14

import (
	"bytes"
	"encoding/binary"
	"encoding/hex"
	"encoding/json"
	"errors"
	"fmt"
	"io"
	"net"
	"reflect"
	"sort"
	"sync"
	"sync/atomic"
	"time"

	"github.com/miekg/dns"
	"pgregory.net/rapid"

	"verif/harness/pbt"
)

// ---------------------------------------------------------------------------------------------
// (a) admission: what happens to each inbound packet

const watchdog = 30 * time.Second

const (
	actAccept = 0
	actReject = 1
	actIgnore = 2
	actNotImp = 3
)

type policySpec struct {
	Kind  string // "default" (the server's own default policy), "table" (generated function on Server.MsgAcceptFunc) or "global" (the same kind of function installed through the package variable dns.DefaultMsgAcceptFunc, Server field nil)
	Table []int  // actions 0..3
	Salt  int
}

type admitCase struct {
	Transport string // udp | tcp (in-memory) | udp-real | tcp-real (loopback sockets)
	UDPSize   int    // 0 = default (512)
	Policy    policySpec
	Packets   [][]byte
	ConnOf    []int // tcp: connection carrying each packet (0..2); ignored for udp
	Seg       []int // tcp (in-memory): the server's k-th Read on a connection returns at most Seg[k mod len] octets - the client's stream arrives chopped at these offsets, also between the two length octets
	// in-memory transports only (loopback sockets keep ReadTimeout = IdleTimeout = 1 h and ignore all of this):
	Timeouts timeoutSpec // Server.ReadTimeout / WriteTimeout / IdleTimeout
	Pauses   []pauseSpec // the client lets time pass before it sends packet Before (tcp: on that packet's connection), on the transport's virtual clock
	Handler  string      // "" = a plain HandlerFunc; "mux" = a ServeMux of its own with the handler registered for example.org.; "default-mux" = Server.Handler nil, the handler registered with dns.Handle
	NoAddr   []int       // udp (in-memory): packets whose sender has no address - ReadFrom returns a nil net.Addr, as a unixgram socket does for an unbound client
	Tails    [][]byte    // tcp, tcp-real: Tails[k] = what the client still writes on connection k after its last complete frame before it closes its sending side: the beginning of a frame that never arrives completely (one length octet, or a length and fewer octets than it announces); see tail_test.go
	InFlight bool        // udp (in-memory), one run: the last datagram is in flight when Shutdown begins - the socket read that took it returns to the serve loop only after Shutdown has marked the server as stopping (inflight_test.go)
	Restart  int         // udp (in-memory), no pauses: k > 0 = packets [0,k) are served by a first run of the Server value, which ShutdownContext with an expired context ends while the report about a last datagram shorter than a header is still open, the rest by a second run on a new socket (restart_test.go); 0 = one run
}

// timeoutSpec: milliseconds; 0 leaves the Server field at its zero value, for which server.go
// documents 2 s (ReadTimeout, WriteTimeout) and 8 s (IdleTimeout nil).
type timeoutSpec struct{ ReadMs, WriteMs, IdleMs int64 }

type pauseSpec struct {
	Before int   // index into Packets
	Ms     int64 // length of the pause
}

func msDur(ms int64) time.Duration { return time.Duration(ms) * time.Millisecond }

func (ts timeoutSpec) read() time.Duration {
	if ts.ReadMs != 0 {
		return msDur(ts.ReadMs)
	}
	return 2 * time.Second
}
func (ts timeoutSpec) write() time.Duration {
	if ts.WriteMs != 0 {
		return msDur(ts.WriteMs)
	}
	return 2 * time.Second
}
func (ts timeoutSpec) idle() time.Duration {
	if ts.IdleMs != 0 {
		return msDur(ts.IdleMs)
	}
	return 8 * time.Second
}

func (ts timeoutSpec) apply(srv *dns.Server) {
	srv.ReadTimeout, srv.WriteTimeout = msDur(ts.ReadMs), msDur(ts.WriteMs)
	if ts.IdleMs != 0 {
		d := msDur(ts.IdleMs)
		srv.IdleTimeout = func() time.Duration { return d }
	}
}

// maxPause: how long a client may stay silent in front of a read with the given timeout and still
// count as "within the timeout" for this check: half of it, and nothing when the timeout is below
// 2 s (the distance between the pause and the deadline - at least a second - is the only quantity
// that is compared with wall-clock scheduling delays, see vclock).
func maxPause(limit time.Duration) time.Duration {
	if limit < 2*time.Second {
		return 0
	}
	return limit / 2
}

// pauseBefore: total pause in front of packet i.
func (c admitCase) pauseBefore(i int) time.Duration {
	var d time.Duration
	for _, p := range c.Pauses {
		if p.Before == i {
			d += msDur(p.Ms)
		}
	}
	return d
}

func (c admitCase) noAddr(i int) bool {
	for _, k := range c.NoAddr {
		if k == i {
			return true
		}
	}
	return false
}

// firstOnConn: packet i is the first one on its stream connection.
func (c admitCase) firstOnConn(i int) bool {
	for j := 0; j < i; j++ {
		if c.connOf(j) == c.connOf(i) {
			return false
		}
	}
	return true
}

func msClass(ms int64) string {
	if ms == 0 {
		return "zero-value"
	}
	return msDur(ms).String()
}

// timeClasses: the configuration and time dimension of a case on an in-memory transport.
func (c admitCase) timeClasses(exp []expect) []string {
	ts := c.Timeouts
	cl := []string{"read-timeout=" + msClass(ts.ReadMs), "write-timeout=" + msClass(ts.WriteMs), "idle-timeout=" + msClass(ts.IdleMs)}
	if len(c.NoAddr) > 0 {
		cl = append(cl, "sender-without-address")
	}
	if len(c.Pauses) == 0 {
		return append(cl, "pauses=0")
	}
	cl = append(cl, fmt.Sprintf("pauses=%d", min(len(c.Pauses), 3)))
	// does a reply fall due after the client has been silent, since the connection (the socket) came
	// to life, for longer than the write timeout?
	silent := map[int]time.Duration{}
	late := false
	for i, e := range exp {
		k := 0
		if c.Transport == "tcp" {
			k = c.connOf(i)
		}
		silent[k] += c.pauseBefore(i)
		if silent[k] > ts.write() && e.replies > 0 && !c.noAddr(i) {
			late = true
		}
	}
	if late {
		return append(cl, "reply-due-after-silence>write-timeout")
	}
	return append(cl, "silence<=write-timeout")
}

func (c admitCase) inMemory() bool { return c.Transport == "udp" || c.Transport == "tcp" }

// wellFormed: the parts of the case the oracle's model does not cover are refused, not guessed.
func (c admitCase) wellFormed() bool {
	switch c.Handler {
	case "", "mux", "default-mux":
	default:
		return false
	}
	if !c.tailsWellFormed() {
		return false
	}
	if !c.inMemory() {
		return true
	}
	for _, p := range c.Pauses {
		if p.Before < 0 || p.Before >= len(c.Packets) || p.Ms < 0 || p.Ms > 1<<40 {
			return false
		}
	}
	for _, k := range c.NoAddr {
		if k < 0 || k >= len(c.Packets) || c.Transport != "udp" {
			return false
		}
	}
	if c.Timeouts.ReadMs < 0 || c.Timeouts.WriteMs < 0 || c.Timeouts.IdleMs < 0 {
		return false
	}
	if c.InFlight && (c.Transport != "udp" || c.Restart != 0) {
		return false
	}
	if c.Restart != 0 && (c.Restart < 0 || c.Restart >= len(c.Packets) || c.Transport != "udp" || len(c.Pauses) > 0) {
		return false
	}
	if c.Transport == "tcp" {
		// a pause that comes near the read / idle timeout in force may legitimately end the connection
		for i := range c.Packets {
			limit := c.Timeouts.idle()
			if c.firstOnConn(i) {
				limit = c.Timeouts.read()
			}
			if c.pauseBefore(i) > maxPause(limit) {
				return false
			}
		}
	}
	return true
}

type hdr struct{ id, bits, qd, an, ns, ar uint16 }

func parseHdr(b []byte) hdr {
	return hdr{binary.BigEndian.Uint16(b[0:]), binary.BigEndian.Uint16(b[2:]), binary.BigEndian.Uint16(b[4:]),
		binary.BigEndian.Uint16(b[6:]), binary.BigEndian.Uint16(b[8:]), binary.BigEndian.Uint16(b[10:])}
}

func (h hdr) opcode() int { return int(h.bits>>11) & 0xf }
func (h hdr) qr() bool    { return h.bits&0x8000 != 0 }
func (h hdr) rcode() int  { return int(h.bits & 0xf) }

// refDefault is the documented default policy (DESIGN §3 C14 / acceptfunc.go doc comment + RFC 1995/1996 allowances).
func refDefault(h hdr) int {
	if h.qr() {
		return actIgnore
	}
	if op := h.opcode(); op != 0 && op != 4 {
		return actNotImp
	}
	if h.qd != 1 || h.an > 1 || h.ns > 1 || h.ar > 2 {
		return actReject
	}
	return actAccept
}

func (p policySpec) custom() bool { return p.Kind == "table" || p.Kind == "global" }

func (p policySpec) act(h hdr) int {
	if !p.custom() || len(p.Table) == 0 {
		return refDefault(h)
	}
	m := func(v uint16, max int) int {
		if int(v) > max {
			return max
		}
		return int(v)
	}
	k := int(h.bits>>11) & 0x1f
	k = k*4 + m(h.qd, 3)
	k = k*3 + m(h.an, 2)
	k = k*2 + int(h.id&1)
	k += p.Salt
	a := p.Table[((k%len(p.Table))+len(p.Table))%len(p.Table)]
	return ((a % 4) + 4) % 4
}

type handledCall struct {
	port int
	req  *dns.Msg
}

type observer struct {
	mu      sync.Mutex
	handled []handledCall
	invalid [][]byte
	policy  []hdr
	panics  []string // panics of ResponseWriter methods called by the handler
	cleanup func()
	// hold, when set, keeps a MsgInvalidFunc call from returning for a moment (in-memory datagram
	// transport: until the serve loop has read on, see holdReport); changed lists the reports whose
	// octets were different when the callback returned from what they were when it was entered
	hold    func(short bool) bool
	held    int
	changed []string
}

// remotePort asks the ResponseWriter for the client's address the way handlers do (logging, access
// control); a panic inside the library's method is caught here, in the handler's own frame, so that
// it is reported instead of ending the process.
func remotePort(w dns.ResponseWriter) (port int, panicked string) {
	defer func() {
		if r := recover(); r != nil {
			port, panicked = -2, fmt.Sprint(r)
		}
	}()
	return portOf(w.RemoteAddr()), ""
}

const muxZone = "example.org."

var markerTXT = &dns.TXT{Hdr: dns.RR_Header{Name: "handled.", Rrtype: dns.TypeTXT, Class: dns.ClassINET}, Txt: []string{"h"}}

func portOf(a net.Addr) int {
	switch x := a.(type) {
	case *net.UDPAddr:
		if x == nil {
			return -1
		}
		return x.Port
	case *net.TCPAddr:
		if x == nil {
			return -1
		}
		return x.Port
	}
	return -1
}

func (o *observer) configure(srv *dns.Server, p policySpec, handler string) {
	h := dns.HandlerFunc(func(w dns.ResponseWriter, r *dns.Msg) {
		port, panicked := remotePort(w)
		o.mu.Lock()
		o.handled = append(o.handled, handledCall{port, r})
		if panicked != "" {
			o.panics = append(o.panics, "ResponseWriter.RemoteAddr, called by the handler: "+panicked)
		}
		o.mu.Unlock()
		m := new(dns.Msg)
		m.Id = r.Id
		m.Response = true
		m.Opcode = r.Opcode
		m.Answer = []dns.RR{markerTXT}
		w.WriteMsg(m)
	})
	o.cleanup = func() {}
	switch handler {
	case "mux":
		mux := dns.NewServeMux()
		mux.Handle(muxZone, h)
		srv.Handler = mux
	case "default-mux":
		// Server.Handler nil: "dns.DefaultServeMux if nil"; checkAdmit removes the pattern when the case is over
		dns.Handle(muxZone, h)
		o.cleanup = func() { dns.HandleRemove(muxZone) }
	default:
		srv.Handler = h
	}
	srv.MsgInvalidFunc = func(m []byte, err error) {
		bufferMu.Lock()
		c := append([]byte{}, m...)
		bufferMu.Unlock()
		o.mu.Lock()
		o.invalid = append(o.invalid, c)
		hold := o.hold
		o.mu.Unlock()
		// "reported to the invalid-message callback": the octets are the report for as long as the
		// callback looks at them. The receive buffers of a datagram server are recycled; a buffer that
		// goes back to the pool before (or while) the callback runs is filled with a later datagram
		// under the callback's eyes. Nothing the library may do changes m before this function returns.
		progressed := hold != nil && hold(len(m) < 12)
		bufferMu.Lock()
		now := append([]byte{}, m...)
		bufferMu.Unlock()
		if !bytes.Equal(now, c) {
			o.mu.Lock()
			o.changed = append(o.changed, fmt.Sprintf("%s became %s", hex.EncodeToString(c), hex.EncodeToString(now)))
			o.mu.Unlock()
		}
		if progressed {
			o.mu.Lock()
			o.held++
			o.mu.Unlock()
		}
	}
	if p.custom() {
		f := func(dh dns.Header) dns.MsgAcceptAction {
			h := hdr{dh.Id, dh.Bits, dh.Qdcount, dh.Ancount, dh.Nscount, dh.Arcount}
			o.mu.Lock()
			o.policy = append(o.policy, h)
			o.mu.Unlock()
			return dns.MsgAcceptAction(p.act(h))
		}
		if p.Kind == "global" {
			// the documented way to change the policy of every server that has none of its own;
			// checkAdmit restores the variable when the case is over (cases run one at a time)
			dns.DefaultMsgAcceptFunc = f
		} else {
			srv.MsgAcceptFunc = f
		}
	}
}

func serveAndWait(srv *dns.Server) (done chan error, err error) {
	started := make(chan struct{})
	srv.NotifyStartedFunc = func() { close(started) }
	done = make(chan error, 1)
	go func() { done <- srv.ActivateAndServe() }()
	select {
	case <-started:
		return done, nil
	case e := <-done:
		return nil, fmt.Errorf("ActivateAndServe returned %v before starting", e)
	case <-time.After(watchdog):
		return nil, errors.New("server did not start")
	}
}

func shutdown(srv *dns.Server, done chan error) error {
	e := make(chan error, 1)
	go func() { e <- srv.Shutdown() }()
	select {
	case err := <-e:
		if err != nil {
			return fmt.Errorf("Shutdown: %v", err)
		}
	case <-time.After(watchdog):
		return errors.New("Shutdown did not return")
	}
	select {
	case err := <-done:
		if err != nil {
			return fmt.Errorf("ActivateAndServe returned %v", err)
		}
	case <-time.After(watchdog):
		return errors.New("ActivateAndServe did not return after Shutdown")
	}
	return nil
}

// what the server wrote, per packet source
type outcome struct {
	obs     *observer
	replies map[int][][]byte // port -> datagrams / frames written to it, in order
	// in-memory transports: the server's SetWriteDeadline calls and the writes that failed on an expired deadline
	wdlSets, wdlExpired []string
	rdlExpired          []string // stream connections: reads of the server that ended on a read deadline during a pause of the client
	heldAcross          int      // restart cases: reports that were held open across the restart
	holdTimedOut        int      // in-memory datagram cases: report holds that were ended by their bound
}

const basePort = 10000

func runUDP(c admitCase) (outcome, error) {
	if c.Restart > 0 {
		return runUDPRestart(c)
	}
	o := &observer{}
	pc := newMemPC()
	o.hold = pc.holdReport
	srv := &dns.Server{PacketConn: pc, UDPSize: c.UDPSize}
	c.Timeouts.apply(srv)
	o.configure(srv, c.Policy, c.Handler)
	defer o.cleanup()
	done, err := serveAndWait(srv)
	if err != nil {
		return outcome{}, err
	}
	due, settle := 0, true // replies the packets injected so far are expected to get
	for i, b := range c.Packets {
		if d := c.pauseBefore(i); d > 0 {
			// the client is silent for d: everything the server does for the datagrams sent so far
			// comes first (they are served by goroutines of their own; what can be waited for is that
			// the socket has been drained and the expected replies have been written - a reply that
			// is still missing after 3 s is reported below, and not waited for a second time)
			if !pc.waitDrained(watchdog) {
				return outcome{}, errors.New("server did not consume every datagram")
			}
			if settle {
				settle = pc.waitSent(due, 3*time.Second)
			}
			pc.pause(d)
		}
		late := c.InFlight && i == len(c.Packets)-1
		if c.noAddr(i) {
			pc.injectLate(b, nil, late)
		} else {
			pc.injectLate(b, &net.UDPAddr{IP: net.IPv4(10, 0, 0, 1), Port: basePort + i}, late)
			due += expectFor(c, b).replies
		}
	}
	if !pc.waitDrained(watchdog) {
		return outcome{}, errors.New("server did not consume every datagram")
	}
	if err := shutdown(srv, done); err != nil {
		return outcome{}, err
	}
	if c.InFlight {
		pc.mu.Lock()
		n := pc.lateReturned
		pc.mu.Unlock()
		if n != 1 {
			return outcome{}, fmt.Errorf("harness: the datagram in flight at Shutdown was returned by %d reads", n)
		}
	}
	out := outcome{obs: o, replies: map[int][][]byte{}}
	for _, d := range pc.sent() {
		p := portOf(d.addr)
		out.replies[p] = append(out.replies[p], d.b)
	}
	out.wdlSets, out.wdlExpired = pc.deadlineLog()
	pc.mu.Lock()
	out.holdTimedOut = pc.holdTimedOut
	pc.mu.Unlock()
	return out, nil
}

func runTCP(c admitCase) (outcome, error) {
	o := &observer{}
	lis := newMemListener()
	srv := &dns.Server{Listener: lis}
	c.Timeouts.apply(srv)
	o.configure(srv, c.Policy, c.Handler)
	defer o.cleanup()
	done, err := serveAndWait(srv)
	if err != nil {
		return outcome{}, err
	}
	// group the packets by connection; the source "port" of packet i is basePort+i for the oracle,
	// the connection's own port is 40000+conn
	nconn := 0
	for i := range c.Packets {
		if k := c.connOf(i); k+1 > nconn {
			nconn = k + 1
		}
	}
	type connRes struct {
		raw []byte
		err error
	}
	res := make([]connRes, nconn)
	ends := make([]*endpoint, nconn)
	var wg sync.WaitGroup
	for k := 0; k < nconn; k++ {
		// the connection exists before the listener hands it out: its server end keeps its deadlines on a virtual clock
		cli, srvEnd := newPipe()
		cli.local, srvEnd.rem = memAddr(40000+k), memAddr(40000+k)
		srvEnd.makeVirtual()
		srvEnd.in.seg = c.Seg
		ends[k] = srvEnd
		lis.enqueue(srvEnd)
		// what the client writes: the frames of its packets, a pause in front of some of them
		type step struct {
			pause  time.Duration
			stream []byte
		}
		steps := []step{{}}
		for i, b := range c.Packets {
			if c.connOf(i) != k {
				continue
			}
			if d := c.pauseBefore(i); d > 0 {
				steps = append(steps, step{pause: d})
			}
			st := &steps[len(steps)-1]
			st.stream = binary.BigEndian.AppendUint16(st.stream, uint16(len(b)))
			st.stream = append(st.stream, b...)
		}
		steps[len(steps)-1].stream = append(steps[len(steps)-1].stream, c.tail(k)...)
		wg.Add(1)
		go func(k int, cli, srvEnd *endpoint) {
			defer wg.Done()
			for _, st := range steps {
				if st.pause > 0 {
					// the client is silent for a while: the server finishes what it has to do for the
					// messages sent so far and waits for the next one; then time passes
					if !srvEnd.waitParked(watchdog) {
						if !srvEnd.isClosed() {
							res[k].err = errors.New("the server did not come back to read the next message")
						}
						break // closed by the server: whatever is missing is reported by the oracle
					}
					srvEnd.pause(st.pause)
				}
				cli.Write(st.stream)
			}
			cli.closeWrite()
			if res[k].err != nil {
				cli.Close()
				return
			}
			cli.SetReadDeadline(time.Now().Add(watchdog))
			res[k].raw, res[k].err = io.ReadAll(cli)
			cli.Close()
		}(k, cli, srvEnd)
	}
	wg.Wait()
	if err := shutdown(srv, done); err != nil {
		return outcome{}, err
	}
	out := outcome{obs: o, replies: map[int][][]byte{}}
	for k := range ends {
		sets, expired, rexp := ends[k].deadlineLog()
		for _, x := range rexp {
			out.rdlExpired = append(out.rdlExpired, fmt.Sprintf("conn %d %s", k, x))
		}
		for _, x := range sets {
			out.wdlSets = append(out.wdlSets, fmt.Sprintf("conn %d %s", k, x))
		}
		for _, x := range expired {
			out.wdlExpired = append(out.wdlExpired, fmt.Sprintf("conn %d %s", k, x))
		}
	}
	for k := range res {
		if res[k].err != nil {
			return outcome{}, fmt.Errorf("connection %d: the server did not close it after the client's EOF: %v", k, res[k].err)
		}
		raw := res[k].raw
		for len(raw) > 0 {
			if len(raw) < 2 || len(raw) < 2+int(binary.BigEndian.Uint16(raw)) {
				return out, pbt.Errf("connection %d: reply stream is not a sequence of length-prefixed messages (%d octets left)", k, len(raw))
			}
			n := int(binary.BigEndian.Uint16(raw))
			out.replies[40000+k] = append(out.replies[40000+k], raw[2:2+n])
			raw = raw[2+n:]
		}
	}
	return out, nil
}

var validTransport = map[string]bool{"udp": true, "tcp": true, "udp-real": true, "tcp-real": true}

func (c admitCase) isUDP() bool { return c.Transport == "udp" || c.Transport == "udp-real" }

// countingReader counts the datagrams the server has taken from a real socket, so that the harness
// knows when every packet has been consumed (the in-memory conn reports that itself).
type countingReader struct {
	dns.Reader
	mu   *sync.Mutex
	cond *sync.Cond
	n    *int
	mine map[int]int // source ports of this case's own sockets (other processes on the box may hit the port too)
}

func (r countingReader) ReadUDP(conn *net.UDPConn, timeout time.Duration) ([]byte, *dns.SessionUDP, error) {
	m, s, err := r.Reader.ReadUDP(conn, timeout)
	if err == nil && s != nil {
		r.mu.Lock()
		if _, ok := r.mine[portOf(s.RemoteAddr())]; ok {
			*r.n++
			r.cond.Broadcast()
		}
		r.mu.Unlock()
	}
	return m, s, err
}

func runRealUDP(c admitCase, wantReplies int) (outcome, error) {
	o := &observer{}
	pc, err := net.ListenPacket("udp", "127.0.0.1:0")
	if err != nil {
		return outcome{}, fmt.Errorf("listen: %v", err)
	}
	var mu sync.Mutex
	cond := sync.NewCond(&mu)
	nread := 0
	srv := &dns.Server{PacketConn: pc, ReadTimeout: time.Hour, UDPSize: c.UDPSize}
	ports := map[int]int{} // client port -> packet index
	srv.DecorateReader = func(r dns.Reader) dns.Reader { return countingReader{r, &mu, cond, &nread, ports} }
	o.configure(srv, c.Policy, c.Handler)
	defer o.cleanup()
	done, err := serveAndWait(srv)
	if err != nil {
		pc.Close()
		return outcome{}, err
	}
	socks := make([]*net.UDPConn, len(c.Packets))
	defer func() {
		for _, s := range socks {
			if s != nil {
				s.Close()
			}
		}
	}()
	sent := 0
	for i := range c.Packets {
		s, err := net.DialUDP("udp", nil, pc.LocalAddr().(*net.UDPAddr))
		if err != nil {
			shutdown(srv, done)
			return outcome{}, fmt.Errorf("dial: %v", err)
		}
		socks[i] = s
		mu.Lock()
		ports[s.LocalAddr().(*net.UDPAddr).Port] = i
		mu.Unlock()
	}
	for i, b := range c.Packets {
		if _, err := socks[i].Write(b); err != nil {
			shutdown(srv, done)
			return outcome{}, fmt.Errorf("send: %v", err)
		}
		sent++
	}
	end := time.Now().Add(watchdog) // before the timer is armed: the wake-up must find the end passed
	wd := time.AfterFunc(watchdog+time.Millisecond, func() { mu.Lock(); cond.Broadcast(); mu.Unlock() })
	// a server that stops serving on its own (ActivateAndServe returns) is not waited for
	exited, watching := false, make(chan struct{})
	var exitErr error
	go func() {
		select {
		case e := <-done:
			done <- e // buffered: shutdown() below still finds it
			mu.Lock()
			exited, exitErr = true, e
			cond.Broadcast()
			mu.Unlock()
		case <-watching:
		}
	}()
	mu.Lock()
	for nread < sent && !exited && time.Now().Before(end) {
		cond.Wait()
	}
	got, gone, goneErr := nread, exited, exitErr
	mu.Unlock()
	wd.Stop()
	close(watching)
	if gone && got < sent {
		return outcome{}, fmt.Errorf("the server stopped serving after %d of %d datagrams from the loopback socket: ActivateAndServe returned %v", got, sent, goneErr)
	}
	if got < sent {
		shutdown(srv, done)
		return outcome{}, fmt.Errorf("server read %d of %d datagrams from the loopback socket", got, sent)
	}
	if err := shutdown(srv, done); err != nil {
		return outcome{}, err
	}
	out := outcome{obs: o, replies: map[int][][]byte{}}
	// replies were written before Shutdown returned; loopback delivery is synchronous
	// Replies were written before Shutdown returned, but under load the loopback softirq may
	// deliver them a little later: keep reading in 5 ms windows until the expected number has been
	// seen (plus one more window, so that surplus replies are still noticed), at most 10 s.
	per := make([][][]byte, len(socks))
	var wg sync.WaitGroup
	var total int64
	limit := time.Now().Add(10 * time.Second)
	for i, s := range socks {
		wg.Add(1)
		go func(i int, s *net.UDPConn) {
			defer wg.Done()
			buf := make([]byte, 65535)
			for {
				s.SetReadDeadline(time.Now().Add(5 * time.Millisecond))
				n, err := s.Read(buf)
				if err == nil {
					per[i] = append(per[i], append([]byte{}, buf[:n]...))
					atomic.AddInt64(&total, 1)
					continue
				}
				if atomic.LoadInt64(&total) >= int64(wantReplies) || time.Now().After(limit) {
					return
				}
			}
		}(i, s)
	}
	wg.Wait()
	for i := range per {
		if len(per[i]) > 0 {
			out.replies[basePort+i] = per[i]
		}
	}
	var own []handledCall
	for _, h := range o.handled {
		if i, ok := ports[h.port]; ok { // calls for foreign datagrams are not this case's business
			own = append(own, handledCall{basePort + i, h.req})
		}
	}
	o.handled = own
	return out, nil
}

func runRealTCP(c admitCase) (outcome, error) {
	o := &observer{}
	lis, err := net.Listen("tcp", "127.0.0.1:0")
	if err != nil {
		return outcome{}, fmt.Errorf("listen: %v", err)
	}
	srv := &dns.Server{Listener: lis, ReadTimeout: time.Hour, IdleTimeout: func() time.Duration { return time.Hour }}
	o.configure(srv, c.Policy, c.Handler)
	defer o.cleanup()
	done, err := serveAndWait(srv)
	if err != nil {
		lis.Close()
		return outcome{}, err
	}
	nconn := 0
	for i := range c.Packets {
		if k := c.connOf(i); k+1 > nconn {
			nconn = k + 1
		}
	}
	type connRes struct {
		raw  []byte
		err  error
		port int
	}
	res := make([]connRes, nconn)
	var wg sync.WaitGroup
	for k := 0; k < nconn; k++ {
		var stream []byte
		for i, b := range c.Packets {
			if c.connOf(i) == k {
				stream = binary.BigEndian.AppendUint16(stream, uint16(len(b)))
				stream = append(stream, b...)
			}
		}
		stream = append(stream, c.tail(k)...)
		cli, err := net.Dial("tcp", lis.Addr().String())
		if err != nil {
			res[k].err = err
			continue
		}
		res[k].port = cli.LocalAddr().(*net.TCPAddr).Port
		wg.Add(1)
		go func(k int, cli net.Conn, stream []byte) {
			defer wg.Done()
			defer cli.Close()
			if _, err := cli.Write(stream); err != nil {
				res[k].err = err
				return
			}
			cli.(*net.TCPConn).CloseWrite()
			cli.SetReadDeadline(time.Now().Add(watchdog))
			res[k].raw, res[k].err = io.ReadAll(cli)
		}(k, cli, stream)
	}
	wg.Wait()
	if err := shutdown(srv, done); err != nil {
		return outcome{}, err
	}
	out := outcome{obs: o, replies: map[int][][]byte{}}
	portToConn := map[int]int{}
	for k := range res {
		if res[k].err != nil {
			return outcome{}, fmt.Errorf("connection %d: %v", k, res[k].err)
		}
		portToConn[res[k].port] = k
		raw := res[k].raw
		for len(raw) > 0 {
			if len(raw) < 2 || len(raw) < 2+int(binary.BigEndian.Uint16(raw)) {
				return out, pbt.Errf("connection %d: reply stream is not a sequence of length-prefixed messages (%d octets left)", k, len(raw))
			}
			n := int(binary.BigEndian.Uint16(raw))
			out.replies[40000+k] = append(out.replies[40000+k], raw[2:2+n])
			raw = raw[2+n:]
		}
	}
	var own []handledCall
	for _, h := range o.handled {
		if k, ok := portToConn[h.port]; ok { // connections of other processes on the box are not this case's business
			own = append(own, handledCall{40000 + k, h.req})
		}
	}
	o.handled = own
	return out, nil
}

func (c admitCase) connOf(i int) int {
	if i < len(c.ConnOf) {
		return ((c.ConnOf[i] % 3) + 3) % 3
	}
	return 0
}

// expectation for one packet
type expect struct {
	disp    string // handler | invalid | invalid+formerr | formerr | notimp | silence
	ref     *dns.Msg
	h       hdr
	octets  []byte
	replies int
}

func expectFor(c admitCase, b []byte) expect {
	if c.isUDP() {
		size := c.UDPSize
		if size == 0 {
			size = dns.MinMsgSize
		}
		if len(b) > size {
			b = b[:size] // a datagram longer than the server's buffer is cut by the socket read
		}
	}
	e := expect{octets: b}
	if len(b) < 12 {
		e.disp = "invalid"
		return e
	}
	e.h = parseHdr(b)
	switch c.Policy.act(e.h) {
	case actIgnore:
		e.disp = "silence"
	case actReject:
		e.disp, e.replies = "formerr", 1
	case actNotImp:
		e.disp, e.replies = "notimp", 1
	default:
		m := new(dns.Msg)
		if err := m.Unpack(b); err == nil {
			e.disp, e.ref, e.replies = "handler", m, 1
			if c.Handler == "mux" || c.Handler == "default-mux" {
				// one registered pattern: the handler gets the requests whose first question name lies
				// in that zone (label boundaries, letter case ignored), everything else is refused
				zone, _ := lowerLabels(muxZone)
				e.disp = "refused"
				if len(m.Question) > 0 {
					q, err := lowerLabels(m.Question[0].Name)
					switch {
					case err != nil:
						e.disp = "handler-or-refused" // a spelling the reference does not read: not judged
					case isSuffix(zone, q):
						e.disp = "handler"
					}
				}
			}
		} else {
			e.disp, e.replies = "invalid+formerr", 1
		}
	}
	return e
}

// checkRefusedReply: the reply the library builds when no pattern matches - REFUSED with the
// request's ID, QR set, the request's opcode, RD and CD of a query, its first question, no records.
func checkRefusedReply(e expect, r []byte, what string) error {
	if len(r) < 12 {
		return pbt.Errf("%s: reply of %d octets", what, len(r))
	}
	h := parseHdr(r)
	if h.id != e.h.id || !h.qr() || h.rcode() != dns.RcodeRefused || h.opcode() != e.h.opcode() {
		return pbt.Errf("%s: expected REFUSED: reply id=%d qr=%v rcode=%d opcode=%d, request id=%d opcode=%d", what, h.id, h.qr(), h.rcode(), h.opcode(), e.h.id, e.h.opcode())
	}
	if e.h.opcode() == dns.OpcodeQuery && (h.bits&0x0110) != (e.h.bits&0x0110) {
		return pbt.Errf("%s: REFUSED reply to a query has RD/CD bits %04x, the request %04x", what, h.bits&0x0110, e.h.bits&0x0110)
	}
	if h.an != 0 || h.ns != 0 || h.ar != 0 {
		return pbt.Errf("%s: REFUSED reply carries records: an=%d ns=%d ar=%d (%s)", what, h.an, h.ns, h.ar, hex.EncodeToString(r))
	}
	m := new(dns.Msg)
	if err := m.Unpack(r); err != nil {
		return pbt.Errf("%s: REFUSED reply does not decode: %v (%s)", what, err, hex.EncodeToString(r))
	}
	if len(e.ref.Question) == 0 {
		if len(m.Question) != 0 {
			return pbt.Errf("%s: REFUSED reply has a question although the request had none", what)
		}
	} else if len(m.Question) != 1 || m.Question[0] != e.ref.Question[0] {
		return pbt.Errf("%s: REFUSED reply question %v, the request's first question %v", what, m.Question, e.ref.Question[0])
	}
	return nil
}

func checkLibReply(e expect, r []byte, what string) error {
	if len(r) < 12 {
		return pbt.Errf("%s: reply of %d octets", what, len(r))
	}
	h := parseHdr(r)
	if h.id != e.h.id || !h.qr() {
		return pbt.Errf("%s: reply id=%d qr=%v, request id=%d", what, h.id, h.qr(), e.h.id)
	}
	if h.an != 0 || h.ns != 0 || h.ar != 0 {
		return pbt.Errf("%s: reply carries records: an=%d ns=%d ar=%d (%s)", what, h.an, h.ns, h.ar, hex.EncodeToString(r))
	}
	switch e.disp {
	case "formerr", "invalid+formerr":
		if h.rcode() != dns.RcodeFormatError {
			return pbt.Errf("%s: expected FORMERR, reply has rcode %d opcode %d", what, h.rcode(), h.opcode())
		}
	case "notimp":
		if h.rcode() != dns.RcodeNotImplemented || h.opcode() != e.h.opcode() {
			return pbt.Errf("%s: expected NOTIMP keeping opcode %d, reply has rcode %d opcode %d", what, e.h.opcode(), h.rcode(), h.opcode())
		}
	}
	if err := new(dns.Msg).Unpack(r); err != nil {
		return pbt.Errf("%s: reply does not decode: %v (%s)", what, err, hex.EncodeToString(r))
	}
	return nil
}

func checkHandlerReply(e expect, r []byte, what string) error {
	m := new(dns.Msg)
	if err := m.Unpack(r); err != nil {
		return pbt.Errf("%s: handler reply does not decode: %v", what, err)
	}
	if m.Id != e.h.id || !m.Response || len(m.Answer) != 1 || m.Answer[0].String() != markerTXT.String() {
		return pbt.Errf("%s: expected exactly the handler's reply, got %s", what, hex.EncodeToString(r))
	}
	return nil
}

// subMultiset: every element of a (sorted) occurs in b (sorted) at least as often.
func subMultiset(a, b []string) bool {
	j := 0
	for _, x := range a {
		for j < len(b) && b[j] < x {
			j++
		}
		if j >= len(b) || b[j] != x {
			return false
		}
		j++
	}
	return true
}

func sortedHex(bs [][]byte) []string {
	out := make([]string, len(bs))
	for i, b := range bs {
		out[i] = hex.EncodeToString(b)
	}
	sort.Strings(out)
	return out
}

func checkAdmit(c admitCase) error {
	if len(c.Packets) == 0 || len(c.Packets) > 64 || !validTransport[c.Transport] || !c.wellFormed() {
		pbt.Note(nil, false, "invalid-case")
		return nil
	}
	for _, b := range c.Packets {
		if len(b) > 65535 {
			pbt.Note(nil, false, "invalid-case")
			return nil
		}
	}
	kb, _ := json.Marshal(c)
	exp := make([]expect, len(c.Packets))
	nontrivial := false
	classes := []string{"transport=" + c.Transport, "policy=" + c.Policy.Kind, "batch=" + bucket(len(c.Packets))}
	if c.Transport == "tcp" {
		switch {
		case len(c.Seg) == 0:
			classes = append(classes, "tcp-reads=whole")
		case c.Seg[0] == 1:
			classes = append(classes, "tcp-reads=chopped", "tcp-first-read=1-octet")
		default:
			classes = append(classes, "tcp-reads=chopped")
		}
	}
	for i, b := range c.Packets {
		exp[i] = expectFor(c, b)
		if len(exp[i].octets) >= 12 {
			nontrivial = true
		}
	}
	classes = append(classes, c.tailClasses()...)
	classes = append(classes, "handler="+map[string]string{"": "func", "mux": "mux", "default-mux": "default-mux"}[c.Handler])
	if c.inMemory() {
		classes = append(classes, c.timeClasses(exp)...)
	}
	if c.Transport == "udp" {
		switch {
		case c.InFlight:
			classes = append(classes, "runs=1", "runs=1/last-datagram-in-flight-at-shutdown")
		case c.Restart == 0:
			classes = append(classes, "runs=1")
		case c.lastOfFirstRunShort():
			classes = append(classes, "runs=2", "runs=2/first-ends-with-a-runt")
		default:
			classes = append(classes, "runs=2")
		}
	}
	for i := range exp {
		if exp[i].disp == "handler-or-refused" {
			pbt.Note(kb, false, "not-judged:question-name-spelling")
			return nil
		}
	}
	if !quietStats {
		pbt.Note(kb, nontrivial, classes...)
		for i := range exp {
			pbt.Class("disp=" + exp[i].disp)
			if exp[i].disp == "handler" && len(exp[i].octets) == 12 {
				pbt.Class("handler-header-only")
			}
		}
	}

	savedPolicy := dns.DefaultMsgAcceptFunc
	defer func() { dns.DefaultMsgAcceptFunc = savedPolicy }()
	var out outcome
	var err error
	switch c.Transport {
	case "udp":
		out, err = runUDP(c)
	case "tcp":
		out, err = runTCP(c)
	case "udp-real":
		want := 0
		for _, e := range exp {
			want += e.replies
		}
		out, err = runRealUDP(c, want)
	default:
		out, err = runRealTCP(c)
	}
	if err != nil {
		return err
	}
	if !quietStats && out.obs != nil && c.Transport == "udp" {
		out.obs.mu.Lock()
		reports, held := len(out.obs.invalid), out.obs.held
		out.obs.mu.Unlock()
		if reports > 0 {
			pbt.Class("invalid-report=octets-compared-on-return")
		}
		if held > 0 {
			pbt.Class("invalid-report=held-while-the-serve-loop-read-on")
		}
		if out.heldAcross > 0 {
			pbt.Class("invalid-report=held-open-across-a-restart")
		}
		if out.holdTimedOut > 0 {
			pbt.Class("invalid-report=hold-ended-by-its-bound")
		}
	}
	if err := judge(c, exp, out); err != nil {
		if len(out.wdlExpired) > 0 {
			// the reason is on record: the server wrote after a write deadline it had set earlier had passed
			return pbt.Errf("%v\n the client had been silent for a while (less than the read/idle timeout in force) and %d write(s) of the server failed on a stale write deadline: %v; SetWriteDeadline calls: %v",
				err, len(out.wdlExpired), out.wdlExpired[0], out.wdlSets)
		}
		if len(out.rdlExpired) > 0 {
			return pbt.Errf("%v\n the client had been silent for a while (at most half of the ReadTimeout before the first message of a connection, of the idle timeout later; read %v, idle %v) and the server gave the connection up: %v",
				err, c.Timeouts.read(), c.Timeouts.idle(), out.rdlExpired)
		}
		return err
	}
	return nil
}

// judge compares what the server did with the expected disposition of every packet.
func judge(c admitCase, exp []expect, out outcome) error {
	o := out.obs
	if len(o.panics) > 0 {
		return pbt.Errf("a method of the server's ResponseWriter panicked (%d times): %s", len(o.panics), o.panics[0])
	}
	if len(o.changed) > 0 {
		return pbt.Errf("the octets handed to MsgInvalidFunc changed while the callback was looking at them (%d of %d reports; the receive buffer was recycled before the callback returned): %s",
			len(o.changed), len(o.invalid), o.changed[0])
	}

	// MsgInvalidFunc: exactly the packets that are too short or accepted-but-undecodable, with their octets
	var wantInvalid [][]byte
	for _, e := range exp {
		if e.disp == "invalid" || e.disp == "invalid+formerr" {
			wantInvalid = append(wantInvalid, e.octets)
		}
	}
	real := c.Transport == "udp-real" || c.Transport == "tcp-real"
	if g, w := c.withoutTailReports(sortedHex(o.invalid), sortedHex(wantInvalid)), sortedHex(wantInvalid); !reflect.DeepEqual(g, w) {
		// on real loopback sockets other processes of the box may reach the port: only require
		// that every expected call happened
		if !real || !subMultiset(w, g) {
			return pbt.Errf("MsgInvalidFunc calls differ:\n got  %v\n want %v", g, w)
		}
	}
	// the policy function saw exactly the headers of the packets that pass the 12-octet gate
	if c.Policy.custom() && !real {
		var got, want []string
		for _, h := range o.policy {
			got = append(got, fmt.Sprint(h))
		}
		for _, e := range exp {
			if len(e.octets) >= 12 {
				want = append(want, fmt.Sprint(e.h))
			}
		}
		sort.Strings(got)
		sort.Strings(want)
		if !reflect.DeepEqual(got, want) {
			return pbt.Errf("MsgAcceptFunc calls differ:\n got  %v\n want %v", got, want)
		}
	}

	if c.isUDP() {
		byPort := map[int][]*dns.Msg{}
		for _, h := range o.handled {
			byPort[h.port] = append(byPort[h.port], h.req)
		}
		var anon []expect // packets from senders without an address: told apart by their content only
		for i, e := range exp {
			what := fmt.Sprintf("udp packet %d (%s, expected %s)", i, hex.EncodeToString(e.octets), e.disp)
			if c.Transport == "udp" && c.noAddr(i) {
				if e.disp == "handler" {
					anon = append(anon, e)
				}
				continue
			}
			port := basePort + i
			hs := byPort[port]
			delete(byPort, port)
			rs := out.replies[port]
			delete(out.replies, port)
			if err := checkOne(e, hs, rs, what); err != nil {
				return err
			}
		}
		// the handler is called exactly once for each of them as well (RemoteAddr is nil: "port" -1);
		// a reply cannot be addressed and is not expected
		got := byPort[-1]
		delete(byPort, -1)
		if len(got) != len(anon) {
			return pbt.Errf("datagrams from senders without an address: handler called %d times, expected %d", len(got), len(anon))
		}
		for _, e := range anon {
			found := false
			for j, g := range got {
				if sameMsg(g, e.ref) {
					got = append(got[:j:j], got[j+1:]...)
					found = true
					break
				}
			}
			if !found {
				return pbt.Errf("datagram from a sender without an address (%s): no handler call with the decoded request %v", hex.EncodeToString(e.octets), e.ref)
			}
		}
		if len(byPort) != 0 || len(out.replies) != 0 {
			return pbt.Errf("handler calls / replies for sources that sent nothing: %d / %d", len(byPort), len(out.replies))
		}
		return nil
	}
	// tcp: per connection, in order
	byConn := map[int][]*dns.Msg{}
	for _, h := range o.handled {
		byConn[h.port] = append(byConn[h.port], h.req)
	}
	for k := 0; k < 3; k++ {
		hs := byConn[40000+k]
		rs := out.replies[40000+k]
		for i, e := range exp {
			if c.connOf(i) != k {
				continue
			}
			what := fmt.Sprintf("tcp conn %d packet %d (%s, expected %s)", k, i, hex.EncodeToString(e.octets), e.disp)
			var h1 []*dns.Msg
			var r1 [][]byte
			if e.disp == "handler" && len(hs) > 0 {
				h1, hs = hs[:1], hs[1:]
			}
			if e.replies > 0 && len(rs) > 0 {
				r1, rs = rs[:1], rs[1:]
			}
			if err := checkOne(e, h1, r1, what); err != nil {
				return err
			}
		}
		if len(hs) != 0 || len(rs) != 0 {
			return pbt.Errf("tcp conn %d: %d handler calls and %d replies more than expected", k, len(hs), len(rs))
		}
	}
	return nil
}

// sameMsg: structural equality; messages holding a PrivateRR (whose unexported generator func is
// never DeepEqual) are compared through their header, text and uncompressed wire form instead.
func sameMsg(a, b *dns.Msg) bool {
	if reflect.DeepEqual(a, b) {
		return true
	}
	if a == nil || b == nil || a.MsgHdr != b.MsgHdr || a.Compress != b.Compress || a.String() != b.String() {
		return false
	}
	if len(a.Question) != len(b.Question) || len(a.Answer) != len(b.Answer) || len(a.Ns) != len(b.Ns) || len(a.Extra) != len(b.Extra) {
		return false
	}
	private := false
	for _, sect := range [][]dns.RR{a.Answer, a.Ns, a.Extra} {
		for _, rr := range sect {
			if _, ok := rr.(*dns.PrivateRR); ok {
				private = true
			}
		}
	}
	if !private {
		return false
	}
	ca, cb := a.Copy(), b.Copy()
	ca.Compress, cb.Compress = false, false
	pa, ea := ca.Pack()
	pb, eb := cb.Pack()
	return (ea == nil) == (eb == nil) && bytes.Equal(pa, pb)
}

func checkOne(e expect, hs []*dns.Msg, rs [][]byte, what string) error {
	wantH := 0
	if e.disp == "handler" {
		wantH = 1
	}
	if len(hs) != wantH {
		return pbt.Errf("%s: handler called %d times", what, len(hs))
	}
	if len(rs) != e.replies {
		return pbt.Errf("%s: %d replies written, expected %d", what, len(rs), e.replies)
	}
	if wantH == 1 {
		if !sameMsg(hs[0], e.ref) {
			return pbt.Errf("%s: handler got a request that differs from the decoded packet:\n got  %v\n want %v", what, hs[0], e.ref)
		}
		return checkHandlerReply(e, rs[0], what)
	}
	if e.disp == "refused" {
		return checkRefusedReply(e, rs[0], what)
	}
	if e.replies == 1 {
		return checkLibReply(e, rs[0], what)
	}
	return nil
}

func bucket(n int) string {
	switch {
	case n <= 1:
		return "1"
	case n <= 4:
		return "2-4"
	case n <= 16:
		return "5-16"
	}
	return "17+"
}

// ---------------------------------------------------------------------------------------------
// generators

var qnames = []string{".", "example.org.", "a.b.c.", "WWW.Example.ORG.", "x.", "a\\.b.c.", "aaaaaaaaaaaaaaaaaaaaaaaaaaaaaaaaaaaaaaaaaaaaaaaaaaaaaaaaaaaaaaa.example."}
var qtypes = []uint16{dns.TypeA, dns.TypeNS, dns.TypeSOA, dns.TypeMX, dns.TypeTXT, dns.TypeAAAA, dns.TypeDS, dns.TypeANY, dns.TypeAXFR, dns.TypeIXFR, 65535, 0}
var countVals = []uint16{0, 1, 2, 3, 65535}

func genValid(t *rapid.T) []byte {
	m := new(dns.Msg)
	m.Id = uint16(rapid.IntRange(0, 65535).Draw(t, "id"))
	name := rapid.SampledFrom(qnames).Draw(t, "qname")
	m.Question = []dns.Question{{Name: name, Qtype: rapid.SampledFrom(qtypes).Draw(t, "qtype"), Qclass: dns.ClassINET}}
	m.RecursionDesired = rapid.Bool().Draw(t, "rd")
	m.CheckingDisabled = rapid.Bool().Draw(t, "cd")
	m.AuthenticatedData = rapid.Bool().Draw(t, "ad")
	switch rapid.IntRange(0, 19).Draw(t, "flavour") {
	case 0:
		m.Response = true
	case 1:
		m.Opcode = rapid.IntRange(1, 15).Draw(t, "opcode")
	case 2: // NOTIFY with the SOA in the answer section (RFC 1996)
		m.Opcode = dns.OpcodeNotify
		m.Authoritative = true
		m.Answer = []dns.RR{&dns.SOA{Hdr: dns.RR_Header{Name: name, Rrtype: dns.TypeSOA, Class: 1, Ttl: 5}, Ns: "ns.", Mbox: "m.", Serial: 9}}
	case 3: // IXFR with the SOA in the authority section (RFC 1995)
		m.Question[0].Qtype = dns.TypeIXFR
		m.Ns = []dns.RR{&dns.SOA{Hdr: dns.RR_Header{Name: name, Rrtype: dns.TypeSOA, Class: 1, Ttl: 5}, Ns: "ns.", Mbox: "m.", Serial: 9}}
	case 4:
		m.Question = append(m.Question, dns.Question{Name: "second.", Qtype: dns.TypeA, Qclass: 1})
	case 5:
		m.Question = nil
	case 6:
		m.Zero = true
	case 7:
		m.Truncated = true
		m.RecursionAvailable = true
	case 10: // a record of a privately registered type (decodes to *dns.PrivateRR when a harness package registered it)
		m.Ns = []dns.RR{&dns.RFC3597{Hdr: dns.RR_Header{Name: ".", Rrtype: 65280, Class: 1, Ttl: 7}, Rdata: "3030"}}
	case 8, 9: // over-populated sections
		n := rapid.IntRange(1, 3).Draw(t, "nextra")
		for i := 0; i < n; i++ {
			rr := &dns.A{Hdr: dns.RR_Header{Name: "x.", Rrtype: dns.TypeA, Class: 1, Ttl: 1}, A: net.IPv4(1, 2, 3, byte(i)).To4()}
			switch rapid.IntRange(0, 2).Draw(t, "sect") {
			case 0:
				m.Answer = append(m.Answer, rr)
			case 1:
				m.Ns = append(m.Ns, rr)
			default:
				m.Extra = append(m.Extra, rr)
			}
		}
	}
	if rapid.IntRange(0, 3).Draw(t, "edns") == 0 {
		m.SetEdns0(uint16(rapid.IntRange(512, 4096).Draw(t, "bufsize")), rapid.Bool().Draw(t, "do"))
	}
	m.Compress = rapid.Bool().Draw(t, "compress")
	b, err := m.Pack()
	if err != nil {
		panic("harness: cannot pack query: " + err.Error())
	}
	return b
}

func genHeader(t *rapid.T) []byte {
	b := make([]byte, 12)
	binary.BigEndian.PutUint16(b, uint16(rapid.IntRange(0, 65535).Draw(t, "id")))
	bits := uint16(rapid.IntRange(0, 0x7ff).Draw(t, "lowbits")) & 0x07ff
	if rapid.IntRange(0, 2).Draw(t, "plainbits") > 0 {
		bits &= 0x0100 // at most RD
	}
	bits |= uint16(rapid.IntRange(0, 15).Draw(t, "opcode")) << 11
	if rapid.IntRange(0, 3).Draw(t, "qr") == 0 {
		bits |= 0x8000
	}
	if rapid.Bool().Draw(t, "op0") {
		bits &^= 0x7800
	}
	binary.BigEndian.PutUint16(b[2:], bits)
	for i := 0; i < 4; i++ {
		v := rapid.SampledFrom(countVals).Draw(t, "count")
		if i == 0 && rapid.Bool().Draw(t, "qd1") {
			v = 1
		}
		binary.BigEndian.PutUint16(b[4+2*i:], v)
	}
	return b
}

func genPacket(t *rapid.T) []byte {
	switch k := rapid.IntRange(0, 19).Draw(t, "pkind"); {
	case k < 6:
		return genValid(t)
	case k < 9: // truncated
		b := genValid(t)
		return b[:rapid.IntRange(0, len(b)).Draw(t, "cut")]
	case k < 12: // mutated
		b := genValid(t)
		n := rapid.IntRange(1, 3).Draw(t, "nmut")
		for i := 0; i < n; i++ {
			at := rapid.IntRange(0, len(b)-1).Draw(t, "at")
			if rapid.Bool().Draw(t, "inhdr") {
				at = rapid.IntRange(2, 11).Draw(t, "hat")
			}
			b[at] ^= byte(rapid.IntRange(1, 255).Draw(t, "xor"))
		}
		return b
	case k < 15:
		return genHeader(t)
	case k < 17: // valid body, one header count overwritten
		b := genValid(t)
		i := rapid.IntRange(0, 3).Draw(t, "which")
		binary.BigEndian.PutUint16(b[4+2*i:], rapid.SampledFrom(countVals).Draw(t, "count"))
		return b
	case k < 18: // header + garbage
		return append(genHeader(t), rapid.SliceOfN(rapid.Byte(), 1, 40).Draw(t, "garbage")...)
	case k < 19:
		return rapid.SliceOfN(rapid.Byte(), 0, 11).Draw(t, "runt")
	default: // longer than the default UDP buffer
		b := genValid(t)
		pad := &dns.TXT{Hdr: dns.RR_Header{Name: "pad.", Rrtype: dns.TypeTXT, Class: 1}, Txt: []string{string(bytes.Repeat([]byte("p"), 250)), string(bytes.Repeat([]byte("q"), 250))}}
		m := new(dns.Msg)
		if m.Unpack(b) == nil {
			m.Extra = append([]dns.RR{pad}, m.Extra...)
			if bb, err := m.Pack(); err == nil {
				return bb
			}
		}
		return b
	}
}

func genPolicy(t *rapid.T) policySpec {
	switch rapid.IntRange(0, 5).Draw(t, "custom") {
	case 0:
		return policySpec{Kind: "global", Table: rapid.SliceOfN(rapid.IntRange(0, 3), 1, 24).Draw(t, "table"), Salt: rapid.IntRange(0, 1000).Draw(t, "salt")}
	case 1, 2:
		return policySpec{Kind: "table", Table: rapid.SliceOfN(rapid.IntRange(0, 3), 1, 24).Draw(t, "table"), Salt: rapid.IntRange(0, 1000).Draw(t, "salt")}
	}
	return policySpec{Kind: "default"}
}

func genAdmit(t *rapid.T) admitCase {
	c := admitCase{Transport: rapid.SampledFrom([]string{"udp", "udp", "udp", "udp", "tcp", "tcp", "tcp", "udp-real", "tcp-real"}).Draw(t, "transport")}
	if c.isUDP() && rapid.IntRange(0, 3).Draw(t, "bigbuf") == 0 {
		c.UDPSize = 4096
	}
	c.Policy = genPolicy(t)
	n := rapid.IntRange(1, 32).Draw(t, "batch")
	if !pbt.Thorough() && rapid.Bool().Draw(t, "smallbatch") {
		n = rapid.IntRange(1, 6).Draw(t, "batch6")
	}
	for i := 0; i < n; i++ {
		c.Packets = append(c.Packets, genPacket(t))
		c.ConnOf = append(c.ConnOf, rapid.IntRange(0, 2).Draw(t, "conn"))
	}
	if c.Transport == "tcp" && rapid.IntRange(0, 2).Draw(t, "chopped") > 0 {
		// the stream reaches the server in pieces: every Read returns only a few octets
		c.Seg = rapid.SliceOfN(rapid.SampledFrom([]int{1, 1, 1, 2, 3, 5, 12, 13, 64, 700}), 1, 6).Draw(t, "seg")
	}
	c.Handler = rapid.SampledFrom([]string{"", "", "", "mux", "mux", "default-mux"}).Draw(t, "handler")
	if c.inMemory() {
		genTime(t, &c)
	}
	genRestart(t, &c)
	genTails(t, &c)
	if c.Transport == "udp" && c.Restart == 0 && rapid.IntRange(0, 2).Draw(t, "inFlight") == 0 {
		c.InFlight = true
	}
	if c.Transport == "udp" && rapid.IntRange(0, 7).Draw(t, "anonymous") == 0 {
		// some senders have no address (unbound unixgram clients): ReadFrom returns a nil net.Addr
		if pbt.Known(knownNoAddr) {
			pbt.Excluded(knownNoAddr)
		} else {
			for i := range c.Packets {
				if i == 0 || rapid.IntRange(0, 2).Draw(t, "noaddr") == 0 {
					c.NoAddr = append(c.NoAddr, i)
				}
			}
		}
	}
	return c
}

const knownNoAddr = "udp-sender-without-address-remoteaddr-panics"

// genTime: the server's timeout configuration (zero values included) and the pauses of the client.
// A pause on a stream connection stays within half of the read timeout in force at that point (the
// ReadTimeout in front of the first message of a connection, the idle timeout afterwards): such a
// client is entitled to everything the property promises. Pauses are preferably a little longer
// than the write timeout, the other documented per-connection time limit.
func genTime(t *rapid.T, c *admitCase) {
	c.Timeouts = timeoutSpec{
		ReadMs:  rapid.SampledFrom([]int64{0, 0, 50, 3000, 3600_000}).Draw(t, "readTimeout"),
		WriteMs: rapid.SampledFrom([]int64{0, 0, 50, 1000, 3600_000}).Draw(t, "writeTimeout"),
		IdleMs:  rapid.SampledFrom([]int64{0, 0, 4000, 60_000, 172_800_000}).Draw(t, "idleTimeout"),
	}
	if rapid.IntRange(0, 1).Draw(t, "pausing") == 0 {
		return
	}
	n := rapid.IntRange(1, 2).Draw(t, "npauses")
	for k := 0; k < n; k++ {
		i := rapid.IntRange(0, len(c.Packets)-1).Draw(t, "pauseBefore")
		if k == 0 && len(c.Packets) > 1 && rapid.Bool().Draw(t, "notFirst") {
			i = rapid.IntRange(1, len(c.Packets)-1).Draw(t, "pauseBeforeLater")
		}
		room := 1000 * time.Hour
		if c.Transport == "tcp" {
			limit := c.Timeouts.idle()
			if c.firstOnConn(i) {
				limit = c.Timeouts.read()
			}
			room = maxPause(limit) - c.pauseBefore(i)
		}
		w := c.Timeouts.write()
		var fit []int64
		for _, d := range []time.Duration{w + 300*time.Millisecond, w + 300*time.Millisecond, 2 * w, w / 2, time.Millisecond, room} {
			if d > 0 && d <= room {
				fit = append(fit, d.Milliseconds())
			}
		}
		if len(fit) == 0 {
			continue
		}
		c.Pauses = append(c.Pauses, pauseSpec{Before: i, Ms: rapid.SampledFrom(fit).Draw(t, "pause")})
	}
}

// ---------------------------------------------------------------------------------------------
// enumerations

func eachHeader(emit func(admitCase)) {
	pols := []policySpec{{Kind: "default"}, {Kind: "global", Table: []int{0, 3, 1, 2, 0, 0, 2, 3, 1, 1, 0}, Salt: 3}}
	if pbt.Thorough() {
		pols = append(pols, policySpec{Kind: "table", Table: []int{0, 1, 2, 3, 0, 0, 3, 2, 1}, Salt: 5})
	}
	for _, pol := range pols {
		for _, tr := range []string{"udp", "tcp"} {
			var batch [][]byte
			var conns []int
			id := uint16(1)
			flush := func() {
				if len(batch) > 0 {
					emit(admitCase{Transport: tr, Policy: pol, Packets: batch, ConnOf: conns})
					batch, conns = nil, nil
				}
			}
			for qr := 0; qr < 2; qr++ {
				for op := 0; op < 16; op++ {
					for _, qd := range countVals {
						for _, an := range countVals {
							for _, ns := range countVals {
								for _, ar := range countVals {
									b := make([]byte, 12)
									binary.BigEndian.PutUint16(b, id)
									id += 7
									binary.BigEndian.PutUint16(b[2:], uint16(qr)<<15|uint16(op)<<11|uint16(id&1)<<8)
									binary.BigEndian.PutUint16(b[4:], qd)
									binary.BigEndian.PutUint16(b[6:], an)
									binary.BigEndian.PutUint16(b[8:], ns)
									binary.BigEndian.PutUint16(b[10:], ar)
									batch = append(batch, b)
									conns = append(conns, len(batch)%2)
									if len(batch) == 32 {
										flush()
									}
								}
							}
						}
					}
				}
			}
			flush()
		}
	}
}

func fixedQueries() [][]byte {
	var out [][]byte
	mk := func(f func(m *dns.Msg)) {
		m := new(dns.Msg)
		m.SetQuestion("www.example.org.", dns.TypeA)
		m.Id = uint16(0x1000 + len(out))
		f(m)
		b, err := m.Pack()
		if err != nil {
			panic(err)
		}
		out = append(out, b)
	}
	mk(func(m *dns.Msg) {})
	mk(func(m *dns.Msg) { m.SetEdns0(1232, true) })
	mk(func(m *dns.Msg) {
		m.Opcode = dns.OpcodeNotify
		m.Answer = []dns.RR{&dns.SOA{Hdr: dns.RR_Header{Name: "example.org.", Rrtype: dns.TypeSOA, Class: 1, Ttl: 5}, Ns: "ns.", Mbox: "m.", Serial: 9}}
	})
	mk(func(m *dns.Msg) {
		m.Question[0].Qtype = dns.TypeIXFR
		m.Ns = []dns.RR{&dns.SOA{Hdr: dns.RR_Header{Name: "example.org.", Rrtype: dns.TypeSOA, Class: 1, Ttl: 5}, Ns: "ns.", Mbox: "m.", Serial: 9}}
		m.SetEdns0(4096, false)
	})
	if pbt.Thorough() {
		mk(func(m *dns.Msg) { m.Question[0].Name = "a\\.b.c." })
		mk(func(m *dns.Msg) {
			m.Compress = true
			m.Extra = []dns.RR{&dns.A{Hdr: dns.RR_Header{Name: "www.example.org.", Rrtype: 1, Class: 1}, A: net.IPv4(1, 2, 3, 4).To4()}}
			m.SetEdns0(4096, false)
		})
	}
	return out
}

func eachTruncation(emit func(admitCase)) {
	for _, tr := range []string{"udp", "tcp"} {
		for _, q := range fixedQueries() {
			var batch [][]byte
			for l := 0; l <= len(q); l++ {
				batch = append(batch, q[:l])
				if len(batch) == 32 || l == len(q) {
					emit(admitCase{Transport: tr, Policy: policySpec{Kind: "default"}, Packets: batch})
					batch = nil
				}
			}
		}
	}
}

// eachSplit: a well-formed query (followed by a second one) arrives on a stream connection split at
// every offset of its frame - after the first length octet in particular - and in 1..3-octet reads.
func eachSplit(emit func(admitCase)) {
	qs := fixedQueries()
	for qi, q := range qs {
		next := qs[(qi+1)%len(qs)]
		for k := 1; k <= len(q)+3; k++ {
			emit(admitCase{Transport: "tcp", Policy: policySpec{Kind: "default"}, Packets: [][]byte{q, next}, Seg: []int{k, 65535}})
		}
		for _, seg := range [][]int{{1}, {2}, {3}, {1, 2}, {2, 1}, {1, 1, 65535}} {
			emit(admitCase{Transport: "tcp", Policy: policySpec{Kind: "default"}, Packets: [][]byte{q, next, q[:5], next}, Seg: seg})
		}
	}
}

// eachSilence: a client that stays silent for a little longer than the server's write timeout (and far
// shorter than the idle timeout) in the middle of a conversation: the messages after the silence get
// the same treatment as those before it. Configurations: the zero values and explicit ones.
func eachSilence(emit func(admitCase)) {
	q := fixedQueries()
	other := new(dns.Msg)
	other.SetQuestion("nomatch.test.", dns.TypeA)
	other.Id, other.CheckingDisabled = 0x2003, true
	ob, err := other.Pack()
	if err != nil {
		panic(err)
	}
	packets := [][]byte{
		q[0],
		{0x20, 0x01, 0x78, 0x00, 0, 0, 0, 0, 0, 0, 0, 0}, // opcode 15
		{0x20, 0x02, 0x00, 0x00, 0, 2, 0, 0, 0, 0, 0, 0}, // QDCOUNT 2
		{0x20, 0x04, 0x80, 0x00, 0, 1, 0, 0, 0, 0, 0, 0}, // QR set
		ob, // no pattern matches
		q[1],
	}
	for _, tr := range []string{"tcp", "udp"} {
		for _, h := range []string{"", "mux"} {
			for _, w := range []int64{0, 50, 3600_000} {
				for _, idle := range []int64{0, 172_800_000} {
					for _, before := range []int{1, 2, 4} {
						ts := timeoutSpec{WriteMs: w, IdleMs: idle}
						d := ts.write() + 300*time.Millisecond
						if tr == "tcp" && d > maxPause(ts.idle()) {
							continue
						}
						emit(admitCase{Transport: tr, Policy: policySpec{Kind: "default"}, Packets: packets, Handler: h, Timeouts: ts,
							Pauses: []pauseSpec{{Before: before, Ms: d.Milliseconds()}}})
					}
				}
			}
		}
	}
}

func init() {
	pbt.RegisterEnum(pbt.Enum[admitCase]{Name: "silence-matrix", Exhaustive: true, Each: eachSilence, Check: checkAdmit})
	// a datagram whose sender has no address (net.UnixConn.ReadFrom returns a nil net.Addr for an
	// unbound unixgram client) reaches a handler that asks for the client's address
	pbt.Probe(knownNoAddr, func() error {
		return checkAdmit(admitCase{Transport: "udp", Policy: policySpec{Kind: "default"}, Packets: [][]byte{fixedQueries()[0]}, NoAddr: []int{0}})
	})
	pbt.RegisterEnum(pbt.Enum[admitCase]{Name: "tcp-every-split", Exhaustive: true, Each: eachSplit, Check: checkAdmit})
	pbt.Register(pbt.Sub[admitCase]{Name: "admission", Weight: 20, Gen: genAdmit, Check: checkAdmit})
	pbt.RegisterEnum(pbt.Enum[admitCase]{Name: "header-matrix", Exhaustive: true, Each: eachHeader, Check: checkAdmit})
	pbt.RegisterEnum(pbt.Enum[admitCase]{Name: "every-truncation", Exhaustive: true, Each: eachTruncation, Check: checkAdmit})
	pbt.RegisterEnum(pbt.Enum[admitCase]{Name: "in-flight-at-shutdown", Exhaustive: true, Each: eachInFlight, Check: checkAdmit})
	pbt.RegisterEnum(pbt.Enum[admitCase]{Name: "stream-cut-short", Exhaustive: true, Each: eachCutShort, Check: checkAdmit})
}
