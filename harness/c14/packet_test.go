package c14

// In-memory net.PacketConn (generic, not *net.UDPConn: the server takes the readPacketConn path
// with its buffer pool), after design probe o.

import (
	"errors"
	"fmt"
	"net"
	"runtime"
	"sync"
	"time"
)

type dgram struct {
	b    []byte
	addr net.Addr
	late bool // in flight when Shutdown begins (inflight_test.go): the read that takes it returns only after Shutdown's SetReadDeadline
}

type memPC struct {
	mu           sync.Mutex
	cond         *sync.Cond
	in           []dgram
	out          []dgram
	clock        vclock    // deadlines live on this virtual clock (see stream_test.go): only pause() lets time pass
	rdl, wdl     vdeadline // read / write deadline
	closed       bool
	waiting      bool
	holdTimedOut int  // holdReport calls that were ended by their bound
	heldOpen     bool // restart cases: the serve loop is inside the report the harness holds open (restart_test.go)
	reads        int
	wdlSets      []string // every SetWriteDeadline call
	wdlExpired   []string // every WriteTo that failed because the write deadline had passed
	noAddr       int      // WriteTo calls without a destination address (refused, as a socket does)
	lateHeld     bool     // the serve loop's read has taken the datagram that is in flight at Shutdown and has not returned yet
	lateReturned int      // such reads that returned their datagram after Shutdown had begun
}

// bufferMu orders the harness's own accesses to receive buffers of the in-memory datagram socket:
// ReadFrom filling one, MsgInvalidFunc (observer.configure) copying and comparing one.
var bufferMu sync.Mutex

func newMemPC() *memPC { p := &memPC{}; p.cond = sync.NewCond(&p.mu); return p }

func (p *memPC) ReadFrom(b []byte) (int, net.Addr, error) {
	p.mu.Lock()
	defer p.mu.Unlock()
	for {
		if p.closed {
			return 0, nil, net.ErrClosed
		}
		if p.clock.expired(p.rdl) {
			return 0, nil, deadlineErr("read")
		}
		if len(p.in) > 0 {
			k := p.in[0]
			p.in = p.in[1:]
			p.reads++
			p.cond.Broadcast()
			// the observer reads reported octets under the same lock: a buffer that is filled again while
			// a callback still looks at it is to be reported by the oracle as what it is, in both
			// binaries, and not as a memory race of the harness's own two accesses
			bufferMu.Lock()
			n := copy(b, k.b)
			bufferMu.Unlock()
			if k.late {
				// the read has completed; its caller gets to run again only when Shutdown has marked the
				// server as stopping and moved the read deadline into the past (the datagram that arrives
				// in the instant in which a server is shut down). It is a datagram the server received.
				p.lateHeld = true
				p.cond.Broadcast()
				for !p.closed && !p.clock.expired(p.rdl) {
					p.cond.Wait()
				}
				p.lateHeld = false
				p.lateReturned++
			}
			return n, k.addr, nil
		}
		p.waiting = true
		p.cond.Broadcast()
		p.cond.Wait()
		p.waiting = false
	}
}

func (p *memPC) WriteTo(b []byte, a net.Addr) (int, error) {
	p.mu.Lock()
	defer p.mu.Unlock()
	if p.closed {
		return 0, net.ErrClosed
	}
	if p.clock.expired(p.wdl) {
		p.wdlExpired = append(p.wdlExpired, fmt.Sprintf("write of %d octets at virtual time %v: the write deadline passed at %v", len(b), p.clock.now(), p.wdl.at))
		return 0, deadlineErr("write")
	}
	if a == nil {
		// an unconnected datagram socket cannot send without a destination (unixgram: EINVAL, udp: "missing address")
		p.noAddr++
		return 0, &net.OpError{Op: "write", Net: "mem", Err: errors.New("missing address")}
	}
	p.out = append(p.out, dgram{b: append([]byte{}, b...), addr: a})
	p.cond.Broadcast()
	return len(b), nil
}

func (p *memPC) Close() error {
	p.mu.Lock()
	p.closed = true
	p.cond.Broadcast()
	p.mu.Unlock()
	return nil
}

func (p *memPC) LocalAddr() net.Addr { return &net.UDPAddr{IP: net.IPv4(127, 0, 0, 1), Port: 53} }
func (p *memPC) SetDeadline(t time.Time) error {
	p.SetWriteDeadline(t)
	return p.SetReadDeadline(t)
}
func (p *memPC) SetWriteDeadline(t time.Time) error {
	p.mu.Lock()
	p.wdl = p.clock.deadline(t)
	if p.wdl.set {
		p.wdlSets = append(p.wdlSets, fmt.Sprintf("at virtual time %v: now+%v", p.clock.now(), time.Until(t).Round(time.Millisecond)))
	} else {
		p.wdlSets = append(p.wdlSets, fmt.Sprintf("at virtual time %v: none", p.clock.now()))
	}
	p.mu.Unlock()
	return nil
}
func (p *memPC) SetReadDeadline(t time.Time) error {
	p.mu.Lock()
	p.rdl = p.clock.deadline(t)
	p.cond.Broadcast()
	p.mu.Unlock()
	return nil
}

// pause lets d pass on the socket's virtual clock.
func (p *memPC) pause(d time.Duration) {
	p.clock.ns.Add(int64(d))
	p.mu.Lock()
	p.cond.Broadcast()
	p.mu.Unlock()
}

// waitSent blocks until n datagrams have been written (true) or d of wall-clock time elapsed (false).
func (p *memPC) waitSent(n int, d time.Duration) bool {
	end := time.Now().Add(d) // before the timer is armed: the wake-up must find the end passed
	t := time.AfterFunc(d+time.Millisecond, func() { p.mu.Lock(); p.cond.Broadcast(); p.mu.Unlock() })
	defer t.Stop()
	p.mu.Lock()
	defer p.mu.Unlock()
	for len(p.out) < n {
		if p.closed || time.Now().After(end) {
			return false
		}
		p.cond.Wait()
	}
	return true
}

func (p *memPC) deadlineLog() (sets, expired []string) {
	p.mu.Lock()
	defer p.mu.Unlock()
	return append([]string{}, p.wdlSets...), append([]string{}, p.wdlExpired...)
}

func (p *memPC) inject(b []byte, a net.Addr) { p.injectLate(b, a, false) }

func (p *memPC) injectLate(b []byte, a net.Addr, late bool) {
	p.mu.Lock()
	p.in = append(p.in, dgram{b, a, late})
	p.cond.Broadcast()
	p.mu.Unlock()
}

// waitDrained blocks until the server has taken every injected datagram and is blocked in the
// next ReadFrom (or d elapsed: false).
func (p *memPC) waitDrained(d time.Duration) bool {
	end := time.Now().Add(d) // before the timer is armed: the wake-up must find the end passed
	t := time.AfterFunc(d+time.Millisecond, func() { p.mu.Lock(); p.cond.Broadcast(); p.mu.Unlock() })
	defer t.Stop()
	p.mu.Lock()
	defer p.mu.Unlock()
	for !(len(p.in) == 0 && (p.waiting || p.lateHeld)) {
		if time.Now().After(end) {
			return false
		}
		p.cond.Wait()
	}
	return true
}

// holdReport is called from inside MsgInvalidFunc and keeps the callback from returning until the
// serve loop has gone on reading: two more datagrams taken from the queue (the first of them may
// have been read into a buffer the loop held before the call began), or the loop parked in ReadFrom
// with nothing left to read. By then a receive buffer that went back to the pool too early has been
// handed out and filled again. The report about a datagram shorter than a header is delivered on the
// serve loop's own goroutine by the library as it stands - nothing can move meanwhile - so there
// the wait is a few scheduler yields. The bound (50 ms) only ends the wait; the caller compares
// octets, never times. Returns whether the loop did read on during the call.
func (p *memPC) holdReport(short bool) bool {
	p.mu.Lock()
	r0 := p.reads
	p.mu.Unlock()
	if short {
		for i := 0; i < 8; i++ {
			runtime.Gosched()
			p.mu.Lock()
			moved := p.reads != r0
			p.mu.Unlock()
			if moved {
				return true
			}
		}
		return false
	}
	// the loop may also be gone (Shutdown follows as soon as the socket is drained): then nothing reads on
	timedOut := false
	t := time.AfterFunc(50*time.Millisecond, func() { p.mu.Lock(); timedOut = true; p.cond.Broadcast(); p.mu.Unlock() })
	defer t.Stop()
	p.mu.Lock()
	defer p.mu.Unlock()
	for p.reads < r0+2 && !(len(p.in) == 0 && (p.waiting || p.lateHeld)) && !p.closed && !p.clock.expired(p.rdl) && !timedOut {
		p.cond.Wait()
	}
	if timedOut {
		p.holdTimedOut++
	}
	return p.reads > r0
}

func (p *memPC) sent() []dgram {
	p.mu.Lock()
	defer p.mu.Unlock()
	return append([]dgram{}, p.out...)
}
