package c14

// In-memory net.PacketConn (generic, not *net.UDPConn: the server takes the readPacketConn path
// with its buffer pool), after design probe o.

import (
	"net"
	"os"
	"sync"
	"time"
)

type dgram struct {
	b    []byte
	addr net.Addr
}

type memPC struct {
	mu       sync.Mutex
	cond     *sync.Cond
	in       []dgram
	out      []dgram
	deadline time.Time
	closed   bool
	waiting  bool
	reads    int
}

func newMemPC() *memPC { p := &memPC{}; p.cond = sync.NewCond(&p.mu); return p }

func (p *memPC) ReadFrom(b []byte) (int, net.Addr, error) {
	p.mu.Lock()
	defer p.mu.Unlock()
	for {
		if p.closed {
			return 0, nil, net.ErrClosed
		}
		if !p.deadline.IsZero() && !p.deadline.After(time.Now()) {
			return 0, nil, os.ErrDeadlineExceeded
		}
		if len(p.in) > 0 {
			k := p.in[0]
			p.in = p.in[1:]
			p.reads++
			p.cond.Broadcast()
			return copy(b, k.b), k.addr, nil
		}
		p.waiting = true
		p.cond.Broadcast()
		p.cond.Wait()
		p.waiting = false
	}
}

func (p *memPC) WriteTo(b []byte, a net.Addr) (int, error) {
	p.mu.Lock()
	defer p.mu.Unlock()
	if p.closed {
		return 0, net.ErrClosed
	}
	p.out = append(p.out, dgram{append([]byte{}, b...), a})
	return len(b), nil
}

func (p *memPC) Close() error {
	p.mu.Lock()
	p.closed = true
	p.cond.Broadcast()
	p.mu.Unlock()
	return nil
}

func (p *memPC) LocalAddr() net.Addr { return &net.UDPAddr{IP: net.IPv4(127, 0, 0, 1), Port: 53} }
func (p *memPC) SetDeadline(t time.Time) error {
	return p.SetReadDeadline(t)
}
func (p *memPC) SetWriteDeadline(t time.Time) error { return nil }
func (p *memPC) SetReadDeadline(t time.Time) error {
	p.mu.Lock()
	p.deadline = t
	p.cond.Broadcast()
	p.mu.Unlock()
	if d := time.Until(t); !t.IsZero() && d > 0 {
		time.AfterFunc(d, func() { p.mu.Lock(); p.cond.Broadcast(); p.mu.Unlock() })
	}
	return nil
}

func (p *memPC) inject(b []byte, a net.Addr) {
	p.mu.Lock()
	p.in = append(p.in, dgram{b, a})
	p.cond.Broadcast()
	p.mu.Unlock()
}

// waitDrained blocks until the server has taken every injected datagram and is blocked in the
// next ReadFrom (or d elapsed: false).
func (p *memPC) waitDrained(d time.Duration) bool {
	t := time.AfterFunc(d, func() { p.mu.Lock(); p.cond.Broadcast(); p.mu.Unlock() })
	defer t.Stop()
	end := time.Now().Add(d)
	p.mu.Lock()
	defer p.mu.Unlock()
	for !(len(p.in) == 0 && p.waiting) {
		if time.Now().After(end) {
			return false
		}
		p.cond.Wait()
	}
	return true
}

func (p *memPC) sent() []dgram {
	p.mu.Lock()
	defer p.mu.Unlock()
	return append([]dgram{}, p.out...)
}
