package c14

import (
	"testing"

	"verif/harness/pbt"
)

func init() { pbt.Property("C14") }

func TestMain(m *testing.M)   { pbt.Main(m) }
func TestProps(t *testing.T)  { pbt.RunAll(t) }
func TestReplay(t *testing.T) { pbt.ReplayAll(t) }

// TestRaceAll runs every sub-check again in the -race binary (driver: ^TestRace, VERIF_RACE=1).
func TestRaceAll(t *testing.T) { pbt.RunAll(t) }
