package c14

// Two runs of one Server value (round 9).
//
// "For every datagram a server receives ... is reported to the invalid-message callback": the
// statement is about the Server, not about one call of ActivateAndServe. The library supports
// starting the same Server value again after Shutdown, and ShutdownContext may return - on an
// expired context - while the run it ends is still busy (its serve loop inside a callback); the
// code is written for that overlap (serving() compares the run's own channel, ShutdownContext
// keeps "the channel of the run that is being shut down"). What the two runs share is the pool
// of receive buffers. Case dimension Restart = k: datagrams [0,k) are served by a first run,
// ShutdownContext with an expired context ends it at the moment its last datagram has been taken
// from the socket - when that datagram is shorter than a header the report about it is still
// open: the harness keeps that one MsgInvalidFunc call from returning, which is all a slow
// callback (a logger on a full pipe) does - and a second run of the same Server on a new socket
// serves the rest. Expected: the dispositions of a single run, and every report intact until its
// callback returns.

import (
	"context"
	"errors"
	"fmt"
	"net"
	"runtime"
	"sync/atomic"
	"time"

	"github.com/miekg/dns"
	"pgregory.net/rapid"

	"verif/harness/pbt"
)

const knownShortReportPooled = "udp-short-report-buffer-pooled-before-callback"

// heldOpen: the loop has taken every datagram and is inside the report that the harness holds open.
func (p *memPC) markHeld() {
	p.mu.Lock()
	p.heldOpen = true
	p.cond.Broadcast()
	p.mu.Unlock()
}

func (p *memPC) pending() int {
	p.mu.Lock()
	defer p.mu.Unlock()
	return len(p.in)
}

// waitTaken blocks until the server has taken every injected datagram and its serve loop is either
// blocked in the next ReadFrom or inside the report held open by the harness (or d elapsed: false).
func (p *memPC) waitTaken(d time.Duration) bool {
	timedOut := false
	t := time.AfterFunc(d, func() { p.mu.Lock(); timedOut = true; p.cond.Broadcast(); p.mu.Unlock() })
	defer t.Stop()
	p.mu.Lock()
	defer p.mu.Unlock()
	for !(len(p.in) == 0 && (p.waiting || p.heldOpen)) {
		if timedOut {
			return false
		}
		p.cond.Wait()
	}
	return true
}

func (c admitCase) lastOfFirstRunShort() bool {
	return c.Restart > 0 && c.Restart <= len(c.Packets) && len(c.Packets[c.Restart-1]) < 12
}

func runUDPRestart(c admitCase) (outcome, error) {
	// one P for the length of the case: whether a buffer that was put into the (per-P) pool by one
	// goroutine is the one handed to another goroutine next is then not left to the scheduler
	defer runtime.GOMAXPROCS(runtime.GOMAXPROCS(1))
	o := &observer{}
	pc1, pc2 := newMemPC(), newMemPC()
	release := make(chan struct{})
	released := false
	defer func() {
		if !released {
			close(release)
		}
	}()
	var second atomic.Bool
	var heldAcross atomic.Int32
	o.hold = func(short bool) bool {
		if second.Load() {
			return pc2.holdReport(short)
		}
		if !short || pc1.pending() > 0 {
			return pc1.holdReport(short)
		}
		// the report about the last datagram of the first run stays open until the second run has
		// served its datagrams
		heldAcross.Add(1)
		pc1.markHeld()
		select {
		case <-release:
		case <-time.After(watchdog):
		}
		return true
	}
	srv := &dns.Server{PacketConn: pc1, UDPSize: c.UDPSize}
	c.Timeouts.apply(srv)
	o.configure(srv, c.Policy, c.Handler)
	defer o.cleanup()
	inject := func(pc *memPC, from, to int) (due int) {
		for i := from; i < to; i++ {
			if c.noAddr(i) {
				pc.inject(c.Packets[i], nil)
			} else {
				pc.inject(c.Packets[i], &net.UDPAddr{IP: net.IPv4(10, 0, 0, 1), Port: basePort + i})
				due += expectFor(c, c.Packets[i]).replies
			}
		}
		return due
	}
	// first run: its datagrams are in the socket's queue before the server starts
	due1 := inject(pc1, 0, c.Restart)
	done1, err := serveAndWait(srv)
	if err != nil {
		return outcome{}, err
	}
	if !pc1.waitTaken(watchdog) {
		return outcome{}, errors.New("server did not consume every datagram (first run)")
	}
	// everything else the first run owes has been done when its replies are out (a report precedes
	// the reply, the handler's record precedes its reply); a reply that is missing after 3 s is reported by judge
	pc1.waitSent(due1, 3*time.Second)
	ctx, cancel := context.WithCancel(context.Background())
	cancel()
	if err := srv.ShutdownContext(ctx); err != nil && !errors.Is(err, context.Canceled) {
		return outcome{}, fmt.Errorf("ShutdownContext (expired context): %v", err)
	}
	// second run of the same Server value on a new socket
	srv.PacketConn = pc2
	second.Store(true)
	inject(pc2, c.Restart, len(c.Packets))
	done2, err := serveAndWait(srv)
	if err != nil {
		return outcome{}, fmt.Errorf("second run: %v", err)
	}
	if !pc2.waitDrained(watchdog) {
		return outcome{}, errors.New("server did not consume every datagram (second run)")
	}
	released = true
	close(release)
	select {
	case err := <-done1:
		if err != nil {
			return outcome{}, fmt.Errorf("ActivateAndServe (first run) returned %v", err)
		}
	case <-time.After(watchdog):
		return outcome{}, errors.New("ActivateAndServe (first run) did not return")
	}
	if err := shutdown(srv, done2); err != nil {
		return outcome{}, err
	}
	out := outcome{obs: o, replies: map[int][][]byte{}}
	for _, pc := range []*memPC{pc1, pc2} {
		for _, d := range pc.sent() {
			p := portOf(d.addr)
			out.replies[p] = append(out.replies[p], d.b)
		}
		s, e := pc.deadlineLog()
		out.wdlSets, out.wdlExpired = append(out.wdlSets, s...), append(out.wdlExpired, e...)
	}
	out.heldAcross = int(heldAcross.Load())
	return out, nil
}

// genRestart: one in-memory datagram case in five is served in two runs; in half of those the last
// datagram of the first run is cut below the header size.
func genRestart(t *rapid.T, c *admitCase) {
	if c.Transport != "udp" || len(c.Pauses) > 0 || len(c.Packets) < 2 || rapid.IntRange(0, 4).Draw(t, "restart") != 0 {
		return
	}
	c.Restart = rapid.IntRange(1, len(c.Packets)-1).Draw(t, "restartAt")
	if rapid.Bool().Draw(t, "runtLast") {
		b := c.Packets[c.Restart-1]
		c.Packets[c.Restart-1] = b[:rapid.IntRange(0, min(11, len(b))).Draw(t, "runtLen")]
	}
	if c.lastOfFirstRunShort() && pbt.Known(knownShortReportPooled) {
		pbt.Excluded(knownShortReportPooled)
		c.Restart = 0
	}
}

func eachRestart(emit func(admitCase)) {
	q := fixedQueries()
	tails := [][]byte{
		{1, 2, 3},
		{},
		q[1][:11],
		q[0],
		q[1][:len(q[1])-3], // accepted, does not decode
		{0x20, 0x02, 0x00, 0x00, 0, 2, 0, 0, 0, 0, 0, 0}, // QDCOUNT 2
		{0x20, 0x04, 0x80, 0x00, 0, 1, 0, 0, 0, 0, 0, 0}, // QR set
	}
	heads := [][]byte{q[1], {9, 8, 7, 6}, q[0][:len(q[0])-2]}
	for _, tail := range tails {
		for _, head := range heads {
			for _, size := range []int{0, 4096} {
				for _, h := range []string{"", "mux"} {
					c := admitCase{Transport: "udp", UDPSize: size, Policy: policySpec{Kind: "default"}, Handler: h,
						Packets: [][]byte{q[0], tail, head, q[1]}, Restart: 2}
					if c.lastOfFirstRunShort() && pbt.Known(knownShortReportPooled) {
						pbt.Excluded(knownShortReportPooled)
						continue
					}
					emit(c)
				}
			}
		}
	}
}

func init() {
	// the report about a datagram shorter than a header is made with a buffer that is already back in
	// the pool: a second run of the same Server, started while that callback has not returned, reads
	// its next datagram into the octets the callback is looking at
	pbt.Probe(knownShortReportPooled, func() error {
		q := fixedQueries()
		c := admitCase{Transport: "udp", Policy: policySpec{Kind: "default"}, Packets: [][]byte{q[0], {1, 2, 3}, q[1]}, Restart: 2}
		// the pool may drop a buffer (a collection in between; one Put in four under the race detector)
		for round := 0; round < 40; round++ {
			if err := checkAdmit(c); err != nil {
				return err
			}
		}
		return nil
	})
	pbt.RegisterEnum(pbt.Enum[admitCase]{Name: "restart-matrix", Exhaustive: true, Each: eachRestart, Check: checkAdmit})
}
