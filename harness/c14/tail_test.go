package c14

// A stream connection that ends in the middle of a frame (round 10).
//
// "For every ... stream message a server receives": a stream message is what its two length octets
// delimit. A frame whose announced octets never arrive (the client closes its sending side first)
// was never received - the Reader returns an error, not a message - and the statement neither
// requires nor forbids a report about the fragment. What the statement does say about such a
// connection: every complete message in front of the fragment is dealt with exactly once as if the
// fragment were not there, nothing is handed to the handler or the policy that no client sent
// (a fragment padded to its announced length, a fragment taken for a message), no reply is made up
// for it, the server does not panic and the connection is closed. A MsgInvalidFunc call with exactly
// the octets of the fragment's body is tolerated (class tcp-tail=reported-anyway, never seen on the
// pinned tree); any other extra call is a violation as before.

import (
	"encoding/binary"
	"encoding/hex"

	"verif/harness/pbt"

	"pgregory.net/rapid"
)

func (c admitCase) tail(k int) []byte {
	if k < len(c.Tails) {
		return c.Tails[k]
	}
	return nil
}

// incompleteFrame: non-empty, and the octets announced by the length are not all there.
func incompleteFrame(b []byte) bool {
	switch {
	case len(b) == 0:
		return false
	case len(b) == 1:
		return true
	}
	return int(binary.BigEndian.Uint16(b)) > len(b)-2
}

func (c admitCase) tailsWellFormed() bool {
	if len(c.Tails) == 0 {
		return true
	}
	if c.Transport != "tcp" && c.Transport != "tcp-real" {
		return false
	}
	nconn := 0
	for i := range c.Packets {
		if k := c.connOf(i); k+1 > nconn {
			nconn = k + 1
		}
	}
	if len(c.Tails) > nconn {
		return false
	}
	for _, b := range c.Tails {
		if len(b) > 0 && !incompleteFrame(b) {
			return false
		}
	}
	return true
}

func (c admitCase) tailClasses() []string {
	if c.Transport != "tcp" && c.Transport != "tcp-real" {
		return nil
	}
	var out []string
	seen := map[string]bool{}
	for _, b := range c.Tails {
		cl := ""
		switch {
		case len(b) == 0:
			continue
		case len(b) == 1:
			cl = "tcp-tail=one-length-octet"
		case len(b) == 2:
			cl = "tcp-tail=length-without-body"
		case len(b) < 14:
			cl = "tcp-tail=body-cut-inside-the-header"
		default:
			cl = "tcp-tail=body-cut-after-the-header"
		}
		if !seen[cl] {
			seen[cl] = true
			out = append(out, cl)
		}
	}
	if len(out) == 0 {
		return []string{"tcp-tail=none"}
	}
	return out
}

// withoutTailReports removes from the sorted list of reported octets at most one report per
// fragment that is exactly the fragment's body and is not accounted for by an expected report.
func (c admitCase) withoutTailReports(got, want []string) []string {
	count := func(l []string, x string) int {
		n := 0
		for _, y := range l {
			if y == x {
				n++
			}
		}
		return n
	}
	for _, b := range c.Tails {
		if len(b) < 2 {
			continue
		}
		x := hex.EncodeToString(b[2:])
		if count(got, x) <= count(want, x) {
			continue
		}
		for i, y := range got {
			if y == x {
				got = append(got[:i:i], got[i+1:]...)
				if !quietStats {
					pbt.Class("tcp-tail=reported-anyway")
				}
				break
			}
		}
	}
	return got
}

// genTails: one stream case in three ends some of its connections in the middle of a frame: a
// generated packet (valid, truncated, mutated, header-only, runt) framed with its own length or a
// larger one, cut at a random offset of the frame.
func genTails(t *rapid.T, c *admitCase) {
	if (c.Transport != "tcp" && c.Transport != "tcp-real") || rapid.IntRange(0, 2).Draw(t, "tails") != 0 {
		return
	}
	nconn := 0
	for i := range c.Packets {
		if k := c.connOf(i); k+1 > nconn {
			nconn = k + 1
		}
	}
	c.Tails = make([][]byte, nconn)
	for k := 0; k < nconn; k++ {
		if k > 0 && rapid.Bool().Draw(t, "noTail") {
			continue
		}
		b := genPacket(t)
		if len(b) > 4000 {
			b = b[:4000]
		}
		announced := len(b) + rapid.SampledFrom([]int{0, 0, 0, 1, 2, 500, 65535}).Draw(t, "announcedMore")
		if announced > 65535 {
			announced = 65535
		}
		frame := binary.BigEndian.AppendUint16(nil, uint16(announced))
		frame = append(frame, b...)
		// delivered octets: at least one, and at least one announced octet missing
		most := min(len(frame), 2+announced-1)
		if most < 1 {
			most = 1 // announced 0: "00 00" is a complete (empty) message, only "00" is a fragment
		}
		d := most
		if rapid.IntRange(0, 3).Draw(t, "cutAnywhere") != 0 {
			d = rapid.IntRange(1, most).Draw(t, "delivered")
		}
		c.Tails[k] = frame[:d]
	}
}

// eachCutShort: a complete query, then the frame of a second one of which only the first d octets
// arrive, for every d (1 .. frame length - 1), with the server's reads whole and octet by octet;
// plus the same fragments announced as longer than the query is.
func eachCutShort(emit func(admitCase)) {
	qs := fixedQueries()
	for qi, q := range qs {
		first := qs[(qi+1)%len(qs)]
		frame := binary.BigEndian.AppendUint16(nil, uint16(len(q)))
		frame = append(frame, q...)
		for d := 1; d < len(frame); d++ {
			for _, seg := range [][]int{nil, {1}} {
				for _, h := range []string{"", "mux"} {
					emit(admitCase{Transport: "tcp", Policy: policySpec{Kind: "default"}, Packets: [][]byte{first}, Tails: [][]byte{frame[:d]}, Seg: seg, Handler: h})
				}
			}
		}
		for _, more := range []int{1, 512, 65535 - len(q)} {
			long := binary.BigEndian.AppendUint16(nil, uint16(len(q)+more))
			long = append(long, q...)
			emit(admitCase{Transport: "tcp", Policy: policySpec{Kind: "table", Table: []int{0}}, Packets: [][]byte{first, q}, ConnOf: []int{0, 1}, Tails: [][]byte{long, long[:2]}})
		}
	}
}
