package c14

import (
	"testing"
)

// quietStats is set by the native fuzz target: its executions are counted by the driver, not by pbt.
var quietStats bool

// FuzzAdmit: coverage-guided search over single inbound packets (thorough tier only). The oracle is
// the same disposition oracle as in the admission sub-check; sel picks transport and policy.
func FuzzAdmit(f *testing.F) {
	for i, q := range fixedQueries() {
		f.Add(q, byte(i))
		f.Add(q[:len(q)-3], byte(i))
		f.Add(q[:12], byte(i+4))
	}
	f.Add([]byte{0, 1, 0x80, 0, 0, 1, 0, 0, 0, 0, 0, 0}, byte(0))
	f.Add([]byte{0, 1, 0x28, 0, 0, 1, 0, 0, 0, 0, 0, 0, 0, 0, 6, 0, 1}, byte(1))
	f.Add([]byte{1, 2, 3}, byte(2))
	f.Fuzz(func(t *testing.T, data []byte, sel byte) {
		if len(data) > 2048 {
			return
		}
		quietStats = true
		c := admitCase{Transport: "udp", Policy: policySpec{Kind: "default"}, Packets: [][]byte{data}}
		if sel&1 != 0 {
			c.Transport = "tcp"
		}
		if sel&2 != 0 {
			c.UDPSize = 4096
		}
		if sel&4 != 0 {
			c.Policy = policySpec{Kind: "table", Table: []int{0, 0, 1, 2, 3, 0, 3, 0, 1}, Salt: int(sel >> 3)}
			if sel&0x40 != 0 {
				c.Policy.Kind = "global"
			}
		}
		if sel&0x80 != 0 { // a well-formed neighbour before and after: no cross-talk between packets
			q := fixedQueries()[0]
			c.Packets = [][]byte{q, data, q}
		}
		if err := checkAdmit(c); err != nil {
			t.Fatalf("C14/FuzzAdmit: %v", err)
		}
	})
}
