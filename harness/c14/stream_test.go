package c14

// A small in-memory full-duplex stream (net.Conn) with a read-segmentation plan, a cut point
// ("the stream ends after octet k") and observable Close – the transport under dns.Transfer /
// dns.Server in this package. Deliberately NOT a net.PacketConn, so dns.Conn uses the two-octet
// length framing.

import (
	"errors"
	"fmt"
	"io"
	"net"
	"os"
	"sync"
	"sync/atomic"
	"time"
)

// vclock is the virtual clock of one connection (or of one datagram socket). The server end of an
// in-memory transport keeps its deadlines on this clock, not on the wall clock: a deadline set to
// "now + d" expires once the harness has advanced the clock by d - the client "pauses" - and never
// because the machine is slow. A deadline is translated when it is set: t lies d = t - time.Now()
// ahead of (or behind: Shutdown's aLongTimeAgo) the moment of the call, so it expires at virtual
// time now() + d. The only wall-clock quantity is the few nanoseconds between the library's own
// time.Now() and the Set*Deadline call, which make d a little smaller than the configured timeout
// (never zero or negative: see deadline); generated pauses keep a margin of at least a second from
// every read deadline (maxPause).
type vclock struct{ ns atomic.Int64 }

func (c *vclock) now() time.Duration { return time.Duration(c.ns.Load()) }

// vdeadline is a deadline on a vclock.
type vdeadline struct {
	set bool
	at  time.Duration
}

func (c *vclock) deadline(t time.Time) vdeadline {
	if t.IsZero() {
		return vdeadline{}
	}
	d := time.Until(t)
	if d <= 0 && d > -time.Minute {
		// The library computes t as its own time.Now() plus a positive timeout (50 ms is among the
		// configurations). On a box with a load average of 190 the goroutine can be pre-empted between
		// that time.Now() and this call for longer than the timeout; the deadline the caller meant lay
		// ahead of it. It expires as soon as the harness lets any time pass, not before (Shutdown's
		// "a long time ago" is decades back and stays in the past).
		d = 1
	}
	return vdeadline{true, c.now() + d}
}

func (c *vclock) expired(d vdeadline) bool { return d.set && c.now() >= d.at }

// deadlineErr is what a net.Conn returns for an expired deadline: a net.Error with Timeout() true.
func deadlineErr(op string) error {
	return &net.OpError{Op: op, Net: "mem", Err: os.ErrDeadlineExceeded}
}

// half is one direction of the stream.
type half struct {
	mu       sync.Mutex
	cond     *sync.Cond
	buf      []byte
	eof      bool // the writing side is finished: EOF once buf is drained
	rclosed  bool // the reading side closed its conn
	deadline time.Time
	timer    *time.Timer
	seg      []int // at most seg[i mod len] octets per Read (empty: whatever is available)
	segi     int
	cut      int // >= 0: only the first cut octets ever written are delivered, then EOF
	written  int
	nread    int
	virt     *vclock   // non-nil: the reading end keeps its read deadline on this clock (vdl), not on the wall clock
	vdl      vdeadline // read deadline on virt
	waiting  bool      // a Read is parked with nothing left to deliver
	vdlDist  time.Duration // how far ahead the read deadline lay when it was set (negative: Shutdown's "a long time ago")
	vdlSetAt time.Duration // virtual time of that call
	rExpired []string      // Reads that ended on a read deadline which had been set in the future: the silence of the client outlasted it
}

func newHalf() *half { h := &half{cut: -1}; h.cond = sync.NewCond(&h.mu); return h }

type endpoint struct {
	in, out    *half
	local, rem net.Addr
	mu         sync.Mutex
	closed     bool
	closes     int
	virt       *vclock   // non-nil (server end): deadlines live on the connection's virtual clock
	wdl        vdeadline // write deadline on virt
	wdlSets    []string  // every SetWriteDeadline call: virtual time of the call and the distance of the deadline
	wdlExpired []string  // every Write that failed because the write deadline had passed
}

func memAddr(port int) net.Addr { return &net.TCPAddr{IP: net.IPv4(127, 0, 0, 1), Port: port} }

// newPipe returns the two ends of a stream: a (client side) and b (server side).
func newPipe() (a, b *endpoint) {
	x, y := newHalf(), newHalf()
	a = &endpoint{in: x, out: y, local: memAddr(40000), rem: memAddr(53)}
	b = &endpoint{in: y, out: x, local: memAddr(53), rem: memAddr(40000)}
	return
}

func (e *endpoint) isClosed() bool { e.mu.Lock(); defer e.mu.Unlock(); return e.closed }

func (e *endpoint) Read(p []byte) (int, error) {
	h := e.in
	h.mu.Lock()
	defer h.mu.Unlock()
	for {
		if h.rclosed {
			return 0, net.ErrClosed
		}
		if h.virt != nil {
			if h.virt.expired(h.vdl) {
				if h.vdlDist > 0 {
					h.rExpired = append(h.rExpired, fmt.Sprintf("read at virtual time %v: the read deadline set at %v (now+%v) had passed", h.virt.now(), h.vdlSetAt, h.vdlDist.Round(time.Millisecond)))
				}
				return 0, deadlineErr("read")
			}
		} else if !h.deadline.IsZero() && !h.deadline.After(time.Now()) {
			return 0, os.ErrDeadlineExceeded
		}
		if len(p) == 0 {
			return 0, nil
		}
		if len(h.buf) > 0 {
			n := len(p)
			if n > len(h.buf) {
				n = len(h.buf)
			}
			if len(h.seg) > 0 {
				s := h.seg[h.segi%len(h.seg)]
				h.segi++
				if s < 1 {
					s = 1
				}
				if n > s {
					n = s
				}
			}
			copy(p, h.buf[:n])
			h.buf = h.buf[n:]
			h.nread += n
			return n, nil
		}
		if h.eof {
			return 0, io.EOF
		}
		h.waiting = true
		h.cond.Broadcast()
		h.cond.Wait()
		h.waiting = false
	}
}

func (e *endpoint) Write(p []byte) (int, error) {
	if e.isClosed() {
		return 0, net.ErrClosed
	}
	if e.virt != nil {
		e.mu.Lock()
		late := e.virt.expired(e.wdl)
		if late {
			e.wdlExpired = append(e.wdlExpired, fmt.Sprintf("write of %d octets at virtual time %v: the write deadline passed at %v", len(p), e.virt.now(), e.wdl.at))
		}
		e.mu.Unlock()
		if late {
			return 0, deadlineErr("write")
		}
	}
	h := e.out
	h.mu.Lock()
	defer h.mu.Unlock()
	if h.rclosed {
		return 0, io.ErrClosedPipe
	}
	if h.eof && h.cut < 0 {
		return 0, io.ErrClosedPipe
	}
	q := p
	if h.cut >= 0 {
		room := h.cut - h.written
		if room < 0 {
			room = 0
		}
		if len(q) > room {
			q = q[:room]
		}
		if h.written+len(p) >= h.cut {
			h.eof = true
		}
	}
	h.written += len(p)
	h.buf = append(h.buf, q...)
	h.cond.Broadcast()
	return len(p), nil
}

// closeWrite: the peer reads EOF after draining what was written.
func (e *endpoint) closeWrite() {
	h := e.out
	h.mu.Lock()
	h.eof = true
	h.cond.Broadcast()
	h.mu.Unlock()
}

func (e *endpoint) Close() error {
	e.mu.Lock()
	e.closes++
	already := e.closed
	e.closed = true
	e.mu.Unlock()
	if already {
		return errors.New("memstream: already closed")
	}
	e.in.mu.Lock()
	e.in.rclosed = true
	if e.in.timer != nil {
		e.in.timer.Stop()
	}
	e.in.cond.Broadcast()
	e.in.mu.Unlock()
	e.closeWrite()
	return nil
}

func (e *endpoint) LocalAddr() net.Addr  { return e.local }
func (e *endpoint) RemoteAddr() net.Addr { return e.rem }
func (e *endpoint) SetDeadline(t time.Time) error {
	e.SetWriteDeadline(t)
	return e.SetReadDeadline(t)
}

// SetWriteDeadline: a Write never blocks here, so a write deadline matters only once it has passed -
// on the server end that is decided on the connection's virtual clock.
func (e *endpoint) SetWriteDeadline(t time.Time) error {
	if e.virt == nil {
		return nil
	}
	e.mu.Lock()
	e.wdl = e.virt.deadline(t)
	if e.wdl.set {
		e.wdlSets = append(e.wdlSets, fmt.Sprintf("at virtual time %v: now+%v", e.virt.now(), time.Until(t).Round(time.Millisecond)))
	} else {
		e.wdlSets = append(e.wdlSets, fmt.Sprintf("at virtual time %v: none", e.virt.now()))
	}
	e.mu.Unlock()
	return nil
}
func (e *endpoint) SetReadDeadline(t time.Time) error {
	h := e.in
	h.mu.Lock()
	defer h.mu.Unlock()
	if h.virt != nil {
		h.vdl = h.virt.deadline(t)
		h.vdlDist, h.vdlSetAt = time.Until(t), h.virt.now()
		h.cond.Broadcast()
		return nil
	}
	h.deadline = t
	if h.timer != nil {
		h.timer.Stop()
		h.timer = nil
	}
	if !t.IsZero() {
		d := time.Until(t)
		if d <= 0 {
			h.cond.Broadcast()
		} else {
			h.timer = time.AfterFunc(d, func() {
				h.mu.Lock()
				h.cond.Broadcast()
				h.mu.Unlock()
			})
		}
	}
	return nil
}

// makeVirtual puts the deadlines of this end on a virtual clock of its own (call before any I/O).
func (e *endpoint) makeVirtual() *vclock {
	c := &vclock{}
	e.virt = c
	e.in.mu.Lock()
	e.in.virt = c
	e.in.mu.Unlock()
	return c
}

// pause lets d pass on the virtual clock of this end: read and write deadlines that lie less than d
// ahead are expired afterwards, a Read parked on such a deadline returns a timeout.
func (e *endpoint) pause(d time.Duration) {
	e.virt.ns.Add(int64(d))
	e.in.mu.Lock()
	e.in.cond.Broadcast()
	e.in.mu.Unlock()
}

// waitParked blocks until this end has read everything that was written to it and is parked in a
// Read (true), or has been closed / d of wall-clock time elapsed (false). The server reads, handles
// and answers the messages of one connection in one goroutine: once it is parked again with nothing
// left to read, everything it was going to do for the messages written so far has been done.
func (e *endpoint) waitParked(d time.Duration) bool {
	h := e.in
	end := time.Now().Add(d) // before the timer is armed: the wake-up must find the end passed
	t := time.AfterFunc(d+time.Millisecond, func() { h.mu.Lock(); h.cond.Broadcast(); h.mu.Unlock() })
	defer t.Stop()
	h.mu.Lock()
	defer h.mu.Unlock()
	for !(h.waiting && len(h.buf) == 0) {
		if h.rclosed || time.Now().After(end) {
			return false
		}
		h.cond.Wait()
	}
	return true
}

func (e *endpoint) deadlineLog() (sets, expired, readExpired []string) {
	e.in.mu.Lock()
	readExpired = append(readExpired, e.in.rExpired...)
	e.in.mu.Unlock()
	e.mu.Lock()
	defer e.mu.Unlock()
	return append([]string{}, e.wdlSets...), append([]string{}, e.wdlExpired...), readExpired
}

// consumed reports how many octets this end has read so far.
func (e *endpoint) consumed() int { e.in.mu.Lock(); defer e.in.mu.Unlock(); return e.in.nread }

// ---------------------------------------------------------------------------------------------

type memListener struct {
	mu     sync.Mutex
	cond   *sync.Cond
	q      []*endpoint
	closed bool
}

func newMemListener() *memListener { l := &memListener{}; l.cond = sync.NewCond(&l.mu); return l }

func (l *memListener) dial(port int) (cli, srv *endpoint) {
	cli, srv = newPipe()
	cli.local, srv.rem = memAddr(port), memAddr(port)
	l.mu.Lock()
	l.q = append(l.q, srv)
	l.cond.Broadcast()
	l.mu.Unlock()
	return
}

// enqueue hands a ready-made server end to the next Accept.
func (l *memListener) enqueue(srv *endpoint) {
	l.mu.Lock()
	l.q = append(l.q, srv)
	l.cond.Broadcast()
	l.mu.Unlock()
}

func (l *memListener) Accept() (net.Conn, error) {
	l.mu.Lock()
	defer l.mu.Unlock()
	for {
		if l.closed {
			return nil, net.ErrClosed
		}
		if len(l.q) > 0 {
			c := l.q[0]
			l.q = l.q[1:]
			return c, nil
		}
		l.cond.Wait()
	}
}

func (l *memListener) Close() error {
	l.mu.Lock()
	l.closed = true
	l.cond.Broadcast()
	l.mu.Unlock()
	return nil
}

func (l *memListener) Addr() net.Addr { return memAddr(53) }
