package c14

// Per-connection query limit of the stream server (Server.MaxTCPQueries; added by the C12/C13
// builder for seeded change C14-J, the mechanism lives in serveTCPConn): every message that the
// server reads from a connection must get its disposition – here: reach the handler and be
// answered – up to the documented limit ("Default is maxTCPQueries (128), unlimited if -1"), and a
// connection with a limit of L is served exactly min(N, L) of its N messages, in order, then closed.
// Nothing may be dropped silently below the limit.

import (
	"encoding/binary"
	"encoding/json"
	"fmt"
	"io"
	"net"
	"sync"
	"time"

	"github.com/miekg/dns"
	"pgregory.net/rapid"

	"verif/harness/memnet"
	"verif/harness/pbt"
)

type connLimitCase struct {
	Transport string // memTCP | realTCP
	MaxTCP    int    // Server.MaxTCPQueries
	N         int    // messages the client puts on ONE connection
	Pipelined bool   // all written first, then the replies read (else strictly request/reply)
	Chunk     int    // memTCP: segment size of the client's writes (0 = one segment per Write)
}

func genConnLimit(t *rapid.T) connLimitCase {
	c := connLimitCase{
		Transport: rapid.SampledFrom([]string{"memTCP", "memTCP", "memTCP", "realTCP"}).Draw(t, "transport"),
		MaxTCP:    rapid.SampledFrom([]int{-1, -1, -1, 0, 0, 1, 2, 3, 127, 128, 129, 200, 1000}).Draw(t, "maxTCP"),
		Pipelined: rapid.Bool().Draw(t, "pipelined"),
		Chunk:     rapid.SampledFrom([]int{0, 0, 1, 7, 100}).Draw(t, "chunk"),
	}
	switch rapid.IntRange(0, 3).Draw(t, "nKind") {
	case 0:
		c.N = rapid.IntRange(1, 5).Draw(t, "nSmall")
	case 1:
		c.N = rapid.SampledFrom([]int{126, 127, 128, 129, 130, 131}).Draw(t, "nEdge")
	default:
		c.N = rapid.IntRange(130, 300).Draw(t, "nLarge")
	}
	return c
}

func (c connLimitCase) limit() int {
	switch {
	case c.MaxTCP > 0:
		return c.MaxTCP
	case c.MaxTCP == 0:
		return 128 // documented default
	}
	return 1 << 30 // -1: unlimited
}

func connLimitQuery(i int) []byte {
	m := new(dns.Msg)
	m.SetQuestion(fmt.Sprintf("m%d.limit.test.", i), dns.TypeTXT)
	m.Id = uint16(1000 + i)
	b, err := m.Pack()
	if err != nil {
		panic(err)
	}
	out := make([]byte, 2, 2+len(b))
	binary.BigEndian.PutUint16(out, uint16(len(b)))
	return append(out, b...)
}

func checkConnLimit(c connLimitCase) error {
	key, _ := json.Marshal(c)
	want := min(c.N, c.limit())
	cl := []string{"transport=" + c.Transport, fmt.Sprintf("maxTCP=%d", c.MaxTCP), fmt.Sprintf("pipelined=%v", c.Pipelined)}
	switch {
	case c.N > 128 && want == c.N:
		cl = append(cl, "more-than-128-messages-all-within-limit")
	case want < c.N:
		cl = append(cl, "limit-reached")
	}
	pbt.Note(key, c.N > 128 || want < c.N, cl...)
	pbt.Sample("limit", c)

	var mu sync.Mutex
	var seen []int
	srv := &dns.Server{MaxTCPQueries: c.MaxTCP, ReadTimeout: time.Minute, IdleTimeout: func() time.Duration { return time.Minute }}
	srv.Handler = dns.HandlerFunc(func(w dns.ResponseWriter, r *dns.Msg) {
		var i int
		if len(r.Question) == 1 {
			fmt.Sscanf(r.Question[0].Name, "m%d.limit.test.", &i)
		}
		mu.Lock()
		seen = append(seen, i)
		mu.Unlock()
		m := new(dns.Msg)
		m.SetReply(r)
		m.Answer = []dns.RR{&dns.TXT{Hdr: dns.RR_Header{Name: r.Question[0].Name, Rrtype: dns.TypeTXT, Class: dns.ClassINET}, Txt: []string{fmt.Sprintf("reply-%d", i)}}}
		w.WriteMsg(m)
	})
	var lis *memnet.Listener
	var addr string
	if c.Transport == "memTCP" {
		lis = memnet.NewListener(nil, "")
		srv.Listener = lis
	} else {
		l, err := net.Listen("tcp", "127.0.0.1:0")
		if err != nil {
			return nil // no loopback: nothing to judge
		}
		srv.Listener = l
		addr = l.Addr().String()
	}
	started := make(chan struct{})
	srv.NotifyStartedFunc = func() { close(started) }
	serveErr := make(chan error, 1)
	go func() { serveErr <- srv.ActivateAndServe() }()
	select {
	case <-started:
	case <-time.After(20 * time.Second):
		return fmt.Errorf("server did not start")
	}
	defer func() {
		srv.Shutdown()
		<-serveErr
	}()

	var conn net.Conn
	if lis != nil {
		mc, err := lis.DialNamed("", "")
		if err != nil {
			return err
		}
		if c.Chunk > 0 {
			mc.SetPlan(memnet.StreamPlan{WriteChunks: []int{c.Chunk}, Coalesce: true})
		}
		conn = mc
	} else {
		cc, err := net.DialTimeout("tcp", addr, 5*time.Second)
		if err != nil {
			return nil
		}
		conn = cc
	}
	defer conn.Close()
	conn.SetDeadline(time.Now().Add(20 * time.Second))

	// readReply returns the index carried by the next reply, -1 at EOF / error
	readReply := func() (int, error) {
		var l [2]byte
		if _, err := io.ReadFull(conn, l[:]); err != nil {
			return -1, err
		}
		b := make([]byte, binary.BigEndian.Uint16(l[:]))
		if _, err := io.ReadFull(conn, b); err != nil {
			return -1, err
		}
		m := new(dns.Msg)
		if err := m.Unpack(b); err != nil {
			return -1, fmt.Errorf("undecodable reply: %v", err)
		}
		i := -1
		if len(m.Answer) == 1 {
			if t, ok := m.Answer[0].(*dns.TXT); ok && len(t.Txt) == 1 {
				fmt.Sscanf(t.Txt[0], "reply-%d", &i)
			}
		}
		if i < 1 || int(m.Id) != 1000+i {
			return -1, fmt.Errorf("a reply that answers none of the queries: ID %d rcode %d answer %v", m.Id, m.Rcode, m.Answer)
		}
		return i, nil
	}
	var got []int
	if c.Pipelined {
		var all []byte
		for i := 1; i <= c.N; i++ {
			all = append(all, connLimitQuery(i)...)
		}
		conn.Write(all) // may fail half-way when the server has closed: whatever arrived counts
		for len(got) < c.N {
			i, err := readReply()
			if err != nil {
				if i == -1 && (err == io.EOF || isClosedErr(err)) {
					break
				}
				return fmt.Errorf("after %d replies: %v", len(got), err)
			}
			got = append(got, i)
		}
	} else {
		for i := 1; i <= c.N; i++ {
			if _, err := conn.Write(connLimitQuery(i)); err != nil {
				break
			}
			j, err := readReply()
			if err != nil {
				if err == io.EOF || isClosedErr(err) {
					break
				}
				return fmt.Errorf("query %d: %v", i, err)
			}
			got = append(got, j)
		}
	}
	mu.Lock()
	handled := append([]int(nil), seen...)
	mu.Unlock()
	describe := fmt.Sprintf("MaxTCPQueries = %d, %d messages on one connection (pipelined=%v)", c.MaxTCP, c.N, c.Pipelined)
	// On a real TCP socket a server that closes a connection with unread pipelined queries in its
	// receive buffer makes the kernel send a reset, which may discard replies the client has not
	// read yet: there only the handler calls and the order of what did arrive can be judged.
	resetPossible := c.Transport == "realTCP" && want < c.N
	if resetPossible && len(got) < want {
		want2 := len(got)
		for k, i := range got[:want2] {
			if i != k+1 {
				return fmt.Errorf("%s: reply %d answers message %d", describe, k+1, i)
			}
		}
		got = nil
	}
	if got != nil && len(got) != want {
		return fmt.Errorf("%s: %d replies received, want %d – message %d and later got no handler call, no reply and no refusal", describe, len(got), want, len(got)+1)
	}
	for k, i := range got {
		if i != k+1 {
			return fmt.Errorf("%s: reply %d answers message %d", describe, k+1, i)
		}
	}
	if len(handled) != want {
		return fmt.Errorf("%s: handler called %d times, want %d", describe, len(handled), want)
	}
	for k, i := range handled {
		if i != k+1 {
			return fmt.Errorf("%s: handler call %d was for message %d", describe, k+1, i)
		}
	}
	return nil
}

func isClosedErr(err error) bool {
	if err == nil {
		return false
	}
	if ne, ok := err.(net.Error); ok && ne.Timeout() {
		return false
	}
	return true // reset / closed / unexpected EOF: the server ended the connection
}

func init() {
	pbt.Register(pbt.Sub[connLimitCase]{Name: "tcp-connection-limit", Weight: 0.25, Gen: genConnLimit, Check: checkConnLimit})
}
