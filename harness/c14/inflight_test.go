package c14

// A datagram that is in flight when Shutdown begins (round 10, seeded change C14-S).
//
// "For every datagram ... a server receives": a datagram the socket read has handed to the serve
// loop is received, whatever happens to the server a moment later. In these cases the read that
// takes the last datagram of the batch returns only after Shutdown has marked the server as
// stopping (memPC.ReadFrom waits for Shutdown's SetReadDeadline; no timing involved): the
// datagram that arrives in the instant in which a busy server is shut down. Expected: exactly what
// is expected of the same datagram at any other moment - policy, handler exactly once with the
// decoded request, reply, or the report to MsgInvalidFunc - and Shutdown returns after it.

// eachInFlight: every kind of last datagram (runt, empty, 11 octets, query, accepted but
// undecodable, rejected, ignored) x with and without a datagram in front x buffer size x handler.
func eachInFlight(emit func(admitCase)) {
	q := fixedQueries()
	lasts := [][]byte{
		q[0],
		q[1],
		{1, 2, 3},
		{},
		q[1][:11],
		q[1][:len(q[1])-3], // accepted, does not decode
		{0x20, 0x02, 0x00, 0x00, 0, 2, 0, 0, 0, 0, 0, 0}, // QDCOUNT 2
		{0x20, 0x03, 0x78, 0x00, 0, 0, 0, 0, 0, 0, 0, 0}, // opcode 15
		{0x20, 0x04, 0x80, 0x00, 0, 1, 0, 0, 0, 0, 0, 0}, // QR set
	}
	for _, last := range lasts {
		for _, front := range [][][]byte{nil, {q[2]}, {q[0][:7], q[3]}} {
			for _, size := range []int{0, 4096} {
				for _, h := range []string{"", "mux"} {
					for _, pol := range []policySpec{{Kind: "default"}, {Kind: "table", Table: []int{0, 1, 2, 3}}} {
						emit(admitCase{Transport: "udp", UDPSize: size, Policy: pol, Handler: h,
							Packets: append(append([][]byte{}, front...), last), InFlight: true})
					}
				}
			}
		}
	}
}
