package gen

import (
	"pgregory.net/rapid"

	wm "verif/harness/wiremodel"
)

// MsgOpts tunes message generation.
type MsgOpts struct {
	Opts
	MaxQ      int  // max questions (default 2)
	MaxRecs   int  // max records per section (default 4)
	Share     bool // names share suffixes (compression fodder), some in flipped case
	NoOPT     bool
	AnyHeader bool // flag word over all 2^16 values and RCODE over 0..4095 (else ordinary replies)
}

// SharedNames returns a name generator with a per-message pool: new names often extend a suffix
// of an earlier name, sometimes with the case of the shared part flipped.
func SharedNames(o NameOpts) func(t *rapid.T) wm.Name {
	var pool []wm.Name
	return func(t *rapid.T) wm.Name {
		var n wm.Name
		if len(pool) > 0 && rapid.IntRange(0, 9).Draw(t, "share") < 7 {
			base := pool[rapid.IntRange(0, len(pool)-1).Draw(t, "base")]
			cut := rapid.IntRange(0, len(base)).Draw(t, "cut")
			suffix := wm.Name(base[cut:]).Clone()
			if rapid.IntRange(0, 3).Draw(t, "flipcase") == 0 {
				suffix = FlipCase(t, suffix)
			}
			k := rapid.IntRange(0, 2).Draw(t, "extra")
			for i := 0; i < k; i++ {
				oo := o
				if oo.MaxLabel == 0 || oo.MaxLabel > 12 {
					oo.MaxLabel = 12
				}
				n = append(n, Label(t, oo))
			}
			n = append(n, suffix...)
			if !n.Valid() {
				n = suffix
			}
			// a look-alike: two adjacent labels joined into ONE label with a literal dot (or backslash)
			// octet between them - reads the same once escapes are forgotten, is a different name
			if !o.Plain && len(n) >= 2 && rapid.IntRange(0, 7).Draw(t, "lookalike") == 0 {
				i := rapid.IntRange(0, len(n)-2).Draw(t, "joinat")
				if len(n[i])+1+len(n[i+1]) <= 63 {
					sep := rapid.SampledFrom([]byte{'.', '.', '\\'}).Draw(t, "joinwith")
					j := append(append(append([]byte{}, n[i]...), sep), n[i+1]...)
					m := append(wm.Name{}, n[:i]...)
					m = append(m, j)
					m = append(m, n[i+2:]...)
					n = m.Clone()
				}
			}
		} else {
			n = Name(t, o)
		}
		pool = append(pool, n)
		return n
	}
}

// OptRec draws an OPT pseudo-record (RFC 6891): root owner, CLASS = UDP size, TTL = version and
// flags (the extended RCODE octet is kept in Msg.Rcode).
func OptRec(t *rapid.T, o *Opts) wm.Rec {
	r := wm.Rec{Name: wm.Name{}, Type: wm.TOPT, Class: uint16(UintB(t, 16)), TTL: uint32(UintB(t, 24))}
	if rapid.Bool().Draw(t, "do") {
		r.TTL |= 0x8000
	}
	spec := wm.Layout[wm.TOPT][0]
	r.Fields = []wm.Field{GenField(t, wm.TOPT, spec, nil, o)}
	return r
}

// Msg draws a message.
func Msg(t *rapid.T, mo *MsgOpts) wm.Msg {
	o := mo.Opts
	if mo.Share && o.NameGen == nil {
		o.NameGen = SharedNames(NameOpts{Plain: o.Plain, MaxLabs: 4, MaxLabel: 10})
	}
	maxQ, maxR := mo.MaxQ, mo.MaxRecs
	if maxQ == 0 {
		maxQ = 2
	}
	if maxR == 0 {
		maxR = 4
	}
	var m wm.Msg
	m.ID = uint16(UintB(t, 16))
	if mo.AnyHeader {
		m.Flags = uint16(rapid.IntRange(0, 65535).Draw(t, "flags")) &^ 0xF
	} else {
		m.Flags = wm.FlagQR
		for _, f := range []uint16{wm.FlagAA, wm.FlagRD, wm.FlagRA, wm.FlagAD, wm.FlagCD} {
			if rapid.IntRange(0, 3).Draw(t, "flag") == 0 {
				m.Flags |= f
			}
		}
	}
	nq := rapid.IntRange(0, maxQ).Draw(t, "nq")
	if !mo.AnyHeader && nq == 0 && rapid.IntRange(0, 3).Draw(t, "q1") != 0 {
		nq = 1
	}
	for i := 0; i < nq; i++ {
		q := wm.Question{Name: o.name(t), Type: uint16(UintB(t, 16)), Class: 1}
		if rapid.IntRange(0, 3).Draw(t, "qtk") != 0 {
			q.Type = rapid.SampledFrom(commonTypes).Draw(t, "qt")
		}
		if rapid.IntRange(0, 5).Draw(t, "qck") == 0 {
			q.Class = uint16(UintB(t, 16))
		}
		m.Q = append(m.Q, q)
	}
	for _, sec := range m.Sections() {
		n := rapid.IntRange(0, maxR).Draw(t, "nrec")
		for i := 0; i < n; i++ {
			*sec = append(*sec, Rec(t, &o))
		}
	}
	hasOpt := false
	if !mo.NoOPT && rapid.IntRange(0, 2).Draw(t, "opt") == 0 {
		opt := OptRec(t, &o)
		pos := rapid.IntRange(0, len(m.Ex)).Draw(t, "optpos")
		m.Ex = append(m.Ex[:pos:pos], append([]wm.Rec{opt}, m.Ex[pos:]...)...)
		hasOpt = true
	}
	switch {
	case mo.AnyHeader && hasOpt:
		m.Rcode = rapid.SampledFrom([]int{0, 1, 15, 16, 17, 255, 256, 4095, 23, 3841}).Draw(t, "rcode")
		if rapid.Bool().Draw(t, "rcany") {
			m.Rcode = rapid.IntRange(0, 4095).Draw(t, "rcode12")
		}
	case mo.AnyHeader:
		m.Rcode = rapid.IntRange(0, 15).Draw(t, "rcode4")
	default:
		m.Rcode = rapid.SampledFrom([]int{0, 0, 0, 2, 3, 5}).Draw(t, "rcode")
	}
	return m
}
