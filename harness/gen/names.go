// Package gen holds the rapid generators shared by the checks.
package gen

import (
	"fmt"
	"strings"

	"pgregory.net/rapid"

	wm "verif/harness/wiremodel"
)

// hostile octets for labels and strings
var specialOctets = []byte{'.', '\\', '"', ';', '(', ')', '@', '\'', ' ', 0x00, 0x7f, 0xff, 0x80, '\t', '\n', '0', '9', '$', '*', '-', '_'}

// Octet draws one octet, biased towards the characters the presentation format treats specially.
func Octet(t *rapid.T) byte {
	switch rapid.IntRange(0, 9).Draw(t, "ok") {
	case 0, 1:
		return rapid.SampledFrom(specialOctets).Draw(t, "sp")
	case 2:
		return rapid.Byte().Draw(t, "b")
	case 3:
		return byte(rapid.IntRange('A', 'Z').Draw(t, "U"))
	case 4:
		return byte(rapid.IntRange('0', '9').Draw(t, "d"))
	default:
		return byte(rapid.IntRange('a', 'z').Draw(t, "l"))
	}
}

// PlainOctet draws a letter, digit or hyphen (never needs an escape).
func PlainOctet(t *rapid.T) byte {
	const al = "abcdefghijklmnopqrstuvwxyzABCDEFGHIJKLMNOPQRSTUVWXYZ0123456789-_"
	return al[rapid.IntRange(0, len(al)-1).Draw(t, "pc")]
}

// LabelOpts tunes label/name generation.
type NameOpts struct {
	Plain    bool // only escape-free octets
	MaxLabel int  // default 63
	MaxLabs  int  // default 8
	MaxWire  int  // default 255
	Long     bool // bias towards the 63/255 limits
}

func (o NameOpts) norm() NameOpts {
	if o.MaxLabel == 0 {
		o.MaxLabel = 63
	}
	if o.MaxLabs == 0 {
		o.MaxLabs = 8
	}
	if o.MaxWire == 0 {
		o.MaxWire = 255
	}
	return o
}

// LabelLen draws a label length in 1..max biased to short and to the limit.
func LabelLen(t *rapid.T, max int, long bool) int {
	if max < 1 {
		max = 1
	}
	k := rapid.IntRange(0, 9).Draw(t, "llk")
	switch {
	case k <= 4:
		m := 6
		if m > max {
			m = max
		}
		return rapid.IntRange(1, m).Draw(t, "ll")
	case k <= 6 && !long:
		m := 12
		if m > max {
			m = max
		}
		return rapid.IntRange(1, m).Draw(t, "ll")
	case k == 7:
		lo := max - 2
		if lo < 1 {
			lo = 1
		}
		return rapid.IntRange(lo, max).Draw(t, "ll")
	default:
		return rapid.IntRange(1, max).Draw(t, "ll")
	}
}

// Label draws one wire label.
func Label(t *rapid.T, o NameOpts) []byte {
	o = o.norm()
	n := LabelLen(t, o.MaxLabel, o.Long)
	l := make([]byte, n)
	for i := range l {
		if o.Plain {
			l[i] = PlainOctet(t)
		} else {
			l[i] = Octet(t)
		}
	}
	return l
}

// keywordLabels are labels that spell (or begin like) a word of the master-file grammar: directive
// names, class and type mnemonics, generic forms, the origin sign. They are ordinary labels.
var keywordLabels = []string{"$TTL", "$ttl", "$ORIGIN", "$origin", "$INCLUDE", "$include", "$GENERATE", "$generate", "$TTL1", "$ORIGINAL",
	"$included", "$generated-1", "$", "IN", "in", "CH", "HS", "ANY", "NONE", "A", "NS", "TXT", "SOA", "TYPE1", "type65535", "CLASS1", "class255",
	"@", "#", "1h", "3600", "1w2d", "-", "_", "*"}

// Name draws a valid wire name (possibly the root).
func Name(t *rapid.T, o NameOpts) wm.Name {
	n := name(t, o)
	if !o.Plain && len(n) > 0 && Rarely(t, 5) {
		// the first label spells a grammar word
		kw := []byte(rapid.SampledFrom(keywordLabels).Draw(t, "kwlabel"))
		m := n.Clone()
		m[0] = kw
		if m.Valid() {
			return m
		}
	}
	return n
}

func name(t *rapid.T, o NameOpts) wm.Name {
	o = o.norm()
	nl := rapid.IntRange(0, o.MaxLabs).Draw(t, "nl")
	if o.Long && rapid.IntRange(0, 2).Draw(t, "fill") == 0 {
		// fill up to a target wire length near the limit
		target := rapid.IntRange(o.MaxWire-6, o.MaxWire).Draw(t, "target")
		return NameOfWireLen(t, target, o)
	}
	var n wm.Name
	left := o.MaxWire - 1
	for i := 0; i < nl; i++ {
		if left < 2 {
			break
		}
		oo := o
		if oo.MaxLabel > left-1 {
			oo.MaxLabel = left - 1
		}
		l := Label(t, oo)
		n = append(n, l)
		left -= 1 + len(l)
	}
	return n
}

// NameOfWireLen draws a name whose wire length (root included) is exactly target (1..255 and
// beyond – the caller decides whether that is valid). Labels are at most o.MaxLabel long.
func NameOfWireLen(t *rapid.T, target int, o NameOpts) wm.Name {
	o = o.norm()
	var n wm.Name
	left := target - 1
	for left > 0 {
		if left == 1 {
			// cannot place a label of length 0: grow the previous one if possible
			if len(n) > 0 && len(n[len(n)-1]) < o.MaxLabel {
				n[len(n)-1] = append(n[len(n)-1], 'x')
			} else if len(n) > 0 {
				// steal one octet: previous label becomes MaxLabel-1, new label 1... keep total
				n[len(n)-1] = n[len(n)-1][:len(n[len(n)-1])-1]
				n = append(n, []byte{'y', 'z'}[:2])
			}
			break
		}
		max := left - 1
		if max > o.MaxLabel {
			max = o.MaxLabel
		}
		ll := max
		if rapid.IntRange(0, 2).Draw(t, "full") != 0 {
			ll = rapid.IntRange(1, max).Draw(t, "ll")
		}
		if left-1-ll == 1 { // would leave 1 octet: adjust
			if ll > 1 {
				ll--
			} else {
				ll++
			}
		}
		l := make([]byte, ll)
		for i := range l {
			if o.Plain {
				l[i] = PlainOctet(t)
			} else {
				l[i] = Octet(t)
			}
		}
		n = append(n, l)
		left -= 1 + ll
	}
	return n
}

// FlipCase flips the case of a generated subset of the ASCII letters of n (copy).
func FlipCase(t *rapid.T, n wm.Name) wm.Name {
	o := n.Clone()
	for _, l := range o {
		for i, c := range l {
			if (c >= 'a' && c <= 'z' || c >= 'A' && c <= 'Z') && rapid.Bool().Draw(t, "flip") {
				l[i] = c ^ 0x20
			}
		}
	}
	return o
}

// SpellLabel writes a label in presentation form with generated spelling choices:
// raw (where legal), \c, or \DDD per octet. Every spelling denotes the same octets.
func SpellLabel(t *rapid.T, l []byte) string {
	var sb strings.Builder
	for _, b := range l {
		mustEsc := strings.IndexByte(`. '@;()"\`, b) >= 0
		unprintable := b < ' ' || b > '~'
		k := rapid.IntRange(0, 7).Draw(t, "sk")
		switch {
		case unprintable || k == 0:
			fmt.Fprintf(&sb, "\\%03d", b)
		case mustEsc || (k == 1 && !(b >= '0' && b <= '9')):
			sb.WriteByte('\\')
			sb.WriteByte(b)
		default:
			sb.WriteByte(b)
		}
	}
	return sb.String()
}

// SpellName writes a fully qualified name with generated spelling choices.
func SpellName(t *rapid.T, n wm.Name) string {
	if len(n) == 0 {
		return "."
	}
	var sb strings.Builder
	for _, l := range n {
		sb.WriteString(SpellLabel(t, l))
		sb.WriteByte('.')
	}
	return sb.String()
}

// SpellLabelRaw is SpellLabel that may also write octets >= 0x80 raw (as a user typing UTF-8 or
// Latin-1 into an API would), which the name functions accept as ordinary octets.
func SpellLabelRaw(t *rapid.T, l []byte) string {
	var sb strings.Builder
	for _, b := range l {
		if b >= 0x80 && rapid.IntRange(0, 2).Draw(t, "raw") != 0 {
			sb.WriteByte(b)
			continue
		}
		sb.WriteString(SpellLabel(t, []byte{b}))
	}
	return sb.String()
}

// Rarely is true with probability 2^-bits. (rapid's integer generators are biased towards small
// values, so "IntRange(0, n) == 0" is far more frequent than 1/(n+1); coin flips are not biased.)
func Rarely(t *rapid.T, bits int) bool {
	for i := 0; i < bits; i++ {
		if !rapid.Bool().Draw(t, "rare") {
			return false
		}
	}
	return true
}
