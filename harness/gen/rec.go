package gen

import (
	"sort"

	"pgregory.net/rapid"

	wm "verif/harness/wiremodel"
)

// Level of RFC validity a generated record must have.
type Level int

const (
	WireValid   Level = iota // anything the wire format allows
	Presentable              // additionally expressible in the type's presentation format
)

// Opts tunes record and message generation.
type Opts struct {
	Level    Level
	Plain    bool                    // escape-free names and strings (C08/C09 exactness sub-domain)
	NameGen  func(t *rapid.T) wm.Name // default: gen.Name with defaults
	MaxBlob  int                     // max length of opaque fields (default 48)
	BigBlob  bool                    // occasionally produce opaque fields up to 65535-ish octets
	Avoid    map[string]bool         // known-finding classes to exclude by construction
	Excluded func(class string)      // called for every replaced draw
	Types    []uint16                // candidate types (default: AllTypes)
	NoRdata  bool                    // allow RDATA-less records
	Unknown  bool                    // allow unknown (RFC 3597) types and the private type
}

func (o *Opts) avoid(class string) bool {
	if o.Avoid != nil && o.Avoid[class] {
		if o.Excluded != nil {
			o.Excluded(class)
		}
		return true
	}
	return false
}

func (o *Opts) name(t *rapid.T) wm.Name {
	if o.NameGen != nil {
		return o.NameGen(t)
	}
	return Name(t, NameOpts{Plain: o.Plain, MaxLabs: 5, MaxLabel: 10})
}

func (o *Opts) blobMax() int {
	if o.MaxBlob > 0 {
		return o.MaxBlob
	}
	return 48
}

// AllTypes is every type of the layout table that can appear as an ordinary record
// (OPT is placed by the message generator).
var AllTypes []uint16

// PlainTypes is the exactness sub-domain of C08 / C09.
var PlainTypes = []uint16{wm.TA, wm.TAAAA, wm.TNS, wm.TCNAME, wm.TSOA, wm.TPTR, wm.TMX, wm.TSRV, wm.TTXT, wm.TDNAME,
	wm.TMINFO, wm.TRP, wm.TAFSDB, wm.TKX, wm.TNAPTR, wm.THINFO}

// FieldPlainTypes: every type whose RDATA consists of integers, addresses, names and
// character-strings only (by the layout table), i.e. the whole exactness domain of C08.
var FieldPlainTypes []uint16

func init() {
	for t, l := range wm.Layout {
		ok := t != wm.TOPT && t != wm.TPrivate && len(l) > 0
		for _, sp := range l {
			switch sp.K {
			case wm.U8, wm.U16, wm.U32, wm.U48, wm.U64, wm.NameC, wm.NameU, wm.Str, wm.Strs, wm.IPv4, wm.IPv6:
			default:
				ok = false
			}
			if sp.Hint == "gwtype" || sp.Hint == "amtgwtype" {
				ok = false
			}
		}
		if ok {
			FieldPlainTypes = append(FieldPlainTypes, t)
		}
	}
	sort.Slice(FieldPlainTypes, func(i, j int) bool { return FieldPlainTypes[i] < FieldPlainTypes[j] })
	for t := range wm.Layout {
		if t != wm.TOPT {
			AllTypes = append(AllTypes, t)
		}
	}
	sort.Slice(AllTypes, func(i, j int) bool { return AllTypes[i] < AllTypes[j] })
}

// UintB draws an integer of the given width in bits, biased to the boundaries.
func UintB(t *rapid.T, bits int) uint64 {
	max := uint64(1)<<uint(bits) - 1
	if bits == 64 {
		max = ^uint64(0)
	}
	switch rapid.IntRange(0, 9).Draw(t, "uk") {
	case 0:
		return 0
	case 1:
		return max
	case 2:
		return 1
	case 3:
		return max - 1
	case 4:
		return uint64(1) << uint(rapid.IntRange(0, bits-1).Draw(t, "bit"))
	case 5:
		return rapid.Uint64Range(0, 300).Draw(t, "small") & max
	case 6:
		// values that mean something somewhere in the protocol (rcodes, algorithm numbers, type and
		// class codes, digest types): field-value combinations with special handling live here
		return rapid.SampledFrom(significant).Draw(t, "sig") & max
	default:
		return rapid.Uint64Range(0, max).Draw(t, "any")
	}
}

var significant = []uint64{1, 2, 3, 4, 5, 6, 7, 8, 10, 12, 13, 14, 15, 16, 17, 18, 19, 20, 21, 22, 23, 28, 33, 41, 43, 46, 47, 48, 50, 52, 64, 65,
	99, 127, 128, 129, 250, 251, 252, 253, 254, 255, 256, 257, 260, 512, 1232, 3600, 4096, 32768, 65280, 65534}

// Bytes draws n octets (hostile-biased unless plain).
func Bytes(t *rapid.T, n int, plain bool) []byte {
	b := make([]byte, n)
	if n > 64 {
		// long blobs: draw a short pattern and repeat it (keeps rapid's bit budget small)
		pat := Bytes(t, rapid.IntRange(1, 8).Draw(t, "patlen"), plain)
		for i := range b {
			b[i] = pat[i%len(pat)]
		}
		return b
	}
	for i := range b {
		if plain {
			b[i] = PlainOctet(t)
		} else {
			b[i] = Octet(t)
		}
	}
	return b
}

// Len draws a length in lo..hi biased to lo, lo+1, hi-1, hi.
func Len(t *rapid.T, lo, hi int) int {
	if hi <= lo {
		return lo
	}
	switch rapid.IntRange(0, 9).Draw(t, "lk") {
	case 0:
		return lo
	case 1:
		return hi
	case 2:
		return lo + 1
	case 3:
		return hi - 1
	case 4, 5, 6, 7:
		m := lo + 12
		if m > hi {
			m = hi
		}
		return rapid.IntRange(lo, m).Draw(t, "l")
	default:
		return rapid.IntRange(lo, hi).Draw(t, "l")
	}
}

var commonTypes = []uint16{1, 2, 5, 6, 12, 15, 16, 28, 33, 43, 46, 47, 48, 50, 51, 52, 64, 65, 255, 256, 257}

// BitmapTypes draws an ascending unique list of type codes.
func BitmapTypes(t *rapid.T, o *Opts) []uint16 {
	n := rapid.IntRange(0, 10).Draw(t, "nbm")
	set := map[uint16]bool{}
	if rapid.IntRange(0, 5).Draw(t, "widebm") == 0 {
		// several windows with high bits set: encodings longer than one full window block
		for _, w := range []uint16{0, 1, 2, 128, 255} {
			if rapid.Bool().Draw(t, "win") {
				set[w<<8|uint16(rapid.IntRange(200, 255).Draw(t, "hibit"))] = true
			}
		}
	}
	for i := 0; i < n; i++ {
		var v uint16
		switch rapid.IntRange(0, 5).Draw(t, "bmk") {
		case 0, 1, 2:
			v = rapid.SampledFrom(commonTypes).Draw(t, "ct")
		case 3:
			v = rapid.SampledFrom([]uint16{0, 7, 8, 255, 256, 263, 264, 511, 512, 32768, 65280, 65534, 65535, 1234}).Draw(t, "bt")
		default:
			v = uint16(rapid.IntRange(0, 65535).Draw(t, "rt"))
		}
		if (v == 0 || v == 65535) && o.avoid("type-mnemonic-none-reserved") {
			continue
		}
		if o.Level == Presentable && o.avoid("bitmap-unknown-mnemonic-clash") {
			continue
		}
		set[v] = true
	}
	var out []uint16
	for v := range set {
		out = append(out, v)
	}
	sort.Slice(out, func(i, j int) bool { return out[i] < out[j] })
	return out
}

func digits(t *rapid.T, lo, hi int) []byte {
	n := rapid.IntRange(lo, hi).Draw(t, "nd")
	b := make([]byte, n)
	for i := range b {
		b[i] = byte(rapid.IntRange('0', '9').Draw(t, "dg"))
	}
	return b
}

// Field draws one field for spec. prev are the fields generated so far for the same record.
func GenField(t *rapid.T, typ uint16, spec wm.FieldSpec, prev []wm.Field, o *Opts) wm.Field {
	f := wm.Field{K: spec.K}
	pres := o.Level == Presentable
	switch spec.K {
	case wm.U8:
		f.U = UintB(t, 8)
		switch spec.Hint {
		case "gwtype":
			f.U = uint64(rapid.IntRange(0, 3).Draw(t, "gw"))
		case "amtgwtype":
			f.U = uint64(rapid.IntRange(0, 3).Draw(t, "gw"))
			if rapid.Bool().Draw(t, "dbit") {
				if !(f.U != 0 && o.avoid("amtrelay-dbit")) {
					f.U |= 0x80
				}
			}
		case "locver":
			if pres {
				f.U = 0
			}
		case "locsize":
			if pres {
				m := uint64(rapid.IntRange(0, 9).Draw(t, "mant"))
				e := uint64(rapid.IntRange(0, 9).Draw(t, "exp"))
				if m == 0 {
					e = 0 // 0 x 10^e has a single presentation, "0.00m"
				}
				f.U = m<<4 | e
			}
		}
	case wm.U16:
		f.U = UintB(t, 16)
		if spec.Hint == "type" && (f.U == 0 || f.U == 65535) && o.avoid("type-mnemonic-none-reserved") {
			f.U = 1
		}
	case wm.U32:
		f.U = UintB(t, 32)
		if pres {
			const mid = 1 << 31
			switch spec.Hint {
			case "loclat":
				f.U = uint64(mid + rapid.Int64Range(-90*3600000, 90*3600000).Draw(t, "lat"))
			case "loclon":
				f.U = uint64(mid + rapid.Int64Range(-180*3600000, 180*3600000).Draw(t, "lon"))
			}
		}
	case wm.U48:
		f.U = UintB(t, 48)
	case wm.U64:
		f.U = UintB(t, 64)
	case wm.NameC, wm.NameU:
		f.N = o.name(t)
	case wm.Names:
		n := rapid.IntRange(0, 3).Draw(t, "nn")
		for i := 0; i < n; i++ {
			f.NL = append(f.NL, o.name(t))
		}
	case wm.Str:
		switch {
		case pres && spec.Hint == "caatag":
			f.B = Bytes(t, rapid.IntRange(1, 12).Draw(t, "tagl"), true)
			for i, c := range f.B {
				if c == '-' || c == '_' {
					f.B[i] = 'x'
				}
			}
		case pres && spec.Hint == "gpos":
			f.B = digits(t, 1, 6)
		case pres && spec.Hint == "x25":
			if o.avoid("x25-unquoted") {
				f.B = digits(t, 1, 15)
			} else {
				f.B = Bytes(t, Len(t, 0, 255), o.Plain)
			}
		default:
			f.B = Bytes(t, Len(t, 0, 255), o.Plain)
		}
	case wm.Strs:
		n := rapid.IntRange(1, 4).Draw(t, "ns")
		if !pres && rapid.IntRange(0, 11).Draw(t, "nostr") == 0 {
			n = 0 // RDLENGTH 0: the dynamic-update form of a TXT-like record
		}
		for i := 0; i < n; i++ {
			f.L = append(f.L, Bytes(t, Len(t, 0, 255), o.Plain))
		}
	case wm.Rest:
		lo := 0
		if pres && spec.R != wm.ReprOctet && spec.R != wm.ReprRaw {
			lo = 1
		}
		n := Len(t, lo, o.blobMax())
		if o.BigBlob && rapid.IntRange(0, 30).Draw(t, "big") == 0 {
			n = rapid.SampledFrom([]int{255, 256, 511, 512, 513, 1023, 1024, 1025, 1536, 2048, 4090, 4096, 16383, 16384, 40000}).Draw(t, "bign")
		}
		if spec.R == wm.ReprOctet && pres && n > 255 && o.avoid("octet-over-255-text") {
			n = 255
		}
		f.B = Bytes(t, n, false)
		if spec.R == wm.ReprOctet {
			if o.Plain {
				f.B = Bytes(t, n, true)
			}
			if o.avoid("octet-backslash") {
				for i, c := range f.B {
					if c == '\\' {
						f.B[i] = '/'
					}
				}
			}
		}
	case wm.L8:
		if pres && spec.Hint == "nsec3next" {
			f.B = Bytes(t, 20, false)
		} else {
			f.B = Bytes(t, Len(t, 0, 255), false)
			if len(f.B) > 127 && pres && typ == wm.TNSEC3 && o.avoid("length-octet-over-127") {
				f.B = f.B[:127]
			}
		}
	case wm.L16:
		n := Len(t, 0, 300)
		if o.BigBlob && rapid.IntRange(0, 30).Draw(t, "bigl16") == 0 {
			n = rapid.SampledFrom([]int{1024, 4096, 16384, 32767, 32768, 40000, 60000}).Draw(t, "bigl16n")
		}
		f.B = Bytes(t, n, false)
	case wm.IPv4:
		f.B = Bytes(t, 4, false)
	case wm.IPv6:
		f.B = Bytes(t, 16, false)
	case wm.Bitmap:
		f.T = BitmapTypes(t, o)
	case wm.GW:
		var variant uint64
		layout, _ := wm.LayoutOf(typ)
		for i, s := range layout {
			if i < len(prev) && (s.Hint == "gwtype" || s.Hint == "amtgwtype") {
				variant = prev[i].U & 0x7f
			}
		}
		f.U = variant
		switch variant {
		case 1:
			f.B = Bytes(t, 4, false)
		case 2:
			f.B = Bytes(t, 16, false)
		case 3:
			f.N = o.name(t)
		}
	case wm.HIPHdr:
		f.U = UintB(t, 8)
		lo := 0
		if pres {
			lo = 1
		}
		f.B = Bytes(t, Len(t, lo, 255), false)
		if len(f.B) > 127 && pres && o.avoid("length-octet-over-127") {
			f.B = f.B[:127]
		}
		f.B2 = Bytes(t, Len(t, lo, 300), false)
	case wm.APLs:
		n := rapid.IntRange(0, 4).Draw(t, "napl")
		for i := 0; i < n; i++ {
			f.APL = append(f.APL, APLItem(t))
		}
	case wm.Opts:
		n := rapid.IntRange(0, 4).Draw(t, "nopt")
		for i := 0; i < n; i++ {
			f.Opts = append(f.Opts, EDNSOption(t, o))
		}
	case wm.Params:
		f.Opts = SvcParams(t, o)
	}
	return f
}

// APLItem draws one well-formed RFC 3123 item: address masked to the prefix, trailing zero
// octets trimmed.
func APLItem(t *rapid.T) wm.APLItem {
	it := wm.APLItem{Family: 1, Neg: rapid.Bool().Draw(t, "neg")}
	bits := 32
	if rapid.Bool().Draw(t, "v6") {
		it.Family, bits = 2, 128
	}
	p := Len(t, 0, bits)
	addr := Bytes(t, bits/8, false)
	if it.Family == 2 && rapid.IntRange(0, 3).Draw(t, "wellknown6") == 0 {
		// IPv6 prefixes that embed an IPv4 address (IPv4-mapped ::ffff:0:0/96, IPv4-compatible ::/96,
		// NAT64 64:ff9b::/96): still IPv6 items, never to be confused with family 1
		head := rapid.SampledFrom([][]byte{
			{0, 0, 0, 0, 0, 0, 0, 0, 0, 0, 0xff, 0xff}, {0, 0, 0, 0, 0, 0, 0, 0, 0, 0, 0, 0}, {0, 0x64, 0xff, 0x9b, 0, 0, 0, 0, 0, 0, 0, 0}}).Draw(t, "head6")
		copy(addr, head)
		p = rapid.IntRange(96, 128).Draw(t, "p6")
	}
	it.Prefix = uint8(p)
	for i := range addr {
		switch {
		case i*8+8 <= p:
		case i*8 >= p:
			addr[i] = 0
		default:
			addr[i] &= byte(0xff << uint(8-(p-i*8)))
		}
	}
	afd := addr[:(p+7)/8]
	for len(afd) > 0 && afd[len(afd)-1] == 0 {
		afd = afd[:len(afd)-1]
	}
	it.Afd = append([]byte{}, afd...)
	return it
}

var optCodes = []uint16{1, 2, 3, 4, 5, 6, 7, 8, 9, 10, 11, 12, 15, 18, 19}

// EDNSOption draws one canonical EDNS0 option.
func EDNSOption(t *rapid.T, o *Opts) wm.Option {
	code := rapid.SampledFrom(optCodes).Draw(t, "optcode")
	if rapid.IntRange(0, 6).Draw(t, "local") == 0 {
		code = rapid.SampledFrom([]uint16{0, 13, 14, 16, 17, 20, 65001, 65534, 65535, 26946}).Draw(t, "lcode")
	}
	var d []byte
	switch code {
	case 1:
		d = Bytes(t, 18, false)
	case 2:
		d = Bytes(t, 4, false)
		if rapid.Bool().Draw(t, "keylease") {
			kl := Bytes(t, 4, false)
			if kl[0]|kl[1]|kl[2]|kl[3] == 0 {
				kl[3] = 1 // an explicit zero key lease is not canonical (decoders normalise it away)
			}
			d = append(d, kl...)
		}
	case 8:
		fam := rapid.IntRange(0, 2).Draw(t, "fam")
		switch fam {
		case 0:
			d = []byte{0, 0, 0, byte(UintB(t, 8))}
		default:
			bits := 32
			if fam == 2 {
				bits = 128
			}
			mask := Len(t, 0, bits)
			scope := Len(t, 0, bits)
			addr := Bytes(t, (mask+7)/8, false)
			if mask%8 != 0 {
				addr[len(addr)-1] &= byte(0xff << uint(8-mask%8))
			}
			d = append([]byte{0, byte(fam), byte(mask), byte(scope)}, addr...)
		}
	case 10:
		// RFC 7873 5.2: a client cookie of 8 octets, optionally followed by a server cookie of 8..32 octets; every
		// other OPTION-LENGTH is ill-formed (a decoder may refuse it), so it is not in the canonical domain.
		n := Len(t, 0, 40)
		if n < 8 {
			n = 8
		} else if n < 16 {
			n = 16
		}
		d = Bytes(t, n, false)
	case 9:
		if rapid.Bool().Draw(t, "expire") {
			d = Bytes(t, 4, false)
		}
	case 11:
		if rapid.Bool().Draw(t, "ka") {
			d = Bytes(t, 2, false)
			if d[0]|d[1] == 0 {
				d[1] = 1
			}
		}
	case 15:
		d = Bytes(t, 2+Len(t, 0, 40), false)
	case 18:
		n := o.name(t)
		if rapid.IntRange(0, 3).Draw(t, "agentlong") == 0 {
			// the agent domain is a full domain name: up to 255 octets
			n = NameOfWireLen(t, rapid.IntRange(250, 255).Draw(t, "agentlen"), NameOpts{Plain: o.Plain})
		}
		d = wm.EncodeName(n)
	case 19:
		d = Bytes(t, 2+Len(t, 0, 20), false)
	default:
		d = Bytes(t, Len(t, 0, 40), false)
	}
	if d == nil {
		d = []byte{}
	}
	return wm.Option{Code: code, Data: d}
}

// SvcParams draws a list of parameters with strictly increasing keys, each value well-formed.
func SvcParams(t *rapid.T, o *Opts) []wm.Option {
	n := rapid.IntRange(0, 5).Draw(t, "nparam")
	keys := map[uint16]bool{}
	for i := 0; i < n; i++ {
		var k uint16
		switch rapid.IntRange(0, 4).Draw(t, "pk") {
		case 0:
			k = rapid.SampledFrom([]uint16{9, 10, 100, 65279, 65280, 65534}).Draw(t, "lk")
		default:
			k = uint16(rapid.IntRange(0, 8).Draw(t, "k"))
		}
		keys[k] = true
	}
	var ks []uint16
	for k := range keys {
		ks = append(ks, k)
	}
	sort.Slice(ks, func(i, j int) bool { return ks[i] < ks[j] })
	var out []wm.Option
	for _, k := range ks {
		var d []byte
		switch k {
		case 0: // mandatory: ascending unique keys, never key 0 itself
			m := rapid.IntRange(1, 4).Draw(t, "nm")
			ms := map[uint16]bool{}
			for i := 0; i < m; i++ {
				ms[uint16(rapid.IntRange(1, 12).Draw(t, "mk"))] = true
			}
			var ml []uint16
			for x := range ms {
				ml = append(ml, x)
			}
			sort.Slice(ml, func(i, j int) bool { return ml[i] < ml[j] })
			for _, x := range ml {
				d = append(d, byte(x>>8), byte(x))
			}
		case 1:
			m := rapid.IntRange(1, 3).Draw(t, "na")
			for i := 0; i < m; i++ {
				id := Bytes(t, Len(t, 1, 20), o.Plain)
				if o.Level == Presentable && o.avoid("alpn-hostile") {
					id = Bytes(t, len(id), true)
				}
				d = append(d, byte(len(id)))
				d = append(d, id...)
			}
		case 2, 8:
			d = []byte{}
		case 3:
			d = Bytes(t, 2, false)
		case 4:
			d = Bytes(t, 4*rapid.IntRange(1, 3).Draw(t, "nh"), false)
		case 6:
			m := rapid.IntRange(1, 3).Draw(t, "nh")
			for i := 0; i < m; i++ {
				ip := Bytes(t, 16, false)
				if isV4Mapped(ip) {
					ip[0] = 0x20
				}
				d = append(d, ip...)
			}
		default:
			n := Len(t, 0, 40)
			if o.BigBlob && rapid.IntRange(0, 30).Draw(t, "bigparam") == 0 {
				n = rapid.SampledFrom([]int{255, 256, 1024, 4096, 16383, 16384, 32767, 32768, 33000, 45000, 60000}).Draw(t, "bigparamn")
			}
			d = Bytes(t, n, false)
		}
		if d == nil {
			d = []byte{}
		}
		out = append(out, wm.Option{Code: k, Data: d})
	}
	return out
}

func isV4Mapped(ip []byte) bool {
	for i := 0; i < 10; i++ {
		if ip[i] != 0 {
			return false
		}
	}
	return ip[10] == 0xff && ip[11] == 0xff
}

// RecOfType draws a record of the given type.
func RecOfType(t *rapid.T, typ uint16, o *Opts) wm.Rec {
	r := wm.Rec{Name: o.name(t), Type: typ, TTL: uint32(UintB(t, 32))}
	switch rapid.IntRange(0, 5).Draw(t, "classk") {
	case 0:
		r.Class = uint16(UintB(t, 16))
	case 1:
		r.Class = rapid.SampledFrom([]uint16{3, 4, 254, 255}).Draw(t, "class")
	default:
		r.Class = 1
	}
	layout, _ := wm.LayoutOf(typ)
	for _, spec := range layout {
		r.Fields = append(r.Fields, GenField(t, typ, spec, r.Fields, o))
	}
	return r
}

// Rec draws a record of a generated type (per o.Types / o.Unknown / o.NoRdata).
func Rec(t *rapid.T, o *Opts) wm.Rec {
	types := o.Types
	if types == nil {
		types = AllTypes
	}
	typ := rapid.SampledFrom(types).Draw(t, "type")
	if o.Unknown && rapid.IntRange(0, 12).Draw(t, "unk") == 0 {
		typ = rapid.SampledFrom([]uint16{0, 11, 22, 34, 38, 40, 54, 66, 103, 251, 252, 253, 254, 259, 262, 1000, 32770, 65279, 65281, 65535, wm.TPrivate, wm.TPrivate}).Draw(t, "utype")
	}
	r := RecOfType(t, typ, o)
	if o.NoRdata && Rarely(t, 5) {
		if l, _ := wm.LayoutOf(typ); !wm.EmptyRdataIsValue(l) {
			r.NoRdata = true
			r.Fields = nil
		}
	}
	return r
}
