package gen

import (
	"bytes"

	"pgregory.net/rapid"

	wm "verif/harness/wiremodel"
)

// PlainMsg draws a message of the exactness sub-domain of C08/C09: only the common types, names
// and strings that need no escape, suffix-sharing (also case-variant) names, several questions.
// withOpt adds an OPT record with plain-length options at a generated position.
func PlainMsg(t *rapid.T, maxRecs int, withOpt bool) wm.Msg {
	return PlainMsgOf(t, maxRecs, withOpt, PlainTypes)
}

// PlainMsgOf is PlainMsg over the given types.
func PlainMsgOf(t *rapid.T, maxRecs int, withOpt bool, types []uint16) wm.Msg {
	mo := &MsgOpts{Share: true, MaxQ: 3, MaxRecs: maxRecs, NoOPT: true}
	mo.Plain = true
	mo.Types = types
	m := Msg(t, mo)
	if withOpt && rapid.IntRange(0, 1).Draw(t, "plainopt") == 0 {
		o := &Opts{Plain: true}
		opt := OptRec(t, o)
		pos := rapid.IntRange(0, len(m.Ex)).Draw(t, "optpos")
		m.Ex = append(m.Ex[:pos:pos], append([]wm.Rec{opt}, m.Ex[pos:]...)...)
	}
	return m
}

// PlainFiller is a TXT record of escape-free strings whose RDATA is exactly n octets (n >= 2).
func PlainFiller(n int) wm.Rec {
	r := wm.Rec{Name: wm.Name{[]byte("fill")}, Type: wm.TTXT, Class: 1, TTL: 60}
	var l [][]byte
	for n > 0 {
		k := n - 1
		if k > 255 {
			k = 255
		}
		if n-1-k == 1 { // never leave a single octet over
			k--
		}
		l = append(l, bytes.Repeat([]byte{'f'}, k))
		n -= 1 + k
	}
	r.Fields = []wm.Field{{K: wm.Strs, L: l}}
	return r
}
