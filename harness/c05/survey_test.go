package c05

import (
	"fmt"
	"os"
	"sort"
	"testing"

	"pgregory.net/rapid"

	"verif/harness/gen"
)

// TestSurvey (manual, VERIF_SURVEY=1): per-type failure census, used while calibrating the generator.
func TestSurvey(t *testing.T) {
	if os.Getenv("VERIF_SURVEY") == "" {
		t.Skip()
	}
	fails := map[string]int{}
	first := map[string]string{}
	for _, typ := range textTypes() {
		typ := typ
		n := 0
		for seed := 0; seed < 300; seed++ {
			g := rapid.Custom(func(t *rapid.T) recCase {
				o := &gen.Opts{Level: gen.Presentable, MaxBlob: 40, Avoid: map[string]bool{"type-mnemonic-none-reserved": true, "x25-unquoted": true, "length-octet-over-127": true}}
				return recCase{R: gen.RecOfType(t, typ, o)}
			})
			c := g.Example(seed)
			if err := checkRec(c); err != nil {
				n++
				if first[typeName(typ)] == "" {
					first[typeName(typ)] = err.Error()
				}
			}
		}
		if n > 0 {
			fails[typeName(typ)] = n
		}
	}
	var ks []string
	for k := range fails {
		ks = append(ks, k)
	}
	sort.Strings(ks)
	for _, k := range ks {
		e := first[k]
		if len(e) > 700 {
			e = e[:700]
		}
		fmt.Printf("== %s: %d/300 fail; first: %s\n", k, fails[k], e)
	}
}
