package c05

import (
	"bytes"
	"encoding/hex"
	"fmt"
	"os"
	"testing"

	"github.com/miekg/dns"
)

func TestTmpGenericSurvey(t *testing.T) {
	if os.Getenv("VERIF_SURVEY") == "" {
		t.Skip()
	}
	for _, rd := range [][]byte{{1, 2, 3}, {0}, {1, 2, 3, 4, 5}, bytes.Repeat([]byte{0}, 40)} {
		for typ := 0; typ < 65536; typ++ {
			text := fmt.Sprintf("a.example. 300 IN TYPE%d \\# %d %s", typ, len(rd), hex.EncodeToString(rd))
			rr, err := parse(text)
			if err != nil {
				continue
			}
			buf := make([]byte, 70000)
			off, err := dns.PackRR(rr, buf, 0, nil, false)
			if err != nil {
				fmt.Printf("TYPE%d (%s) rd=%x: accepted, PackRR fails: %v\n", typ, typeName(uint16(typ)), rd, err)
				continue
			}
			got := buf[11+10 : off]
			if !bytes.Equal(got, rd) {
				fmt.Printf("TYPE%d (%s) rd=%x: accepted as %q with RDATA %x\n", typ, typeName(uint16(typ)), rd, rr.String(), got)
			}
		}
	}
}
