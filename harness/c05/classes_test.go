package c05

// Value classes owned by this package (round 7). gen.Rec at the Presentable level restricts three
// fields more than their presentation formats do; widen() lifts the restrictions again, so that
// "every record that has a presentation format" is taken by the presentation format and not by
// what the library's parser happens to assume:
//
//   nsec3-hash-length   NSEC3 next hashed owner of 1..255 octets (gen: always 20). RFC 5155 3.3
//                       writes it as unpadded base32hex, which carries its own length.
//   ipv6-embeds-ipv4    IPv6 fields (AAAA, the IPv6 gateway of IPSECKEY / AMTRELAY) holding
//                       IPv4-mapped, IPv4-compatible and NAT64 addresses and addresses with zero
//                       runs (gen: 16 random octets, which never hit these text forms).
//   apl-host-bits       APL items whose AFDPART has bits set beyond the prefix (gen: masked). RFC
//                       3123 section 5 writes address/prefix; any address can be written.
//
// Each class is switched off only while its known finding is listed and still reproduces.

import (
	"bytes"

	"pgregory.net/rapid"

	"verif/harness/pbt"
	wm "verif/harness/wiremodel"
)

const (
	kNsec3Len  = "nsec3-hash-length"
	kGwMapped  = "gateway-v4-mapped-ipv6"
	kAplHost   = "apl-host-bits"
	clsNsec3   = "class:nsec3-hash-length-not-20"
	clsV6Embed = "class:ipv6-embeds-ipv4"
	clsV6Zero  = "class:ipv6-zero-runs"
	clsGwMap   = "class:gateway-v4-mapped-ipv6"
	clsAplHost = "class:apl-host-bits"
)

var nsec3Lens = []int{1, 2, 3, 4, 5, 8, 16, 19, 21, 24, 28, 32, 48, 64, 127, 128, 254, 255}

var v6Heads = [][]byte{
	{0, 0, 0, 0, 0, 0, 0, 0, 0, 0, 0xff, 0xff},    // IPv4-mapped ::ffff:a.b.c.d
	{0, 0, 0, 0, 0, 0, 0, 0, 0, 0, 0, 0},          // IPv4-compatible ::a.b.c.d
	{0, 0x64, 0xff, 0x9b, 0, 0, 0, 0, 0, 0, 0, 0}, // NAT64 64:ff9b::a.b.c.d
}

func isV4Mapped(ip []byte) bool {
	return len(ip) == 16 && bytes.Equal(ip[:12], v6Heads[0])
}

// specialV6 draws an IPv6 address whose text form is not eight plain groups.
func specialV6(t *rapid.T) []byte {
	ip := make([]byte, 16)
	for i := range ip {
		ip[i] = byte(rapid.IntRange(0, 255).Draw(t, "v6o"))
	}
	if k := rapid.IntRange(0, 4).Draw(t, "v6kind"); k < 4 {
		copy(ip, v6Heads[k%3]) // IPv4-mapped twice as often as the others
		return ip
	}
	// zero runs: "::", "::1", "1::", two runs of equal length, a single zero group
	for g := 0; g < 8; g++ {
		if rapid.Bool().Draw(t, "zerogroup") {
			ip[2*g], ip[2*g+1] = 0, 0
		}
	}
	return ip
}

// hostBits sets bits beyond the prefix of a well-formed APL item. The last octet of the AFDPART
// stays non-zero (RFC 3123: no trailing zero octets; the library refuses those).
func hostBits(t *rapid.T, it wm.APLItem) wm.APLItem {
	full := 4
	if it.Family == 2 {
		full = 16
	}
	p := int(it.Prefix)
	if p >= full*8 {
		return it
	}
	addr := make([]byte, full)
	copy(addr, it.Afd)
	first := p / 8
	last := rapid.IntRange(first, full-1).Draw(t, "hostlast")
	for i := first; i <= last; i++ {
		b := byte(rapid.IntRange(0, 255).Draw(t, "hostoctet"))
		if i == first {
			b &= 0xff >> uint(p%8)
		}
		addr[i] |= b
	}
	m := byte(0xff)
	if last == first {
		m = 0xff >> uint(p%8)
	}
	if addr[last]&m == 0 {
		addr[last] |= 1
	}
	it.Afd = addr[:last+1]
	return it
}

// aplHasHostBits: some item has a bit set at or beyond its prefix length.
func aplHasHostBits(items []wm.APLItem) bool {
	for _, it := range items {
		p := int(it.Prefix)
		for i, b := range it.Afd {
			switch {
			case (i+1)*8 <= p:
			case i*8 >= p:
				if b != 0 {
					return true
				}
			default:
				if b&(0xff>>uint(p%8)) != 0 {
					return true
				}
			}
		}
	}
	return false
}

// widen replaces some field values of r by members of the classes above.
func widen(t *rapid.T, r wm.Rec) wm.Rec {
	if r.NoRdata {
		return r
	}
	layout, _ := wm.LayoutOf(r.Type)
	if len(layout) != len(r.Fields) {
		return r
	}
	fields := append([]wm.Field{}, r.Fields...)
	for i, spec := range layout {
		f := fields[i]
		switch {
		case spec.K == wm.L8 && spec.Hint == "nsec3next":
			if rapid.Bool().Draw(t, "nsec3len") {
				continue
			}
			n := rapid.SampledFrom(nsec3Lens).Draw(t, "nsec3n")
			if rapid.Bool().Draw(t, "nsec3any") {
				n = rapid.IntRange(1, 255).Draw(t, "nsec3anyn")
			}
			if n == 20 {
				continue
			}
			b := make([]byte, n)
			for j := range b {
				b[j] = byte(rapid.IntRange(0, 255).Draw(t, "nsec3o"))
			}
			if pbt.Known(kNsec3Len) {
				pbt.Excluded(kNsec3Len)
				continue
			}
			f.B = b
		case spec.K == wm.IPv6, spec.K == wm.GW:
			if rapid.IntRange(0, 2).Draw(t, "v6special") != 0 {
				continue
			}
			ip := specialV6(t)
			if spec.K == wm.GW && isV4Mapped(ip) && pbt.Known(kGwMapped) {
				pbt.Excluded(kGwMapped)
				continue
			}
			if spec.K == wm.GW && f.U != 2 {
				// make it an IPv6 gateway: the selector lives in the gateway type field before it
				for j, sj := range layout[:i] {
					if sj.Hint == "gwtype" || sj.Hint == "amtgwtype" {
						g := fields[j]
						g.U = g.U&^0x7f | 2
						fields[j] = g
					}
				}
				f = wm.Field{K: wm.GW, U: 2}
			}
			f.B = ip
		case spec.K == wm.APLs:
			if len(f.APL) == 0 || rapid.Bool().Draw(t, "aplhost") {
				continue
			}
			items := append([]wm.APLItem{}, f.APL...)
			for k := range items {
				if k == 0 || rapid.Bool().Draw(t, "aplitem") {
					items[k] = hostBits(t, items[k])
				}
			}
			if !aplHasHostBits(items) {
				continue
			}
			if pbt.Known(kAplHost) {
				pbt.Excluded(kAplHost)
				continue
			}
			f.APL = items
		default:
			continue
		}
		fields[i] = f
	}
	r.Fields = fields
	return r
}

// valueClasses names the classes of this file that r belongs to (evidence histogram).
func valueClasses(r wm.Rec) []string {
	var out []string
	layout, _ := wm.LayoutOf(r.Type)
	if r.NoRdata || len(layout) != len(r.Fields) {
		return nil
	}
	for i, spec := range layout {
		f := r.Fields[i]
		switch {
		case spec.K == wm.L8 && spec.Hint == "nsec3next" && len(f.B) != 20:
			out = append(out, clsNsec3)
		case (spec.K == wm.IPv6 || spec.K == wm.GW && f.U == 2) && len(f.B) == 16:
			for _, h := range v6Heads {
				if bytes.Equal(f.B[:12], h) {
					out = append(out, clsV6Embed)
					break
				}
			}
			if spec.K == wm.GW && isV4Mapped(f.B) {
				out = append(out, clsGwMap)
			}
			for g := 0; g < 8; g++ {
				if f.B[2*g]|f.B[2*g+1] == 0 {
					out = append(out, clsV6Zero)
					break
				}
			}
		case spec.K == wm.APLs && aplHasHostBits(f.APL):
			out = append(out, clsAplHost)
		}
	}
	return out
}

// the breakers' concrete inputs (round 7), through the same oracle as the generated classes
func init() {
	x := wm.MustName("x.")
	v4mapped := []byte{0, 0, 0, 0, 0, 0, 0, 0, 0, 0, 0xff, 0xff, 1, 2, 3, 4}
	pbt.Probe(kNsec3Len, func() error {
		h := make([]byte, 32) // a SHA-256 sized next hashed owner name
		for i := range h {
			h[i] = byte(i + 1)
		}
		return checkRec(recCase{R: wm.Rec{Name: x, Type: wm.TNSEC3, Class: 1, TTL: 5, Fields: []wm.Field{
			{K: wm.U8, U: 1}, {K: wm.U8, U: 0}, {K: wm.U16, U: 1}, {K: wm.L8, B: []byte{}}, {K: wm.L8, B: h}, {K: wm.Bitmap, T: []uint16{1}}}}})
	})
	pbt.Probe(kGwMapped, func() error {
		if err := checkRec(recCase{R: wm.Rec{Name: x, Type: wm.TIPSECKEY, Class: 1, TTL: 5, Fields: []wm.Field{
			{K: wm.U8, U: 10}, {K: wm.U8, U: 2}, {K: wm.U8, U: 1}, {K: wm.GW, U: 2, B: v4mapped}, {K: wm.Rest, B: []byte{1, 2, 3}}}}}); err != nil {
			return err
		}
		return checkRec(recCase{R: wm.Rec{Name: x, Type: wm.TAMTRELAY, Class: 1, TTL: 5, Fields: []wm.Field{
			{K: wm.U8, U: 10}, {K: wm.U8, U: 2}, {K: wm.GW, U: 2, B: v4mapped}}}})
	})
	pbt.Probe(kAplHost, func() error {
		return checkRec(recCase{R: wm.Rec{Name: x, Type: wm.TAPL, Class: 1, TTL: 5, Fields: []wm.Field{
			{K: wm.APLs, APL: []wm.APLItem{{Family: 1, Prefix: 8, Afd: []byte{10, 1, 2, 3}}}}}}})
	})
}
