package c05

// reading-history (round 9): the statement quantifies over records, not over processes - the text
// produced by String() "is accepted by the zone parser and yields a record with the same owner,
// class, TTL and type and octet-identical RDATA" whatever the library was asked to read before, and
// through every way into the zone parser (NewRR, ReadRR, ZoneParser.Next; "observe_at" of the
// property names NewRR first). The other sub-checks of this package read every text through a
// fresh NewZoneParser and treat reading as a pure function of the text; nothing that is carried
// from one call to the next could be seen by them, and NewRR / ReadRR were not called at all.
//
// A case is a short history: 1..4 texts that are read first, each through a generated entry point,
// and after each of them the String() text of one record is read through a generated entry point and
// compared octet for octet. The texts read before are renderings of other generated records (the
// library's String() or the independent writer of plain_test.go, which also writes parentheses,
// line breaks and a trailing comment without a newline behind it) that end in every lexical
// situation of RFC 1035 section 5.1:
//
//   ending that keeps the meaning   nothing, newline, blanks, a comment with or without a newline
//                                   behind it, blank and comment-only lines in front and behind -
//                                   the text must then be read as the record it was made from
//   ending that does not            an open parenthesis, an open quote, a backslash at the very end, ...
//   cut short                       a prefix of the text of any length (the input ends in the middle
//                                   of a token, a quoted string, an escape, a parenthesis, a comment)
//   comment start anywhere          ";" (glued or not) put at a random position, so that the record
//                                   is cut off by a comment at any field - mostly a failing parse
//   noise                           the text mutations of text-born
//
// Nothing is asserted about what the library makes of a damaged text (that is text-born's and C07's
// business); it only has to leave the next call alone.

import (
	"bytes"
	"fmt"
	"io"
	"strings"

	"github.com/miekg/dns"
	"pgregory.net/rapid"

	"verif/harness/pbt"
	wm "verif/harness/wiremodel"
)

// ways into the zone parser
const (
	viaNewRR       = iota // dns.NewRR(text) (adds a newline when the text has none at its end)
	viaReadRR             // dns.ReadRR(strings.NewReader(text)): the text as it is
	viaReadRRPlain        // dns.ReadRR of an io.Reader that is not an io.ByteReader
	viaZoneParser         // dns.NewZoneParser(...).Next(), once; the parser is then dropped
	viaSentinel           // parse(): ZoneParser with the sentinel record behind the text (as the other sub-checks read)
)

var entryNames = []string{"NewRR", "ReadRR", "ReadRR(io.Reader)", "ZoneParser.Next-once", "ZoneParser+sentinel"}

type histStep struct {
	Text string // read before
	Via  int
	Kind string // how Text was made (evidence only)
	// Denotes is set when Text is a rendering of that record whose ending keeps the meaning:
	// the step itself must then yield the record.
	Denotes *wm.Rec `json:",omitempty"`
	Then    int     // way by which the String() text of histCase.R is read after this step
}

type histCase struct {
	Steps []histStep
	R     wm.Rec
}

const prologue = "prologue.c05.\t1\tIN\tA\t192.0.2.9"

type plainReader struct{ r io.Reader }

func (p plainReader) Read(b []byte) (int, error) { return p.r.Read(b) }

func readVia(via int, text string) (dns.RR, error) {
	switch via {
	case viaNewRR:
		return dns.NewRR(text)
	case viaReadRR:
		return dns.ReadRR(strings.NewReader(text), "c05")
	case viaReadRRPlain:
		return dns.ReadRR(plainReader{strings.NewReader(text)}, "c05")
	case viaZoneParser:
		zp := dns.NewZoneParser(strings.NewReader(text), ".", "c05")
		rr, _ := zp.Next()
		return rr, zp.Err()
	default:
		return parse(text)
	}
}

// endsIn names the lexical situation in which text ends (RFC 1035 section 5.1: ";" starts a comment
// that runs to the end of the line, "\" quotes the next character, quotes and parentheses group).
func endsIn(text string) string {
	quote, comment, esc := false, false, false
	paren := 0
	for i := 0; i < len(text); i++ {
		b := text[i]
		switch {
		case comment:
			comment = b != '\n'
		case esc:
			esc = false
		case b == '\\':
			esc = true
		case b == '"':
			quote = !quote
		case quote:
		case b == ';':
			comment = true
		case b == '(':
			paren++
		case b == ')' && paren > 0:
			paren--
		}
	}
	switch {
	case comment:
		return "comment"
	case esc:
		return "escape"
	case quote:
		return "quoted-string"
	case paren > 0:
		return "parenthesis"
	case len(text) > 0 && text[len(text)-1] == '\n':
		return "line-end"
	}
	return "mid-line"
}

func directive(text string) bool {
	u := strings.ToUpper(text)
	return strings.Contains(u, "$INCLUDE") || strings.Contains(u, "$GENERATE")
}

func checkHist(c histCase) error {
	w, err := wm.EncodeRR(c.R)
	if err != nil {
		return nil
	}
	born, off, err := dns.UnpackRR(w, 0)
	if err != nil || off != len(w) {
		return nil
	}
	tn := typeName(c.R.Type)
	text := born.String()
	key := append([]byte{}, w...)
	nontrivial := false
	var classes []string
	for _, s := range c.Steps {
		key = append(append(key, byte(s.Via), byte(s.Then)), s.Text...)
		if s.Via < 0 || s.Via > viaSentinel || s.Then < 0 || s.Then > viaSentinel {
			return nil
		}
		eff := s.Text
		if s.Via == viaNewRR && !strings.HasSuffix(eff, "\n") {
			eff += "\n" // NewRR adds it
		}
		e := endsIn(eff)
		if s.Via == viaSentinel {
			e = "line-end"
		}
		if e != "line-end" {
			nontrivial = true
		}
		classes = append(classes, "before:"+s.Kind, "before-via:"+entryNames[s.Via], "before-ends-in:"+e, "then-via:"+entryNames[s.Then])
	}
	pbt.Note(key, nontrivial, classes...)
	pbt.Class("type:" + tn)

	// The verdict has to be a function of the case, also when the library under test carries state
	// from call to call: a case that was abandoned at its first violation (every candidate of the
	// shrinker is) must not decide the fate of the next one. Every case therefore starts with the
	// same call, a plain record through the plainest entry; nothing is asserted about it (an
	// assertion here could not be replayed), it is only counted.
	if rr, err := dns.NewRR(prologue); err != nil || rr == nil || rr.String() != prologue {
		pbt.Class("prologue-disturbed-by-earlier-case")
	}

	for i, s := range c.Steps {
		if directive(s.Text) {
			pbt.Class("before-skipped-directive")
			continue // $INCLUDE opens files, $GENERATE is C06's
		}
		rr, err := readVia(s.Via, s.Text)
		switch {
		case err != nil:
			pbt.Class("before-rejected")
		case rr == nil:
			pbt.Class("before-no-record")
		default:
			pbt.Class("before-accepted")
		}
		where := fmt.Sprintf("step %d: %s of %q", i+1, entryNames[s.Via], short(s.Text))
		if s.Denotes != nil {
			want, werr := wm.EncodeRR(*s.Denotes)
			if werr == nil {
				if err != nil {
					return pbt.Errf("%s: RFC 1035 text of a %s record is rejected: %v", where, typeName(s.Denotes.Type), err)
				}
				if rr == nil {
					return pbt.Errf("%s: RFC 1035 text of a %s record is accepted, but no record is returned", where, typeName(s.Denotes.Type))
				}
				if got, gerr := wireOf(rr); gerr != nil || !bytes.Equal(got, want) {
					return pbt.Errf("%s: read as a different record (err=%v)\n  want %s\n  got  %s", where, gerr, hx(want), hx(got))
				}
			}
		}
		// the String() text of R, read right after it
		r2, err := readVia(s.Then, text)
		if err != nil {
			return pbt.Errf("%s: String() of a wire-born record is not accepted by %s after %s\n  text: %s\n  error: %v", tn, entryNames[s.Then], where, short(text), err)
		}
		if r2 == nil {
			return pbt.Errf("%s: String() of a wire-born record read by %s after %s yields no record and no error\n  text: %s", tn, entryNames[s.Then], where, short(text))
		}
		w2, err := wireOf(r2)
		if err != nil || !bytes.Equal(w2, w) {
			return pbt.Errf("%s: String() read by %s after %s is a different record (err=%v)\n  text: %s\n  wire before: %s\n  wire after:  %s", tn, entryNames[s.Then], where, err, short(text), hx(w), hx(w2))
		}
		// ... and the text of that text-born record, through the plainest entry
		text2 := r2.String()
		r3, err := dns.NewRR(text2)
		if err != nil || r3 == nil {
			return pbt.Errf("%s: String() of a text-born record is not read back by NewRR (rr=%v err=%v) after %s\n  text: %s", tn, r3, err, where, short(text2))
		}
		if w3, err := wireOf(r3); err != nil || !bytes.Equal(w3, w) {
			return pbt.Errf("%s: second print/parse cycle changes the record (err=%v) after %s\n  text: %s", tn, err, where, short(text2))
		}
	}
	return nil
}

// endings that leave the meaning of a complete record text alone (RFC 1035 section 5.1)
var keepEndings = []string{"", "\n", " ;", ";", " ; a comment (\"", ";c", " ", "\t", " ; c\n", "\t;\n", "\n\n", "\n; a line of its own", "\n ; c\n \n", "\n\t; c", " \n", "\n;"}

// lines in front that leave it alone
var keepFronts = []string{"", "", "", "\n", "; a comment first\n", ";\n\n"}

// endings that change it, or make the text incomplete
var otherEndings = []string{" (", " ( ; c", "(\n", " \"", "\"", "\\", " )", ")", " ;c\n(", "\n(", "\n\"", " \" ; c", "( ; c\n", " \\", "\n\\"}

var commentStarts = []string{";", " ;", ";c", " ; c", "(;", "( ; c", ";\"", ";("}

// textOf writes r as the library or as the independent writer does; ok is false when r cannot be used.
func textOf(t *rapid.T, r wm.Rec) (string, bool) {
	cert4 := r.Type == wm.TCERT && len(r.Fields) > 0 && r.Fields[0].U == 4 && pbt.Known(kCert4)
	if isPlainRec(r) && !cert4 && rapid.Bool().Draw(t, "independent") {
		return writeRecord(t, r), true
	}
	w, err := wm.EncodeRR(r)
	if err != nil {
		return "", false
	}
	rr, off, err := dns.UnpackRR(w, 0)
	if err != nil || off != len(w) {
		return "", false
	}
	return rr.String(), true
}

func genStep(t *rapid.T) histStep {
	s := histStep{
		Via:  rapid.SampledFrom([]int{viaReadRR, viaNewRR, viaReadRR, viaReadRRPlain, viaZoneParser, viaNewRR}).Draw(t, "via"),
		Then: rapid.SampledFrom([]int{viaNewRR, viaReadRR, viaSentinel, viaNewRR, viaReadRRPlain, viaZoneParser}).Draw(t, "then"),
	}
	r := genRec(t).R
	text, ok := textOf(t, r)
	if !ok || directive(text) {
		r = wm.Rec{Name: wm.MustName("before.example."), Type: wm.TA, Class: 1, TTL: 300, Fields: []wm.Field{{K: wm.IPv4, B: []byte{192, 0, 2, 1}}}}
		text = "before.example.\t300\tIN\tA\t192.0.2.1"
	}
	switch rapid.SampledFrom([]string{"keeps-meaning", "keeps-meaning", "other-ending", "cut-short", "comment-start-anywhere", "noise"}).Draw(t, "kind") {
	case "keeps-meaning":
		s.Kind = "ending-keeps-meaning"
		s.Text = rapid.SampledFrom(keepFronts).Draw(t, "front") + text + rapid.SampledFrom(keepEndings).Draw(t, "ending")
		// an RDATA-less record has no text of its own (DESIGN 7.4): nothing is asserted about the step
		if !r.NoRdata {
			s.Denotes = &r
		}
	case "other-ending":
		s.Kind = "other-ending"
		s.Text = text + rapid.SampledFrom(otherEndings).Draw(t, "ending")
	case "cut-short":
		s.Kind = "cut-short"
		s.Text = text[:rapid.IntRange(0, len(text)).Draw(t, "cut")]
	case "comment-start-anywhere":
		s.Kind = "comment-start-anywhere"
		pos := rapid.IntRange(0, len(text)).Draw(t, "pos")
		s.Text = text[:pos] + rapid.SampledFrom(commentStarts).Draw(t, "start") + text[pos:]
	default:
		s.Kind = "noise"
		for n := rapid.IntRange(1, 3).Draw(t, "nmut"); n > 0 && len(text) > 0; n-- {
			pos := rapid.IntRange(0, len(text)).Draw(t, "pos")
			e := min(len(text), pos+rapid.IntRange(0, 3).Draw(t, "del"))
			text = text[:pos] + rapid.SampledFrom(textNoise).Draw(t, "ins") + text[e:]
		}
		s.Text = text
	}
	if directive(s.Text) {
		s.Text, s.Denotes, s.Kind = ";", nil, "noise"
	}
	return s
}

func genHist(t *rapid.T) histCase {
	c := histCase{R: genRec(t).R}
	for n := rapid.IntRange(1, 4).Draw(t, "steps"); n > 0; n-- {
		c.Steps = append(c.Steps, genStep(t))
	}
	return c
}

func init() {
	pbt.Register(pbt.Sub[histCase]{Name: "reading-history", Weight: 15, Gen: genHist, Check: checkHist})
}
