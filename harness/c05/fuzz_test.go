package c05

import (
	"testing"

	"verif/harness/pbt"
)

var seedTexts = []string{
	`example.org. 3600 IN A 192.0.2.1`,
	`example.org. 3600 IN AAAA 2001:db8::1`,
	`example.org. 1h IN MX 10 mail.example.org.`,
	`example.org. IN TXT "a b" "c\"d\\e\000" f`,
	`example.org. 3600 IN SOA ns. hostmaster. ( 1 2 3 4 5 )`,
	`example.org. 3600 IN CAA 0 issue "ca.example; policy=ev"`,
	`_443._tcp.example. 300 IN SVCB 1 svc.example. alpn="h2,h3" port=8443 ipv4hint=192.0.2.1 key65000="x\"y"`,
	`example. 300 IN HTTPS 0 alias.example.`,
	`example. 300 IN NSEC next.example. A NS TYPE65280`,
	`x.example. 300 IN NSEC3 1 1 12 aabbccdd 2vptu5timamqttgl4luu9kg21e0aor3s A RRSIG`,
	`example. 300 IN RRSIG A 8 2 300 20300101000000 20200101000000 12345 example. AAAA`,
	`example. 300 IN LOC 52 22 23.000 N 4 53 32.000 E -2.00m 0.00m 10000m 10m`,
	`example. 300 IN APL 1:192.0.2.0/24 !2:2001:db8::/32`,
	`example. 300 IN TYPE65281 \# 3 010203`,
	`example. 300 CLASS7 A \# 4 01020304`,
	`example. 300 IN NAPTR 100 10 "u" "E2U+sip" "!^.*$!sip:info@example.com!" .`,
	`example. 300 IN HIP 2 200100107B1A74DF365639CC39F1D578 AwEAAbdx rvs.example.`,
	`example. 300 IN IPSECKEY 10 3 2 gw.example. AQNRU3mG7TVTO2BkR47usntb102uFJtugbo6BSGvgqt4AQ==`,
	`example. 300 IN URI 10 1 "ftp://ftp1.example.com/public"`,
	`example. 300 IN CERT PKIX 1 RSASHA256 AAAA`,
	`example. 300 IN TLSA 3 1 1 aabb ccdd`,
	`example. 300 IN X25 "311 061"`,
	`example. 300 IN AMTRELAY 10 1 3 relay.example.`,
	`example. 300 IN ZONEMD 2018031900 1 1 aabb`,
	`example. 300 IN CSYNC 66 3 A NS AAAA`,
	`example. 300 IN EUI48 00-00-5e-00-53-2a`,
	`example. 300 IN NID 10 0014:4fff:ff20:ee64`,
}

func FuzzTextBorn(f *testing.F) {
	for _, s := range seedTexts {
		f.Add(s)
	}
	f.Fuzz(func(t *testing.T, s string) {
		if len(s) > 4096 {
			s = s[:4096]
		}
		c := textCase{Text: s}
		pbt.ReportFuzz(t, "text-born", c, pbt.Guard(checkText, c))
	})
}
