package c05

// An independent reader and writer of RFC 1035 master-file text for the types whose presentation
// format is simply their wire fields in order, written as standard items (decimal integers, domain
// names, character-strings, addresses, hex and base64 blobs). Nothing here calls the library.

import (
	"encoding/base64"
	"encoding/hex"
	"fmt"
	"net"
	"sort"
	"strconv"
	"strings"

	"pgregory.net/rapid"

	"verif/harness/gen"
	wm "verif/harness/wiremodel"
)

// mnemonics of the plain types (IANA registry)
var plainTypes = map[uint16]string{
	wm.TA: "A", wm.TAAAA: "AAAA", wm.TNS: "NS", wm.TMD: "MD", wm.TMF: "MF", wm.TCNAME: "CNAME", wm.TMB: "MB", wm.TMG: "MG", wm.TMR: "MR",
	wm.TPTR: "PTR", wm.TMINFO: "MINFO", wm.TMX: "MX", wm.TSOA: "SOA", wm.THINFO: "HINFO", wm.TTXT: "TXT", wm.TSPF: "SPF", wm.TAVC: "AVC",
	wm.TRESINFO: "RESINFO", wm.TNINFO: "NINFO", wm.TAFSDB: "AFSDB", wm.TRP: "RP", wm.TX25: "X25", wm.TISDN: "ISDN", wm.TRT: "RT",
	wm.TNSAPPTR: "NSAP-PTR", wm.TPX: "PX", wm.TSRV: "SRV", wm.TNAPTR: "NAPTR", wm.TKX: "KX", wm.TDNAME: "DNAME", wm.TDS: "DS", wm.TCDS: "CDS",
	wm.TDLV: "DLV", wm.TTA: "TA", wm.TSSHFP: "SSHFP", wm.TDNSKEY: "DNSKEY", wm.TKEY: "KEY", wm.TCDNSKEY: "CDNSKEY", wm.TRKEY: "RKEY",
	wm.TDHCID: "DHCID", wm.TOPENPGPKEY: "OPENPGPKEY", wm.TTLSA: "TLSA", wm.TSMIMEA: "SMIMEA", wm.TTALINK: "TALINK", wm.TZONEMD: "ZONEMD",
	wm.TUINFO: "UINFO", wm.TUID: "UID", wm.TGID: "GID", wm.TEID: "EID", wm.TNIMLOC: "NIMLOC", wm.TL32: "L32", wm.TLP: "LP", wm.TURI: "URI",
	wm.TCAA: "CAA", wm.TGPOS: "GPOS",
	wm.TNSEC: "NSEC", wm.TNSEC3: "NSEC3", wm.TNSEC3PARAM: "NSEC3PARAM", wm.TCSYNC: "CSYNC",
	wm.TCERT: "CERT",
}

// CERT (RFC 4398 section 2.2): certificate type and algorithm are written as an unsigned decimal
// integer or as a mnemonic. Certificate types: RFC 4398 section 2.1 (the IANA registry has had no
// addition since). Algorithms: IANA "DNS Security Algorithm Numbers", column Mnemonic (RFC 4034
// A.1, 5155, 5702, 5933, 6605, 8080, 9558, 9563). A mnemonic outside these tables is one that
// another implementation cannot read.
var certTypeMnemonic = map[uint16]string{1: "PKIX", 2: "SPKI", 3: "PGP", 4: "IPKIX", 5: "ISPKI", 6: "IPGP", 7: "ACPKIX", 8: "IACPKIX", 253: "URI", 254: "OID"}

var algorithmMnemonic = map[uint8]string{1: "RSAMD5", 2: "DH", 3: "DSA", 5: "RSASHA1", 6: "DSA-NSEC3-SHA1", 7: "RSASHA1-NSEC3-SHA1", 8: "RSASHA256",
	10: "RSASHA512", 12: "ECC-GOST", 13: "ECDSAP256SHA256", 14: "ECDSAP384SHA384", 15: "ED25519", 16: "ED448", 17: "SM2SM3", 23: "ECC-GOST12",
	252: "INDIRECT", 253: "PRIVATEDNS", 254: "PRIVATEOID"}

var certTypeCodes = []uint16{1, 2, 3, 4, 5, 6, 7, 8, 253, 254}
var algorithmCodes = []uint8{1, 2, 3, 5, 6, 7, 8, 10, 12, 13, 14, 15, 16, 252, 253, 254}

// readCertField reads a decimal integer or a registry mnemonic.
func readCertField(it item, spec wm.FieldSpec, bits int) (uint64, error) {
	if it.quoted {
		return 0, fmt.Errorf("%s: quoted", spec.Go)
	}
	if v, err := strconv.ParseUint(it.text, 10, bits); err == nil {
		return v, nil
	}
	if spec.Hint == "certtype" {
		for code, m := range certTypeMnemonic {
			if m == it.text {
				return uint64(code), nil
			}
		}
		return 0, fmt.Errorf("CERT type %q is neither a decimal integer nor a mnemonic of RFC 4398 section 2.1", it.text)
	}
	for code, m := range algorithmMnemonic {
		if m == it.text {
			return uint64(code), nil
		}
	}
	return 0, fmt.Errorf("CERT algorithm %q is neither a decimal integer nor a mnemonic of the IANA registry", it.text)
}

// mnemonics an independent reader/writer of type bitmaps needs (IANA registry); every other type
// is written TYPEnnn (RFC 3597)
var bitmapMnemonic = map[uint16]string{1: "A", 2: "NS", 3: "MD", 4: "MF", 5: "CNAME", 6: "SOA", 7: "MB", 8: "MG", 9: "MR", 10: "NULL", 12: "PTR",
	13: "HINFO", 14: "MINFO", 15: "MX", 16: "TXT", 17: "RP", 18: "AFSDB", 19: "X25", 20: "ISDN", 21: "RT", 23: "NSAP-PTR", 24: "SIG", 25: "KEY",
	26: "PX", 27: "GPOS", 28: "AAAA", 29: "LOC", 30: "NXT", 31: "EID", 32: "NIMLOC", 33: "SRV", 34: "ATMA", 35: "NAPTR", 36: "KX", 37: "CERT",
	39: "DNAME", 41: "OPT", 42: "APL", 43: "DS", 44: "SSHFP", 45: "IPSECKEY", 46: "RRSIG", 47: "NSEC", 48: "DNSKEY", 49: "DHCID", 50: "NSEC3",
	51: "NSEC3PARAM", 52: "TLSA", 53: "SMIMEA", 55: "HIP", 56: "NINFO", 57: "RKEY", 58: "TALINK", 59: "CDS", 60: "CDNSKEY", 61: "OPENPGPKEY",
	62: "CSYNC", 63: "ZONEMD", 64: "SVCB", 65: "HTTPS", 99: "SPF", 100: "UINFO", 101: "UID", 102: "GID", 103: "UNSPEC", 104: "NID", 105: "L32",
	106: "L64", 107: "LP", 108: "EUI48", 109: "EUI64", 128: "NXNAME", 249: "TKEY", 250: "TSIG", 251: "IXFR", 252: "AXFR", 253: "MAILB",
	254: "MAILA", 255: "ANY", 256: "URI", 257: "CAA", 258: "AVC", 260: "AMTRELAY", 261: "RESINFO", 32768: "TA", 32769: "DLV"}

// errMnemonic: a type mnemonic this reader's table does not hold (not an error of the text)
var errMnemonic = fmt.Errorf("type mnemonic outside the independent reader's table")

const base32hexAlphabet = "0123456789ABCDEFGHIJKLMNOPQRSTUV"

// base32hex without padding (RFC 4648 section 7), written out here so that the reader and writer do
// not share code with the library
func b32hexEncode(b []byte) string {
	var sb strings.Builder
	acc, bits := 0, 0
	for _, c := range b {
		acc = acc<<8 | int(c)
		bits += 8
		for bits >= 5 {
			sb.WriteByte(base32hexAlphabet[acc>>(bits-5)&31])
			bits -= 5
		}
	}
	if bits > 0 {
		sb.WriteByte(base32hexAlphabet[acc<<(5-bits)&31])
	}
	return sb.String()
}

func b32hexDecode(s string) ([]byte, error) {
	var out []byte
	acc, bits := 0, 0
	for i := 0; i < len(s); i++ {
		c := s[i]
		if c >= 'a' && c <= 'z' {
			c -= 'a' - 'A'
		}
		v := strings.IndexByte(base32hexAlphabet, c)
		if v < 0 {
			return nil, fmt.Errorf("not base32hex: %q", s)
		}
		acc = acc<<5 | v
		bits += 5
		if bits >= 8 {
			out = append(out, byte(acc>>(bits-8)))
			bits -= 8
		}
	}
	return out, nil
}

var classMnemonic = map[uint16]string{1: "IN", 2: "CS", 3: "CH", 4: "HS", 254: "NONE"}

// tokenize splits one line of master-file text into items. Quoted items keep their inner text
// (escapes untouched) and are flagged.
type item struct {
	text   string
	quoted bool
}

func tokenize(line string) ([]item, error) {
	var out []item
	i := 0
	for i < len(line) {
		c := line[i]
		switch {
		case c == ' ' || c == '\t':
			i++
		case c == '"':
			j := i + 1
			for j < len(line) && line[j] != '"' {
				if line[j] == '\\' {
					j++
				}
				j++
			}
			if j >= len(line) {
				return nil, fmt.Errorf("unterminated quote")
			}
			out = append(out, item{line[i+1 : j], true})
			i = j + 1
		case c == ';':
			return out, nil
		case c == '(' || c == ')':
			i++
		default:
			j := i
			for j < len(line) && line[j] != ' ' && line[j] != '\t' && line[j] != '"' && line[j] != ';' && line[j] != '(' && line[j] != ')' {
				if line[j] == '\\' {
					if j+3 < len(line) && isDig(line[j+1]) && isDig(line[j+2]) && isDig(line[j+3]) {
						j += 3
					} else {
						j++
					}
				}
				j++
			}
			if j > len(line) {
				return nil, fmt.Errorf("dangling escape")
			}
			out = append(out, item{line[i:j], false})
			i = j
		}
	}
	return out, nil
}

func isDig(b byte) bool { return b >= '0' && b <= '9' }

// readRecord reads a one-line record in the layout owner TTL class type RDATA and returns its
// uncompressed wire form.
func readRecord(line string) ([]byte, error) {
	items, err := tokenize(line)
	if err != nil {
		return nil, err
	}
	if len(items) < 4 {
		return nil, fmt.Errorf("too few items")
	}
	owner, fq, err := wm.UnescName(items[0].text)
	if err != nil || !fq {
		return nil, fmt.Errorf("owner %q: %v", items[0].text, err)
	}
	ttl, err := strconv.ParseUint(items[1].text, 10, 32)
	if err != nil {
		return nil, fmt.Errorf("ttl %q", items[1].text)
	}
	class, ok := parseClass(items[2].text)
	if !ok {
		return nil, fmt.Errorf("class %q", items[2].text)
	}
	var typ uint16
	found := false
	for t, m := range plainTypes {
		if strings.EqualFold(m, items[3].text) {
			typ, found = t, true
		}
	}
	if !found {
		return nil, fmt.Errorf("type %q is not one of the plainly presented types", items[3].text)
	}
	r := wm.Rec{Name: owner, Type: typ, Class: class, TTL: uint32(ttl)}
	rest := items[4:]
	layout := wm.Layout[typ]
	for li, spec := range layout {
		f := wm.Field{K: spec.K}
		last := li == len(layout)-1
		take := func() (item, error) {
			if len(rest) == 0 {
				return item{}, fmt.Errorf("missing %s", spec.Go)
			}
			it := rest[0]
			rest = rest[1:]
			return it, nil
		}
		switch spec.K {
		case wm.U8, wm.U16, wm.U32, wm.U48, wm.U64:
			it, err := take()
			if err != nil {
				return nil, err
			}
			bits := map[wm.Kind]int{wm.U8: 8, wm.U16: 16, wm.U32: 32, wm.U48: 48, wm.U64: 64}[spec.K]
			if typ == wm.TCERT && (spec.Hint == "certtype" || spec.Hint == "alg") {
				v, err := readCertField(it, spec, bits)
				if err != nil {
					return nil, err
				}
				f.U = v
				break
			}
			v, err := strconv.ParseUint(it.text, 10, bits)
			if err != nil || it.quoted {
				return nil, fmt.Errorf("%s: %q is not a decimal integer", spec.Go, it.text)
			}
			f.U = v
		case wm.NameC, wm.NameU:
			it, err := take()
			if err != nil {
				return nil, err
			}
			n, fq, err := wm.UnescName(it.text)
			if err != nil || !fq || it.quoted {
				return nil, fmt.Errorf("%s: %q is not an absolute name", spec.Go, it.text)
			}
			f.N = n
		case wm.Str:
			it, err := take()
			if err != nil {
				return nil, err
			}
			f.B = wm.UnescTxt(it.text)
			if len(f.B) > 255 {
				return nil, fmt.Errorf("%s: string of %d octets", spec.Go, len(f.B))
			}
		case wm.Strs:
			for len(rest) > 0 {
				it, _ := take()
				b := wm.UnescTxt(it.text)
				if len(b) > 255 {
					return nil, fmt.Errorf("%s: string of %d octets", spec.Go, len(b))
				}
				f.L = append(f.L, b)
			}
		case wm.IPv4:
			it, err := take()
			if err != nil {
				return nil, err
			}
			ip := net.ParseIP(it.text).To4()
			if ip == nil || strings.Contains(it.text, ":") {
				return nil, fmt.Errorf("%s: %q is not an IPv4 address", spec.Go, it.text)
			}
			f.B = ip
		case wm.IPv6:
			it, err := take()
			if err != nil {
				return nil, err
			}
			ip := net.ParseIP(it.text)
			if ip == nil {
				return nil, fmt.Errorf("%s: %q is not an IPv6 address", spec.Go, it.text)
			}
			f.B = ip.To16()
		case wm.Rest:
			if !last {
				return nil, fmt.Errorf("opaque field in the middle")
			}
			switch spec.R {
			case wm.ReprHex, wm.ReprB64:
				var sb strings.Builder
				for len(rest) > 0 {
					it, _ := take()
					sb.WriteString(it.text)
				}
				var b []byte
				var err error
				if spec.R == wm.ReprHex {
					b, err = hex.DecodeString(sb.String())
				} else {
					b, err = base64.StdEncoding.DecodeString(sb.String())
				}
				if err != nil {
					return nil, fmt.Errorf("%s: %v", spec.Go, err)
				}
				f.B = b
			case wm.ReprOctet:
				it, err := take()
				if err != nil {
					return nil, err
				}
				f.B = wm.UnescTxt(it.text)
			default:
				return nil, fmt.Errorf("unsupported representation")
			}
		case wm.L8:
			it, err := take()
			if err != nil {
				return nil, err
			}
			switch {
			case spec.R == wm.ReprHex && it.text == "-":
				f.B = []byte{}
			case spec.R == wm.ReprHex:
				if f.B, err = hex.DecodeString(it.text); err != nil {
					return nil, fmt.Errorf("%s: %v", spec.Go, err)
				}
			case spec.R == wm.ReprB32:
				if f.B, err = b32hexDecode(it.text); err != nil {
					return nil, fmt.Errorf("%s: %v", spec.Go, err)
				}
			default:
				return nil, fmt.Errorf("unsupported representation")
			}
		case wm.Bitmap:
			if !last {
				return nil, fmt.Errorf("bitmap in the middle")
			}
			for len(rest) > 0 {
				it, _ := take()
				found := false
				for code, m := range bitmapMnemonic {
					if strings.EqualFold(m, it.text) {
						f.T, found = append(f.T, code), true
					}
				}
				if !found {
					if len(it.text) > 4 && strings.EqualFold(it.text[:4], "TYPE") {
						v, err := strconv.ParseUint(it.text[4:], 10, 16)
						if err != nil {
							return nil, fmt.Errorf("bitmap item %q", it.text)
						}
						f.T = append(f.T, uint16(v))
					} else {
						return nil, fmt.Errorf("bitmap item %q: %w", it.text, errMnemonic)
					}
				}
			}
			sort.Slice(f.T, func(i, j int) bool { return f.T[i] < f.T[j] })
		default:
			return nil, fmt.Errorf("kind %d is not plainly presented", spec.K)
		}
		r.Fields = append(r.Fields, f)
	}
	if len(rest) > 0 {
		return nil, fmt.Errorf("%d items left over", len(rest))
	}
	return wm.EncodeRR(r)
}

func parseClass(s string) (uint16, bool) {
	for c, m := range classMnemonic {
		if strings.EqualFold(m, s) {
			return c, true
		}
	}
	if len(s) > 5 && strings.EqualFold(s[:5], "CLASS") {
		v, err := strconv.ParseUint(s[5:], 10, 16)
		return uint16(v), err == nil
	}
	return 0, false
}

// ---------------------------------------------------------------------------------------------
// writer with spelling choices

func spellStr(t *rapid.T, b []byte) string {
	// always quoted: several per-type readers of the library insist on quotes (NAPTR, URI), and
	// the listed property does not promise acceptance of the unquoted spelling
	var sb strings.Builder
	sb.WriteByte('"')
	for _, c := range b {
		k := rapid.IntRange(0, 9).Draw(t, "sq")
		switch {
		case c < ' ' || c > '~' || k == 0:
			fmt.Fprintf(&sb, "\\%03d", c)
		case c == '"' || c == '\\':
			sb.WriteByte('\\')
			sb.WriteByte(c)
		case k == 1 && !isDig(c):
			sb.WriteByte('\\')
			sb.WriteByte(c)
		default:
			sb.WriteByte(c)
		}
	}
	sb.WriteByte('"')
	return sb.String()
}

func spellKeyword(t *rapid.T, s string) string {
	switch rapid.IntRange(0, 2).Draw(t, "kwcase") {
	case 0:
		return strings.ToLower(s)
	case 1:
		return strings.ToUpper(s)
	}
	b := []byte(strings.ToLower(s))
	for i := range b {
		if i%2 == 0 && b[i] >= 'a' && b[i] <= 'z' {
			b[i] -= 32
		}
	}
	return string(b)
}

func spellTTL(t *rapid.T, ttl uint32) string {
	if ttl < 1<<31 && rapid.Bool().Draw(t, "ttlunits") {
		// w d h m s units, any case
		var sb strings.Builder
		left := ttl
		for _, u := range []struct {
			n uint32
			c string
		}{{604800, "w"}, {86400, "d"}, {3600, "h"}, {60, "m"}, {1, "s"}} {
			if left >= u.n {
				c := u.c
				if rapid.Bool().Draw(t, "unitcase") {
					c = strings.ToUpper(c)
				}
				fmt.Fprintf(&sb, "%d%s", left/u.n, c)
				left %= u.n
			}
		}
		if sb.Len() == 0 {
			return "0"
		}
		return sb.String()
	}
	return strconv.FormatUint(uint64(ttl), 10)
}

// chunked splits blob text into whitespace-separated words at multiples of unit characters
// (2 for hex, 4 for base64: whole octets / whole quanta per word).
func chunked(t *rapid.T, s string, unit int) string {
	if len(s) < 2*unit || rapid.Bool().Draw(t, "nochunk") {
		return s
	}
	var sb strings.Builder
	for len(s) > 0 {
		n := rapid.IntRange(1, len(s)/unit).Draw(t, "chunk") * unit
		sb.WriteString(s[:n])
		s = s[n:]
		if len(s) > 0 {
			sb.WriteByte(' ')
		}
	}
	return sb.String()
}

// writeRecord renders r (a plain type) with generated spelling choices. The text denotes exactly r.
func writeRecord(t *rapid.T, r wm.Rec) string {
	var sb strings.Builder
	sb.WriteString(gen.SpellName(t, r.Name))
	sep := func() {
		if rapid.Bool().Draw(t, "tab") {
			sb.WriteByte('\t')
		} else {
			sb.WriteString(strings.Repeat(" ", rapid.IntRange(1, 3).Draw(t, "sp")))
		}
	}
	class := fmt.Sprintf("CLASS%d", r.Class)
	if m, ok := classMnemonic[r.Class]; ok && r.Class != 254 && rapid.Bool().Draw(t, "classmn") {
		class = m
	}
	typ := fmt.Sprintf("TYPE%d", r.Type)
	useMnemonic := rapid.IntRange(0, 3).Draw(t, "typemn") != 0
	if useMnemonic {
		typ = plainTypes[r.Type]
	}
	sep()
	if rapid.Bool().Draw(t, "classfirst") {
		sb.WriteString(spellKeyword(t, class))
		sep()
		sb.WriteString(spellTTL(t, r.TTL))
	} else {
		sb.WriteString(spellTTL(t, r.TTL))
		sep()
		sb.WriteString(spellKeyword(t, class))
	}
	sep()
	sb.WriteString(spellKeyword(t, typ))
	if !useMnemonic {
		rd := wm.EncodeRdata(r)
		sep()
		fmt.Fprintf(&sb, "\\# %d %s", len(rd), chunked(t, hex.EncodeToString(rd), 2))
		return sb.String()
	}
	paren := rapid.IntRange(0, 3).Draw(t, "paren") == 0
	if paren {
		sep()
		sb.WriteByte('(')
	}
	layout := wm.Layout[r.Type]
	for i, spec := range layout {
		f := r.Fields[i]
		if paren && rapid.IntRange(0, 2).Draw(t, "nl") == 0 {
			sb.WriteString("\n") // (comments inside parentheses are C06's business)
		}
		sep()
		switch spec.K {
		case wm.U8, wm.U16, wm.U32, wm.U48, wm.U64:
			// CERT: mnemonic (as the registry spells it) or decimal integer
			if m, ok := certTypeMnemonic[uint16(f.U)]; ok && spec.Hint == "certtype" && rapid.IntRange(0, 2).Draw(t, "certmn") != 0 {
				sb.WriteString(m)
			} else if m, ok := algorithmMnemonic[uint8(f.U)]; ok && r.Type == wm.TCERT && spec.Hint == "alg" && f.U != 17 && f.U != 23 && rapid.IntRange(0, 2).Draw(t, "algmn") != 0 {
				sb.WriteString(m)
			} else {
				sb.WriteString(strconv.FormatUint(f.U, 10))
			}
		case wm.NameC, wm.NameU:
			sb.WriteString(gen.SpellName(t, f.N))
		case wm.Str:
			if spec.Hint == "gpos" || spec.Hint == "caatag" {
				sb.WriteString(string(f.B)) // GPOS numbers and CAA tags are bare tokens in their RFCs' presentation formats
			} else {
				sb.WriteString(spellStr(t, f.B))
			}
		case wm.Strs:
			for j, s := range f.L {
				if j > 0 {
					sep()
				}
				sb.WriteString(spellStr(t, s))
			}
		case wm.IPv4:
			sb.WriteString(net.IP(f.B).String())
		case wm.IPv6:
			ip := net.IP(f.B)
			if ip.To4() != nil || rapid.Bool().Draw(t, "v6long") {
				var parts []string
				for k := 0; k < 16; k += 2 {
					parts = append(parts, fmt.Sprintf("%x", int(ip[k])<<8|int(ip[k+1])))
				}
				sb.WriteString(strings.Join(parts, ":"))
			} else {
				sb.WriteString(ip.String())
			}
		case wm.L8:
			var h string
			switch {
			case spec.R == wm.ReprHex && len(f.B) == 0:
				h = "-"
			case spec.R == wm.ReprHex:
				h = hex.EncodeToString(f.B)
			default:
				h = b32hexEncode(f.B)
			}
			// hex and base32hex digits are case-insensitive (RFC 4648 section 3.3, RFC 5155 section 3.3)
			switch rapid.IntRange(0, 2).Draw(t, "digitcase") {
			case 0:
				h = strings.ToUpper(h)
			case 1:
				h = strings.ToLower(h)
			default:
				b := []byte(h)
				for i := range b {
					if rapid.Bool().Draw(t, "dc") {
						b[i] = strings.ToLower(string(b[i]))[0]
					} else {
						b[i] = strings.ToUpper(string(b[i]))[0]
					}
				}
				h = string(b)
			}
			sb.WriteString(h)
		case wm.Bitmap:
			for j, code := range f.T {
				if j > 0 {
					sep()
				}
				if m, ok := bitmapMnemonic[code]; ok && rapid.IntRange(0, 3).Draw(t, "bmnum") != 0 {
					sb.WriteString(spellKeyword(t, m))
				} else {
					sb.WriteString(spellKeyword(t, fmt.Sprintf("TYPE%d", code)))
				}
			}
		case wm.Rest:
			switch spec.R {
			case wm.ReprHex:
				h := hex.EncodeToString(f.B)
				if rapid.Bool().Draw(t, "hexupper") {
					h = strings.ToUpper(h)
				}
				sb.WriteString(chunked(t, h, 2))
			case wm.ReprB64:
				sb.WriteString(chunked(t, base64.StdEncoding.EncodeToString(f.B), 4))
			case wm.ReprOctet:
				sb.WriteString(spellStr(t, f.B))
			}
		}
	}
	if paren {
		sb.WriteString(" )")
	}
	if rapid.IntRange(0, 3).Draw(t, "trailingcomment") == 0 {
		sb.WriteString(" ; trailing \"comment\" (")
	}
	return sb.String()
}
