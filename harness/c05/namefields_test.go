package c05

// name-field-octets (round 10): a deterministic sweep over (type, domain-name field inside the RDATA,
// octet, position in the label). The statement quantifies over "all records of all types ... over all
// field values, in particular strings containing quotes, backslashes, semicolons, parentheses,
// spaces, newlines and non-ASCII octets"; for domain names inside RDATA each String() method decides
// by itself how the field is printed (most go through sprintName; IPSECKEY / AMTRELAY print
// GatewayHost themselves, NAPTR prints Replacement as stored, HIP and SVCB have code of their
// own), so "the name escaping works" is a statement per field, not per library. The random
// generators reach a given (field, octet) pair only by chance; here every pair occurs, in a record
// that comes from the wire, and goes through the whole oracle of text-roundtrip (print, re-read,
// same octets, print again, alternative spellings).
//
// quick: the seven octets that are special in a master file and ordinary in a label
// (blank ; ( ) @ ' "), the label separator and the escape character, and a few unprintable ones;
// thorough: all 256 octet values.

import (
	"fmt"

	"pgregory.net/rapid"

	"verif/harness/gen"
	"verif/harness/pbt"
	wm "verif/harness/wiremodel"
)

var nameFieldOctetsQuick = []byte{' ', ';', '(', ')', '@', '\'', '"', '.', '\\', 0x00, '\t', '\n', '\r', 0x7f, 0x80, 0xff, '$', '*', '#', '0', 'a'}

// nameFieldSites lists (type, index into the layout) of every domain-name field inside RDATA.
func nameFieldSites() (out [][2]int) {
	for _, typ := range textTypes() {
		l, _ := wm.LayoutOf(typ)
		for i, sp := range l {
			switch sp.K {
			case wm.NameC, wm.NameU, wm.Names, wm.GW:
				out = append(out, [2]int{int(typ), i})
			}
		}
	}
	return
}

// baseRecord: a fixed well-formed record of the type (the generator of text-roundtrip with a fixed seed).
func baseRecord(typ uint16) wm.Rec {
	g := rapid.Custom(func(t *rapid.T) wm.Rec {
		o := &gen.Opts{Level: gen.Presentable, MaxBlob: 12, Avoid: map[string]bool{"octet-over-255-text": true}}
		o.NameGen = func(t *rapid.T) wm.Name { return gen.Name(t, gen.NameOpts{Plain: true, MaxLabs: 3, MaxLabel: 6}) }
		return gen.RecOfType(t, typ, o)
	})
	r := g.Example(int(typ) + 1)
	r.Name, r.Class, r.TTL = wm.MustName("o.example."), 1, 300
	return r
}

func eachNameFieldOctet(emit func(recCase)) {
	octets := nameFieldOctetsQuick
	if pbt.Thorough() {
		octets = nil
		for c := 0; c < 256; c++ {
			octets = append(octets, byte(c))
		}
	}
	for _, site := range nameFieldSites() {
		typ, i := uint16(site[0]), site[1]
		base := baseRecord(typ)
		layout, _ := wm.LayoutOf(typ)
		if len(base.Fields) != len(layout) {
			continue
		}
		for _, c := range octets {
			names := []wm.Name{
				{{c}, []byte("e")},           // a label of that octet alone
				{{'g', c, '1'}, []byte("e")}, // inside a label
				{{c, 'g'}, []byte("e")},      // the first octet of the name
				{[]byte("e"), {'g', 'w', c}}, // the last octet of the name
			}
			if pbt.Thorough() {
				names = append(names, wm.Name{{c, c}}, wm.Name{{'g', c}, []byte("e")})
			}
			for _, n := range names {
				r := base
				r.Fields = append([]wm.Field{}, base.Fields...)
				f := r.Fields[i]
				switch layout[i].K {
				case wm.Names:
					f.NL = []wm.Name{wm.MustName("rvs.example."), n}
				case wm.GW:
					for j, sj := range layout[:i] {
						if sj.Hint == "gwtype" || sj.Hint == "amtgwtype" {
							g := r.Fields[j]
							g.U = g.U&^0x7f | 3
							r.Fields[j] = g
						}
					}
					f = wm.Field{K: wm.GW, U: 3, N: n}
				default:
					f.N = n
				}
				r.Fields[i] = f
				emit(recCase{R: r})
			}
		}
	}
}

func checkNameField(c recCase) error {
	l, _ := wm.LayoutOf(c.R.Type)
	for i, sp := range l {
		if i < len(c.R.Fields) {
			switch sp.K {
			case wm.NameC, wm.NameU, wm.Names, wm.GW:
				pbt.Class(fmt.Sprintf("name-field:%s.%s", typeName(c.R.Type), sp.Go))
			}
		}
	}
	return checkRec(c)
}

func init() {
	pbt.RegisterEnum(pbt.Enum[recCase]{Name: "name-field-octets", Exhaustive: true, Each: eachNameFieldOctet, Check: checkNameField})
}
