package c05

// generic-surplus (round 10): "any type may be written in the RFC 3597 generic form with the same
// result". The generic form `\# n hex` denotes RDATA of exactly the n octets it spells (RFC 3597
// section 5). The other sub-checks write the RDATA of a well-formed record this way; here the
// octets are those of a well-formed record followed by 1..8 more. Whatever the type makes of them,
// the outcome can only be one of two: the text is refused (the octets are no RDATA of that type),
// or the record that is returned has exactly the octets the text spells (observed through the
// library's packer). A record with fewer octets is not "the same result": the text denotes n octets,
// another reader of the same text (one that does not know the type keeps all n, RFC 3597 section 5)
// holds a different record, and the same octets are refused when they come from the wire.
//
// For a type whose RDATA is a fixed sequence of fields (A, MX, SOA, ... and the types without
// fields, ANY and NXNAME) the well-formed part is all the type can take, so the text has to be
// refused; for a type whose last field runs to the end of the RDATA (TXT, NSEC, SVCB, key blobs ...)
// the surplus is read as more of that field and the text is refused or kept octet for octet.

import (
	"bytes"
	"encoding/binary"
	"encoding/hex"
	"fmt"

	"github.com/miekg/dns"
	"pgregory.net/rapid"

	"verif/harness/gen"
	"verif/harness/pbt"
	wm "verif/harness/wiremodel"
)

const kSurplus = "generic-rdata-surplus"

type surplusCase struct {
	R       wm.Rec
	Surplus []byte
	Numeric bool // TYPEnnn CLASSnnn instead of the mnemonics
}

// openEnded: the last field of the layout runs to the end of the RDATA.
func openEnded(typ uint16) bool {
	l, known := wm.LayoutOf(typ)
	if !known {
		return true // unknown types keep every octet
	}
	if len(l) == 0 {
		return false
	}
	switch l[len(l)-1].K {
	case wm.Rest, wm.Strs, wm.Opts, wm.APLs, wm.Bitmap, wm.Names, wm.Params:
		return true
	}
	return false
}

// types the generic form is read into: every registered type except the three whose records
// exist only inside a message (OPT, TSIG, TKEY)
func surplusTypes() (all, open []uint16) {
	for _, t := range gen.AllTypes {
		if t == wm.TOPT || t == wm.TTSIG || t == wm.TTKEY || t == wm.TPrivate {
			continue
		}
		all = append(all, t)
		if openEnded(t) {
			open = append(open, t)
		}
	}
	return
}

func checkSurplus(c surplusCase) error {
	r := c.R
	if r.NoRdata {
		return nil // octets behind nothing are not "a well-formed record and more" (cut-short RDATA is C20's rdata-cut-short)
	}
	rd := wm.EncodeRdata(r)
	if w, err := wm.EncodeRR(r); err != nil {
		return nil
	} else if _, off, err := dns.UnpackRR(w, 0); err != nil || off != len(w) {
		return nil // a record the decoder refuses (an APL item with host bits ...): C01's and C20's business
	}
	all := append(append([]byte{}, rd...), c.Surplus...)
	if len(all) > 65535 || !r.Name.Valid() {
		return nil
	}
	tn := typeName(r.Type)
	kind := "surplus:fixed-extent-type"
	if openEnded(r.Type) {
		kind = "surplus:open-ended-type"
	}
	if len(c.Surplus) == 0 {
		kind = "no-surplus"
	}
	key := append([]byte(fmt.Sprint(r.Type, r.Class, c.Numeric, len(rd), ":")), all...)
	pbt.Note(key, len(c.Surplus) > 0, "type:"+tn, kind)
	if len(all) == 0 {
		return nil // `\# 0`: the RDATA-less form (all-type-codes reads it for every code; no presentation of its own, DESIGN 7.4)
	}
	generic := fmt.Sprintf("\\# %d %s", len(all), hex.EncodeToString(all))
	cls, typ := fmt.Sprintf("CLASS%d", r.Class), fmt.Sprintf("TYPE%d", r.Type)
	if !c.Numeric {
		typ = tn
		if m, ok := map[uint16]string{1: "IN", 3: "CH", 4: "HS", 254: "NONE"}[r.Class]; ok {
			cls = m
		}
	}
	text := fmt.Sprintf("%s %d %s %s %s", wm.EscName(r.Name), r.TTL, cls, typ, generic)
	rr, err := parse(text)
	if err != nil {
		pbt.Class("refused")
		if len(c.Surplus) == 0 {
			return pbt.Errf("%s: the generic form of a well-formed record is rejected: %v\n  text: %s", tn, err, short(text))
		}
		return nil
	}
	h := rr.Header()
	if h.Rrtype != r.Type || h.Class != r.Class || h.Ttl != r.TTL {
		return pbt.Errf("%s: generic form read as type %d class %d ttl %d\n  text: %s", tn, h.Rrtype, h.Class, h.Ttl, short(text))
	}
	buf := make([]byte, len(all)+600)
	off, err := dns.PackRR(rr, buf, 0, nil, false)
	if err != nil {
		return pbt.Errf("%s: the record read from a generic form cannot be packed: %v\n  text: %s", tn, err, short(text))
	}
	_, ref, err := wm.ReadName(buf[:off], 0)
	if err != nil || ref.End+10 > off {
		return pbt.Errf("%s: PackRR of the record read from a generic form gives %s", tn, hx(buf[:off]))
	}
	got := buf[ref.End+10 : off]
	if !bytes.Equal(got, all) {
		what := "other octets"
		if len(got) < len(all) && bytes.Equal(got, all[:len(got)]) {
			what = fmt.Sprintf("the first %d, the last %d are dropped silently", len(got), len(all)-len(got))
		} else if !canonicalRdata(buf[:ref.End], r, all) {
			// The octets spelled are no canonical RDATA of the type (a type bit map with a trailing zero
			// octet, a field cut short that the decoder pads ...) and the library re-encodes what it
			// understood: the decoders' tolerance, the same from the wire (C01 / C20), not this property.
			pbt.Class("accepted-noncanonical-rdata")
			return nil
		}
		return pbt.Errf("%s: the generic form spells %d octets of RDATA, the record that is read has %s\n  text: %s\n  read as: %s\n  octets spelled: %s\n  octets read:    %s",
			tn, len(all), what, short(text), short(rr.String()), hx(all), hx(got))
	}
	pbt.Class("kept-octet-for-octet")
	return nil
}

// canonicalRdata: the independent decoder reads rdata as well-formed, canonically encoded RDATA of r's type.
func canonicalRdata(owner []byte, r wm.Rec, rdata []byte) bool {
	msg := append([]byte{0, 0, 0, 0, 0, 0, 0, 1, 0, 0, 0, 0}, owner...)
	msg = binary.BigEndian.AppendUint16(msg, r.Type)
	msg = binary.BigEndian.AppendUint16(msg, r.Class)
	msg = binary.BigEndian.AppendUint32(msg, r.TTL)
	msg = binary.BigEndian.AppendUint16(msg, uint16(len(rdata)))
	msg = append(msg, rdata...)
	_, err := wm.Decode(msg, nil)
	return err == nil
}

func genSurplus(t *rapid.T) surplusCase {
	all, open := surplusTypes()
	o := &gen.Opts{Level: gen.Presentable, Types: all, MaxBlob: 24, NameGen: longOrShortName}
	r := widen(t, gen.Rec(t, o))
	if !openEnded(r.Type) && pbt.Known(kSurplus) {
		// the listed finding: the octets behind the last field of a fixed-extent type are dropped
		pbt.Excluded(kSurplus)
		r = widen(t, gen.RecOfType(t, rapid.SampledFrom(open).Draw(t, "opentype"), o))
	}
	c := surplusCase{R: r, Numeric: rapid.Bool().Draw(t, "numeric")}
	n := 1
	switch rapid.IntRange(0, 5).Draw(t, "surplusk") {
	case 0:
		n = 0 // the well-formed record alone
	case 1, 2:
	case 3:
		n = 2
	default:
		n = rapid.IntRange(1, 8).Draw(t, "nsurplus")
	}
	for i := 0; i < n; i++ {
		b := gen.Octet(t)
		if l, _ := wm.LayoutOf(r.Type); b >= 0xc0 && len(l) > 0 && l[len(l)-1].K == wm.Names {
			b &= 0x3f // behind a list of names: no compression pointers into the RDATA itself (not this property)
		}
		c.Surplus = append(c.Surplus, b)
	}
	return c
}

func init() {
	pbt.Register(pbt.Sub[surplusCase]{Name: "generic-surplus", Weight: 5, Gen: genSurplus, Check: checkSurplus})
	// the breakers' inputs: `x. IN A \# 5 0102030405` is read as 1.2.3.4, `x. 5 IN TYPE255 \# 3 010203` as an empty ANY
	pbt.Probe(kSurplus, func() error {
		x := wm.MustName("x.")
		if err := checkSurplus(surplusCase{R: wm.Rec{Name: x, Type: wm.TA, Class: 1, TTL: 5, Fields: []wm.Field{{K: wm.IPv4, B: []byte{1, 2, 3, 4}}}}, Surplus: []byte{5}}); err != nil {
			return err
		}
		return checkSurplus(surplusCase{R: wm.Rec{Name: x, Type: wm.TANY, Class: 1, TTL: 5}, Surplus: []byte{1, 2, 3}, Numeric: true})
	})
}
