package c05

import (
	"bytes"
	"encoding/hex"
	"errors"
	"fmt"
	"net"
	"reflect"
	"regexp"
	"strings"
	"time"

	"github.com/miekg/dns"
	"pgregory.net/rapid"

	"verif/harness/gen"
	"verif/harness/pbt"
	wm "verif/harness/wiremodel"
)

func typeName(t uint16) string {
	if s, ok := dns.TypeToString[t]; ok {
		return s
	}
	return fmt.Sprintf("TYPE%d", t)
}

// types without a presentation format (String() is a comment, or the parser refuses the type)
var noText = map[uint16]bool{wm.TOPT: true, wm.TTSIG: true, wm.TTKEY: true, wm.TNULL: true, wm.TANY: true, wm.TNXNAME: true}

func textTypes() []uint16 {
	var out []uint16
	for _, t := range gen.AllTypes {
		if !noText[t] {
			out = append(out, t)
		}
	}
	return out
}

type recCase struct {
	R wm.Rec
	// SkipBareTypeNNN is set by the generator (never by a probe or an enumeration) while the known
	// finding typennn-end-of-line is live and R prints with empty RDATA text: exactly the spelling
	// "TYPEnnn as the last token of the line" is then left out (classes_test.go).
	SkipBareTypeNNN bool `json:",omitempty"`
}

func hx(b []byte) string {
	if len(b) > 100 {
		return fmt.Sprintf("%x…(%d octets)", b[:100], len(b))
	}
	return fmt.Sprintf("%x", b)
}

func short(s string) string {
	if len(s) > 500 {
		return s[:250] + "…" + s[len(s)-200:]
	}
	return s
}

func needsCare(r wm.Rec) bool {
	for _, f := range r.Fields {
		bs := [][]byte{f.B, f.B2}
		bs = append(bs, f.L...)
		for _, n := range append(append([]wm.Name{}, f.NL...), f.N, r.Name) {
			bs = append(bs, n...)
		}
		for _, b := range bs {
			if len(b) == 255 || len(b) == 0 && (f.K == wm.Str) {
				return true
			}
			for _, c := range b {
				if c < '!' || c > '~' || strings.IndexByte(`"\;()@.`, c) >= 0 {
					return true
				}
			}
		}
		switch f.K {
		case wm.U8, wm.U16, wm.U32, wm.U48, wm.U64:
			if f.U == 0 || f.U >= 255 {
				return true
			}
		}
	}
	return false
}

// parse reads one record from text the way a zone file consumer would.
// The record is followed by a sentinel record on the next line: a reader that consumes more (or
// less) than its own line shows up as a damaged or missing sentinel.
const sentinel = "sentinel.c05.\t7\tIN\tA\t192.0.2.7"

func parse(text string) (dns.RR, error) {
	zp := dns.NewZoneParser(strings.NewReader(text+"\n"+sentinel+"\n"), ".", "c05")
	rr, ok := zp.Next()
	if !ok {
		if err := zp.Err(); err != nil {
			return nil, err
		}
		return nil, fmt.Errorf("no record in text")
	}
	s, ok := zp.Next()
	if !ok {
		return nil, fmt.Errorf("the record after this one is lost or rejected: %v", zp.Err())
	}
	if s.String() != sentinel {
		return nil, fmt.Errorf("text denotes more than one record, or damages the record after it (next record read: %s)", s)
	}
	if extra, ok := zp.Next(); ok {
		return nil, fmt.Errorf("text denotes more than one record (third: %s)", extra)
	}
	if err := zp.Err(); err != nil {
		return nil, err
	}
	return rr, nil
}

// parseAlone reads text that is the whole input (one line, nothing behind it).
func parseAlone(text string) (dns.RR, error) {
	zp := dns.NewZoneParser(strings.NewReader(text+"\n"), ".", "c05")
	rr, ok := zp.Next()
	if !ok {
		if err := zp.Err(); err != nil {
			return nil, err
		}
		return nil, fmt.Errorf("no record in text")
	}
	if extra, ok := zp.Next(); ok {
		return nil, fmt.Errorf("text denotes more than one record (second: %s)", extra)
	}
	if err := zp.Err(); err != nil {
		return nil, err
	}
	return rr, nil
}

func wireOf(rr dns.RR) ([]byte, error) {
	r, err := wm.FromLib(rr, false)
	if err != nil {
		return nil, err
	}
	w, err := wm.EncodeRR(r)
	if err != nil {
		return nil, err
	}
	// the octets are what the library's packer makes of the record, not only what its fields say
	buf := make([]byte, len(w)+64)
	off, perr := dns.PackRR(rr, buf, 0, nil, false)
	if perr != nil {
		return nil, fmt.Errorf("PackRR of the record read from text fails: %v", perr)
	}
	if !bytes.Equal(buf[:off], w) {
		return nil, fmt.Errorf("PackRR of the record read from text gives %s, its fields say %s", hx(buf[:off]), hx(w))
	}
	return w, nil
}

var otherZones = []*time.Location{time.FixedZone("east", 5*3600+1800), time.FixedZone("west", -8*3600)}

func checkRec(c recCase) error {
	r := c.R
	w, err := wm.EncodeRR(r)
	if err != nil {
		return nil
	}
	rd := wm.EncodeRdata(r)
	tn := typeName(r.Type)
	pbt.Note(w, len(rd) > 0 && needsCare(r), "type:"+tn)
	pbt.Class(valueClasses(r)...)
	born, off, err := dns.UnpackRR(w, 0)
	if err != nil || off != len(w) {
		return nil // C01's business
	}
	text := born.String()
	if len(rd) > 0 && needsCare(r) {
		pbt.Sample("type:"+tn, short(text))
	}
	// the text does not depend on where the process runs (master-file times are UTC)
	saved := time.Local
	for _, z := range otherZones {
		time.Local = z
		other := born.String()
		time.Local = saved
		if other != text {
			return pbt.Errf("String() of a %s record depends on the local time zone of the process (%s):\n  %s\n  %s", tn, z, short(text), short(other))
		}
	}
	// (1) re-readable and faithful
	r2, err := parse(text)
	if err != nil {
		return pbt.Errf("String() of a wire-born %s record is not accepted by the parser: %v\n  text: %s\n  wire: %s", tn, err, short(text), hx(w))
	}
	w2, err := wireOf(r2)
	if err != nil {
		return pbt.Errf("%s: re-parsed record cannot be encoded: %v\n  text: %s", tn, err, short(text))
	}
	if !bytes.Equal(w2, w) {
		return pbt.Errf("%s: String() -> parse changes the record\n  text: %s\n  wire before: %s\n  wire after:  %s", tn, short(text), hx(w), hx(w2))
	}
	// text-born record printed and read again
	text2 := r2.String()
	r3, err := parse(text2)
	if err != nil {
		return pbt.Errf("String() of a text-born %s record is not accepted by the parser: %v\n  text: %s", tn, err, short(text2))
	}
	if w3, err := wireOf(r3); err != nil || !bytes.Equal(w3, w) {
		return pbt.Errf("%s: second print/parse cycle changes the record\n  text: %s", tn, short(text2))
	}
	// (2) alternative spellings of the header and the RFC 3597 generic RDATA form
	fields := strings.SplitN(text, "\t", 5)
	if len(fields) < 4 {
		return pbt.Errf("%s: String() does not have the owner/TTL/class/type/RDATA layout: %s", tn, short(text))
	}
	rdataText := ""
	if len(fields) == 5 {
		rdataText = fields[4]
	}
	generic := fmt.Sprintf("\\# %d %s", len(rd), hex.EncodeToString(rd))
	if len(rd) == 0 {
		generic = "\\# 0"
	}
	type alt struct {
		name, text string
		alone      bool // read without a record behind it
	}
	alts := []alt{
		{"TYPEnnn", fmt.Sprintf("%s\t%s\t%s\tTYPE%d\t%s", fields[0], fields[1], fields[2], r.Type, generic), false},
		{"CLASSnnn", fmt.Sprintf("%s\t%s\tCLASS%d\t%s\t%s", fields[0], fields[1], r.Class, fields[3], rdataText), false},
		{"mnemonic+generic-rdata", fmt.Sprintf("%s\t%s\t%s\t%s\t%s", fields[0], fields[1], fields[2], fields[3], generic), false},
		{"all-numeric", fmt.Sprintf("%s %s CLASS%d TYPE%d %s", fields[0], fields[1], r.Class, r.Type, generic), false},
	}
	// TYPEnnn in front of the type's own RDATA text (RFC 3597 section 5: "e.example. CLASS1 TYPE1 10.0.0.2").
	if rdataText != "" {
		alts = append(alts, alt{"TYPEnnn+native-rdata", fmt.Sprintf("%s\t%s\t%s\tTYPE%d\t%s", fields[0], fields[1], fields[2], r.Type, rdataText), false},
			alt{"CLASSnnn+TYPEnnn+native-rdata", fmt.Sprintf("%s %s CLASS%d TYPE%d %s", fields[0], fields[1], r.Class, r.Type, rdataText), false})
	} else {
		// A record whose RDATA text is empty (an APL record without items, RFC 3123 section 4) ends
		// with the type token; only String() puts a blank behind it. The library reads such a line
		// at the end of the input only (in front of another line it wants that blank - a matter of
		// zone files, C06), so these spellings are read alone.
		pbt.Class("class:empty-rdata-text")
		alts = append(alts, alt{"TYPEnnn+native-rdata", fmt.Sprintf("%s\t%s\t%s\tTYPE%d\t", fields[0], fields[1], fields[2], r.Type), false},
			alt{"mnemonic-ends-input", fmt.Sprintf("%s\t%s\t%s\t%s", fields[0], fields[1], fields[2], fields[3]), true})
		if !c.SkipBareTypeNNN {
			alts = append(alts, alt{"TYPEnnn-ends-input", fmt.Sprintf("%s\t%s\t%s\tTYPE%d", fields[0], fields[1], fields[2], r.Type), true},
				alt{"all-numeric-ends-input", fmt.Sprintf("%s %s CLASS%d TYPE%d", fields[0], fields[1], r.Class, r.Type), true})
		}
	}
	// the generic form as the library itself writes it (conversion into a value that was used before)
	if _, known := wm.Layout[r.Type]; known && !r.NoRdata && r.Type != wm.TOPT && r.Type != wm.TPrivate {
		g := new(dns.RFC3597)
		if err := g.ToRFC3597(&dns.A{Hdr: dns.RR_Header{Name: "prev.example.", Rrtype: dns.TypeA, Class: 1, Ttl: 9}, A: net.IP{192, 0, 2, 1}}); err == nil {
			if err := g.ToRFC3597(born); err != nil {
				return pbt.Errf("%s: ToRFC3597 fails: %v", tn, err)
			}
			alts = append(alts, alt{"ToRFC3597().String()", g.String(), false})
		}
	}
	for _, a := range alts {
		ra, err := parse(a.text)
		if a.alone {
			ra, err = parseAlone(a.text)
		}
		if err != nil {
			return pbt.Errf("%s: alternative spelling %q is rejected: %v\n  text: %s", tn, a.name, err, short(a.text))
		}
		wa, err := wireOf(ra)
		if err != nil || !bytes.Equal(wa, w) {
			return pbt.Errf("%s: alternative spelling %q denotes a different record (err=%v)\n  text: %s\n  want %s\n  got  %s", tn, a.name, err, short(a.text), hx(w), hx(wa))
		}
	}
	return nil
}

// names: mostly short, but one in four with labels up to 63 octets / totals up to 255 octets, so
// that the length accounting of the text reader is exercised together with escapes
func longOrShortName(t *rapid.T) wm.Name {
	if rapid.IntRange(0, 3).Draw(t, "longname") == 0 {
		return gen.Name(t, gen.NameOpts{MaxLabs: 6, Long: true})
	}
	return gen.Name(t, gen.NameOpts{MaxLabs: 5, MaxLabel: 10})
}

func genRec(t *rapid.T) recCase {
	o := &gen.Opts{Level: gen.Presentable, Types: textTypes(), Unknown: true, MaxBlob: 40, BigBlob: true}
	o.Avoid = map[string]bool{"octet-over-255-text": pbt.Known("octet-over-255-text")}
	o.Excluded = pbt.Excluded
	o.NameGen = longOrShortName
	r := gen.Rec(t, o)
	if r.Type == wm.TPrivate {
		r = gen.RecOfType(t, wm.TA, o)
	}
	c := recCase{R: widen(t, r)}
	if emptyRdataText(c.R) && pbt.Known(kTypeEOL) {
		pbt.Excluded(kTypeEOL)
		c.SkipBareTypeNNN = true
	}
	return c
}

// eachLongToken: the longest single tokens a record's text can contain. An SvcParam value is
// printed as ONE quoted string with \DDD for every unprintable octet (four characters per octet,
// up to ~260000 characters), key material as one base64 token, generic RDATA as one hex token of
// up to 131070 characters.
func eachLongToken(emit func(recCase)) {
	sizes := []int{255, 256, 4096, 16384, 32767, 32768, 32769, 45000, 65000}
	for _, typ := range []uint16{wm.TSVCB, wm.THTTPS} {
		for _, key := range []uint16{65280, 7, 5, 1, 4, 6} {
			for _, n := range sizes {
				for _, fill := range []byte{0x00, 0xff, 'a', '"', '\\', ',', ' '} {
					var d []byte
					switch key {
					case 1: // alpn: a list of ids of at most 255 octets each
						for left := n; left > 1; {
							k := min(left-1, 255)
							d = append(append(d, byte(k)), bytes.Repeat([]byte{fill}, k)...)
							left -= 1 + k
						}
					case 4:
						d = bytes.Repeat([]byte{fill}, n/4*4)
					case 6:
						d = bytes.Repeat([]byte{fill, 1}, n/16*8)
					default:
						d = bytes.Repeat([]byte{fill}, n)
					}
					if (key == 4 || key == 6) && fill != 0x00 && fill != 'a' {
						continue // address lists: the fill only changes the addresses
					}
					emit(recCase{R: wm.Rec{Name: wm.MustName("long.example."), Type: typ, Class: 1, TTL: 1, Fields: []wm.Field{
						{K: wm.U16, U: 1}, {K: wm.NameU, N: wm.Name{}}, {K: wm.Params, Opts: []wm.Option{{Code: key, Data: d}}}}}})
				}
			}
		}
	}
	for _, n := range []int{32767, 32768, 32769, 49151, 49152, 65000, 65535} {
		for _, typ := range []uint16{65281, wm.TOPENPGPKEY, wm.TDHCID} {
			emit(recCase{R: wm.Rec{Name: wm.MustName("long.example."), Type: typ, Class: 1, TTL: 1, Fields: []wm.Field{{K: wm.Rest, B: bytes.Repeat([]byte{0xA7}, n)}}}})
		}
		emit(recCase{R: wm.Rec{Name: wm.MustName("long.example."), Type: wm.TDNSKEY, Class: 1, TTL: 1, Fields: []wm.Field{
			{K: wm.U16, U: 257}, {K: wm.U8, U: 3}, {K: wm.U8, U: 8}, {K: wm.Rest, B: bytes.Repeat([]byte{0xA7}, n-4)}}}})
		emit(recCase{R: wm.Rec{Name: wm.MustName("long.example."), Type: wm.TTLSA, Class: 1, TTL: 1, Fields: []wm.Field{
			{K: wm.U8, U: 3}, {K: wm.U8, U: 1}, {K: wm.U8, U: 1}, {K: wm.Rest, B: bytes.Repeat([]byte{0xA7}, n-3)}}}})
	}
}

func init() {
	pbt.RegisterEnum(pbt.Enum[recCase]{Name: "longest-tokens", Exhaustive: true, Each: eachLongToken, Check: checkRec})
	pbt.Register(pbt.Sub[recCase]{Name: "text-roundtrip", Weight: 30, Gen: genRec, Check: checkRec})
}

// ---------------------------------------------------------------------------------------------
// (3) an independent reader understands the library's text; the library understands an
// independent writer's text

type plainCase struct {
	R    wm.Rec
	Text string // independent rendering of R with generated spelling choices
}

func isPlainRec(r wm.Rec) bool {
	_, ok := plainTypes[r.Type]
	return ok && !r.NoRdata
}

func checkPlain(c plainCase) error {
	r := c.R
	if !isPlainRec(r) {
		return nil
	}
	w, err := wm.EncodeRR(r)
	if err != nil {
		return nil
	}
	tn := typeName(r.Type)
	pbt.Note(append([]byte(c.Text), w...), needsCare(r), "type:"+tn)
	pbt.Class(valueClasses(r)...)
	pbt.Sample("independent-text:"+tn, short(c.Text))
	// library reads the independent text
	rr, err := parse(c.Text)
	if err != nil {
		return pbt.Errf("%s: RFC 1035 text written by an independent writer is rejected: %v\n  text: %s\n  wire: %s", tn, err, short(c.Text), hx(w))
	}
	w2, err := wireOf(rr)
	if err != nil || !bytes.Equal(w2, w) {
		return pbt.Errf("%s: independent text is read as a different record (err=%v)\n  text: %s\n  want %s\n  got  %s", tn, err, short(c.Text), hx(w), hx(w2))
	}
	// the independent reader reads the library's text
	born, _, err := dns.UnpackRR(w, 0)
	if err != nil {
		return nil
	}
	text := born.String()
	w3, err := readRecord(text)
	if errors.Is(err, errMnemonic) {
		pbt.Class("reader-table-lacks-mnemonic")
		return nil
	}
	if err != nil {
		return pbt.Errf("%s: an independent RFC 1035 reader cannot read String(): %v\n  text: %s", tn, err, short(text))
	}
	if !bytes.Equal(w3, w) {
		return pbt.Errf("%s: an independent RFC 1035 reader reads String() as a different record\n  text: %s\n  want %s\n  got  %s", tn, short(text), hx(w), hx(w3))
	}
	return nil
}

func plainTypeList() []uint16 {
	var out []uint16
	for _, t := range gen.AllTypes {
		if _, ok := plainTypes[t]; ok {
			out = append(out, t)
		}
	}
	return out
}

func genPlain(t *rapid.T) plainCase {
	o := &gen.Opts{Level: gen.Presentable, Types: plainTypeList(), MaxBlob: 40, NameGen: longOrShortName}
	r := widen(t, gen.Rec(t, o))
	if r.Type == wm.TCERT && !r.NoRdata && len(r.Fields) > 0 && r.Fields[0].U == 4 && pbt.Known(kCert4) {
		pbt.Excluded(kCert4)
		fields := append([]wm.Field{}, r.Fields...)
		fields[0].U = 5
		r.Fields = fields
	}
	return plainCase{R: r, Text: writeRecord(t, r)}
}

// ---------------------------------------------------------------------------------------------
// every type and class code in the RFC 3597 generic spelling

type codeCase struct {
	Type  uint16
	Class uint16
}

func checkCode(c codeCase) error {
	_, known := wm.Layout[c.Type]
	rd := []byte{1, 2, 3}
	if known || c.Type == wm.TOPT {
		rd = nil // RDATA of a known type has to fit its layout; the empty RDATA always parses
	}
	pbt.Note([]byte(fmt.Sprint(c.Type, c.Class)), true)
	text := fmt.Sprintf("a.example. 300 CLASS%d TYPE%d \\# %d %s", c.Class, c.Type, len(rd), hex.EncodeToString(rd))
	rr, err := parse(text)
	if err != nil {
		return pbt.Errf("generic spelling rejected: %v\n  text: %s", err, text)
	}
	h := rr.Header()
	if h.Rrtype != c.Type || h.Class != c.Class || h.Ttl != 300 {
		return pbt.Errf("generic spelling read as type %d class %d ttl %d\n  text: %s", h.Rrtype, h.Class, h.Ttl, text)
	}
	// RFC 3597 section 5: the stated length has to match the data
	if !known && c.Type != wm.TOPT {
		for _, wrong := range []int{len(rd) + 1, len(rd) - 1, 0} {
			bad := fmt.Sprintf("a.example. 300 CLASS%d TYPE%d \\# %d %s", c.Class, c.Type, wrong, hex.EncodeToString(rd))
			if x, err := parse(bad); err == nil {
				return pbt.Errf("generic RDATA whose stated length (%d) disagrees with its %d octets is accepted as %s\n  text: %s", wrong, len(rd), x, bad)
			}
		}
	}
	if noText[c.Type] || known {
		return nil // known types without RDATA have no presentation; their text is the round-trip sub-check's business
	}
	again, err := parse(rr.String())
	if err != nil {
		return pbt.Errf("TYPE%d CLASS%d prints as text the parser rejects: %v\n  text: %s", c.Type, c.Class, err, rr.String())
	}
	h2 := again.Header()
	if h2.Rrtype != c.Type || h2.Class != c.Class || h2.Ttl != 300 {
		return pbt.Errf("TYPE%d CLASS%d prints as %q, which reads back as type %d class %d", c.Type, c.Class, rr.String(), h2.Rrtype, h2.Class)
	}
	w1, e1 := wireOf(rr)
	w2, e2 := wireOf(again)
	if e1 != nil || e2 != nil || !bytes.Equal(w1, w2) {
		return pbt.Errf("TYPE%d CLASS%d: print/parse changes the record: %q", c.Type, c.Class, rr.String())
	}
	return nil
}

func init() {
	pbt.Register(pbt.Sub[plainCase]{Name: "independent-reader-writer", Weight: 20, Gen: genPlain, Check: checkPlain})
	pbt.RegisterEnum(pbt.Enum[codeCase]{Name: "all-type-codes", Exhaustive: true, Each: func(emit func(codeCase)) {
		for t := 0; t < 65536; t++ {
			emit(codeCase{Type: uint16(t), Class: 1})
		}
	}, Check: checkCode})
	pbt.RegisterEnum(pbt.Enum[codeCase]{Name: "all-class-codes", Exhaustive: true, Each: func(emit func(codeCase)) {
		for c := 0; c < 65536; c++ {
			emit(codeCase{Type: 1, Class: uint16(c)})
			if c%257 == 0 {
				emit(codeCase{Type: 65280 + uint16(c%200), Class: uint16(c)})
			}
		}
	}, Check: checkCode})
}

// ---------------------------------------------------------------------------------------------
// text-born records: whatever text the parser accepts must print to text that reads back to the
// same record

type textCase struct {
	Text string
}

func libWire(rr dns.RR) ([]byte, error) {
	if w, err := wireOf(rr); err == nil {
		return w, nil
	}
	buf := make([]byte, 70000)
	off, err := dns.PackRR(rr, buf, 0, nil, false)
	return buf[:off], err
}

func checkText(c textCase) error {
	if strings.Contains(strings.ToUpper(c.Text), "$INCLUDE") || strings.Contains(strings.ToUpper(c.Text), "$GENERATE") {
		return nil
	}
	rr, err := parse(c.Text)
	accepted := err == nil
	var classes []string
	if accepted {
		classes = append(classes, "accepted", "type:"+typeName(rr.Header().Rrtype))
	} else {
		classes = append(classes, "rejected")
	}
	pbt.Note([]byte(c.Text), accepted, classes...)
	if !accepted || noText[rr.Header().Rrtype] {
		return nil
	}
	if _, isPriv := rr.(*dns.PrivateRR); isPriv {
		return nil
	}
	w1, err := libWire(rr)
	if err != nil {
		pbt.Class("accepted-but-unpackable")
		return nil // e.g. \DDD > 255 or an over-long string: accepted by the parser, refused by the packer; not this property
	}
	// outside the domain: \DDD above 255 (the library wraps it; RFC 1035 has no such octet)
	if dddOver255.MatchString(c.Text) {
		pbt.Excluded("ddd-above-255")
		return nil
	}
	// the parser accepted the text, but is the result a well-formed record at all? (truncated
	// RDATA smuggled in through the \# form is accepted by the lenient RDATA decoders)
	if !wellFormed(w1) {
		pbt.Class("accepted-malformed-rdata")
		return nil
	}
	// generic \# RDATA of a *known* type after mutation: arbitrary field values, mostly outside what
	// the type's presentation format can express (the unmutated generic form is checked in text-roundtrip)
	if _, known := wm.Layout[rr.Header().Rrtype]; known && strings.Contains(c.Text, `\#`) {
		pbt.Class("generic-form-of-known-type")
		return nil
	}
	if (blankInName(rr) || gluedQuote(c.Text)) && pbt.Known("separator-token-unchecked") {
		pbt.Excluded("separator-token-unchecked")
		return nil
	}
	// a header-only line (dynamic-update form) has no presentation of its own
	if items, err := tokenize(c.Text); err == nil && len(items) > 0 {
		last := strings.ToUpper(items[len(items)-1].text)
		if last == strings.ToUpper(typeName(rr.Header().Rrtype)) || last == fmt.Sprintf("TYPE%d", rr.Header().Rrtype) {
			pbt.Class("rdata-less")
			return nil
		}
	}
	// (same, recognised from the wire form)
	if l, _ := wm.LayoutOf(rr.Header().Rrtype); !wm.EmptyRdataIsValue(l) {
		if _, ref, err := wm.ReadName(w1, 0); err == nil && len(w1) == ref.End+10 {
			pbt.Class("rdata-less")
			return nil
		}
	}
	text := rr.String()
	rr2, err := parse(text)
	if err != nil {
		return pbt.Errf("text-born %s record prints as text the parser rejects: %v\n  input: %s\n  printed: %s", typeName(rr.Header().Rrtype), err, short(c.Text), short(text))
	}
	w2, err := libWire(rr2)
	if err != nil || !bytes.Equal(w1, w2) {
		return pbt.Errf("text-born %s record changes when printed and read again (err=%v)\n  input: %s\n  printed: %s\n  before %s\n  after  %s", typeName(rr.Header().Rrtype), err, short(c.Text), short(text), hx(w1), hx(w2))
	}
	return nil
}

var textNoise = []string{`"`, `\`, `;`, `(`, `)`, ` `, "\t", `\"`, `\\`, `\000`, `\255`, `\256`, `\1`, "@", ".", "..", "-", "0", "9999999999", "a", "A", "=", ",", `\,`, "TYPE1", "CLASS1", `\#`, "1h", "IN", "*"}

func genText(t *rapid.T) textCase {
	o := &gen.Opts{Level: gen.Presentable, Types: textTypes(), Unknown: true, MaxBlob: 24}
	r := widen(t, gen.Rec(t, o))
	var text string
	if _, ok := plainTypes[r.Type]; ok && !r.NoRdata && rapid.Bool().Draw(t, "independent") {
		text = writeRecord(t, r)
	} else {
		rr, err := wm.ToLib(r)
		if err != nil {
			return textCase{Text: ". 1 IN A 1.2.3.4"}
		}
		text = rr.String()
	}
	n := rapid.IntRange(0, 3).Draw(t, "nmut")
	for i := 0; i < n; i++ {
		if len(text) == 0 {
			break
		}
		pos := rapid.IntRange(0, len(text)).Draw(t, "pos")
		switch rapid.IntRange(0, 3).Draw(t, "mut") {
		case 0:
			text = text[:pos] + rapid.SampledFrom(textNoise).Draw(t, "ins") + text[pos:]
		case 1:
			e := min(len(text), pos+rapid.IntRange(1, 4).Draw(t, "del"))
			text = text[:pos] + text[e:]
		case 2:
			e := min(len(text), pos+1)
			text = text[:pos] + rapid.SampledFrom(textNoise).Draw(t, "rep") + text[e:]
		default:
			e := min(len(text), pos+rapid.IntRange(1, 12).Draw(t, "dup"))
			text = text[:e] + text[pos:e] + text[e:]
		}
	}
	return textCase{Text: text}
}

func init() {
	pbt.Register(pbt.Sub[textCase]{Name: "text-born", Weight: 30, Gen: genText, Check: checkText})
}

var dddOver255 = regexp.MustCompile(`\\(2[6-9][0-9]|25[6-9]|[3-9][0-9][0-9])`)

// wellFormed: the single record w decodes strictly by its RFC layout.
func wellFormed(w []byte) bool {
	msg := append([]byte{0, 0, 0, 0, 0, 0, 0, 1, 0, 0, 0, 0}, w...)
	_, err := wm.Decode(msg, nil)
	return err == nil || err == wm.ErrNonCanonical
}

// blankInName: some domain-name field of rr holds a raw blank or control character, i.e. text
// that is not a presentation-format name at all.
func blankInName(rr dns.RR) bool {
	bad := func(s string) bool {
		for i := 0; i < len(s); i++ {
			if s[i] <= ' ' || s[i] >= 0x7f {
				return true
			}
		}
		return false
	}
	if bad(rr.Header().Name) {
		return true
	}
	layout, _ := wm.LayoutOf(rr.Header().Rrtype)
	v := reflect.ValueOf(rr).Elem()
	for _, sp := range layout {
		switch sp.K {
		case wm.NameC, wm.NameU:
			if f := v.FieldByName(sp.Go); f.IsValid() && f.Kind() == reflect.String && bad(f.String()) {
				return true
			}
		case wm.Names:
			if f := v.FieldByName(sp.Go); f.IsValid() {
				for i := 0; i < f.Len(); i++ {
					if bad(f.Index(i).String()) {
						return true
					}
				}
			}
		case wm.GW:
			if f := v.FieldByName("GatewayHost"); f.IsValid() && bad(f.String()) {
				return true
			}
		}
	}
	return false
}

// gluedQuote reports whether a quoted string in the text touches a neighbouring token without a
// blank between them (`0" a "v`, `"A"x.`). The per-type parsers skip the token after a field
// without looking at it, so the glued neighbour is taken for the separator (known finding
// separator-token-unchecked).
func gluedQuote(text string) bool {
	sep := func(b byte) bool { return b == ' ' || b == '\t' || b == '\n' || b == '\r' || b == '(' || b == ')' }
	in := false
	for i := 0; i < len(text); i++ {
		switch b := text[i]; {
		case b == '\\':
			i++
		case b == ';' && !in:
			for i < len(text) && text[i] != '\n' {
				i++
			}
		case b == '"' && !in:
			if i > 0 && !sep(text[i-1]) {
				return true
			}
			in = true
		case b == '"':
			if i+1 < len(text) && !sep(text[i+1]) && text[i+1] != ';' {
				return true
			}
			in = false
		}
	}
	return false
}

func init() {
	pbt.Probe("octet-over-255-text", func() error {
		return checkRec(recCase{R: wm.Rec{Name: wm.MustName("a."), Type: wm.TURI, Class: 1, TTL: 5, Fields: []wm.Field{{K: wm.U16, U: 1}, {K: wm.U16, U: 1}, {K: wm.Rest, B: bytes.Repeat([]byte("u"), 256)}}}})
	})
	pbt.Probe("separator-token-unchecked", func() error {
		rr, err := parse(`a. 0 IN NAPTR 0 0 "" "." "A"x.`)
		if err == nil && blankInName(rr) {
			return pbt.Errf("accepted with Replacement=%q", rr.(*dns.NAPTR).Replacement)
		}
		rr, err = parse(`a. 0 IN CAA 0" a "v`)
		if err == nil && rr.(*dns.CAA).Tag == " a " {
			return pbt.Errf("accepted with Tag=%q", rr.(*dns.CAA).Tag)
		}
		return nil
	})
}
