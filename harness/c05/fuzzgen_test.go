package c05

import (
	"testing"

	"verif/harness/pbt"
)

// FuzzGen: coverage-guided search over the generators of this package (see pbt.FuzzGen).
// text-born is left out: its cases are texts, and FuzzTextBorn mutates those directly.
func FuzzGen(f *testing.F) { pbt.FuzzGen(f, "text-born") }
