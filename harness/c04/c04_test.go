package c04

import (
	"bytes"
	"fmt"

	"github.com/miekg/dns"
	"pgregory.net/rapid"

	"verif/harness/gen"
	"verif/harness/pbt"
	wm "verif/harness/wiremodel"
)

type msgCase struct {
	M     wm.Msg
	Spell uint64 `json:",omitempty"` // spelling of the names handed to the library (0: canonical)
}

func hexdiff(a, b []byte) string {
	i := 0
	for i < len(a) && i < len(b) && a[i] == b[i] {
		i++
	}
	lo := max(i-8, 0)
	return fmt.Sprintf("first difference at octet %d (lengths %d vs %d): …%x vs …%x", i, len(a), len(b), a[lo:min(i+24, len(a))], b[lo:min(i+24, len(b))])
}

func typeName(t uint16) string {
	if s, ok := dns.TypeToString[t]; ok {
		return s
	}
	return fmt.Sprintf("TYPE%d", t)
}

func checkMsg(c msgCase) error {
	m := c.M
	pu, err := wm.Encode(m)
	if err != nil || len(pu) > 400000 {
		return nil // unrepresentable messages are C01's business
	}
	restore := wm.Spelling(c.Spell)
	lib, err := wm.MsgToLib(m, true)
	restore()
	if err != nil {
		return nil
	}
	if c.Spell != 0 {
		pbt.Class("names-respelled")
	}
	pc, err := lib.Pack()
	if err != nil {
		return pbt.Errf("Pack with compression failed: %v", err)
	}
	// the same octets when the caller supplies a buffer that only just holds the compressed form
	if pb, err := lib.PackBuffer(make([]byte, len(pc)+int(m.ID%14))); err != nil || !bytes.Equal(pb, pc) {
		return pbt.Errf("PackBuffer with compression into a buffer of %d octets (compressed size %d): err=%v, same octets as Pack: %v", len(pc)+int(m.ID%14), len(pc), err, bytes.Equal(pb, pc))
	}
	lib.Compress = false
	pun, err := lib.Pack()
	if err != nil {
		return pbt.Errf("Pack without compression failed: %v", err)
	}
	// (2) never longer
	if len(pc) > len(pun) {
		return pbt.Errf("compressed form is longer: %d > %d octets", len(pc), len(pun))
	}
	// (1) transparent: the harness's own pointer-following decoder reads the same message
	var tr wm.Trace
	mc, err := wm.Decode(pc, &tr)
	if err != nil {
		return pbt.Errf("compressed image is not a valid message for an independent decoder: %v", err)
	}
	wc, err := wm.Encode(mc)
	if err != nil {
		return pbt.Errf("decoded compressed image has no wire form: %v", err)
	}
	if !bytes.Equal(wc, pu) {
		return pbt.Errf("compressed image decodes to a different message (names are compared octet for octet, case included): %s", hexdiff(wc, pu))
	}
	// (3) every pointer targets an earlier label start below 16384; (4) pointers inside RDATA only for RFC 1035 types
	labelStarts := map[int]bool{}
	nptr, rdataPtr, caseVariant := 0, 0, false
	var classes []string
	for _, nr := range tr.Names {
		for _, p := range nr.Ptrs {
			nptr++
			if p.Target >= p.At {
				return pbt.Errf("pointer at %d targets %d, not an earlier offset", p.At, p.Target)
			}
			if p.Target >= 16384 {
				return pbt.Errf("pointer at %d targets %d >= 16384", p.At, p.Target)
			}
			if !labelStarts[p.Target] {
				return pbt.Errf("pointer at %d targets %d, which is not the start of a label of an earlier name of the message", p.At, p.Target)
			}
			own := p.At >= nr.Start && p.At < nr.End
			if own && nr.Ctx == "rdata" {
				rdataPtr++
				if !wm.RFC1035Compressible[nr.RRType] {
					return pbt.Errf("name in the RDATA of %s (offset %d) is compressed; only RFC 1035 types may be (RFC 3597 section 4)", typeName(nr.RRType), nr.Start)
				}
				classes = append(classes, "rdata-ptr:"+typeName(nr.RRType))
			}
		}
		for _, l := range nr.Labels {
			labelStarts[l] = true
		}
	}
	// classes for the evidence
	seen := map[string]string{}
	for _, nr := range tr.Names {
		for i := range nr.Name {
			k := string(wm.EncodeName(wm.Name(nr.Name[i:]).Lower()))
			exact := string(wm.EncodeName(nr.Name[i:]))
			if prev, ok := seen[k]; ok && prev != exact {
				caseVariant = true
			}
			seen[k] = exact
		}
	}
	if nptr > 0 {
		classes = append(classes, "has-pointer")
	}
	if caseVariant {
		classes = append(classes, "case-variant-suffix")
	}
	if len(pun) > 16384 {
		classes = append(classes, "beyond-16384")
	}
	if len(m.Q) > 1 {
		classes = append(classes, "multi-question")
	}
	if rdataPtr > 0 {
		classes = append(classes, "pointer-in-rdata")
	}
	pbt.Note(pc, nptr > 0, classes...)
	if nptr > 0 && len(pc) < 300 {
		pbt.Sample("compressed", fmt.Sprintf("%x", pc))
	}

	// (5) compressed names are accepted on input for every type
	in, err := wm.EncodeCompressed(m, true)
	if err != nil {
		return nil
	}
	var u dns.Msg
	if err := u.Unpack(in); err != nil {
		return pbt.Errf("Unpack rejects a message whose RDATA names are compressed: %v (image %s)", err, hx(in))
	}
	m2, err := wm.MsgFromLib(&u, true)
	if err != nil {
		return pbt.Errf("unpacked (input-compressed) message cannot be read back: %v", err)
	}
	w2, err := wm.Encode(m2)
	if err != nil || !bytes.Equal(w2, pu) {
		return pbt.Errf("message with compressed RDATA names unpacks to a different message: %s", hexdiff(w2, pu))
	}
	return nil
}

func hx(b []byte) string {
	if len(b) > 160 {
		return fmt.Sprintf("%x…(%d octets)", b[:160], len(b))
	}
	return fmt.Sprintf("%x", b)
}

func genMsg(t *rapid.T) msgCase {
	mo := &gen.MsgOpts{Share: true, MaxQ: 3, MaxRecs: 5}
	mo.Avoid = map[string]bool{}
	mo.Excluded = pbt.Excluded
	mo.Unknown = true
	if rapid.IntRange(0, 2).Draw(t, "rfc1035only") == 0 {
		mo.Types = []uint16{wm.TNS, wm.TMD, wm.TMF, wm.TCNAME, wm.TSOA, wm.TMB, wm.TMG, wm.TMR, wm.TPTR, wm.TMINFO, wm.TMX,
			wm.TSRV, wm.TDNAME, wm.TRP, wm.TAFSDB, wm.TKX, wm.TNAPTR, wm.TRRSIG, wm.TNSEC, wm.THIP, wm.TSVCB, wm.TTALINK, wm.TPX, wm.TLP, wm.TRT, wm.TNSAPPTR, wm.TIPSECKEY, wm.TAMTRELAY, wm.TTKEY, wm.TTSIG, wm.TSIG, wm.TNXT, wm.THTTPS}
	}
	m := gen.Msg(t, mo)
	// straddle the 16384-octet pointer limit: a filler record puts the following names right
	// below / at / above offset 16383
	fillEvery := 12
	if pbt.Thorough() {
		fillEvery = 5
	}
	if rapid.IntRange(0, fillEvery).Draw(t, "filler") == 0 {
		pre := 12
		for _, q := range m.Q {
			pre += q.Name.WireLen() + 4
		}
		owner := wm.Name{[]byte("fill")}
		hdr := owner.WireLen() + 10
		delta := rapid.IntRange(-40, 60).Draw(t, "delta")
		n := 16384 - pre - hdr - delta
		if n > 0 {
			filler := wm.Rec{Name: owner, Type: wm.TNULL, Class: 1, Fields: []wm.Field{{K: wm.Rest, B: bytes.Repeat([]byte{0xAA}, n)}}}
			m.An = append([]wm.Rec{filler}, m.An...)
		}
	}
	// ... and the 16-bit marks: names first written around offsets 65536 and 131072 and used again
	// later (Pack has no size limit; offsets are ints, pointers 14 bits)
	if rapid.IntRange(0, 12*fillEvery).Draw(t, "filler64k") == 0 {
		pre := 12
		for _, q := range m.Q {
			pre += q.Name.WireLen() + 4
		}
		owner := wm.Name{[]byte("fill")}
		hdr := owner.WireLen() + 10
		base := rapid.SampledFrom([]int{65536, 65536, 131072, 81920}).Draw(t, "mark")
		delta := rapid.IntRange(-40, 60).Draw(t, "delta64k")
		left := base - pre - hdr - delta
		var fillers []wm.Rec
		for left > 0 {
			n := min(left, 60000)
			fillers = append(fillers, wm.Rec{Name: owner, Type: wm.TNULL, Class: 1, Fields: []wm.Field{{K: wm.Rest, B: bytes.Repeat([]byte{0xAB}, n)}}})
			left -= n + hdr
		}
		// the records behind the mark introduce new names and use them again
		var reuse []wm.Rec
		for _, r := range m.An {
			reuse = append(reuse, wm.Rec{Name: r.Name.Clone(), Type: wm.TNS, Class: 1, TTL: 1, Fields: []wm.Field{{K: wm.NameC, N: r.Name.Clone()}}})
		}
		m.An = append(fillers, m.An...)
		m.Ns = append(m.Ns, reuse...)
	}
	c := msgCase{M: m}
	if rapid.IntRange(0, 2).Draw(t, "respell") == 0 {
		c.Spell = rapid.Uint64().Draw(t, "spell")
	}
	return c
}

func init() {
	pbt.Register(pbt.Sub[msgCase]{Name: "compression", Weight: 10, Gen: genMsg, Check: checkMsg})
}
