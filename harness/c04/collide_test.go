package c04

import (
	"fmt"
	"hash/crc32"
	"hash/fnv"
	"sync"

	"verif/harness/pbt"
	wm "verif/harness/wiremodel"
)

// Names whose presentation form (and therefore every map key derived from it) collides under the
// common 32-bit string hashes. A compression table keyed by a digest of the name instead of the
// name would hand out a pointer to the wrong name for exactly such pairs - and for nothing else,
// so they are searched for here (birthday search over ordinary host names, once per process)
// rather than waited for.

var (
	collideOnce  sync.Once
	collidePairs [][2]string
)

func hashers() map[string]func(string) uint32 {
	return map[string]func(string) uint32{
		"fnv1a":  func(s string) uint32 { h := fnv.New32a(); h.Write([]byte(s)); return h.Sum32() },
		"fnv1":   func(s string) uint32 { h := fnv.New32(); h.Write([]byte(s)); return h.Sum32() },
		"crc32":  func(s string) uint32 { return crc32.ChecksumIEEE([]byte(s)) },
		"crc32c": func(s string) uint32 { return crc32.Checksum([]byte(s), crc32.MakeTable(crc32.Castagnoli)) },
	}
}

func findCollisions() {
	sites := []string{"ams", "lhr", "sfo", "syd", "sin", "fra", "nrt", "gru"}
	kinds := []string{"web", "ns", "db", "app", "cache", "mx"}
	var names []string
	for i := 0; i < 9000; i++ {
		for _, k := range kinds {
			for _, s := range sites[:4+i%5] {
				names = append(names, fmt.Sprintf("%s%d.%s.example.org.", k, i, s))
			}
		}
	}
	hs := hashers()
	for _, hn := range []string{"crc32", "crc32c", "fnv1", "fnv1a"} {
		h := hs[hn]
		seen := make(map[uint32]string, len(names))
		found := 0
		for _, n := range names {
			v := h(n)
			if o, ok := seen[v]; ok && o != n {
				collidePairs = append(collidePairs, [2]string{o, n})
				if found++; found >= 6 {
					break
				}
				continue
			}
			seen[v] = n
		}
	}
}

func eachCollidingPair(emit func(msgCase)) {
	collideOnce.Do(findCollisions)
	for _, p := range collidePairs {
		a, b := wm.MustName(p[0]), wm.MustName(p[1])
		for _, order := range [][2]wm.Name{{a, b}, {b, a}} {
			m := wm.Msg{ID: 4, Flags: wm.FlagQR, Q: []wm.Question{{Name: order[0], Type: 1, Class: 1}}}
			m.An = []wm.Rec{
				{Name: order[0].Clone(), Type: wm.TNS, Class: 1, TTL: 60, Fields: []wm.Field{{K: wm.NameC, N: order[1].Clone()}}},
				{Name: order[1].Clone(), Type: wm.TA, Class: 1, TTL: 60, Fields: []wm.Field{{K: wm.IPv4, B: []byte{192, 0, 2, 1}}}},
			}
			emit(msgCase{M: m})
		}
	}
}

func init() {
	pbt.RegisterEnum(pbt.Enum[msgCase]{Name: "digest-colliding-names", Exhaustive: true, Each: eachCollidingPair, Check: checkMsg})
}
