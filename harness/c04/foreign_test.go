package c04

// Last clause of the statement, seen from the side of OTHER encoders: "compressed names are still
// accepted on input for every type". RFC 1035 4.1.4 leaves the sender a lot of freedom - a name is
// a sequence of labels ending in a zero octet, OR a pointer, OR labels ending with a pointer; a
// pointer refers to a prior occurrence of the same (suffix of a) name. Nothing says the sender picks
// the first occurrence, the longest suffix, or a target that is itself written out: the target may be
// another pointer (a chain), and the shortest suffix of all - the root, one zero octet - has a prior
// occurrence at the end of every earlier name. wiremodel.EncodeCompressed is ONE such sender (first
// occurrence, longest suffix, never the root, never a chain), the library's packer is another; the
// encoder below draws every one of these choices.
//
// Oracle: the image is first read by the harness's independent decoder (which must give the model
// message back - that validates the encoder), then by the library: UnpackDomainName at the start of
// every name must return that name AND the offset just behind the octets the name occupies in its
// own record (two for a pointer, wherever it leads), and Msg.Unpack must give the model message.

import (
	"bytes"
	"encoding/binary"
	"fmt"

	"github.com/miekg/dns"
	"pgregory.net/rapid"

	"verif/harness/gen"
	"verif/harness/pbt"
	wm "verif/harness/wiremodel"
)

// maxHops keeps generated pointer chains clear of the decoders' loop guards (the library follows
// 127 pointers per name, wiremodel.ReadName as well); limits are C02's business.
const maxHops = 100

// fenc writes names the way some other implementation might.
type fenc struct {
	out  []byte
	occ  map[string][]int // uncompressed wire form of a suffix -> offsets (< 16384) at which a decoder reads exactly that suffix
	hops map[int]int      // offset -> pointers followed when reading from there
	t    *rapid.T
	// sender's habits, drawn once per image
	ptrLevel, rootLevel int // 0 never, 1 one in four, 2 every second, 3 whenever possible
	pick                int // 0 first occurrence, 1 latest (longest chain), 2 any
}

func newFenc(t *rapid.T) *fenc {
	e := &fenc{occ: map[string][]int{}, hops: map[int]int{}, t: t}
	e.ptrLevel = rapid.SampledFrom([]int{0, 1, 2, 2, 3, 3}).Draw(t, "ptrlevel")
	e.rootLevel = rapid.SampledFrom([]int{0, 1, 2, 2, 3}).Draw(t, "rootlevel")
	e.pick = rapid.SampledFrom([]int{0, 1, 1, 2, 2}).Draw(t, "pick")
	return e
}

func (e *fenc) want(level int) bool {
	switch level {
	case 0:
		return false
	case 1:
		return rapid.Bool().Draw(e.t, "p4a") && rapid.Bool().Draw(e.t, "p4b")
	case 2:
		return rapid.Bool().Draw(e.t, "p2")
	}
	return true
}

// putName appends n; when compress is set every suffix of it - the empty one included - may be
// replaced by a pointer to any earlier place from which that suffix can be read.
func (e *fenc) putName(n wm.Name, compress bool) {
	type pos struct {
		off int
		key string
	}
	var mine []pos
	h := 0
	for i := 0; i <= len(n); i++ {
		key := string(wm.EncodeName(n[i:]))
		if compress {
			var cands []int
			for _, o := range e.occ[key] {
				if e.hops[o] < maxHops {
					cands = append(cands, o)
				}
			}
			level := e.ptrLevel
			if i == len(n) {
				level = e.rootLevel
			}
			if len(cands) > 0 && e.want(level) {
				var tgt int
				switch e.pick {
				case 0:
					tgt = cands[0]
				case 1:
					tgt = cands[len(cands)-1]
				default:
					tgt = cands[rapid.IntRange(0, len(cands)-1).Draw(e.t, "target")]
				}
				mine = append(mine, pos{len(e.out), key})
				e.out = append(e.out, 0xC0|byte(tgt>>8), byte(tgt))
				h = e.hops[tgt] + 1
				break
			}
		}
		mine = append(mine, pos{len(e.out), key})
		if i == len(n) {
			e.out = append(e.out, 0)
		} else {
			e.out = append(e.out, byte(len(n[i])))
			e.out = append(e.out, n[i]...)
		}
	}
	// every place written by this name is a prior occurrence for the names that follow
	for _, p := range mine {
		if p.off < 16384 {
			e.occ[p.key] = append(e.occ[p.key], p.off)
			e.hops[p.off] = h
		}
	}
}

func (e *fenc) u16(v uint16) { e.out = binary.BigEndian.AppendUint16(e.out, v) }
func (e *fenc) u32(v uint32) { e.out = binary.BigEndian.AppendUint32(e.out, v) }

// encodeForeign is the RFC 1035 4.1 message layout (RFC 6891 6.1.3 for the upper RCODE bits) with
// every name handed to putName.
func encodeForeign(t *rapid.T, m wm.Msg) ([]byte, bool) {
	if _, err := wm.Encode(m); err != nil {
		return nil, false
	}
	e := newFenc(t)
	opt := m.Opt()
	e.u16(m.ID)
	e.u16(m.Flags&^0xF | uint16(m.Rcode&0xF))
	e.u16(uint16(len(m.Q)))
	e.u16(uint16(len(m.An)))
	e.u16(uint16(len(m.Ns)))
	e.u16(uint16(len(m.Ex)))
	for _, q := range m.Q {
		e.putName(q.Name, true)
		e.u16(q.Type)
		e.u16(q.Class)
	}
	for si, sec := range [][]wm.Rec{m.An, m.Ns, m.Ex} {
		for i, r := range sec {
			if si == 2 && i == opt {
				r.TTL = r.TTL&0x00FFFFFF | uint32(m.Rcode>>4)<<24
			}
			e.putName(r.Name, true)
			e.u16(r.Type)
			e.u16(r.Class)
			e.u32(r.TTL)
			lenAt := len(e.out)
			e.u16(0)
			if !r.NoRdata {
				for _, f := range r.Fields {
					switch {
					case f.K == wm.NameC || f.K == wm.NameU || f.K == wm.GW && f.U == 3:
						e.putName(f.N, true)
					case f.K == wm.Names:
						for _, n := range f.NL {
							e.putName(n, true)
						}
					default:
						e.out = wm.EncodeField(e.out, f)
					}
				}
			}
			rdl := len(e.out) - lenAt - 2
			if rdl > 65535 {
				return nil, false
			}
			binary.BigEndian.PutUint16(e.out[lenAt:], uint16(rdl))
		}
	}
	return e.out, true
}

type foreignCase struct {
	M  wm.Msg
	In []byte `json:",omitempty"` // M as another implementation might have sent it
}

// nameClasses says which of the RFC 1035 4.1.4 forms a name of the image uses.
func nameClasses(img []byte, nr wm.NameRef) []string {
	var cl []string
	if len(nr.Ptrs) == 0 {
		return cl
	}
	own := nr.Ptrs[0].At // the only pointer that lies inside the name's own octets
	if own == nr.Start {
		cl = append(cl, "bare-pointer")
	} else {
		cl = append(cl, "labels+pointer")
	}
	if len(nr.Ptrs) >= 2 {
		cl = append(cl, "pointer-chain")
	}
	last := nr.Ptrs[len(nr.Ptrs)-1].Target
	if last < len(img) && img[last] == 0 {
		if len(nr.Name) == 0 {
			cl = append(cl, "root-as-pointer", "root-as-pointer:"+nr.Ctx)
		} else {
			cl = append(cl, "tail-is-pointer-to-root")
		}
	}
	return cl
}

// checkNamesAt: the library's name reader, started where the independent decoder found a name,
// returns that name and the offset behind the name's own octets.
func checkNamesAt(img []byte, names []wm.NameRef) error {
	for _, nr := range names {
		s, off, err := dns.UnpackDomainName(img, nr.Start)
		if err != nil {
			return pbt.Errf("UnpackDomainName at %d (%s name %q, written as %x) fails: %v", nr.Start, nr.Ctx, wm.EscName(nr.Name), img[nr.Start:nr.End], err)
		}
		if s != wm.EscName(nr.Name) {
			return pbt.Errf("UnpackDomainName at %d (%s name, written as %x) gives %q, an RFC 1035 reader gives %q", nr.Start, nr.Ctx, img[nr.Start:nr.End], s, wm.EscName(nr.Name))
		}
		if off != nr.End {
			return pbt.Errf("UnpackDomainName at %d (%s name %q, written as %x, pointers %v) returns offset %d; the name occupies octets %d..%d, what follows it starts at %d", nr.Start, nr.Ctx, s, img[nr.Start:nr.End], nr.Ptrs, off, nr.Start, nr.End-1, nr.End)
		}
	}
	return nil
}

func checkForeign(c foreignCase) error {
	pu, err := wm.Encode(c.M)
	if err != nil || c.In == nil {
		return nil
	}
	var tr wm.Trace
	mi, err := wm.Decode(c.In, &tr)
	if err != nil {
		return pbt.Errf("harness: the generated image is not readable by the independent decoder: %v (image %s)", err, hx(c.In))
	}
	if wi, err := wm.Encode(mi); err != nil || !bytes.Equal(wi, pu) {
		return pbt.Errf("harness: the generated image denotes another message than the model: %s", hexdiff(wi, pu))
	}
	nptr := 0
	seen := map[string]bool{}
	var classes []string
	for _, nr := range tr.Names {
		nptr += len(nr.Ptrs)
		for _, p := range nr.Ptrs {
			if p.Target >= p.At || p.Target >= 16384 {
				return pbt.Errf("harness: generated pointer at %d targets %d", p.At, p.Target)
			}
		}
		for _, k := range nameClasses(c.In, nr) {
			if !seen[k] {
				seen[k] = true
				classes = append(classes, k)
			}
		}
		if nr.Ctx == "rdata" && len(nr.Ptrs) > 0 && !wm.RFC1035Compressible[nr.RRType] && !seen["ptr-in-rdata-of-other-type"] {
			seen["ptr-in-rdata-of-other-type"] = true
			classes = append(classes, "ptr-in-rdata-of-other-type")
		}
	}
	if len(c.M.Q) > 1 {
		classes = append(classes, "multi-question")
	}
	pbt.Note(c.In, nptr > 0, classes...)
	if seen["root-as-pointer"] && len(c.In) < 120 {
		pbt.Sample("root-as-pointer", fmt.Sprintf("%x", c.In))
	}

	if err := checkNamesAt(c.In, tr.Names); err != nil {
		return pbt.Errf("%v (image %s)", err, hx(c.In))
	}
	var u dns.Msg
	if err := u.Unpack(c.In); err != nil {
		return pbt.Errf("Unpack rejects a message whose names another encoder compressed (RFC 1035 4.1.4): %v (image %s)", err, hx(c.In))
	}
	m2, err := wm.MsgFromLib(&u, true)
	if err != nil {
		return pbt.Errf("unpacked message cannot be read back: %v (image %s)", err, hx(c.In))
	}
	w2, err := wm.Encode(m2)
	if err != nil || !bytes.Equal(w2, pu) {
		return pbt.Errf("a message whose names another encoder compressed unpacks to a different message: %s (image %s)", hexdiff(w2, pu), hx(c.In))
	}
	return nil
}

// nameBearing: every type of the layout table that has a name in its RDATA.
var nameBearing = []uint16{wm.TNS, wm.TMD, wm.TMF, wm.TCNAME, wm.TSOA, wm.TMB, wm.TMG, wm.TMR, wm.TPTR, wm.TMINFO, wm.TMX,
	wm.TSRV, wm.TDNAME, wm.TRP, wm.TAFSDB, wm.TKX, wm.TNAPTR, wm.TRRSIG, wm.TNSEC, wm.THIP, wm.TSVCB, wm.TTALINK, wm.TPX, wm.TLP, wm.TRT,
	wm.TNSAPPTR, wm.TIPSECKEY, wm.TAMTRELAY, wm.TTKEY, wm.TTSIG, wm.TSIG, wm.TNXT, wm.THTTPS}

// rootyNames: the per-message pool of suffix-sharing names, with the root itself drawn more often
// than the pool does (". NS", null MX, SRV target ".", SOA RNAME ".", OPT owner are ordinary data).
func rootyNames(o gen.NameOpts) func(t *rapid.T) wm.Name {
	shared := gen.SharedNames(o)
	return func(t *rapid.T) wm.Name {
		if rapid.IntRange(0, 5).Draw(t, "rootname") == 0 {
			return wm.Name{}
		}
		return shared(t)
	}
}

func genForeign(t *rapid.T) foreignCase {
	mo := &gen.MsgOpts{MaxQ: 3, MaxRecs: 4}
	mo.NameGen = rootyNames(gen.NameOpts{MaxLabs: 4, MaxLabel: 10})
	mo.Avoid = map[string]bool{}
	mo.Excluded = pbt.Excluded
	mo.Unknown = true
	if rapid.IntRange(0, 2).Draw(t, "anytype") != 0 {
		mo.Types = nameBearing
	}
	c := foreignCase{M: gen.Msg(t, mo)}
	if img, ok := encodeForeign(t, c.M); ok {
		c.In = img
	}
	return c
}

// ---------------------------------------------------------------------------------------------
// The same at the level of the exported name reader: a run of names (with a few octets of other
// data between them, as in a record) starting at some offset of a buffer.

type nameBufCase struct {
	Buf    []byte
	Starts []int
	Names  [][][]byte
}

func checkNameBuf(c nameBufCase) error {
	var refs []wm.NameRef
	nptr := 0
	seen := map[string]bool{}
	var classes []string
	for i, st := range c.Starts {
		n, ref, err := wm.ReadName(c.Buf, st)
		if err != nil || !n.Equal(wm.Name(c.Names[i])) {
			return pbt.Errf("harness: generated name %d at %d reads back as %q err=%v, want %q", i, st, wm.EscName(n), err, wm.EscName(wm.Name(c.Names[i])))
		}
		ref.Ctx = "buffer"
		refs = append(refs, ref)
		nptr += len(ref.Ptrs)
		for _, k := range nameClasses(c.Buf, ref) {
			if !seen[k] {
				seen[k] = true
				classes = append(classes, k)
			}
		}
	}
	if len(c.Starts) > 0 {
		classes = append(classes, fmt.Sprintf("start=%d", min(c.Starts[0], 1)))
	}
	pbt.Note(c.Buf, nptr > 0, classes...)
	if err := checkNamesAt(c.Buf, refs); err != nil {
		return pbt.Errf("%v (buffer %s)", err, hx(c.Buf))
	}
	return nil
}

func genNameBuf(t *rapid.T) nameBufCase {
	names := rootyNames(gen.NameOpts{MaxLabs: 4, MaxLabel: 8})
	e := newFenc(t)
	start := rapid.SampledFrom([]int{0, 0, 1, 12, 100}).Draw(t, "start")
	if rapid.IntRange(0, 40).Draw(t, "far") == 0 {
		start = 16384 - rapid.IntRange(1, 40).Draw(t, "below16k") // later names lie behind the reach of a pointer
	}
	e.out = bytes.Repeat([]byte{0xEE}, start)
	var c nameBufCase
	for i := rapid.IntRange(2, 8).Draw(t, "n"); i > 0; i-- {
		n := names(t)
		c.Starts = append(c.Starts, len(e.out))
		c.Names = append(c.Names, n)
		e.putName(n, true)
		// the fixed part of a record, or nothing
		for k := rapid.SampledFrom([]int{0, 0, 2, 4, 10}).Draw(t, "between"); k > 0; k-- {
			e.out = append(e.out, 0xEE)
		}
	}
	c.Buf = append(e.out, 0xEE, 0xEE, 0xEE)
	return c
}

func init() {
	pbt.Register(pbt.Sub[foreignCase]{Name: "foreign-compression", Weight: 4, Gen: genForeign, Check: checkForeign})
	pbt.Register(pbt.Sub[nameBufCase]{Name: "unpackdomainname-foreign", Weight: 4, Gen: genNameBuf, Check: checkNameBuf})
}
