package c04

// Two further angles on the same property:
//  * Pack is a pure function of the message: whatever was packed before on the same goroutine /
//    process (other messages, messages whose packing failed half-way) must not change the octets.
//  * The exported name and record packers with a caller-owned compression map (PackDomainName,
//    PackRR) obey the same rules as whole messages, also when the first name sits at offset 0.

import (
	"bytes"
	"fmt"

	"github.com/miekg/dns"
	"pgregory.net/rapid"

	"verif/harness/gen"
	"verif/harness/pbt"
	wm "verif/harness/wiremodel"
)

type pureCase struct {
	M      wm.Msg // the message under test
	Others []wm.Msg
	Broken wm.Msg // shares names with M, but one record has a 64-octet label: packing fails after names were written
}

func checkPure(c pureCase) error {
	lib, err := wm.MsgToLib(c.M, true)
	if err != nil {
		return nil
	}
	first, err := lib.Pack()
	if err != nil {
		return nil
	}
	pbt.Note(first, len(first) < func() int { w, _ := wm.Encode(c.M); return len(w) }(), fmt.Sprintf("others=%d", len(c.Others)))
	// a compressed pack that fails in the middle
	if bl, err := wm.MsgToLib(c.Broken, true); err == nil {
		// the bridge cannot express an invalid name; put it in by hand
		if len(bl.Answer) > 0 {
			bl.Answer[len(bl.Answer)-1].Header().Name = string(bytes.Repeat([]byte{'x'}, 64)) + "." + bl.Answer[0].Header().Name
		}
		if _, err := bl.Pack(); err == nil && len(bl.Answer) > 0 {
			return pbt.Errf("a message with a 64-octet label was packed")
		}
	}
	for _, o := range c.Others {
		if ol, err := wm.MsgToLib(o, true); err == nil {
			ol.Pack()
		}
	}
	again, err := lib.Pack()
	if err != nil || !bytes.Equal(again, first) {
		return pbt.Errf("packing the same message again after other (also failing) Pack calls gives different octets (err=%v): %s", err, hexdiff(again, first))
	}
	// and the octets still decode to the message
	var tr wm.Trace
	mc, err := wm.Decode(again, &tr)
	if err != nil {
		return pbt.Errf("second pack is not a valid message: %v", err)
	}
	w, _ := wm.Encode(c.M)
	if wc, _ := wm.Encode(mc); !bytes.Equal(wc, w) {
		return pbt.Errf("second pack decodes to a different message: %s", hexdiff(wc, w))
	}
	return nil
}

func genPure(t *rapid.T) pureCase {
	names := gen.SharedNames(gen.NameOpts{MaxLabs: 4, MaxLabel: 8})
	mk := func() wm.Msg {
		mo := &gen.MsgOpts{MaxQ: 2, MaxRecs: 3}
		mo.NameGen = names
		mo.Types = []uint16{wm.TNS, wm.TCNAME, wm.TMX, wm.TSOA, wm.TA, wm.TPTR, wm.TSRV, wm.TTXT}
		return gen.Msg(t, mo)
	}
	c := pureCase{M: mk(), Broken: mk()}
	if len(c.Broken.An) == 0 {
		c.Broken.An = []wm.Rec{gen.RecOfType(t, wm.TNS, &gen.Opts{NameGen: names}), gen.RecOfType(t, wm.TNS, &gen.Opts{NameGen: names})}
	}
	for i := rapid.IntRange(0, 2).Draw(t, "nothers"); i > 0; i-- {
		c.Others = append(c.Others, mk())
	}
	return c
}

// ---------------------------------------------------------------------------------------------

type nameSeqCase struct {
	Names [][][]byte // wire labels of each name, packed one after the other from offset Start
	Start int
}

func checkNameSeq(c nameSeqCase) error {
	buf := bytes.Repeat([]byte{0xEE}, c.Start+300*len(c.Names)+16)
	comp := map[string]int{}
	off := c.Start
	var starts []int
	ptrs := 0
	for _, ls := range c.Names {
		n := wm.Name(ls)
		if !n.Valid() {
			return nil
		}
		starts = append(starts, off)
		noff, err := dns.PackDomainName(wm.EscName(n), buf, off, comp, true)
		if err != nil {
			return pbt.Errf("PackDomainName(%q) with a compression map failed: %v", wm.EscName(n), err)
		}
		if noff-off > n.WireLen() {
			return pbt.Errf("compressed form of %q is longer (%d) than the plain form (%d)", wm.EscName(n), noff-off, n.WireLen())
		}
		off = noff
	}
	for i, ls := range c.Names {
		got, ref, err := wm.ReadName(buf[:off], starts[i])
		if err != nil {
			return pbt.Errf("name %d (%q) packed at %d cannot be read back: %v", i, wm.EscName(wm.Name(ls)), starts[i], err)
		}
		if !got.Equal(wm.Name(ls)) {
			return pbt.Errf("name %d packed with a caller-owned compression map reads back as %q, want %q (start offset of the first name: %d)", i, wm.EscName(got), wm.EscName(wm.Name(ls)), c.Start)
		}
		want := starts[i] + 0
		_ = want
		for _, p := range ref.Ptrs {
			ptrs++
			if p.Target >= p.At || p.Target >= 16384 {
				return pbt.Errf("name %d: pointer at %d targets %d", i, p.At, p.Target)
			}
		}
		// the library reads it the same way
		s, _, err := dns.UnpackDomainName(buf[:off], starts[i])
		if err != nil || s != wm.EscName(wm.Name(ls)) {
			return pbt.Errf("name %d: UnpackDomainName gives %q err=%v, want %q", i, s, err, wm.EscName(wm.Name(ls)))
		}
	}
	pbt.Note(buf[:off], ptrs > 0, fmt.Sprintf("start=%d", min(c.Start, 1)), fmt.Sprintf("names=%d", len(c.Names)))
	return nil
}

func genNameSeq(t *rapid.T) nameSeqCase {
	names := gen.SharedNames(gen.NameOpts{MaxLabs: 4, MaxLabel: 8})
	c := nameSeqCase{Start: rapid.SampledFrom([]int{0, 0, 0, 1, 12, 100}).Draw(t, "start")}
	for i := rapid.IntRange(2, 6).Draw(t, "n"); i > 0; i-- {
		c.Names = append(c.Names, names(t))
	}
	// often: a later name IS an earlier name, or ends with the whole first name
	if rapid.Bool().Draw(t, "repeatfirst") {
		first := wm.Name(c.Names[0])
		c.Names = append(c.Names, append(wm.Name{gen.Label(t, gen.NameOpts{MaxLabel: 5})}, first.Clone()...), first.Clone())
	}
	return c
}

// PackRR sequences with a caller-owned map, starting at offset 0 (a stand-alone RRset)
type rrSeqCase struct {
	Recs []wm.Rec
	// Room[i] > 0: record i is first offered a buffer that ends Room[i]-1 octets behind the record's
	// start (the caller's buffer was too small); when that fails the caller repeats the call with
	// the whole buffer - same record, same offset, same map, as one does after ErrBuf.
	Room []int `json:",omitempty"`
	// Undo: the names the refused call left in the map are taken out before the repetition (set by
	// the generator only while the finding packrr-retry-stale-map is listed and reproduces)
	Undo bool `json:",omitempty"`
	// Drop[i]: when the short-buffer call for record i is refused the caller gives the record up and
	// packs the NEXT record at the same offset with the same map (round 10: what the refused call
	// entered into the map would now describe octets of a different record)
	Drop []bool `json:",omitempty"`
}

const knownRetry = "packrr-retry-stale-map"

func checkRRSeq(c rrSeqCase) error {
	buf := bytes.Repeat([]byte{0xEE}, 70000)
	comp := map[string]int{}
	off := 0
	refused, dropped := 0, 0
	var kept []wm.Rec
	for i, r := range c.Recs {
		rr, err := wm.ToLib(r)
		if err != nil {
			return nil
		}
		if i < len(c.Room) && c.Room[i] > 0 && off+c.Room[i]-1 < len(buf) {
			var before map[string]int
			if c.Undo {
				before = make(map[string]int, len(comp))
				for k, v := range comp {
					before[k] = v
				}
			}
			noff, err := dns.PackRR(rr, buf[:off+c.Room[i]-1], off, comp, true)
			if err == nil {
				off = noff // there was room after all
				kept = append(kept, r)
				continue
			}
			refused++
			if i < len(c.Drop) && c.Drop[i] {
				dropped++
				continue // given up; whatever comes next is packed at the same offset
			}
			if c.Undo {
				for k := range comp {
					if _, ok := before[k]; !ok {
						delete(comp, k)
					}
				}
			}
		}
		noff, err := dns.PackRR(rr, buf, off, comp, true)
		if err != nil {
			return pbt.Errf("PackRR with a compression map failed: %v", err)
		}
		off = noff
		kept = append(kept, r)
	}
	if refused > dropped {
		pbt.Class("call-repeated-after-short-buffer")
	}
	if dropped > 0 {
		pbt.Class("record-given-up-after-short-buffer")
		if len(kept) > 0 {
			pbt.Class("other-record-at-the-offset-of-a-refused-one")
		}
	}
	// read the records back with the library and compare with the model
	pos := 0
	for i, r := range kept {
		rr, npos, err := dns.UnpackRR(buf[:off], pos)
		if err != nil {
			return pbt.Errf("record %d packed by PackRR with a compression map from offset 0 does not unpack: %v (%d calls were first refused for lack of room, %d of these records were given up and the next one packed in their place, the others repeated with the whole buffer; octets from the record's start: %s)", i, err, refused, dropped, hx(buf[pos:off]))
		}
		back, err := wm.FromLib(rr, true)
		if err != nil {
			return pbt.Errf("record %d: %v", i, err)
		}
		w1, _ := wm.EncodeRR(back)
		w2, _ := wm.EncodeRR(r)
		if !bytes.Equal(w1, w2) {
			return pbt.Errf("record %d of a PackRR sequence with compression reads back differently (%d calls refused for lack of room, %d of these records given up): %s", i, refused, dropped, hexdiff(w1, w2))
		}
		pos = npos
	}
	pbt.Note(buf[:off], len(kept) > 1, fmt.Sprintf("records=%d", len(kept)))
	return nil
}

func genRRSeq(t *rapid.T) rrSeqCase {
	names := gen.SharedNames(gen.NameOpts{MaxLabs: 3, MaxLabel: 8})
	o := &gen.Opts{NameGen: names, Types: []uint16{wm.TNS, wm.TCNAME, wm.TMX, wm.TSOA, wm.TPTR, wm.TMINFO, wm.TSRV, wm.TA, wm.TRP}}
	var c rrSeqCase
	for i := rapid.IntRange(1, 5).Draw(t, "n"); i > 0; i-- {
		c.Recs = append(c.Recs, gen.Rec(t, o))
	}
	// MX/NS whose target is the owner itself or a child of it (longest known suffix = a whole earlier name)
	if rapid.Bool().Draw(t, "selfref") {
		owner := c.Recs[0].Name
		c.Recs = append(c.Recs, wm.Rec{Name: owner.Clone(), Type: wm.TMX, Class: 1, TTL: 5, Fields: []wm.Field{{K: wm.U16, U: 10}, {K: wm.NameC, N: append(wm.Name{[]byte("mail")}, owner.Clone()...)}}})
	}
	// a caller whose buffer turns out too small for a record and who repeats the call with a larger one
	if rapid.IntRange(0, 2).Draw(t, "shortbuffer") == 0 {
		c.Room = make([]int, len(c.Recs))
		c.Drop = make([]bool, len(c.Recs))
		giveUp := rapid.Bool().Draw(t, "giveup") // this caller drops a record that does not fit instead of growing the buffer
		var lost []wm.Name
		for i, r := range c.Recs {
			if rapid.Bool().Draw(t, "short") {
				w, _ := wm.EncodeRR(r)
				c.Room[i] = 1 + rapid.IntRange(0, len(w)).Draw(t, "room")
				if giveUp && rapid.IntRange(0, 2).Draw(t, "drop") > 0 {
					c.Drop[i] = true
					lost = append(lost, r.Name)
				}
			}
		}
		// the names of a record that was given up come back later: as the owner of a following record
		// and as (the parent of) its target
		if len(lost) > 0 && rapid.Bool().Draw(t, "echo") {
			n := rapid.SampledFrom(lost).Draw(t, "lost")
			if len(n) > 0 && n.WireLen() < 250 {
				c.Recs = append(c.Recs, wm.Rec{Name: n.Clone(), Type: wm.TNS, Class: 1, TTL: 7, Fields: []wm.Field{{K: wm.NameC, N: append(wm.Name{[]byte("ns")}, n.Clone()...)}}})
			}
		}
		if pbt.Known(knownRetry) {
			c.Undo = true
			pbt.Excluded(knownRetry)
		}
	}
	return c
}

func init() {
	// www.example.org. A: the owner (17 octets) fits into 20 octets, the fixed part of the record does
	// not; the refused call leaves "www.example.org." -> 0 in the caller's map and the repetition
	// writes the owner as c0 00
	pbt.Probe(knownRetry, func() error {
		return pbt.Guard(checkRRSeq, rrSeqCase{Room: []int{21}, Recs: []wm.Rec{{Name: wm.MustName("www.example.org."), Type: wm.TA, Class: 1, TTL: 60,
			Fields: []wm.Field{{K: wm.IPv4, B: []byte{192, 0, 2, 1}}}}}})
	})
}

func init() {
	pbt.Register(pbt.Sub[pureCase]{Name: "pack-is-pure", Weight: 3, Gen: genPure, Check: checkPure})
	pbt.Register(pbt.Sub[nameSeqCase]{Name: "packdomainname-sequence", Weight: 10, Gen: genNameSeq, Check: checkNameSeq})
	pbt.Register(pbt.Sub[rrSeqCase]{Name: "packrr-sequence", Weight: 5, Gen: genRRSeq, Check: checkRRSeq})
}

// deepest possible nesting: names of 1..k one-octet labels, each the suffix of the next, then the
// longest one repeated (as owner and inside NS RDATA): the library's own compressed output must
// still be readable
func eachNesting(emit func(msgCase)) {
	for _, k := range []int{2, 60, 120, 125, 126, 127} {
		for _, repeat := range []int{0, 1, 2} {
			m := wm.Msg{ID: uint16(k), Flags: wm.FlagQR, Q: []wm.Question{{Name: wm.Name{[]byte("q")}, Type: 2, Class: 1}}}
			var n wm.Name
			for i := 0; i < k; i++ {
				n = append(wm.Name{[]byte("a")}, n...)
				m.An = append(m.An, wm.Rec{Name: n.Clone(), Type: wm.TNS, Class: 1, TTL: 1, Fields: []wm.Field{{K: wm.NameC, N: wm.Name{[]byte("q")}}}})
			}
			for r := 0; r < repeat; r++ {
				m.Ns = append(m.Ns, wm.Rec{Name: n.Clone(), Type: wm.TNS, Class: 1, TTL: 1, Fields: []wm.Field{{K: wm.NameC, N: n.Clone()}}})
			}
			emit(msgCase{M: m})
		}
	}
}

func init() {
	pbt.RegisterEnum(pbt.Enum[msgCase]{Name: "deepest-nesting", Exhaustive: true, Each: eachNesting, Check: func(c msgCase) error {
		if err := checkMsg(c); err != nil {
			return err
		}
		// the library must be able to read its own compressed output
		lib, err := wm.MsgToLib(c.M, true)
		if err != nil {
			return nil
		}
		p, err := lib.Pack()
		if err != nil {
			return pbt.Errf("Pack of %d nested names failed: %v", len(c.M.An), err)
		}
		var u dns.Msg
		if err := u.Unpack(p); err != nil {
			return pbt.Errf("the library cannot unpack its own compressed message (%d nested one-label-longer names, longest repeated %d times): %v", len(c.M.An), len(c.M.Ns), err)
		}
		return nil
	}})
}
