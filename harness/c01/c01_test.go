package c01

import (
	"bytes"
	"encoding/hex"
	"fmt"
	"net"

	"github.com/miekg/dns"
	"pgregory.net/rapid"

	"verif/harness/gen"
	"verif/harness/pbt"
	wm "verif/harness/wiremodel"
)

// ---------------------------------------------------------------------------------------------
// message round trip against the independent encoder

type msgCase struct {
	M     wm.Msg
	Spell uint64 `json:",omitempty"` // representation choices for the library value (name spelling, IPv4 form); 0: canonical
}

func typeName(t uint16) string {
	if s, ok := dns.TypeToString[t]; ok {
		return s
	}
	return fmt.Sprintf("TYPE%d", t)
}

func hx(b []byte) string {
	if len(b) > 120 {
		return fmt.Sprintf("%x…(%d octets)", b[:120], len(b))
	}
	return fmt.Sprintf("%x", b)
}

func hexdiff(a, b []byte) string {
	i := 0
	for i < len(a) && i < len(b) && a[i] == b[i] {
		i++
	}
	lo := i - 8
	if lo < 0 {
		lo = 0
	}
	ha, hb := i+24, i+24
	if ha > len(a) {
		ha = len(a)
	}
	if hb > len(b) {
		hb = len(b)
	}
	return fmt.Sprintf("first difference at octet %d (lengths %d vs %d): …%x vs …%x", i, len(a), len(b), a[lo:ha], b[lo:hb])
}

func noteMsg(m wm.Msg, w []byte) {
	nontrivial := false
	var classes []string
	for _, r := range m.AllRecs() {
		if r.NoRdata {
			classes = append(classes, "nordata")
			continue
		}
		if len(wm.EncodeRdata(r)) > 0 {
			nontrivial = true
		}
		classes = append(classes, "type:"+typeName(r.Type))
		for _, f := range r.Fields {
			for _, o := range f.Opts {
				if f.K == wm.Opts {
					classes = append(classes, fmt.Sprintf("opt:%d", o.Code))
					if o.Code == 10 {
						classes = append(classes, cookieClass(len(o.Data)))
					}
				} else {
					classes = append(classes, fmt.Sprintf("svcparam:%d", o.Code))
				}
			}
		}
	}
	if m.Opt() >= 0 {
		classes = append(classes, "with-opt")
	}
	if m.Rcode > 15 {
		classes = append(classes, "rcode>15")
	}
	pbt.Note(w, nontrivial, classes...)
}

func checkMsg(c msgCase) error {
	m := c.M
	w, encErr := wm.Encode(m)
	restore := wm.Spelling(c.Spell)
	lib, err := wm.MsgToLib(m, false)
	restore()
	if err != nil {
		return nil // generator bug, not the library's (never happens; keeps replay files honest)
	}
	if c.Spell != 0 {
		pbt.Class("alternative-representation")
	}
	p, packErr := lib.Pack()
	if encErr != nil {
		pbt.Note([]byte(fmt.Sprint(m.Rcode, len(m.Ex))), false, "unrepresentable")
		if packErr == nil {
			return pbt.Errf("model has no wire form (%v) but Pack succeeded with %d octets", encErr, len(p))
		}
		return nil
	}
	noteMsg(m, w)
	// (1) layout
	if packErr != nil {
		return pbt.Errf("Pack failed on a representable message: %v (reference: %s)", packErr, hx(w))
	}
	if !bytes.Equal(p, w) {
		return pbt.Errf("layout: Pack differs from the RFC encoding: %s", hexdiff(p, w))
	}
	// (1b) the same octets when packing into caller-supplied memory that was used before
	dirty := bytes.Repeat([]byte{0xA5}, len(w)+1+int(m.ID%5))
	if pb, err := lib.PackBuffer(dirty); err != nil || !bytes.Equal(pb, w) {
		return pbt.Errf("layout: PackBuffer into a used (non-zero) buffer differs from the RFC encoding (err=%v): %s", err, hexdiff(pb, w))
	}
	// (2) lossless
	var u dns.Msg
	in := append([]byte(nil), w...)
	if err := u.Unpack(in); err != nil {
		return pbt.Errf("lossless: Unpack of the canonical image failed: %v (%s)", err, hx(w))
	}
	// the caller's buffer is the caller's again (receive loops read the next message into it)
	for i := range in {
		in[i] = 0x5C
	}
	m2, err := wm.MsgFromLib(&u, true)
	if err != nil {
		return pbt.Errf("lossless: unpacked message cannot be read back: %v", err)
	}
	w2, err := wm.Encode(m2)
	if err != nil {
		return pbt.Errf("lossless: unpacked message has no wire form: %v", err)
	}
	if !bytes.Equal(w2, w) {
		return pbt.Errf("lossless: unpacked message differs from the original: %s", hexdiff(w2, w))
	}
	if len(u.Question) != len(m.Q) || len(u.Answer) != len(m.An) || len(u.Ns) != len(m.Ns) || len(u.Extra) != len(m.Ex) {
		return pbt.Errf("lossless: section sizes %d/%d/%d/%d, want %d/%d/%d/%d", len(u.Question), len(u.Answer), len(u.Ns), len(u.Extra), len(m.Q), len(m.An), len(m.Ns), len(m.Ex))
	}
	// (3) converse: Pack(Unpack(w)) == w
	hasNoRdata := false
	for _, r := range m.AllRecs() {
		if r.NoRdata {
			hasNoRdata = true
		}
	}
	if hasNoRdata && pbt.Known("nordata-repack") {
		pbt.Excluded("nordata-repack")
		return nil
	}
	p2, err := u.Pack()
	if err != nil {
		return pbt.Errf("converse: re-packing the unpacked canonical image failed: %v", err)
	}
	if !bytes.Equal(p2, w) {
		return pbt.Errf("converse: Pack(Unpack(w)) != w: %s", hexdiff(p2, w))
	}
	return nil
}

// RFC 7873 section 4: a COOKIE option is a client cookie of 8 octets, alone or followed by a server
// cookie of 8..32 octets (OPTION-LENGTH 8 or 16..40); every other length is a format error (5.2.2),
// i.e. not "RFC-well-formed" and outside the statement (a library that refuses it is right).
// gen.EDNSOption draws 0..40 octets for code 10: lengths 0..7 are lengthened to 8 and 9..15 to 16 by
// repeating the drawn octets - a pure function of the draw, nothing is thrown away.
func wellFormedCookie(d []byte) []byte {
	want := len(d)
	switch {
	case want < 8:
		want = 8
	case want > 8 && want < 16:
		want = 16
	default:
		return d
	}
	out := make([]byte, want)
	for i := range out {
		if len(d) > 0 {
			out[i] = d[i%len(d)]
		}
	}
	return out
}

func cookieClass(n int) string {
	switch {
	case n == 8:
		return "cookie:client-only"
	case n >= 16 && n <= 32:
		return "cookie:server-8..24"
	case n >= 33 && n <= 40:
		return "cookie:server-25..32"
	}
	return "cookie:ILL-FORMED"
}

func cookiesRec(r *wm.Rec) {
	if r.Type != wm.TOPT {
		return
	}
	for i := range r.Fields {
		if r.Fields[i].K != wm.Opts {
			continue
		}
		for j := range r.Fields[i].Opts {
			if o := &r.Fields[i].Opts[j]; o.Code == 10 {
				o.Data = wellFormedCookie(o.Data)
			}
		}
	}
}

func cookiesMsg(m *wm.Msg) {
	for _, sec := range m.Sections() {
		for i := range *sec {
			cookiesRec(&(*sec)[i])
		}
	}
}

func avoid() map[string]bool {
	return map[string]bool{
		"amtrelay-dbit":   pbt.Known("amtrelay-dbit"),
		"octet-backslash": pbt.Known("octet-backslash"),
	}
}

func genMsg(t *rapid.T) msgCase {
	mo := &gen.MsgOpts{AnyHeader: true, Share: rapid.Bool().Draw(t, "share")}
	mo.Avoid = avoid()
	mo.Excluded = pbt.Excluded
	mo.NoRdata = true
	mo.Unknown = true
	mo.BigBlob = pbt.Thorough()
	if pbt.Thorough() && rapid.IntRange(0, 20).Draw(t, "many") == 0 {
		mo.MaxRecs = 120
	}
	m := gen.Msg(t, mo)
	cookiesMsg(&m)
	if rapid.IntRange(0, 40).Draw(t, "bigrcode") == 0 {
		m.Rcode = rapid.IntRange(16, 4095).Draw(t, "rc") // unrepresentable unless an OPT is present
		if gen.Rarely(t, 2) {
			// Rcode is an int: values outside the 12 bits have no wire form at all
			m.Rcode = rapid.SampledFrom([]int{4096, 4097, 65535, 65536, 1 << 20, -1, -4096}).Draw(t, "rcout")
		}
	}
	c := msgCase{M: m}
	if rapid.IntRange(0, 3).Draw(t, "respell") == 0 {
		c.Spell = rapid.Uint64().Draw(t, "spell")
	}
	return c
}

// genCounts draws a message whose sections hold very many very small records: the section counts
// are 16-bit fields and every value up to 65535 is legal (a TCP message of 65535 octets holds 4300
// root-owned A records, and Pack/Unpack themselves have no size limit).
var countBoundaries = []int{255, 256, 257, 1023, 1024, 1025, 4095, 4096, 4097, 8191, 8192, 8193, 16383, 16384, 16385, 32767, 32768, 32769, 65534, 65535}

func genCounts(t *rapid.T) msgCase {
	o := &gen.Opts{Plain: true, MaxBlob: 4}
	var pat []wm.Rec
	for i, n := 0, rapid.IntRange(1, 3).Draw(t, "npat"); i < n; i++ {
		r := gen.RecOfType(t, rapid.SampledFrom([]uint16{wm.TA, wm.TAAAA, wm.TTXT, wm.TNS, wm.TNULL}).Draw(t, "ptype"), o)
		if rapid.Bool().Draw(t, "rootowned") {
			r.Name = wm.Name{}
		} else {
			r.Name = gen.Name(t, gen.NameOpts{Plain: true, MaxLabs: 2, MaxLabel: 3})
		}
		pat = append(pat, r)
	}
	count := func(label string) int {
		switch rapid.IntRange(0, 5).Draw(t, label+"k") {
		case 0, 1, 2:
			return rapid.IntRange(0, 3).Draw(t, label)
		case 3:
			return rapid.IntRange(0, 65535).Draw(t, label) // (more than 65535 records is not a DNS message: outside the statement)
		default:
			return rapid.SampledFrom(countBoundaries).Draw(t, label)
		}
	}
	fill := func(n int) []wm.Rec {
		out := make([]wm.Rec, n)
		for i := range out {
			out[i] = pat[i%len(pat)]
		}
		return out
	}
	m := wm.Msg{ID: uint16(gen.UintB(t, 16)), Flags: wm.FlagQR}
	m.Q = []wm.Question{{Name: gen.Name(t, gen.NameOpts{Plain: true, MaxLabs: 2}), Type: 255, Class: 1}}
	m.An, m.Ns, m.Ex = fill(count("an")), fill(count("ns")), fill(count("ex"))
	if rapid.Bool().Draw(t, "withopt") {
		if len(m.Ex) == 65535 {
			m.Ex = m.Ex[:65534]
		}
		m.Ex = append(m.Ex, gen.OptRec(t, &gen.Opts{Plain: true}))
		cookiesRec(&m.Ex[len(m.Ex)-1])
		if rapid.Bool().Draw(t, "extrcode") {
			m.Rcode = rapid.IntRange(16, 4095).Draw(t, "rc")
		}
	}
	return msgCase{M: m}
}

// ---------------------------------------------------------------------------------------------
// single records: PackRR / UnpackRR / RFC 3597 conversion

type rrCase struct {
	R wm.Rec
}

func checkRR(c rrCase) error {
	r := c.R
	w, err := wm.EncodeRR(r)
	if err != nil {
		return nil
	}
	rd := wm.EncodeRdata(r)
	pbt.Note(w, len(rd) > 0, "type:"+typeName(r.Type), fmt.Sprintf("rdlen<=%d", bucket(len(rd))))
	if len(rd) > 0 {
		pbt.Sample("type:"+typeName(r.Type), hex.EncodeToString(w))
	}
	rr, err := wm.ToLib(r)
	if err != nil {
		return nil
	}
	buf := bytes.Repeat([]byte{0xA5}, len(w)+10) // used memory: the packer must not rely on zeroed buffers
	off, err := dns.PackRR(rr, buf, 0, nil, false)
	if err != nil {
		return pbt.Errf("PackRR failed: %v (reference %s)", err, hx(w))
	}
	if !bytes.Equal(buf[:off], w) {
		return pbt.Errf("PackRR differs from the RFC encoding: %s", hexdiff(buf[:off], w))
	}
	u, uoff, err := dns.UnpackRR(w, 0)
	if err != nil {
		return pbt.Errf("UnpackRR of the canonical image failed: %v (%s)", err, hx(w))
	}
	if uoff != len(w) {
		return pbt.Errf("UnpackRR consumed %d of %d octets", uoff, len(w))
	}
	r2, err := wm.FromLib(u, true)
	if err != nil {
		return pbt.Errf("unpacked record cannot be read back: %v", err)
	}
	w2, err := wm.EncodeRR(r2)
	if err != nil || !bytes.Equal(w2, w) {
		return pbt.Errf("unpacked record differs from the original: %s", hexdiff(w2, w))
	}
	// the header-first decoder (for callers that keep header and RDATA apart): the RDATA alone at
	// offset 0, and the RDATA behind other octets, give the same record
	for _, lead := range []int{0, 1 + int(r.TTL%7)} {
		h := dns.RR_Header{Name: u.Header().Name, Rrtype: r.Type, Class: r.Class, Ttl: r.TTL, Rdlength: uint16(len(rd))}
		rbuf := append(bytes.Repeat([]byte{0xEE}, lead), rd...)
		u2, end, err := dns.UnpackRRWithHeader(h, rbuf, lead)
		if err != nil || end != len(rbuf) {
			return pbt.Errf("UnpackRRWithHeader(RDATA of %d octets at offset %d) failed: err=%v end=%d (%s)", len(rd), lead, err, end, hx(rd))
		}
		r3, err := wm.FromLib(u2, true)
		if err != nil {
			return pbt.Errf("record from UnpackRRWithHeader cannot be read back: %v", err)
		}
		if w3, err := wm.EncodeRR(r3); err != nil || !bytes.Equal(w3, w) {
			return pbt.Errf("UnpackRRWithHeader (RDATA at offset %d) gives a different record: %s", lead, hexdiff(w3, w))
		}
	}
	// RFC 3597 view of a typed record
	if _, known := wm.Layout[r.Type]; known && !r.NoRdata && r.Type != wm.TOPT && r.Type != wm.TPrivate {
		// (RDATA-less records: see the known finding nordata-repack; records whose empty RDATA is a
		// value - TXT without strings, APL without prefixes, NULL - are in)
		// the receiver is a value that was used for another record before (one scratch value in a loop)
		g := new(dns.RFC3597)
		if err := g.ToRFC3597(&dns.A{Hdr: dns.RR_Header{Name: "prev.example.", Rrtype: dns.TypeA, Class: 1, Ttl: 9}, A: net.IP{192, 0, 2, 1}}); err != nil {
			return pbt.Errf("ToRFC3597 of an A record: %v", err)
		}
		if err := g.ToRFC3597(u); err != nil {
			return pbt.Errf("ToRFC3597: %v", err)
		}
		if g.Rdata != hex.EncodeToString(rd) {
			return pbt.Errf("ToRFC3597 (receiver used before) RDATA %s want %s", hx([]byte(g.Rdata)), hx(rd))
		}
		if g.Hdr.Rrtype != r.Type || g.Hdr.Class != r.Class || g.Hdr.Ttl != r.TTL {
			return pbt.Errf("ToRFC3597 header %+v", g.Hdr)
		}
	}
	return nil
}

func bucket(n int) int {
	for _, b := range []int{0, 1, 16, 255, 256, 4096, 16384, 65535} {
		if n <= b {
			return b
		}
	}
	return 1 << 20
}

func genRR(t *rapid.T) rrCase {
	o := &gen.Opts{Avoid: avoid(), Excluded: pbt.Excluded, NoRdata: true, Unknown: true, BigBlob: true}
	r := gen.Rec(t, o)
	cookiesRec(&r)
	return rrCase{R: r}
}

// every type of the table at least once per run, independent of the random type choice
func eachType(emit func(rrCase)) {
	// deterministic pseudo-cases: rapid is not involved; a fixed stream per type via rapid's own
	// example generation would not be reproducible across versions, so boundary records are built
	// by hand: all-zero fields and all-max fields
	for _, typ := range gen.AllTypes {
		layout := wm.Layout[typ]
		for variant := 0; variant < 2; variant++ {
			r := wm.Rec{Name: wm.MustName("a.example."), Type: typ, Class: 1, TTL: uint32(variant) * 0xFFFFFFFF}
			ok := true
			for _, s := range layout {
				f := wm.Field{K: s.K}
				fill := byte(0)
				if variant == 1 {
					fill = 0xff
				}
				switch s.K {
				case wm.U8:
					f.U = uint64(fill)
					if s.Hint == "gwtype" || s.Hint == "amtgwtype" {
						f.U = 0
					}
				case wm.U16:
					f.U = uint64(fill) * 0x101
				case wm.U32:
					f.U = uint64(fill) * 0x1010101
				case wm.U48:
					f.U = uint64(fill) * 0x10101010101
				case wm.U64:
					f.U = uint64(fill) * 0x101010101010101
				case wm.NameC, wm.NameU:
					if variant == 1 {
						f.N = wm.Name{bytes.Repeat([]byte{fill}, 63), bytes.Repeat([]byte{'.'}, 63), bytes.Repeat([]byte{'\\'}, 63), bytes.Repeat([]byte{0}, 61)}
					}
				case wm.Str, wm.L8:
					if variant == 1 {
						f.B = bytes.Repeat([]byte{fill}, 255)
					}
				case wm.Strs:
					f.L = [][]byte{{}}
					if variant == 1 {
						f.L = [][]byte{bytes.Repeat([]byte{'"'}, 255), {}, bytes.Repeat([]byte{'\\'}, 255)}
					}
				case wm.Rest, wm.L16:
					if variant == 1 {
						f.B = bytes.Repeat([]byte{fill, 0, '\\' ^ 0}, 100)
						if s.R == wm.ReprOctet && pbt.Known("octet-backslash") {
							f.B = bytes.Repeat([]byte{fill, 0, '"'}, 100)
						}
					}
				case wm.IPv4:
					f.B = bytes.Repeat([]byte{fill}, 4)
				case wm.IPv6:
					f.B = bytes.Repeat([]byte{fill}, 16)
				case wm.Bitmap:
					if variant == 1 {
						f.T = []uint16{0, 1, 255, 256, 32767, 32768, 65280, 65535}
					}
				case wm.HIPHdr:
					if variant == 1 {
						f.U, f.B, f.B2 = 255, bytes.Repeat([]byte{fill}, 255), bytes.Repeat([]byte{fill}, 1000)
					}
				case wm.APLs:
					if variant == 1 {
						f.APL = []wm.APLItem{{Family: 1, Prefix: 32, Neg: true, Afd: []byte{255, 255, 255, 255}}, {Family: 2, Prefix: 128, Afd: bytes.Repeat([]byte{fill}, 16)}, {Family: 1, Prefix: 0}}
					}
				case wm.GW, wm.Names:
				case wm.Params:
					if variant == 1 {
						f.Opts = []wm.Option{{Code: 0, Data: []byte{0, 1, 0, 4}}, {Code: 1, Data: append([]byte{255}, bytes.Repeat([]byte{','}, 255)...)}, {Code: 4, Data: []byte{255, 255, 255, 255}}, {Code: 65534, Data: []byte{}}}
					}
				default:
					ok = false
				}
				r.Fields = append(r.Fields, f)
			}
			if ok {
				emit(rrCase{R: r})
			}
		}
	}
}

// ---------------------------------------------------------------------------------------------
// exhaustive header words and RCODEs with an empty body / a lone OPT

type hdrCase struct {
	Bits  uint16 // flag word with the RCODE nibble cleared
	Rcode int
	Opt   bool
}

func checkHdr(c hdrCase) error {
	m := wm.Msg{ID: c.Bits ^ 0x5aa5, Flags: c.Bits &^ 0xF, Rcode: c.Rcode}
	if c.Opt {
		m.Ex = []wm.Rec{{Type: wm.TOPT, Class: 1232, TTL: 0x8000, Fields: []wm.Field{{K: wm.Opts}}}}
	}
	return checkMsgQuiet(m, fmt.Sprintf("%04x/%d/%v", c.Bits, c.Rcode, c.Opt), c.Rcode > 15 || c.Bits != 0)
}

func checkMsgQuiet(m wm.Msg, key string, nontrivial bool) error {
	w, encErr := wm.Encode(m)
	lib, _ := wm.MsgToLib(m, false)
	p, packErr := lib.Pack()
	pbt.Note([]byte(key), nontrivial)
	if encErr != nil {
		if packErr == nil {
			return pbt.Errf("header: model has no wire form but Pack succeeded")
		}
		return nil
	}
	if packErr != nil || !bytes.Equal(p, w) {
		return pbt.Errf("header: Pack=%x err=%v want %x", p, packErr, w)
	}
	var u dns.Msg
	if err := u.Unpack(w); err != nil {
		return pbt.Errf("header: Unpack(%x): %v", w, err)
	}
	m2, err := wm.MsgFromLib(&u, true)
	if err != nil {
		return pbt.Errf("header: %v", err)
	}
	if m2.ID != m.ID || m2.Flags != m.Flags || m2.Rcode != m.Rcode {
		return pbt.Errf("header: unpacked id/flags/rcode %04x/%04x/%d want %04x/%04x/%d", m2.ID, m2.Flags, m2.Rcode, m.ID, m.Flags, m.Rcode)
	}
	p2, err := u.Pack()
	if err != nil || !bytes.Equal(p2, w) {
		return pbt.Errf("header: re-pack %x err=%v want %x", p2, err, w)
	}
	return nil
}

// one Msg value used for several messages in a row: nothing of the earlier message may survive
type reuseCase struct {
	A, B wm.Msg
}

func checkReuse(c reuseCase) error {
	wa, errA := wm.Encode(c.A)
	wb, errB := wm.Encode(c.B)
	if errA != nil || errB != nil {
		return nil
	}
	cl := []string{fmt.Sprintf("b-records=%d", min(len(c.B.AllRecs()), 4))}
	if c.A.Rcode > 15 {
		cl = append(cl, "a-extended-rcode")
		if c.B.Opt() < 0 {
			cl = append(cl, "a-extended-rcode,b-without-opt")
		}
	}
	pbt.Note(append(append([]byte{}, wa...), wb...), len(c.A.AllRecs()) > 0 && len(c.B.AllRecs()) < len(c.A.AllRecs()), cl...)
	var u dns.Msg
	if err := u.Unpack(wa); err != nil {
		return nil
	}
	// pack twice: the bookkeeping of the first Pack (RDLENGTH, OPT TTL) must not change the second
	p1, err1 := u.Pack()
	p2, err2 := u.Pack()
	if err1 == nil && (err2 != nil || !bytes.Equal(p1, p2)) {
		return pbt.Errf("packing the same message twice gives different results (err=%v): %s", err2, hexdiff(p2, p1))
	}
	if err := u.Unpack(wb); err != nil {
		return pbt.Errf("second Unpack into a used Msg failed: %v", err)
	}
	m2, err := wm.MsgFromLib(&u, true)
	if err != nil {
		return pbt.Errf("reused Msg cannot be read back: %v", err)
	}
	w2, err := wm.Encode(m2)
	if err != nil || !bytes.Equal(w2, wb) {
		return pbt.Errf("unpacking message B into a Msg that held message A gives neither: %s", hexdiff(w2, wb))
	}
	// and the value packs as message B (converse relation on a used value)
	for _, r := range c.B.AllRecs() {
		if r.NoRdata && pbt.Known("nordata-repack") {
			pbt.Excluded("nordata-repack")
			return nil
		}
	}
	if p, err := u.Pack(); err != nil || !bytes.Equal(p, wb) {
		return pbt.Errf("a Msg that held message A, after unpacking the canonical image of message B, packs differently (err=%v): %s", err, hexdiff(p, wb))
	}
	return nil
}

// reuseRcode keeps a 12-bit RCODE where the message can carry it (an OPT record is present): the
// upper bits then sit in the OPT record of the Msg value while the next message is read into it.
func reuseRcode(m wm.Msg) int {
	if m.Opt() >= 0 && m.Rcode >= 0 && m.Rcode <= 0xFFF {
		return m.Rcode
	}
	return m.Rcode & 0xF
}

func genReuse(t *rapid.T) reuseCase {
	a := genMsg(t).M
	a.Rcode = reuseRcode(a)
	var b wm.Msg
	switch rapid.IntRange(0, 3).Draw(t, "bkind") {
	case 0: // header only
		b = wm.Msg{ID: uint16(gen.UintB(t, 16)), Flags: uint16(rapid.IntRange(0, 4095).Draw(t, "f")) << 4}
	case 1: // question only
		b = wm.Msg{ID: 7, Flags: wm.FlagRD, Q: []wm.Question{{Name: gen.Name(t, gen.NameOpts{MaxLabs: 3}), Type: 1, Class: 1}}}
	default:
		b = genMsg(t).M
		b.Rcode = reuseRcode(b)
	}
	return reuseCase{A: a, B: b}
}

// RDATA of exactly 65535 octets packs, 65536 must be refused (never wrapped)
type bigCase struct {
	Type uint16
	Len  int
}

func checkBig(c bigCase) error {
	r := wm.Rec{Name: wm.MustName("big.example."), Type: c.Type, Class: 1, TTL: 1}
	switch c.Type {
	case wm.TTXT:
		var l [][]byte
		left := c.Len
		for left > 0 {
			k := min(left-1, 255)
			if left-1-k == 1 {
				k--
			}
			l = append(l, bytes.Repeat([]byte{'t'}, k))
			left -= 1 + k
		}
		r.Fields = []wm.Field{{K: wm.Strs, L: l}}
	case wm.TDNSKEY:
		r.Fields = []wm.Field{{K: wm.U16, U: 257}, {K: wm.U8, U: 3}, {K: wm.U8, U: 8}, {K: wm.Rest, B: bytes.Repeat([]byte{0x5a}, c.Len)}}
		c.Len += 4
	default:
		r.Fields = []wm.Field{{K: wm.Rest, B: bytes.Repeat([]byte{0x5a}, c.Len)}}
	}
	pbt.Note([]byte(fmt.Sprint(c.Type, c.Len)), true, fmt.Sprintf("rdlen=%d", c.Len))
	rr, err := wm.ToLib(r)
	if err != nil {
		return pbt.Errf("harness: %v", err)
	}
	m := &dns.Msg{}
	m.Answer = []dns.RR{rr}
	p, perr := m.Pack()
	if c.Len > 65535 {
		if perr == nil {
			return pbt.Errf("a %s record with %d octets of RDATA was packed (%d octets) instead of being refused", typeName(c.Type), c.Len, len(p))
		}
		return nil
	}
	if perr != nil {
		return pbt.Errf("a %s record with %d octets of RDATA (legal) cannot be packed: %v", typeName(c.Type), c.Len, perr)
	}
	want, _ := wm.Encode(wm.Msg{An: []wm.Rec{r}})
	if !bytes.Equal(p, want) {
		return pbt.Errf("%s with %d octets of RDATA: %s", typeName(c.Type), c.Len, hexdiff(p, want))
	}
	var u dns.Msg
	if err := u.Unpack(p); err != nil {
		return pbt.Errf("%s with %d octets of RDATA does not unpack: %v", typeName(c.Type), c.Len, err)
	}
	p2, err := u.Pack()
	if err != nil || !bytes.Equal(p2, p) {
		return pbt.Errf("%s with %d octets of RDATA does not survive unpack/pack (err=%v)", typeName(c.Type), c.Len, err)
	}
	return nil
}

func init() {
	pbt.RegisterEnum(pbt.Enum[bigCase]{Name: "rdata-size-limit", Exhaustive: true, Each: func(emit func(bigCase)) {
		for _, t := range []uint16{wm.TNULL, wm.TTXT, 65281, wm.TPrivate, wm.TOPENPGPKEY, wm.TDNSKEY} {
			for _, l := range []int{65534, 65535, 65536, 65537, 70000} {
				if t == wm.TDNSKEY {
					l -= 4 // flags, protocol, algorithm precede the key
				}
				emit(bigCase{Type: t, Len: l})
			}
		}
	}, Check: checkBig})
	pbt.Probe("nordata-repack", func() error {
		m := wm.Msg{ID: 1, Flags: 0x2800, Q: []wm.Question{{Name: wm.MustName("example."), Type: 6, Class: 1}},
			Ns: []wm.Rec{{Name: wm.MustName("a.example."), Type: wm.TMX, Class: 255, NoRdata: true}}}
		w, _ := wm.Encode(m)
		var u dns.Msg
		if err := u.Unpack(w); err != nil {
			return nil
		}
		p, err := u.Pack()
		if err != nil || !bytes.Equal(p, w) {
			return pbt.Errf("RDATA-less MX (dynamic update) unpacks and re-packs as %x, canonical image %x", p, w)
		}
		return nil
	})
	// ISDN: the sub-address is optional on the wire (RFC 1183 3.2); the generator always writes both
	// strings because the library cannot represent "absent" (see KNOWN_FINDINGS isdn-no-subaddress)
	pbt.Probe("isdn-no-subaddress", func() error {
		w := []byte{1, 'a', 0, 0, 20, 0, 1, 0, 0, 0, 5, 0, 4, 3, '1', '5', '0'}
		rr, _, err := dns.UnpackRR(w, 0)
		if err != nil {
			return nil
		}
		buf := make([]byte, 64)
		n, err := dns.PackRR(rr, buf, 0, nil, false)
		if err != nil || !bytes.Equal(buf[:n], w) {
			return pbt.Errf("ISDN with an address only (RDATA 03 31 35 30) re-packs as %x (err=%v)", buf[:n], err)
		}
		return nil
	})
	// Four more wire forms the generator never writes because the library's option / parameter
	// structs have no value for them (each a known finding; the probe is the failing input):
	optRoundTrip := func(what string, opt []byte) error {
		// root owner, OPT, UDP size 1232, TTL 0, RDLENGTH, option
		w := append([]byte{0, 0, 41, 4, 208, 0, 0, 0, 0, 0, byte(len(opt))}, opt...)
		rr, _, err := dns.UnpackRR(w, 0)
		if err != nil {
			return pbt.Errf("%s (OPT RDATA %x) is refused by the decoder: %v", what, opt, err)
		}
		buf := make([]byte, 128)
		n, err := dns.PackRR(rr, buf, 0, nil, false)
		if err != nil || !bytes.Equal(buf[:n], w) {
			return pbt.Errf("%s (OPT RDATA %x) re-packs as %x (err=%v)", what, opt, buf[min(n, 11):n], err)
		}
		return nil
	}
	pbt.Probe("keepalive-zero-timeout", func() error {
		return optRoundTrip("edns-tcp-keepalive with an explicit TIMEOUT of 0 (RFC 7828 3.1/3.4: the server asks the client to close the connection)", []byte{0, 11, 0, 2, 0, 0})
	})
	pbt.Probe("ul-zero-key-lease", func() error {
		return optRoundTrip("Update Lease in its 8-octet form with KEY-LEASE 0", []byte{0, 2, 0, 8, 0, 0, 0, 60, 0, 0, 0, 0})
	})
	pbt.Probe("zoneversion-empty", func() error {
		return optRoundTrip("ZONEVERSION with OPTION-LENGTH 0 (the query form of RFC 9660 section 2)", []byte{0, 19, 0, 0})
	})
	pbt.Probe("ipv6hint-v4-mapped", func() error {
		w := append([]byte{1, 'a', 0, 0, 64, 0, 1, 0, 0, 0, 5, 0, 23, 0, 1, 0, 0, 6, 0, 16}, 0, 0, 0, 0, 0, 0, 0, 0, 0, 0, 0xff, 0xff, 1, 2, 3, 4)
		rr, _, err := dns.UnpackRR(w, 0)
		if err != nil {
			return pbt.Errf("SVCB ipv6hint holding the 16 octets ::ffff:1.2.3.4 is refused by the decoder: %v", err)
		}
		buf := make([]byte, 128)
		n, err := dns.PackRR(rr, buf, 0, nil, false)
		if err != nil || !bytes.Equal(buf[:n], w) {
			return pbt.Errf("SVCB ipv6hint ::ffff:1.2.3.4 re-packs as %x (err=%v)", buf[:n], err)
		}
		return nil
	})
	pbt.Probe("amtrelay-dbit", func() error {
		return checkRR(rrCase{R: wm.Rec{Name: wm.MustName("a."), Type: wm.TAMTRELAY, Class: 1, Fields: []wm.Field{
			{K: wm.U8, U: 10}, {K: wm.U8, U: 0x81}, {K: wm.GW, U: 1, B: []byte{192, 0, 2, 1}}}}})
	})
	pbt.Probe("octet-backslash", func() error {
		return checkRR(rrCase{R: wm.Rec{Name: wm.MustName("a."), Type: wm.TCAA, Class: 1, Fields: []wm.Field{
			{K: wm.U8, U: 0}, {K: wm.Str, B: []byte("issue")}, {K: wm.Rest, B: []byte(`a\b\065`)}}}})
	})

	pbt.Register(pbt.Sub[msgCase]{Name: "message", Weight: 10, Gen: genMsg, Check: checkMsg})
	pbt.Register(pbt.Sub[msgCase]{Name: "section-counts", Weight: 0.02, Gen: genCounts, Check: checkMsg})
	pbt.Register(pbt.Sub[rrCase]{Name: "record", Weight: 30, Gen: genRR, Check: checkRR})
	pbt.Register(pbt.Sub[reuseCase]{Name: "msg-value-reused", Weight: 4, Gen: genReuse, Check: checkReuse})
	pbt.RegisterEnum(pbt.Enum[rrCase]{Name: "record-boundary-sweep", Each: eachType, Check: checkRR})
	pbt.RegisterEnum(pbt.Enum[hdrCase]{Name: "header-words-exhaustive", Exhaustive: true, Each: func(emit func(hdrCase)) {
		step := 1
		if !pbt.Thorough() {
			step = 1 // cheap enough for quick too
		}
		for b := 0; b < 65536; b += 16 * step {
			emit(hdrCase{Bits: uint16(b), Rcode: b / 16 % 16, Opt: false})
		}
	}, Check: checkHdr})
	pbt.RegisterEnum(pbt.Enum[hdrCase]{Name: "rcode-exhaustive", Exhaustive: true, Each: func(emit func(hdrCase)) {
		for rc := 0; rc < 4096; rc++ {
			emit(hdrCase{Bits: 0x8000, Rcode: rc, Opt: true})
			emit(hdrCase{Bits: 0x8000, Rcode: rc, Opt: false})
		}
	}, Check: checkHdr})
}
