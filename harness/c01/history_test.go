package c01

import (
	"bytes"
	"fmt"
	"strings"

	"github.com/miekg/dns"
	"pgregory.net/rapid"

	"verif/harness/gen"
	"verif/harness/pbt"
	wm "verif/harness/wiremodel"
)

// ---------------------------------------------------------------------------------------------
// msg-history: ONE dns.Msg value (and ONE *dns.OPT) lives through a sequence of caller actions;
// after every action the value is packed and the octets are compared with the RFC encoding of what
// the value says *now*. The statement quantifies over every message - a message does not stop being
// one because the Go value holding it was packed, unpacked into, or edited before. What an earlier
// Pack / Unpack / setter call left behind in the value (the extended-RCODE octet in the OPT TTL, the
// RDLENGTH written back into the record headers) must not show up in the next image.
//
// The steps are the things callers do with a message between two Packs: change the RCODE (servers
// send one prepared reply with several RCODEs; forwarders unpack an upstream answer, change the
// RCODE and send it on), change header bits or the id, use the OPT setters (version, DO, CO, Z, UDP
// size, SetExtendedRcode together with Msg.Rcode), take the OPT record out of the additional section
// and put the same *OPT back later, unpack another message into the value, add or drop a record.
//
// Round 9: the value's Compress flag is part of the history (drawn at the start, toggled by a step),
// and so is a Pack that FAILS: a record that is not well-formed (a 256-octet character-string, an
// owner name that is not fully qualified, a nil RR, bad hex / base64 text, a 64-octet label, a name
// over 255 octets) is put into the value - or into another Msg value holding the same message - and
// Pack is called; nothing is asserted about that call (the statement speaks of well-formed records
// only), the record is taken out again, and the ordinary Pack that follows is held to the statement
// like any other: what the failed attempt left behind anywhere (in the value, or in state the packer
// keeps between calls) must not show up in the image. An image packed with Compress set has no
// unique octet string; the RFC layout it must follow is RFC 1035 4.1.4: the harness's own
// pointer-following decoder must read it, strictly, as exactly the message the value holds, every
// pointer must lead to a prior offset, and the library's Unpack of those octets must give the same
// message back.

type histStep struct {
	Op     string  // see applyStep
	N      int     `json:",omitempty"`
	NoPack bool    `json:",omitempty"` // the value is not packed after this step (the next step works on it as it is)
	Msg    *wm.Msg `json:",omitempty"` // "unpack": the message whose canonical image is read into the value; "failed-pack" with Other: the message of the other value (nil: the present state of this one)
	Rec    *wm.Rec `json:",omitempty"` // "add-rec"
	Bad    int     `json:",omitempty"` // "failed-pack": which ill-formed record (badRecord); N: the section it goes into
	Other  bool    `json:",omitempty"` // "failed-pack": the failing Pack happens on another Msg value
	C      bool    `json:",omitempty"` // "failed-pack" with Other: the Compress flag of that value
}

type histCase struct {
	Start    wm.Msg
	Compress bool `json:",omitempty"` // Msg.Compress of the value at the start
	Steps    []histStep
}

// badRecord returns a record that is NOT well-formed (Pack is expected to refuse it, nothing is
// asserted about that) and a word for the class histogram.
const badKinds = 7

func badRecord(kind, section int) (dns.RR, string) {
	hdr := func(t uint16) dns.RR_Header {
		return dns.RR_Header{Name: "ill-formed.example.", Rrtype: t, Class: dns.ClassINET, Ttl: 60}
	}
	switch kind % badKinds {
	case 1:
		h := hdr(dns.TypeA)
		h.Name = "not-fully-qualified"
		return &dns.A{Hdr: h, A: []byte{192, 0, 2, 1}}, "owner-not-fqdn"
	case 2:
		if section%3 != 2 { // (Msg.IsEdns0 walks the additional section and cannot stand a nil there)
			return nil, "nil-rr"
		}
	case 3:
		return &dns.DS{Hdr: hdr(dns.TypeDS), KeyTag: 1, Algorithm: 8, DigestType: 2, Digest: "zz"}, "bad-hex"
	case 4:
		return &dns.NS{Hdr: hdr(dns.TypeNS), Ns: strings.Repeat("a", 64) + ".example."}, "label-64"
	case 5:
		return &dns.DNSKEY{Hdr: hdr(dns.TypeDNSKEY), Flags: 257, Protocol: 3, Algorithm: 8, PublicKey: "!!!"}, "bad-base64"
	case 6:
		return &dns.MX{Hdr: hdr(dns.TypeMX), Preference: 1, Mx: strings.Repeat(strings.Repeat("b", 60)+".", 5)}, "name-over-255"
	}
	return &dns.TXT{Hdr: hdr(dns.TypeTXT), Txt: []string{strings.Repeat("x", 256)}}, "string-256"
}

// histState is the model next to the library value.
type histState struct {
	lib      *dns.Msg
	cur      wm.Msg
	compress bool // Msg.Compress of the value
	// classification only: the last failing Pack ran with compression over a message that had names
	// to remember, and no successful Pack happened since; the names it had got through
	failedCompressed bool
	failedNames      map[string]bool
	failedSrc        wm.Msg   // the message of that Pack without the ill-formed record
	heldLib          *dns.OPT // the OPT record while it is out of the message (same pointer goes back in)
	heldRec          *wm.Rec
	// classification only: where the upper RCODE bits in the OPT record of the value came from
	origin, heldOrigin string
}

func setLibFlags(x *dns.Msg, flags uint16) {
	x.Response = flags&wm.FlagQR != 0
	x.Opcode = int(flags >> 11 & 0xF)
	x.Authoritative = flags&wm.FlagAA != 0
	x.Truncated = flags&wm.FlagTC != 0
	x.RecursionDesired = flags&wm.FlagRD != 0
	x.RecursionAvailable = flags&wm.FlagRA != 0
	x.Zero = flags&wm.FlagZ != 0
	x.AuthenticatedData = flags&wm.FlagAD != 0
	x.CheckingDisabled = flags&wm.FlagCD != 0
}

// libOpt finds the OPT record by walking the section itself (not through Msg.IsEdns0: the check
// should not depend on the helper the packer uses).
func libOpt(x *dns.Msg) (int, *dns.OPT) {
	for i, rr := range x.Extra {
		if o, ok := rr.(*dns.OPT); ok {
			return i, o
		}
	}
	return -1, nil
}

// applyStep changes the library value and the model in step. It returns the classes the step
// belongs to, or an error if the library contradicts the property inside the step (unpack).
func (s *histState) applyStep(st histStep) ([]string, error) {
	var classes []string
	oi := s.cur.Opt()
	li, lopt := libOpt(s.lib)
	if oi != li {
		return nil, pbt.Errf("history: the OPT record is at index %d of the additional section, want %d", li, oi)
	}
	switch st.Op {
	case "pack", "packbuf":
		// nothing changes: the same message is packed again
	case "rcode":
		s.lib.Rcode = st.N
		s.cur.Rcode = st.N
	case "rcode-opt":
		// the caller keeps both places in step himself (documented setter), as code written before
		// Pack did it for him does
		s.lib.Rcode = st.N
		s.cur.Rcode = st.N
		if lopt != nil && st.N >= 0 && st.N <= 0xFFF {
			lopt.SetExtendedRcode(uint16(st.N))
			s.origin = "setter"
		}
	case "flags":
		f := uint16(st.N) &^ 0xF
		setLibFlags(s.lib, f)
		s.cur.Flags = f
	case "id":
		s.lib.Id = uint16(st.N)
		s.cur.ID = uint16(st.N)
	case "do", "co", "version", "udpsize", "z":
		if lopt == nil {
			break
		}
		r := &s.cur.Ex[oi]
		switch st.Op {
		case "do":
			if st.N&1 == 1 {
				lopt.SetDo() // the argument-less form sets the bit
				r.TTL |= 0x8000
			} else {
				lopt.SetDo(false)
				r.TTL &^= 0x8000
			}
		case "co":
			lopt.SetCo(st.N&1 == 1)
			r.TTL = r.TTL&^0x4000 | uint32(st.N&1)<<14
		case "version":
			lopt.SetVersion(uint8(st.N))
			r.TTL = r.TTL&0xFF00FFFF | uint32(uint8(st.N))<<16
		case "udpsize":
			lopt.SetUDPSize(uint16(st.N))
			r.Class = uint16(st.N)
		case "z":
			lopt.SetZ(uint16(st.N))
			r.TTL = r.TTL&^0x3FFF | uint32(st.N&0x3FFF)
		}
	case "toggle-opt":
		if lopt == nil {
			// put the record that was taken out back in (the same *OPT, with whatever it holds), or a
			// fresh one built the way the documentation shows
			if s.heldLib == nil {
				o := &dns.OPT{Hdr: dns.RR_Header{Name: ".", Rrtype: dns.TypeOPT}}
				o.SetUDPSize(uint16(st.N))
				s.heldLib = o
				s.heldRec = &wm.Rec{Type: wm.TOPT, Class: uint16(st.N), Fields: []wm.Field{{K: wm.Opts}}}
				s.heldOrigin = ""
				classes = append(classes, "fresh-opt-added")
			} else {
				classes = append(classes, "same-opt-put-back")
			}
			s.lib.Extra = append(s.lib.Extra, s.heldLib)
			s.cur.Ex = append(append([]wm.Rec{}, s.cur.Ex...), *s.heldRec)
			s.heldLib, s.heldRec = nil, nil
			s.origin = s.heldOrigin
			break
		}
		s.heldLib = lopt
		rec := s.cur.Ex[oi]
		s.heldRec = &rec
		s.heldOrigin = s.origin
		s.lib.Extra = append(append([]dns.RR{}, s.lib.Extra[:li]...), s.lib.Extra[li+1:]...)
		s.cur.Ex = append(append([]wm.Rec{}, s.cur.Ex[:oi]...), s.cur.Ex[oi+1:]...)
		classes = append(classes, "opt-taken-out")
	case "unpack":
		w, err := wm.Encode(*st.Msg)
		if err != nil {
			break
		}
		in := append([]byte(nil), w...)
		if err := s.lib.Unpack(in); err != nil {
			return nil, pbt.Errf("history: Unpack of a canonical image into the used Msg failed: %v (%s)", err, hx(w))
		}
		for i := range in {
			in[i] = 0x5C
		}
		m2, err := wm.MsgFromLib(s.lib, true)
		if err != nil {
			return nil, pbt.Errf("history: message unpacked into the used Msg cannot be read back: %v", err)
		}
		if w2, err := wm.Encode(m2); err != nil || !bytes.Equal(w2, w) {
			return nil, pbt.Errf("history: unpacking into the used Msg gives another message: %s", hexdiff(w2, w))
		}
		s.cur = *st.Msg
		s.cur.Ex = append([]wm.Rec{}, s.cur.Ex...)
		s.origin = "unpack"
		if s.cur.Rcode > 15 {
			classes = append(classes, "unpacked-extended-rcode")
		}
	case "add-rec":
		rr, err := wm.ToLib(*st.Rec)
		if err != nil || st.Rec.Type == wm.TOPT {
			break
		}
		switch st.N % 3 {
		case 0:
			s.lib.Answer = append(s.lib.Answer, rr)
			s.cur.An = append(append([]wm.Rec{}, s.cur.An...), *st.Rec)
		case 1:
			s.lib.Ns = append(s.lib.Ns, rr)
			s.cur.Ns = append(append([]wm.Rec{}, s.cur.Ns...), *st.Rec)
		default:
			s.lib.Extra = append(s.lib.Extra, rr)
			s.cur.Ex = append(append([]wm.Rec{}, s.cur.Ex...), *st.Rec)
		}
	case "compress":
		s.lib.Compress = st.N&1 == 1
		s.compress = st.N&1 == 1
	case "failed-pack":
		bad, what := badRecord(st.Bad, st.N)
		x, compress := s.lib, s.compress
		if st.Other {
			src := s.cur
			if st.Msg != nil {
				src = *st.Msg
				classes = append(classes, "failed-pack:other-value-other-message")
			} else {
				classes = append(classes, "failed-pack:other-value-same-message")
			}
			o, err := wm.MsgToLib(src, st.C)
			if err != nil {
				classes = append(classes, "failed-pack:skipped")
				break
			}
			x, compress = o, st.C
			s.failedNames, s.failedSrc = suffixKeys(src), src
		} else {
			classes = append(classes, "failed-pack:same-value")
			s.failedNames, s.failedSrc = suffixKeys(s.cur), s.cur
		}
		var sec *[]dns.RR
		switch st.N % 3 {
		case 0:
			sec = &x.Answer
		case 1:
			sec = &x.Ns
		default:
			sec = &x.Extra
		}
		n := len(*sec)
		*sec = append((*sec)[:n:n], bad)
		var perr error
		func() {
			// an ill-formed record is outside the statement: neither an error nor a panic of this call is
			// judged here (C02 and the packer's own tests are about that)
			defer func() {
				if r := recover(); r != nil {
					perr = fmt.Errorf("panic: %v", r)
					classes = append(classes, "failed-pack:panicked")
				}
			}()
			if st.Bad/badKinds%2 == 1 {
				_, perr = x.PackBuffer(make([]byte, 600))
			} else {
				_, perr = x.Pack()
			}
		}()
		*sec = (*sec)[:n]
		classes = append(classes, "ill-formed:"+what)
		if perr == nil {
			classes = append(classes, "failed-pack:did-not-fail")
			break
		}
		classes = append(classes, "failed-pack:refused")
		if compress {
			s.failedCompressed = true
		}
	case "drop-rec":
		// the first record of the first non-empty section that is not the OPT record
		switch {
		case len(s.cur.An) > 0:
			s.lib.Answer = s.lib.Answer[1:]
			s.cur.An = s.cur.An[1:]
		case len(s.cur.Ns) > 0:
			s.lib.Ns = s.lib.Ns[1:]
			s.cur.Ns = s.cur.Ns[1:]
		case len(s.cur.Ex) > 0 && oi != 0:
			s.lib.Extra = s.lib.Extra[1:]
			s.cur.Ex = s.cur.Ex[1:]
		}
	default:
		return nil, pbt.Errf("harness: unknown step %q", st.Op)
	}
	return append(classes, "op:"+st.Op), nil
}

// packAndCompare packs the value and compares with the RFC encoding of the model.
func (s *histState) packAndCompare(step int, st histStep) (w []byte, err error) {
	w, encErr := wm.Encode(s.cur)
	var p []byte
	var packErr error
	if st.Op == "packbuf" {
		p, packErr = s.lib.PackBuffer(bytes.Repeat([]byte{0xA5}, len(w)+3))
	} else {
		p, packErr = s.lib.Pack()
	}
	at := fmt.Sprintf("step %d (%s %d)", step, st.Op, st.N)
	if step < 0 {
		at = "first Pack"
	}
	if encErr != nil {
		if packErr == nil {
			return nil, pbt.Errf("history, %s: the message (rcode %d, OPT index %d) has no wire form (%v) but Pack succeeded: %s", at, s.cur.Rcode, s.cur.Opt(), encErr, hx(p))
		}
		return nil, nil
	}
	if packErr != nil {
		return nil, pbt.Errf("history, %s: Pack failed on a representable message (rcode %d): %v (reference %s)", at, s.cur.Rcode, packErr, hx(w))
	}
	if s.compress {
		if err := compressedImage(at, p, w); err != nil {
			return nil, err
		}
	} else if !bytes.Equal(p, w) {
		return nil, pbt.Errf("history, %s: Pack of the value as it is now (rcode %d) differs from the RFC encoding: %s", at, s.cur.Rcode, hexdiff(p, w))
	}
	// and it reads back: RCODE re-joined
	var u dns.Msg
	in := append([]byte(nil), p...)
	if err := u.Unpack(in); err != nil {
		return nil, pbt.Errf("history, %s: the packed image does not unpack: %v (%s)", at, err, hx(p))
	}
	if u.Rcode != s.cur.Rcode {
		return nil, pbt.Errf("history, %s: packed with rcode %d, reads back as %d", at, s.cur.Rcode, u.Rcode)
	}
	if s.compress {
		// "unpacking those octets yields a message equal to the original" - for the uncompressed image
		// (== w) this is relation (2) of the message sub-check; a compressed image is only seen here
		for i := range in {
			in[i] = 0x5C
		}
		m2, err := wm.MsgFromLib(&u, true)
		if err != nil {
			return nil, pbt.Errf("history, %s: the unpacked compressed image cannot be read back: %v", at, err)
		}
		if w2, err := wm.Encode(m2); err != nil || !bytes.Equal(w2, w) {
			return nil, pbt.Errf("history, %s: Unpack of the image packed with Compress set gives another message (err=%v): %s; image %s", at, err, hexdiff(w2, w), hx(p))
		}
		return p, nil
	}
	return w, nil
}

// compressedImage holds an image packed with Compress set against RFC 1035 4.1.4: read by the
// harness's strict pointer-following decoder it is exactly the message whose canonical uncompressed
// encoding is w (names octet for octet), and every pointer leads to a prior offset. (Which names
// are compressed, how well, and the 16384 limit are C04's business.)
func compressedImage(at string, p, w []byte) error {
	var tr wm.Trace
	mc, err := wm.Decode(p, &tr)
	if err != nil {
		return pbt.Errf("history, %s: the image packed with Compress set is not a message an RFC 1035 decoder can read: %v; image %s, the message uncompressed %s", at, err, hx(p), hx(w))
	}
	wc, err := wm.Encode(mc)
	if err != nil || !bytes.Equal(wc, w) {
		return pbt.Errf("history, %s: the image packed with Compress set reads (pointers followed) as another message than the value holds (err=%v): %s; image %s", at, err, hexdiff(wc, w), hx(p))
	}
	for _, nr := range tr.Names {
		for _, ptr := range nr.Ptrs {
			if ptr.Target >= ptr.At {
				return pbt.Errf("history, %s: compression pointer at offset %d leads to offset %d, not to a prior occurrence (RFC 1035 4.1.4); image %s", at, ptr.At, ptr.Target, hx(p))
			}
		}
	}
	return nil
}

// suffixKeys: every non-root suffix of every question, owner and RDATA name of the message
// (classification only: what a compressing packer may have remembered).
func suffixKeys(m wm.Msg) map[string]bool {
	out := map[string]bool{}
	add := func(n wm.Name) {
		for i := range n {
			out[string(wm.EncodeName(n[i:]))] = true
		}
	}
	for _, q := range m.Q {
		add(q.Name)
	}
	for _, r := range m.AllRecs() {
		add(r.Name)
		for _, f := range r.Fields {
			add(f.N)
			for _, n := range f.NL {
				add(n)
			}
		}
	}
	return out
}

func compressible(m wm.Msg) bool { return len(m.Q) > 1 || len(m.AllRecs()) > 0 }

func checkHistory(c histCase) error {
	lib, err := wm.MsgToLib(c.Start, c.Compress)
	if err != nil {
		return nil
	}
	s := &histState{lib: lib, cur: c.Start, compress: c.Compress}
	s.cur.Ex = append([]wm.Rec{}, s.cur.Ex...)
	var classes []string
	if c.Compress {
		classes = append(classes, "starts-with-compress-set")
	}
	var key []byte
	distinct := 0
	var last []byte
	note := func(w []byte) {
		if w != nil {
			if last == nil || !bytes.Equal(w, last) {
				distinct++
			}
			last = w
			key = append(key, w...)
		}
	}
	finish := func(err error) error {
		pbt.Note(key, distinct >= 2, classes...)
		return err
	}
	w, err := s.packAndCompare(-1, histStep{Op: "pack"})
	if err != nil {
		return finish(err)
	}
	note(w)
	if w != nil && s.cur.Opt() >= 0 {
		s.origin = "pack"
	}
	for i, st := range c.Steps {
		cl, err := s.applyStep(st)
		classes = append(classes, cl...)
		if err != nil {
			return finish(err)
		}
		// classification only (the oracle never looks at the library's OPT TTL): the OPT record in the
		// value holds upper RCODE bits - left by an earlier Pack, an Unpack or the setter - and the
		// message now says a plain RCODE
		if _, lopt := libOpt(s.lib); lopt != nil && lopt.Hdr.Ttl>>24 != 0 && s.cur.Rcode <= 15 {
			if !st.NoPack {
				classes = append(classes, "plain-rcode-after-extended", "stale-bits-from:"+s.origin)
			}
		}
		if st.NoPack {
			classes = append(classes, "step-without-pack")
			continue
		}
		if s.compress && compressible(s.cur) {
			classes = append(classes, "compressed-pack")
			if s.failedCompressed {
				// the class of round 9: the ordinary Pack of a well-formed message after a Pack that failed
				classes = append(classes, "compressed-pack-after-failed-compressed-pack")
				for k := range suffixKeys(s.cur) {
					if s.failedNames[k] {
						classes = append(classes, "compressed-pack-after-failed-compressed-pack,shared-name")
						break
					}
				}
			}
		}
		w, err := s.packAndCompare(i, st)
		if err != nil {
			return finish(err)
		}
		note(w)
		if w != nil && s.compress && compressible(s.cur) {
			s.failedCompressed = false
		}
		if w != nil && s.cur.Opt() >= 0 {
			s.origin = "pack"
		}
	}
	// A compressed Pack failed and no compressed Pack was held to the statement since (the value has
	// Compress off, holds nothing to compress, or the history ended): the same message without the
	// ill-formed record, and the message the value holds now, are packed compressed from fresh values.
	// (Also keeps a case self-contained: whatever that failure left behind is met here, not by the
	// first Pack of the next case.)
	if s.failedCompressed {
		for i, m := range []wm.Msg{s.failedSrc, s.cur} {
			w, encErr := wm.Encode(m)
			fresh, err := wm.MsgToLib(m, true)
			if encErr != nil || err != nil || !compressible(m) {
				continue
			}
			p, err := fresh.Pack()
			at := []string{"fresh value holding the message whose Pack failed, without the ill-formed record", "fresh value holding the final message"}[i]
			if err != nil {
				return finish(pbt.Errf("history, %s: Pack with Compress set failed on a representable message: %v (reference %s)", at, err, hx(w)))
			}
			if err := compressedImage(at, p, w); err != nil {
				return finish(err)
			}
			classes = append(classes, "compressed-pack-after-failed-compressed-pack", "fresh-value-after-failed-compressed-pack")
			note(p)
		}
	}
	if len(classes) > 0 {
		pbt.Sample(classes[len(classes)-1], c)
	}
	return finish(nil)
}

var histRcodes = []int{0, 1, 2, 3, 5, 9, 15, 16, 17, 22, 23, 31, 32, 255, 256, 0xABC, 0xFF0, 4095}

func genHistRcode(t *rapid.T, label string) int {
	switch rapid.IntRange(0, 5).Draw(t, label+"k") {
	case 0, 1:
		return rapid.IntRange(0, 15).Draw(t, label+"lo")
	case 2:
		return rapid.IntRange(16, 4095).Draw(t, label+"hi")
	default:
		return rapid.SampledFrom(histRcodes).Draw(t, label)
	}
}

// genHistMsg draws a small message for the history check (start value or the image of an unpack
// step). RDATA-less records re-pack with RDATA once they went through Unpack (known finding
// nordata-repack): while that holds, messages that are unpacked carry none.
func genHistMsg(t *rapid.T, unpacked bool) wm.Msg {
	mo := &gen.MsgOpts{AnyHeader: true, MaxRecs: 2, MaxQ: 1}
	mo.Avoid = avoid()
	mo.Excluded = pbt.Excluded
	mo.NoRdata = true
	mo.Unknown = true
	m := gen.Msg(t, mo)
	if unpacked && pbt.Known("nordata-repack") {
		for _, sec := range m.Sections() {
			var keep []wm.Rec
			for _, r := range *sec {
				if r.NoRdata {
					pbt.Excluded("nordata-repack")
					continue
				}
				keep = append(keep, r)
			}
			*sec = keep
		}
	}
	if m.Opt() < 0 && rapid.IntRange(0, 3).Draw(t, "forceopt") != 0 {
		// most histories are about a message with an OPT record
		pos := rapid.IntRange(0, len(m.Ex)).Draw(t, "optpos")
		m.Ex = append(m.Ex[:pos:pos], append([]wm.Rec{gen.OptRec(t, &mo.Opts)}, m.Ex[pos:]...)...)
	}
	if m.Opt() >= 0 {
		m.Rcode = genHistRcode(t, "rc")
	}
	cookiesMsg(&m)
	return m
}

func genHistory(t *rapid.T) histCase {
	c := histCase{Start: genHistMsg(t, false), Compress: rapid.Bool().Draw(t, "compress")}
	maxSteps := 6
	if pbt.Thorough() {
		maxSteps = 12
	}
	n := rapid.IntRange(1, maxSteps).Draw(t, "nsteps")
	lowerNext := false
	for i := 0; i < n; i++ {
		var st histStep
		k := rapid.IntRange(0, 24).Draw(t, "op") + 3
		if lowerNext {
			k = 3
		}
		switch {
		case lowerNext:
			st = histStep{Op: "rcode", N: rapid.IntRange(0, 15).Draw(t, "rcodelo")}
		case k < 8:
			st = histStep{Op: "rcode", N: genHistRcode(t, "rcode")}
		case k < 10:
			st = histStep{Op: "rcode-opt", N: genHistRcode(t, "rcode")}
		case k < 12:
			m := genHistMsg(t, true)
			st = histStep{Op: "unpack", Msg: &m}
		case k == 12:
			st = histStep{Op: "pack"}
		case k == 13:
			st = histStep{Op: "packbuf"}
		case k == 14:
			st = histStep{Op: "flags", N: rapid.IntRange(0, 65535).Draw(t, "flags") &^ 0xF}
		case k == 15:
			st = histStep{Op: "id", N: int(gen.UintB(t, 16))}
		case k == 16:
			st = histStep{Op: rapid.SampledFrom([]string{"do", "co"}).Draw(t, "bit"), N: rapid.IntRange(0, 1).Draw(t, "on")}
		case k == 17:
			st = histStep{Op: "version", N: int(gen.UintB(t, 8))}
		case k == 18:
			st = histStep{Op: rapid.SampledFrom([]string{"udpsize", "z"}).Draw(t, "field"), N: int(gen.UintB(t, 16))}
		case k >= 19 && k <= 22:
			st = histStep{Op: "toggle-opt", N: rapid.SampledFrom([]int{0, 512, 1232, 4096, 65535}).Draw(t, "size")}
		case k == 24:
			st = histStep{Op: "compress", N: rapid.IntRange(0, 1).Draw(t, "on")}
		case k >= 25:
			// a Pack that fails (ill-formed record in section N), in this value or in another one that
			// holds the same message (a second reply built for the same question) or an unrelated one
			st = histStep{Op: "failed-pack", Bad: rapid.IntRange(0, 2*badKinds-1).Draw(t, "bad"), N: rapid.IntRange(0, 2).Draw(t, "sec")}
			switch rapid.IntRange(0, 5).Draw(t, "where") {
			case 0, 1:
				st.Other, st.C = true, rapid.IntRange(0, 3).Draw(t, "othercompress") != 0
			case 2:
				m := genHistMsg(t, false)
				st.Other, st.C, st.Msg = true, rapid.IntRange(0, 3).Draw(t, "othercompress") != 0, &m
			}
		default:
			if rapid.Bool().Draw(t, "add") {
				o := &gen.Opts{Avoid: avoid(), Excluded: pbt.Excluded, Unknown: true, MaxBlob: 40}
				r := gen.Rec(t, o)
				cookiesRec(&r)
				st = histStep{Op: "add-rec", N: rapid.IntRange(0, 2).Draw(t, "sec"), Rec: &r}
			} else {
				st = histStep{Op: "drop-rec"}
			}
		}
		if st.Op != "pack" && st.Op != "packbuf" && i < n-1 {
			st.NoPack = rapid.IntRange(0, 2).Draw(t, "nopack") == 0
			if st.Op == "failed-pack" && st.NoPack {
				st.NoPack = rapid.IntRange(0, 2).Draw(t, "nopack2") == 0 // mostly: the failure, then the ordinary Pack at once
			}
		}
		// the forwarder's sequence, literally: the upper bits arrive (Unpack / setter), the RCODE is
		// lowered, and only then the value is packed
		lowerNext = false
		if i < n-1 && (st.Op == "rcode-opt" && st.N > 15 || st.Op == "unpack" && st.Msg.Rcode > 15) && rapid.Bool().Draw(t, "thenlower") {
			st.NoPack, lowerNext = true, true
		}
		c.Steps = append(c.Steps, st)
	}
	return c
}

func init() {
	pbt.Register(pbt.Sub[histCase]{Name: "msg-history", Weight: 2, Gen: genHistory, Check: checkHistory})
}
