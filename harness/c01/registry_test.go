package c01

import (
	"bytes"
	"encoding/binary"
	"fmt"
	"strconv"

	"github.com/miekg/dns"
	"pgregory.net/rapid"

	"verif/harness/pbt"
)

// User-registered private types: whatever codec is registered for a (name, code) at the time is
// the one Pack and Unpack use - also after the same name and code were registered again with
// another codec, and after a removal.

const regType = 65301

type codecA struct{ V uint16 }

func (c *codecA) String() string { return strconv.Itoa(int(c.V)) }
func (c *codecA) Parse(s []string) error {
	v, err := strconv.Atoi(s[0])
	c.V = uint16(v)
	return err
}
func (c *codecA) Pack(b []byte) (int, error) {
	if len(b) < 2 {
		return 0, dns.ErrBuf
	}
	binary.BigEndian.PutUint16(b, c.V)
	return 2, nil
}
func (c *codecA) Unpack(b []byte) (int, error) {
	if len(b) < 2 {
		return 0, dns.ErrBuf
	}
	c.V = binary.BigEndian.Uint16(b)
	return 2, nil
}
func (c *codecA) Copy(d dns.PrivateRdata) error { d.(*codecA).V = c.V; return nil }
func (c *codecA) Len() int                     { return 2 }

type codecB struct {
	Serial uint32
	Tag    byte
}

func (c *codecB) String() string { return fmt.Sprint(c.Serial, " ", c.Tag) }
func (c *codecB) Parse(s []string) error {
	v, err := strconv.Atoi(s[0])
	c.Serial = uint32(v)
	return err
}
func (c *codecB) Pack(b []byte) (int, error) {
	if len(b) < 5 {
		return 0, dns.ErrBuf
	}
	binary.BigEndian.PutUint32(b, c.Serial)
	b[4] = c.Tag
	return 5, nil
}
func (c *codecB) Unpack(b []byte) (int, error) {
	if len(b) < 5 {
		return 0, dns.ErrBuf
	}
	c.Serial, c.Tag = binary.BigEndian.Uint32(b), b[4]
	return 5, nil
}
func (c *codecB) Copy(d dns.PrivateRdata) error { *d.(*codecB) = *c; return nil }
func (c *codecB) Len() int                     { return 5 }

type regCase struct {
	Ops []int // 0: register codec A, 1: register codec B, 2: remove, 3: round trip
	Val uint32
}

func checkRegistry(c regCase) error {
	defer dns.PrivateHandleRemove(regType)
	dns.PrivateHandleRemove(regType)
	cur := -1
	pbt.Note([]byte(fmt.Sprint(c.Ops, c.Val)), len(c.Ops) > 2, fmt.Sprintf("ops=%d", min(len(c.Ops), 6)))
	for step, op := range c.Ops {
		switch op {
		case 0:
			dns.PrivateHandle("VREG", regType, func() dns.PrivateRdata { return new(codecA) })
			cur = 0
		case 1:
			dns.PrivateHandle("VREG", regType, func() dns.PrivateRdata { return new(codecB) })
			cur = 1
		case 2:
			dns.PrivateHandleRemove(regType)
			cur = -1
		case 3:
			if cur < 0 {
				// nothing is registered (any more): the type is an unknown type again
				w := []byte{1, 'p', 0, byte(regType >> 8), byte(regType & 0xff), 0, 1, 0, 0, 0, 7, 0, 2, 0xab, 0xcd}
				u, _, err := dns.UnpackRR(w, 0)
				if err != nil {
					return pbt.Errf("step %d of %v: UnpackRR of the unregistered type fails: %v", step, c.Ops, err)
				}
				if g, ok := u.(*dns.RFC3597); !ok || g.Rdata != "abcd" {
					return pbt.Errf("step %d of %v: with no codec registered the record decodes as %T (%s), want the RFC 3597 form", step, c.Ops, u, u)
				}
				continue
			}
			var data dns.PrivateRdata
			var rd []byte
			if cur == 0 {
				data, rd = &codecA{V: uint16(c.Val)}, binary.BigEndian.AppendUint16(nil, uint16(c.Val))
			} else {
				data, rd = &codecB{Serial: c.Val, Tag: byte(c.Val >> 3)}, append(binary.BigEndian.AppendUint32(nil, c.Val), byte(c.Val>>3))
			}
			rr := &dns.PrivateRR{Hdr: dns.RR_Header{Name: "p.example.", Rrtype: regType, Class: 1, Ttl: 7}, Data: data}
			want := append([]byte{1, 'p', 7, 'e', 'x', 'a', 'm', 'p', 'l', 'e', 0, byte(regType >> 8), byte(regType & 0xff), 0, 1, 0, 0, 0, 7, 0, byte(len(rd))}, rd...)
			buf := make([]byte, 64)
			off, err := dns.PackRR(rr, buf, 0, nil, false)
			if err != nil || !bytes.Equal(buf[:off], want) {
				return pbt.Errf("step %d of %v: PackRR of a record of the registered private type gives %x (err=%v), want %x", step, c.Ops, buf[:max(off, 0)], err, want)
			}
			u, uoff, err := dns.UnpackRR(want, 0)
			if err != nil || uoff != len(want) {
				return pbt.Errf("step %d of %v: UnpackRR with codec %d registered fails: %v (consumed %d of %d)", step, c.Ops, cur, err, uoff, len(want))
			}
			p, ok := u.(*dns.PrivateRR)
			if !ok {
				return pbt.Errf("step %d of %v: UnpackRR gives %T, not a PrivateRR", step, c.Ops, u)
			}
			switch d := p.Data.(type) {
			case *codecA:
				if cur != 0 || d.V != uint16(c.Val) {
					return pbt.Errf("step %d of %v: decoded with codec A (%d) while codec %d is registered", step, c.Ops, d.V, cur)
				}
			case *codecB:
				if cur != 1 || d.Serial != c.Val {
					return pbt.Errf("step %d of %v: decoded with codec B (%d) while codec %d is registered", step, c.Ops, d.Serial, cur)
				}
			default:
				return pbt.Errf("step %d of %v: unexpected data type %T", step, c.Ops, p.Data)
			}
			off2, err := dns.PackRR(u, buf, 0, nil, false)
			if err != nil || !bytes.Equal(buf[:off2], want) {
				return pbt.Errf("step %d of %v: re-packing the decoded private record gives %x (err=%v)", step, c.Ops, buf[:max(off2, 0)], err)
			}
		}
	}
	return nil
}

func genRegistry(t *rapid.T) regCase {
	c := regCase{Val: rapid.Uint32().Draw(t, "val")}
	for i, n := 0, rapid.IntRange(2, 8).Draw(t, "nops"); i < n; i++ {
		c.Ops = append(c.Ops, rapid.SampledFrom([]int{0, 1, 2, 3, 3}).Draw(t, "op"))
	}
	c.Ops = append(c.Ops, 3)
	return c
}

func init() {
	pbt.Register(pbt.Sub[regCase]{Name: "private-type-registry", Weight: 0.4, Gen: genRegistry, Check: checkRegistry})
}
