package c20

import (
	"bytes"
	"fmt"
	"sort"

	"pgregory.net/rapid"

	"verif/harness/gen"
	wm "verif/harness/wiremodel"
)

// SvcParam values as the decoder takes them (round 8). areSVCBPairArraysEqual compares two parameter
// lists through pack() and reads a packing failure as "different": whenever the packer of ONE kind of
// parameter is stricter than its decoder, a record obtained from the wire is not a duplicate of itself,
// of its copy, or of a second decoding of the same octets. Which values a decoder takes is not written
// down anywhere the harness could copy from without repeating the library's own rules, so the class
// walks the decoder's acceptance: for EVERY key (the nine assigned ones, unassigned, private use, the
// reserved 65535) candidate octet strings of every shape a value can have - empty, one element, the
// largest element, lists of 1-, 2-, 4- and 16-octet elements holding zero, all-ones, the key of the
// parameter itself, a repeated element, ascending and descending order, length-prefixed identifiers
// (none, empty, longest, repeated, overflowing), odd lengths - are put into a record; what the decoder
// refuses is outside the domain (counted), what it accepts must be reflexive, a duplicate of its copy and
// of every other decoding of the same octets, and of no record with other octets.
//
// The candidate travels in the ordinary wm.Params field (wm.EncodeRR writes key, length and octets
// without looking at them), so the reference key is still "the octets".

const howSvcParam = "enc:svcparam"

// the keys of the walk: 0..8 assigned, 9 first unassigned, 65280/65534 private use, 65535 reserved
var svcParamKeys = []uint16{0, 1, 2, 3, 4, 5, 6, 7, 8, 9, 65280, 65534, 65535}

func be(ks ...uint16) []byte {
	out := []byte{}
	for _, k := range ks {
		out = append(out, byte(k>>8), byte(k))
	}
	return out
}

func ids(xs ...string) []byte {
	out := []byte{}
	for _, x := range xs {
		out = append(out, byte(len(x)))
		out = append(out, x...)
	}
	return out
}

func rep(b byte, n int) []byte { return bytes.Repeat([]byte{b}, n) }

func cat(bs ...[]byte) []byte {
	out := []byte{}
	for _, b := range bs {
		out = append(out, b...)
	}
	return out
}

// candidateValues: the fixed pool. Every candidate is tried with every key - the decoder says which
// (key, value) pairs exist.
func candidateValues(key uint16) [][]byte {
	long := make([]byte, 1024)
	for i := range long {
		long[i] = byte(i*7 + 1)
	}
	v4mapped := cat(rep(0, 10), rep(0xff, 2), []byte{192, 0, 2, 1})
	v6 := cat([]byte{0x20, 1, 0xd, 0xb8}, rep(0, 11), []byte{1})
	return [][]byte{
		{},                                             // no value at all
		{0},                                            // one zero octet / one empty identifier
		{1},                                            // an identifier that runs over the end
		be(0),                                          // key 0 / port 0
		be(key),                                        // the parameter names itself
		be(0, key),                                     // ... after key 0
		be(0, 1),                                       // mandatory=mandatory,alpn
		be(1, 0),                                       // the same, descending
		be(0, 0),                                       // key 0 twice / 0.0.0.0
		be(key, key),                                   // one element twice
		be(1, 3),                                       // ascending
		be(3, 1),                                       // descending
		be(1, 3, 3),                                    // repeated at the end
		be(1, 3, 4, 5, 6, 7),                           // a longer list
		be(65535),                                      // the largest element
		be(65534, 65535),                               // ...
		be(65535, 65535),                               // 255.255.255.255
		{1, 187, 0},                                    // three octets
		{192, 0, 2, 1, 9},                              // five octets
		{192, 0, 2, 1, 192, 0, 2, 1},                   // one address twice
		rep(0, 15), rep(0, 16), rep(0, 17), rep(0, 32), // short, ::, long, :: twice
		rep(0xff, 16),
		v4mapped, cat(v6, v4mapped), cat(v6, v6), v6,
		ids("h2"), ids("h2", "h2"), ids("h2", ""), ids("", "h2"), ids("a,b", `c\d`, `"`),
		ids(string(rep('x', 255))), ids(string(rep('x', 255)), string(rep('y', 255))),
		cat(ids("h2"), []byte{3, 'h'}), // the last identifier cut short
		[]byte("/dns-query{?dns}"),
		long,
	}
}

// withParam returns r with the value of parameter key replaced by val (the parameter is inserted at
// its place in the ascending order when r does not carry it).
func withParam(r wm.Rec, i int, key uint16, val []byte) wm.Rec {
	x := cloneRec(r)
	opts := []wm.Option{{Code: key, Data: append([]byte{}, val...)}}
	for _, o := range x.Fields[i].Opts {
		if o.Code != key {
			opts = append(opts, o)
		}
	}
	sort.SliceStable(opts, func(a, b int) bool { return opts[a].Code < opts[b].Code })
	x.Fields[i].Opts = opts
	return x
}

// svcParamOf names the parameter a case of this class is about (for the evidence): the key whose
// value differs between A and B, or the one B carries in addition.
func svcParamOf(a, b wm.Rec) string {
	i, j := paramsField(a), paramsField(b)
	if i < 0 || j < 0 {
		return "none"
	}
	have := map[uint16][]byte{}
	for _, o := range a.Fields[i].Opts {
		have[o.Code] = o.Data
	}
	for _, o := range b.Fields[j].Opts {
		if d, ok := have[o.Code]; !ok || !bytes.Equal(d, o.Data) {
			switch {
			case o.Code <= 8:
				return fmt.Sprintf("key%d", o.Code)
			case o.Code == 65535:
				return "key65535"
			case o.Code >= 65280:
				return "private"
			}
			return "unassigned"
		}
	}
	return "same"
}

// elemHint: the element size a list value of this key is likely to need (used as a bias only).
var elemHint = map[uint16]int{0: 2, 3: 2, 4: 4, 6: 16}

// drawCandidate: a value for the given key - from the fixed pool, a list of fixed-size elements, a list
// of length-prefixed identifiers, or plain octets of a drawn length.
func drawCandidate(t *rapid.T, key uint16) []byte {
	kind := rapid.IntRange(0, 4).Draw(t, "candkind")
	if kind == 4 {
		kind = 1 // lists of elements twice as often as the others
	}
	switch kind {
	case 0:
		pool := candidateValues(key)
		return pool[rapid.IntRange(0, len(pool)-1).Draw(t, "candpool")]
	case 1:
		es := rapid.SampledFrom([]int{1, 2, 2, 4, 16}).Draw(t, "elemsize")
		n := rapid.IntRange(0, 4).Draw(t, "nelem")
		fit := rapid.Bool().Draw(t, "fit")
		if h, ok := elemHint[key]; ok && fit {
			// half of the lists have the element size (and, for the port, the element count) that suits
			// the key, are ascending and have no odd octet at the end - a bias only: the decoder decides
			es = h
			n = max(n, 1)
			if key == 3 {
				n = 1
			}
		}
		var elems [][]byte
		for k := 0; k < n; k++ {
			var e []byte
			switch rapid.IntRange(0, 5).Draw(t, "elemkind") {
			case 0:
				e = rep(0, es)
			case 1:
				e = rep(0xff, es)
			case 2: // the key of the parameter itself, right-aligned
				e = rep(0, es)
				e[es-1] = byte(key)
				if es > 1 {
					e[es-2] = byte(key >> 8)
				}
			case 3:
				if k > 0 {
					e = append([]byte{}, elems[rapid.IntRange(0, k-1).Draw(t, "dupof")]...)
					break
				}
				fallthrough
			case 4: // a small number
				e = rep(0, es)
				e[es-1] = byte(rapid.IntRange(0, 12).Draw(t, "small"))
			default:
				e = gen.Bytes(t, es, false)
			}
			elems = append(elems, e)
		}
		if rapid.Bool().Draw(t, "ascending") || fit {
			sort.SliceStable(elems, func(a, b int) bool { return bytes.Compare(elems[a], elems[b]) < 0 })
		}
		out := cat(elems...)
		if fit {
			return out
		}
		switch rapid.IntRange(0, 7).Draw(t, "oddlen") {
		case 0:
			out = append(out, 0)
		case 1:
			if len(out) > 0 {
				out = out[:len(out)-1]
			}
		}
		return out
	case 2:
		n := rapid.IntRange(0, 3).Draw(t, "nids")
		out := []byte{}
		for k := 0; k < n; k++ {
			l := rapid.SampledFrom([]int{0, 1, 1, 2, 2, 20, 255}).Draw(t, "idlen")
			id := gen.Bytes(t, l, rapid.Bool().Draw(t, "plainid"))
			out = append(out, byte(l))
			out = append(out, id...)
		}
		if rapid.IntRange(0, 7).Draw(t, "idcut") == 0 && len(out) > 0 {
			out = out[:len(out)-1]
		}
		return out
	default:
		n := rapid.SampledFrom([]int{0, 1, 2, 3, 4, 5, 8, 15, 16, 17, 32, 255, 256, 1000}).Draw(t, "rawlen")
		return gen.Bytes(t, n, false)
	}
}

// genSvcParam: A is a well-formed record; B carries a candidate value for one key; C is B again (other
// TTL, owner in another letter case - the same octets decoded a second time), another candidate for
// the same key, the candidate with one octet changed, or an ordinary derivation.
func genSvcParam(t *rapid.T, o *gen.Opts) pairCase {
	a := gen.RecOfType(t, rapid.SampledFrom(svcbTypes).Draw(t, "svcbtype"), o)
	i := paramsField(a)
	if i < 0 || a.NoRdata {
		return pairCase{A: a, B: cloneRec(a), C: cloneRec(a), How: "identical"}
	}
	key := rapid.SampledFrom(svcParamKeys).Draw(t, "candkey")
	if rapid.IntRange(0, 9).Draw(t, "anykey") == 0 {
		key = uint16(gen.UintB(t, 16))
	}
	val := drawCandidate(t, key)
	b := withParam(a, i, key, val)
	var c wm.Rec
	switch rapid.IntRange(0, 4).Draw(t, "svcthird") {
	case 0, 1:
		c = cloneRec(b)
		c.TTL ^= uint32(rapid.Uint32Range(1, 1<<31).Draw(t, "ttl"))
		c.Name = gen.FlipCase(t, c.Name)
	case 2:
		c = withParam(a, i, key, drawCandidate(t, key))
	case 3:
		v2 := append([]byte{}, val...)
		if len(v2) > 0 {
			v2[rapid.IntRange(0, len(v2)-1).Draw(t, "flipat")] ^= byte(1 << rapid.IntRange(0, 7).Draw(t, "flipbit"))
		} else {
			v2 = []byte{0}
		}
		c = withParam(a, i, key, v2)
	default:
		c, _ = derive(t, cloneRec(b))
	}
	return pairCase{A: a, B: b, C: c, How: howSvcParam}
}

// eachSvcParam: both types x every key of the walk x every candidate of the pool; the third record is
// the next candidate of the pool (another value for the same key).
func eachSvcParam(emit func(pairCase)) {
	for _, typ := range svcbTypes {
		base := baseRec(typ)
		i := paramsField(base)
		for _, key := range svcParamKeys {
			pool := candidateValues(key)
			for j, v := range pool {
				emit(pairCase{A: base, B: withParam(base, i, key, v), C: withParam(base, i, key, pool[(j+1)%len(pool)]), How: howSvcParam})
			}
		}
	}
}
