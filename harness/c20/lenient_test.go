package c20

import (
	"sort"

	"pgregory.net/rapid"

	"verif/harness/gen"
	"verif/harness/pbt"
	wm "verif/harness/wiremodel"
)

// Tolerated encodings. The statement speaks of "records obtained from the wire": that is every
// octet string the decoder turns into a record, not only the canonical encoding the harness encoder
// writes. Wherever the wire syntax of a field has slack (one value, several spellings) a tolerant
// decoder maps different RDATA octets to one Go value, and IsDuplicate - which compares Go values -
// then answers true for records whose RDATA octets differ. The generated dimension is "the same
// field value spelled another way":
//
//   enc:bitmap     RFC 4034 4.1.2 windows with trailing zero octets and/or all-zero windows (plus, rarely,
//                  empty and out-of-order windows)
//   enc:mandatory  the key list of an SVCB/HTTPS "mandatory" value in another order / with a repeated key
//   enc:cut-short  RDATA that ends at a field boundary before the last field, the missing fields being
//                  zero / empty in the twin
//   enc:svcparam   (round 8, svcparam_test.go) candidate values for every SvcParam key: whatever the decoder
//                  takes must be reflexive, equal to its copy and to a second decoding of the same octets
//
// A re-spelled field is carried in the case as an opaque wm.Rest field in the slot of the original one
// (wm.EncodeRR writes fields in sequence, whatever their kinds), so the case stays a plain wm.Rec and
// the reference key is still "the octets, embedded names lower-cased".
//
// What the decoder refuses is outside the domain (nothing was obtained from the wire). What it
// accepts must compare by its octets. Three findings of this kind are listed in KNOWN_FINDINGS.txt;
// while one of them is live, exactly the pairs that differ ONLY by that spelling are not asserted
// (counted with pbt.Excluded) - everything else about such records still is (reflexive, copy,
// different value => not duplicates, symmetric, transitive).
const (
	idMandatory = "svcb-mandatory-order"
	idBitmap    = "bitmap-noncanonical"
	idCutShort  = "rdata-cut-short"
)

var lenientIDs = []string{idBitmap, idMandatory, idCutShort}

func noneLive(string) bool { return false }

// offLayout: the fields of r do not follow the layout table (a re-spelled field, a cut record); such a
// record exists only as octets, there is no hand-built twin of it.
func offLayout(r wm.Rec) bool {
	layout, known := wm.LayoutOf(r.Type)
	if r.NoRdata || !known {
		return false
	}
	if len(r.Fields) != len(layout) {
		return true
	}
	for i, f := range r.Fields {
		if f.K != layout[i].K {
			return true
		}
	}
	return false
}

// lenientBitmap reads type-bitmap windows the way a tolerant decoder does: windows ascending, 1..32
// octets each, any content (trailing zero octets and all-zero windows included).
func lenientBitmap(b []byte) ([]uint16, bool) {
	var out []uint16
	last := -1
	for i := 0; i < len(b); {
		if i+2 > len(b) {
			return nil, false
		}
		w, n := int(b[i]), int(b[i+1])
		i += 2
		if w <= last || n < 1 || n > 32 || i+n > len(b) {
			return nil, false
		}
		for j := 0; j < n; j++ {
			for k := 0; k < 8; k++ {
				if b[i+j]&(0x80>>k) != 0 {
					out = append(out, uint16(w<<8|j*8+k))
				}
			}
		}
		i += n
		last = w
	}
	return out, true
}

// absentIsZero: a field of this kind that is missing at the end of the RDATA is decoded to the same Go
// value as one that is present and zero / empty.
func absentIsZero(k wm.Kind) bool {
	switch k {
	case wm.U8, wm.U16, wm.U32, wm.U48, wm.U64, wm.Str, wm.L8, wm.L16, wm.HIPHdr,
		wm.Rest, wm.Strs, wm.Names, wm.Bitmap, wm.APLs, wm.Params, wm.Opts: // (the second row encodes to nothing when empty)
		return true
	}
	return false
}

// normalise replaces the named tolerated spellings by the canonical one. It only serves to delimit
// the classes of the known findings (and to give a hand-built mandatory list, which has no wire order,
// the order the packer writes).
func normalise(r wm.Rec, bitmap, mandatory, cut bool) wm.Rec {
	x := cloneRec(r)
	layout, known := wm.LayoutOf(r.Type)
	if !known || len(layout) == 0 {
		return x
	}
	if cut {
		if x.NoRdata {
			x.NoRdata = false
			x.Fields = nil
		}
		follows := len(x.Fields) < len(layout)
		for i := 0; follows && i < len(x.Fields); i++ {
			if x.Fields[i].K != layout[i].K && !(layout[i].K == wm.Bitmap && x.Fields[i].K == wm.Rest) {
				follows = false
			}
		}
		for i := len(x.Fields); follows && i < len(layout) && absentIsZero(layout[i].K); i++ {
			x.Fields = append(x.Fields, wm.Field{K: layout[i].K})
		}
	}
	if x.NoRdata {
		return x
	}
	for i := range x.Fields {
		f := &x.Fields[i]
		if bitmap && i < len(layout) && layout[i].K == wm.Bitmap && f.K == wm.Rest {
			if ts, ok := lenientBitmap(f.B); ok {
				*f = wm.Field{K: wm.Bitmap, T: ts}
			}
		}
		if mandatory && f.K == wm.Params {
			for j, o := range f.Opts {
				if o.Code == 0 && len(o.Data)%2 == 0 {
					f.Opts[j].Data = sortedKeys(o.Data)
				}
			}
		}
	}
	return x
}

func sortedKeys(d []byte) []byte {
	var ks []uint16
	for i := 0; i+1 < len(d); i += 2 {
		ks = append(ks, uint16(d[i])<<8|uint16(d[i+1]))
	}
	sort.Slice(ks, func(a, b int) bool { return ks[a] < ks[b] })
	out := make([]byte, 0, len(d))
	for _, k := range ks {
		out = append(out, byte(k>>8), byte(k))
	}
	return out
}

// ---------------------------------------------------------------------------------------------
// re-spelling fields

type bmBlock struct {
	W   int
	Oct []byte
}

func bitmapBlocks(types []uint16) []bmBlock {
	enc := wm.EncodeBitmap(types)
	var out []bmBlock
	for i := 0; i+2 <= len(enc); {
		n := int(enc[i+1])
		out = append(out, bmBlock{W: int(enc[i]), Oct: append([]byte{}, enc[i+2:i+2+n]...)})
		i += 2 + n
	}
	return out
}

func encodeBlocks(bs []bmBlock) []byte {
	var out []byte
	for _, b := range bs {
		out = append(out, byte(b.W), byte(len(b.Oct)))
		out = append(out, b.Oct...)
	}
	return out
}

// padBlocks: pad[i] zero octets behind window i (capped at 32 octets), zero windows (number -> length)
// added where the ascending order puts them.
func padBlocks(types []uint16, pad map[int]int, zeroWin map[int]int) []byte {
	bs := bitmapBlocks(types)
	used := map[int]bool{}
	for i := range bs {
		used[bs[i].W] = true
		if k := pad[i]; k > 0 {
			if len(bs[i].Oct)+k > 32 {
				k = 32 - len(bs[i].Oct)
			}
			bs[i].Oct = append(bs[i].Oct, make([]byte, k)...)
		}
	}
	var ws []int
	for w := range zeroWin {
		ws = append(ws, w)
	}
	sort.Ints(ws)
	for _, w := range ws {
		if n := zeroWin[w]; !used[w] && n >= 1 && n <= 32 {
			bs = append(bs, bmBlock{W: w, Oct: make([]byte, n)})
		}
	}
	sort.SliceStable(bs, func(a, b int) bool { return bs[a].W < bs[b].W })
	return encodeBlocks(bs)
}

// altBitmap draws another spelling of the bitmap of types; the result always differs from the
// canonical encoding.
func altBitmap(t *rapid.T, types []uint16) []byte {
	canon := wm.EncodeBitmap(types)
	nb := len(bitmapBlocks(types))
	pad := map[int]int{}
	zw := map[int]int{}
	for i := 0; i < nb; i++ {
		if rapid.IntRange(0, 2).Draw(t, "padwin") == 0 {
			pad[i] = rapid.SampledFrom([]int{1, 1, 2, 3, 31}).Draw(t, "padn")
		}
	}
	for i, n := 0, rapid.IntRange(0, 2).Draw(t, "nzerowin"); i < n; i++ {
		w := rapid.SampledFrom([]int{0, 1, 2, 3, 127, 128, 254, 255}).Draw(t, "zerowin")
		zw[w] = rapid.SampledFrom([]int{1, 1, 2, 32}).Draw(t, "zerowinlen")
	}
	out := padBlocks(types, pad, zw)
	if string(out) == string(canon) {
		// nothing took effect (full windows, occupied window numbers): one zero octet behind the last
		// window, or a zero window behind everything
		if nb > 0 && len(bitmapBlocks(types)[nb-1].Oct) < 32 {
			out = padBlocks(types, map[int]int{nb - 1: 1}, nil)
		} else {
			w := 0
			for _, b := range bitmapBlocks(types) {
				w = b.W + 1
			}
			if w > 255 {
				return canon
			}
			out = padBlocks(types, nil, map[int]int{w: 1})
		}
	}
	if rapid.IntRange(0, 11).Draw(t, "refusedform") == 0 {
		// forms every RFC 4034 decoder must refuse: an empty window in front, or the windows in
		// descending order
		if rapid.Bool().Draw(t, "emptywin") || nb < 2 {
			w := 0
			if nb > 0 {
				w = bitmapBlocks(types)[nb-1].W + 1
			}
			if w <= 255 {
				return append(append([]byte{}, canon...), byte(w), 0)
			}
		}
		bs := bitmapBlocks(types)
		for i, j := 0, len(bs)-1; i < j; i, j = i+1, j-1 {
			bs[i], bs[j] = bs[j], bs[i]
		}
		return encodeBlocks(bs)
	}
	return out
}

func bitmapField(r wm.Rec) int {
	layout, _ := wm.LayoutOf(r.Type)
	for i, sp := range layout {
		if sp.K == wm.Bitmap && i < len(r.Fields) && r.Fields[i].K == wm.Bitmap {
			return i
		}
	}
	return -1
}

// respellBitmap returns r with its bitmap field written as the given octets.
func respellBitmap(r wm.Rec, i int, raw []byte) wm.Rec {
	x := cloneRec(r)
	x.Fields[i] = wm.Field{K: wm.Rest, B: raw}
	return x
}

func paramsField(r wm.Rec) int {
	for i, f := range r.Fields {
		if f.K == wm.Params {
			return i
		}
	}
	return -1
}

// withMandatory returns r with the mandatory value replaced by the given key list (in that order).
func withMandatory(r wm.Rec, i int, keys []uint16) wm.Rec {
	x := cloneRec(r)
	var d []byte
	for _, k := range keys {
		d = append(d, byte(k>>8), byte(k))
	}
	opts := []wm.Option{{Code: 0, Data: d}}
	for _, o := range x.Fields[i].Opts {
		if o.Code != 0 {
			opts = append(opts, o)
		}
	}
	x.Fields[i].Opts = opts
	return x
}

// zeroTail sets the fields from index from on to zero / empty (a gateway only together with its type).
func zeroTail(r wm.Rec, from int) wm.Rec {
	x := cloneRec(r)
	layout, _ := wm.LayoutOf(r.Type)
	gwZero := false
	for j := from; j < len(x.Fields) && j < len(layout); j++ {
		k := x.Fields[j].K
		switch k {
		case wm.U8, wm.U16, wm.U32, wm.U48, wm.U64:
			x.Fields[j] = wm.Field{K: k}
			if layout[j].Hint == "gwtype" || layout[j].Hint == "amtgwtype" {
				gwZero = true
			}
		case wm.GW:
			if gwZero {
				x.Fields[j] = wm.Field{K: k}
			}
		case wm.IPv4:
			x.Fields[j] = wm.Field{K: k, B: make([]byte, 4)}
		case wm.IPv6:
			x.Fields[j] = wm.Field{K: k, B: make([]byte, 16)}
		default: // names become the root, strings / blobs / lists empty
			x.Fields[j] = wm.Field{K: k}
		}
	}
	return x
}

// cutAt returns r with only its first n fields (RDATA ends at that field boundary).
func cutAt(r wm.Rec, n int) wm.Rec {
	x := cloneRec(r)
	x.Fields = x.Fields[:n]
	if n == 0 {
		x.Fields = nil
		x.NoRdata = true
	}
	return x
}

var bitmapTypes = []uint16{wm.TNSEC, wm.TNSEC3, wm.TCSYNC, wm.TNXT}
var svcbTypes = []uint16{wm.TSVCB, wm.THTTPS}

func cutTypes() []uint16 {
	var out []uint16
	for _, t := range dupTypes() {
		if l, _ := wm.LayoutOf(t); len(l) >= 1 && !(len(l) == 1 && wm.EmptyRdataIsValue(l)) {
			out = append(out, t)
		}
	}
	return out
}

// genLenient draws a record and twins of it that spell one field value in another way.
func genLenient(t *rapid.T, o *gen.Opts) pairCase {
	third := func(a, alt wm.Rec) wm.Rec {
		switch rapid.IntRange(0, 3).Draw(t, "lthird") {
		case 0:
			return alt
		case 1:
			c := cloneRec(alt)
			c.TTL ^= 1
			c.Name = gen.FlipCase(t, c.Name)
			return c
		default:
			c, _ := derive(t, cloneRec(a))
			return c
		}
	}
	switch rapid.IntRange(0, 3).Draw(t, "lenientkind") {
	case 3:
		return genSvcParam(t, o) // a candidate value for one SvcParam key (svcparam_test.go)
	case 0:
		a := gen.RecOfType(t, rapid.SampledFrom(bitmapTypes).Draw(t, "bmtype"), o)
		i := bitmapField(a)
		if i < 0 {
			return pairCase{A: a, B: cloneRec(a), C: cloneRec(a), How: "identical"}
		}
		types := a.Fields[i].T
		b := respellBitmap(a, i, altBitmap(t, types))
		var alt wm.Rec
		if rapid.Bool().Draw(t, "bitinpad") {
			// a really different bitmap of the same length as a padded one: the bit of one more type falls
			// into an octet that the other spelling writes as zero padding
			lo := uint16(0)
			if len(types) > 0 {
				lo = types[len(types)-1]
			}
			if nt := (lo/8 + 1) * 8; lo < 0xfff8 && nt>>8 == lo>>8 {
				alt = cloneRec(a)
				alt.Fields[i].T = append(append([]uint16{}, types...), nt+uint16(rapid.IntRange(0, 7).Draw(t, "padbit")))
			} else {
				alt = respellBitmap(a, i, altBitmap(t, types))
			}
		} else {
			alt = respellBitmap(a, i, altBitmap(t, types))
		}
		return pairCase{A: a, B: b, C: third(a, alt), How: "enc:bitmap"}
	case 1:
		a := gen.RecOfType(t, rapid.SampledFrom(svcbTypes).Draw(t, "svcbtype"), o)
		i := paramsField(a)
		if i < 0 {
			return pairCase{A: a, B: cloneRec(a), C: cloneRec(a), How: "identical"}
		}
		keys := rapid.SliceOfNDistinct(rapid.Uint16Range(1, 12), 2, 5, rapid.ID[uint16]).Draw(t, "mkeys")
		sort.Slice(keys, func(x, y int) bool { return keys[x] < keys[y] })
		a = withMandatory(a, i, keys)
		perm := rapid.Permutation(keys).Draw(t, "mperm")
		b := withMandatory(a, i, perm)
		var alt wm.Rec
		switch rapid.IntRange(0, 2).Draw(t, "maltkind") {
		case 0:
			alt = withMandatory(a, i, rapid.Permutation(keys).Draw(t, "mperm2"))
		case 1: // one key listed twice
			alt = withMandatory(a, i, append(append([]uint16{}, perm...), perm[0]))
		default: // another set of the same size
			other := append([]uint16{}, keys...)
			other[len(other)-1]++
			alt = withMandatory(a, i, other)
		}
		how := "enc:mandatory"
		if key(a) == key(b) {
			how = "identical"
		}
		return pairCase{A: a, B: b, C: third(a, alt), How: how}
	default:
		a := gen.RecOfType(t, rapid.SampledFrom(cutTypes()).Draw(t, "cuttype"), o)
		n := len(a.Fields)
		cut := rapid.IntRange(0, n-1).Draw(t, "cut")
		from := cut
		if rapid.IntRange(0, 2).Draw(t, "keepsome") == 0 {
			from = rapid.IntRange(cut, n).Draw(t, "zerofrom") // the cut part keeps some values: a real difference
		}
		a = zeroTail(a, from)
		b := cutAt(a, cut)
		alt := cutAt(a, rapid.IntRange(0, n-1).Draw(t, "cut2"))
		return pairCase{A: a, B: b, C: third(a, alt), How: "enc:cut-short"}
	}
}

// ---------------------------------------------------------------------------------------------
// the same, deterministic: every bitmap type, both SVCB types, every cut position of every type

func eachLenient(emit func(pairCase)) {
	for _, typ := range bitmapTypes {
		for _, types := range [][]uint16{{1}, {2, 46, 47}, {1, 257, 65280}, nil} {
			a := baseRec(typ)
			i := bitmapField(a)
			a.Fields[i].T = types
			nb := len(bitmapBlocks(types))
			var alts [][]byte
			if nb > 0 {
				alts = append(alts, padBlocks(types, map[int]int{nb - 1: 1}, nil), // ..00 02 40 00
					padBlocks(types, map[int]int{0: 31}, nil),
					padBlocks(types, nil, map[int]int{3: 1}), // ..00 01 40 03 01 00
					padBlocks(types, map[int]int{0: 2}, map[int]int{255: 32}))
			} else {
				alts = append(alts, padBlocks(types, nil, map[int]int{0: 1}), padBlocks(types, nil, map[int]int{0: 1, 1: 2}))
			}
			for j, x := range alts {
				b := respellBitmap(a, i, x)
				c := respellBitmap(a, i, alts[(j+1)%len(alts)])
				emit(pairCase{A: a, B: b, C: c, How: "enc:bitmap"})
			}
			if len(types) > 0 && types[len(types)-1]%8 == 7 {
				continue
			}
			// padded spelling against the really different bitmap of the same length
			if len(types) > 0 {
				lo := types[len(types)-1]
				d := cloneRec(a)
				d.Fields[i].T = append(append([]uint16{}, types...), (lo/8+1)*8)
				emit(pairCase{A: a, B: respellBitmap(a, i, alts[0]), C: d, How: "enc:bitmap"})
			}
		}
	}
	for _, typ := range svcbTypes {
		a := baseRec(typ)
		i := paramsField(a)
		for _, ks := range [][]uint16{{1, 3}, {1, 3, 4}, {1, 2, 3, 4, 6}} {
			a := withMandatory(a, i, ks)
			rev := append([]uint16{}, ks...)
			for x, y := 0, len(rev)-1; x < y; x, y = x+1, y-1 {
				rev[x], rev[y] = rev[y], rev[x]
			}
			rot := append(append([]uint16{}, ks[1:]...), ks[0])
			emit(pairCase{A: a, B: withMandatory(a, i, rev), C: withMandatory(a, i, rot), How: "enc:mandatory"})
			emit(pairCase{A: a, B: withMandatory(a, i, rev), C: withMandatory(a, i, append(append([]uint16{}, rev...), rev[0])), How: "enc:mandatory"})
		}
	}
	for _, typ := range cutTypes() {
		base := baseRec(typ)
		n := len(base.Fields)
		for cut := 0; cut < n; cut++ {
			a := zeroTail(base, cut)
			c := cutAt(a, (cut+1)%n)
			emit(pairCase{A: a, B: cutAt(a, cut), C: c, How: "enc:cut-short"})
			// the cut part not zero: a different record
			emit(pairCase{A: base, B: cutAt(base, cut), C: a, How: "enc:cut-short"})
		}
	}
}

// probes: the breakers' concrete inputs through comparePair with no finding taken as known

func probeRec(typ uint16, fields ...wm.Field) wm.Rec {
	return wm.Rec{Name: wm.MustName("x."), Type: typ, Class: 1, TTL: 9, Fields: fields}
}

func init() {
	pbt.Probe(idMandatory, func() error {
		// x. SVCB 1 . mandatory=alpn,port alpn=h2 port=443, and the same with the mandatory octets 00 03 00 01
		mk := func(m ...byte) wm.Rec {
			return probeRec(wm.TSVCB, wm.Field{K: wm.U16, U: 1}, wm.Field{K: wm.NameU}, wm.Field{K: wm.Params, Opts: []wm.Option{
				{Code: 0, Data: m}, {Code: 1, Data: []byte{2, 'h', '2'}}, {Code: 3, Data: []byte{1, 187}}}})
		}
		a, b := mk(0, 1, 0, 3), mk(0, 3, 0, 1)
		return comparePair(pairCase{A: a, B: b, C: a, How: "enc:mandatory"}, noneLive, true)
	})
	pbt.Probe(idBitmap, func() error {
		// x. NSEC . A with the bitmap written 00 01 40 / 00 02 40 00 / 00 01 40 01 01 00
		mk := func(bm ...byte) wm.Rec {
			return probeRec(wm.TNSEC, wm.Field{K: wm.NameU}, wm.Field{K: wm.Rest, B: bm})
		}
		a := probeRec(wm.TNSEC, wm.Field{K: wm.NameU}, wm.Field{K: wm.Bitmap, T: []uint16{1}})
		return comparePair(pairCase{A: a, B: mk(0, 2, 0x40, 0), C: mk(0, 1, 0x40, 1, 1, 0), How: "enc:bitmap"}, noneLive, true)
	})
	pbt.Probe(idCutShort, func() error {
		// x. SRV 1 0 0 <no target> written with RDATA 00 01 / 00 01 00 00 / 00 01 00 00 00 00
		f := func(u uint64) wm.Field { return wm.Field{K: wm.U16, U: u} }
		a := probeRec(wm.TSRV, f(1), f(0), f(0))
		return comparePair(pairCase{A: a, B: probeRec(wm.TSRV, f(1)), C: probeRec(wm.TSRV, f(1), f(0)), How: "enc:cut-short"}, noneLive, true)
	})
	pbt.RegisterEnum(pbt.Enum[pairCase]{Name: "every-lenient-encoding", Exhaustive: true, Each: eachLenient, Check: checkPair})
	pbt.RegisterEnum(pbt.Enum[pairCase]{Name: "every-svcparam-value", Exhaustive: true, Each: eachSvcParam, Check: checkPair})
}
