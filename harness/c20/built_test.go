package c20

import (
	"hash/fnv"
	"net"
	"reflect"

	"github.com/miekg/dns"

	"verif/harness/pbt"
	wm "verif/harness/wiremodel"
)

// Program-built twins. "IsDuplicate holds between a record and its copy" is said of every record, and a
// record built by a program holds its values in whatever form the program got them: a name in any legal
// spelling of its octets (\DDD, \c, raw 8-bit), an IPv4 address in the 16-octet form that net.IPv4 and
// net.ParseIP return (the packer, String() and the length functions take both forms). wm.Spelling
// writes the values that way (a pure function of the seed and of the order of the calls): about one
// name in four is re-spelled and one IPv4 address in four is held in 16 octets - in A, L32, the gateway
// of IPSECKEY/AMTRELAY and every address of an SVCB/HTTPS ipv4hint.
//
// Asserted: the record is a duplicate of its copy and the copy of the record, and (by the caller) the
// equivalence laws on these values together with the wire-born and canonical ones. Not asserted: a
// verdict between differently spelled values (the statement's "exactly when" clause is about records
// obtained from the wire).
func builtTwins(c pairCase, recs []wm.Rec, cons []dns.RR, quiet bool) ([]dns.RR, error) {
	seed := c.Spell
	if seed == 0 || seed == wm.SpellRaw8 {
		// enumerated and replayed older cases: a seed that is a function of the case
		h := fnv.New64a()
		for _, r := range recs {
			w, _ := wm.EncodeRR(r)
			h.Write(w)
			h.Write([]byte{'|'})
		}
		seed = h.Sum64()>>2 | 1
	}
	restore := wm.Spelling(seed)
	var built []dns.RR
	for _, r := range recs {
		rr, err := wm.ToLib(r)
		if err != nil {
			restore()
			return nil, nil
		}
		built = append(built, rr)
	}
	restore()
	wide, respelled := false, false
	wideTypes := map[string]bool{}
	for i, rr := range built {
		if !reflect.DeepEqual(ipLens(rr), ipLens(cons[i])) {
			wide = true
			wideTypes[typeName(recs[i].Type)] = true
		} else if !reflect.DeepEqual(rr, cons[i]) {
			respelled = true
		}
		cp := dns.Copy(rr)
		if !dns.IsDuplicate(rr, cp) || !dns.IsDuplicate(cp, rr) {
			return nil, pbt.Errf("a program-built %s record is not a duplicate of its own copy:\n  record %s (%#v)\n  copy   %s (%#v)", typeName(recs[i].Type), rr, rr, cp, cp)
		}
	}
	if !quiet {
		if wide {
			pbt.Class("built:ipv4-in-16-octets")
			for _, tn := range []string{"A", "L32", "IPSECKEY", "AMTRELAY", "SVCB", "HTTPS"} {
				if wideTypes[tn] {
					pbt.Class("built:ipv4-in-16-octets:" + tn)
				}
			}
		}
		if respelled {
			pbt.Class("built:name-respelled")
		}
	}
	return built, nil
}

var ipType = reflect.TypeOf(net.IP(nil))

// ipLens lists the lengths of all net.IP values inside a record, in field order.
func ipLens(rr dns.RR) []int {
	var out []int
	var walk func(v reflect.Value)
	walk = func(v reflect.Value) {
		if v.Type() == ipType {
			out = append(out, v.Len())
			return
		}
		switch v.Kind() {
		case reflect.Ptr, reflect.Interface:
			if !v.IsNil() {
				walk(v.Elem())
			}
		case reflect.Struct:
			for i := 0; i < v.NumField(); i++ {
				if v.Type().Field(i).IsExported() {
					walk(v.Field(i))
				}
			}
		case reflect.Slice:
			if v.Type().Elem().Kind() == reflect.Uint8 || v.Type().Elem().Kind() == reflect.String {
				return
			}
			for i := 0; i < v.Len(); i++ {
				walk(v.Index(i))
			}
		}
	}
	walk(reflect.ValueOf(rr))
	return out
}

// everyHeaderBit: the fixed fields of the record header, one bit at a time. The class and the type are
// 16-bit numbers and every bit of them makes another record; the TTL is a 32-bit number and no bit of
// it does. Deterministic: 3 record shapes x (16 class bits + 32 TTL bits), and 16 type bits of a record
// of an unassigned type (RDATA opaque; a partner that happens to be an assigned type whose decoder
// refuses the octets is outside the domain).
func everyHeaderBit(emit func(pairCase)) {
	unk := wm.Rec{Name: wm.MustName("Owner.Example."), Type: 65000, Class: 1, TTL: 300}
	if l, known := wm.LayoutOf(unk.Type); !known {
		for _, s := range l {
			f := wm.Field{K: s.K}
			if s.K == wm.Rest {
				f.B = []byte{192, 0, 2, 1}
			}
			unk.Fields = append(unk.Fields, f)
		}
	}
	for _, a := range []wm.Rec{baseRec(wm.TA), baseRec(wm.TMX), unk} {
		for _, class := range []uint16{1, 0, 0x7fff} {
			a.Class = class
			for bit := uint(0); bit < 16; bit++ {
				b := cloneRec(a)
				b.Class ^= 1 << bit
				c := cloneRec(b)
				c.TTL++
				emit(pairCase{A: cloneRec(a), B: b, C: c, How: "class-changed"})
			}
			if class != 1 {
				continue
			}
			for bit := uint(0); bit < 32; bit++ {
				b := cloneRec(a)
				b.TTL ^= 1 << bit
				emit(pairCase{A: cloneRec(a), B: b, C: cloneRec(a), How: "ttl-changed"})
			}
		}
	}
	for bit := uint(0); bit < 16; bit++ {
		b := cloneRec(unk)
		b.Type ^= 1 << bit
		emit(pairCase{A: cloneRec(unk), B: b, C: cloneRec(unk), How: "type-changed"})
	}
}

func init() {
	pbt.RegisterEnum(pbt.Enum[pairCase]{Name: "every-header-bit", Exhaustive: true, Each: everyHeaderBit, Check: checkPair})
}
