package c20

import (
	"encoding/base64"

	"pgregory.net/rapid"

	"verif/harness/pbt"
	wm "verif/harness/wiremodel"
)

// Round 10: records whose TEXTS are near each other while their OCTETS differ.
//
// The statement's wire clause is about octets ("exactly when type, class and the lower-cased uncompressed
// owner and RDATA octets are equal"); the library compares the Go values, and those hold most fields as
// text (a name in presentation form, a key in base64, a digest in hex). Wherever a comparison works on
// the text with a little too much tolerance, two different octet strings become "equal". Two classes
// that follow from the statement, both over every place of every type where they can occur:
//
//   label-boundary   the same octets of a name, cut into labels at another place: the label `a.b` (an
//                    octet 0x2e inside the label, wire 03 61 2e 62) against the labels `a`,`b` (wire
//                    01 61 01 62). Same length on the wire, same text up to one backslash. The owner,
//                    every embedded name, every member of a name list, the gateway name.
//   text-case-twin   an opaque octet field replaced by the octets whose text rendering differs from the
//                    original's only in letter case: the base64 text with some letters in the other
//                    case, decoded again (69 a6 9a = `aaaa`, 00 00 00 = `AAAA`: every group of three
//                    octets has such twins, two unrelated keys practically never are), or the raw octets
//                    with the ASCII letters in the other case (character-strings, opaque text). Only names
//                    fold case (RFC 4343); every other octet counts. Applied to every opaque field
//                    whatever its presentation is (the harness does not ask the library which fields it
//                    prints in base64): both twins are different RDATA of the same length.
//
// Neither needs a new oracle: the reference key (octets, names lower-cased) tells the twins apart.

const (
	howLabelBoundary = "label-boundary"
	howTextCase      = "text-case-twin"
)

// nameSlots returns pointers to every domain name of r: the owner first, then the embedded ones.
func nameSlots(r *wm.Rec) []*wm.Name {
	out := []*wm.Name{&r.Name}
	if r.NoRdata {
		return out
	}
	for i := range r.Fields {
		f := &r.Fields[i]
		switch f.K {
		case wm.NameC, wm.NameU:
			out = append(out, &f.N)
		case wm.GW:
			if f.U == 3 {
				out = append(out, &f.N)
			}
		case wm.Names:
			for j := range f.NL {
				out = append(out, &f.NL[j])
			}
		}
	}
	return out
}

// joinLabels returns n with labels i and i+1 made one label with the octet 0x2e between them.
func joinLabels(n wm.Name, i int) (wm.Name, bool) {
	if i < 0 || i+1 >= len(n) || len(n[i])+1+len(n[i+1]) > 63 {
		return nil, false
	}
	out := wm.Name{}
	for j, l := range n {
		switch {
		case j == i:
			x := append(append(append([]byte{}, l...), '.'), n[i+1]...)
			out = append(out, x)
		case j == i+1:
		default:
			out = append(out, append([]byte{}, l...))
		}
	}
	return out, out.Valid()
}

// splitLabel returns n with label i cut in two at its octet p, which must be 0x2e and neither the first
// nor the last of the label.
func splitLabel(n wm.Name, i, p int) (wm.Name, bool) {
	if i < 0 || i >= len(n) || p < 1 || p >= len(n[i])-1 || n[i][p] != '.' {
		return nil, false
	}
	out := wm.Name{}
	for j, l := range n {
		if j == i {
			out = append(out, append([]byte{}, l[:p]...), append([]byte{}, l[p+1:]...))
		} else {
			out = append(out, append([]byte{}, l...))
		}
	}
	return out, out.Valid()
}

// innerDots lists the (label, position) pairs at which a name can be split.
func innerDots(n wm.Name) [][2]int {
	var out [][2]int
	for i, l := range n {
		for p := 1; p < len(l)-1; p++ {
			if l[p] == '.' {
				out = append(out, [2]int{i, p})
			}
		}
	}
	return out
}

// deriveLabelBoundary: b is a with one of its names cut into labels at another place. a is left as it
// is where it can be (two neighbouring labels are joined, or a label that holds a dot is split); a name
// of a single label without a dot gets one in place (the caller owns a).
func deriveLabelBoundary(t *rapid.T, a wm.Rec) (wm.Rec, bool) {
	b := cloneRec(a)
	as, bs := nameSlots(&a), nameSlots(&b)
	var usable []int
	for k, s := range as {
		n := *s
		ok := len(innerDots(n)) > 0
		for i := 0; !ok && i+1 < len(n); i++ {
			_, ok = joinLabels(n, i)
		}
		for _, l := range n {
			ok = ok || len(l) >= 3
		}
		if ok {
			usable = append(usable, k)
		}
	}
	if len(usable) == 0 {
		return b, false
	}
	k := usable[rapid.IntRange(0, len(usable)-1).Draw(t, "nameslot")]
	n := *as[k]
	if dots := innerDots(n); len(dots) > 0 && rapid.Bool().Draw(t, "splitdot") {
		d := dots[rapid.IntRange(0, len(dots)-1).Draw(t, "dot")]
		if x, ok := splitLabel(n, d[0], d[1]); ok {
			*bs[k] = x
			return b, true
		}
	}
	var joins []int
	for i := 0; i+1 < len(n); i++ {
		if _, ok := joinLabels(n, i); ok {
			joins = append(joins, i)
		}
	}
	if len(joins) > 0 {
		x, _ := joinLabels(n, joins[rapid.IntRange(0, len(joins)-1).Draw(t, "join")])
		*bs[k] = x
		return b, true
	}
	for i, l := range n {
		if len(l) >= 3 {
			p := rapid.IntRange(1, len(l)-2).Draw(t, "dotpos")
			l[p] = '.' // in place: a and the caller's record share the octets
			(*bs[k])[i][p] = '.'
			if x, ok := splitLabel(*bs[k], i, p); ok {
				*bs[k] = x
				return b, true
			}
			return b, false
		}
	}
	if dots := innerDots(n); len(dots) > 0 {
		if x, ok := splitLabel(n, dots[0][0], dots[0][1]); ok {
			*bs[k] = x
			return b, true
		}
	}
	return b, false
}

// ---------------------------------------------------------------------------------------------
// text-case twins of opaque octets

func isLetter(c byte) bool { return c >= 'a' && c <= 'z' || c >= 'A' && c <= 'Z' }

// b64CaseTwin returns the octets whose base64 text is that of b with the letters selected by mask (bit
// k%64 for the k-th letter; at least one letter is always flipped) in the other case. The last character
// of an incomplete group is left alone (its low bits must stay zero). ok=false: the text has no letter.
func b64CaseTwin(b []byte, mask uint64) ([]byte, bool) {
	txt := []byte(base64.RawStdEncoding.EncodeToString(b))
	limit := len(txt)
	if len(b)%3 != 0 {
		limit--
	}
	k, flipped, first := uint(0), 0, -1
	for i := 0; i < limit; i++ {
		if !isLetter(txt[i]) {
			continue
		}
		if first < 0 {
			first = i
		}
		if mask>>(k%64)&1 == 1 {
			txt[i] ^= 0x20
			flipped++
		}
		k++
	}
	if first < 0 {
		return nil, false
	}
	if flipped == 0 {
		txt[first] ^= 0x20
	}
	out, err := base64.RawStdEncoding.Strict().DecodeString(string(txt))
	if err != nil || len(out) != len(b) || string(out) == string(b) {
		return nil, false
	}
	return out, true
}

// rawCaseTwin returns b with the ASCII letters selected by mask in the other case.
func rawCaseTwin(b []byte, mask uint64) ([]byte, bool) {
	out := append([]byte{}, b...)
	k, flipped, first := uint(0), 0, -1
	for i, c := range out {
		if !isLetter(c) {
			continue
		}
		if first < 0 {
			first = i
		}
		if mask>>(k%64)&1 == 1 {
			out[i] ^= 0x20
			flipped++
		}
		k++
	}
	if first < 0 {
		return nil, false
	}
	if flipped == 0 {
		out[first] ^= 0x20
	}
	return out, true
}

// blobSlots returns pointers to every opaque octet string of r that can take any octets of the same
// length: character-strings, length-prefixed and rest-of-RDATA blobs, the HIT and the public key of HIP,
// SvcParam values without an inner structure (ech, dohpath, unassigned and private keys).
func blobSlots(r *wm.Rec) []*[]byte {
	var out []*[]byte
	if r.NoRdata {
		return nil
	}
	for i := range r.Fields {
		f := &r.Fields[i]
		switch f.K {
		case wm.Str, wm.Rest, wm.L8, wm.L16:
			out = append(out, &f.B)
		case wm.Strs:
			for j := range f.L {
				out = append(out, &f.L[j])
			}
		case wm.HIPHdr:
			out = append(out, &f.B, &f.B2)
		case wm.Params:
			for j := range f.Opts {
				if c := f.Opts[j].Code; c == 5 || c == 7 || c >= 9 {
					out = append(out, &f.Opts[j].Data)
				}
			}
		}
	}
	return out
}

// caseTwins returns the twins of r: for every opaque field one record with the base64 text of the field
// in another letter case and one with the letters among its raw octets in another case.
func caseTwins(r wm.Rec, mask uint64) []wm.Rec {
	var out []wm.Rec
	for k, s := range blobSlots(&r) {
		for _, twin := range []func([]byte, uint64) ([]byte, bool){b64CaseTwin, rawCaseTwin} {
			if x, ok := twin(*s, mask); ok {
				b := cloneRec(r)
				*blobSlots(&b)[k] = x
				out = append(out, b)
			}
		}
	}
	return out
}

func deriveTextCase(t *rapid.T, a wm.Rec) (wm.Rec, bool) {
	b := cloneRec(a)
	slots := blobSlots(&b)
	var usable []int
	for k, s := range slots {
		if _, ok := b64CaseTwin(*s, 1); ok {
			usable = append(usable, k)
		}
	}
	if len(usable) == 0 {
		return b, false
	}
	s := slots[usable[rapid.IntRange(0, len(usable)-1).Draw(t, "blobslot")]]
	mask := rapid.SampledFrom([]uint64{^uint64(0), 1, 0x5555555555555555, 0}).Draw(t, "casemask")
	if mask == 0 {
		mask = rapid.Uint64().Draw(t, "casemaskany")
	}
	if rapid.IntRange(0, 3).Draw(t, "rawcase") == 0 {
		if x, ok := rawCaseTwin(*s, mask); ok {
			*s = x
			return b, true
		}
	}
	x, _ := b64CaseTwin(*s, mask)
	*s = x
	return b, true
}

// ---------------------------------------------------------------------------------------------
// the parts of the HIP header (RFC 8005 5: HIT length, PK algorithm, PK length, HIT, public key)

// hipChanges returns r (a HIP record) with each part of the header field i altered in turn: the
// algorithm, one octet of the HIT, one octet of the public key, and the boundary between the two moved
// by one octet (the same octets in the same order under other lengths).
func hipChanges(r wm.Rec, i int) []wm.Rec {
	var out []wm.Rec
	for part := 0; part < 5; part++ {
		b := cloneRec(r)
		if changeHIP(&b.Fields[i], part) {
			out = append(out, b)
		}
	}
	return out
}

func changeHIP(f *wm.Field, part int) bool {
	switch part {
	case 0:
		f.U ^= 1
	case 1:
		if len(f.B) == 0 {
			return false
		}
		f.B[len(f.B)/2] ^= 0x01
	case 2:
		if len(f.B2) == 0 {
			return false
		}
		f.B2[len(f.B2)/2] ^= 0x01
	case 3: // the first octet of the key becomes the last of the HIT
		if len(f.B2) == 0 || len(f.B) >= 255 {
			return false
		}
		f.B = append(append([]byte{}, f.B...), f.B2[0])
		f.B2 = append([]byte{}, f.B2[1:]...)
	case 4: // the last octet of the HIT becomes the first of the key
		if len(f.B) == 0 {
			return false
		}
		f.B2 = append([]byte{f.B[len(f.B)-1]}, f.B2...)
		f.B = append([]byte{}, f.B[:len(f.B)-1]...)
	default:
		return false
	}
	return true
}

// ---------------------------------------------------------------------------------------------
// deterministic: every name place and every opaque field of every type

// longBlob is a value for the opaque fields of the enumeration: its base64 text has letters of both cases
// in complete and incomplete groups, its raw octets hold letters too.
var longBlob = []byte("Key\x00\x10\x83aZ\xff\x69\xa6\x9a\x00\x00\x00mQ")

func eachTextTwin(emit func(pairCase)) {
	dotted := func(n wm.Name) wm.Name { // Host.Example. -> the single label `Host.Example`
		x, ok := joinLabels(n, 0)
		if !ok {
			return n
		}
		return x
	}
	for _, typ := range dupTypes() {
		a := baseRec(typ)
		// label boundaries: the name at every place once as two labels (A), as one label with the dot inside
		// (B) and that one in lower case (C: a duplicate of B, not of A)
		for k := range nameSlots(&a) {
			b := cloneRec(a)
			s := nameSlots(&b)[k]
			*s = dotted(*s)
			c := cloneRec(b)
			sc := nameSlots(&c)[k]
			*sc = (*sc).Lower()
			emit(pairCase{A: a, B: b, C: c, How: howLabelBoundary})
			// three labels against two: the dot inside the first label / inside the last label
			a3 := cloneRec(a)
			s3 := nameSlots(&a3)[k]
			*s3 = append(wm.Name{[]byte("w")}, (*s3).Clone()...)
			b3, c3 := cloneRec(a3), cloneRec(a3)
			if x, ok := joinLabels(*s3, 0); ok {
				*nameSlots(&b3)[k] = x
			}
			if x, ok := joinLabels(*s3, len(*s3)-2); ok {
				*nameSlots(&c3)[k] = x
			}
			emit(pairCase{A: a3, B: b3, C: c3, How: howLabelBoundary})
		}
		// opaque fields: a value with letters in its base64 text and among its octets; every field in turn
		// against its twins (all letters / the first letter / every other letter in the other case)
		layout := wm.Layout[typ]
		w := cloneRec(a)
		for i := range w.Fields {
			f := &w.Fields[i]
			switch f.K {
			case wm.Str, wm.Rest, wm.L8, wm.L16:
				if layout[i].Hint == "" {
					f.B = append([]byte{}, longBlob...)
				}
			case wm.Strs:
				f.L = [][]byte{append([]byte{}, longBlob...), []byte("def")}
			case wm.HIPHdr:
				f.B, f.B2 = append([]byte{}, longBlob...), append([]byte{}, longBlob[2:]...)
			case wm.Params:
				f.Opts = append(append([]wm.Option{}, f.Opts...), wm.Option{Code: 5, Data: append([]byte{}, longBlob...)}, wm.Option{Code: 65280, Data: append([]byte{}, longBlob...)})
			}
		}
		for _, mask := range []uint64{^uint64(0), 1, 0x5555555555555555} {
			tw := caseTwins(w, mask)
			for j, b := range tw {
				emit(pairCase{A: w, B: b, C: tw[(j+1)%len(tw)], How: howTextCase})
			}
		}
		// the short keys of the remark that started the class: 69 a6 9a / 00 00 00 / 69 a0 00 are
		// `aaaa` / `AAAA` / `aaAA`
		for k := range blobSlots(&w) {
			x, y, z := cloneRec(w), cloneRec(w), cloneRec(w)
			*blobSlots(&x)[k], *blobSlots(&y)[k], *blobSlots(&z)[k] = []byte{0x69, 0xa6, 0x9a}, []byte{0, 0, 0}, []byte{0x69, 0xa0, 0}
			emit(pairCase{A: x, B: y, C: z, How: howTextCase})
		}
		for i := range a.Fields {
			if a.Fields[i].K == wm.HIPHdr {
				ch := hipChanges(w, i)
				for j, b := range ch {
					emit(pairCase{A: w, B: b, C: ch[(j+1)%len(ch)], How: "one-field-changed"})
				}
			}
		}
	}
}

func init() {
	pbt.RegisterEnum(pbt.Enum[pairCase]{Name: "every-text-twin", Exhaustive: true, Each: eachTextTwin, Check: checkPair})
}
