package c20

import (
	"bytes"
	"fmt"
	"reflect"
	"sort"
	"strings"

	"github.com/miekg/dns"
	"pgregory.net/rapid"

	"verif/harness/aliascheck"
	"verif/harness/gen"
	"verif/harness/pbt"
	wm "verif/harness/wiremodel"
)

func typeName(t uint16) string {
	if s, ok := dns.TypeToString[t]; ok {
		return s
	}
	return fmt.Sprintf("TYPE%d", t)
}

// key is the reference equivalence key: type, class, lower-cased owner, RDATA with embedded domain
// names lower-cased (uncompressed RFC encoding; TTL zeroed).
func key(r wm.Rec) string {
	x := r
	x.TTL = 0
	x.Name = r.Name.Lower()
	x.Fields = nil
	for _, f := range r.Fields {
		g := f
		g.N = f.N.Lower()
		g.NL = nil
		for _, n := range f.NL {
			g.NL = append(g.NL, n.Lower())
		}
		x.Fields = append(x.Fields, g)
	}
	b, _ := wm.EncodeRR(x)
	return string(b)
}

// wireBorn returns the library value obtained by unpacking the canonical encoding of r.
func wireBorn(r wm.Rec) (dns.RR, error) {
	w, err := wm.EncodeRR(r)
	if err != nil {
		return nil, err
	}
	rr, _, err := dns.UnpackRR(w, 0)
	return rr, err
}

// ---------------------------------------------------------------------------------------------
// pairs and triples

type pairCase struct {
	A, B, C wm.Rec
	How     string // how B was derived from A (for the evidence)
	Spell   uint64 `json:",omitempty"` // how the program-built twins are written (wm.Spelling); 0: derived from the octets of the case
}

// sameLayout lists type codes that share one RDATA layout.
var sameLayout = [][]uint16{
	{wm.TDS, wm.TCDS, wm.TDLV, wm.TTA}, {wm.TDNSKEY, wm.TKEY, wm.TCDNSKEY, wm.TRKEY}, {wm.TTXT, wm.TSPF, wm.TAVC, wm.TRESINFO},
	{wm.TRRSIG, wm.TSIG}, {wm.TNSEC, wm.TNXT}, {wm.TSVCB, wm.THTTPS}, {wm.TTLSA, wm.TSMIMEA}, {wm.TNS, wm.TMD, wm.TMF, wm.TCNAME, wm.TMB, wm.TMG, wm.TMR, wm.TPTR},
	{wm.TEID, wm.TNIMLOC}, {wm.TNID, wm.TL64}, {wm.TUID, wm.TGID}, {wm.TDNAME, wm.TNSAPPTR},
}

func cloneRec(r wm.Rec) wm.Rec {
	x := r
	x.Name = r.Name.Clone()
	x.Fields = nil
	for _, f := range r.Fields {
		g := f
		g.N = f.N.Clone()
		g.NL = nil
		for _, n := range f.NL {
			g.NL = append(g.NL, n.Clone())
		}
		g.B = append([]byte(nil), f.B...)
		g.B2 = append([]byte(nil), f.B2...)
		g.L = nil
		for _, s := range f.L {
			g.L = append(g.L, append([]byte(nil), s...))
		}
		g.T = append([]uint16(nil), f.T...)
		g.APL = append([]wm.APLItem(nil), f.APL...)
		g.Opts = append([]wm.Option(nil), f.Opts...)
		x.Fields = append(x.Fields, g)
	}
	return x
}

// changeField alters field i of r so that its wire form differs (and stays well-formed);
// ok=false when this field cannot be altered in isolation.
// bitmapReplace selects how changeField alters a type bitmap: add/remove a type, or (true) replace
// one type by another so that the number of types stays the same.
var bitmapReplace bool

// hipPart selects which part of a HIP header changeField alters (0: the algorithm).
var hipPart int

func changeField(r *wm.Rec, i int, spec wm.FieldSpec) bool {
	f := &r.Fields[i]
	flip := func(b []byte, maxLen int) []byte {
		if len(b) == 0 {
			return []byte{'x'}
		}
		b[len(b)/2] ^= 0x01
		return b
	}
	switch f.K {
	case wm.U8, wm.U16, wm.U32, wm.U48, wm.U64:
		switch spec.Hint {
		case "gwtype":
			return false
		case "amtgwtype":
			f.U ^= 0x80
		default:
			f.U ^= 1
		}
	case wm.NameC, wm.NameU:
		if len(f.N) > 0 {
			f.N[0][0] ^= 0x01
		} else {
			f.N = wm.Name{{'x'}}
		}
	case wm.Names:
		f.NL = append(f.NL, wm.Name{{'x'}})
	case wm.Str, wm.Rest, wm.L8, wm.L16, wm.IPv4, wm.IPv6:
		f.B = flip(f.B, 255)
	case wm.Strs:
		if len(f.L) == 0 {
			f.L = [][]byte{{'x'}}
		} else {
			f.L[0] = flip(f.L[0], 255)
		}
	case wm.Bitmap:
		if bitmapReplace && len(f.T) > 1 && len(f.T)%2 == 0 {
			// the same types without the last one (one bitmap is a proper prefix of the other)
			f.T = append([]uint16{}, f.T[:len(f.T)-1]...)
			return true
		}
		if bitmapReplace && len(f.T) > 0 {
			// same number of types, one of them different
			k := len(f.T) / 2
			nv := f.T[k] + 1
			if k+1 < len(f.T) && f.T[k+1] == nv {
				nv = f.T[len(f.T)-1] + 1
				k = len(f.T) - 1
			}
			if nv != 0 {
				f.T = append([]uint16{}, f.T...)
				f.T[k] = nv
				return true
			}
		}
		if len(f.T) > 0 && f.T[0] == 1 {
			f.T = f.T[1:]
		} else if len(f.T) > 0 && f.T[0] == 0 {
			return false
		} else {
			f.T = append([]uint16{1}, f.T...)
		}
	case wm.GW:
		switch f.U {
		case 1, 2:
			f.B = flip(f.B, 16)
		case 3:
			if len(f.N) > 0 {
				f.N[0][0] ^= 0x01
			} else {
				f.N = wm.Name{{'x'}}
			}
		default:
			return false
		}
	case wm.HIPHdr:
		// hipPart: the algorithm, the HIT, the public key, the boundary between the two (twins_test.go)
		return changeHIP(f, hipPart)
	case wm.APLs:
		switch {
		case len(f.APL) > 0 && f.APL[0].Family == 1 && len(f.APL[0].Afd) > 0:
			// the IPv4-mapped IPv6 twin of an IPv4 item: different family, prefix and octets on the wire
			it := f.APL[0]
			f.APL[0] = wm.APLItem{Family: 2, Prefix: it.Prefix + 96, Neg: it.Neg, Afd: append([]byte{0, 0, 0, 0, 0, 0, 0, 0, 0, 0, 0xff, 0xff}, it.Afd...)}
		case len(f.APL) > 0:
			f.APL[0].Neg = !f.APL[0].Neg
		default:
			f.APL = []wm.APLItem{{Family: 1, Prefix: 8, Afd: []byte{10}}}
		}
	case wm.Params:
		// prefer changing a value in place (same key, same length)
		for j, o := range f.Opts {
			if (o.Code == 3 || o.Code == 4 || o.Code == 5 || o.Code == 7 || o.Code >= 9) && len(o.Data) > 0 {
				d := append([]byte(nil), o.Data...)
				d[len(d)-1] ^= 0x01
				f.Opts[j].Data = d
				return true
			}
		}
		if n := len(f.Opts); n > 0 && f.Opts[n-1].Code == 65000 {
			f.Opts = f.Opts[:n-1]
		} else if n > 0 && f.Opts[n-1].Code > 65000 {
			return false
		} else {
			f.Opts = append(f.Opts, wm.Option{Code: 65000, Data: []byte{1}})
		}
	default:
		return false
	}
	return true
}

// regroup moves one octet across a boundary between two adjacent variable-length pieces (two
// strings of a TXT-like list, two neighbouring character-strings, a string and the blob after it):
// the same octets in the same order, grouped differently - a different RDATA.
func regroup(r *wm.Rec) bool {
	move := func(a, b *[]byte, maxB int) bool {
		if len(*a) == 0 || len(*b) >= maxB {
			return false
		}
		x := (*a)[len(*a)-1]
		*a = append([]byte{}, (*a)[:len(*a)-1]...)
		*b = append([]byte{x}, (*b)...)
		return true
	}
	for i := range r.Fields {
		f := &r.Fields[i]
		if f.K == wm.Strs {
			for j := 0; j+1 < len(f.L); j++ {
				if move(&f.L[j], &f.L[j+1], 255) {
					return true
				}
			}
		}
		if i+1 < len(r.Fields) && f.K == wm.Str {
			g := &r.Fields[i+1]
			if (g.K == wm.Str && move(&f.B, &g.B, 255)) || (g.K == wm.Rest && move(&f.B, &g.B, 60000)) {
				return true
			}
		}
	}
	return false
}

// fromOneMessage returns the three records as they come out of ONE compressed message (RDATA names
// compressed differently in the three places, Rdlength = compressed length)
func fromOneMessage(recs []wm.Rec) []dns.RR {
	m := wm.Msg{ID: 1, Flags: wm.FlagQR, An: recs}
	w, err := wm.EncodeCompressed(m, true)
	if err != nil {
		return nil
	}
	var u dns.Msg
	if u.Unpack(w) != nil || len(u.Answer) != len(recs) {
		return nil
	}
	return u.Answer
}

func checkPair(c pairCase) error { return comparePair(c, pbt.Known, false) }

// comparePair is the oracle. live says which known findings are in force (the probes pass noneLive:
// they must see the defect, and pbt.Known cannot be asked from inside a probe); quiet suppresses the
// statistics (probes).
func comparePair(c pairCase, live func(string) bool, quiet bool) error {
	recs := []wm.Rec{c.A, c.B, c.C}
	var rrs []dns.RR
	var keys, nkeys, hkeys []string
	lenient := false
	param, refusedB := "", false
	if c.How == howSvcParam {
		param = svcParamOf(c.A, c.B)
	}
	for i, r := range recs {
		rr, err := wireBorn(r)
		if err != nil && i > 0 && strings.HasPrefix(c.How, "enc:") {
			refusedB = refusedB || i == 1
			// the decoder refuses this spelling: nothing was obtained from the wire; the other records of
			// the case are still compared (the refused one is replaced by the first)
			if !quiet {
				pbt.Class("enc:refused-by-the-decoder")
			}
			r = recs[0]
			recs[i] = r
			rr, err = wireBorn(r)
		}
		if err != nil {
			return nil // not decodable (or not encodable): outside the domain
		}
		rrs = append(rrs, rr)
		keys = append(keys, key(r))
		nkeys = append(nkeys, key(normalise(r, live(idBitmap), live(idMandatory), live(idCutShort))))
		hkeys = append(hkeys, key(normalise(r, false, true, false)))
		lenient = lenient || offLayout(r)
	}
	// verdict of the reference for records i and j obtained from the wire: duplicates exactly when the
	// octets are equal. skip: the two differ only by a spelling whose finding is known and live.
	counted := map[string]bool{}
	verdict := func(i, j int) (want, skip bool) {
		if keys[i] == keys[j] {
			return true, false
		}
		if nkeys[i] != nkeys[j] {
			return false, false
		}
		for _, id := range lenientIDs {
			if !live(id) || counted[id] {
				continue
			}
			one := func(r wm.Rec) string { return key(normalise(r, id == idBitmap, id == idMandatory, id == idCutShort)) }
			if one(recs[i]) != keys[i] || one(recs[j]) != keys[j] {
				counted[id] = true
				if !quiet {
					pbt.Excluded(id)
				}
			}
		}
		return false, true
	}
	unpackable := live("svcb-unpackable-value") && (unpackableParam(c.A) || unpackableParam(c.B) || unpackableParam(c.C))
	// the same three records decoded from one compressed message must relate in the same way
	if mrrs := fromOneMessage(recs); mrrs != nil && !unpackable {
		for i := range mrrs {
			for j := range mrrs {
				want, skip := verdict(i, j)
				if skip {
					continue
				}
				if got := dns.IsDuplicate(mrrs[i], mrrs[j]); got != want {
					return pbt.Errf("records decoded from one compressed message: IsDuplicate=%v, reference says %v (%s):\n  %s\n  %s", got, want, c.How, mrrs[i], mrrs[j])
				}
				if got := dns.IsDuplicate(mrrs[i], rrs[j]); got != want {
					return pbt.Errf("a record from a compressed message vs. one decoded on its own: IsDuplicate=%v, reference says %v (%s):\n  %s\n  %s", got, want, c.How, mrrs[i], rrs[j])
				}
			}
		}
	}
	wa, _ := wm.EncodeRR(c.A)
	wb, _ := wm.EncodeRR(c.B)
	near := c.How != "identical" && c.How != "unrelated"
	if !quiet {
		pbt.Note(append(append(wa, '|'), wb...), near, "how:"+c.How, "type:"+typeName(c.A.Type))
		if near {
			pbt.Sample("how:"+c.How, rrs[0].String()+"  |  "+rrs[1].String())
		}
		if strings.HasPrefix(c.How, "enc:") {
			pbt.Sample("octets:"+c.How, fmt.Sprintf("%x  |  %x", wa, wb))
		}
		if param != "" && refusedB {
			pbt.Class("svcparam-refused:" + param)
		} else if param != "" {
			pbt.Class("svcparam-accepted:" + param)
			pbt.Sample("svcparam-accepted:"+param, rrs[1].String())
		}
	}
	if unpackable {
		// only the "different records are not duplicates" half can be asserted
		pbt.Excluded("svcb-unpackable-value")
		for i := range rrs {
			for j := range rrs {
				if keys[i] != keys[j] && nkeys[i] != nkeys[j] && dns.IsDuplicate(rrs[i], rrs[j]) {
					return pbt.Errf("IsDuplicate=true for records with different RDATA (%s):\n  %s\n  %s", c.How, rrs[i], rrs[j])
				}
			}
		}
		return nil
	}
	for i := range rrs {
		for j := range rrs {
			want, skip := verdict(i, j)
			if skip {
				continue
			}
			got := dns.IsDuplicate(rrs[i], rrs[j])
			if got != want {
				return pbt.Errf("IsDuplicate=%v, reference says %v (%s):\n  %s\n  %s\n  (octets %x\n     and  %x)", got, want, c.How, rrs[i], rrs[j], []byte(keys[i]), []byte(keys[j]))
			}
		}
		// a record and its copy
		if !dns.IsDuplicate(rrs[i], dns.Copy(rrs[i])) || !dns.IsDuplicate(dns.Copy(rrs[i]), rrs[i]) {
			return pbt.Errf("a %s record is not a duplicate of its own copy: %s", typeName(recs[i].Type), rrs[i])
		}
	}
	if lenient {
		// a re-spelled or cut record exists only as octets: no hand-built twins; the laws on what was decoded
		return lawsHold(rrs)
	}
	// constructed (not wire-born) values: equivalence-relation laws and TTL/case insensitivity
	var cons []dns.RR
	for _, r := range recs {
		rr, err := wm.ToLib(r)
		if err != nil {
			return nil
		}
		cons = append(cons, rr)
	}
	// ... values typed in with raw 8-bit octets in names (one fixed spelling, so equal text still
	// means equal octets) and SvcParams in the order a program happened to append them: the verdicts
	// are those of the octets (a hand-built list of mandatory keys has no wire order: its octets are
	// those the packer writes, ascending)
	restore := wm.Spelling(wm.SpellRaw8)
	var raw []dns.RR
	for _, r := range recs {
		rr, err := wm.ToLib(r)
		if err != nil {
			restore()
			return nil
		}
		reverseParams(rr)
		raw = append(raw, rr)
	}
	restore()
	for i := range raw {
		for j := range raw {
			if got, want := dns.IsDuplicate(raw[i], raw[j]), hkeys[i] == hkeys[j]; got != want {
				return pbt.Errf("hand-built records (raw 8-bit octets in names, SvcParams in reverse order): IsDuplicate=%v, reference says %v (%s):\n  %s\n  %s", got, want, c.How, raw[i], raw[j])
			}
		}
		if !dns.IsDuplicate(raw[i], dns.Copy(raw[i])) {
			return pbt.Errf("a hand-built %s record is not a duplicate of its own copy: %s", typeName(recs[i].Type), raw[i])
		}
	}
	// ... values as a program holds them (names in any legal spelling, IPv4 addresses in the 16-octet
	// form of net.IPv4 / net.ParseIP): a record and its copy, and the laws below
	built, err := builtTwins(c, recs, cons, quiet)
	if err != nil {
		return err
	}
	// ... and a name written without its final dot is not the name written with it (a relative
	// name is another name, or none; the comparison may ignore letter case and nothing else)
	for i := range cons {
		rel := dns.Copy(cons[i])
		changed := false
		if n := rel.Header().Name; len(n) > 1 && strings.HasSuffix(n, ".") && !strings.HasSuffix(n, `\.`) {
			rel.Header().Name = strings.TrimSuffix(n, ".")
			changed = true
		}
		if !changed {
			layout, _ := wm.LayoutOf(recs[i].Type)
			v := reflect.ValueOf(rel).Elem()
			for _, sp := range layout {
				if sp.K != wm.NameC && sp.K != wm.NameU {
					continue
				}
				if f := v.FieldByName(sp.Go); f.IsValid() && f.Kind() == reflect.String {
					if n := f.String(); len(n) > 1 && strings.HasSuffix(n, ".") && !strings.HasSuffix(n, `\.`) {
						f.SetString(strings.TrimSuffix(n, "."))
						changed = true
						break
					}
				}
			}
		}
		if changed && !recs[i].NoRdata {
			if dns.IsDuplicate(cons[i], rel) || dns.IsDuplicate(rel, cons[i]) {
				return pbt.Errf("a record and the same record with one name written without its final dot are reported as duplicates:\n  %s\n  %s", cons[i], rel)
			}
			if !dns.IsDuplicate(rel, rel) {
				return pbt.Errf("IsDuplicate is not reflexive on %s", rel)
			}
		}
	}
	return lawsHold(append(append(append(append([]dns.RR{}, rrs...), cons...), raw...), built...))
}

// lawsHold: reflexive, symmetric, transitive on the given records (every ordered pair is asked once).
func lawsHold(all []dns.RR) error {
	n := len(all)
	d := make([][]bool, n)
	for i := range all {
		d[i] = make([]bool, n)
		for j := range all {
			d[i][j] = dns.IsDuplicate(all[i], all[j])
		}
	}
	for i := range all {
		if !d[i][i] {
			return pbt.Errf("IsDuplicate is not reflexive on %s", all[i])
		}
		for j := range all {
			if d[i][j] != d[j][i] {
				return pbt.Errf("IsDuplicate is not symmetric:\n  %s\n  %s", all[i], all[j])
			}
			for k := range all {
				if d[i][j] && d[j][k] && !d[i][k] {
					return pbt.Errf("IsDuplicate is not transitive:\n  %s\n  %s\n  %s", all[i], all[j], all[k])
				}
			}
		}
	}
	return nil
}

// unpackableParam: the record carries a SvcParam value the decoder accepts and the packer refuses
// (an empty alpn-id). Known finding svcb-unpackable-value: such a record is not a duplicate of
// itself; that it is not a duplicate of a DIFFERENT record is still asserted.
func unpackableParam(r wm.Rec) bool {
	for _, f := range r.Fields {
		if f.K != wm.Params {
			continue
		}
		for _, o := range f.Opts {
			if o.Code == 1 {
				for i := 0; i < len(o.Data); i += 1 + int(o.Data[i]) {
					if o.Data[i] == 0 {
						return true
					}
				}
			}
		}
	}
	return false
}

func reverseParams(rr dns.RR) {
	var v []dns.SVCBKeyValue
	switch x := rr.(type) {
	case *dns.SVCB:
		v = x.Value
	case *dns.HTTPS:
		v = x.Value
	}
	for i, j := 0, len(v)-1; i < j; i, j = i+1, j-1 {
		v[i], v[j] = v[j], v[i]
	}
}

func dupTypes() []uint16 {
	var out []uint16
	for _, t := range gen.AllTypes {
		if t != wm.TPrivate { // no comparison hook in the PrivateRdata interface: constant false by construction
			out = append(out, t)
		}
	}
	return out
}

func derive(t *rapid.T, a wm.Rec) (wm.Rec, string) {
	b := cloneRec(a)
	layout, _ := wm.LayoutOf(a.Type)
	switch rapid.IntRange(0, 13).Draw(t, "how") {
	case 13:
		// an opaque field replaced by the octets whose base64 text (or raw text) differs only in letter case
		if x, ok := deriveTextCase(t, a); ok {
			return x, howTextCase
		}
		return b, "identical"
	case 12:
		// one name cut into labels at another place (`a.b` as one label / as two)
		if x, ok := deriveLabelBoundary(t, a); ok {
			return x, howLabelBoundary
		}
		return b, "identical"
	case 11:
		// SVCB/HTTPS with a parameter value the decoder accepts but the packer refuses (an empty
		// alpn-id): A and B differ inside that value
		if a.Type == wm.TSVCB || a.Type == wm.THTTPS {
			for i := range a.Fields {
				if a.Fields[i].K == wm.Params {
					var rest []wm.Option
					for _, o := range a.Fields[i].Opts {
						if o.Code != 1 {
							rest = append(rest, o)
						}
					}
					other := byte('2' + rapid.IntRange(1, 7).Draw(t, "alpnother"))
					order := rapid.Bool().Draw(t, "emptyfirst")
					mk := func(last byte) []wm.Option {
						d := []byte{0, 2, 'h', last}
						if !order {
							d = []byte{2, 'h', last, 0}
						}
						out := append([]wm.Option{}, rest...)
						out = append(out, wm.Option{Code: 1, Data: d})
						sort.Slice(out, func(x, y int) bool { return out[x].Code < out[y].Code })
						return out
					}
					a.Fields[i].Opts = mk('2')
					b = cloneRec(a)
					b.Fields[i].Opts = mk(other)
					return b, "unpackable-svcparam"
				}
			}
		}
		return b, "identical"
	case 10:
		// one octet of a name replaced by an octet that some case-folding table pairs with another
		// one (Latin-1 letters, the punctuation next to the ASCII letters): A gets one, B its partner.
		// Only ASCII letters fold (RFC 4343): the two are different names.
		pairs := [][2]byte{{0xC9, 0xE9}, {0xC0, 0xE0}, {0xDE, 0xFE}, {0xD6, 0xF6}, {'@', '`'}, {'[', '{'}, {'^', '~'}, {0x1F, 0x3F}, {0x89, 0xA9}}
		p := pairs[rapid.IntRange(0, len(pairs)-1).Draw(t, "pair")]
		var slots []*[]byte
		for i := range a.Name {
			slots = append(slots, &a.Name[i])
		}
		if len(slots) == 0 {
			return b, "identical"
		}
		li := rapid.IntRange(0, len(slots)-1).Draw(t, "nlabel")
		pos := rapid.IntRange(0, len(a.Name[li])-1).Draw(t, "npos")
		a.Name[li][pos] = p[0] // (a is the caller's copy: genPair passes a value it owns)
		b = cloneRec(a)
		b.Name[li][pos] = p[1]
		return b, "near-case-octet"
	case 9:
		if !b.NoRdata && regroup(&b) {
			return b, "regrouped"
		}
		return b, "identical"
	case 0:
		return b, "identical"
	case 1:
		if rapid.Bool().Draw(t, "ttlbit") {
			b.TTL ^= 1 << uint(rapid.IntRange(0, 31).Draw(t, "ttlbitno"))
		} else {
			b.TTL ^= uint32(rapid.Uint32Range(1, 1<<32-1).Draw(t, "ttl"))
		}
		return b, "ttl-changed"
	case 2:
		b.Name = gen.FlipCase(t, b.Name)
		return b, "owner-case"
	case 3:
		for i := range b.Fields {
			b.Fields[i].N = gen.FlipCase(t, b.Fields[i].N)
			for j := range b.Fields[i].NL {
				b.Fields[i].NL[j] = gen.FlipCase(t, b.Fields[i].NL[j])
			}
		}
		return b, "rdata-name-case"
	case 4:
		// the class is a 16-bit number, every bit of it counts: exactly one bit (any of the 16), a small
		// difference, any difference
		switch rapid.IntRange(0, 2).Draw(t, "classhow") {
		case 0:
			b.Class ^= 1 << uint(rapid.IntRange(0, 15).Draw(t, "classbit"))
		case 1:
			b.Class ^= uint16(rapid.IntRange(1, 255).Draw(t, "classdelta"))
		default:
			b.Class ^= uint16(rapid.IntRange(1, 65535).Draw(t, "classdelta"))
		}
		return b, "class-changed"
	case 5:
		for _, g := range sameLayout {
			for _, x := range g {
				if x == a.Type {
					y := rapid.SampledFrom(g).Draw(t, "sibling")
					b.Type = y
					if y == a.Type {
						return b, "identical"
					}
					return b, "sibling-type"
				}
			}
		}
		fallthrough
	default:
		if len(b.Fields) > 0 && !b.NoRdata {
			i := rapid.IntRange(0, len(b.Fields)-1).Draw(t, "field")
			bitmapReplace = rapid.Bool().Draw(t, "bmreplace")
			if b.Fields[i].K == wm.HIPHdr {
				hipPart = rapid.IntRange(0, 4).Draw(t, "hippart")
			}
			ok := changeField(&b, i, layout[i])
			bitmapReplace, hipPart = false, 0
			if ok {
				return b, "one-field-changed"
			}
		}
		b.Name = append(wm.Name{{'x'}}, b.Name...)
		if !b.Name.Valid() {
			b.Name = wm.Name{{'x'}}
		}
		return b, "owner-changed"
	}
}

func genPair(t *rapid.T) pairCase {
	c := genPair0(t)
	// how the program-built twins of the three records are written (built_test.go)
	c.Spell = rapid.Uint64Range(1, 1<<62).Draw(t, "spell")
	return c
}

func genPair0(t *rapid.T) pairCase {
	o := &gen.Opts{Types: dupTypes(), Unknown: true, NoRdata: true, NameGen: func(t *rapid.T) wm.Name { return gen.Name(t, gen.NameOpts{MaxLabs: 3, MaxLabel: 6}) }}
	if rapid.IntRange(0, 7).Draw(t, "lenient") == 0 {
		return genLenient(t, o) // one field value spelled another way on the wire (lenient_test.go)
	}
	a := gen.Rec(t, o)
	for a.Type == wm.TPrivate {
		a = gen.Rec(t, o)
	}
	b, how := derive(t, a)
	var c wm.Rec
	switch rapid.IntRange(0, 2).Draw(t, "third") {
	case 0:
		c, _ = derive(t, b)
	case 1:
		c, _ = derive(t, a)
	default:
		c = gen.Rec(t, o)
		for c.Type == wm.TPrivate {
			c = gen.Rec(t, o)
		}
		if rapid.Bool().Draw(t, "unrel") {
			return pairCase{A: a, B: c, C: b, How: "unrelated"}
		}
	}
	return pairCase{A: a, B: b, C: c, How: how}
}

// baseRec is a fixed record of the given type with every field filled in.
func baseRec(typ uint16) wm.Rec {
	layout := wm.Layout[typ]
	a := wm.Rec{Name: wm.MustName("Owner.Example."), Type: typ, Class: 1, TTL: 300}
	for _, s := range layout {
		f := wm.Field{K: s.K}
		switch s.K {
		case wm.NameC, wm.NameU:
			f.N = wm.MustName("Host.Example.")
		case wm.Names:
			f.NL = []wm.Name{wm.MustName("Rvs.Example."), wm.MustName("Second.Rvs.Example.")}
		case wm.Str, wm.Rest, wm.L8, wm.L16:
			f.B = []byte("Abc")
			if s.Hint == "nsec3next" {
				f.B = bytes.Repeat([]byte{7}, 20)
			}
		case wm.Strs:
			f.L = [][]byte{[]byte("Abc"), []byte("def")}
		case wm.IPv4:
			f.B = []byte{192, 0, 2, 1}
		case wm.IPv6:
			f.B = append([]byte{0x20, 1, 0xd, 0xb8}, make([]byte, 12)...)
		case wm.Bitmap:
			f.T = []uint16{2, 46, 47}
		case wm.GW:
			f.U, f.N = 3, wm.MustName("Gw.Example.")
		case wm.HIPHdr:
			f.U, f.B, f.B2 = 2, []byte{1, 2, 3, 4}, []byte{5, 6, 7}
		case wm.APLs:
			f.APL = []wm.APLItem{{Family: 1, Prefix: 24, Afd: []byte{192, 0, 2}}}
		case wm.Params:
			f.Opts = []wm.Option{{Code: 1, Data: []byte{2, 'h', '2'}}, {Code: 3, Data: []byte{1, 187}}}
		case wm.U8:
			if s.Hint == "gwtype" || s.Hint == "amtgwtype" {
				f.U = 3
			} else {
				f.U = 5
			}
		default:
			f.U = 5
		}
		a.Fields = append(a.Fields, f)
	}
	return a
}

// every field of every type altered in turn (deterministic)
func eachFieldChange(emit func(pairCase)) {
	for _, typ := range dupTypes() {
		layout := wm.Layout[typ]
		a := baseRec(typ)
		if b := cloneRec(a); regroup(&b) {
			emit(pairCase{A: a, B: b, C: a, How: "regrouped"})
		}
		// gateway records with the discovery bit set (AMTRELAY): every field changed in turn again
		for i, sp := range layout {
			if sp.Hint != "amtgwtype" {
				continue
			}
			for _, gw := range []uint64{0x81, 0x82, 0x83} {
				d := cloneRec(a)
				d.Fields[i].U = gw
				for j := range d.Fields {
					if d.Fields[j].K == wm.GW {
						switch gw & 0x7f {
						case 1:
							d.Fields[j] = wm.Field{K: wm.GW, U: 1, B: []byte{192, 0, 2, 7}}
						case 2:
							d.Fields[j] = wm.Field{K: wm.GW, U: 2, B: append([]byte{0x20, 1, 0xd, 0xb8}, make([]byte, 12)...)}
						default:
							d.Fields[j] = wm.Field{K: wm.GW, U: 3, N: wm.MustName("Relay.Example.")}
						}
					}
				}
				for j := range layout {
					e := cloneRec(d)
					if changeField(&e, j, layout[j]) {
						emit(pairCase{A: d, B: e, C: d, How: "one-field-changed"})
					}
				}
			}
		}
		for i := range layout {
			b := cloneRec(a)
			if changeField(&b, i, layout[i]) {
				emit(pairCase{A: a, B: b, C: a, How: "one-field-changed"})
			}
			if layout[i].K == wm.Bitmap {
				bitmapReplace = true
				b2 := cloneRec(a)
				if changeField(&b2, i, layout[i]) {
					emit(pairCase{A: a, B: b2, C: a, How: "one-field-changed"})
				}
				bitmapReplace = false
			}
			// case of an embedded name only
			if layout[i].K == wm.NameC || layout[i].K == wm.NameU || layout[i].K == wm.GW {
				c := cloneRec(a)
				c.Fields[i].N = c.Fields[i].N.Lower()
				emit(pairCase{A: a, B: c, C: a, How: "rdata-name-case"})
			}
			if layout[i].K == wm.Names {
				for j := range a.Fields[i].NL {
					c := cloneRec(a)
					c.Fields[i].NL[j] = c.Fields[i].NL[j].Lower()
					emit(pairCase{A: a, B: c, C: a, How: "rdata-name-case"})
				}
			}
		}
	}
}

// ---------------------------------------------------------------------------------------------
// Dedup

type dedupCase struct {
	Bases  []wm.Rec // up to 4 group prototypes
	Items  []dedupItem
	OwnMap bool `json:",omitempty"` // the caller supplies the scratch map
	Prior  int  `json:",omitempty"` // > 0 (with OwnMap): the same scratch map has served an earlier Dedup call on this many of the prototypes
}

type dedupItem struct {
	Base      int
	TTL       uint32
	UpperMask uint64 // which owner letters are upper-cased
	EscMask   uint64 `json:",omitempty"` // which owner letters are written with a backslash in front (\A): the record is program-built with that spelling
	SameAs    int    `json:",omitempty"` // > 0: not a new record but the very record (same pointer) at position SameAs-1 again
	NoOwner   bool   `json:",omitempty"` // the record is program-built and its owner was never set (Hdr.Name == "": the text starts with the tab)
}

func ownerVariant(n wm.Name, mask uint64) wm.Name {
	o := n.Clone()
	k := uint(0)
	for _, l := range o {
		for i, c := range l {
			if c >= 'a' && c <= 'z' || c >= 'A' && c <= 'Z' {
				if mask>>(k%64)&1 == 1 {
					l[i] = c &^ 0x20
				} else {
					l[i] = c | 0x20
				}
				k++
			}
		}
	}
	return o
}

// idNoOwner: known finding - Dedup on records without an owner name keeps the TTL in its key and drops the class.
const idNoOwner = "dedup-absent-owner"

// idEscCase: known finding - Dedup does not fold an owner letter that is written with a backslash in front.
const idEscCase = "dedup-escaped-letter-case"

// escapedOwner writes the owner in presentation form as the library prints it, except that the letters
// selected by mask (counted as ownerVariant counts them) get a backslash in front: a legal spelling of
// the same octet (RFC 1035 5.1), kept as written by the zone parser and by String().
func escapedOwner(n wm.Name, mask uint64) string {
	if len(n) == 0 {
		return "."
	}
	var sb strings.Builder
	k := uint(0)
	for _, l := range n {
		for _, c := range l {
			if c >= 'a' && c <= 'z' || c >= 'A' && c <= 'Z' {
				if mask>>(k%64)&1 == 1 {
					sb.WriteByte('\\')
					sb.WriteByte(c)
				} else {
					sb.WriteByte(c)
				}
				k++
				continue
			}
			sb.WriteString(wm.EscLabel([]byte{c}))
		}
		sb.WriteByte('.')
	}
	return sb.String()
}

// group key as the statement defines it: the record's text with the TTL removed and the owner lower-cased
func textKey(rr dns.RR) string {
	s := rr.String()
	i := strings.IndexByte(s, '\t')
	if i < 0 {
		return s
	}
	j := strings.IndexByte(s[i+1:], '\t')
	if j < 0 {
		return s
	}
	owner := []byte(s[:i])
	for k, c := range owner {
		if c >= 'A' && c <= 'Z' {
			owner[k] = c + 32
		}
	}
	return string(owner) + s[i+1+j:]
}

func checkDedup(c dedupCase) error { return dedupOracle(c, false) }

// dedupOracle: quiet suppresses the statistics (probes).
func dedupOracle(c dedupCase, quiet bool) error {
	var in []dns.RR
	escaped := false
	shared := false
	absent := false
	for _, it := range c.Items {
		if it.Base >= len(c.Bases) {
			return nil
		}
		if it.SameAs > 0 && it.SameAs <= len(in) {
			in = append(in, in[it.SameAs-1]) // one record value listed twice (a section appended to itself, a shared cache entry)
			shared = true
			continue
		}
		r := cloneRec(c.Bases[it.Base])
		r.TTL = it.TTL
		r.Name = ownerVariant(r.Name, it.UpperMask)
		rr, err := wm.ToLib(r)
		if err != nil {
			return nil
		}
		if it.EscMask != 0 {
			if s := escapedOwner(r.Name, it.EscMask); s != rr.Header().Name {
				rr.Header().Name = s
				escaped = true
			}
		}
		if it.NoOwner {
			rr.Header().Name = ""
			absent = true
		}
		in = append(in, rr)
	}
	// expectation
	type grp struct {
		first  int
		minTTL uint32
		n      int
	}
	groups := map[string]*grp{}
	var order []string
	keys := make([]string, len(in))
	snaps := make([]string, len(in))
	for i, rr := range in {
		k := textKey(rr)
		keys[i] = k
		g := groups[k]
		if g == nil {
			g = &grp{first: i, minTTL: rr.Header().Ttl}
			groups[k] = g
			order = append(order, k)
		}
		g.n++
		if rr.Header().Ttl < g.minTTL {
			g.minTTL = rr.Header().Ttl
		}
		h := *rr.Header()
		rr.Header().Ttl = 0
		snaps[i] = aliascheck.Snapshot(rr)
		*rr.Header() = h
	}
	big := false
	for _, g := range groups {
		if g.n >= 2 {
			big = true
		}
	}
	if !quiet {
		pbt.Note([]byte(strings.Join(keys, "\n")+fmt.Sprint(c.Items)), big, fmt.Sprintf("groups=%d", len(groups)), fmt.Sprintf("records=%d", min(len(in), 12)))
		if shared {
			pbt.Class("same-record-listed-twice")
		}
		if absent {
			pbt.Class("owner-absent")
			pbt.Sample("owner-absent", fmt.Sprintf("%q", in[len(in)-1].String()))
		}
		if escaped {
			pbt.Class("owner-letter-escaped")
			pbt.Sample("owner-letter-escaped", in[len(in)-1].String())
		}
	}
	orig := append([]dns.RR{}, in...)
	var scratch map[string]dns.RR
	if c.OwnMap {
		scratch = map[string]dns.RR{}
	}
	if c.OwnMap && c.Prior > 0 {
		// the scratch map is the caller's and is kept between calls (that is what the parameter is for):
		// an earlier call on other records must not change the outcome of this one
		var prior []dns.RR
		for i := 0; i < c.Prior && i < len(c.Bases); i++ {
			if rr, err := wm.ToLib(cloneRec(c.Bases[i])); err == nil {
				prior = append(prior, rr)
			}
		}
		dns.Dedup(prior, scratch)
		if !quiet {
			pbt.Class("scratch-map-reused")
		}
	}
	out := dns.Dedup(in, scratch)
	if len(out) != len(order) {
		return pbt.Errf("Dedup returned %d records for %d groups", len(out), len(order))
	}
	for j, k := range order {
		g := groups[k]
		if out[j] != orig[g.first] {
			return pbt.Errf("Dedup result[%d] is not the first record of its group (original order must be preserved): got %s", j, out[j])
		}
		if out[j].Header().Ttl != g.minTTL {
			return pbt.Errf("Dedup result[%d] has TTL %d, smallest TTL of its group is %d: %s", j, out[j].Header().Ttl, g.minTTL, out[j])
		}
		h := *out[j].Header()
		out[j].Header().Ttl = 0
		s := aliascheck.Snapshot(out[j])
		*out[j].Header() = h
		if s != snaps[g.first] {
			return pbt.Errf("Dedup changed more than the TTL of %s", out[j])
		}
	}
	return nil
}

func genDedup(t *rapid.T) dedupCase {
	o := &gen.Opts{Types: dupTypes(), NameGen: func(t *rapid.T) wm.Name { return gen.Name(t, gen.NameOpts{MaxLabs: 3, MaxLabel: 6}) }}
	var c dedupCase
	nb := rapid.IntRange(1, 4).Draw(t, "nbases")
	for i := 0; i < nb; i++ {
		if i > 0 && rapid.IntRange(0, 2).Draw(t, "near") == 0 {
			b, _ := derive(t, c.Bases[0]) // near-miss groups: same text up to one detail
			c.Bases = append(c.Bases, b)
		} else {
			c.Bases = append(c.Bases, gen.Rec(t, o))
		}
	}
	n := rapid.IntRange(0, 12).Draw(t, "nitems")
	for i := 0; i < n; i++ {
		it := dedupItem{Base: rapid.IntRange(0, nb-1).Draw(t, "base"), TTL: uint32(gen.UintB(t, 32)),
			UpperMask: rapid.SampledFrom([]uint64{0, 0, ^uint64(0), 0x5555555555555555, 1}).Draw(t, "mask")}
		if i > 0 && rapid.IntRange(0, 7).Draw(t, "again") == 0 {
			it.SameAs = rapid.IntRange(1, i).Draw(t, "sameas")
		}
		// the owner spelled with a backslash in front of some letters (a program-built or zone-file name;
		// String() keeps the spelling): same text up to letter case = same group, other spelling = other text
		it.EscMask = rapid.SampledFrom([]uint64{0, 0, 0, 0, 1, ^uint64(0), 0x5555555555555555, 2}).Draw(t, "escmask")
		if it.EscMask&it.UpperMask != 0 && pbt.Known(idEscCase) {
			// known finding: an escaped letter is not folded. The escaped letters stay, all in lower case.
			it.UpperMask &^= it.EscMask
			pbt.Excluded(idEscCase)
		}
		// a record whose owner was never set (the zero value of the header): its text starts with the tab
		// in front of the TTL; texts identical up to the TTL are one group, another class is another text
		if rapid.IntRange(0, 7).Draw(t, "noowner") == 0 {
			if pbt.Known(idNoOwner) {
				pbt.Excluded(idNoOwner)
			} else {
				it.NoOwner = true
			}
		}
		c.Items = append(c.Items, it)
	}
	c.OwnMap = rapid.Bool().Draw(t, "ownmap")
	if c.OwnMap && rapid.Bool().Draw(t, "reused") {
		c.Prior = rapid.IntRange(1, nb).Draw(t, "prior")
	}
	return c
}

func init() {
	pbt.Probe("svcb-unpackable-value", func() error {
		w := []byte{1, 'x', 0, 0, 64, 0, 1, 0, 0, 0, 9, 0, 11, 0, 1, 0, 0, 1, 0, 4, 0, 2, 'h', '2'}
		rr, _, err := dns.UnpackRR(w, 0)
		if err != nil {
			return nil // the decoder refuses the value: nothing to compare
		}
		if !dns.IsDuplicate(rr, rr) || !dns.IsDuplicate(rr, dns.Copy(rr)) {
			return pbt.Errf("%s (decoded from the wire) is not a duplicate of itself / of its copy", rr)
		}
		return nil
	})
	pbt.Probe("dedup-scratch-map-reused", func() error {
		// fixed e2bff6a: the all-different early return left the caller's scratch map populated
		mk := func(s string) dns.RR { rr, _ := dns.NewRR(s); return rr }
		m := map[string]dns.RR{}
		dns.Dedup([]dns.RR{mk("a. 300 IN A 192.0.2.1"), mk("b. 300 IN A 192.0.2.2")}, m)
		out := dns.Dedup([]dns.RR{mk("c. 300 IN A 192.0.2.3"), mk("c. 200 IN A 192.0.2.3"), mk("c. 100 IN A 192.0.2.3"), mk("d. 300 IN A 192.0.2.4"), mk("e. 300 IN A 192.0.2.5")}, m)
		if len(out) != 3 || out[0].Header().Ttl != 100 {
			return pbt.Errf("Dedup with a scratch map that served an earlier (all-different) call returns %d records (want 3: c. with TTL 100, d., e.): %v", len(out), out)
		}
		out = dns.Dedup([]dns.RR{mk("a. 100 IN A 192.0.2.1"), mk("a. 50 IN A 192.0.2.1")}, m)
		if len(out) != 1 || out[0].Header().Ttl != 50 {
			return pbt.Errf("Dedup with a scratch map that served earlier calls: %v (want one record a. with TTL 50)", out)
		}
		return nil
	})
	pbt.Probe(idEscCase, func() error {
		// \Abc. 5 IN A 192.0.2.1 and \abc. 7 IN A 192.0.2.1: one group (the texts differ in the case of one owner letter)
		a := wm.Rec{Name: wm.MustName("abc."), Type: wm.TA, Class: 1, Fields: []wm.Field{{K: wm.IPv4, B: []byte{192, 0, 2, 1}}}}
		return dedupOracle(dedupCase{Bases: []wm.Rec{a}, Items: []dedupItem{{Base: 0, TTL: 5, UpperMask: 1, EscMask: 1}, {Base: 0, TTL: 7, EscMask: 1}}}, true)
	})
	pbt.Probe(idNoOwner, func() error {
		// "" 5 IN A 192.0.2.1 and "" 7 IN A 192.0.2.1: one group (the texts differ in the TTL only);
		// "" 5 IN A 192.0.2.1 and "" 5 CH A 192.0.2.1: two groups (the texts differ in the class)
		a := wm.Rec{Name: wm.MustName("abc."), Type: wm.TA, Class: 1, Fields: []wm.Field{{K: wm.IPv4, B: []byte{192, 0, 2, 1}}}}
		ch := cloneRec(a)
		ch.Class = 3
		if err := dedupOracle(dedupCase{Bases: []wm.Rec{a}, Items: []dedupItem{{Base: 0, TTL: 5, NoOwner: true}, {Base: 0, TTL: 7, NoOwner: true}}}, true); err != nil {
			return err
		}
		return dedupOracle(dedupCase{Bases: []wm.Rec{a, ch}, Items: []dedupItem{{Base: 0, TTL: 5, NoOwner: true}, {Base: 1, TTL: 5, NoOwner: true}}}, true)
	})
	pbt.Register(pbt.Sub[pairCase]{Name: "isduplicate", Weight: 20, Gen: genPair, Check: checkPair})
	pbt.RegisterEnum(pbt.Enum[pairCase]{Name: "every-field-of-every-type", Exhaustive: true, Each: eachFieldChange, Check: checkPair})
	pbt.Register(pbt.Sub[dedupCase]{Name: "dedup", Weight: 10, Gen: genDedup, Check: checkDedup})
}
