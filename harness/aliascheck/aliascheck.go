// Package aliascheck walks Go object graphs by reflection (including unexported fields) to find
// shared mutable memory, to snapshot values structurally and to scribble over everything a value
// can reach.
package aliascheck

import (
	"fmt"
	"reflect"
	"sort"
	"strings"
	"unsafe"
)

// Range is a half-open interval of mutable memory with a description of how it was reached.
type Range struct {
	Lo, Hi uintptr
	Path   string
}

type walker struct {
	seen   map[uintptr]bool
	ranges []Range
}

// Ranges returns the mutable memory reachable from v: slice backing arrays (whole capacity),
// pointees and maps. Strings are immutable and ignored. Zero-size ranges are dropped.
func Ranges(v any) []Range {
	w := &walker{seen: map[uintptr]bool{}}
	w.walk(reflect.ValueOf(v), "")
	return w.ranges
}

func (w *walker) add(lo uintptr, size uintptr, path string) {
	if size == 0 || lo == 0 {
		return
	}
	w.ranges = append(w.ranges, Range{lo, lo + size, path})
}

func (w *walker) walk(v reflect.Value, path string) {
	if !v.IsValid() {
		return
	}
	switch v.Kind() {
	case reflect.Interface:
		if !v.IsNil() {
			w.walk(v.Elem(), path)
		}
	case reflect.Pointer:
		if v.IsNil() {
			return
		}
		p := v.Pointer()
		if w.seen[p] {
			return
		}
		w.seen[p] = true
		w.add(p, v.Type().Elem().Size(), path+"*")
		w.walk(v.Elem(), path+"*")
	case reflect.Slice:
		if v.IsNil() || v.Cap() == 0 {
			return
		}
		p := v.Pointer()
		w.add(p, uintptr(v.Cap())*v.Type().Elem().Size(), path+"[]")
		if hasRefs(v.Type().Elem()) {
			for i := 0; i < v.Len(); i++ {
				w.walk(v.Index(i), fmt.Sprintf("%s[%d]", path, i))
			}
		}
	case reflect.Array:
		if hasRefs(v.Type().Elem()) {
			for i := 0; i < v.Len(); i++ {
				w.walk(v.Index(i), fmt.Sprintf("%s[%d]", path, i))
			}
		}
	case reflect.Struct:
		for i := 0; i < v.NumField(); i++ {
			if hasRefs(v.Field(i).Type()) {
				w.walk(v.Field(i), path+"."+v.Type().Field(i).Name)
			}
		}
	case reflect.Map:
		if v.IsNil() {
			return
		}
		p := v.Pointer()
		if w.seen[p] {
			return
		}
		w.seen[p] = true
		w.add(p, 8, path+"(map)")
		it := v.MapRange()
		for it.Next() {
			w.walk(it.Value(), path+"[k]")
		}
	}
}

func hasRefs(t reflect.Type) bool {
	switch t.Kind() {
	case reflect.Interface, reflect.Pointer, reflect.Slice, reflect.Map:
		return true
	case reflect.Array:
		return hasRefs(t.Elem())
	case reflect.Struct:
		for i := 0; i < t.NumField(); i++ {
			if hasRefs(t.Field(i).Type) {
				return true
			}
		}
	case reflect.Func, reflect.Chan:
		return false
	}
	return false
}

// Overlap returns a description of the first overlap between memory reachable from a and from b,
// or "" when the two graphs are disjoint.
func Overlap(a, b any) string {
	ra, rb := Ranges(a), Ranges(b)
	sort.Slice(ra, func(i, j int) bool { return ra[i].Lo < ra[j].Lo })
	for _, y := range rb {
		for _, x := range ra {
			if x.Lo >= y.Hi {
				break
			}
			if x.Hi > y.Lo {
				return fmt.Sprintf("%s shares memory with %s", x.Path, y.Path)
			}
		}
	}
	return ""
}

// OverlapBytes reports whether anything reachable from a lies inside buf's backing array.
func OverlapBytes(a any, buf []byte) string {
	if cap(buf) == 0 {
		return ""
	}
	lo := uintptr(unsafe.Pointer(unsafe.SliceData(buf)))
	hi := lo + uintptr(cap(buf))
	for _, x := range Ranges(a) {
		if x.Lo < hi && x.Hi > lo {
			return fmt.Sprintf("%s points into the input buffer", x.Path)
		}
	}
	return ""
}

// Snapshot is a canonical structural dump of a value (types, field names, scalars, string and
// slice contents, map contents in sorted key order; pointer identity is not recorded).
func Snapshot(v any) string {
	var sb strings.Builder
	dump(&sb, reflect.ValueOf(v), 0)
	return sb.String()
}

func dump(sb *strings.Builder, v reflect.Value, depth int) {
	if !v.IsValid() {
		sb.WriteString("<invalid>")
		return
	}
	if depth > 40 {
		sb.WriteString("<deep>")
		return
	}
	switch v.Kind() {
	case reflect.Interface, reflect.Pointer:
		if v.IsNil() {
			sb.WriteString("nil")
			return
		}
		if v.Kind() == reflect.Interface {
			sb.WriteString(v.Elem().Type().String())
		}
		sb.WriteString("&")
		dump(sb, v.Elem(), depth+1)
	case reflect.Struct:
		sb.WriteString(v.Type().Name() + "{")
		for i := 0; i < v.NumField(); i++ {
			if v.Type().Field(i).Type.Kind() == reflect.Func {
				continue
			}
			sb.WriteString(v.Type().Field(i).Name + ":")
			dump(sb, v.Field(i), depth+1)
			sb.WriteString(" ")
		}
		sb.WriteString("}")
	case reflect.Slice:
		// a nil and an empty slice are the same value for every observer of these structs
		if v.Type().Elem().Kind() == reflect.Uint8 {
			fmt.Fprintf(sb, "%x", bytesOf(v))
			return
		}
		sb.WriteString("[")
		for i := 0; i < v.Len(); i++ {
			dump(sb, v.Index(i), depth+1)
			sb.WriteString(",")
		}
		sb.WriteString("]")
	case reflect.Array:
		sb.WriteString("[")
		for i := 0; i < v.Len(); i++ {
			dump(sb, v.Index(i), depth+1)
			sb.WriteString(",")
		}
		sb.WriteString("]")
	case reflect.Map:
		keys := v.MapKeys()
		strs := make([]string, len(keys))
		for i, k := range keys {
			var kb, vb strings.Builder
			dump(&kb, k, depth+1)
			dump(&vb, v.MapIndex(k), depth+1)
			strs[i] = kb.String() + "=>" + vb.String()
		}
		sort.Strings(strs)
		sb.WriteString("map[" + strings.Join(strs, ";") + "]")
	case reflect.String:
		fmt.Fprintf(sb, "%q", v.String())
	case reflect.Bool:
		fmt.Fprintf(sb, "%v", v.Bool())
	case reflect.Int, reflect.Int8, reflect.Int16, reflect.Int32, reflect.Int64:
		fmt.Fprintf(sb, "%d", v.Int())
	case reflect.Uint, reflect.Uint8, reflect.Uint16, reflect.Uint32, reflect.Uint64, reflect.Uintptr:
		fmt.Fprintf(sb, "%d", v.Uint())
	case reflect.Func:
		sb.WriteString("func")
	default:
		fmt.Fprintf(sb, "<%s>", v.Kind())
	}
}

func bytesOf(v reflect.Value) []byte {
	n := v.Len()
	out := make([]byte, n)
	for i := 0; i < n; i++ {
		out[i] = byte(v.Index(i).Uint())
	}
	return out
}

// Scribble flips every byte of every slice element reachable from v (the whole capacity is not
// touched, only Len elements) and perturbs scalars stored behind pointers. It writes through
// unexported fields as well. It returns the number of memory cells modified.
func Scribble(v any) int {
	s := &scribbler{seen: map[uintptr]bool{}}
	s.walk(reflect.ValueOf(v), false)
	return s.n
}

type scribbler struct {
	seen map[uintptr]bool
	n    int
}

func settable(v reflect.Value) reflect.Value {
	if v.CanSet() {
		return v
	}
	if v.CanAddr() {
		return reflect.NewAt(v.Type(), unsafe.Pointer(v.UnsafeAddr())).Elem()
	}
	return v
}

func (s *scribbler) walk(v reflect.Value, addressable bool) {
	if !v.IsValid() {
		return
	}
	switch v.Kind() {
	case reflect.Interface:
		if !v.IsNil() {
			s.walk(v.Elem(), false)
		}
	case reflect.Pointer:
		if v.IsNil() || s.seen[v.Pointer()] {
			return
		}
		s.seen[v.Pointer()] = true
		s.walk(v.Elem(), true)
	case reflect.Slice:
		for i := 0; i < v.Len(); i++ {
			s.walk(v.Index(i), true)
		}
	case reflect.Array:
		for i := 0; i < v.Len(); i++ {
			s.walk(v.Index(i), addressable)
		}
	case reflect.Struct:
		for i := 0; i < v.NumField(); i++ {
			s.walk(v.Field(i), addressable)
		}
	case reflect.Map:
		// values are not addressable; maps hold no mutable payload in this library's types
	case reflect.Uint8, reflect.Uint16, reflect.Uint32, reflect.Uint64, reflect.Uint:
		if addressable {
			x := settable(v)
			if x.CanSet() {
				x.SetUint(^x.Uint())
				s.n++
			}
		}
	case reflect.Int, reflect.Int8, reflect.Int16, reflect.Int32, reflect.Int64:
		if addressable {
			x := settable(v)
			if x.CanSet() {
				x.SetInt(^x.Int())
				s.n++
			}
		}
	case reflect.Bool:
		if addressable {
			x := settable(v)
			if x.CanSet() {
				x.SetBool(!x.Bool())
				s.n++
			}
		}
	case reflect.String:
		if addressable {
			x := settable(v)
			if x.CanSet() {
				x.SetString(x.String() + "~scribbled")
				s.n++
			}
		}
	}
}
