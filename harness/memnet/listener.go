package memnet

import (
	"fmt"
	"net"
	"sync"
)

// Listener is an in-memory net.Listener. Dial creates a pipe, returns its client end and queues
// the server end for Accept. Events (with name "lis"): lis.accept.enter, lis.accept.return(j),
// lis.accept.return(closed), lis.accept.return(err), lis.close. The j of accept.return(j) is the
// X of the accepted server end's name "conn(X)" (Dial names the ends in Dial order; DialNamed lets
// the caller choose, e.g. the client's own index when several clients dial concurrently).
type Listener struct {
	log  *Log
	name string
	addr net.Addr

	mu       sync.Mutex
	cond     *sync.Cond
	queue    []*Conn
	errs     []error
	closed   bool
	dialled  int
	accepted []*Conn
	all      []*Conn
	waiting  int
}

// NewListener returns a listener bound to TCPAddr(53) logging under name.
func NewListener(log *Log, name string) *Listener {
	l := &Listener{log: log, name: name, addr: TCPAddr(53)}
	l.cond = sync.NewCond(&l.mu)
	return l
}

func (l *Listener) point(ev string) {
	if l.name != "" {
		l.log.Point(l.name + "." + ev)
	}
}

// Dial connects to the listener: it returns the client end, named "cli(j)", of a new pipe whose
// server end, named "conn(j)" (j = 1, 2, … in Dial order), is queued for Accept. Dial on a closed
// listener fails (connection refused).
func (l *Listener) Dial() (*Conn, error) {
	return l.dial("", "")
}

// DialNamed is Dial with explicit event-log names for the client and the server end
// ("" = the default cli(j) / conn(j)).
func (l *Listener) DialNamed(cliName, srvName string) (*Conn, error) {
	return l.dial(cliName, srvName)
}

func (l *Listener) dial(cliName, srvName string) (*Conn, error) {
	l.mu.Lock()
	defer l.mu.Unlock()
	if l.closed {
		return nil, &net.OpError{Op: "dial", Net: "mem", Addr: l.addr, Err: fmt.Errorf("connection refused")}
	}
	l.dialled++
	j := l.dialled
	if cliName == "" {
		cliName = fmt.Sprintf("cli(%d)", j)
	}
	if srvName == "" {
		srvName = fmt.Sprintf("conn(%d)", j)
	}
	cli, srv := pipeAddr(l.log, cliName, srvName, TCPAddr(40000+j), l.addr)
	l.queue = append(l.queue, srv)
	l.all = append(l.all, srv)
	l.cond.Broadcast()
	return cli, nil
}

// InjectAcceptError makes one future Accept call return err (in FIFO order with queued conns
// taking precedence over nothing: errors are returned before queued connections).
func (l *Listener) InjectAcceptError(err error) {
	l.mu.Lock()
	l.errs = append(l.errs, err)
	l.cond.Broadcast()
	l.mu.Unlock()
}

// Accept implements net.Listener.
func (l *Listener) Accept() (net.Conn, error) {
	l.point("accept.enter")
	l.mu.Lock()
	for {
		if l.closed {
			l.mu.Unlock()
			l.point("accept.return(closed)")
			return nil, &net.OpError{Op: "accept", Net: "mem", Addr: l.addr, Err: net.ErrClosed}
		}
		if len(l.errs) > 0 {
			err := l.errs[0]
			l.errs = l.errs[1:]
			l.mu.Unlock()
			l.point("accept.return(err)")
			return nil, err
		}
		if len(l.queue) > 0 {
			c := l.queue[0]
			l.queue = l.queue[1:]
			l.accepted = append(l.accepted, c)
			idx := connIndex(c.name)
			if idx == "" {
				for i, x := range l.all {
					if x == c {
						idx = fmt.Sprint(i + 1)
					}
				}
			}
			l.mu.Unlock()
			l.point("accept.return(" + idx + ")")
			return c, nil
		}
		l.waiting++
		l.cond.Wait()
		l.waiting--
	}
}

// connIndex returns X for a name of the form "conn(X)", else "".
func connIndex(name string) string {
	if len(name) > 6 && name[:5] == "conn(" && name[len(name)-1] == ')' {
		return name[5 : len(name)-1]
	}
	return ""
}

// Close implements net.Listener: pending and future Accepts fail with net.ErrClosed; connections
// that were dialled but not yet accepted are reset (their server end is closed, the client reads
// EOF). Event lis.close is logged after the effect. A second Close returns net.ErrClosed.
func (l *Listener) Close() error {
	l.point("close.enter") // interposition point BEFORE the effect: a plan can make Close slow
	l.mu.Lock()
	was := l.closed
	l.closed = true
	q := l.queue
	l.queue = nil
	l.cond.Broadcast()
	l.mu.Unlock()
	for _, c := range q {
		name := c.name
		c.name = "" // the reset of a never-accepted conn is not an event of the server
		c.Close()
		c.name = name
	}
	l.point("close")
	if was {
		return &net.OpError{Op: "close", Net: "mem", Addr: l.addr, Err: net.ErrClosed}
	}
	return nil
}

// Addr implements net.Listener.
func (l *Listener) Addr() net.Addr { return l.addr }

// Closed reports whether Close has been called.
func (l *Listener) Closed() bool {
	l.mu.Lock()
	defer l.mu.Unlock()
	return l.closed
}

// Accepted returns the server ends handed out by Accept so far, in order.
func (l *Listener) Accepted() []*Conn {
	l.mu.Lock()
	defer l.mu.Unlock()
	return append([]*Conn(nil), l.accepted...)
}

// Pending returns the number of dialled connections not yet accepted.
func (l *Listener) Pending() int {
	l.mu.Lock()
	defer l.mu.Unlock()
	return len(l.queue)
}

// Waiting reports whether an Accept call is currently blocked.
func (l *Listener) Waiting() bool {
	l.mu.Lock()
	defer l.mu.Unlock()
	return l.waiting > 0
}

var _ net.Listener = (*Listener)(nil)
