package memnet

import (
	"bytes"
	"errors"
	"io"
	"net"
	"testing"
	"time"
)

func isTimeout(err error) bool {
	var ne net.Error
	return errors.As(err, &ne) && ne.Timeout()
}

func TestMatch(t *testing.T) {
	for _, c := range []struct {
		pat, name string
		want      bool
	}{
		{"a", "a", true}, {"a", "b", false}, {"conn(*).read.enter", "conn(12).read.enter", true},
		{"conn(*).read.enter", "conn(1).read.return(3)", false}, {"*", "", true}, {"*x*", "axb", true},
		{"a*a", "a", false}, {"a*a", "aa", true}, {"handler.exit(*)", "handler.exit(3)", true},
	} {
		if got := Match(c.pat, c.name); got != c.want {
			t.Errorf("Match(%q,%q)=%v", c.pat, c.name, got)
		}
	}
}

func TestStreamBasics(t *testing.T) {
	log := NewLog()
	a, b := Pipe(log, "a", "b")
	if _, ok := any(a).(net.PacketConn); ok {
		t.Fatal("stream Conn must not be a net.PacketConn")
	}
	a.Write([]byte("hello"))
	a.Write([]byte("world"))
	buf := make([]byte, 64)
	n, err := b.Read(buf)
	if err != nil || string(buf[:n]) != "helloworld" {
		t.Fatalf("coalescing read without plan: %q %v", buf[:n], err)
	}
	// pending read is failed by a past deadline, and so are future reads, until reset
	done := make(chan error, 1)
	go func() { _, err := b.Read(buf); done <- err }()
	for !b.Blocked() {
		time.Sleep(time.Millisecond)
	}
	b.SetReadDeadline(time.Unix(1, 0))
	select {
	case err := <-done:
		if !isTimeout(err) {
			t.Fatalf("want timeout, got %v", err)
		}
	case <-time.After(2 * time.Second):
		t.Fatal("pending read not unblocked by past deadline")
	}
	a.Write([]byte("x"))
	if _, err := b.Read(buf); !isTimeout(err) {
		t.Fatalf("future read with past deadline and data available: %v", err)
	}
	b.SetReadDeadline(time.Time{})
	if n, err := b.Read(buf); n != 1 || err != nil {
		t.Fatalf("after reset: %d %v", n, err)
	}
	// future deadline expires
	b.SetReadDeadline(time.Now().Add(20 * time.Millisecond))
	t0 := time.Now()
	if _, err := b.Read(buf); !isTimeout(err) || time.Since(t0) > time.Second {
		t.Fatalf("future deadline: %v after %v", err, time.Since(t0))
	}
	b.SetReadDeadline(time.Time{})
	// Close unblocks local read; peer sees EOF after draining
	go func() { _, err := b.Read(buf); done <- err }()
	for !b.Blocked() {
		time.Sleep(time.Millisecond)
	}
	b.Close()
	if err := <-done; !errors.Is(err, net.ErrClosed) {
		t.Fatalf("close did not unblock read properly: %v", err)
	}
	if _, err := a.Write([]byte("y")); err == nil {
		t.Fatal("write to closed peer succeeded")
	}
	if _, err := a.Read(buf); err != io.EOF {
		t.Fatalf("peer read after close: %v", err)
	}
	for _, want := range []string{"a.write(5)", "b.read.enter", "b.read.return(10)", "b.setReadDeadline(past)", "b.read.return(timeout)", "b.setReadDeadline(future)", "b.close", "b.read.return(closed)", "a.read.return(eof)"} {
		if !log.Has(want) {
			t.Errorf("event %q missing\n%s", want, log)
		}
	}
}

func TestStreamPlan(t *testing.T) {
	a, b := Pipe(nil, "", "")
	a.SetPlan(StreamPlan{WriteChunks: []int{1, 2}})
	b.SetPlan(StreamPlan{ReadSizes: []int{5, 1}})
	msg := []byte("0123456789")
	a.Write(msg)
	var got []int
	var all []byte
	buf := make([]byte, 64)
	for len(all) < len(msg) {
		n, err := b.Read(buf)
		if err != nil {
			t.Fatal(err)
		}
		got = append(got, n)
		all = append(all, buf[:n]...)
	}
	// segments 0 12 3 45 6 78 9; read bounds 5,1,5,1,…; no coalescing
	if !bytes.Equal(all, msg) {
		t.Fatalf("octets changed: %q", all)
	}
	want := []int{1, 1, 1, 1, 2, 1, 2, 1}
	if len(got) != len(want) {
		t.Fatalf("read sizes %v want %v", got, want)
	}
	for i := range want {
		if got[i] != want[i] {
			t.Fatalf("read sizes %v want %v", got, want)
		}
	}
	// read fault at octet 3
	c, d := Pipe(nil, "", "")
	d.SetPlan(StreamPlan{Coalesce: true, ReadFault: "eof", ReadFaultAt: 3})
	c.Write(msg)
	n, err := io.ReadFull(d, buf[:10])
	if n != 3 || err != io.ErrUnexpectedEOF {
		t.Fatalf("read fault: n=%d err=%v", n, err)
	}
	if _, err := d.Read(buf); err != io.EOF {
		t.Fatalf("fault not sticky: %v", err)
	}
	// write fault at octet 4
	e, f := Pipe(nil, "", "")
	e.SetPlan(StreamPlan{WriteFault: "err", WriteFaultAt: 4})
	n, err = e.Write(msg)
	if n != 4 || !errors.Is(err, ErrInjected) {
		t.Fatalf("write fault: n=%d err=%v", n, err)
	}
	if f.Buffered() != 4 {
		t.Fatalf("peer got %d octets", f.Buffered())
	}
	if n, err := e.Write(msg); n != 0 || err == nil {
		t.Fatalf("write after fault: %d %v", n, err)
	}
}

func TestListener(t *testing.T) {
	log := NewLog()
	l := NewListener(log, "lis")
	type res struct {
		c   net.Conn
		err error
	}
	ch := make(chan res, 4)
	go func() { c, err := l.Accept(); ch <- res{c, err} }()
	cli, err := l.Dial()
	if err != nil {
		t.Fatal(err)
	}
	r := <-ch
	if r.err != nil {
		t.Fatal(r.err)
	}
	cli.Write([]byte("ping"))
	buf := make([]byte, 8)
	if n, _ := r.c.Read(buf); string(buf[:n]) != "ping" {
		t.Fatal("no data through accepted conn")
	}
	go func() { c, err := l.Accept(); ch <- res{c, err} }()
	for !l.Waiting() {
		time.Sleep(time.Millisecond)
	}
	l.Close()
	if r := <-ch; !errors.Is(r.err, net.ErrClosed) {
		t.Fatalf("accept after close: %v", r.err)
	}
	if _, err := l.Dial(); err == nil {
		t.Fatal("dial on closed listener succeeded")
	}
	for _, want := range []string{"lis.accept.enter", "lis.accept.return(1)", "conn(1).read.return(4)", "lis.close", "lis.accept.return(closed)"} {
		if !log.Has(want) {
			t.Errorf("event %q missing\n%s", want, log)
		}
	}
	if len(l.Accepted()) != 1 || l.Accepted()[0].Closed() {
		t.Fatal("Accepted bookkeeping")
	}
}

func TestPacketConn(t *testing.T) {
	log := NewLog()
	pn := NewPacketNet(log)
	srv := pn.Listen("pc", UDPAddr(53))
	cli := pn.Dial("cc", UDPAddr(40001), srv.LocalAddr())
	if _, ok := any(srv).(*net.UDPConn); ok {
		t.Fatal("impossible")
	}
	cli.Write([]byte("q1"))
	buf := make([]byte, 16)
	n, from, err := srv.ReadFrom(buf)
	if err != nil || string(buf[:n]) != "q1" || from.String() != cli.LocalAddr().String() {
		t.Fatalf("%q %v %v", buf[:n], from, err)
	}
	srv.WriteTo([]byte("r1"), from)
	if n, err := cli.Read(buf); err != nil || string(buf[:n]) != "r1" {
		t.Fatalf("%q %v", buf[:n], err)
	}
	done := make(chan error, 1)
	go func() { _, _, err := srv.ReadFrom(buf); done <- err }()
	if !srv.WaitIdle(2 * time.Second) {
		t.Fatal("WaitIdle")
	}
	srv.SetReadDeadline(time.Unix(1, 0))
	if err := <-done; !isTimeout(err) {
		t.Fatalf("past deadline: %v", err)
	}
	srv.Inject([]byte("zz"), UDPAddr(9))
	if _, _, err := srv.ReadFrom(buf); !isTimeout(err) {
		t.Fatalf("future read with past deadline: %v", err)
	}
	srv.SetReadDeadline(time.Time{})
	go func() { _, _, err := srv.ReadFrom(buf); done <- err }()
	<-done // reads zz
	go func() { _, _, err := srv.ReadFrom(buf); done <- err }()
	srv.WaitIdle(2 * time.Second)
	srv.Close()
	if err := <-done; !errors.Is(err, net.ErrClosed) {
		t.Fatalf("close: %v", err)
	}
	for _, want := range []string{"pc.readFrom.enter", "pc.readFrom.return(1)", "pc.writeTo(1)", "pc.setReadDeadline(past)", "pc.readFrom.return(timeout)", "pc.readFrom.return(2)", "pc.close", "pc.readFrom.return(closed)", "cc.writeTo(1)"} {
		if !log.Has(want) {
			t.Errorf("event %q missing\n%s", want, log)
		}
	}
}

func TestPlanWait(t *testing.T) {
	log := NewLog()
	log.SetPlan([]Wait{{At: "x.enter", For: "go"}, {At: "y.enter", For: "never", TimeoutMs: 20}})
	done := make(chan struct{})
	go func() { log.Point("x.enter"); log.Add("x.proceed"); close(done) }()
	if !log.WaitFor("x.enter", time.Second) {
		t.Fatal("no x.enter")
	}
	time.Sleep(10 * time.Millisecond)
	if log.Has("x.proceed") {
		t.Fatal("wait did not hold the goroutine")
	}
	log.Add("go")
	<-done
	log.Point("y.enter")
	if log.Infeasible() != 1 || !log.Has("plan-infeasible(at=y.enter,for=never)") {
		t.Fatalf("infeasible wait not logged:\n%s", log)
	}
}
