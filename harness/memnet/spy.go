package memnet

import (
	"fmt"
	"net"
	"strconv"
	"sync"
	"time"
)

// SpyListener wraps a real net.Listener (e.g. loopback TCP) so that it logs the same events – and
// offers the same interposition points – as a memnet Listener; accepted conns are wrapped in
// SpyConn named "conn(j)" in Accept order.
type SpyListener struct {
	net.Listener
	// NameFunc, when set before the first Accept, chooses the index X of the accepted conn's name
	// "conn(X)" (e.g. from the remote address); "" falls back to the Accept ordinal.
	NameFunc func(c net.Conn) string
	log      *Log
	name     string

	mu       sync.Mutex
	n        int
	closed   bool
	accepted []*SpyConn
	errs     []error
}

// WrapListener returns l wrapped with event logging under name.
func WrapListener(log *Log, name string, l net.Listener) *SpyListener {
	return &SpyListener{Listener: l, log: log, name: name}
}

// InjectAcceptError makes one future Accept call return err without touching the real listener.
func (l *SpyListener) InjectAcceptError(err error) {
	l.mu.Lock()
	l.errs = append(l.errs, err)
	l.mu.Unlock()
}

func (l *SpyListener) Accept() (net.Conn, error) {
	l.log.Point(l.name + ".accept.enter")
	l.mu.Lock()
	if len(l.errs) > 0 {
		err := l.errs[0]
		l.errs = l.errs[1:]
		l.mu.Unlock()
		l.log.Point(l.name + ".accept.return(err)")
		return nil, err
	}
	l.mu.Unlock()
	c, err := l.Listener.Accept()
	if err != nil {
		l.mu.Lock()
		closed := l.closed
		l.mu.Unlock()
		if closed {
			l.log.Point(l.name + ".accept.return(closed)")
		} else {
			l.log.Point(l.name + ".accept.return(err)")
		}
		return nil, err
	}
	idx := ""
	if l.NameFunc != nil {
		idx = l.NameFunc(c)
	}
	l.mu.Lock()
	l.n++
	if idx == "" {
		idx = strconv.Itoa(l.n)
	}
	sc := &SpyConn{Conn: c, log: l.log, name: fmt.Sprintf("conn(%s)", idx)}
	l.accepted = append(l.accepted, sc)
	l.mu.Unlock()
	l.log.Point(l.name + ".accept.return(" + idx + ")")
	return sc, nil
}

func (l *SpyListener) Close() error {
	l.mu.Lock()
	l.closed = true
	l.mu.Unlock()
	err := l.Listener.Close()
	l.log.Point(l.name + ".close")
	return err
}

// Closed reports whether Close has been called.
func (l *SpyListener) Closed() bool { l.mu.Lock(); defer l.mu.Unlock(); return l.closed }

// Accepted returns the wrapped conns handed out so far.
func (l *SpyListener) Accepted() []*SpyConn {
	l.mu.Lock()
	defer l.mu.Unlock()
	return append([]*SpyConn(nil), l.accepted...)
}

// SpyConn wraps a real net.Conn with the event names of a memnet Conn
// (read.enter, read.return(n|timeout|err), write(n), setReadDeadline(past|future|zero), close).
type SpyConn struct {
	net.Conn
	log    *Log
	name   string
	mu     sync.Mutex
	closed bool
}

// WrapConn returns c wrapped with event logging under name.
func WrapConn(log *Log, name string, c net.Conn) *SpyConn {
	return &SpyConn{Conn: c, log: log, name: name}
}

func (c *SpyConn) Name() string { return c.name }

func (c *SpyConn) Read(b []byte) (int, error) {
	c.log.Point(c.name + ".read.enter")
	n, err := c.Conn.Read(b)
	tag := strconv.Itoa(n)
	if err != nil {
		tag = "err"
		if ne, ok := err.(net.Error); ok && ne.Timeout() {
			tag = "timeout"
		} else if err.Error() == "EOF" {
			tag = "eof"
		}
	}
	c.log.Point(c.name + ".read.return(" + tag + ")")
	return n, err
}

func (c *SpyConn) Write(b []byte) (int, error) {
	c.log.Point(c.name + ".write(" + strconv.Itoa(len(b)) + ")")
	return c.Conn.Write(b)
}

func (c *SpyConn) Close() error {
	c.mu.Lock()
	c.closed = true
	c.mu.Unlock()
	err := c.Conn.Close()
	c.log.Point(c.name + ".close")
	return err
}

// Closed reports whether Close has been called.
func (c *SpyConn) Closed() bool { c.mu.Lock(); defer c.mu.Unlock(); return c.closed }

func (c *SpyConn) SetReadDeadline(t time.Time) error {
	c.log.Point(c.name + ".setReadDeadline.enter(" + pastFutureZero(t) + ")")
	err := c.Conn.SetReadDeadline(t)
	c.log.Point(c.name + ".setReadDeadline(" + pastFutureZero(t) + ")")
	return err
}

func (c *SpyConn) SetDeadline(t time.Time) error {
	err := c.Conn.SetDeadline(t)
	c.log.Point(c.name + ".setReadDeadline(" + pastFutureZero(t) + ")")
	return err
}
