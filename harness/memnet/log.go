package memnet

import (
	"fmt"
	"strings"
	"sync"
	"time"
)

// DefaultWaitTimeout is the fallback after which an unsatisfied plan wait is abandoned.
const DefaultWaitTimeout = 200 * time.Millisecond

// Event is one entry of the log.
type Event struct {
	Seq  int           // position in the log, 0-based
	Name string        // e.g. "conn(2).read.enter"
	At   time.Duration // time since NewLog (diagnostic only – never used for decisions)
}

// Wait is one interposition rule: a goroutine that has just logged an event matching At is held
// until an event matching For is in the log (or the timeout expires). Plain JSON-serialisable.
type Wait struct {
	At        string // event name or pattern ('*' = any run of characters)
	For       string // event name or pattern
	TimeoutMs int    // 0 = DefaultWaitTimeout
	Once      bool   // apply only to the first event matching At
}

// Log is an append-only, goroutine-safe event log with interposition.
type Log struct {
	mu     sync.Mutex
	events []Event
	start  time.Time
	bcast  chan struct{} // closed and replaced on every append
	waits  []Wait
	used   []bool
	// Infeasible counts abandoned waits.
	infeasible int
	hooks      []func(name string)
}

// NewLog returns an empty log without a plan.
func NewLog() *Log {
	return &Log{start: time.Now(), bcast: make(chan struct{})}
}

// SetPlan installs the interposition plan (replacing the previous one).
func (l *Log) SetPlan(waits []Wait) {
	l.mu.Lock()
	l.waits = append([]Wait(nil), waits...)
	l.used = make([]bool, len(waits))
	l.mu.Unlock()
}

// OnEvent registers f to be called synchronously (without the log's mutex held) by the goroutine
// that appends an event, after the append and before the plan is consulted. f must not block for
// long; it may call Add/Point itself.
func (l *Log) OnEvent(f func(name string)) {
	l.mu.Lock()
	l.hooks = append(l.hooks, f)
	l.mu.Unlock()
}

func (l *Log) add(name string) (hooks []func(string)) {
	l.mu.Lock()
	l.events = append(l.events, Event{Seq: len(l.events), Name: name, At: time.Since(l.start)})
	close(l.bcast)
	l.bcast = make(chan struct{})
	hooks = l.hooks
	l.mu.Unlock()
	return hooks
}

// Add appends an event without consulting the plan (it is not an interposition point).
// A nil *Log ignores everything.
func (l *Log) Add(name string) {
	if l == nil {
		return
	}
	for _, h := range l.add(name) {
		h(name)
	}
}

// Addf is Add(fmt.Sprintf(…)).
func (l *Log) Addf(format string, a ...any) { l.Add(fmt.Sprintf(format, a...)) }

// Point appends the event and then applies the plan: if a Wait's At matches name the calling
// goroutine is held until the Wait's For event has been logged or its timeout expires (then
// "plan-infeasible(at=…,for=…)" is logged). Must not be called with a lock held that the awaited
// event's producer needs, unless the resulting timeout is acceptable.
func (l *Log) Point(name string) {
	if l == nil {
		return
	}
	for _, h := range l.add(name) {
		h(name)
	}
	l.mu.Lock()
	var todo []Wait
	for i, w := range l.waits {
		if w.Once && l.used[i] {
			continue
		}
		if Match(w.At, name) {
			l.used[i] = true
			todo = append(todo, w)
		}
	}
	l.mu.Unlock()
	for _, w := range todo {
		d := DefaultWaitTimeout
		if w.TimeoutMs > 0 {
			d = time.Duration(w.TimeoutMs) * time.Millisecond
		}
		if !l.WaitFor(w.For, d) {
			l.mu.Lock()
			l.infeasible++
			l.mu.Unlock()
			l.Add("plan-infeasible(at=" + name + ",for=" + w.For + ")")
		}
	}
}

// Pointf is Point(fmt.Sprintf(…)).
func (l *Log) Pointf(format string, a ...any) { l.Point(fmt.Sprintf(format, a...)) }

// Infeasible returns the number of plan waits that were abandoned.
func (l *Log) Infeasible() int {
	if l == nil {
		return 0
	}
	l.mu.Lock()
	defer l.mu.Unlock()
	return l.infeasible
}

// WaitFor blocks until an event matching pat is in the log (true) or d has passed (false).
// Events logged before the call count.
func (l *Log) WaitFor(pat string, d time.Duration) bool {
	return l.WaitCount(pat, 1, d)
}

// WaitCount blocks until at least n events matching pat are in the log, or d has passed.
func (l *Log) WaitCount(pat string, n int, d time.Duration) bool {
	if l == nil {
		return false
	}
	var timer *time.Timer
	defer func() {
		if timer != nil {
			timer.Stop()
		}
	}()
	scanned, cnt := 0, 0
	for {
		l.mu.Lock()
		for ; scanned < len(l.events); scanned++ {
			if Match(pat, l.events[scanned].Name) {
				cnt++
			}
		}
		ch := l.bcast
		l.mu.Unlock()
		if cnt >= n {
			return true
		}
		if timer == nil {
			timer = time.NewTimer(d)
		}
		select {
		case <-ch:
		case <-timer.C:
			// one last look
			l.mu.Lock()
			for ; scanned < len(l.events); scanned++ {
				if Match(pat, l.events[scanned].Name) {
					cnt++
				}
			}
			l.mu.Unlock()
			return cnt >= n
		}
	}
}

// Has reports whether an event matching pat has been logged.
func (l *Log) Has(pat string) bool { return l.Index(pat) >= 0 }

// Index returns the position of the first event matching pat, or -1.
func (l *Log) Index(pat string) int {
	if l == nil {
		return -1
	}
	l.mu.Lock()
	defer l.mu.Unlock()
	for i, e := range l.events {
		if Match(pat, e.Name) {
			return i
		}
	}
	return -1
}

// LastIndex returns the position of the last event matching pat, or -1.
func (l *Log) LastIndex(pat string) int {
	if l == nil {
		return -1
	}
	l.mu.Lock()
	defer l.mu.Unlock()
	for i := len(l.events) - 1; i >= 0; i-- {
		if Match(pat, l.events[i].Name) {
			return i
		}
	}
	return -1
}

// Count returns the number of logged events matching pat.
func (l *Log) Count(pat string) int {
	if l == nil {
		return 0
	}
	l.mu.Lock()
	defer l.mu.Unlock()
	n := 0
	for _, e := range l.events {
		if Match(pat, e.Name) {
			n++
		}
	}
	return n
}

// Len returns the number of events logged so far.
func (l *Log) Len() int {
	if l == nil {
		return 0
	}
	l.mu.Lock()
	defer l.mu.Unlock()
	return len(l.events)
}

// Events returns a snapshot of the log.
func (l *Log) Events() []Event {
	if l == nil {
		return nil
	}
	l.mu.Lock()
	defer l.mu.Unlock()
	return append([]Event(nil), l.events...)
}

// Names returns a snapshot of the event names in order.
func (l *Log) Names() []string {
	if l == nil {
		return nil
	}
	l.mu.Lock()
	defer l.mu.Unlock()
	out := make([]string, len(l.events))
	for i, e := range l.events {
		out[i] = e.Name
	}
	return out
}

// String renders the log one event per line with the diagnostic time offset.
func (l *Log) String() string {
	var sb strings.Builder
	for _, e := range l.Events() {
		fmt.Fprintf(&sb, "%4d %9.3fms %s\n", e.Seq, float64(e.At)/1e6, e.Name)
	}
	return sb.String()
}

// Match reports whether name matches pat; '*' in pat matches any (possibly empty) run of
// characters, everything else is literal.
func Match(pat, name string) bool {
	if !strings.Contains(pat, "*") {
		return pat == name
	}
	parts := strings.Split(pat, "*")
	if !strings.HasPrefix(name, parts[0]) {
		return false
	}
	name = name[len(parts[0]):]
	last := parts[len(parts)-1]
	mid := parts[1 : len(parts)-1]
	for _, m := range mid {
		i := strings.Index(name, m)
		if i < 0 {
			return false
		}
		name = name[i+len(m):]
	}
	return len(name) >= len(last) && strings.HasSuffix(name, last)
}

// WaitAny blocks until an event matching one of pats is in the log and returns the index (into
// pats) of the pattern whose first match is earliest in the log; -1 when d passed without a match.
func (l *Log) WaitAny(d time.Duration, pats ...string) int {
	if l == nil {
		return -1
	}
	var timer *time.Timer
	defer func() {
		if timer != nil {
			timer.Stop()
		}
	}()
	scanned := 0
	scan := func() int {
		for ; scanned < len(l.events); scanned++ {
			for i, p := range pats {
				if Match(p, l.events[scanned].Name) {
					return i
				}
			}
		}
		return -1
	}
	for {
		l.mu.Lock()
		i := scan()
		ch := l.bcast
		l.mu.Unlock()
		if i >= 0 {
			return i
		}
		if timer == nil {
			timer = time.NewTimer(d)
		}
		select {
		case <-ch:
		case <-timer.C:
			l.mu.Lock()
			i := scan()
			l.mu.Unlock()
			return i
		}
	}
}

// NetError is a net.Error whose Timeout() and Temporary() answers are chosen freely, for fault
// injection with Listener.InjectAcceptError / PacketConn.InjectReadError (e.g. EMFILE-like:
// Temporary but not Timeout).
type NetError struct {
	Msg         string
	IsTimeout   bool
	IsTemporary bool
}

func (e *NetError) Error() string   { return e.Msg }
func (e *NetError) Timeout() bool   { return e.IsTimeout }
func (e *NetError) Temporary() bool { return e.IsTemporary }
