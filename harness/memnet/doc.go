// Package memnet provides in-memory transports for driving miekg/dns servers and clients with a
// harness-owned schedule (DESIGN.md §2.4, Appendix C):
//
//   - Conn        – a buffered, full-duplex stream net.Conn (created in pairs by Pipe or by
//     Listener.Dial). Deadlines are faithful: a read deadline that lies in the past
//     makes pending and future Reads fail with a timeout net.Error (also when data
//     is available, exactly like the Go netpoller); Close unblocks pending Reads.
//     A *Conn deliberately does NOT implement net.PacketConn, so dns.Conn treats it
//     as a stream (two-octet length prefix).
//   - Listener    – a net.Listener whose Accept hands out the server ends of Dial()ed pipes.
//   - PacketConn  – a datagram endpoint implementing net.PacketConn (generic, NOT *net.UDPConn, so a
//     dns.Server takes the readPacketConn path) and, when it was created "connected"
//     (PacketNet.Dial / NewPacketConn + Connect), also net.Conn, so that a
//     dns.Conn{Conn: pc} is treated as a datagram conn by the client code.
//   - PacketNet   – a trivial router between PacketConns (WriteTo(addr) → Inject at the conn bound
//     to addr).
//
// # Event log
//
// Every object is created with a *Log and a name. Every method call appends an event to the log
// (append-only, goroutine-safe). Names follow DESIGN Appendix C; with the conventional object
// names "lis", "conn(j)" (server end of the j-th dialled pipe, j = 1, 2, …) and "pc" they are
//
//	lis.accept.enter   lis.accept.return(j)   lis.accept.return(closed)   lis.close
//	conn(j).setReadDeadline(past|future|zero)   conn(j).setWriteDeadline(past|future|zero)
//	conn(j).read.enter   conn(j).read.return(n)   conn(j).read.return(timeout|eof|closed|err)
//	conn(j).write(n)   conn(j).write(err)   conn(j).close
//	pc.setReadDeadline(past|future|zero)   pc.readFrom.enter
//	pc.readFrom.return(i)   pc.readFrom.return(timeout|closed)      i = ordinal of the datagram, 1-based
//	pc.writeTo(i)   pc.close                                        i = ordinal of the written datagram
//	lis.close.enter   pc.close.enter                                logged BEFORE Close takes effect (lis.close / pc.close: after)
//	conn(j).setReadDeadline.enter(past|future|zero)   pc.setReadDeadline.enter(…)   logged BEFORE the deadline takes effect
//
// The client end of a dialled pipe is named "cli(j)"; an object with the empty name logs nothing.
// A harness adds its own events (srv.started, handler.enter(k), shutdown.call, …) with Log.Point
// or Log.Add.
//
// # Interposition
//
// Every logged call is an interposition point: Log.Point(name) appends the event and then
// consults the plan installed with Log.SetPlan. A plan is a list of Wait{At, For}: when an event
// matching At has just been logged by goroutine G, G does not continue until an event matching
// For is in the log. At and For are exact event names or patterns with '*' (any run of
// characters). A wait that is not satisfied within its timeout (default DefaultWaitTimeout =
// 200 ms) is abandoned and the event "plan-infeasible(at=…,for=…)" is logged – the case simply
// explored a different schedule. Because the event is logged before the wait, a controller can be
// triggered by the very event whose goroutine is being held (e.g. trigger Shutdown at
// reader.enter(1,2) while the reader waits for conn(1).setReadDeadline(past)).
//
// Waits never happen while a memnet mutex is held. They may happen while the code under test
// holds its own locks (e.g. Server.lock around SetReadDeadline in Shutdown) – an unsatisfiable
// combination costs one timeout, it cannot deadlock.
//
// # Segmentation and faults (stream Conn)
//
// Conn.SetPlan(StreamPlan) controls how the octets this end writes are chopped into segments, how
// many octets each Read on this end may return, whether a Read may coalesce segments, and at which
// octet of the inbound (read) or outbound (write) stream a fault (EOF, error, timeout) is injected.
// Without a plan a Conn behaves like a TCP connection with an unbounded socket buffer: Write never
// blocks and Read returns whatever is available.
//
// # Real sockets
//
// WrapListener / WrapConn (SpyListener, SpyConn) give a real net.Listener / net.Conn the same event
// names and interposition points (accept, read, write, setReadDeadline, close), so that loopback
// TCP can be driven by the same plans. A *net.UDPConn cannot be wrapped without changing the code
// path the server takes (it would no longer be a *net.UDPConn).
//
// # Waiting for events
//
// Log.WaitFor / WaitCount / WaitAny block (with a timeout) until matching events are in the log;
// events logged before the call count. Log.OnEvent registers a synchronous observer. Conn.Blocked,
// Listener.Waiting and PacketConn.WaitIdle tell whether the code under test is parked in a
// Read / Accept / ReadFrom ("the server has consumed every packet").
//
// # Typical use
//
//	log := memnet.NewLog()
//	lis := memnet.NewListener(log, "lis")
//	srv := &dns.Server{Listener: lis, Handler: h, ReadTimeout: time.Hour}
//	go srv.ActivateAndServe()
//	cli := lis.Dial()                      // server end "conn(1)" is queued for Accept
//	co := &dns.Conn{Conn: cli}
//	co.WriteMsg(q); r, err := co.ReadMsg()
//	log.WaitFor("conn(1).read.enter", time.Second)
//
//	pn := memnet.NewPacketNet(log)
//	pc := pn.Listen("pc", memnet.UDPAddr(53))           // server: dns.Server{PacketConn: pc}
//	cc := pn.Dial("", memnet.UDPAddr(40001), pc.LocalAddr())  // client: dns.Conn{Conn: cc}
//	pc.WaitIdle(time.Second)               // server blocked in ReadFrom with an empty queue
//
// The API of this package is shared by the C12, C13, C14 and C15 checks; extend it, do not change
// the meaning of what exists.
package memnet
