package memnet

import (
	"errors"
	"net"
	"strconv"
	"sync"
	"time"
)

// Packet is one datagram: Addr is the source for inbound and the destination for outbound packets.
type Packet struct {
	Data []byte
	Addr net.Addr
}

// PacketConn is an in-memory datagram endpoint. It implements net.PacketConn; it is not a
// *net.UDPConn, so a dns.Server uses its generic PacketConn path. It also has Read, Write and
// RemoteAddr, i.e. it is a net.Conn too: after Connect (or when created by PacketNet.Dial) Write
// sends to the connected address, which is what dns.Conn / dns.Client need on the client side.
//
// Inbound datagrams arrive by Inject (directly from the harness) or through a PacketNet from
// another conn's WriteTo. Outbound datagrams are recorded (Sent) and, when the conn belongs to a
// PacketNet, delivered to the conn bound to the destination address; otherwise they are only
// recorded. No source filtering is done on connected conns.
//
// Events (name "pc"): pc.readFrom.enter, pc.readFrom.return(i|timeout|closed) with i the 1-based
// ordinal of the datagram read, pc.writeTo(i) with i the 1-based ordinal of the datagram written
// (logged, and plan waits served, before delivery), pc.setReadDeadline(past|future|zero),
// pc.setWriteDeadline(…), pc.close.enter (before the effect of Close), pc.close (after it).
type PacketConn struct {
	log    *Log
	name   string
	local  net.Addr
	remote net.Addr
	pnet   *PacketNet

	mu      sync.Mutex
	cond    *sync.Cond
	in      []Packet
	nRead   int
	out     []Packet
	rdl     time.Time
	rtimer  *time.Timer
	closed  bool
	waiting int
	onWrite func(i int, p Packet)
	rerrs   []error
}

// NewPacketConn returns a stand-alone datagram endpoint (not attached to a PacketNet).
func NewPacketConn(log *Log, name string, local net.Addr) *PacketConn {
	p := &PacketConn{log: log, name: name, local: local}
	p.cond = sync.NewCond(&p.mu)
	return p
}

func (p *PacketConn) point(ev string) {
	if p.name != "" {
		p.log.Point(p.name + "." + ev)
	}
}

// Connect sets the default destination used by Write (and reported by RemoteAddr).
func (p *PacketConn) Connect(remote net.Addr) { p.mu.Lock(); p.remote = remote; p.mu.Unlock() }

// OnWrite registers f to be called (outside the conn's mutex, by the writing goroutine, after the
// writeTo event and before routing) for every datagram written.
func (p *PacketConn) OnWrite(f func(i int, pk Packet)) { p.mu.Lock(); p.onWrite = f; p.mu.Unlock() }

// Inject queues an inbound datagram (copied) and returns its 1-based ordinal among all datagrams
// ever queued on this conn; datagrams are read in FIFO order. Injecting into a closed conn drops
// the datagram and returns 0.
func (p *PacketConn) Inject(b []byte, from net.Addr) int {
	p.mu.Lock()
	defer p.mu.Unlock()
	if p.closed {
		return 0
	}
	p.in = append(p.in, Packet{Data: append([]byte(nil), b...), Addr: from})
	p.cond.Broadcast()
	return p.nRead + len(p.in)
}

// InjectReadError makes one pending or future ReadFrom / Read call fail with err (FIFO; injected
// errors are returned before queued datagrams). Event pc.readFrom.return(err).
func (p *PacketConn) InjectReadError(err error) {
	p.mu.Lock()
	p.rerrs = append(p.rerrs, err)
	p.cond.Broadcast()
	p.mu.Unlock()
}

// ReadFrom implements net.PacketConn; a datagram longer than b is truncated (as UDP does).
func (p *PacketConn) ReadFrom(b []byte) (int, net.Addr, error) {
	p.point("readFrom.enter")
	n, a, err, tag := p.readFrom(b)
	p.point("readFrom.return(" + tag + ")")
	return n, a, err
}

func (p *PacketConn) readFrom(b []byte) (int, net.Addr, error, string) {
	p.mu.Lock()
	defer p.mu.Unlock()
	for {
		if p.closed {
			return 0, nil, &net.OpError{Op: "read", Net: "mem", Addr: p.local, Err: net.ErrClosed}, "closed"
		}
		if !p.rdl.IsZero() && !p.rdl.After(time.Now()) {
			return 0, nil, timeoutErr("read"), "timeout"
		}
		if len(p.rerrs) > 0 {
			err := p.rerrs[0]
			p.rerrs = p.rerrs[1:]
			return 0, nil, err, "err"
		}
		if len(p.in) > 0 {
			k := p.in[0]
			p.in = p.in[1:]
			p.nRead++
			p.cond.Broadcast()
			return copy(b, k.Data), k.Addr, nil, strconv.Itoa(p.nRead)
		}
		p.waiting++
		if p.waiting == 1 {
			p.cond.Broadcast() // wake WaitIdle
		}
		p.cond.Wait()
		p.waiting--
	}
}

// Read is ReadFrom without the address (net.Conn).
func (p *PacketConn) Read(b []byte) (int, error) {
	n, _, err := p.ReadFrom(b)
	return n, err
}

// WriteTo implements net.PacketConn.
func (p *PacketConn) WriteTo(b []byte, to net.Addr) (int, error) {
	p.mu.Lock()
	if p.closed {
		p.mu.Unlock()
		p.point("writeTo(closed)")
		return 0, &net.OpError{Op: "write", Net: "mem", Addr: p.local, Err: net.ErrClosed}
	}
	pk := Packet{Data: append([]byte(nil), b...), Addr: to}
	p.out = append(p.out, pk)
	i := len(p.out)
	f := p.onWrite
	p.mu.Unlock()
	p.point("writeTo(" + strconv.Itoa(i) + ")")
	if f != nil {
		f(i, pk)
	}
	if p.pnet != nil && to != nil {
		p.pnet.route(pk, p.local)
	}
	return len(b), nil
}

// Write sends to the connected address (net.Conn); it fails when the conn is not connected.
func (p *PacketConn) Write(b []byte) (int, error) {
	p.mu.Lock()
	r := p.remote
	p.mu.Unlock()
	if r == nil {
		return 0, &net.OpError{Op: "write", Net: "mem", Addr: p.local, Err: errors.New("destination address required")}
	}
	return p.WriteTo(b, r)
}

// Close implements net.PacketConn; pending and future reads fail with net.ErrClosed. The event
// pc.close is logged after the effect. A second Close returns net.ErrClosed.
func (p *PacketConn) Close() error {
	p.point("close.enter") // interposition point BEFORE the effect: a plan can make Close slow
	p.mu.Lock()
	was := p.closed
	p.closed = true
	if p.rtimer != nil {
		p.rtimer.Stop()
	}
	p.cond.Broadcast()
	p.mu.Unlock()
	if p.pnet != nil {
		p.pnet.unbind(p)
	}
	p.point("close")
	if was {
		return &net.OpError{Op: "close", Net: "mem", Addr: p.local, Err: net.ErrClosed}
	}
	return nil
}

func (p *PacketConn) LocalAddr() net.Addr { return p.local }

// RemoteAddr returns the connected address (nil when not connected).
func (p *PacketConn) RemoteAddr() net.Addr {
	p.mu.Lock()
	defer p.mu.Unlock()
	return p.remote
}

func (p *PacketConn) SetDeadline(t time.Time) error {
	p.SetReadDeadline(t)
	p.SetWriteDeadline(t)
	return nil
}

// SetReadDeadline is faithful: a deadline in the past fails pending and future reads with a
// timeout net.Error. The event is logged after the deadline is in effect.
func (p *PacketConn) SetReadDeadline(t time.Time) error {
	p.point("setReadDeadline.enter(" + pastFutureZero(t) + ")") // before the effect, see Conn.SetReadDeadline
	p.mu.Lock()
	if p.closed {
		p.mu.Unlock()
		p.point("setReadDeadline(closed)")
		return &net.OpError{Op: "set", Net: "mem", Addr: p.local, Err: net.ErrClosed}
	}
	p.rdl = t
	if p.rtimer != nil {
		p.rtimer.Stop()
		p.rtimer = nil
	}
	tag := pastFutureZero(t)
	if tag == "future" {
		p.rtimer = time.AfterFunc(time.Until(t), func() {
			p.mu.Lock()
			p.cond.Broadcast()
			p.mu.Unlock()
		})
	}
	p.cond.Broadcast()
	p.mu.Unlock()
	p.point("setReadDeadline(" + tag + ")")
	return nil
}

// SetWriteDeadline is recorded only (writes never block).
func (p *PacketConn) SetWriteDeadline(t time.Time) error {
	p.point("setWriteDeadline(" + pastFutureZero(t) + ")")
	return nil
}

// ReadDeadline returns the read deadline in effect (zero = none).
func (p *PacketConn) ReadDeadline() time.Time {
	p.mu.Lock()
	defer p.mu.Unlock()
	return p.rdl
}

// Sent returns a snapshot of every datagram written so far (Addr = destination).
func (p *PacketConn) Sent() []Packet {
	p.mu.Lock()
	defer p.mu.Unlock()
	return append([]Packet(nil), p.out...)
}

// Closed reports whether Close has been called.
func (p *PacketConn) Closed() bool {
	p.mu.Lock()
	defer p.mu.Unlock()
	return p.closed
}

// Pending returns the number of queued inbound datagrams not yet read.
func (p *PacketConn) Pending() int {
	p.mu.Lock()
	defer p.mu.Unlock()
	return len(p.in)
}

// ReadCount returns the number of datagrams read so far.
func (p *PacketConn) ReadCount() int {
	p.mu.Lock()
	defer p.mu.Unlock()
	return p.nRead
}

// WaitIdle blocks until the inbound queue is empty and a reader is blocked in ReadFrom ("the
// server has consumed every packet and is waiting for the next one"), or the conn is closed, or d
// has passed. It returns true in the first case only.
func (p *PacketConn) WaitIdle(d time.Duration) bool {
	deadline := time.Now().Add(d)
	t := time.AfterFunc(d, func() {
		p.mu.Lock()
		p.cond.Broadcast()
		p.mu.Unlock()
	})
	defer t.Stop()
	p.mu.Lock()
	defer p.mu.Unlock()
	for {
		if p.closed {
			return false
		}
		if len(p.in) == 0 && p.waiting > 0 {
			return true
		}
		if !time.Now().Before(deadline) {
			return false
		}
		p.cond.Wait()
	}
}

// PacketNet routes datagrams between PacketConns by destination address string.
type PacketNet struct {
	log   *Log
	mu    sync.Mutex
	bound map[string]*PacketConn
}

// NewPacketNet returns an empty datagram network whose conns log to log.
func NewPacketNet(log *Log) *PacketNet {
	return &PacketNet{log: log, bound: map[string]*PacketConn{}}
}

// Listen binds a new unconnected PacketConn to local (server side).
func (n *PacketNet) Listen(name string, local net.Addr) *PacketConn {
	p := NewPacketConn(n.log, name, local)
	p.pnet = n
	n.mu.Lock()
	n.bound[local.String()] = p
	n.mu.Unlock()
	return p
}

// Dial binds a new PacketConn to local and connects it to remote (client side).
func (n *PacketNet) Dial(name string, local, remote net.Addr) *PacketConn {
	p := n.Listen(name, local)
	p.remote = remote
	return p
}

func (n *PacketNet) route(pk Packet, from net.Addr) {
	n.mu.Lock()
	dst := n.bound[pk.Addr.String()]
	n.mu.Unlock()
	if dst != nil {
		dst.Inject(pk.Data, from)
	}
}

func (n *PacketNet) unbind(p *PacketConn) {
	n.mu.Lock()
	if n.bound[p.local.String()] == p {
		delete(n.bound, p.local.String())
	}
	n.mu.Unlock()
}

var (
	_ net.PacketConn = (*PacketConn)(nil)
	_ net.Conn       = (*PacketConn)(nil)
)
