package memnet

import (
	"errors"
	"io"
	"net"
	"os"
	"runtime"
	"strconv"
	"sync"
	"time"
)

// ErrInjected is the error returned by a Read/Write at which a StreamPlan injected an "err" fault.
var ErrInjected = errors.New("memnet: injected I/O error")

// errBrokenPipe is returned by Write when the peer has closed its end.
var errBrokenPipe = errors.New("memnet: broken pipe (peer closed)")

// StreamPlan is the segmentation / fault plan of one end of a stream pipe. It is a plain
// JSON-serialisable value so that it can be part of a generated case. The zero value means
// "one segment per Write, a Read returns octets of one segment only, no faults".
type StreamPlan struct {
	// WriteChunks: sizes of the segments into which the octets written by this end are chopped,
	// used cyclically across Write calls (a segment never spans two Write calls). Entries <= 0
	// mean "the rest of the current Write". Empty: one segment per Write.
	WriteChunks []int
	// ReadSizes: upper bounds on the number of octets returned by successive successful Read
	// calls on this end, used cyclically. Entries <= 0 mean "no bound". Empty: no bound.
	ReadSizes []int
	// Coalesce lets one Read return octets of several segments. Without it a Read returns
	// octets from at most one segment (a short read whenever the writer was chopped).
	Coalesce bool
	// ReadFault ("eof", "err", "timeout" or "" for none) is injected once exactly ReadFaultAt
	// octets have been returned by Reads on this end: those octets are delivered, the Read that
	// would deliver octet number ReadFaultAt (0-based) fails instead, and so does every later Read.
	ReadFault   string
	ReadFaultAt int
	// WriteFault ("err", "timeout" or "") is injected once exactly WriteFaultAt octets have been
	// accepted from Writes on this end: the Write that crosses the boundary accepts the octets up
	// to it (they reach the peer), returns the short count and the error; later Writes accept 0.
	WriteFault   string
	WriteFaultAt int
	// YieldAfterWrite makes every Write on this end yield the processor (runtime.Gosched) after the
	// octets have been queued and before it returns: code that sends one message with several Write
	// calls then gives concurrent writers on the same conn the chance to get in between.
	YieldAfterWrite bool
	// WriteCalls, when non-nil, receives the size of every Write call on this end (appended under
	// the pipe's mutex; read it after the writers are done).
	WriteCalls *[]int
}

type half struct {
	segs    [][]byte
	wclosed bool // the writing end is closed (or CloseWrite was called): reader gets EOF when drained
	rclosed bool // the reading end is closed: writer gets a broken-pipe error
}

type pipe struct {
	mu   sync.Mutex
	cond *sync.Cond
}

// Conn is one end of an in-memory, buffered, full-duplex octet stream. It implements net.Conn
// and nothing else (in particular not net.PacketConn).
type Conn struct {
	p             *pipe
	in, out       *half
	log           *Log
	name          string
	local, remote net.Addr
	peer          *Conn

	// all below guarded by p.mu
	rdl, wdl   time.Time
	rtimer     *time.Timer
	closed     bool
	plan       StreamPlan
	hasPlan    bool
	readTotal  int
	writeTotal int
	readCalls  int
	chunkIdx   int
	reading    int // number of Reads currently blocked waiting for octets
}

// TCPAddr returns 127.0.0.1:port as a *net.TCPAddr.
func TCPAddr(port int) net.Addr { return &net.TCPAddr{IP: net.IPv4(127, 0, 0, 1), Port: port} }

// UDPAddr returns 127.0.0.1:port as a *net.UDPAddr.
func UDPAddr(port int) net.Addr { return &net.UDPAddr{IP: net.IPv4(127, 0, 0, 1), Port: port} }

// Pipe returns the two ends of a new stream. Events of the ends are logged to log under nameA and
// nameB (an empty name, or a nil log, logs nothing).
func Pipe(log *Log, nameA, nameB string) (*Conn, *Conn) {
	return pipeAddr(log, nameA, nameB, TCPAddr(40000), TCPAddr(53))
}

func pipeAddr(log *Log, nameA, nameB string, addrA, addrB net.Addr) (*Conn, *Conn) {
	p := &pipe{}
	p.cond = sync.NewCond(&p.mu)
	ab, ba := &half{}, &half{}
	a := &Conn{p: p, in: ba, out: ab, log: log, name: nameA, local: addrA, remote: addrB}
	b := &Conn{p: p, in: ab, out: ba, log: log, name: nameB, local: addrB, remote: addrA}
	a.peer, b.peer = b, a
	return a, b
}

func (c *Conn) point(ev string) {
	if c.name != "" {
		c.log.Point(c.name + "." + ev)
	}
}

// Name returns the name under which the conn logs its events.
func (c *Conn) Name() string { return c.name }

// Peer returns the other end of the pipe.
func (c *Conn) Peer() *Conn { return c.peer }

// SetPlan installs the segmentation / fault plan of this end. Call before the I/O it should affect.
func (c *Conn) SetPlan(pl StreamPlan) {
	c.p.mu.Lock()
	c.plan = pl
	c.hasPlan = true
	c.p.mu.Unlock()
}

func timeoutErr(op string) error {
	return &net.OpError{Op: op, Net: "mem", Err: os.ErrDeadlineExceeded}
}

func pastFutureZero(t time.Time) string {
	switch {
	case t.IsZero():
		return "zero"
	case !t.After(time.Now()):
		return "past"
	default:
		return "future"
	}
}

// Read implements net.Conn. Events: name.read.enter, then name.read.return(n|timeout|eof|closed|err).
func (c *Conn) Read(b []byte) (int, error) {
	c.point("read.enter")
	n, err, tag := c.read(b)
	c.point("read.return(" + tag + ")")
	return n, err
}

func (c *Conn) read(b []byte) (int, error, string) {
	c.p.mu.Lock()
	defer c.p.mu.Unlock()
	if len(b) == 0 {
		return 0, nil, "0"
	}
	for {
		if c.closed {
			return 0, &net.OpError{Op: "read", Net: "mem", Err: net.ErrClosed}, "closed"
		}
		if !c.rdl.IsZero() && !c.rdl.After(time.Now()) {
			return 0, timeoutErr("read"), "timeout"
		}
		fault := c.hasPlan && c.plan.ReadFault != ""
		if fault && c.readTotal >= c.plan.ReadFaultAt {
			switch c.plan.ReadFault {
			case "eof":
				return 0, io.EOF, "eof"
			case "timeout":
				return 0, timeoutErr("read"), "timeout"
			default:
				return 0, &net.OpError{Op: "read", Net: "mem", Err: ErrInjected}, "err"
			}
		}
		if len(c.in.segs) > 0 {
			limit := len(b)
			if c.hasPlan && len(c.plan.ReadSizes) > 0 {
				if k := c.plan.ReadSizes[c.readCalls%len(c.plan.ReadSizes)]; k > 0 && k < limit {
					limit = k
				}
			}
			c.readCalls++
			if fault && c.plan.ReadFaultAt-c.readTotal < limit {
				limit = c.plan.ReadFaultAt - c.readTotal
			}
			coalesce := !c.hasPlan || c.plan.Coalesce
			n := 0
			for n < limit && len(c.in.segs) > 0 {
				k := copy(b[n:limit], c.in.segs[0])
				c.in.segs[0] = c.in.segs[0][k:]
				if len(c.in.segs[0]) == 0 {
					c.in.segs = c.in.segs[1:]
				}
				n += k
				if !coalesce {
					break
				}
			}
			c.readTotal += n
			return n, nil, strconv.Itoa(n)
		}
		if c.in.wclosed {
			return 0, io.EOF, "eof"
		}
		c.reading++
		c.p.cond.Wait()
		c.reading--
	}
}

// Write implements net.Conn. The event name.write(n) (n = len(b)) is logged – and plan waits at it
// are served – before the octets become readable by the peer. Write never blocks on the peer.
func (c *Conn) Write(b []byte) (int, error) {
	c.point("write(" + strconv.Itoa(len(b)) + ")")
	n, err := c.write(b)
	if err != nil {
		c.point("write(err)")
	}
	c.p.mu.Lock()
	yield := c.hasPlan && c.plan.YieldAfterWrite
	c.p.mu.Unlock()
	if yield {
		runtime.Gosched()
	}
	return n, err
}

func (c *Conn) write(b []byte) (int, error) {
	c.p.mu.Lock()
	defer c.p.mu.Unlock()
	if c.hasPlan && c.plan.WriteCalls != nil {
		*c.plan.WriteCalls = append(*c.plan.WriteCalls, len(b))
	}
	if c.closed {
		return 0, &net.OpError{Op: "write", Net: "mem", Err: net.ErrClosed}
	}
	if !c.wdl.IsZero() && !c.wdl.After(time.Now()) {
		return 0, timeoutErr("write")
	}
	if c.out.rclosed {
		return 0, &net.OpError{Op: "write", Net: "mem", Err: errBrokenPipe}
	}
	var ferr error
	accept := len(b)
	if c.hasPlan && c.plan.WriteFault != "" {
		room := c.plan.WriteFaultAt - c.writeTotal
		if room < 0 {
			room = 0
		}
		if room < accept || room == 0 {
			accept = room
			if c.plan.WriteFault == "timeout" {
				ferr = timeoutErr("write")
			} else {
				ferr = &net.OpError{Op: "write", Net: "mem", Err: ErrInjected}
			}
		}
	}
	data := append([]byte(nil), b[:accept]...)
	for len(data) > 0 {
		k := len(data)
		if c.hasPlan && len(c.plan.WriteChunks) > 0 {
			if s := c.plan.WriteChunks[c.chunkIdx%len(c.plan.WriteChunks)]; s > 0 && s < k {
				k = s
			}
			c.chunkIdx++
		}
		c.out.segs = append(c.out.segs, data[:k:k])
		data = data[k:]
	}
	c.writeTotal += accept
	c.p.cond.Broadcast()
	return accept, ferr
}

// Close implements net.Conn: pending and future Reads on this end fail with net.ErrClosed, the
// peer reads EOF after draining what was written, the peer's Writes fail. The event name.close is
// logged after the effect. A second Close returns net.ErrClosed.
func (c *Conn) Close() error {
	c.p.mu.Lock()
	was := c.closed
	c.closed = true
	c.out.wclosed = true
	c.in.rclosed = true
	if c.rtimer != nil {
		c.rtimer.Stop()
	}
	c.p.cond.Broadcast()
	c.p.mu.Unlock()
	c.point("close")
	if was {
		return &net.OpError{Op: "close", Net: "mem", Err: net.ErrClosed}
	}
	return nil
}

// CloseWrite half-closes the stream: the peer reads EOF after draining; this end can still read.
func (c *Conn) CloseWrite() error {
	c.p.mu.Lock()
	c.out.wclosed = true
	c.p.cond.Broadcast()
	c.p.mu.Unlock()
	c.point("closeWrite")
	return nil
}

// Closed reports whether Close has been called on this end.
func (c *Conn) Closed() bool {
	c.p.mu.Lock()
	defer c.p.mu.Unlock()
	return c.closed
}

// Blocked reports whether a Read on this end is currently waiting for octets.
func (c *Conn) Blocked() bool {
	c.p.mu.Lock()
	defer c.p.mu.Unlock()
	return c.reading > 0
}

// Buffered returns the number of octets written by the peer and not yet read by this end.
func (c *Conn) Buffered() int {
	c.p.mu.Lock()
	defer c.p.mu.Unlock()
	n := 0
	for _, s := range c.in.segs {
		n += len(s)
	}
	return n
}

// Counts returns the total number of octets read by and accepted for writing from this end.
func (c *Conn) Counts() (read, written int) {
	c.p.mu.Lock()
	defer c.p.mu.Unlock()
	return c.readTotal, c.writeTotal
}

func (c *Conn) LocalAddr() net.Addr  { return c.local }
func (c *Conn) RemoteAddr() net.Addr { return c.remote }

// SetDeadline sets both deadlines (events as for the two single setters).
func (c *Conn) SetDeadline(t time.Time) error {
	c.SetReadDeadline(t)
	c.SetWriteDeadline(t)
	return nil
}

// SetReadDeadline implements net.Conn faithfully: a deadline that is already in the past makes
// pending and future Reads fail with a timeout net.Error until the deadline is changed. The event
// name.setReadDeadline(past|future|zero) is logged after the deadline is in effect.
func (c *Conn) SetReadDeadline(t time.Time) error {
	// interposition point BEFORE the deadline takes effect: a plan can let something else (e.g. a
	// Shutdown setting its own deadline) happen between the caller's decision and its effect
	c.point("setReadDeadline.enter(" + pastFutureZero(t) + ")")
	c.p.mu.Lock()
	if c.closed {
		c.p.mu.Unlock()
		c.point("setReadDeadline(closed)")
		return &net.OpError{Op: "set", Net: "mem", Err: net.ErrClosed}
	}
	c.rdl = t
	if c.rtimer != nil {
		c.rtimer.Stop()
		c.rtimer = nil
	}
	tag := pastFutureZero(t)
	if tag == "future" {
		c.rtimer = time.AfterFunc(time.Until(t), func() {
			c.p.mu.Lock()
			c.p.cond.Broadcast()
			c.p.mu.Unlock()
		})
	}
	c.p.cond.Broadcast()
	c.p.mu.Unlock()
	c.point("setReadDeadline(" + tag + ")")
	return nil
}

// SetWriteDeadline: Writes never block, so only a deadline already in the past has an effect.
func (c *Conn) SetWriteDeadline(t time.Time) error {
	c.p.mu.Lock()
	c.wdl = t
	c.p.mu.Unlock()
	c.point("setWriteDeadline(" + pastFutureZero(t) + ")")
	return nil
}

// ReadDeadline returns the read deadline currently in effect (zero = none).
func (c *Conn) ReadDeadline() time.Time {
	c.p.mu.Lock()
	defer c.p.mu.Unlock()
	return c.rdl
}

var _ net.Conn = (*Conn)(nil)
