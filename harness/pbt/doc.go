// Package pbt is the small amount of shared plumbing under every check.
package pbt
