package pbt

import (
	"encoding/binary"
	"encoding/json"
	"flag"
	"fmt"
	"hash/fnv"
	"os"
	"path/filepath"
	"sort"
	"strconv"
	"strings"
	"sync"
	"testing"
	"time"

	"pgregory.net/rapid"
)

// ---------------------------------------------------------------------------------------------
// environment (set by /verif/vcheck)

func envInt(name string, def int64) int64 {
	if s := os.Getenv(name); s != "" {
		if v, err := strconv.ParseInt(s, 10, 64); err == nil {
			return v
		}
	}
	return def
}

// Root is /verif.
func Root() string {
	if s := os.Getenv("VERIF_ROOT"); s != "" {
		return s
	}
	return "/verif"
}

// Tier is "quick" or "thorough".
func Tier() string {
	if s := os.Getenv("VERIF_TIER"); s == "thorough" {
		return s
	}
	return "quick"
}

// Thorough tells the generators to use the larger sizes of the thorough tier. Under the native fuzzer (VERIF_FUZZ,
// set by vcheck) the quick sizes are used: the fuzz worker gives one input about ten seconds, and an instrumented
// binary with sixteen workers on a loaded machine does not get through a 64 KiB message with 65535 records in that.
func Thorough() bool { return Tier() == "thorough" && os.Getenv("VERIF_FUZZ") == "" }

func outDir() string {
	if s := os.Getenv("VERIF_OUT"); s != "" {
		return s
	}
	return os.TempDir()
}

// Shard index and shard count of this process.
func Shard() int  { return int(envInt("VERIF_SHARD", 0)) }
func Shards() int { return int(envInt("VERIF_SHARDS", 1)) }

// Seed returns the rapid seed of this process: a pure function of VERIF_SEED and the shard; never 0.
func Seed() uint64 {
	s := uint64(envInt("VERIF_SEED", 1))*1_000_003 + uint64(Shard()) + 1
	if s == 0 {
		s = 1
	}
	return s
}

// Base is the base case count of this run (driver: VERIF_CHECKS); subs scale it by their weight.
func Base() int { return int(envInt("VERIF_CHECKS", 200)) }

// ---------------------------------------------------------------------------------------------
// statistics

const maxHashes = 100_000 // per sub and process; distinct counts are conservative beyond this
const maxSamplesPerClass = 3

type subStat struct {
	Evaluations int64               `json:"evaluations"`
	Nontrivial  int64               `json:"nontrivial"`
	Classes     map[string]int64    `json:"classes"`
	Excluded    map[string]int64    `json:"excluded"`
	Samples     map[string][]string `json:"samples"`
	Requested   int64               `json:"requested"`
	Exhaustive  bool                `json:"exhaustive"`
	hashes      map[uint64]struct{}
}

var (
	mu    sync.Mutex
	stats = map[string]*subStat{}
	cur   = "" // name of the sub currently running (subs run sequentially)
)

func getStat(name string) *subStat {
	s := stats[name]
	if s == nil {
		s = &subStat{Classes: map[string]int64{}, Excluded: map[string]int64{}, Samples: map[string][]string{}, hashes: map[uint64]struct{}{}}
		stats[name] = s
	}
	return s
}

// Note records one evaluated case of the running sub. key identifies the case for the distinct
// count (only used when nontrivial); classes feed the histogram.
func Note(key []byte, nontrivial bool, classes ...string) {
	mu.Lock()
	defer mu.Unlock()
	s := getStat(cur)
	s.Evaluations++
	if nontrivial {
		s.Nontrivial++
		if len(s.hashes) < maxHashes {
			h := fnv.New64a()
			h.Write(key)
			s.hashes[h.Sum64()] = struct{}{}
		}
	}
	for _, c := range classes {
		s.Classes[c]++
	}
}

// Class adds to the histogram without counting an evaluation.
func Class(classes ...string) {
	mu.Lock()
	defer mu.Unlock()
	s := getStat(cur)
	for _, c := range classes {
		s.Classes[c]++
	}
}

// Excluded counts a draw that was replaced because it belongs to a known-finding class.
func Excluded(class string) {
	mu.Lock()
	defer mu.Unlock()
	getStat(cur).Excluded[class]++
}

// Sample keeps up to a few written-out cases per class.
func Sample(class string, v any) {
	mu.Lock()
	defer mu.Unlock()
	s := getStat(cur)
	if len(s.Samples[class]) >= maxSamplesPerClass {
		return
	}
	var txt string
	switch x := v.(type) {
	case string:
		txt = x
	default:
		b, _ := json.Marshal(v)
		txt = string(b)
	}
	if len(txt) > 600 {
		txt = txt[:600] + "…"
	}
	s.Samples[class] = append(s.Samples[class], txt)
}

func flush() {
	mu.Lock()
	defer mu.Unlock()
	dir := outDir()
	os.MkdirAll(dir, 0o755)
	tag := fmt.Sprintf("%d.%d", Shard(), os.Getpid())
	for name, s := range stats {
		if name == "" && s.Evaluations == 0 {
			continue
		}
		b, _ := json.Marshal(s)
		os.WriteFile(filepath.Join(dir, "stat."+safe(name)+"."+tag+".json"), b, 0o644)
		hb := make([]byte, 0, 8*len(s.hashes))
		for h := range s.hashes {
			hb = binary.LittleEndian.AppendUint64(hb, h)
		}
		os.WriteFile(filepath.Join(dir, "hash."+safe(name)+"."+tag+".bin"), hb, 0o644)
	}
}

func safe(s string) string {
	return strings.Map(func(r rune) rune {
		if r >= 'a' && r <= 'z' || r >= 'A' && r <= 'Z' || r >= '0' && r <= '9' || r == '-' || r == '_' {
			return r
		}
		return '_'
	}, s)
}

// ---------------------------------------------------------------------------------------------
// registry of sub-checks

type sub struct {
	name     string
	weight   float64
	tiers    string // "" both, "quick", "thorough"
	runRapid func(t *testing.T, s *sub)
	runEnum  func(t *testing.T, s *sub)
	replay   func(raw json.RawMessage) error
	fuzz     func(rt *rapid.T) // one generated case through the oracle, driven by a caller's rapid.T (FuzzGen)
}

var subs []*sub

// Sub is a generated check: Gen draws a case (a plain, JSON-serialisable value), Check is the oracle.
// Check must be a pure function of the case and the code under test.
type Sub[C any] struct {
	Name   string
	Weight float64 // case count = Base() * Weight
	Tiers  string  // "", "quick" or "thorough"
	Gen    func(t *rapid.T) C
	Check  func(c C) error
}

// Enum is an enumerated (non-random) check over a finite space: Each calls emit for every case.
type Enum[C any] struct {
	Name       string
	Tiers      string
	Exhaustive bool // the enumeration covers its stated finite space completely
	Each       func(emit func(c C))
	Check      func(c C) error
}

type replayFile struct {
	Property string          `json:"property"`
	Sub      string          `json:"sub"`
	Error    string          `json:"error,omitempty"`
	Case     json.RawMessage `json:"case"`
}

var property = "C??"

// Property sets the property id of this test package (call from init).
func Property(id string) { property = id }

func capErr(err error) error {
	if s := err.Error(); len(s) > 2000 {
		return fmt.Errorf("%s…(%d more characters)", s[:2000], len(s)-2000)
	}
	return err
}

func writeViolation(subName string, c any, err error) {
	err = capErr(err)
	b, merr := json.Marshal(c)
	if merr != nil {
		b, _ = json.Marshal(fmt.Sprintf("%+v", c))
	}
	rf := replayFile{Property: property, Sub: subName, Error: err.Error(), Case: b}
	out, _ := json.MarshalIndent(rf, "", " ")
	os.MkdirAll(outDir(), 0o755)
	os.WriteFile(filepath.Join(outDir(), "viol."+safe(subName)+".json"), out, 0o644)
}

// NoShrink marks a violation that must not be re-executed (a hang: every further attempt would
// leave another stuck goroutine behind). The framework saves the case and ends the process at once.
type NoShrink struct{ Err error }

func (e NoShrink) Error() string { return e.Err.Error() }

func fatalIfNoShrink(subName string, c any, err error) {
	if ns, ok := err.(NoShrink); ok {
		writeViolation(subName, c, ns.Err)
		fmt.Printf("--- FAIL: %s/%s: %v (process ends here: the failure is a hang)\n", property, subName, capErr(ns.Err))
		flush()
		os.Exit(1)
	}
}

// guard converts a panic inside the oracle (i.e. inside the code under test) into an error.
func guard[C any](check func(C) error, c C) (err error) {
	defer func() {
		if r := recover(); r != nil {
			err = fmt.Errorf("panic: %v", r)
		}
	}()
	return check(c)
}

func Register[C any](s Sub[C]) {
	if s.Weight == 0 {
		s.Weight = 1
	}
	x := &sub{name: s.Name, weight: s.Weight, tiers: s.Tiers}
	x.runRapid = func(t *testing.T, x *sub) {
		n := int(float64(Base()) * x.weight)
		if n < 1 {
			n = 1
		}
		flag.Set("rapid.checks", strconv.Itoa(n))
		flag.Set("rapid.seed", strconv.FormatUint(Seed(), 10))
		// VERIF_SHRINKTIME: seeded/run.py only needs the verdict "caught" and lowers the budget (every failing
		// sub-check shrinks for up to this long, and they run one after the other)
		if st := os.Getenv("VERIF_SHRINKTIME"); st != "" {
			flag.Set("rapid.shrinktime", st)
		} else {
			flag.Set("rapid.shrinktime", "45s")
		}
		flag.Set("rapid.nofailfile", "true")
		mu.Lock()
		getStat(x.name).Requested = int64(n)
		mu.Unlock()
		rapid.Check(t, func(rt *rapid.T) {
			c := s.Gen(rt)
			if err := guard(s.Check, c); err != nil {
				fatalIfNoShrink(x.name, c, err)
				writeViolation(x.name, c, err)
				rt.Fatalf("%s/%s: %v", property, x.name, capErr(err))
			}
		})
	}
	x.replay = func(raw json.RawMessage) error {
		var c C
		if err := json.Unmarshal(raw, &c); err != nil {
			return fmt.Errorf("bad replay case: %v", err)
		}
		return guard(s.Check, c)
	}
	x.fuzz = func(rt *rapid.T) {
		c := s.Gen(rt)
		if err := guard(s.Check, c); err != nil {
			fatalIfNoShrink(x.name, c, err)
			writeViolation(x.name, c, err)
			rt.Fatalf("%s/%s: %v", property, x.name, capErr(err))
		}
	}
	subs = append(subs, x)
}

func RegisterEnum[C any](e Enum[C]) {
	x := &sub{name: e.Name, tiers: e.Tiers}
	x.runEnum = func(t *testing.T, x *sub) {
		// enumerations are not sharded: shard 0 runs them
		if Shard() != 0 {
			return
		}
		var first error
		n := int64(0)
		e.Each(func(c C) {
			if first != nil {
				return
			}
			n++
			if err := guard(e.Check, c); err != nil {
				fatalIfNoShrink(x.name, c, err)
				first = err
				writeViolation(x.name, c, err)
			}
		})
		mu.Lock()
		st := getStat(x.name)
		st.Requested = n
		st.Exhaustive = e.Exhaustive && first == nil
		mu.Unlock()
		if first != nil {
			t.Fatalf("%s/%s: %v", property, x.name, capErr(first))
		}
	}
	x.replay = func(raw json.RawMessage) error {
		var c C
		if err := json.Unmarshal(raw, &c); err != nil {
			return fmt.Errorf("bad replay case: %v", err)
		}
		return guard(e.Check, c)
	}
	subs = append(subs, x)
}

// ---------------------------------------------------------------------------------------------
// known findings and probes

type probe struct {
	id   string
	text string
	run  func() error // non-nil error = the defect still reproduces
}

var probes []*probe
var knownListed map[string]string // id -> description, from KNOWN_FINDINGS.txt for this property
var knownLive = map[string]bool{}
var knownOnce sync.Once

func loadKnown() {
	knownListed = map[string]string{}
	b, err := os.ReadFile(filepath.Join(Root(), "KNOWN_FINDINGS.txt"))
	if err != nil {
		return
	}
	for _, line := range strings.Split(string(b), "\n") {
		line = strings.TrimSpace(line)
		if !strings.HasPrefix(line, "known:") {
			continue
		}
		f := strings.Fields(line)
		var prop, id string
		rest := []string{}
		for _, w := range f[1:] {
			switch {
			case strings.HasPrefix(w, "property=") && prop == "":
				prop = strings.TrimPrefix(w, "property=")
			case strings.HasPrefix(w, "id=") && id == "":
				id = strings.TrimPrefix(w, "id=")
			default:
				rest = append(rest, w)
			}
		}
		if prop == property && id != "" {
			knownListed[id] = strings.Join(rest, " ")
		}
	}
}

// Probe registers the deterministic reproduction of a finding. run returns a non-nil error while
// the defect is present.
func Probe(id string, run func() error) {
	probes = append(probes, &probe{id: id, run: run})
}

var probeRegressions []string

func runProbe(p *probe) (err error) {
	defer func() {
		if r := recover(); r != nil {
			err = fmt.Errorf("panic: %v", r)
		}
	}()
	return p.run()
}

// evalKnown runs every registered probe once. A probe that reproduces and is listed as known:
// prints KNOWN-FINDING and enables the exclusion of its class. A probe that reproduces and is NOT
// listed (its finding is recorded as fixed, or was never recorded) is a violation: the defect is
// back. A listed probe that no longer reproduces only prints a note.
func evalKnown() {
	knownOnce.Do(func() {
		mu.Lock()
		prev := cur
		cur = "probes"
		mu.Unlock()
		defer func() { mu.Lock(); cur = prev; mu.Unlock() }()
		loadKnown()
		for _, p := range probes {
			err := runProbe(p)
			_, listed := knownListed[p.id]
			switch {
			case err != nil && listed:
				knownLive[p.id] = true
				if Shard() == 0 {
					fmt.Printf("KNOWN-FINDING: property=%s id=%s %s [%v]\n", property, p.id, knownListed[p.id], capErr(err))
				}
			case err != nil:
				probeRegressions = append(probeRegressions, p.id)
				writeViolation("probe:"+p.id, map[string]string{"probe": p.id}, fmt.Errorf("probe %s reproduces although the finding is not listed as known (a repaired defect is back, or an unrecorded one): %v", p.id, err))
				fmt.Printf("--- FAIL: %s probe %s reproduces and is not listed as known: %v\n", property, p.id, capErr(err))
			case listed && Shard() == 0:
				fmt.Printf("NOTE: listed finding property=%s id=%s no longer reproduces; its class is generated again\n", property, p.id)
			}
		}
		for id := range knownListed {
			found := false
			for _, p := range probes {
				if p.id == id {
					found = true
				}
			}
			if !found && Shard() == 0 {
				fmt.Printf("NOTE: KNOWN_FINDINGS.txt lists property=%s id=%s but no probe with that id exists\n", property, id)
			}
		}
	})
}

// Known reports whether the finding id is listed in KNOWN_FINDINGS.txt and still reproduces;
// only then may a generator exclude its class (and must count it with Excluded).
func Known(id string) bool {
	evalKnown()
	return knownLive[id]
}

// ---------------------------------------------------------------------------------------------
// test entry points

// Main is the TestMain body of every check package.
func Main(m *testing.M) {
	flag.Parse()
	evalKnown()
	code := m.Run()
	if len(probeRegressions) > 0 && Shard() == 0 && os.Getenv("VERIF_REPLAY") == "" {
		code = 1
	}
	flush()
	os.Exit(code)
}

func wantSub(name string) bool {
	f := os.Getenv("VERIF_SUB")
	if f == "" {
		return true
	}
	for _, w := range strings.Split(f, ",") {
		if w == name || strings.HasPrefix(name, w) {
			return true
		}
	}
	return false
}

// RunAll runs every registered sub that belongs to the current tier.
func RunAll(t *testing.T) {
	for _, s := range subs {
		if s.tiers != "" && s.tiers != Tier() {
			continue
		}
		if !wantSub(s.name) {
			continue
		}
		s := s
		t.Run(s.name, func(t *testing.T) {
			mu.Lock()
			cur = s.name
			getStat(cur)
			mu.Unlock()
			start := time.Now()
			if s.runRapid != nil {
				s.runRapid(t, s)
			} else {
				s.runEnum(t, s)
			}
			mu.Lock()
			st := getStat(s.name)
			ev := st.Evaluations
			mu.Unlock()
			t.Logf("sub %s: %d evaluations in %.1fs", s.name, ev, time.Since(start).Seconds())
		})
	}
}

// ReplayAll re-runs saved cases (VERIF_REPLAY = file or directory) through the plain oracle,
// without rapid.
func ReplayAll(t *testing.T) {
	p := os.Getenv("VERIF_REPLAY")
	if p == "" {
		t.Skip("no VERIF_REPLAY")
	}
	var files []string
	if fi, err := os.Stat(p); err == nil && fi.IsDir() {
		m, _ := filepath.Glob(filepath.Join(p, "*.json"))
		sort.Strings(m)
		files = m
	} else {
		files = []string{p}
	}
	for _, f := range files {
		b, err := os.ReadFile(f)
		if err != nil {
			t.Fatalf("replay %s: %v", f, err)
		}
		var rf replayFile
		if err := json.Unmarshal(b, &rf); err != nil {
			t.Fatalf("replay %s: %v", f, err)
		}
		if strings.HasPrefix(rf.Sub, "probe:") {
			id := strings.TrimPrefix(rf.Sub, "probe:")
			for _, p := range probes {
				if p.id == id {
					if err := runProbe(p); err != nil {
						writeViolation(rf.Sub, map[string]string{"probe": id}, err)
						t.Errorf("REPLAY-FAIL %s: %v", f, capErr(err))
					}
				}
			}
			continue
		}
		var target *sub
		for _, s := range subs {
			if s.name == rf.Sub {
				target = s
			}
		}
		if target == nil {
			t.Fatalf("replay %s: unknown sub %q", f, rf.Sub)
		}
		mu.Lock()
		cur = "replay"
		mu.Unlock()
		err = target.replay(rf.Case)
		Note([]byte(f), true, "replayed:"+rf.Sub)
		if err != nil {
			// keep the file that failed as the reproduction
			var c any
			json.Unmarshal(rf.Case, &c)
			writeViolation(rf.Sub, c, err)
			t.Errorf("REPLAY-FAIL %s: %v", f, capErr(err))
		}
	}
}

// ReportFuzz is for native fuzz targets: it saves the failing case in the replayable form of
// sub-check sub (so `vcheck --replay` runs it through the plain oracle) and fails the target.
func ReportFuzz(t *testing.T, subName string, c any, err error) {
	if err == nil {
		return
	}
	writeViolation(subName, c, err)
	t.Fatalf("%s/%s: %v", property, subName, capErr(err))
}

// FuzzGen is a native fuzz target over the generators of this package: the fuzzer's octets are rapid's source of
// choices (rapid.MakeFuzz), so coverage feedback from the library steers the same generators and the same oracles
// that the rapid runs use; `which` selects the sub-check. A failing case is saved in the replayable form of its
// sub-check (so `vcheck --replay` runs it through the plain oracle, without rapid and without the fuzzer).
// The input is repeated up to 128 KiB before rapid reads it (fuzzTile), so short inputs are evaluated too; the seed
// corpus holds three short pseudo-random strings per sub-check (a fixed function of the index, no clock, no RNG of our own).
func FuzzGen(f *testing.F, skip ...string) {
	var list []*sub
next:
	for _, s := range subs {
		if s.fuzz == nil || (s.tiers != "" && s.tiers != Tier()) || !wantSub(s.name) {
			continue
		}
		for _, k := range skip {
			if k == s.name {
				continue next
			}
		}
		list = append(list, s)
	}
	if len(list) == 0 {
		f.Skip("no generated sub-check")
	}
	for i := range list {
		for j, n := range []int{64, 512, 4096} {
			f.Add(byte(i), fuzzSeedBytes(uint64(i)*8+uint64(j), n))
		}
	}
	f.Fuzz(func(t *testing.T, which byte, data []byte) {
		if len(data) == 0 {
			t.Skip()
		}
		s := list[int(which)%len(list)]
		mu.Lock()
		cur = "fuzzgen:" + s.name
		mu.Unlock()
		rapid.MakeFuzz(s.fuzz)(t, fuzzTile(data))
	})
}

// fuzzTile repeats the fuzzer's octets up to fuzzTileLen: rapid gives up on a case ("overrun") when the generator asks
// for more choices than the input holds, so a short input would never be evaluated and a long one would be mutated
// mostly behind the part the generator reads. With the tiling every input is long enough for the generators, the
// corpus stays small, and every octet the fuzzer mutates is one the generator reads (round 9: without it 4 % of the
// executions of the C02 package were evaluated cases).
const fuzzTileLen = 1 << 17

func fuzzTile(data []byte) []byte {
	if len(data) >= fuzzTileLen {
		return data
	}
	out := make([]byte, fuzzTileLen)
	for n := 0; n < len(out); {
		n += copy(out[n:], data)
	}
	return out
}

// fuzzSeedBytes is a fixed pseudo-random string (splitmix64 of the index).
func fuzzSeedBytes(idx uint64, n int) []byte {
	out := make([]byte, 0, n+8)
	x := idx*0x9E3779B97F4A7C15 + 0x1234567
	for len(out) < n {
		x += 0x9E3779B97F4A7C15
		z := x
		z = (z ^ (z >> 30)) * 0xBF58476D1CE4E5B9
		z = (z ^ (z >> 27)) * 0x94D049BB133111EB
		z ^= z >> 31
		out = binary.LittleEndian.AppendUint64(out, z)
	}
	return out[:n]
}

// Guard runs check and converts a panic into an error (for fuzz targets).
func Guard[C any](check func(C) error, c C) error { return guard(check, c) }

// Errf is fmt.Errorf.
func Errf(format string, a ...any) error { return fmt.Errorf(format, a...) }
