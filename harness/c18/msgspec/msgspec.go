// Package msgspec generates DNS messages as plain, JSON-serialisable specifications and builds
// them with the public API of the library (typed records, Msg fields). It is shared by the
// signing checks (C18 SIG(0), C11 TSIG), whose oracles treat the packed message as opaque
// octets: nothing here is part of an oracle.
package msgspec

import (
	"encoding/hex"
	"net"

	"github.com/miekg/dns"
	"pgregory.net/rapid"

	"verif/harness/gen"
	wm "verif/harness/wiremodel"
)

// Rec specifies one record. Owner and Target index Spec.Names.
type Rec struct {
	Kind   string // A AAAA NS CNAME PTR MX TXT SOA SRV UNK OPT
	Owner  int
	Target int
	Class  uint16
	TTL    uint32
	Num    uint16
	Data   []byte
}

// Q specifies one question.
type Q struct {
	Name  int
	Type  uint16
	Class uint16
}

// Spec specifies a message.
type Spec struct {
	ID       uint16
	Response bool
	Opcode   int
	AA, TC   bool
	RD, RA   bool
	Z, AD    bool
	CD       bool
	Rcode    int
	Names    []string // presentation names; later entries often extend earlier ones (shared suffixes)
	Question []Q
	Answer   []Rec
	Ns       []Rec
	Extra    []Rec
	Compress bool
}

func (s Spec) name(i int) string {
	if len(s.Names) == 0 {
		return "."
	}
	if i < 0 {
		i = -i
	}
	return s.Names[i%len(s.Names)]
}

// NameIndex is the index into Names that a record or question index i denotes (-1: empty pool).
func (s Spec) NameIndex(i int) int {
	if len(s.Names) == 0 {
		return -1
	}
	if i < 0 {
		i = -i
	}
	return i % len(s.Names)
}

func printable(b []byte) string {
	const al = "abcdefghijklmnopqrstuvwxyzABCDEFGHIJKLMNOPQRSTUVWXYZ0123456789 -_=+/.,:"
	o := make([]byte, len(b))
	for i, c := range b {
		o[i] = al[int(c)%len(al)]
	}
	return string(o)
}

func (s Spec) rr(r Rec) dns.RR {
	h := dns.RR_Header{Name: s.name(r.Owner), Class: r.Class, Ttl: r.TTL}
	pad := func(n int) []byte {
		o := make([]byte, n)
		copy(o, r.Data)
		return o
	}
	switch r.Kind {
	case "A":
		h.Rrtype = dns.TypeA
		return &dns.A{Hdr: h, A: net.IP(pad(4))}
	case "AAAA":
		h.Rrtype = dns.TypeAAAA
		ip := pad(16)
		if ip[0] == 0 { // keep clear of v4-mapped forms, which the library stores differently
			ip[0] = 0x20
		}
		return &dns.AAAA{Hdr: h, AAAA: net.IP(ip)}
	case "NS":
		h.Rrtype = dns.TypeNS
		return &dns.NS{Hdr: h, Ns: s.name(r.Target)}
	case "CNAME":
		h.Rrtype = dns.TypeCNAME
		return &dns.CNAME{Hdr: h, Target: s.name(r.Target)}
	case "PTR":
		h.Rrtype = dns.TypePTR
		return &dns.PTR{Hdr: h, Ptr: s.name(r.Target)}
	case "MX":
		h.Rrtype = dns.TypeMX
		return &dns.MX{Hdr: h, Preference: r.Num, Mx: s.name(r.Target)}
	case "SRV":
		h.Rrtype = dns.TypeSRV
		return &dns.SRV{Hdr: h, Priority: r.Num, Weight: r.Num ^ 0x55aa, Port: r.Num + 1, Target: s.name(r.Target)}
	case "SOA":
		h.Rrtype = dns.TypeSOA
		return &dns.SOA{Hdr: h, Ns: s.name(r.Target), Mbox: s.name(r.Target + 1), Serial: uint32(r.Num) * 65537, Refresh: 7200, Retry: 3600, Expire: uint32(r.Num), Minttl: 60}
	case "TXT":
		h.Rrtype = dns.TypeTXT
		var ss []string
		d := r.Data
		for len(d) > 255 {
			ss = append(ss, printable(d[:255]))
			d = d[255:]
		}
		ss = append(ss, printable(d))
		return &dns.TXT{Hdr: h, Txt: ss}
	case "OPT":
		o := &dns.OPT{Hdr: dns.RR_Header{Name: ".", Rrtype: dns.TypeOPT, Class: r.Num | 512, Ttl: r.TTL & 0x00ff8000}}
		if len(r.Data) > 0 {
			o.Option = append(o.Option, &dns.EDNS0_NSID{Code: dns.EDNS0NSID, Nsid: hex.EncodeToString(r.Data)})
		}
		if len(r.Data) > 3 {
			o.Option = append(o.Option, &dns.EDNS0_PADDING{Padding: make([]byte, int(r.Data[0])%40)})
		}
		return o
	default: // UNK: a type the library has no struct for (RFC 3597), opaque RDATA
		h.Rrtype = 65280 + r.Num%16
		return &dns.RFC3597{Hdr: h, Rdata: hex.EncodeToString(r.Data)}
	}
}

// Build constructs the message. Every call returns a fresh, independent value.
func (s Spec) Build() *dns.Msg {
	m := new(dns.Msg)
	m.Id = s.ID
	m.Response, m.Opcode = s.Response, s.Opcode&0xF
	m.Authoritative, m.Truncated, m.RecursionDesired, m.RecursionAvailable = s.AA, s.TC, s.RD, s.RA
	m.Zero, m.AuthenticatedData, m.CheckingDisabled = s.Z, s.AD, s.CD
	m.Rcode = s.Rcode
	m.Compress = s.Compress
	hasOpt := false
	for _, r := range s.Extra {
		if r.Kind == "OPT" {
			hasOpt = true
		}
	}
	if !hasOpt {
		m.Rcode &= 0xF
	} else {
		m.Rcode &= 0xFFF
	}
	for _, q := range s.Question {
		m.Question = append(m.Question, dns.Question{Name: s.name(q.Name), Qtype: q.Type, Qclass: q.Class})
	}
	seenOpt := false
	for i, sec := range [][]Rec{s.Answer, s.Ns, s.Extra} {
		for _, r := range sec {
			if r.Kind == "OPT" {
				if i != 2 || seenOpt {
					r.Kind = "A"
				} else {
					seenOpt = true
				}
			}
			rr := s.rr(r)
			switch i {
			case 0:
				m.Answer = append(m.Answer, rr)
			case 1:
				m.Ns = append(m.Ns, rr)
			default:
				m.Extra = append(m.Extra, rr)
			}
		}
	}
	return m
}

// Records is the number of records outside the question section.
func (s Spec) Records() int { return len(s.Answer) + len(s.Ns) + len(s.Extra) }

// Opts tunes Gen.
type Opts struct {
	MaxSmall   int  // records per section in the ordinary case (default 4)
	ManyExtra  bool // allow 250..300 additional records (ARCOUNT across 255/256)
	Big        bool // allow messages of tens of KiB
	Huge       bool // allow messages that only fit into 64 KiB because they compress (thousands of records under one long owner)
	NoOPT      bool
	MaxExtra   int // hard cap on additional records, 0 = none
	PlainNames bool
	// ShrinkSmall mirrors the shape draw, so that the draw 0 - where rapid's shrinking ends up - is the
	// ordinary small message and not the one with 250..300 additional records (every evaluation of a
	// shrink candidate is then cheap). The distribution of shapes is the same.
	ShrinkSmall bool
}

var kinds = []string{"A", "A", "AAAA", "NS", "CNAME", "PTR", "MX", "MX", "TXT", "SOA", "SRV", "UNK"}

func genRec(t *rapid.T, nNames int, maxData int) Rec {
	r := Rec{Kind: rapid.SampledFrom(kinds).Draw(t, "kind")}
	r.Owner = rapid.IntRange(0, nNames-1).Draw(t, "owner")
	r.Target = rapid.IntRange(0, nNames-1).Draw(t, "target")
	r.Class = rapid.SampledFrom([]uint16{1, 1, 1, 1, 3, 254, 255}).Draw(t, "class")
	r.TTL = rapid.OneOf(rapid.SampledFrom([]uint32{0, 1, 300, 3600, 1<<31 - 1, 1<<32 - 1}), rapid.Uint32()).Draw(t, "ttl")
	r.Num = rapid.Uint16().Draw(t, "num")
	n := 0
	switch r.Kind {
	case "A":
		n = 4
	case "AAAA":
		n = 16
	case "TXT", "UNK":
		lo := 0
		if maxData > 1000 {
			lo = maxData / 2
		}
		n = rapid.IntRange(lo, maxData).Draw(t, "dlen")
	}
	if n > 64 {
		// long opaque data: a drawn pattern, repeated (drawing tens of thousands of octets is slow)
		pat := rapid.SliceOfN(rapid.Byte(), 1, 23).Draw(t, "pat")
		r.Data = make([]byte, n)
		for i := range r.Data {
			r.Data[i] = pat[i%len(pat)] ^ byte(i/len(pat))
		}
	} else if n > 0 {
		r.Data = rapid.SliceOfN(rapid.Byte(), n, n).Draw(t, "data")
	}
	return r
}

// Gen draws a message specification.
func Gen(t *rapid.T, o Opts) Spec {
	if o.MaxSmall == 0 {
		o.MaxSmall = 4
	}
	s := Spec{ID: rapid.Uint16().Draw(t, "id")}
	s.Response = rapid.Bool().Draw(t, "qr")
	s.Opcode = rapid.SampledFrom([]int{0, 0, 0, 4, 5, 2, 15}).Draw(t, "opcode")
	bits := rapid.Uint8().Draw(t, "bits")
	s.AA, s.TC, s.RD, s.RA, s.Z, s.AD, s.CD = bits&1 != 0, bits&2 != 0, bits&4 != 0, bits&8 != 0, bits&16 != 0, bits&32 != 0, bits&64 != 0
	s.Rcode = rapid.OneOf(rapid.SampledFrom([]int{0, 0, 0, 2, 3, 5, 9, 15, 16, 23, 4095}), rapid.IntRange(0, 4095)).Draw(t, "rcode")
	s.Compress = rapid.Bool().Draw(t, "compress")

	// name pool with shared suffixes and case variants
	no := gen.NameOpts{MaxLabs: 3, MaxLabel: 10, Plain: o.PlainNames || rapid.IntRange(0, 2).Draw(t, "plain") > 0}
	nn := rapid.IntRange(1, 6).Draw(t, "nnames")
	var pool []wm.Name
	for i := 0; i < nn; i++ {
		var n wm.Name
		switch k := rapid.IntRange(0, 4).Draw(t, "nk"); {
		case i == 0 || k == 0:
			n = gen.Name(t, no)
		case k == 1:
			n = gen.FlipCase(t, pool[rapid.IntRange(0, i-1).Draw(t, "of")])
		default: // extend an earlier name by one or two labels
			base := pool[rapid.IntRange(0, i-1).Draw(t, "of")]
			n = append(wm.Name{gen.Label(t, no)}, base.Clone()...)
			if !n.Valid() {
				n = base.Clone()
			}
		}
		pool = append(pool, n)
		s.Names = append(s.Names, wm.EscName(n))
	}

	nq := rapid.SampledFrom([]int{1, 1, 1, 1, 0, 2, 3}).Draw(t, "nq")
	for i := 0; i < nq; i++ {
		s.Question = append(s.Question, Q{Name: rapid.IntRange(0, nn-1).Draw(t, "qn"),
			Type:  rapid.SampledFrom([]uint16{1, 2, 5, 6, 15, 16, 28, 33, 252, 255, 65280}).Draw(t, "qt"),
			Class: rapid.SampledFrom([]uint16{1, 1, 3, 254, 255}).Draw(t, "qc")})
	}
	shape := rapid.IntRange(0, 19).Draw(t, "shape")
	if o.ShrinkSmall {
		shape = 19 - shape
	}
	maxData := 40
	nAn := rapid.IntRange(0, o.MaxSmall).Draw(t, "nan")
	nNs := rapid.IntRange(0, o.MaxSmall).Draw(t, "nns")
	nEx := rapid.IntRange(0, o.MaxSmall).Draw(t, "nex")
	switch {
	case shape == 0 && o.ManyExtra:
		nEx = rapid.IntRange(250, 300).Draw(t, "nexmany")
		if rapid.Bool().Draw(t, "edge") {
			nEx = rapid.IntRange(254, 258).Draw(t, "nexedge")
		}
		maxData = 8
	case shape == 4 && o.ManyExtra:
		// counts around the multiples of 256 (one more record - a TSIG or SIG - carries into the high octet of ARCOUNT)
		nEx = rapid.SampledFrom([]int{255, 255, 255, 256, 511, 511, 512, 767}).Draw(t, "nexcarry")
		maxData = 8
	case shape == 1 && o.Big:
		maxData = rapid.SampledFrom([]int{2000, 8000, 16000, 20000}).Draw(t, "big")
		nAn, nNs = max(nAn, 1), max(nNs, 1)
	case shape == 2:
		nAn, nNs, nEx = 0, 0, 0 // bare query
	case shape == 3 && o.Huge:
		// far beyond 64 KiB uncompressed, well below it compressed: many small records whose owner
		// (and, for some kinds, RDATA name) is one long name
		var long wm.Name
		for i, nl := 0, rapid.IntRange(3, 5).Draw(t, "longlabels"); i < nl; i++ {
			long = append(long, gen.Label(t, gen.NameOpts{MaxLabel: rapid.IntRange(8, 15).Draw(t, "longlabel"), Plain: no.Plain, Long: true}))
		}
		wl := long.WireLen()
		s.Names = append(s.Names, wm.EscName(long))
		li := len(s.Names) - 1
		lo := 66000/(wl+14) + 1
		hi := max(lo, 56000/20)
		n := rapid.IntRange(lo, hi).Draw(t, "hugecount")
		kind := rapid.SampledFrom([]string{"A", "A", "AAAA", "NS", "MX"}).Draw(t, "hugekind")
		if kind == "AAAA" || kind == "MX" {
			n = max(lo, n*16/30)
		}
		sec := rapid.IntRange(0, 2).Draw(t, "hugesec")
		recs := make([]Rec, n)
		for i := range recs {
			recs[i] = Rec{Kind: kind, Owner: li, Target: li, Class: 1, TTL: uint32(i), Num: uint16(i), Data: []byte{10, byte(i >> 16), byte(i >> 8), byte(i), 0, 0, 0, 0, 0, 0, 0, 0, 0, 0, 0, 1}}
			if kind == "A" {
				recs[i].Data = recs[i].Data[:4]
			}
		}
		s.Compress = true
		switch sec {
		case 0:
			s.Answer = append(s.Answer, recs...)
		case 1:
			s.Ns = append(s.Ns, recs...)
		default:
			s.Extra = append(s.Extra, recs...)
		}
		if len(s.Question) > 0 && rapid.Bool().Draw(t, "hugeq") {
			s.Question[0].Name = li
		}
		nAn, nNs, nEx = min(nAn, 1), min(nNs, 1), min(nEx, 1)
	}
	if o.MaxExtra > 0 && nEx > o.MaxExtra {
		nEx = o.MaxExtra
	}
	budget := 58000
	add := func(n int, dst *[]Rec, md int) {
		for i := 0; i < n; i++ {
			r := genRec(t, nn, md)
			if len(r.Data)+300 > budget {
				r.Data = r.Data[:0]
				if r.Kind == "UNK" || r.Kind == "TXT" {
					r.Kind = "A"
					r.Data = []byte{192, 0, 2, 1}
				}
			}
			budget -= len(r.Data) + 300
			if budget < 0 {
				budget = 0
			}
			*dst = append(*dst, r)
		}
	}
	add(nAn, &s.Answer, maxData)
	add(nNs, &s.Ns, maxData)
	if nEx >= 250 {
		// many small records: cheap owner, tiny RDATA
		for i := 0; i < nEx; i++ {
			s.Extra = append(s.Extra, Rec{Kind: "A", Owner: i % nn, Class: 1, TTL: uint32(i), Data: []byte{10, byte(i >> 8), byte(i), 1}})
		}
	} else {
		add(nEx, &s.Extra, maxData)
	}
	if !o.NoOPT && rapid.IntRange(0, 3).Draw(t, "opt") == 0 {
		opt := Rec{Kind: "OPT", Num: rapid.Uint16().Draw(t, "udp"), TTL: rapid.Uint32().Draw(t, "optttl"),
			Data: rapid.SliceOfN(rapid.Byte(), 0, 12).Draw(t, "optdata")}
		pos := rapid.IntRange(0, len(s.Extra)).Draw(t, "optpos")
		s.Extra = append(s.Extra[:pos], append([]Rec{opt}, s.Extra[pos:]...)...)
		if o.MaxExtra > 0 && len(s.Extra) > o.MaxExtra {
			s.Extra = s.Extra[:o.MaxExtra]
		}
	}
	return s
}
