package c18

// Round 10: Sign after a Sign that failed, on the same message value.
//
// The quantifier of C18 runs over inputs and fault sequences, and "the signed octets are the packed message
// followed by one SIG record with ARCOUNT incremented" is said of every message that Sign reports as signed -
// also of the one whose first attempt was turned down: the caller gets an error (the signer's name lacks its
// closing dot, the RCODE needs an OPT record the message does not have, a record cannot be packed, the token
// refuses to sign, the key tag was not filled in), repairs the cause and hands the SAME *Msg - and the same or
// a fresh *SIG - to Sign again. The earlier, refused attempt must not show in the result: it is pack(m) of the
// message as the caller now has it, one SIG record, ARCOUNT + 1, and it verifies.
//
// A case is a message plus a short plan of attempts. Every attempt but the last carries one fault from a small
// list covering each step of Sign (guards, packing of the message, packing of the SIG record, hash selection,
// the crypto.Signer, the size limit) or none (an earlier attempt that succeeded - a retransmission signs the
// same message once more); the repair takes the fault back or keeps what it added in its corrected form (the
// OPT record that the extended RCODE needed, the record with its owner name completed). The expectation is
// computed from a second Msg value that never sees Sign and receives only the repairs that stay.

import (
	"crypto"
	"encoding/hex"
	"fmt"
	"net"
	"strings"
	"time"

	"github.com/miekg/dns"
	"pgregory.net/rapid"

	"verif/harness/c18/msgspec"
	"verif/harness/gen"
	"verif/harness/pbt"
	ref "verif/harness/refcrypto"
	wm "verif/harness/wiremodel"
)

type retryStep struct {
	Fault  string // one of retryFaults, or "none"
	Arg    int    // section / value selector of the fault
	Keep   bool   // the repair keeps what the fault added, corrected; otherwise it takes it back
	NewSIG bool   // this attempt is made with a fresh SIG value (else with the one used so far)
}

type retryCase struct {
	Msg     msgspec.Spec
	Alg     uint8
	KeySlot int
	KeySeed []byte
	Signer  string
	Steps   []retryStep // the last step has Fault "none"
}

// every step of SIG.Sign at which an attempt can be turned down
var retryFaults = []string{
	"relative-signer-name",       // packing of the SIG record: the signer's name lacks the closing dot
	"extended-rcode-without-opt", // packing of the message: RCODE > 15 needs an OPT record (drawn as rcode-out-of-range when the message has one)
	"rcode-out-of-range",         // packing of the message: RCODE > 4095
	"record-owner-not-fqdn",      // packing of the message: one record's owner lacks the closing dot
	"record-rdata-over-65535",    // packing of the message: one record's RDATA does not fit its length field
	"message-over-64k",           // the signed message would exceed 65535 octets
	"failing-signer",             // the crypto.Signer returns an error
	"nil-signer",
	"key-tag-not-set", // the guards at the top of Sign
	"algorithm-not-set",
	"signer-name-not-set",
	"unknown-algorithm", // no hash for the algorithm number
}

func retryHasOPT(s msgspec.Spec) bool {
	for _, r := range s.Extra {
		if r.Kind == "OPT" {
			return true
		}
	}
	return false
}

// removeRR takes one record (by identity) out of a section, the way a caller undoes an Insert.
func removeRR(sec []dns.RR, rr dns.RR) []dns.RR {
	out := make([]dns.RR, 0, len(sec))
	for _, r := range sec {
		if r != rr {
			out = append(out, r)
		}
	}
	return out
}

func sectionOf(m *dns.Msg, i int) *[]dns.RR {
	switch ((i % 3) + 3) % 3 {
	case 0:
		return &m.Answer
	case 1:
		return &m.Ns
	}
	return &m.Extra
}

func checkRetry(c retryCase) error {
	if len(c.Steps) == 0 || len(c.Steps) > 8 || c.Steps[len(c.Steps)-1].Fault != "none" {
		return nil
	}
	priv, err := privFor(sigCase{Alg: c.Alg, KeySlot: c.KeySlot, KeySeed: c.KeySeed})
	if err != nil {
		return nil
	}
	signerL, lerr := labelsOf(c.Signer)
	if lerr != nil || !strings.HasSuffix(c.Signer, ".") {
		return nil
	}
	pub := ref.PublicOf(priv)
	k, keyOct := keyRR(c.Signer, c.Alg, pub)
	tag := keyTagOf(k.Flags, c.Alg, keyOct)
	now64 := time.Now().Unix()
	now := uint32(now64)
	if p0, perr := c.Msg.Build().Pack(); perr != nil || len(p0) > 60000 {
		return nil
	}
	m := c.Msg.Build()    // the message value the caller keeps handing to Sign
	want := c.Msg.Build() // never sees Sign; receives the repairs that stay
	callerExtra := len(m.Extra)
	newSIG := func() *dns.SIG {
		s := &dns.SIG{}
		s.Algorithm, s.KeyTag, s.SignerName = c.Alg, tag, c.Signer
		s.Inception, s.Expiration = uint32(now64-3600), uint32(now64+3600)
		return s
	}
	sig := newSIG()
	good := crypto.Signer(ref.RandCheckedSigner{Inner: ref.DetSigner{Key: priv}})

	var classes []string
	var history []string
	failedBefore, noted := 0, false
	note := func() {
		if !noted {
			noted = true
			key := []byte(fmt.Sprint(c.Alg, c.KeySlot, c.KeySeed, c.Signer, c.Steps, c.Msg))
			pbt.Note(key, failedBefore > 0, classes...)
		}
	}
	defer note()
	classes = append(classes, fmt.Sprintf("attempts=%d", len(c.Steps)), fmt.Sprintf("alg=%d", c.Alg), fmt.Sprintf("compress=%v", c.Msg.Compress))

	for i, st := range c.Steps {
		if st.NewSIG {
			sig = newSIG()
		}
		signer := good
		fault := st.Fault
		if fault == "extended-rcode-without-opt" && (retryHasOPT(c.Msg) || want.IsEdns0() != nil) {
			fault = "rcode-out-of-range"
		}
		undo := func() {}
		stay := func() {}
		switch fault {
		case "none":
		case "relative-signer-name":
			if c.Signer == "." {
				sig.SignerName = "" // the root without its dot: nothing is left
			} else {
				sig.SignerName = strings.TrimSuffix(c.Signer, ".")
			}
			undo = func() { sig.SignerName = c.Signer }
		case "extended-rcode-without-opt":
			old := m.Rcode
			ext := 16 + ((st.Arg%4000)+4000)%4000
			m.Rcode = ext
			undo = func() { m.Rcode = old }
			if st.Keep {
				// the caller adds the OPT record the RCODE needs
				undo = func() {}
				stay = func() {
					for _, x := range []*dns.Msg{m, want} {
						x.Rcode = ext
						x.Extra = append(x.Extra, &dns.OPT{Hdr: dns.RR_Header{Name: ".", Rrtype: dns.TypeOPT, Class: 1232}})
					}
					callerExtra++
				}
			}
		case "rcode-out-of-range":
			old := m.Rcode
			m.Rcode = 0x1000 + ((st.Arg%4000)+4000)%4000
			undo = func() { m.Rcode = old }
		case "record-owner-not-fqdn":
			mk := func(name string) dns.RR {
				return &dns.A{Hdr: dns.RR_Header{Name: name, Rrtype: dns.TypeA, Class: dns.ClassINET, Ttl: 300}, A: net.IPv4(192, 0, 2, byte(st.Arg))}
			}
			bad := mk("host.retry.example")
			sec := sectionOf(m, st.Arg)
			*sec = append(*sec, bad)
			if st.Keep {
				// the caller completes the name; the record stays where it is
				stay = func() {
					bad.Header().Name = "host.retry.example."
					ws := sectionOf(want, st.Arg)
					*ws = append(*ws, mk("host.retry.example."))
					if sec == &m.Extra {
						callerExtra++
					}
				}
			} else {
				undo = func() { *sec = removeRR(*sec, bad) }
			}
		case "record-rdata-over-65535":
			bad := &dns.RFC3597{Hdr: dns.RR_Header{Name: "big.retry.example.", Rrtype: 65290, Class: dns.ClassINET, Ttl: 1}, Rdata: hex.EncodeToString(make([]byte, 65536+st.Arg&0xff))}
			sec := sectionOf(m, st.Arg)
			*sec = append(*sec, bad)
			undo = func() { *sec = removeRR(*sec, bad) }
		case "message-over-64k":
			var bads []dns.RR
			sec := sectionOf(m, st.Arg)
			for j := 0; j < 2; j++ {
				b := &dns.RFC3597{Hdr: dns.RR_Header{Name: "big.retry.example.", Rrtype: 65290, Class: dns.ClassINET, Ttl: 1}, Rdata: hex.EncodeToString(make([]byte, 33000))}
				bads = append(bads, b)
				*sec = append(*sec, b)
			}
			undo = func() {
				for _, b := range bads {
					*sec = removeRR(*sec, b)
				}
			}
		case "failing-signer":
			signer = ref.FailingSigner{Pub: pub}
		case "nil-signer":
			signer = nil
		case "key-tag-not-set":
			sig.KeyTag = 0
			undo = func() { sig.KeyTag = tag }
		case "algorithm-not-set":
			sig.Algorithm = 0
			undo = func() { sig.Algorithm = c.Alg }
		case "signer-name-not-set":
			sig.SignerName = ""
			undo = func() { sig.SignerName = c.Signer }
		case "unknown-algorithm":
			sig.Algorithm = uint8(200 + ((st.Arg%50)+50)%50)
			undo = func() { sig.Algorithm = c.Alg }
		default:
			return nil
		}

		var out []byte
		var serr error
		func() {
			defer func() {
				if r := recover(); r != nil {
					serr = fmt.Errorf("panic: %v", r)
				}
			}()
			out, serr = sig.Sign(signer, m)
		}()
		if fault != "none" {
			// what a faulted attempt returns is not part of the statement (a caller's mistake); it is recorded
			if serr != nil {
				failedBefore++
				history = append(history, fmt.Sprintf("%d: %s -> %v", i+1, fault, serr))
				classes = append(classes, "refused-attempt="+fault, fmt.Sprintf("refused-attempt=%s/sig=%s", fault, map[bool]string{true: "fresh", false: "same"}[st.NewSIG]))
				if st.Keep && (fault == "extended-rcode-without-opt" || fault == "record-owner-not-fqdn") {
					classes = append(classes, "repair-keeps-the-corrected-record="+fault)
				}
			} else {
				history = append(history, fmt.Sprintf("%d: %s -> accepted", i+1, fault))
				classes = append(classes, "faulted-attempt-accepted(not asserted)="+fault)
			}
			undo()
			stay()
			continue
		}
		// an attempt without a fault: everything the statement says about a signed message
		final := i == len(c.Steps)-1
		where := fmt.Sprintf("Sign attempt %d of %d on one *Msg (alg %d, Compress=%v, signer %q), after %d refused attempt(s) [%s]", i+1, len(c.Steps), c.Alg, c.Msg.Compress, c.Signer, failedBefore, strings.Join(history, "; "))
		if serr != nil {
			return pbt.Errf("%s failed: %v - the cause of every earlier refusal had been repaired", where, serr)
		}
		packed, perr := want.Pack()
		if perr != nil {
			return nil // the harness' own expectation does not pack: not a case
		}
		p := &seqPrepared{packed: packed, pub: pub, key: k}
		if verr := seqVerify(p, c.Alg, signerL, out, now); verr != nil {
			nsig := -1
			var u dns.Msg
			if u.Unpack(out) == nil {
				nsig = 0
				for _, r := range u.Extra {
					if _, ok := r.(*dns.SIG); ok {
						nsig++
					}
				}
			}
			return pbt.Errf("%s: the result (%d octets, ARCOUNT %d, %d SIG record(s) after unpacking; the message as the caller has it packs to %d octets with ARCOUNT %d; the caller put %d records into m.Extra, it now holds %d) %v",
				where, len(out), ref.ARCount(out), nsig, len(packed), ref.ARCount(packed), callerExtra, len(m.Extra), verr)
		}
		if failedBefore > 0 {
			classes = append(classes, "signed-after-a-refused-attempt")
		}
		if !final {
			history = append(history, fmt.Sprintf("%d: signed", i+1))
			classes = append(classes, "earlier-attempt-that-succeeded")
		}
	}
	return nil
}

func genRetry(t *rapid.T) retryCase {
	c := retryCase{Alg: rapid.SampledFrom(sigAlgs).Draw(t, "alg"), KeySlot: rapid.IntRange(0, ref.RSAPoolSize()-1).Draw(t, "slot"), KeySeed: rapid.SliceOfN(rapid.Byte(), 1, 16).Draw(t, "seed")}
	c.Msg = msgspec.Gen(t, msgspec.Opts{MaxSmall: 4})
	c.Signer = wm.EscName(gen.Name(t, gen.NameOpts{MaxLabs: 3, MaxLabel: 10, Plain: rapid.Bool().Draw(t, "plainsigner")}))
	if pbt.Known(findAlg7) && c.Alg == ref.AlgRSASHA1NSEC3 {
		pbt.Excluded(findAlg7)
		c.Alg = ref.AlgRSASHA1
	}
	if pbt.Known(findTag0) {
		for i := 0; i < 4; i++ {
			if tag, ok := caseKeyTag(sigCase{Alg: c.Alg, KeySlot: c.KeySlot, KeySeed: c.KeySeed}); !ok || tag != 0 {
				break
			}
			pbt.Excluded(findTag0)
			c.KeySeed = append(append([]byte(nil), c.KeySeed...), byte(i))
			c.KeySlot = (c.KeySlot + 1) % ref.RSAPoolSize()
		}
	}
	n := rapid.IntRange(1, 4).Draw(t, "nfaulted")
	for i := 0; i < n; i++ {
		st := retryStep{Arg: rapid.IntRange(0, 1<<16).Draw(t, "arg"), Keep: rapid.Bool().Draw(t, "keep"), NewSIG: rapid.IntRange(0, 2).Draw(t, "newsig") == 0}
		// the two oversize faults pack tens of KiB: one draw in 14 each; "none" (an earlier attempt that succeeded) one in 7
		k := rapid.IntRange(0, 13).Draw(t, "fault")
		switch {
		case k < 10:
			st.Fault = retryFaults[[]int{0, 1, 2, 3, 6, 7, 8, 9, 10, 11}[k]]
		case k == 10:
			st.Fault = "record-rdata-over-65535"
		case k == 11:
			st.Fault = "message-over-64k"
		default:
			st.Fault = "none"
		}
		c.Steps = append(c.Steps, st)
	}
	c.Steps = append(c.Steps, retryStep{Fault: "none", NewSIG: rapid.IntRange(0, 2).Draw(t, "newsiglast") == 0})
	return c
}

func init() {
	pbt.Register(pbt.Sub[retryCase]{Name: "sign-after-refused-sign", Weight: 2, Gen: genRetry, Check: checkRetry})
}
