package c18

import (
	"testing"

	"verif/harness/pbt"
)

// FuzzGen: coverage-guided search over the generators of this package (see pbt.FuzzGen).
// The two sub-checks whose cases carry thousands of enumerated alterations (0.1 .. 3 s per case, 65535-octet
// messages) are left out: the fuzzer got 34 executions in 30 s with them. It works on sign-verify (the same
// generator and the same oracle up to the key / owner clause), sign-sequence and sign-with-reused-sig.
func FuzzGen(f *testing.F) { pbt.FuzzGen(f, "sign-verify-tamper", "sizes-at-the-limit") }
