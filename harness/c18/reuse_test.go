package c18

// The same SIG value is used to sign several messages in a row (a client that signs every update
// with one template record). Each signed message must verify, with the library and with the
// reference, and must be the packed message plus exactly one SIG record.

import (
	"bytes"
	"crypto"
	"fmt"
	"time"

	"github.com/miekg/dns"
	"pgregory.net/rapid"

	"verif/harness/c18/msgspec"
	"verif/harness/pbt"
	ref "verif/harness/refcrypto"
)

const findReuse = "sig0-struct-reuse"

type reuseCase struct {
	Msgs    []msgspec.Spec
	Alg     uint8
	KeySlot int
	KeySeed []byte
}

func checkReuse(c reuseCase) error {
	priv, err := privFor(sigCase{Alg: c.Alg, KeySlot: c.KeySlot, KeySeed: c.KeySeed})
	if err != nil || len(c.Msgs) == 0 {
		return nil
	}
	pub := ref.PublicOf(priv)
	k, keyOct := keyRR("signer.example.", c.Alg, pub)
	tag := keyTagOf(k.Flags, c.Alg, keyOct) // whatever its value (a key whose tag is 0 is replaced by the generator while sig0-keytag-zero-refused is live)
	signerL, _ := labelsOf("signer.example.")
	now := time.Now().Unix()
	sig := &dns.SIG{}
	sig.Algorithm, sig.KeyTag, sig.SignerName = c.Alg, tag, "signer.example."
	sig.Inception, sig.Expiration = uint32(now-3600), uint32(now+3600)
	pbt.Note([]byte(fmt.Sprint(c.Alg, len(c.Msgs), c.Msgs)), len(c.Msgs) > 1, fmt.Sprintf("alg=%d", c.Alg), fmt.Sprintf("messages=%d", len(c.Msgs)))
	for i, spec := range c.Msgs {
		packed, perr := spec.Build().Pack()
		if perr != nil || len(packed) > 60000 {
			return nil
		}
		out, err := sig.Sign(priv.(crypto.Signer), spec.Build())
		if err != nil {
			return pbt.Errf("Sign of message %d with a SIG value used before failed: %v", i, err)
		}
		if !bytes.HasPrefix(out[12:], packed[12:]) {
			return pbt.Errf("signed message %d does not start with the packed message", i)
		}
		var u dns.Msg
		if err := u.Unpack(out); err != nil {
			return pbt.Errf("signed message %d does not unpack: %v", i, err)
		}
		last, ok := u.Extra[len(u.Extra)-1].(*dns.SIG)
		if !ok {
			return pbt.Errf("signed message %d does not end with a SIG record", i)
		}
		if v := ref.Sig0Verify(out, signerL, c.Alg, pub, uint32(now)); !v.OK {
			return pbt.Errf("message %d signed with a SIG value that was used for %d earlier message(s) is not a valid RFC 2931 signature: %s (signature field %d octets)", i, i, v.Why, len(last.Signature)*3/4)
		}
		if err := last.Verify(k, out); err != nil {
			return pbt.Errf("message %d signed with a reused SIG value does not verify: %v", i, err)
		}
	}
	return nil
}

func genReuse(t *rapid.T) reuseCase {
	c := reuseCase{Alg: rapid.SampledFrom(sigAlgs).Draw(t, "alg"), KeySlot: rapid.IntRange(0, ref.RSAPoolSize()-1).Draw(t, "slot"),
		KeySeed: rapid.SliceOfN(rapid.Byte(), 1, 40).Draw(t, "seed")}
	if pbt.Known(findAlg7) && c.Alg == ref.AlgRSASHA1NSEC3 {
		pbt.Excluded(findAlg7)
		c.Alg = ref.AlgRSASHA1
	}
	if pbt.Known(findTag0) {
		for i := 0; i < 4; i++ {
			if tag, ok := caseKeyTag(sigCase{Alg: c.Alg, KeySlot: c.KeySlot, KeySeed: c.KeySeed}); !ok || tag != 0 {
				break
			}
			pbt.Excluded(findTag0)
			c.KeySeed = append(append([]byte(nil), c.KeySeed...), byte(i))
			c.KeySlot = (c.KeySlot + 1) % ref.RSAPoolSize()
		}
	}
	n := rapid.IntRange(1, 4).Draw(t, "nmsgs")
	if pbt.Known(findReuse) {
		pbt.Excluded(findReuse)
		n = 1
	}
	for i := 0; i < n; i++ {
		c.Msgs = append(c.Msgs, msgspec.Gen(t, msgspec.Opts{}))
	}
	return c
}

func init() {
	pbt.Probe(findReuse, func() error {
		m := msgspec.Spec{}
		return checkReuse(reuseCase{Msgs: []msgspec.Spec{m, m}, Alg: ref.AlgEd25519, KeySeed: []byte{1}})
	})
	pbt.Register(pbt.Sub[reuseCase]{Name: "sign-with-reused-sig", Weight: 0.5, Gen: genReuse, Check: checkReuse})
}
