package c18

import (
	"bytes"
	"crypto"
	"crypto/ecdsa"
	"crypto/elliptic"
	"crypto/rsa"
	"encoding/base64"
	"encoding/binary"
	"fmt"
	"math/big"
	"os"
	"runtime"
	"runtime/debug"
	"sort"
	"strings"
	"sync"
	"sync/atomic"
	"syscall"
	"time"

	"github.com/miekg/dns"
	"pgregory.net/rapid"

	"verif/harness/c18/msgspec"
	"verif/harness/gen"
	"verif/harness/pbt"
	ref "verif/harness/refcrypto"
	wm "verif/harness/wiremodel"
)

const (
	findCompress = "sig0-sign-compress-errbuf"  // DESIGN §4 #3
	findArcount  = "sig0-verify-arcount-256"    // DESIGN §4 #4
	findPadded   = "sig0-ecdsa-padded"          // DESIGN §4 #8
	findKeyAlg   = "sig0-key-algorithm-ignored" // KEY algorithm number is not compared with the SIG's
	findAlg7     = "sig0-verify-alg7-refused"   // round 7: Sign signs with algorithm 7, Verify has no case for it
	findTag0     = "sig0-keytag-zero-refused"   // round 7: a key whose key tag is 0 is taken for "key tag not set"
	findSpelling = "sig0-verify-owner-spelling" // round 7: Verify compares the KEY owner as text with the decoder's spelling of the signer
)

// every algorithm number SIG.Sign signs with (dnssec.go sign() and AlgorithmToHash): 5, 7, 8, 10, 13, 14, 15
var sigAlgs = []uint8{ref.AlgRSASHA1, ref.AlgRSASHA1NSEC3, ref.AlgRSASHA256, ref.AlgRSASHA512, ref.AlgECDSAP256, ref.AlgECDSAP384, ref.AlgEd25519}

var rsaAlgs = []uint8{ref.AlgRSASHA1, ref.AlgRSASHA1NSEC3, ref.AlgRSASHA256, ref.AlgRSASHA512}

// Mut is one generated mutation of the signed buffer.
type Mut struct {
	Op  string // set, ins, del, count, swap
	Pos int    // position, reduced modulo the buffer length
	Val []byte
}

type sigCase struct {
	Msg         msgspec.Spec
	Alg         uint8
	KeySlot     int    // RSA: pool index
	KeySeed     []byte // ECDSA / Ed25519: seed of the signing key
	Signer      string // owner of the KEY record (presentation)
	SignerAs    string // the same name as written into the SIG (may differ in letter case)
	IncOff      int64  // inception  = now + IncOff   (|offsets| >= 120 s away from now)
	ExpOff      int64  // expiration = now + ExpOff
	RefSign     bool   // the SIG(0) is made by the reference signer instead of SIG.Sign (Verify side only)
	Pad         bool   // also try the ECDSA signature with a zero octet in front of r and s
	AlgMismatch bool   // RSA only: also try a KEY record with the same public key under another RSA algorithm number
	ShortR      int    // ECDSA, library-signed: n > 0 = sign with the n-th nonce whose point has an X with two leading zero octets (r short)
	ShortS      bool   // ECDSA, library-signed, small messages: search the message ID for a digest that gives an s with two leading zero octets
	Concurrent  bool   // also verify from four goroutines at once on the one buffer
	Preset      bool   // library-signed: the SIG value handed to Sign has its header and derived fields pre-set
	PreOwner    string // presentation owner name of that template (may carry escapes)
	PreType     uint16
	PreClass    uint16
	PreTTL      uint32
	PreRdlen    uint16
	RdLens      []int // extra RDLENGTH values tried on the SIG record (besides the systematic sweep)
	Sample      []int // bit positions (reduced modulo the signed length) flipped in addition, for messages too long to enumerate
	Muts        []Mut
	// round 7 (octet strings, not Go strings: the spellings may hold raw octets >= 0x80, which JSON text cannot carry)
	TagZero     bool     // the KEY's flags field is chosen so that the key tag of the KEY record is 0 (one key in 65536 has it by nature)
	KeyOwner    []byte   // how the program spells the owner of the KEY handed to Verify (same name as Signer: raw octets, \c, \DDD); empty = Signer
	SignerSpell []byte   // how the program spells SIG.SignerName for Sign (same name as SignerAs); empty = SignerAs
	OwnerAlts   [][]byte // owners of KEYs holding the right key material that are (nearly but) not the signer's name: must be refused
	// round 9
	Light bool // sub-check sign-verify: everything up to and including the key / owner clause, without the enumerated alterations (many more messages per second)
	// round 10: the reference signer writes the SIG record as another implementation may (RFC 2931 3: "the owner name,
	// class, TTL, and original TTL, are meaningless"; root / ANY / 0 are SHOULDs; none of the record's own header is signed)
	Foreign      bool
	SigOwner     string // root | name (written out) | signer (the signer's name written out) | ptr-name (compression pointer to a name or a suffix of a name of the message) | ptr-root (pointer to the closing octet of a name of the message)
	SigOwnerName string // presentation form, for "name"
	SigOwnerPick int    // which pointer target (reduced modulo the number of candidates)
	SigClass     uint16
	SigTTL       uint32
	SigLabels    int // -1: the number of labels of the owner (RFC 2535 4.1.3), else the value
	SigOrigTTL   uint32
}

func privFor(c sigCase) (crypto.PrivateKey, error) {
	switch c.Alg {
	case ref.AlgRSASHA1, ref.AlgRSASHA1NSEC3, ref.AlgRSASHA256, ref.AlgRSASHA512:
		return ref.RSAKey(c.KeySlot), nil
	case ref.AlgECDSAP256, ref.AlgECDSAP384:
		return ref.ECDSAKeyFromSeed(c.Alg, c.KeySeed)
	case ref.AlgEd25519:
		return ref.Ed25519KeyFromSeed(c.KeySeed), nil
	}
	return nil, fmt.Errorf("algorithm %d not in the domain", c.Alg)
}

const hostKeyFlags = 0x0200 // RFC 2535 3.1.2: name type "host"; what SIG(0) keys usually carry

func keyRR(owner string, alg uint8, pub crypto.PublicKey) (*dns.KEY, []byte) {
	oct, _ := ref.KeyOctets(alg, pub)
	k := &dns.KEY{DNSKEY: dns.DNSKEY{Hdr: dns.RR_Header{Name: owner, Rrtype: dns.TypeKEY, Class: dns.ClassINET, Ttl: 3600},
		Flags: hostKeyFlags, Protocol: 3, Algorithm: alg, PublicKey: base64.StdEncoding.EncodeToString(oct)}}
	return k, oct
}

// keyTagOf is the RFC 4034 appendix B key tag of the KEY record with these flags (protocol 3).
func keyTagOf(flags uint16, alg uint8, keyOct []byte) uint16 {
	return ref.KeyTag(ref.DNSKEYRdata(flags, 3, alg, keyOct))
}

// tagZeroFlags looks for a flags value under which the KEY record has key tag 0 (the flags are the
// first 16-bit word of the checksummed RDATA, so all but a handful of keys have one). Nothing in
// SIG(0) processing reads the flags, so every key becomes a member of the class "key tag 0".
func tagZeroFlags(alg uint8, keyOct []byte) (uint16, bool) {
	for d := 0; d < 65536; d++ {
		f := uint16(hostKeyFlags + d)
		if keyTagOf(f, alg, keyOct) == 0 {
			return f, true
		}
	}
	return hostKeyFlags, false
}

// caseKeyTag is the key tag of the KEY record the case uses (for the generator's exclusion).
func caseKeyTag(c sigCase) (uint16, bool) {
	priv, err := privFor(c)
	if err != nil {
		return 0, false
	}
	oct, err := ref.KeyOctets(c.Alg, ref.PublicOf(priv))
	if err != nil {
		return 0, false
	}
	return keyTagOf(hostKeyFlags, c.Alg, oct), true
}

func labelsOf(text string) (ref.Labels, error) {
	n, _, err := wm.UnescName(text)
	return ref.Labels(n), err
}

// spelledLabels reads a fully qualified presentation name written by a program (raw octets, \c, \DDD).
func spelledLabels(text []byte) (ref.Labels, bool) {
	n, fq, err := wm.UnescName(string(text))
	return ref.Labels(n), err == nil && fq
}

// fullLimit: signed buffers up to this many octets get every single-bit flip and every truncation
// point; longer ones get every bit of the header and of the SIG record, plus sampled positions.
func fullLimit() int {
	if pbt.Thorough() {
		return 700
	}
	return 260
}

// libAccepts runs the documented flow (decode the buffer, take the SIG that comes out, verify
// the buffer) and the hostile one (the SIG decoded from the untampered message). It reports
// whether either accepted. buf is never modified by Verify.
func libAccepts(orig *dns.SIG, k *dns.KEY, buf []byte, redecode bool) bool {
	if orig.Verify(k, buf) == nil {
		return true
	}
	if !redecode {
		return false
	}
	m := new(dns.Msg)
	if err := m.Unpack(buf); err != nil || len(m.Extra) == 0 {
		return false
	}
	s, ok := m.Extra[len(m.Extra)-1].(*dns.SIG)
	if !ok {
		return false
	}
	if *s == *orig {
		// the alteration lies outside the SIG record: the decoded SIG is field for field the one that
		// was just tried on these octets (an expensive second signature check of the same call)
		return false
	}
	return s.Verify(k, buf) == nil
}

// parallelEach evaluates f(i) for i in [0,n) on a few goroutines; results are positional, so the
// outcome does not depend on scheduling.
func parallelEach(n int, f func(i int) bool) []bool {
	out := make([]bool, n)
	workers := min(8, runtime.GOMAXPROCS(0))
	if n < 24 || workers < 2 {
		for i := 0; i < n; i++ {
			out[i] = f(i)
		}
		return out
	}
	var wg sync.WaitGroup
	var pmu sync.Mutex
	var pv any
	for w := 0; w < workers; w++ {
		wg.Add(1)
		go func(w int) {
			defer wg.Done()
			defer func() {
				if r := recover(); r != nil {
					pmu.Lock()
					if pv == nil {
						pv = r
					}
					pmu.Unlock()
				}
			}()
			for i := w; i < n; i += workers {
				out[i] = f(i)
			}
		}(w)
	}
	wg.Wait()
	if pv != nil {
		panic(pv) // re-raised on the checking goroutine, where pbt turns it into a violation
	}
	return out
}

func checkSig0(c sigCase) (err error) {
	priv, kerr := privFor(c)
	if kerr != nil {
		return nil
	}
	signerL, e1 := labelsOf(c.Signer)
	signerAsL, e2 := labelsOf(c.SignerAs)
	if e1 != nil || e2 != nil || !signerL.EqualFold(signerAsL) {
		return nil
	}
	// window bounds are either at least 120 s away from the wall clock or exactly "now" (inception =
	// the second the case starts: valid from then on; expiration = that second: valid only within it)
	if (abs(c.IncOff) < 120 && c.IncOff != 0) || (abs(c.ExpOff) < 120 && c.ExpOff != 0) || (c.IncOff == 0 && c.ExpOff == 0) {
		return nil
	}
	// round 7: the program's spelling of the KEY owner and of SIG.SignerName - the same names, octet for octet
	keyOwner, signerText := c.Signer, c.SignerAs
	if len(c.KeyOwner) > 0 {
		l, ok := spelledLabels(c.KeyOwner)
		if !ok || !wm.Name(l).Equal(wm.Name(signerL)) {
			return nil
		}
		keyOwner = string(c.KeyOwner)
	}
	if len(c.SignerSpell) > 0 {
		l, ok := spelledLabels(c.SignerSpell)
		if !ok || !wm.Name(l).Equal(wm.Name(signerAsL)) {
			return nil
		}
		signerText = string(c.SignerSpell)
	}
	pub := ref.PublicOf(priv)
	k, keyOct := keyRR(keyOwner, c.Alg, pub)
	if c.TagZero {
		k.Flags, _ = tagZeroFlags(c.Alg, keyOct)
	}
	// the key tag is the one of the KEY record, whatever its value: 0 is a tag like any other (RFC 4034
	// appendix B is a checksum over the RDATA; one key in 65536 has it)
	tag := keyTagOf(k.Flags, c.Alg, keyOct)
	now64 := time.Now().Unix()
	now := uint32(now64)
	incep, expir := uint32(now64+c.IncOff), uint32(now64+c.ExpOff)
	inWindow := c.IncOff <= 0 && c.ExpOff >= 0

	// the packed message, from an independent Msg value
	packed, perr := c.Msg.Build().Pack()
	if perr != nil {
		return nil // not packable (e.g. over 64 KiB): outside the domain
	}
	sigRRLen := 1 + 10 + 18 + len(signerAsL.Wire()) + sigLen(c.Alg, priv)
	if n := len(packed) + sigRRLen; n > 65535 {
		// no DNS message is that long. Slightly oversize cases are still handed to Sign: it must refuse
		// (whatever Sign reports as signed has to be a message that can be sent and verifies)
		if n <= 65600 && !c.RefSign {
			sig := &dns.SIG{}
			sig.KeyTag, sig.SignerName, sig.Algorithm = tag, signerText, c.Alg
			sig.Inception, sig.Expiration = incep, expir
			out, serr := sig.Sign(ref.RandCheckedSigner{Inner: ref.DetSigner{Key: priv}}, c.Msg.Build())
			pbt.Note(append([]byte("oversize|"), packed[:64]...), true, "signed-size>65535", fmt.Sprintf("alg=%d", c.Alg))
			if serr == nil && len(out) > 65535 {
				return pbt.Errf("SIG.Sign reported success for a signed message of %d octets (packed message %d + SIG record %d): not a DNS message any more", len(out), len(packed), sigRRLen)
			}
		}
		return nil
	}
	window := map[bool]string{true: "window=valid", false: "window=past"}[inWindow]
	if inWindow && c.IncOff == 0 {
		window = "window=inception-is-now"
	}
	if inWindow && c.ExpOff == 0 {
		window = "window=expiration-is-now"
	}
	if !inWindow && c.IncOff > 0 {
		window = "window=future"
	}
	if c.ExpOff < c.IncOff {
		window = "window=inverted(expiration before inception)"
	}
	nontrivial := c.Msg.Records() >= 1
	classes := []string{fmt.Sprintf("alg=%d", c.Alg), window, fmt.Sprintf("compress=%v", c.Msg.Compress), sizeClass(len(packed)), hugeClass(c.Msg, len(packed)), fmt.Sprintf("signed-size>=65534:%v", len(packed)+sigRRLen >= 65534), extraClass(len(c.Msg.Extra)),
		fmt.Sprintf("refsigned=%v", c.RefSign), fmt.Sprintf("signercase=%v", c.Signer != c.SignerAs),
		fmt.Sprintf("keytag-zero=%v", tag == 0), fmt.Sprintf("key-owner-spelled-otherwise=%v", keyOwner != c.Signer), fmt.Sprintf("signer-name-spelled-otherwise=%v", signerText != c.SignerAs)}
	if hasRaw8(keyOwner) {
		classes = append(classes, "key-owner-with-raw-8bit-octets")
	}
	classes = append(classes, nameClasses(c.Msg)...)
	defer func() {
		key := append([]byte(fmt.Sprintf("%d|%s|%d|%d|", c.Alg, c.SignerAs, c.IncOff, c.ExpOff)), packed...)
		pbt.Note(key, nontrivial, classes...)
	}()

	// the signer handed to SIG.Sign: deterministic; for ECDSA optionally with a chosen nonce so that r
	// (nonce whose point has a short X) and/or s (message ID searched for a suitable digest) has two
	// leading zero octets - valid signatures that a random signer produces about once in 32768 times
	var signer crypto.Signer = ref.DetSigner{Key: priv}
	if ek, ok := priv.(*ecdsa.PrivateKey); ok && !c.RefSign && (c.ShortR > 0 || c.ShortS) {
		nonce := ref.ShortXNonce(c.Alg, c.ShortR-1)
		if c.ShortR == 0 {
			nonce = nil
			if nk, e := ref.ECDSAKeyFromSeed(c.Alg, append([]byte("nonce"), c.KeySeed...)); e == nil {
				nonce = nk.D
			}
		}
		if nonce != nil {
			if plan, e := ref.NewNoncePlan(ek, nonce); e == nil {
				signer = ref.NonceSigner{Key: ek, K: nonce}
				if c.ShortR > 0 {
					classes = append(classes, "ecdsa-r-with-2-leading-zero-octets")
				}
				if c.ShortS && len(packed) <= 600 {
					rd := (&ref.Sig{Algorithm: c.Alg, Expiration: expir, Inception: incep, KeyTag: tag, Signer: signerAsL}).RdataNoSig()
					buf := append(append([]byte(nil), rd...), packed...)
					hf := crypto.SHA256
					if c.Alg == ref.AlgECDSAP384 {
						hf = crypto.SHA384
					}
					found := false
					for id := 0; id < 65536 && !found; id++ {
						buf[len(rd)], buf[len(rd)+1] = byte(id>>8), byte(id)
						h := hf.New()
						h.Write(buf)
						if plan.LeadingZeroOctets(plan.S(h.Sum(nil))) >= 2 {
							found = true
							c.Msg.ID = uint16(id)
							packed[0], packed[1] = byte(id>>8), byte(id)
						}
					}
					classes = append(classes, fmt.Sprintf("ecdsa-s-with-2-leading-zero-octets-found=%v", found))
				}
			}
		}
	}

	// (1) signing
	var out []byte
	if c.RefSign {
		s := ref.Sig{Algorithm: c.Alg, Expiration: expir, Inception: incep, KeyTag: tag, Signer: signerAsL}
		if c.Foreign {
			// round 10: the record as another implementation may write it
			var fcl []string
			if out, fcl, err = foreignSig0(packed, s, priv, c); err != nil || len(out) > 65535 {
				return nil
			}
			classes = append(classes, fcl...)
		} else if out, err = ref.Sig0Sign(packed, s, priv, nil); err != nil {
			return nil
		}
	} else {
		sig := &dns.SIG{}
		if c.Preset {
			// a template the caller (or an earlier use) left things in: Sign is documented to need only
			// signer name, key tag, algorithm and the two times; the pinned library overwrites the header
			// with owner ".", class ANY, TTL 0 (RFC 2931 2.3 / 3) and clears the derived RDATA fields
			sig.Hdr = dns.RR_Header{Name: c.PreOwner, Rrtype: c.PreType, Class: c.PreClass, Ttl: c.PreTTL, Rdlength: c.PreRdlen}
			sig.TypeCovered, sig.Labels, sig.OrigTtl = c.PreType, uint8(c.PreRdlen), c.PreTTL
			sig.Signature = base64.StdEncoding.EncodeToString([]byte(c.PreOwner))
			classes = append(classes, "preset-sig-template")
		}
		sig.KeyTag, sig.SignerName, sig.Algorithm = tag, signerText, c.Alg
		sig.Inception, sig.Expiration = incep, expir
		m := c.Msg.Build()
		var serr error
		out, serr = sig.Sign(ref.RandCheckedSigner{Inner: signer}, m) // the signer insists on a usable entropy source, like a token shim would
		if serr != nil {
			return pbt.Errf("SIG.Sign failed: %v (alg %d, key tag %d, signer name written %q, Compress=%v, packed message %d octets, %d additional records)", serr, c.Alg, tag, signerText, c.Msg.Compress, len(packed), len(c.Msg.Extra))
		}
		// the signed octets are the packed message followed by exactly one SIG record, ARCOUNT + 1
		stripped, last, mp, werr := ref.StripLast(out)
		if werr != nil {
			return pbt.Errf("signed message does not parse: %v", werr)
		}
		if !bytes.Equal(stripped, packed) {
			return pbt.Errf("signed message minus its last additional record differs from Pack() of the message (first difference at octet %d; lengths %d / %d)", firstDiff(stripped, packed), len(stripped), len(packed))
		}
		if int(ref.ARCount(out)) != int(ref.ARCount(packed))+1 || mp.AR != len(c.Msg.Extra)+1 {
			return pbt.Errf("ARCOUNT of the signed message is %d, message has %d additional records", ref.ARCount(out), len(c.Msg.Extra))
		}
		if last.End != len(out) || last.Type != ref.TypeSIG || len(last.Owner) != 0 || last.Class != ref.ClassANY || last.TTL != 0 {
			return pbt.Errf("appended record: type %d class %d ttl %d owner %v ends at %d of %d octets; want one root-owned SIG record of class ANY and TTL 0 at the very end (RFC 2931 3; template header was preset: %v, owner %q)",
				last.Type, last.Class, last.TTL, last.Owner, last.End, len(out), c.Preset, c.PreOwner)
		}
		ps, _, serr2 := ref.ParseSig(out, last)
		if serr2 != nil {
			return pbt.Errf("appended SIG record does not parse: %v", serr2)
		}
		if ps.TypeCovered != 0 || ps.Algorithm != c.Alg || ps.Inception != incep || ps.Expiration != expir || ps.KeyTag != tag || !ps.Signer.EqualFold(signerAsL) {
			return pbt.Errf("SIG RDATA %+v does not carry the requested algorithm/times/key tag/signer", ps)
		}
	}
	if !c.RefSign {
		// a signer that fails: Sign must say so - whatever Sign reports as signed has to verify
		snap := append([]byte(nil), out...)
		fs := &dns.SIG{}
		fs.KeyTag, fs.SignerName, fs.Algorithm = tag, signerText, c.Alg
		fs.Inception, fs.Expiration = incep, expir
		if fout, ferr := fs.Sign(ref.FailingSigner{Pub: pub}, c.Msg.Build()); ferr == nil {
			if v := ref.Sig0Verify(fout, signerL, c.Alg, pub, now); !v.OK && inWindow {
				return pbt.Errf("SIG.Sign reported success although the crypto.Signer returned an error; its output (%d octets) does not verify: %s", len(fout), v.Why)
			}
		}
		// round 9: what Sign returned is the signed message - it stays that when Sign is called again
		// (with another SIG value, another Msg value): the sub-check sign-sequence has the general class
		if !bytes.Equal(out, snap) {
			return pbt.Errf("the octets SIG.Sign returned for the message (%d octets) changed when Sign was called once more, with another SIG value and another Msg value (first difference at octet %d): an earlier result is no longer the packed message followed by its SIG record", len(out), firstDiff(out, snap))
		}
	}
	// decode with the library, as a receiver would
	rm := new(dns.Msg)
	if uerr := rm.Unpack(out); uerr != nil {
		return pbt.Errf("the signed message does not unpack: %v", uerr)
	}
	if len(rm.Extra) == 0 {
		return pbt.Errf("the signed message has no additional record after unpacking")
	}
	rsig, ok := rm.Extra[len(rm.Extra)-1].(*dns.SIG)
	if !ok {
		return pbt.Errf("last additional record of the signed message is %T, want *dns.SIG", rm.Extra[len(rm.Extra)-1])
	}
	// reference verdict on the untampered message
	rv := ref.Sig0Verify(out, signerL, c.Alg, pub, now)
	if rv.OK != inWindow {
		if c.RefSign {
			return nil // the reference disagrees with itself: never expected; do not blame the library
		}
		return pbt.Errf("reference verification of the signed message: ok=%v (%s), want %v", rv.OK, rv.Why, inWindow)
	}
	if inWindow && c.ExpOff == 0 {
		// valid during this very second only: asserted when the clock has not ticked since the case began
		verr := rsig.Verify(k, out)
		if time.Now().Unix() == now64 && verr != nil {
			return pbt.Errf("SIG.Verify at now == expiration failed: %v (RFC 2931 / 4034: valid through the expiration second)", verr)
		}
		return nil
	}
	verr := rsig.Verify(k, out)
	if inWindow && verr != nil {
		return pbt.Errf("SIG.Verify of the signed message failed: %v (alg %d, key tag %d, signer %q, KEY owner written %q, %d octets, question names %q, %d additional records before the SIG, compressed=%v, reference-signed=%v%s)", verr, c.Alg, tag, c.SignerAs, keyOwner, len(out), questionNames(c.Msg), len(c.Msg.Extra), c.Msg.Compress, c.RefSign, foreignDesc(c, out))
	}
	if !inWindow && verr == nil {
		return pbt.Errf("SIG.Verify accepted a signature whose window [now%+d, now%+d] does not contain now", c.IncOff, c.ExpOff)
	}
	if !inWindow {
		return nil // everything below alters a message that verifies
	}

	// several goroutines verify the same octets at once (one message checked against several candidate
	// KEYs): every call gives the answer it gives alone, and the caller's buffer is left as it was
	if c.Concurrent && len(out) <= 4096 {
		snapshot := append([]byte(nil), out...)
		wrongPriv, _ := privFor(sigCase{Alg: c.Alg, KeySlot: c.KeySlot + 1, KeySeed: append([]byte{0x33}, c.KeySeed...)})
		wrongKey, _ := keyRR(c.Signer, c.Alg, ref.PublicOf(wrongPriv))
		iters := 24
		if c.Alg == ref.AlgECDSAP384 || len(keyOct) > 300 {
			iters = 6
		}
		var wg sync.WaitGroup
		var bad atomic.Int64
		var firstBad atomic.Value
		for g := 0; g < 4; g++ {
			wg.Add(1)
			go func(g int) {
				defer wg.Done()
				defer func() {
					if r := recover(); r != nil {
						bad.Add(1)
						firstBad.CompareAndSwap(nil, fmt.Sprintf("panic: %v", r))
					}
				}()
				for i := 0; i < iters; i++ {
					if (g+i)%3 == 0 {
						if rsig.Verify(wrongKey, out) == nil {
							bad.Add(1)
							firstBad.CompareAndSwap(nil, "accepted with another key")
						}
					} else if e := rsig.Verify(k, out); e != nil {
						bad.Add(1)
						firstBad.CompareAndSwap(nil, "right key: "+e.Error())
					}
				}
			}(g)
		}
		wg.Wait()
		if bad.Load() > 0 {
			return pbt.Errf("%d of %d concurrent SIG.Verify calls on one shared buffer gave a wrong answer (first: %v)", bad.Load(), 4*iters, firstBad.Load())
		}
		if !bytes.Equal(out, snapshot) {
			return pbt.Errf("SIG.Verify changed the caller's buffer (first difference at octet %d)", firstDiff(out, snapshot))
		}
		classes = append(classes, "concurrent-verify")
	}

	// the message lies in memory that cannot be written (a mapped file, a page shared with another
	// reader): Verify is handed octets to read. A Verify that patches the caller's buffer, even if it
	// puts the octets back, faults here - on every run, whatever the scheduling (the concurrent calls
	// above need real overlap to show it)
	if ro, free, e := readOnlyCopy(out); e == nil {
		verr := func() (err error) {
			defer free()
			defer debug.SetPanicOnFault(debug.SetPanicOnFault(true))
			defer func() {
				if r := recover(); r != nil {
					err = pbt.Errf("SIG.Verify faulted on a message held in read-only memory (it writes into the caller's buffer): %v", r)
				}
			}()
			if e := rsig.Verify(k, ro); e != nil {
				return pbt.Errf("SIG.Verify of the signed message held in read-only memory failed: %v", e)
			}
			return nil
		}()
		if verr != nil {
			return verr
		}
		classes = append(classes, "verify-from-read-only-memory")
	} else {
		classes = append(classes, "read-only-memory-unavailable")
	}

	// (2) only-if
	// other key, same owner and algorithm
	otherSeed := append([]byte{0x55}, c.KeySeed...)
	oc := c
	oc.KeySeed, oc.KeySlot = otherSeed, c.KeySlot+1
	if opriv, e := privFor(oc); e == nil {
		ok2, _ := keyRR(c.Signer, c.Alg, ref.PublicOf(opriv))
		if rsig.Verify(ok2, out) == nil {
			return pbt.Errf("SIG.Verify accepted the message with a different key of the same owner")
		}
	}
	// the right key with octets missing or added (the fixed-size decoders must look at the length)
	for _, alt := range []struct {
		name string
		oct  []byte
	}{{"without its last octet", keyOct[:len(keyOct)-1]}, {"with one more octet", append(append([]byte(nil), keyOct...), 1)}, {"doubled", append(append([]byte(nil), keyOct...), keyOct...)}, {"empty", nil}} {
		ak, _ := keyRR(c.Signer, c.Alg, pub)
		ak.PublicKey = base64.StdEncoding.EncodeToString(alt.oct)
		if rsig.Verify(ak, out) == nil {
			return pbt.Errf("SIG.Verify accepted the message with the KEY's public key %s (%d instead of %d octets)", alt.name, len(alt.oct), len(keyOct))
		}
	}
	// right key under another owner name
	otherOwner := "other." + c.Signer
	if c.Signer == "." {
		otherOwner = "other."
	}
	if l, e := labelsOf(otherOwner); e == nil && wm.Name(l).Valid() {
		ok3, _ := keyRR(otherOwner, c.Alg, pub)
		if rsig.Verify(ok3, out) == nil {
			return pbt.Errf("SIG.Verify accepted the message with a KEY owned by %q, signer is %q", otherOwner, c.SignerAs)
		}
	}
	// round 7: the right key material published under a name that is nearly the signer's (one octet
	// changed, a letter replaced by a character that Unicode - not DNS - folds onto it, a label
	// boundary moved, an octet added): the names differ on the wire in more than ASCII case
	for _, alt := range c.OwnerAlts {
		al, ok := spelledLabels(alt)
		if !ok || !wm.Name(al).Valid() {
			continue
		}
		if al.EqualFold(signerL) {
			pbt.Class("near-owner-is-the-signer-after-all(skipped)")
			continue
		}
		ak, _ := keyRR(string(alt), c.Alg, pub)
		ak.Flags = k.Flags
		if rsig.Verify(ak, out) == nil {
			return pbt.Errf("SIG.Verify accepted the message with a KEY owned by %q (labels %q), signer is %q: the names differ on the wire in more than ASCII case", alt, [][]byte(al), c.SignerAs)
		}
		pbt.Class("near-owner-refused")
		if bytes.Contains(alt, []byte("\u212a")) || bytes.Contains(alt, []byte("\u017f")) {
			pbt.Class("near-owner-unicode-fold-of-k-or-s")
		}
	}
	// a key of another algorithm (and other key material)
	for _, a := range sigAlgs {
		if a == c.Alg {
			continue
		}
		xc := c
		xc.Alg, xc.KeySlot, xc.KeySeed = a, c.KeySlot+1, otherSeed
		if xp, e := privFor(xc); e == nil {
			xk, _ := keyRR(c.Signer, a, ref.PublicOf(xp))
			if rsig.Verify(xk, out) == nil {
				return pbt.Errf("SIG.Verify accepted an algorithm-%d signature with a KEY of algorithm %d", c.Alg, a)
			}
		}
	}
	// the same RSA public key octets published under another RSA algorithm number: a KEY record for
	// algorithm 8 is not a key for algorithm 5 (RFC 4034 2.1.3; RRSIG.Verify insists on equality)
	if c.AlgMismatch && pubIsRSA(c.Alg) {
		for _, a := range rsaAlgs {
			if a == c.Alg {
				continue
			}
			xk, _ := keyRR(c.Signer, a, pub)
			if rsig.Verify(xk, out) == nil {
				return pbt.Errf("SIG.Verify accepted an algorithm-%d signature with a KEY record of algorithm %d carrying the same RSA public key", c.Alg, a)
			}
		}
		classes = append(classes, "key-algorithm-mismatch-tried")
	}

	if c.Light {
		classes = append(classes, "light(no enumerated alterations)")
		return nil
	}
	_, last, _, _ := ref.StripLast(out)
	// bit flips
	var bits []int
	// P-384 has no assembly in crypto/elliptic: one verification costs as much as twenty of the others,
	// and a seventh of the cases spent two thirds of the quick tier's time on it. In the quick tier its
	// cases are enumerated like long messages (every bit of the header and of the SIG record up to
	// the signature field, sampled bits of the body and of the signature); thorough: as all others
	slowAlg := c.Alg == ref.AlgECDSAP384 && !pbt.Thorough()
	full := len(out) <= fullLimit() && !slowAlg
	if full {
		for b := 0; b < len(out)*8; b++ {
			bits = append(bits, b)
		}
		classes = append(classes, "flips=exhaustive")
	} else {
		seen := map[int]bool{}
		addBit := func(b int) {
			if !seen[b] {
				seen[b] = true
				bits = append(bits, b)
			}
		}
		for b := 0; b < 12*8; b++ {
			addBit(b)
		}
		sigBits := len(out) * 8
		if len(out) > 16384 || len(out)-last.RData > 400 || slowAlg {
			// very long messages (every flip costs a hash over all of it) and very long signatures
			// (RSA keys of 3072 / 4096 bits): every bit of the SIG record up to the signature field,
			// and sampled bits of the signature itself
			if _, so, e := ref.ParseSig(out, last); e == nil {
				sigBits = so * 8
				for i, s := range c.Sample {
					if s < 0 {
						s = -s
					}
					addBit(so*8 + (s+i*131)%((len(out)-so)*8))
				}
			}
		}
		for b := last.Start * 8; b < sigBits; b++ {
			addBit(b)
		}
		for _, s := range c.Sample {
			if s < 0 {
				s = -s
			}
			addBit(s % (last.Start * 8))
		}
		sort.Ints(bits)
		classes = append(classes, "flips=header+sig+sampled")
	}
	redecode := len(out) <= 4096
	acc := parallelEach(len(bits), func(i int) bool {
		x := append([]byte(nil), out...)
		x[bits[i]/8] ^= 1 << (bits[i] % 8)
		return libAccepts(rsig, k, x, redecode)
	})
	nSigned, nHdr, nHdrAcc := 0, 0, 0
	for i, a := range acc {
		o := bits[i] / 8
		inSigHeader := o >= last.Start && o < last.RData // owner, TYPE, CLASS, TTL, RDLENGTH of the SIG record itself
		if inSigHeader {
			// neither "the message" nor "the SIG RDATA": RFC 2931 does not cover these octets
			nHdr++
			if a {
				nHdrAcc++
			}
			continue
		}
		nSigned++
		if !a {
			continue
		}
		x := append([]byte(nil), out...)
		x[o] ^= 1 << (bits[i] % 8)
		if v := ref.Sig0Verify(x, signerL, c.Alg, pub, now); !v.OK {
			return pbt.Errf("SIG.Verify accepted the signed message with bit %d of octet %d flipped (octet %d of %d; SIG record starts at %d, its RDATA at %d); reference: %s", bits[i]%8, o, o, len(out), last.Start, last.RData, v.Why)
		}
		pbt.Class("flip-accepted-by-both")
	}
	for i := 0; i < nSigned; i++ {
		pbt.Class("flip-in-signed-octets")
	}
	for i := 0; i < nHdr; i++ {
		pbt.Class("flip-in-sig-rr-header(not asserted)")
	}
	for i := 0; i < nHdrAcc; i++ {
		pbt.Class("flip-in-sig-rr-header-accepted")
	}

	// structural changes of the signature field
	type variant struct {
		name string
		sig  []byte
	}
	s0, sigOff, _ := ref.ParseSig(out, last)
	var variants []variant
	variants = append(variants, variant{"signature shortened by one octet", s0.Signature[:len(s0.Signature)-1]},
		variant{"signature extended by a zero octet", append(append([]byte(nil), s0.Signature...), 0)},
		variant{"empty signature", nil})
	if c.Pad && (c.Alg == ref.AlgECDSAP256 || c.Alg == ref.AlgECDSAP384) {
		h := len(s0.Signature) / 2
		p := append([]byte{0}, s0.Signature[:h]...)
		p = append(append(p, 0), s0.Signature[h:]...)
		variants = append(variants, variant{"ECDSA signature with a zero octet in front of r and of s", p})
	}
	const negS = "ECDSA signature (r, s) replaced by (r, n-s)"
	if c.Alg == ref.AlgECDSAP256 || c.Alg == ref.AlgECDSAP384 {
		// round 10 (remark of a breaker): (r, n-s) is another valid signature of the same data under the same key.
		// RFC 6605 has no low-s rule, so no verifier may refuse it (it would refuse other signers' messages); the
		// alteration is not one the statement can mean - judged by consensus like every other one, and recorded
		curve := elliptic.P256()
		if c.Alg == ref.AlgECDSAP384 {
			curve = elliptic.P384()
		}
		if h := len(s0.Signature) / 2; h > 0 && len(s0.Signature)%2 == 0 {
			ns := new(big.Int).Sub(curve.Params().N, new(big.Int).SetBytes(s0.Signature[h:]))
			if ns.Sign() > 0 {
				p := append(append([]byte(nil), s0.Signature[:h]...), ns.FillBytes(make([]byte, h))...)
				variants = append(variants, variant{negS, p})
			}
		}
	}
	for _, v := range variants {
		x := append(append([]byte(nil), out[:sigOff]...), v.sig...)
		binary.BigEndian.PutUint16(x[last.Fixed+8:], uint16(sigOff-last.RData+len(v.sig)))
		if libAccepts(rsig, k, x, true) {
			if ok, why := refAccepts(x, signerL, c.Alg, pub, now); !ok {
				return pbt.Errf("SIG.Verify accepted the message with its %s (%d octets instead of %d); reference: %s", v.name, len(v.sig), len(s0.Signature), why)
			}
			if v.name == negS {
				pbt.Class("ecdsa-(r,n-s)-accepted-by-library-and-reference(another valid signature; not asserted)")
			}
		} else if v.name == negS {
			pbt.Class("ecdsa-(r,n-s)-refused")
		}
		pbt.Class("structural-signature-variant")
	}

	// the RDLENGTH of the SIG record swept over small values, values around the fixed fields and
	// the signer name, around the true value, the extremes and a few drawn ones: never a panic;
	// RDLENGTH is not among the signed octets, so acceptance is judged by reference consensus
	trueLen := len(out) - last.RData
	lens := map[int]bool{}
	for v, band := 0, 18+len(signerAsL.Wire()); v <= band+4; v++ {
		if slowAlg && v > 22 && v < band-2 && v%5 != 0 {
			continue // every accepted value costs a whole verification: P-384 in the quick tier takes every fifth inside the band
		}
		lens[v] = true
	}
	for _, v := range []int{trueLen - 2, trueLen - 1, trueLen + 1, trueLen + 2, trueLen / 2, 255, 256, 32767, 32768, 65535} {
		lens[v] = true
	}
	for _, v := range c.RdLens {
		lens[v] = true
	}
	var lenList []int
	for v := range lens {
		if v >= 0 && v <= 65535 && v != trueLen {
			lenList = append(lenList, v)
		}
	}
	sort.Ints(lenList)
	lacc := parallelEach(len(lenList), func(i int) bool {
		x := append([]byte(nil), out...)
		binary.BigEndian.PutUint16(x[last.Fixed+8:], uint16(lenList[i]))
		return libAccepts(rsig, k, x, len(x) <= 512)
	})
	for _, a := range lacc {
		if a {
			// nothing that is signed changed: the consensus verdict (reference with TYPE / RDLENGTH of
			// the final record normalised) is the one of the untampered message, i.e. valid
			pbt.Class("rdlength-value-accepted(not asserted)")
		}
		pbt.Class("rdlength-value")
	}

	// (3) robustness: truncations and generated mutations never panic and are never accepted
	var cuts []int
	if full || len(out) <= 2000 {
		for cut := 12; cut < len(out); cut++ {
			cuts = append(cuts, cut)
		}
	} else {
		for cut := 12; cut < len(out); cut++ {
			stride := 89
			if len(out) > 16384 {
				stride = 331
			}
			if cut < 64 || cut >= last.Start-32 || cut%stride == 0 {
				cuts = append(cuts, cut)
			}
		}
	}
	tacc := parallelEach(len(cuts), func(i int) bool {
		return libAccepts(rsig, k, out[:cuts[i]:cuts[i]], cuts[i] <= 4096)
	})
	for i, a := range tacc {
		if a {
			if ok, why := refAccepts(out[:cuts[i]], signerL, c.Alg, pub, now); !ok {
				return pbt.Errf("SIG.Verify accepted the signed message truncated to %d of %d octets; reference: %s", cuts[i], len(out), why)
			}
		}
	}
	for range cuts {
		pbt.Class("truncation")
	}
	x := append([]byte(nil), out...)
	for _, mu := range c.Muts {
		x = applyMut(x, mu)
		if len(x) < 12 {
			break
		}
		if libAccepts(rsig, k, x, len(x) <= 4096) {
			if ok, why := refAccepts(x, signerL, c.Alg, pub, now); !ok {
				return pbt.Errf("SIG.Verify accepted a mutated message (%d mutations, %d octets); reference: %s", len(c.Muts), len(x), why)
			}
			pbt.Class("mutation-accepted-by-both")
		}
		pbt.Class("mutation-" + mu.Op)
	}
	return nil
}

// refAccepts is the consensus verdict for an altered buffer: the reference verifier, asked a
// second time with TYPE and RDLENGTH of the final record rewritten to what a SIG(0) record must
// carry. The library never looks at TYPE/CLASS/TTL/RDLENGTH of the final record and takes
// everything after the signer name as the signature; those octets are neither "the message" nor
// "the SIG RDATA" of the property (RFC 2931 does not sign them), so an alteration that is
// confined to them is not asserted to fail.
func refAccepts(buf []byte, signer ref.Labels, alg uint8, pub crypto.PublicKey, now uint32) (bool, string) {
	v := ref.Sig0Verify(buf, signer, alg, pub, now)
	if v.OK {
		return true, ""
	}
	fixed, err := walkLenient(buf)
	if err != nil {
		return false, v.Why
	}
	x := append([]byte(nil), buf...)
	rd := len(x) - (fixed + 10)
	if rd < 0 || rd > 65535 {
		return false, v.Why
	}
	x[fixed], x[fixed+1] = 0, ref.TypeSIG
	x[fixed+8], x[fixed+9] = byte(rd>>8), byte(rd)
	if ref.Sig0Verify(x, signer, alg, pub, now).OK {
		return true, ""
	}
	return false, v.Why
}

func applyMut(x []byte, m Mut) []byte {
	if len(x) == 0 {
		return x
	}
	p := m.Pos
	if p < 0 {
		p = -p
	}
	p %= len(x)
	switch m.Op {
	case "set":
		for i, v := range m.Val {
			if p+i < len(x) {
				x[p+i] = v
			}
		}
	case "ins":
		x = append(x[:p:p], append(append([]byte(nil), m.Val...), x[p:]...)...)
	case "del":
		n := min(len(m.Val)+1, len(x)-p)
		x = append(x[:p:p], x[p+n:]...)
	case "count": // overwrite one of the four section counts
		if len(m.Val) >= 2 {
			off := 4 + 2*(p%4)
			x[off], x[off+1] = m.Val[0], m.Val[1]
		}
	case "ptr": // plant a compression pointer
		if p+1 < len(x) && len(m.Val) >= 2 {
			x[p], x[p+1] = 0xC0|m.Val[0]&0x3f, m.Val[1]
		}
	}
	return x
}

// asciiEqualFold: equal as octet strings up to the case of ASCII letters.
func asciiEqualFold(a, b string) bool {
	return string(wm.LowerBytes([]byte(a))) == string(wm.LowerBytes([]byte(b)))
}

// readOnlyCopy returns a copy of b in freshly mapped pages that are then write-protected.
func readOnlyCopy(b []byte) (ro []byte, free func(), err error) {
	ps := syscall.Getpagesize()
	n := (len(b) + ps - 1) / ps * ps
	mem, err := syscall.Mmap(-1, 0, n, syscall.PROT_READ|syscall.PROT_WRITE, syscall.MAP_ANON|syscall.MAP_PRIVATE)
	if err != nil {
		return nil, nil, err
	}
	copy(mem, b)
	if err := syscall.Mprotect(mem, syscall.PROT_READ); err != nil {
		syscall.Munmap(mem)
		return nil, nil, err
	}
	return mem[:len(b):len(b)], func() { syscall.Munmap(mem) }, nil
}

func hasRaw8(s string) bool {
	for i := 0; i < len(s); i++ {
		if s[i] >= 0x80 {
			return true
		}
	}
	return false
}

func pubIsRSA(alg uint8) bool {
	return alg == ref.AlgRSASHA1 || alg == ref.AlgRSASHA1NSEC3 || alg == ref.AlgRSASHA256 || alg == ref.AlgRSASHA512
}

func sigLen(alg uint8, priv crypto.PrivateKey) int {
	switch alg {
	case ref.AlgECDSAP256, ref.AlgEd25519:
		return 64
	case ref.AlgECDSAP384:
		return 96
	}
	if p, ok := priv.(*rsa.PrivateKey); ok {
		return p.Size()
	}
	return 128
}

func abs(x int64) int64 {
	if x < 0 {
		return -x
	}
	return x
}

func firstDiff(a, b []byte) int {
	for i := 0; i < len(a) && i < len(b); i++ {
		if a[i] != b[i] {
			return i
		}
	}
	return min(len(a), len(b))
}

func sizeClass(n int) string {
	switch {
	case n <= 64:
		return "size<=64"
	case n <= 512:
		return "size=65-512"
	case n <= 4096:
		return "size=513-4096"
	case n <= 16384:
		return "size=4097-16384"
	default:
		return "size>16384"
	}
}

// hugeClass: does the message only fit into 64 KiB thanks to compression?
func hugeClass(s msgspec.Spec, packed int) string {
	if !s.Compress || packed < 16384 {
		return "fits-only-compressed=false"
	}
	u := s
	u.Compress = false
	if b, err := u.Build().Pack(); err == nil && len(b) <= 65535 {
		return "fits-only-compressed=false"
	}
	return "fits-only-compressed=true"
}

func extraClass(n int) string {
	switch {
	case n == 0:
		return "extra=0"
	case n < 250:
		return "extra=1-249"
	case n < 255:
		return "extra=250-254"
	case n%256 == 255:
		return "extra=255 mod 256"
	default:
		return "extra>=256"
	}
}

// ---------------------------------------------------------------------------------------------

func genWindow(t *rapid.T) (int64, int64) {
	far := func(tag string) int64 {
		return rapid.OneOf(rapid.Int64Range(120, 600), rapid.Int64Range(120, 86400*365)).Draw(t, tag)
	}
	switch rapid.IntRange(0, 13).Draw(t, "wk") {
	case 12: // inverted: the expiration lies before the inception, both on the same side of now
		a, b := far("i"), far("e")
		if a == b {
			b++
		}
		lo, hi := min(a, b), max(a, b)
		if rapid.Bool().Draw(t, "invpast") {
			return -lo, -hi // inception now-lo, expiration now-hi: both past, expiration first
		}
		return hi, lo // both future, expiration first
	case 13: // inverted and straddling now: inception in the future, expiration in the past
		return far("i"), -far("e")
	case 10: // inception is the current second
		return 0, far("e")
	case 11: // expiration is the current second
		return -far("i"), 0
	case 0: // wholly past
		e := far("e")
		return -(e + far("len")), -e
	case 1: // wholly future
		i := far("i")
		return i, i + far("len")
	default:
		return -far("i"), far("e")
	}
}

// sizeToLimit adds an opaque record sized so that packed message + SIG record come to exactly
// target octets (65534 / 65535: the longest DNS messages; 65536 / 65537: just too long, Sign must
// refuse).
func sizeToLimit(t *rapid.T, c *sigCase, target int) {
	// the signed message exactly as long as a DNS message can be (or one octet less): an opaque
	// record is sized so that packed message + SIG record come to 65535 / 65534 octets
	c.RefSign, c.Msg.Compress = false, false
	if c.IncOff > 0 || c.ExpOff < 0 {
		c.IncOff, c.ExpOff = -3600, 3600
	}
	if len(c.Msg.Extra) > 200 {
		c.Msg.Extra = c.Msg.Extra[:3]
	}
	c.Msg.Answer = append(c.Msg.Answer, msgspec.Rec{Kind: "UNK", Owner: 0, Class: 1, TTL: 5, Num: 3})
	if priv, e1 := privFor(*c); e1 == nil {
		if sl, e2 := labelsOf(c.SignerAs); e2 == nil {
			if p0, e3 := c.Msg.Build().Pack(); e3 == nil {
				if need := target - (1 + 10 + 18 + len(sl.Wire()) + sigLen(c.Alg, priv)) - len(p0); need >= 0 && need <= 65500 {
					d := make([]byte, need)
					for i := range d {
						d[i] = byte(i * 7)
					}
					c.Msg.Answer[len(c.Msg.Answer)-1].Data = d
				}
			}
		}
	}
}

// genSig0Light (round 9, sub-check sign-verify): the same generator, the oracle stops before the
// enumerated alterations - "whatever the message's content, size or compression setting" is a
// statement about many messages, and a case without its thousands of flips costs a hundredth. This is
// also the sub-check the coverage-guided layer (FuzzGen) works on.
func genSig0Light(t *rapid.T) sigCase {
	c := genSig0(t)
	c.Light, c.Concurrent, c.ShortS = true, false, false
	if c.KeySlot >= ref.RSAEdgeBase {
		c.KeySlot = (c.KeySlot - ref.RSAEdgeBase) % ref.RSAPoolSize() // 4096-bit keys sign slowly
	}
	return c
}

// genSig0AtLimit draws only cases whose signed length is at the 65535-octet limit or just beyond.
func genSig0AtLimit(t *rapid.T) sigCase {
	c := genSig0(t)
	c.Msg.Answer, c.Msg.Ns = nil, nil
	if len(c.Msg.Extra) > 3 {
		c.Msg.Extra = c.Msg.Extra[:3]
	}
	sizeToLimit(t, &c, rapid.SampledFrom([]int{65534, 65535, 65536, 65537}).Draw(t, "limit"))
	return c
}

func genSig0(t *rapid.T) sigCase {
	c := sigCase{}
	c.Msg = msgspec.Gen(t, msgspec.Opts{ManyExtra: true, Big: true, Huge: true, ShrinkSmall: true})
	if rapid.IntRange(0, 2).Draw(t, "plantstruct") == 0 {
		plantInName(t, &c.Msg)
	}
	c.Alg = rapid.SampledFrom(sigAlgs).Draw(t, "alg")
	if c.Alg == ref.AlgECDSAP384 && !pbt.Thorough() && rapid.Bool().Draw(t, "p384again") {
		// quick tier: half of the P-384 cases are drawn again (a P-384 case costs five average ones)
		c.Alg = rapid.SampledFrom(sigAlgs).Draw(t, "alg2")
	}
	c.KeySlot = rapid.IntRange(0, ref.RSAPoolSize()-1).Draw(t, "slot")
	c.KeySeed = rapid.SliceOfN(rapid.Byte(), 1, 40).Draw(t, "seed")
	sno := gen.NameOpts{MaxLabs: 4, MaxLabel: 10, Plain: rapid.IntRange(0, 3).Draw(t, "plainsigner") > 0}
	if rapid.IntRange(0, 4).Draw(t, "longsigner") == 0 {
		sno.MaxLabs, sno.MaxLabel, sno.Long = 8, 63, rapid.Bool().Draw(t, "verylong")
	}
	sn := gen.Name(t, sno).Clone()
	if len(sn) > 0 && rapid.IntRange(0, 2).Draw(t, "plantks") == 0 {
		// a letter that Unicode case folding - not DNS - also reaches from a character outside ASCII:
		// k / K (U+212A KELVIN SIGN) or s / S (U+017F LATIN SMALL LETTER LONG S)
		l := sn[rapid.IntRange(0, len(sn)-1).Draw(t, "plantl")]
		l[rapid.IntRange(0, len(l)-1).Draw(t, "planto")] = rapid.SampledFrom([]byte("kKsS")).Draw(t, "plantc")
	}
	c.Signer = wm.EscName(sn)
	c.SignerAs = c.Signer
	as := sn
	if rapid.IntRange(0, 2).Draw(t, "sc") == 0 {
		as = gen.FlipCase(t, sn)
		c.SignerAs = wm.EscName(as)
	}
	// round 7: names as a program writes them. The KEY handed to Verify and the SIG handed to Sign are Go
	// values whose name fields are presentation text; \107ey, \key and key are one name, and an octet
	// >= 0x80 may stand there raw (UTF-8 / Latin-1 text) - the decoder prints it as \DDD
	if rapid.IntRange(0, 2).Draw(t, "keyspell") == 0 {
		c.KeyOwner = []byte(spellRaw(t, sn))
	}
	if rapid.IntRange(0, 3).Draw(t, "signerspell") == 0 {
		c.SignerSpell = []byte(spellRaw(t, as))
	}
	for i := 0; i < 3; i++ {
		c.OwnerAlts = append(c.OwnerAlts, nearOwner(t, sn))
	}
	c.TagZero = rapid.IntRange(0, 7).Draw(t, "tagzero") == 0
	c.IncOff, c.ExpOff = genWindow(t)
	c.RefSign = rapid.IntRange(0, 3).Draw(t, "refsign") == 0
	c.Pad = rapid.IntRange(0, 1).Draw(t, "pad") == 0
	c.AlgMismatch = rapid.Bool().Draw(t, "algmismatch")
	if c.Alg == ref.AlgECDSAP256 || c.Alg == ref.AlgECDSAP384 {
		if rapid.IntRange(0, 3).Draw(t, "shortr") == 0 {
			c.ShortR = 1 + rapid.IntRange(0, ref.ShortXCount(c.Alg)-1).Draw(t, "shortrn")
		}
		c.ShortS = rapid.IntRange(0, 7).Draw(t, "shorts") == 0
	}
	if pubIsRSA(c.Alg) && rapid.IntRange(0, 7).Draw(t, "edgekey") == 0 {
		// keys at the library's bounds: 512-octet modulus, one- and four-octet exponents
		c.KeySlot = ref.RSAEdgeBase + rapid.IntRange(0, ref.RSAEdgeSize()-1).Draw(t, "edgeslot")
	}
	c.Concurrent = rapid.IntRange(0, 2).Draw(t, "concurrent") == 0
	if rapid.IntRange(0, 2).Draw(t, "preset") == 0 {
		c.Preset = true
		c.PreOwner = wm.EscName(gen.Name(t, gen.NameOpts{MaxLabs: 4, MaxLabel: 12}))
		c.PreType = rapid.SampledFrom([]uint16{0, 1, 24, 46, 250, 65535}).Draw(t, "pretype")
		c.PreClass = rapid.SampledFrom([]uint16{0, 1, 255}).Draw(t, "preclass")
		c.PreTTL = rapid.SampledFrom([]uint32{0, 1, 3600, 1<<32 - 1}).Draw(t, "prettl")
		c.PreRdlen = rapid.Uint16().Draw(t, "prerdlen")
	}
	c.RdLens = rapid.SliceOfN(rapid.IntRange(0, 65535), 0, 3).Draw(t, "rdlens")
	c.Sample = rapid.SliceOfN(rapid.IntRange(0, 1<<22), 48, 48).Draw(t, "sample")
	nm := rapid.IntRange(0, 6).Draw(t, "nmut")
	for i := 0; i < nm; i++ {
		c.Muts = append(c.Muts, Mut{Op: rapid.SampledFrom([]string{"set", "set", "ins", "del", "count", "ptr"}).Draw(t, "op"),
			Pos: rapid.IntRange(0, 1<<20).Draw(t, "mpos"), Val: rapid.SliceOfN(rapid.Byte(), 1, 4).Draw(t, "mval")})
	}
	// round 10: two thirds of the reference-signed cases write the SIG record as another implementation may
	genForeign(t, &c)
	if rapid.IntRange(0, 11).Draw(t, "atmax") == 11 { // not 0: rapid shrinks draws towards 0, and a case of 65535 octets is the most expensive one to shrink on
		sizeToLimit(t, &c, rapid.SampledFrom([]int{65535, 65535, 65534, 65536, 65536, 65537}).Draw(t, "target"))
	}
	excludeKnown(&c)
	return c
}

// structOctets are label contents that mean something in the wire form of a name when they are read
// at the wrong place: the root label / end of name (0), a compression pointer (0xC0 0x0C points at
// the question name), the reserved label types (0x40, 0x80), the longest label (0x3F), 0xFF, 1.
var structOctets = [][]byte{{0}, {0}, {0}, {0}, {0}, {0xC0, 0x0C}, {0xC0, 0x0C}, {0xC0}, {0xFF}, {0x3F}, {0x40}, {0x80}, {1}}

// plantInName (round 9) writes such an octet into a label of one name of the pool - three times out
// of four the name of the first question, the first name of the message and the only one that code
// skipping the sections by hand may be tempted to scan instead of decoding. "Whatever the message's
// content": a label holds any octets, \000 included.
func plantInName(t *rapid.T, s *msgspec.Spec) {
	if len(s.Names) == 0 {
		return
	}
	idx := rapid.IntRange(0, len(s.Names)-1).Draw(t, "plantidx")
	if len(s.Question) > 0 && rapid.IntRange(0, 3).Draw(t, "plantq") > 0 {
		idx = s.NameIndex(s.Question[0].Name)
	}
	n, _, err := wm.UnescName(s.Names[idx])
	if err != nil {
		return
	}
	n = n.Clone()
	v := rapid.SampledFrom(structOctets).Draw(t, "plantv")
	if len(n) == 0 {
		n = wm.Name{append([]byte(nil), v...)}
	} else {
		l := n[rapid.IntRange(0, len(n)-1).Draw(t, "plantl")]
		o := rapid.IntRange(0, len(l)-1).Draw(t, "planto")
		for i, b := range v {
			if o+i < len(l) {
				l[o+i] = b
			}
		}
	}
	if n.Valid() {
		s.Names[idx] = wm.EscName(n)
	}
}

func questionNames(s msgspec.Spec) []string {
	var o []string
	for _, q := range s.Question {
		if i := s.NameIndex(q.Name); i >= 0 {
			o = append(o, s.Names[i])
		} else {
			o = append(o, ".")
		}
	}
	return o
}

// nameClasses: which of those contents the names of the message have (for the evidence histogram).
func nameClasses(s msgspec.Spec) []string {
	has := func(text string, f func(b byte) bool) bool {
		n, _, err := wm.UnescName(text)
		if err != nil {
			return false
		}
		for _, l := range n {
			for _, b := range l {
				if f(b) {
					return true
				}
			}
		}
		return false
	}
	zero := func(b byte) bool { return b == 0 }
	high := func(b byte) bool { return b >= 0xC0 }
	var out []string
	if len(s.Question) > 0 && len(s.Names) > 0 {
		q := s.Names[s.NameIndex(s.Question[0].Name)]
		if has(q, zero) {
			out = append(out, "question-name-with-octet-0-inside-a-label", fmt.Sprintf("question-name-with-octet-0-inside-a-label/questions=%d", len(s.Question)))
		}
		if has(q, high) {
			out = append(out, "question-name-with-octet>=0xC0-inside-a-label")
		}
	}
	for _, nm := range s.Names {
		if has(nm, zero) {
			out = append(out, "message-with-a-name-holding-octet-0")
			break
		}
	}
	return out
}

// spellRaw writes a fully qualified name with generated spelling choices per octet: raw (also for
// octets >= 0x80), \c or \DDD.
func spellRaw(t *rapid.T, n wm.Name) string {
	if len(n) == 0 {
		return "."
	}
	var sb []byte
	for _, l := range n {
		sb = append(sb, gen.SpellLabelRaw(t, l)...)
		sb = append(sb, '.')
	}
	return string(sb)
}

// nearOwner derives from the signer's name the presentation text of a different name that a sloppy
// comparison would take for it.
func nearOwner(t *rapid.T, sn wm.Name) []byte {
	if len(sn) == 0 {
		return []byte("k.")
	}
	n := sn.Clone()
	kind := rapid.IntRange(0, 7).Draw(t, "nearkind")
	if kind <= 2 {
		// a character outside ASCII whose Unicode simple case folding is an ASCII letter, as raw UTF-8
		type pos struct{ l, o int }
		var ps []pos
		for li, l := range n {
			for oi, b := range l {
				if b|0x20 == 'k' || b|0x20 == 's' {
					ps = append(ps, pos{li, oi})
				}
			}
		}
		if len(ps) > 0 {
			p := ps[rapid.IntRange(0, len(ps)-1).Draw(t, "nearpos")]
			var sb []byte
			for li, l := range n {
				if li == p.l {
					sb = append(sb, wm.EscLabel(l[:p.o])...)
					if l[p.o]|0x20 == 'k' {
						sb = append(sb, "\u212a"...)
					} else {
						sb = append(sb, "\u017f"...)
					}
					sb = append(sb, wm.EscLabel(l[p.o+1:])...)
				} else {
					sb = append(sb, wm.EscLabel(l)...)
				}
				sb = append(sb, '.')
			}
			return sb
		}
		kind = 3 + kind
	}
	li := rapid.IntRange(0, len(n)-1).Draw(t, "nearl")
	oi := rapid.IntRange(0, len(n[li])-1).Draw(t, "nearo")
	switch kind {
	case 3: // the same low seven bits
		n[li][oi] ^= 0x80
	case 4: // another octet (never the other case of the same letter: that would differ by 0x20)
		n[li][oi] ^= 0x40
	case 5:
		n[li][oi]++
	case 6: // a label boundary moved into a label: "a\.b.c." (one label holding a dot) for "a.b.c.", or one label cut in two
		if li+1 < len(n) && len(n[li])+1+len(n[li+1]) <= 63 {
			j := append(append(append([]byte(nil), n[li]...), '.'), n[li+1]...)
			n = append(append(n[:li:li], j), n[li+2:]...)
		} else if oi+1 < len(n[li]) {
			n = append(append(n[:li:li], n[li][:oi+1:oi+1], n[li][oi+1:]), n[li+1:]...)
		} else {
			n[li][oi] ^= 0x01
		}
	default: // one octet more at the end of a label
		if len(n[li]) < 63 {
			n[li] = append(n[li], rapid.SampledFrom([]byte{0, ' ', '.', 0xff, 'a'}).Draw(t, "nearadd"))
		} else {
			n[li][oi] ^= 0x01
		}
	}
	return []byte(spellRaw(t, n))
}

// excludeKnown replaces exactly the classes of the confirmed findings while they are live.
func excludeKnown(c *sigCase) {
	if pbt.Known(findAlg7) && c.Alg == ref.AlgRSASHA1NSEC3 {
		// Sign signs with algorithm 7, Verify ends in ErrKeyAlg for it
		pbt.Excluded(findAlg7)
		c.Alg = ref.AlgRSASHA1
	}
	if pbt.Known(findTag0) {
		// SIG.Sign / SIG.Verify take key tag 0 for "not set": keys whose tag is 0, by choice of the flags
		// or by nature, are replaced
		if c.TagZero {
			pbt.Excluded(findTag0)
			c.TagZero = false
		}
		for i := 0; i < 4; i++ {
			if tag, ok := caseKeyTag(*c); !ok || tag != 0 {
				break
			}
			pbt.Excluded(findTag0)
			c.KeySeed = append(append([]byte(nil), c.KeySeed...), byte(i))
			c.KeySlot = (c.KeySlot + 1) % ref.RSAPoolSize()
		}
	}
	if pbt.Known(findSpelling) && len(c.KeyOwner) > 0 && !asciiEqualFold(string(c.KeyOwner), c.Signer) {
		// Verify compares the KEY owner's text with the decoder's spelling of the signer name: every
		// other spelling of the same name is refused
		pbt.Excluded(findSpelling)
		c.KeyOwner = nil
	}
	if pbt.Known(findArcount) && len(c.Msg.Extra) >= 256 {
		// DESIGN §4 #4: Verify rebuilds the original ARCOUNT wrongly once it is >= 256
		pbt.Excluded(findArcount)
		c.Msg.Extra = c.Msg.Extra[:255]
	}
	if pbt.Known(findKeyAlg) && c.AlgMismatch && pubIsRSA(c.Alg) {
		pbt.Excluded(findKeyAlg)
		c.AlgMismatch = false
	}
	if pbt.Known(findPadded) && c.Pad && (c.Alg == ref.AlgECDSAP256 || c.Alg == ref.AlgECDSAP384) {
		pbt.Excluded(findPadded)
		c.Pad = false
	}
	if pbt.Known(findCompress) && c.Msg.Compress && !c.RefSign {
		// DESIGN §4 #3: Sign sizes its buffer from the compressed length; it fails exactly when
		// compression saves at least as many octets as the (still unsigned) SIG record occupies
		cm, e1 := c.Msg.Build().Pack()
		u := c.Msg
		u.Compress = false
		um, e2 := u.Build().Pack()
		sl, e3 := labelsOf(c.SignerAs)
		if e1 == nil && e2 == nil && e3 == nil && len(um)-len(cm) >= 1+10+18+len(sl.Wire()) {
			pbt.Excluded(findCompress)
			c.Msg.Compress = false
		}
	}
}

func init() {
	pbt.Register(pbt.Sub[sigCase]{Name: "sign-verify-tamper", Weight: 1, Gen: genSig0, Check: checkSig0})
	pbt.Register(pbt.Sub[sigCase]{Name: "sizes-at-the-limit", Weight: 0.05, Gen: genSig0AtLimit, Check: checkSig0})
	pbt.Register(pbt.Sub[sigCase]{Name: "sign-verify", Weight: 5, Gen: genSig0Light, Check: checkSig0})

	plain := func(compress bool, extras int) msgspec.Spec {
		s := msgspec.Spec{ID: 0x1234, RD: true, Names: []string{"www.example.org.", "example.org.", "ns.example.org."}, Compress: compress,
			Question: []msgspec.Q{{Name: 0, Type: 1, Class: 1}},
			Answer:   []msgspec.Rec{{Kind: "A", Owner: 0, Class: 1, TTL: 60, Data: []byte{192, 0, 2, 1}}, {Kind: "MX", Owner: 1, Target: 2, Class: 1, TTL: 60, Num: 10}},
			Ns:       []msgspec.Rec{{Kind: "NS", Owner: 1, Target: 2, Class: 1, TTL: 60}}}
		for i := 0; i < extras; i++ {
			s.Extra = append(s.Extra, msgspec.Rec{Kind: "A", Owner: 2, Class: 1, TTL: 60, Data: []byte{10, 0, byte(i >> 8), byte(i)}})
		}
		return s
	}
	base := sigCase{Alg: ref.AlgEd25519, KeySeed: []byte{1}, Signer: "key.example.org.", SignerAs: "key.example.org.", IncOff: -3600, ExpOff: 3600}
	// Under `go test -fuzz` every one of the 16 worker processes runs the probes at start-up, with coverage
	// instrumentation in the crypto packages: with their thousands of enumerated alterations that took the first
	// 20 s of a 30 s budget. There the probes stop where the sub-checks that FuzzGen drives stop (Light).
	for _, a := range os.Args {
		if strings.HasPrefix(a, "-test.fuzz=") || strings.HasPrefix(a, "-test.fuzzworker") {
			base.Light = true
		}
	}
	pbt.Probe(findCompress, func() error {
		c := base
		c.Msg = plain(true, 1)
		return checkSig0(c)
	})
	pbt.Probe(findArcount, func() error {
		c := base
		c.Msg = plain(false, 256)
		return checkSig0(c)
	})
	pbt.Probe(findKeyAlg, func() error {
		c := base
		c.Alg, c.AlgMismatch = ref.AlgRSASHA1, true
		c.Msg = plain(false, 1)
		return checkSig0(c)
	})
	pbt.Probe(findAlg7, func() error {
		c := base
		c.Alg = ref.AlgRSASHA1NSEC3
		c.Msg = plain(false, 1)
		return checkSig0(c)
	})
	pbt.Probe(findTag0, func() error {
		// an Ed25519 key whose KEY record (flags 0x0200, protocol 3, algorithm 15) has key tag 0 by nature:
		// public key zGV1UPadtdEvNowiyQebkFNJB+NVp8/yXqAEUt2GK5s= (the 2365th key of a search)
		c := base
		c.KeySeed = []byte{0x74, 0x30, 0x00, 0x09, 0x3c}
		c.Msg = plain(false, 1)
		if tag, ok := caseKeyTag(c); !ok || tag != 0 {
			return nil
		}
		if err := checkSig0(c); err != nil { // Sign refuses
			return err
		}
		c.RefSign = true // signed by another implementation: Verify refuses
		if err := checkSig0(c); err != nil {
			return err
		}
		c = base // any key, the flags of its KEY record chosen so that the tag is 0
		c.Alg, c.TagZero = ref.AlgRSASHA256, true
		c.Msg = plain(false, 1)
		return checkSig0(c)
	})
	pbt.Probe(findSpelling, func() error {
		for _, v := range []struct{ signer, owner, spell string }{
			{"key.example.", `\107ey.example.`, ""},
			{"key.example.", `\key.example.`, ""},
			{`caf\233.example.`, "caf\xe9.example.", "caf\xe9.example."}, // the one Go string for SIG.SignerName and for the KEY owner
		} {
			c := base
			c.Signer, c.SignerAs, c.KeyOwner, c.SignerSpell = v.signer, v.signer, []byte(v.owner), []byte(v.spell)
			c.Msg = plain(false, 1)
			if err := checkSig0(c); err != nil {
				return err
			}
		}
		return nil
	})
	pbt.Probe(findPadded, func() error {
		c := base
		c.Alg, c.Pad = ref.AlgECDSAP256, true
		c.Msg = plain(false, 1)
		return checkSig0(c)
	})
}
