package c18

import (
	"os"
	"testing"
	"time"

	"github.com/miekg/dns"

	"verif/harness/c18/msgspec"
	ref "verif/harness/refcrypto"
)

type fuzzKey struct {
	alg    uint8
	k      *dns.KEY
	pub    any
	signer ref.Labels
}

// FuzzSig0Verify feeds arbitrary octets (>= header size) to SIG.Verify. Oracle: it returns – no
// panic – and when it returns nil the reference verifier must accept the same octets with the same
// key at the same time. Input layout: octet 0 selects the key/algorithm, the rest is the buffer.
// The seed corpus is built at start-up from freshly signed messages (their validity window has to
// contain the current time) plus a few fixed malformed inputs.
func FuzzSig0Verify(f *testing.F) {
	var keys []fuzzKey
	now := time.Now().Unix()
	for i, alg := range sigAlgs {
		c := sigCase{Alg: alg, KeySlot: i, KeySeed: []byte{byte(i), 7}}
		priv, err := privFor(c)
		if err != nil {
			f.Fatal(err)
		}
		k, _ := keyRR("fuzz.example.", alg, ref.PublicOf(priv))
		keys = append(keys, fuzzKey{alg, k, ref.PublicOf(priv), ref.Labels{[]byte("fuzz"), []byte("example")}})
		spec := msgspec.Spec{ID: uint16(i), RD: true, Names: []string{"www.example.org.", "example.org."}, Compress: i%2 == 1,
			Question: []msgspec.Q{{Name: 0, Type: 1, Class: 1}},
			Answer:   []msgspec.Rec{{Kind: "A", Owner: 0, Class: 1, TTL: 60, Data: []byte{192, 0, 2, 1}}},
			Ns:       []msgspec.Rec{{Kind: "NS", Owner: 1, Target: 0, Class: 1, TTL: 60}}}
		packed, err := spec.Build().Pack()
		if err != nil {
			f.Fatal(err)
		}
		s := ref.Sig{Algorithm: alg, Inception: uint32(now - 86400), Expiration: uint32(now + 86400), KeyTag: 4711, Signer: ref.Labels{[]byte("Fuzz"), []byte("example")}}
		out, err := ref.Sig0Sign(packed, s, priv, nil)
		if err != nil {
			f.Fatal(err)
		}
		f.Add(append([]byte{byte(i)}, out...))
		f.Add(append([]byte{byte(i)}, out[:len(out)-7]...))
	}
	f.Add([]byte{0, 0, 0, 0, 0, 0, 0, 0, 0, 0, 0, 0, 0})
	f.Add([]byte{3, 0, 0, 0, 0, 0xff, 0xff, 0xff, 0xff, 0xff, 0xff, 0xff, 0xff, 0xc0, 0x0c})
	rr := &dns.SIG{}
	rr.KeyTag, rr.SignerName = 4711, "fuzz.example."

	f.Fuzz(func(t *testing.T, in []byte) {
		if len(in) < 13 {
			return
		}
		ks := keys[int(in[0])%len(keys)]
		buf := in[1:]
		r := *rr
		r.Algorithm = ks.alg
		accepted := r.Verify(ks.k, buf) == nil
		if !accepted && len(buf) <= 4096 {
			m := new(dns.Msg)
			if err := m.Unpack(append([]byte(nil), buf...)); err == nil && len(m.Extra) > 0 {
				if s, ok := m.Extra[len(m.Extra)-1].(*dns.SIG); ok {
					accepted = s.Verify(ks.k, buf) == nil
				}
			}
		}
		if accepted {
			// the SIG record's own header octets are not covered by the signature (RFC 2931), so
			// the reference is asked with the record boundaries the library used: last record of
			// the buffer by the section counts
			if ok, why := refAccepts(buf, ks.signer, ks.alg, ks.pub, uint32(time.Now().Unix())); !ok {
				if d := os.Getenv("VERIF_OUT"); d != "" {
					os.WriteFile(d+"/fuzz-accepted.bin", in, 0o644)
				}
				t.Fatalf("SIG.Verify accepted %d octets that the reference rejects: %s", len(buf), why)
			}
		}
	})
}

// walkLenient returns the offset of the fixed part (TYPE) of the last record, trusting RDLENGTH
// of every record but the last.
func walkLenient(buf []byte) (int, error) {
	if len(buf) < 12 {
		return 0, ref.ErrShort
	}
	qd := int(buf[4])<<8 | int(buf[5])
	n := (int(buf[6])<<8 | int(buf[7])) + (int(buf[8])<<8 | int(buf[9])) + (int(buf[10])<<8 | int(buf[11]))
	if n == 0 {
		return 0, ref.ErrShort
	}
	off := 12
	for i := 0; i < qd; i++ {
		_, next, err := ref.ReadName(buf, off)
		if err != nil {
			return 0, err
		}
		off = next + 4
	}
	for i := 0; i < n; i++ {
		_, next, err := ref.ReadName(buf, off)
		if err != nil {
			return 0, err
		}
		if next+10 > len(buf) {
			return 0, ref.ErrShort
		}
		if i == n-1 {
			return next, nil
		}
		off = next + 10 + (int(buf[next+8])<<8 | int(buf[next+9]))
	}
	return 0, ref.ErrShort
}
