package c18

// Round 10: the SIG(0) record as a signer other than this library may write it.
//
// "A message signed with SIG(0) ... verifies against the matching KEY whatever the message's content" is
// said of every RFC 2931 signer, not only of SIG.Sign. RFC 2931 section 3: "For all SIG(0) RRs, the owner
// name, class, TTL, and original TTL, are meaningless. The TTL fields SHOULD be zero and the CLASS field
// SHOULD be ANY. To conserve space, the owner name SHOULD be root" - three SHOULDs about octets that
// are not part of the signed data (3.1: data = RDATA | message - SIG(0)). A signer may therefore put its
// host name there (written out, or - it is a name of the message format - as a compression pointer to an
// occurrence in the message), class IN, a TTL, and the label count of that owner into the labels field
// (RFC 2535 4.1.3); labels and original TTL are part of the RDATA and are signed as transmitted.
// The reference signer of the harness used to write the one form SIG.Sign writes; here it writes the others.

import (
	"crypto"
	"encoding/binary"
	"fmt"

	"pgregory.net/rapid"

	"verif/harness/gen"
	ref "verif/harness/refcrypto"
	wm "verif/harness/wiremodel"
)

// pointerTargets lists offsets (< 0x4000) in a packed message at which a name starts: every question name and
// every record owner, and every later label of those as far as they are written out in place (a suffix of
// a name is a name). roots are the offsets of closing zero octets (the root name).
func pointerTargets(packed []byte) (names, roots []int) {
	m, err := ref.Walk(packed)
	if err != nil {
		return nil, nil
	}
	var starts []int
	for _, q := range m.Questions {
		starts = append(starts, q.Start)
	}
	for _, r := range m.RRs {
		starts = append(starts, r.Start)
	}
	seen := map[int]bool{}
	for _, off := range starts {
		for off < len(packed) && off < 0x4000 && !seen[off] {
			seen[off] = true
			c := int(packed[off])
			if c == 0 {
				roots = append(roots, off)
				break
			}
			if c&0xC0 != 0 {
				// a pointer: pointing at it is pointing at the name it stands for
				names = append(names, off)
				break
			}
			names = append(names, off)
			off += 1 + c
		}
	}
	return names, roots
}

// foreignSig0 signs packed after RFC 2931 3.1 with priv and appends the SIG(0) record with the owner, class,
// TTL, labels and original TTL the case asks for. The classes describe what was written.
func foreignSig0(packed []byte, s ref.Sig, priv crypto.PrivateKey, c sigCase) ([]byte, []string, error) {
	var owner []byte // wire form as written
	ownerLabels := 0
	kind := c.SigOwner
	names, roots := pointerTargets(packed)
	switch kind {
	case "name":
		l, err := labelsOf(c.SigOwnerName)
		if err != nil || !wm.Name(l).Valid() {
			kind, owner = "root", []byte{0}
			break
		}
		owner, ownerLabels = l.Wire(), len(l)
	case "signer":
		owner, ownerLabels = s.Signer.Wire(), len(s.Signer)
	case "ptr-name", "ptr-root":
		cands := names
		if kind == "ptr-root" {
			cands = roots
		}
		if len(cands) == 0 {
			kind, owner = "root", []byte{0}
			break
		}
		p := c.SigOwnerPick
		if p < 0 {
			p = -p
		}
		t := cands[p%len(cands)]
		owner = []byte{0xC0 | byte(t>>8), byte(t)}
		if n, _, err := ref.ReadName(packed, t); err == nil {
			ownerLabels = len(n)
		} else {
			kind, owner = "root", []byte{0}
		}
	default:
		kind, owner = "root", []byte{0}
	}
	s.TypeCovered = 0
	s.OrigTTL = c.SigOrigTTL
	if c.SigLabels < 0 {
		s.Labels = uint8(ownerLabels)
	} else {
		s.Labels = uint8(c.SigLabels)
	}
	rd := s.RdataNoSig()
	sig, err := ref.SignSig(s.Algorithm, priv, ref.Sig0DigestInput(rd, packed), nil)
	if err != nil {
		return nil, nil, err
	}
	if ref.ARCount(packed) == 65535 || len(rd)+len(sig) > 65535 {
		return nil, nil, fmt.Errorf("no room for one more record")
	}
	out := append([]byte(nil), packed...)
	out = append(out, owner...)
	out = binary.BigEndian.AppendUint16(out, ref.TypeSIG)
	out = binary.BigEndian.AppendUint16(out, c.SigClass)
	out = binary.BigEndian.AppendUint32(out, c.SigTTL)
	out = binary.BigEndian.AppendUint16(out, uint16(len(rd)+len(sig)))
	out = append(append(out, rd...), sig...)
	ref.SetARCount(out, ref.ARCount(packed)+1)
	classes := []string{"foreign-sig-record", "foreign-sig-owner=" + kind,
		fmt.Sprintf("foreign-sig-class-ANY=%v", c.SigClass == ref.ClassANY), fmt.Sprintf("foreign-sig-ttl-0=%v", c.SigTTL == 0),
		fmt.Sprintf("foreign-sig-labels-0=%v", s.Labels == 0), fmt.Sprintf("foreign-sig-origttl-0=%v", s.OrigTTL == 0)}
	if kind != "root" && kind != "ptr-root" {
		classes = append(classes, "foreign-sig-owner-is-not-the-root")
	}
	return out, classes, nil
}

// foreignDesc describes the record for a violation message.
func foreignDesc(c sigCase, out []byte) string {
	if !c.RefSign || !c.Foreign {
		return ""
	}
	_, last, _, err := ref.StripLast(out)
	if err != nil {
		return ""
	}
	return fmt.Sprintf("; the SIG(0) record is written as another RFC 2931 signer may write it: owner %s = % x (labels %q), class %d, TTL %d, labels field %d, original TTL %d - RFC 2931 3 calls owner, class, TTL and original TTL of a SIG(0) meaningless, and 3.1 leaves the record's own header out of the signed data",
		c.SigOwner, out[last.Start:last.Fixed], [][]byte(last.Owner), last.Class, last.TTL, out[last.RData+3], binary.BigEndian.Uint32(out[last.RData+4:]))
}

// genForeign draws the header of a foreign signer's SIG(0) record (two thirds of the reference-signed cases).
func genForeign(t *rapid.T, c *sigCase) {
	if !c.RefSign || rapid.IntRange(0, 2).Draw(t, "foreign") == 0 {
		return
	}
	c.Foreign = true
	c.SigOwner = rapid.SampledFrom([]string{"root", "name", "name", "signer", "ptr-name", "ptr-name", "ptr-root"}).Draw(t, "sigowner")
	if c.SigOwner == "name" {
		c.SigOwnerName = wm.EscName(gen.Name(t, gen.NameOpts{MaxLabs: 4, MaxLabel: 12, Plain: rapid.Bool().Draw(t, "sigownerplain")}))
	}
	c.SigOwnerPick = rapid.IntRange(0, 1<<16).Draw(t, "sigownerpick")
	c.SigClass = rapid.OneOf(rapid.SampledFrom([]uint16{ref.ClassANY, ref.ClassANY, 1, 1, 3, 254, 0}), rapid.Uint16()).Draw(t, "sigclass")
	c.SigTTL = rapid.OneOf(rapid.SampledFrom([]uint32{0, 0, 1, 300, 3600, 1<<31 - 1, 1 << 31, 1<<32 - 1}), rapid.Uint32()).Draw(t, "sigttl")
	c.SigLabels = rapid.SampledFrom([]int{0, 0, -1, -1, 1, 127, 255}).Draw(t, "siglabels")
	c.SigOrigTTL = rapid.SampledFrom([]uint32{0, 0, 300, 3600, 1<<32 - 1}).Draw(t, "sigorigttl")
}
