package c18

// Round 9: several Sign calls in a row. "A message signed with SIG(0) verifies against the matching
// KEY ... and the signed octets are the packed message followed by one SIG record" is said of every
// message that was signed, not only of the one that was signed last: a signer with several messages
// in flight (a server answering, an updater sending a batch, one goroutine still writing a message
// to a socket while another one signs the next) calls Sign again before the earlier result has
// been sent, verified or compared. So: a generated sequence of messages (sizes descending, ascending
// or as drawn, compression on and off, any algorithm per step) is signed - on the checking goroutine,
// handed from goroutine to goroutine, or on several goroutines at once - and only then every result
// is looked at again: it is still octet for octet what Sign returned, still pack(m) + one SIG record
// with ARCOUNT + 1, the reference verifier and SIG.Verify still accept it; and the caller, who owns
// the slices, may write into one (up to its capacity) without changing another.

import (
	"bytes"
	"crypto"
	"fmt"
	"sort"
	"sync"
	"time"

	"github.com/miekg/dns"
	"pgregory.net/rapid"

	"verif/harness/c18/msgspec"
	"verif/harness/gen"
	"verif/harness/pbt"
	ref "verif/harness/refcrypto"
	wm "verif/harness/wiremodel"
)

type seqStep struct {
	Msg   msgspec.Spec
	Alg   uint8
	Where int // 0 = the checking goroutine, 1.. = a helper goroutine
}

type seqCase struct {
	Steps   []seqStep
	KeySlot int
	KeySeed []byte
	Signer  string
	Mode    string // same-goroutine | handed-over (one Sign at a time, step i on goroutine Where) | concurrent (the goroutines sign at the same time)
	Order   string // how the generator ordered the sizes (the classes are computed from the real lengths)
}

type seqPrepared struct {
	packed []byte
	msg    *dns.Msg
	sig    *dns.SIG
	signer crypto.Signer
	pub    crypto.PublicKey
	key    *dns.KEY
}

type seqResult struct {
	out, snap []byte
	err       error // Sign failed (or panicked)
	imm       error // the result was wrong right after Sign returned
}

// seqVerify is the oracle for one signed message: pack(m) + one root-owned SIG record, ARCOUNT + 1,
// accepted by the reference verifier and by SIG.Verify with the matching KEY.
func seqVerify(p *seqPrepared, alg uint8, signerL ref.Labels, out []byte, now uint32) error {
	stripped, last, _, werr := ref.StripLast(out)
	if werr != nil {
		return pbt.Errf("does not parse as a message with a last additional record: %v", werr)
	}
	if !bytes.Equal(stripped, p.packed) {
		return pbt.Errf("minus its last additional record it differs from Pack() of the message (first difference at octet %d; lengths %d / %d)", firstDiff(stripped, p.packed), len(stripped), len(p.packed))
	}
	if int(ref.ARCount(out)) != int(ref.ARCount(p.packed))+1 {
		return pbt.Errf("ARCOUNT is %d, the message has %d additional records", ref.ARCount(out), ref.ARCount(p.packed))
	}
	if last.End != len(out) || last.Type != ref.TypeSIG || len(last.Owner) != 0 {
		return pbt.Errf("the last record (type %d, owner %v) ends at %d of %d octets; want one root-owned SIG record at the very end", last.Type, last.Owner, last.End, len(out))
	}
	if v := ref.Sig0Verify(out, signerL, alg, p.pub, now); !v.OK {
		return pbt.Errf("the reference verifier refuses it: %s", v.Why)
	}
	var u dns.Msg
	if err := u.Unpack(out); err != nil {
		return pbt.Errf("does not unpack: %v", err)
	}
	if len(u.Extra) == 0 {
		return pbt.Errf("has no additional record after unpacking")
	}
	rs, ok := u.Extra[len(u.Extra)-1].(*dns.SIG)
	if !ok {
		return pbt.Errf("last additional record is %T, want *dns.SIG", u.Extra[len(u.Extra)-1])
	}
	if err := rs.Verify(p.key, out); err != nil {
		return pbt.Errf("SIG.Verify with the matching KEY fails: %v", err)
	}
	return nil
}

func checkSeq(c seqCase) error {
	if len(c.Steps) == 0 {
		return nil
	}
	signerL, lerr := labelsOf(c.Signer)
	if lerr != nil {
		return nil
	}
	now64 := time.Now().Unix()
	now := uint32(now64)
	// everything is prepared before the first Sign (and before any goroutine starts)
	prep := make([]*seqPrepared, len(c.Steps))
	maxWhere := 0
	for i, st := range c.Steps {
		priv, err := privFor(sigCase{Alg: st.Alg, KeySlot: c.KeySlot, KeySeed: c.KeySeed})
		if err != nil {
			return nil
		}
		packed, perr := st.Msg.Build().Pack()
		if perr != nil || len(packed) > 60000 {
			return nil
		}
		pub := ref.PublicOf(priv)
		k, keyOct := keyRR(c.Signer, st.Alg, pub)
		sig := &dns.SIG{}
		sig.Algorithm, sig.KeyTag, sig.SignerName = st.Alg, keyTagOf(k.Flags, st.Alg, keyOct), c.Signer
		sig.Inception, sig.Expiration = uint32(now64-3600), uint32(now64+3600)
		prep[i] = &seqPrepared{packed: packed, msg: st.Msg.Build(), sig: sig, signer: ref.DetSigner{Key: priv}, pub: pub, key: k}
		if st.Where < 0 || st.Where > 8 {
			return nil
		}
		maxWhere = max(maxWhere, st.Where)
	}
	// classes from the real lengths
	desc, asc, anyCompress, anyPlain := true, true, false, false
	for i := range prep {
		if i > 0 {
			if len(prep[i].packed) >= len(prep[i-1].packed) {
				desc = false
			}
			if len(prep[i].packed) <= len(prep[i-1].packed) {
				asc = false
			}
		}
		if c.Steps[i].Msg.Compress {
			anyCompress = true
		} else {
			anyPlain = true
		}
	}
	order := "sizes=mixed"
	switch {
	case len(prep) == 1:
		order = "sizes=single"
	case desc:
		order = "sizes=strictly-descending"
	case asc:
		order = "sizes=strictly-ascending"
	}
	mode := c.Mode
	if mode != "handed-over" && mode != "concurrent" {
		mode = "same-goroutine"
	}
	classes := []string{order, "mode=" + mode, fmt.Sprintf("calls=%d", len(c.Steps)), fmt.Sprintf("compress-on-and-off-in-one-sequence=%v", anyCompress && anyPlain)}
	for _, st := range c.Steps {
		classes = append(classes, fmt.Sprintf("step-alg=%d", st.Alg), fmt.Sprintf("step-compress=%v", st.Msg.Compress))
	}
	key := []byte(fmt.Sprint(c.Mode, c.KeySlot, c.KeySeed, "|"))
	for _, p := range prep {
		key = append(key, p.packed...)
	}
	pbt.Note(key, len(c.Steps) >= 2, classes...)

	res := make([]seqResult, len(c.Steps))
	signStep := func(i int) {
		defer func() {
			if r := recover(); r != nil {
				res[i].err = fmt.Errorf("panic: %v", r)
			}
		}()
		out, err := prep[i].sig.Sign(prep[i].signer, prep[i].msg)
		if err != nil {
			res[i].err = err
			return
		}
		res[i].out = out
		res[i].snap = append([]byte(nil), out...)
		res[i].imm = seqVerify(prep[i], c.Steps[i].Alg, signerL, out, now)
	}
	switch mode {
	case "same-goroutine":
		for i := range c.Steps {
			signStep(i)
		}
	case "handed-over":
		// one Sign at a time; step i runs on the checking goroutine (Where 0) or on a goroutine of its own
		for i := range c.Steps {
			if c.Steps[i].Where == 0 {
				signStep(i)
				continue
			}
			done := make(chan struct{})
			go func() {
				defer close(done)
				signStep(i)
			}()
			<-done
		}
	default:
		// the steps of each goroutine in their order, the goroutines at the same time
		var wg sync.WaitGroup
		start := make(chan struct{})
		for w := 1; w <= maxWhere; w++ {
			wg.Add(1)
			go func(w int) {
				defer wg.Done()
				<-start
				for i := range c.Steps {
					if c.Steps[i].Where == w {
						signStep(i)
					}
				}
			}(w)
		}
		close(start)
		for i := range c.Steps {
			if c.Steps[i].Where == 0 {
				signStep(i)
			}
		}
		wg.Wait()
	}

	// all Sign calls are over: look at every result
	for i, r := range res {
		if r.err != nil {
			return pbt.Errf("Sign call %d of %d (%s, alg %d, Compress=%v, packed message %d octets) failed: %v", i+1, len(res), mode, c.Steps[i].Alg, c.Steps[i].Msg.Compress, len(prep[i].packed), r.err)
		}
		if r.imm != nil {
			return pbt.Errf("the result of Sign call %d of %d (%s, alg %d, Compress=%v, %d octets, question names %q), looked at right after Sign returned: %v", i+1, len(res), mode, c.Steps[i].Alg, c.Steps[i].Msg.Compress, len(r.snap), questionNames(c.Steps[i].Msg), r.imm)
		}
	}
	for i, r := range res {
		if !bytes.Equal(r.out, r.snap) {
			return pbt.Errf("the octets returned by Sign call %d of %d (%s; %d octets, packed message %d, alg %d, Compress=%v) changed during the Sign calls that followed (first difference at octet %d): an earlier result is no longer the packed message followed by its SIG record (lengths of the packed messages in call order: %v)",
				i+1, len(res), mode, len(r.out), len(prep[i].packed), c.Steps[i].Alg, c.Steps[i].Msg.Compress, firstDiff(r.out, r.snap), seqLens(prep))
		}
		if err := seqVerify(prep[i], c.Steps[i].Alg, signerL, r.out, now); err != nil {
			return pbt.Errf("the result of Sign call %d of %d (%s), looked at again after the later Sign calls: %v", i+1, len(res), mode, err)
		}
		pbt.Class("earlier-result-re-verified-at-the-end")
	}
	// the slices belong to the caller: writing into one (append uses the spare capacity) leaves the others alone
	for i := range res {
		full := res[i].out[:cap(res[i].out)]
		for j := range full {
			full[j] = 0xA5
		}
		for j := range res {
			if j > i && !bytes.Equal(res[j].out, res[j].snap) {
				return pbt.Errf("writing into the slice Sign call %d returned (up to its capacity %d) changed the result of Sign call %d (first difference at octet %d): two results share memory", i+1, cap(res[i].out), j+1, firstDiff(res[j].out, res[j].snap))
			}
		}
	}
	return nil
}

func seqLens(prep []*seqPrepared) []int {
	var o []int
	for _, p := range prep {
		o = append(o, len(p.packed))
	}
	return o
}

func genSeq(t *rapid.T) seqCase {
	c := seqCase{KeySlot: rapid.IntRange(0, ref.RSAPoolSize()-1).Draw(t, "slot"), KeySeed: rapid.SliceOfN(rapid.Byte(), 1, 16).Draw(t, "seed")}
	c.Signer = wm.EscName(gen.Name(t, gen.NameOpts{MaxLabs: 3, MaxLabel: 10, Plain: rapid.Bool().Draw(t, "plainsigner")}))
	c.Mode = rapid.SampledFrom([]string{"same-goroutine", "same-goroutine", "handed-over", "concurrent"}).Draw(t, "mode")
	c.Order = rapid.SampledFrom([]string{"descending", "descending", "ascending", "as-drawn", "natural"}).Draw(t, "order")
	n := rapid.IntRange(2, 6).Draw(t, "ncalls")
	// target lengths of the packed messages: steps of a few interesting widths (around the signature
	// lengths 64 / 96 / 128, nothing, one octet) or of any width
	sizes := make([]int, n)
	sizes[0] = 300 + rapid.IntRange(0, 1200).Draw(t, "size0")
	for i := 1; i < n; i++ {
		sizes[i] = sizes[i-1] + rapid.OneOf(rapid.SampledFrom([]int{0, 1, 63, 64, 65, 95, 96, 97, 127, 128, 129, 160, 256, 512}), rapid.IntRange(0, 3000)).Draw(t, "gap")
	}
	switch c.Order {
	case "descending":
		sort.Sort(sort.Reverse(sort.IntSlice(sizes)))
	case "as-drawn":
		sizes = rapid.Permutation(sizes).Draw(t, "perm")
	}
	for i := 0; i < n; i++ {
		st := seqStep{Msg: msgspec.Gen(t, msgspec.Opts{MaxSmall: 6}), Alg: rapid.SampledFrom(sigAlgs).Draw(t, "alg")}
		if pbt.Known(findAlg7) && st.Alg == ref.AlgRSASHA1NSEC3 {
			pbt.Excluded(findAlg7)
			st.Alg = ref.AlgRSASHA1
		}
		if c.Mode != "same-goroutine" {
			st.Where = rapid.IntRange(0, 3).Draw(t, "where")
		}
		if c.Order != "natural" {
			// an opaque record brings the packed message to its target length (when it is not longer already)
			st.Msg.Answer = append(st.Msg.Answer, msgspec.Rec{Kind: "UNK", Owner: 0, Class: 1, TTL: 5, Num: 3})
			if p0, err := st.Msg.Build().Pack(); err == nil && len(p0) < sizes[i] {
				d := make([]byte, sizes[i]-len(p0))
				for j := range d {
					d[j] = byte(j*7 + i)
				}
				st.Msg.Answer[len(st.Msg.Answer)-1].Data = d
			}
		}
		c.Steps = append(c.Steps, st)
	}
	if pbt.Known(findTag0) {
		// keys whose tag is 0 are refused by Sign while this is live: another key for the whole sequence
		for i := 0; i < 4; i++ {
			zero := false
			for _, st := range c.Steps {
				if tag, ok := caseKeyTag(sigCase{Alg: st.Alg, KeySlot: c.KeySlot, KeySeed: c.KeySeed}); ok && tag == 0 {
					zero = true
				}
			}
			if !zero {
				break
			}
			pbt.Excluded(findTag0)
			c.KeySeed = append(append([]byte(nil), c.KeySeed...), byte(i))
			c.KeySlot = (c.KeySlot + 1) % ref.RSAPoolSize()
		}
	}
	return c
}

func init() {
	pbt.Register(pbt.Sub[seqCase]{Name: "sign-sequence", Weight: 1, Gen: genSeq, Check: checkSeq})
}
