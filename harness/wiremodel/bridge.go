package wiremodel

// The bridge moves values between the model and the library's Go structs. It only touches struct
// fields (by Go field name) and uses the harness's own text escaping; it never calls the library's
// pack, unpack or parse functions.

import (
	"encoding/base32"
	"encoding/base64"
	"encoding/binary"
	"encoding/hex"
	"fmt"
	"net"
	"reflect"
	"strings"

	"github.com/miekg/dns"
)

var b32 = base32.HexEncoding.WithPadding(base32.NoPadding)

// EscTxt renders character-string octets the way the library holds them: \" \\ and \DDD outside
// 0x20..0x7e.
func EscTxt(b []byte) string {
	var sb strings.Builder
	for _, c := range b {
		switch {
		case c == '"' || c == '\\':
			sb.WriteByte('\\')
			sb.WriteByte(c)
		case c < ' ' || c > '~':
			fmt.Fprintf(&sb, "\\%03d", c)
		default:
			sb.WriteByte(c)
		}
	}
	return sb.String()
}

// UnescTxt reads escaped text: \DDD is an octet value, \c is c; a trailing lone backslash is dropped.
func UnescTxt(s string) []byte {
	out := make([]byte, 0, len(s))
	for i := 0; i < len(s); i++ {
		c := s[i]
		if c != '\\' {
			out = append(out, c)
			continue
		}
		if i+1 >= len(s) {
			break
		}
		if i+3 < len(s)+0 && isDigit(s[i+1]) && isDigit(s[i+2]) && isDigit(s[i+3]) {
			out = append(out, byte(int(s[i+1]-'0')*100+int(s[i+2]-'0')*10+int(s[i+3]-'0')))
			i += 3
		} else {
			out = append(out, s[i+1])
			i++
		}
	}
	return out
}

// PrivData is the payload of the harness-registered private type (code 65280, "VPRIV").
type PrivData struct{ B []byte }

func (p *PrivData) String() string { return hex.EncodeToString(p.B) }
func (p *PrivData) Parse(sx []string) error {
	b, err := hex.DecodeString(strings.Join(sx, ""))
	p.B = b
	return err
}
func (p *PrivData) Pack(b []byte) (int, error) {
	if len(b) < len(p.B) {
		return 0, dns.ErrBuf
	}
	return copy(b, p.B), nil
}
func (p *PrivData) Unpack(b []byte) (int, error) {
	p.B = append([]byte{}, b...)
	return len(b), nil
}
func (p *PrivData) Copy(dest dns.PrivateRdata) error {
	d, ok := dest.(*PrivData)
	if !ok {
		return dns.ErrRdata
	}
	d.B = append([]byte{}, p.B...)
	return nil
}
func (p *PrivData) Len() int { return len(p.B) }

func init() {
	dns.PrivateHandle("VPRIV", TPrivate, func() dns.PrivateRdata { return new(PrivData) })
}

// EmptyRdataIsValue reports whether RDLENGTH 0 is an ordinary value of the layout (TXT-less, OPT without options, ...).
func EmptyRdataIsValue(l []FieldSpec) bool { return emptyRdataIsValue(l) }

func emptyRdataIsValue(l []FieldSpec) bool {
	if len(l) == 0 {
		return true
	}
	if len(l) == 1 {
		switch l[0].K {
		case Rest, Strs, Opts, APLs, Bitmap, Names:
			return true
		}
	}
	return false
}

func emptyFields(l []FieldSpec) []Field {
	var fs []Field
	for _, s := range l {
		fs = append(fs, Field{K: s.K})
	}
	return fs
}

func setField(v reflect.Value, name string, x any) error {
	f := v.FieldByName(name)
	if !f.IsValid() {
		return fmt.Errorf("bridge: no field %s in %s", name, v.Type())
	}
	xv := reflect.ValueOf(x)
	if !xv.Type().ConvertibleTo(f.Type()) {
		return fmt.Errorf("bridge: field %s of %s: cannot set %T", name, v.Type(), x)
	}
	f.Set(xv.Convert(f.Type()))
	return nil
}

func padIP(b []byte, n int) net.IP {
	ip := make(net.IP, n)
	copy(ip, b)
	return ip
}

func reprToString(r Repr, b []byte) string {
	switch r {
	case ReprHex:
		return hex.EncodeToString(b)
	case ReprB64:
		return base64.StdEncoding.EncodeToString(b)
	case ReprB32:
		return b32.EncodeToString(b)
	case ReprOctet:
		// escaped text: only the backslash needs an escape for the library's octet packer;
		// non-printables are written \DDD like everywhere else in the library's text
		return EscTxt(b)
	case ReprRaw:
		return string(b)
	}
	return EscTxt(b)
}

func reprFromString(r Repr, s string) ([]byte, error) {
	switch r {
	case ReprHex:
		return hex.DecodeString(s)
	case ReprB64:
		return base64.StdEncoding.DecodeString(s)
	case ReprB32:
		return b32.DecodeString(strings.ToUpper(s))
	case ReprRaw:
		return []byte(s), nil
	}
	return UnescTxt(s), nil
}

// ToLib builds the library value of a record.
func ToLib(r Rec) (dns.RR, error) {
	hdr := dns.RR_Header{Name: libName(r.Name), Rrtype: r.Type, Class: r.Class, Ttl: r.TTL}
	layout, known := LayoutOf(r.Type)
	if r.NoRdata {
		if r.Type == TOPT { // the library type-asserts OPT records in several places
			return &dns.OPT{Hdr: hdr}, nil
		}
		return &dns.ANY{Hdr: hdr}, nil
	}
	if !known {
		if len(r.Fields) != 1 {
			return nil, fmt.Errorf("bridge: unknown type %d needs one opaque field", r.Type)
		}
		return &dns.RFC3597{Hdr: hdr, Rdata: hex.EncodeToString(r.Fields[0].B)}, nil
	}
	if r.Type == TPrivate {
		rr := dns.TypeToRR[TPrivate]().(*dns.PrivateRR)
		rr.Hdr = hdr
		rr.Data = &PrivData{B: append([]byte{}, r.Fields[0].B...)}
		return rr, nil
	}
	mk, ok := dns.TypeToRR[r.Type]
	if !ok {
		return nil, fmt.Errorf("bridge: type %d is in the layout table but not registered in the library", r.Type)
	}
	rr := mk()
	*rr.Header() = hdr
	if len(r.Fields) != len(layout) {
		return nil, fmt.Errorf("bridge: type %d: %d fields, layout has %d", r.Type, len(r.Fields), len(layout))
	}
	v := reflect.ValueOf(rr).Elem()
	for i, spec := range layout {
		f := r.Fields[i]
		var err error
		switch spec.K {
		case U8, U16, U32, U48, U64:
			err = setField(v, spec.Go, f.U)
		case NameC, NameU:
			err = setField(v, spec.Go, libName(f.N))
		case Names:
			var ss []string
			for _, n := range f.NL {
				ss = append(ss, libName(n))
			}
			err = setField(v, spec.Go, ss)
		case Str:
			err = setField(v, spec.Go, EscTxt(f.B))
		case Strs:
			var ss []string
			for _, s := range f.L {
				ss = append(ss, EscTxt(s))
			}
			err = setField(v, spec.Go, ss)
		case Rest:
			err = setField(v, spec.Go, reprToString(spec.R, f.B))
		case L8, L16:
			if err = setField(v, spec.Go, reprToString(spec.R, f.B)); err == nil {
				err = setField(v, spec.LenGo, uint64(len(f.B)))
			}
		case IPv4:
			err = setField(v, spec.Go, libIP4(f.B))
		case IPv6:
			err = setField(v, spec.Go, padIP(f.B, 16))
		case Bitmap:
			err = setField(v, spec.Go, append([]uint16(nil), f.T...))
		case GW:
			switch f.U {
			case 1:
				err = setField(v, "GatewayAddr", libIP4(f.B))
			case 2:
				err = setField(v, "GatewayAddr", padIP(f.B, 16))
			case 3:
				err = setField(v, "GatewayHost", libName(f.N))
			}
		case HIPHdr:
			err = setField(v, "HitLength", uint64(len(f.B)))
			if err == nil {
				err = setField(v, "PublicKeyAlgorithm", f.U)
			}
			if err == nil {
				err = setField(v, "PublicKeyLength", uint64(len(f.B2)))
			}
			if err == nil {
				err = setField(v, "Hit", hex.EncodeToString(f.B))
			}
			if err == nil {
				err = setField(v, "PublicKey", base64.StdEncoding.EncodeToString(f.B2))
			}
		case APLs:
			var ps []dns.APLPrefix
			for _, it := range f.APL {
				bits := 32
				n := 4
				if it.Family == 2 {
					bits, n = 128, 16
				}
				ps = append(ps, dns.APLPrefix{Negation: it.Neg, Network: net.IPNet{IP: padIP(it.Afd, n), Mask: net.CIDRMask(int(it.Prefix), bits)}})
			}
			err = setField(v, spec.Go, ps)
		case Opts:
			var os []dns.EDNS0
			for _, o := range f.Opts {
				e, err2 := OptToLib(o)
				if err2 != nil {
					return nil, err2
				}
				os = append(os, e)
			}
			err = setField(v, spec.Go, os)
		case Params:
			var ps []dns.SVCBKeyValue
			for _, o := range f.Opts {
				e, err2 := ParamToLib(o)
				if err2 != nil {
					return nil, err2
				}
				ps = append(ps, e)
			}
			err = setField(v, spec.Go, ps)
		}
		if err != nil {
			return nil, err
		}
	}
	return rr, nil
}

func getU(v reflect.Value, name string) (uint64, error) {
	f := v.FieldByName(name)
	if !f.IsValid() || !f.CanUint() {
		return 0, fmt.Errorf("bridge: no unsigned field %s in %s", name, v.Type())
	}
	return f.Uint(), nil
}

func getS(v reflect.Value, name string) (string, error) {
	f := v.FieldByName(name)
	if !f.IsValid() || f.Kind() != reflect.String {
		return "", fmt.Errorf("bridge: no string field %s in %s", name, v.Type())
	}
	return f.String(), nil
}

func nameFromText(s string) (Name, error) {
	n, fq, err := UnescName(s)
	if err != nil {
		return nil, fmt.Errorf("bridge: name %q: %v", s, err)
	}
	if !fq {
		return nil, fmt.Errorf("bridge: name %q is not fully qualified", s)
	}
	return n, nil
}

func ipBytes(ip net.IP, n int) ([]byte, error) {
	if n == 4 {
		if v4 := ip.To4(); v4 != nil {
			return append([]byte{}, v4...), nil
		}
		return nil, fmt.Errorf("bridge: %v is not an IPv4 address", ip)
	}
	if len(ip) != 16 {
		return nil, fmt.Errorf("bridge: %v is not a 16-octet address", []byte(ip))
	}
	return append([]byte{}, ip...), nil
}

// FromLib reads a library record back into the model. fromWire says the record came out of the
// library's unpacker, where RDLENGTH 0 on a type with mandatory fields means "no RDATA".
func FromLib(rr dns.RR, fromWire bool) (Rec, error) {
	h := rr.Header()
	name, err := nameFromText(h.Name)
	if err != nil {
		return Rec{}, err
	}
	r := Rec{Name: name, Type: h.Rrtype, Class: h.Class, TTL: h.Ttl}
	layout, _ := LayoutOf(h.Rrtype)
	switch x := rr.(type) {
	case *dns.RFC3597:
		b, err := hex.DecodeString(x.Rdata)
		if err != nil {
			return r, err
		}
		if _, known := Layout[h.Rrtype]; known && !(fromWire && len(b) == 0) {
			return r, fmt.Errorf("bridge: known type %d held as RFC3597", h.Rrtype)
		}
		r.Fields = []Field{{K: Rest, B: b}}
		return r, nil
	case *dns.ANY:
		// any type may be carried as a header-only ANY value (dynamic updates)
		if emptyRdataIsValue(layout) {
			r.Fields = emptyFields(layout)
		} else {
			r.NoRdata = true
		}
		return r, nil
	case *dns.PrivateRR:
		pd, ok := x.Data.(*PrivData)
		if !ok {
			return r, fmt.Errorf("bridge: foreign private data %T", x.Data)
		}
		r.Fields = []Field{{K: Rest, B: append([]byte{}, pd.B...)}}
		return r, nil
	}
	if fromWire && h.Rdlength == 0 && !emptyRdataIsValue(layout) {
		r.NoRdata = true
		return r, nil
	}
	v := reflect.ValueOf(rr).Elem()
	for _, spec := range layout {
		f := Field{K: spec.K}
		switch spec.K {
		case U8, U16, U32, U48, U64:
			f.U, err = getU(v, spec.Go)
		case NameC, NameU:
			var s string
			if s, err = getS(v, spec.Go); err == nil {
				f.N, err = nameFromText(s)
			}
		case Names:
			fv := v.FieldByName(spec.Go)
			for i := 0; i < fv.Len() && err == nil; i++ {
				var n Name
				n, err = nameFromText(fv.Index(i).String())
				f.NL = append(f.NL, n)
			}
		case Str:
			var s string
			if s, err = getS(v, spec.Go); err == nil {
				f.B = UnescTxt(s)
			}
		case Strs:
			fv := v.FieldByName(spec.Go)
			for i := 0; i < fv.Len(); i++ {
				f.L = append(f.L, UnescTxt(fv.Index(i).String()))
			}
		case Rest:
			var s string
			if s, err = getS(v, spec.Go); err == nil {
				f.B, err = reprFromString(spec.R, s)
			}
		case L8, L16:
			var s string
			if s, err = getS(v, spec.Go); err == nil {
				f.B, err = reprFromString(spec.R, s)
			}
			if err == nil {
				var l uint64
				if l, err = getU(v, spec.LenGo); err == nil && int(l) != len(f.B) {
					err = fmt.Errorf("bridge: %s=%d but %s holds %d octets", spec.LenGo, l, spec.Go, len(f.B))
				}
			}
		case IPv4:
			f.B, err = ipBytes(net.IP(v.FieldByName(spec.Go).Bytes()), 4)
		case IPv6:
			f.B, err = ipBytes(net.IP(v.FieldByName(spec.Go).Bytes()), 16)
		case Bitmap:
			fv := v.FieldByName(spec.Go)
			for i := 0; i < fv.Len(); i++ {
				f.T = append(f.T, uint16(fv.Index(i).Uint()))
			}
		case GW:
			var gt uint64
			if gt, err = getU(v, "GatewayType"); err != nil {
				break
			}
			if h.Rrtype == TAMTRELAY {
				gt &= 0x7f
			}
			f.U = gt
			switch gt {
			case 1:
				f.B, err = ipBytes(net.IP(v.FieldByName("GatewayAddr").Bytes()), 4)
			case 2:
				f.B, err = ipBytes(net.IP(v.FieldByName("GatewayAddr").Bytes()), 16)
			case 3:
				var s string
				if s, err = getS(v, "GatewayHost"); err == nil {
					f.N, err = nameFromText(s)
				}
			}
		case HIPHdr:
			var hit, pk string
			f.U, err = getU(v, "PublicKeyAlgorithm")
			if err == nil {
				hit, err = getS(v, "Hit")
			}
			if err == nil {
				pk, err = getS(v, "PublicKey")
			}
			if err == nil {
				f.B, err = hex.DecodeString(hit)
			}
			if err == nil {
				f.B2, err = base64.StdEncoding.DecodeString(pk)
			}
			if err == nil {
				hl, _ := getU(v, "HitLength")
				pl, _ := getU(v, "PublicKeyLength")
				if int(hl) != len(f.B) || int(pl) != len(f.B2) {
					err = fmt.Errorf("bridge: HIP length fields %d/%d disagree with data %d/%d", hl, pl, len(f.B), len(f.B2))
				}
			}
		case APLs:
			ps := v.FieldByName(spec.Go).Interface().([]dns.APLPrefix)
			for _, p := range ps {
				ones, bits := p.Network.Mask.Size()
				it := APLItem{Prefix: uint8(ones), Neg: p.Negation}
				switch {
				case bits == 32 && len(p.Network.IP) == 4:
					it.Family = 1
				case bits == 128 && len(p.Network.IP) == 16:
					it.Family = 2
				default:
					return r, fmt.Errorf("bridge: APL prefix %v", p)
				}
				afd := append([]byte{}, p.Network.IP...)
				for len(afd) > 0 && afd[len(afd)-1] == 0 {
					afd = afd[:len(afd)-1]
				}
				it.Afd = afd
				f.APL = append(f.APL, it)
			}
		case Opts:
			os := v.FieldByName(spec.Go).Interface().([]dns.EDNS0)
			for _, e := range os {
				o, err2 := OptFromLib(e)
				if err2 != nil {
					return r, err2
				}
				f.Opts = append(f.Opts, o)
			}
		case Params:
			ps := v.FieldByName(spec.Go).Interface().([]dns.SVCBKeyValue)
			for _, e := range ps {
				o, err2 := ParamFromLib(e)
				if err2 != nil {
					return r, err2
				}
				f.Opts = append(f.Opts, o)
			}
		}
		if err != nil {
			return r, fmt.Errorf("type %d field %s: %v", h.Rrtype, spec.Go, err)
		}
		r.Fields = append(r.Fields, f)
	}
	return r, nil
}

// ---------------------------------------------------------------------------------------------
// EDNS0 options (RFC 6891 and the per-option RFCs)

func OptToLib(o Option) (dns.EDNS0, error) {
	d := o.Data
	bad := fmt.Errorf("bridge: option %d with %d octets is not canonical", o.Code, len(d))
	switch o.Code {
	case 1:
		if len(d) != 18 {
			return nil, bad
		}
		return &dns.EDNS0_LLQ{Code: 1, Version: binary.BigEndian.Uint16(d), Opcode: binary.BigEndian.Uint16(d[2:]), Error: binary.BigEndian.Uint16(d[4:]),
			Id: binary.BigEndian.Uint64(d[6:]), LeaseLife: binary.BigEndian.Uint32(d[14:])}, nil
	case 2:
		switch len(d) {
		case 4:
			return &dns.EDNS0_UL{Code: 2, Lease: binary.BigEndian.Uint32(d)}, nil
		case 8:
			return &dns.EDNS0_UL{Code: 2, Lease: binary.BigEndian.Uint32(d), KeyLease: binary.BigEndian.Uint32(d[4:])}, nil
		}
		return nil, bad
	case 3:
		return &dns.EDNS0_NSID{Code: 3, Nsid: hex.EncodeToString(d)}, nil
	case 4:
		return &dns.EDNS0_ESU{Code: 4, Uri: string(d)}, nil
	case 5:
		return &dns.EDNS0_DAU{Code: 5, AlgCode: append([]byte{}, d...)}, nil
	case 6:
		return &dns.EDNS0_DHU{Code: 6, AlgCode: append([]byte{}, d...)}, nil
	case 7:
		return &dns.EDNS0_N3U{Code: 7, AlgCode: append([]byte{}, d...)}, nil
	case 8:
		if len(d) < 4 {
			return nil, bad
		}
		e := &dns.EDNS0_SUBNET{Code: 8, Family: binary.BigEndian.Uint16(d), SourceNetmask: d[2], SourceScope: d[3]}
		switch e.Family {
		case 1:
			e.Address = libIP4(d[4:])
		case 2:
			e.Address = padIP(d[4:], 16)
		case 0:
			e.Address = net.IPv4(0, 0, 0, 0)
		default:
			return nil, bad
		}
		if e.Family == 1 || e.Family == 2 {
			libSubnetNoise(e.Address, int(e.SourceNetmask))
		}
		return e, nil
	case 9:
		switch len(d) {
		case 0:
			return &dns.EDNS0_EXPIRE{Code: 9, Empty: true}, nil
		case 4:
			return &dns.EDNS0_EXPIRE{Code: 9, Expire: binary.BigEndian.Uint32(d)}, nil
		}
		return nil, bad
	case 10:
		return &dns.EDNS0_COOKIE{Code: 10, Cookie: hex.EncodeToString(d)}, nil
	case 11:
		switch len(d) {
		case 0:
			return &dns.EDNS0_TCP_KEEPALIVE{Code: 11}, nil
		case 2:
			return &dns.EDNS0_TCP_KEEPALIVE{Code: 11, Timeout: binary.BigEndian.Uint16(d)}, nil
		}
		return nil, bad
	case 12:
		return &dns.EDNS0_PADDING{Padding: append([]byte{}, d...)}, nil
	case 15:
		if len(d) < 2 {
			return nil, bad
		}
		return &dns.EDNS0_EDE{InfoCode: binary.BigEndian.Uint16(d), ExtraText: string(d[2:])}, nil
	case 18:
		n, ref, err := ReadName(d, 0)
		if err != nil || ref.End != len(d) || len(ref.Ptrs) > 0 {
			return nil, bad
		}
		return &dns.EDNS0_REPORTING{Code: 18, AgentDomain: libRelName(n)}, nil
	case 19:
		if len(d) < 2 {
			return nil, bad
		}
		return &dns.EDNS0_ZONEVERSION{Code: 19, LabelCount: d[0], Type: d[1], Version: string(d[2:])}, nil
	}
	return &dns.EDNS0_LOCAL{Code: o.Code, Data: append([]byte{}, d...)}, nil
}

func OptFromLib(e dns.EDNS0) (Option, error) {
	switch x := e.(type) {
	case *dns.EDNS0_LLQ:
		d := make([]byte, 18)
		binary.BigEndian.PutUint16(d, x.Version)
		binary.BigEndian.PutUint16(d[2:], x.Opcode)
		binary.BigEndian.PutUint16(d[4:], x.Error)
		binary.BigEndian.PutUint64(d[6:], x.Id)
		binary.BigEndian.PutUint32(d[14:], x.LeaseLife)
		return Option{1, d}, nil
	case *dns.EDNS0_UL:
		d := binary.BigEndian.AppendUint32(nil, x.Lease)
		if x.KeyLease != 0 {
			d = binary.BigEndian.AppendUint32(d, x.KeyLease)
		}
		return Option{2, d}, nil
	case *dns.EDNS0_NSID:
		d, err := hex.DecodeString(x.Nsid)
		return Option{3, d}, err
	case *dns.EDNS0_ESU:
		return Option{4, []byte(x.Uri)}, nil
	case *dns.EDNS0_DAU:
		return Option{5, append([]byte{}, x.AlgCode...)}, nil
	case *dns.EDNS0_DHU:
		return Option{6, append([]byte{}, x.AlgCode...)}, nil
	case *dns.EDNS0_N3U:
		return Option{7, append([]byte{}, x.AlgCode...)}, nil
	case *dns.EDNS0_SUBNET:
		d := []byte{byte(x.Family >> 8), byte(x.Family), x.SourceNetmask, x.SourceScope}
		n := (int(x.SourceNetmask) + 7) / 8
		switch x.Family {
		case 1:
			v4 := x.Address.To4()
			if v4 == nil || n > 4 {
				return Option{}, fmt.Errorf("bridge: subnet %v/%d family 1", x.Address, x.SourceNetmask)
			}
			d = append(d, v4[:n]...)
		case 2:
			if len(x.Address) != 16 || n > 16 {
				return Option{}, fmt.Errorf("bridge: subnet %v/%d family 2", x.Address, x.SourceNetmask)
			}
			d = append(d, x.Address[:n]...)
		case 0:
		default:
			return Option{}, fmt.Errorf("bridge: subnet family %d", x.Family)
		}
		return Option{8, d}, nil
	case *dns.EDNS0_EXPIRE:
		if x.Empty {
			return Option{9, []byte{}}, nil
		}
		return Option{9, binary.BigEndian.AppendUint32(nil, x.Expire)}, nil
	case *dns.EDNS0_COOKIE:
		d, err := hex.DecodeString(x.Cookie)
		return Option{10, d}, err
	case *dns.EDNS0_TCP_KEEPALIVE:
		if x.Timeout == 0 {
			return Option{11, []byte{}}, nil
		}
		return Option{11, binary.BigEndian.AppendUint16(nil, x.Timeout)}, nil
	case *dns.EDNS0_PADDING:
		return Option{12, append([]byte{}, x.Padding...)}, nil
	case *dns.EDNS0_EDE:
		return Option{15, append(binary.BigEndian.AppendUint16(nil, x.InfoCode), x.ExtraText...)}, nil
	case *dns.EDNS0_REPORTING:
		n, err := nameFromText(x.AgentDomain)
		if err != nil {
			return Option{}, err
		}
		return Option{18, EncodeName(n)}, nil
	case *dns.EDNS0_ZONEVERSION:
		return Option{19, append([]byte{x.LabelCount, x.Type}, x.Version...)}, nil
	case *dns.EDNS0_LOCAL:
		return Option{x.Code, append([]byte{}, x.Data...)}, nil
	}
	return Option{}, fmt.Errorf("bridge: unknown option type %T", e)
}

// ---------------------------------------------------------------------------------------------
// SVCB parameters (RFC 9460 section 7, RFC 9461, RFC 9540)

func ParamToLib(o Option) (dns.SVCBKeyValue, error) {
	d := o.Data
	bad := fmt.Errorf("bridge: SvcParam %d with %d octets is not canonical", o.Code, len(d))
	switch o.Code {
	case 0:
		if len(d)%2 != 0 {
			return nil, bad
		}
		e := &dns.SVCBMandatory{}
		for i := 0; i < len(d); i += 2 {
			e.Code = append(e.Code, dns.SVCBKey(binary.BigEndian.Uint16(d[i:])))
		}
		return e, nil
	case 1:
		e := &dns.SVCBAlpn{Alpn: []string{}}
		for i := 0; i < len(d); {
			l := int(d[i])
			if l == 0 || i+1+l > len(d) {
				return nil, bad
			}
			e.Alpn = append(e.Alpn, string(d[i+1:i+1+l]))
			i += 1 + l
		}
		return e, nil
	case 2:
		if len(d) != 0 {
			return nil, bad
		}
		return &dns.SVCBNoDefaultAlpn{}, nil
	case 3:
		if len(d) != 2 {
			return nil, bad
		}
		return &dns.SVCBPort{Port: binary.BigEndian.Uint16(d)}, nil
	case 4:
		if len(d) == 0 || len(d)%4 != 0 {
			return nil, bad
		}
		e := &dns.SVCBIPv4Hint{}
		for i := 0; i < len(d); i += 4 {
			e.Hint = append(e.Hint, libIP4(d[i:i+4]))
		}
		return e, nil
	case 5:
		return &dns.SVCBECHConfig{ECH: append([]byte{}, d...)}, nil
	case 6:
		if len(d) == 0 || len(d)%16 != 0 {
			return nil, bad
		}
		e := &dns.SVCBIPv6Hint{}
		for i := 0; i < len(d); i += 16 {
			e.Hint = append(e.Hint, padIP(d[i:i+16], 16))
		}
		return e, nil
	case 7:
		return &dns.SVCBDoHPath{Template: string(d)}, nil
	case 8:
		if len(d) != 0 {
			return nil, bad
		}
		return &dns.SVCBOhttp{}, nil
	case 65535:
		return nil, bad
	}
	return &dns.SVCBLocal{KeyCode: dns.SVCBKey(o.Code), Data: append([]byte{}, d...)}, nil
}

func ParamFromLib(e dns.SVCBKeyValue) (Option, error) {
	switch x := e.(type) {
	case *dns.SVCBMandatory:
		var d []byte
		for _, c := range x.Code {
			d = binary.BigEndian.AppendUint16(d, uint16(c))
		}
		return Option{0, d}, nil
	case *dns.SVCBAlpn:
		var d []byte
		for _, a := range x.Alpn {
			if len(a) == 0 || len(a) > 255 {
				return Option{}, fmt.Errorf("bridge: alpn id of %d octets", len(a))
			}
			d = append(d, byte(len(a)))
			d = append(d, a...)
		}
		return Option{1, d}, nil
	case *dns.SVCBNoDefaultAlpn:
		return Option{2, nil}, nil
	case *dns.SVCBPort:
		return Option{3, binary.BigEndian.AppendUint16(nil, x.Port)}, nil
	case *dns.SVCBIPv4Hint:
		var d []byte
		for _, ip := range x.Hint {
			b, err := ipBytes(ip, 4)
			if err != nil {
				return Option{}, err
			}
			d = append(d, b...)
		}
		return Option{4, d}, nil
	case *dns.SVCBECHConfig:
		return Option{5, append([]byte{}, x.ECH...)}, nil
	case *dns.SVCBIPv6Hint:
		var d []byte
		for _, ip := range x.Hint {
			b, err := ipBytes(ip, 16)
			if err != nil {
				return Option{}, err
			}
			d = append(d, b...)
		}
		return Option{6, d}, nil
	case *dns.SVCBDoHPath:
		return Option{7, []byte(x.Template)}, nil
	case *dns.SVCBOhttp:
		return Option{8, nil}, nil
	case *dns.SVCBLocal:
		return Option{uint16(x.KeyCode), append([]byte{}, x.Data...)}, nil
	}
	return Option{}, fmt.Errorf("bridge: unknown SvcParam type %T", e)
}

// ---------------------------------------------------------------------------------------------
// messages

// MsgToLib builds the library message. compress sets Msg.Compress.
func MsgToLib(m Msg, compress bool) (*dns.Msg, error) {
	out := new(dns.Msg)
	out.Id = m.ID
	out.Response = m.Flags&FlagQR != 0
	out.Opcode = m.Opcode()
	out.Authoritative = m.Flags&FlagAA != 0
	out.Truncated = m.Flags&FlagTC != 0
	out.RecursionDesired = m.Flags&FlagRD != 0
	out.RecursionAvailable = m.Flags&FlagRA != 0
	out.Zero = m.Flags&FlagZ != 0
	out.AuthenticatedData = m.Flags&FlagAD != 0
	out.CheckingDisabled = m.Flags&FlagCD != 0
	out.Rcode = m.Rcode
	out.Compress = compress
	for _, q := range m.Q {
		out.Question = append(out.Question, dns.Question{Name: libName(q.Name), Qtype: q.Type, Qclass: q.Class})
	}
	for si, sec := range [][]Rec{m.An, m.Ns, m.Ex} {
		for _, r := range sec {
			rr, err := ToLib(r)
			if err != nil {
				return nil, err
			}
			switch si {
			case 0:
				out.Answer = append(out.Answer, rr)
			case 1:
				out.Ns = append(out.Ns, rr)
			default:
				out.Extra = append(out.Extra, rr)
			}
		}
	}
	return out, nil
}

// MsgFromLib reads a library message back into the model.
func MsgFromLib(x *dns.Msg, fromWire bool) (Msg, error) {
	var m Msg
	m.ID = x.Id
	if x.Opcode < 0 || x.Opcode > 15 {
		return m, fmt.Errorf("bridge: opcode %d", x.Opcode)
	}
	m.Flags = uint16(x.Opcode) << 11
	set := func(b bool, f uint16) {
		if b {
			m.Flags |= f
		}
	}
	set(x.Response, FlagQR)
	set(x.Authoritative, FlagAA)
	set(x.Truncated, FlagTC)
	set(x.RecursionDesired, FlagRD)
	set(x.RecursionAvailable, FlagRA)
	set(x.Zero, FlagZ)
	set(x.AuthenticatedData, FlagAD)
	set(x.CheckingDisabled, FlagCD)
	m.Rcode = x.Rcode
	for _, q := range x.Question {
		n, err := nameFromText(q.Name)
		if err != nil {
			return m, err
		}
		m.Q = append(m.Q, Question{Name: n, Type: q.Qtype, Class: q.Qclass})
	}
	secs := m.Sections()
	for si, sec := range [][]dns.RR{x.Answer, x.Ns, x.Extra} {
		for _, rr := range sec {
			r, err := FromLib(rr, fromWire)
			if err != nil {
				return m, err
			}
			*secs[si] = append(*secs[si], r)
		}
	}
	if o := m.Opt(); o >= 0 {
		// the upper RCODE bits are message state in the model, not part of the OPT record
		m.Ex[o].TTL &= 0x00FFFFFF
	}
	return m, nil
}
