package wiremodel

// The record / message model and the hand-written layout table (RFC sources in DESIGN.md
// Appendix A). The table is written from the RFC texts, not derived from the library's struct
// tags: only the Go *field names* are shared, to move values in and out of library structs.

// Kind of an RDATA field on the wire.
type Kind int

const (
	U8 Kind = iota
	U16
	U32
	U48
	U64
	NameC  // domain name, compressible on output (RFC 1035 types only)
	NameU  // domain name, never compressed on output, pointers accepted on input
	Names  // zero or more uncompressed names up to the end of RDATA
	Str    // character-string: length octet + <=255 octets
	Strs   // one or more character-strings up to the end of RDATA
	Rest   // opaque octets up to the end of RDATA
	L8     // one length octet + that many opaque octets
	L16    // two length octets + that many opaque octets
	IPv4   // 4 octets
	IPv6   // 16 octets
	Bitmap // RFC 4034 4.1.2 type bitmap windows
	GW     // IPSECKEY / AMTRELAY gateway: nothing | IPv4 | IPv6 | uncompressed name, selected by Field.U (0..3)
	HIPHdr // RFC 8005: hitlen:u8 alg:u8 pklen:u16 hit pk
	APLs   // RFC 3123 items
	Opts   // EDNS0 options {code:u16 len:u16 data}*
	Params // SVCB SvcParams {key:u16 len:u16 value}*, keys strictly increasing
)

// Repr says how the library holds an opaque field in its Go struct.
type Repr int

const (
	ReprNone   Repr = iota
	ReprHex         // lower-case hex string
	ReprB64         // standard base64
	ReprB32         // base32hex, no padding
	ReprOctet       // escaped text (CAA value, URI target)
	ReprRaw         // Go string holding the raw octets (NULL)
	ReprTxt         // escaped character-string text
	ReprBytes       // []byte
	ReprPriv        // private RR payload
)

// FieldSpec is one row element of the layout table.
type FieldSpec struct {
	Go    string // Go field name in the library struct
	K     Kind
	R     Repr
	LenGo string // Go field holding the length for L8 / L16 kinds
	Hint  string // generator hint (alg, digesttype, ...)
}

// Field is a value of one wire field.
type Field struct {
	K    Kind
	U    uint64   `json:",omitempty"` // integers; gateway variant; HIP algorithm
	N    Name     `json:",omitempty"` // NameC / NameU / GW(3)
	NL   []Name   `json:",omitempty"` // Names
	B    []byte   `json:",omitempty"` // Str, Rest, L8, L16, IPv4, IPv6, GW(1,2), HIP hit
	B2   []byte   `json:",omitempty"` // HIP public key
	L    [][]byte `json:",omitempty"` // Strs
	T    []uint16 `json:",omitempty"` // Bitmap (ascending, unique)
	APL  []APLItem `json:",omitempty"`
	Opts []Option `json:",omitempty"` // Opts / Params, in wire order
}

// APLItem is one RFC 3123 address prefix item; Afd has no trailing zero octets.
type APLItem struct {
	Family uint16
	Prefix uint8
	Neg    bool
	Afd    []byte
}

// Option is an EDNS0 option or an SVCB parameter: code/key and the value octets.
type Option struct {
	Code uint16
	Data []byte
}

// Rec is one resource record.
type Rec struct {
	Name    Name
	Type    uint16
	Class   uint16
	TTL     uint32
	NoRdata bool    `json:",omitempty"` // RDLENGTH 0 (dynamic update style); Fields ignored
	Fields  []Field `json:",omitempty"`
}

// Question section entry.
type Question struct {
	Name  Name
	Type  uint16
	Class uint16
}

// Msg is a DNS message. Flags is the header flag word without the RCODE nibble (QR, opcode, AA,
// TC, RD, RA, Z, AD, CD). Rcode is the full 12-bit RCODE; its upper 8 bits live in the OPT TTL.
type Msg struct {
	ID    uint16
	Flags uint16
	Rcode int
	Q     []Question `json:",omitempty"`
	An    []Rec      `json:",omitempty"`
	Ns    []Rec      `json:",omitempty"`
	Ex    []Rec      `json:",omitempty"`
}

// Type codes used by the table (IANA registry).
const (
	TA = 1; TNS = 2; TMD = 3; TMF = 4; TCNAME = 5; TSOA = 6; TMB = 7; TMG = 8; TMR = 9; TNULL = 10
	TPTR = 12; THINFO = 13; TMINFO = 14; TMX = 15; TTXT = 16; TRP = 17; TAFSDB = 18; TX25 = 19
	TISDN = 20; TRT = 21; TNSAPPTR = 23; TSIG = 24; TKEY = 25; TPX = 26; TGPOS = 27; TAAAA = 28
	TLOC = 29; TNXT = 30; TEID = 31; TNIMLOC = 32; TSRV = 33; TNAPTR = 35; TKX = 36; TCERT = 37
	TDNAME = 39; TOPT = 41; TAPL = 42; TDS = 43; TSSHFP = 44; TIPSECKEY = 45; TRRSIG = 46
	TNSEC = 47; TDNSKEY = 48; TDHCID = 49; TNSEC3 = 50; TNSEC3PARAM = 51; TTLSA = 52; TSMIMEA = 53
	THIP = 55; TNINFO = 56; TRKEY = 57; TTALINK = 58; TCDS = 59; TCDNSKEY = 60; TOPENPGPKEY = 61
	TCSYNC = 62; TZONEMD = 63; TSVCB = 64; THTTPS = 65; TSPF = 99; TUINFO = 100; TUID = 101
	TGID = 102; TNID = 104; TL32 = 105; TL64 = 106; TLP = 107; TEUI48 = 108; TEUI64 = 109
	TNXNAME = 128; TTKEY = 249; TTSIG = 250; TANY = 255; TURI = 256; TCAA = 257; TAVC = 258
	TAMTRELAY = 260; TRESINFO = 261; TTA = 32768; TDLV = 32769
	TPrivate = 65280 // harness-registered private type
)

func one(goName string, k Kind) []FieldSpec { return []FieldSpec{{Go: goName, K: k}} }

var sigLayout = []FieldSpec{
	{Go: "TypeCovered", K: U16, Hint: "type"}, {Go: "Algorithm", K: U8, Hint: "alg"}, {Go: "Labels", K: U8},
	{Go: "OrigTtl", K: U32}, {Go: "Expiration", K: U32}, {Go: "Inception", K: U32}, {Go: "KeyTag", K: U16},
	{Go: "SignerName", K: NameU}, {Go: "Signature", K: Rest, R: ReprB64},
}
var keyLayout = []FieldSpec{
	{Go: "Flags", K: U16, Hint: "keyflags"}, {Go: "Protocol", K: U8, Hint: "proto"}, {Go: "Algorithm", K: U8, Hint: "alg"},
	{Go: "PublicKey", K: Rest, R: ReprB64},
}
var dsLayout = []FieldSpec{
	{Go: "KeyTag", K: U16}, {Go: "Algorithm", K: U8, Hint: "alg"}, {Go: "DigestType", K: U8, Hint: "digesttype"},
	{Go: "Digest", K: Rest, R: ReprHex},
}
var tlsaLayout = []FieldSpec{
	{Go: "Usage", K: U8}, {Go: "Selector", K: U8}, {Go: "MatchingType", K: U8}, {Go: "Certificate", K: Rest, R: ReprHex},
}
var nsecLayout = []FieldSpec{{Go: "NextDomain", K: NameU}, {Go: "TypeBitMap", K: Bitmap}}
var txtLayout = []FieldSpec{{Go: "Txt", K: Strs}}
var svcbLayout = []FieldSpec{{Go: "Priority", K: U16}, {Go: "Target", K: NameU}, {Go: "Value", K: Params}}

// Layout is the RFC field layout of every registered type.
var Layout = map[uint16][]FieldSpec{
	TA:     {{Go: "A", K: IPv4}},
	TAAAA:  {{Go: "AAAA", K: IPv6}},
	TNS:    one("Ns", NameC),
	TMD:    one("Md", NameC),
	TMF:    one("Mf", NameC),
	TCNAME: one("Target", NameC),
	TMB:    one("Mb", NameC),
	TMG:    one("Mg", NameC),
	TMR:    one("Mr", NameC),
	TPTR:   one("Ptr", NameC),
	TMINFO: {{Go: "Rmail", K: NameC}, {Go: "Email", K: NameC}},
	TMX:    {{Go: "Preference", K: U16}, {Go: "Mx", K: NameC}},
	TSOA: {{Go: "Ns", K: NameC}, {Go: "Mbox", K: NameC}, {Go: "Serial", K: U32}, {Go: "Refresh", K: U32},
		{Go: "Retry", K: U32}, {Go: "Expire", K: U32}, {Go: "Minttl", K: U32}},
	THINFO:   {{Go: "Cpu", K: Str}, {Go: "Os", K: Str}},
	TTXT:     txtLayout,
	TSPF:     txtLayout,
	TAVC:     txtLayout,
	TRESINFO: txtLayout,
	TNINFO:   {{Go: "ZSData", K: Strs}},
	TNULL:    {{Go: "Data", K: Rest, R: ReprRaw}},
	TAFSDB:   {{Go: "Subtype", K: U16}, {Go: "Hostname", K: NameU}},
	TRP:      {{Go: "Mbox", K: NameU}, {Go: "Txt", K: NameU}},
	TX25:     {{Go: "PSDNAddress", K: Str, Hint: "x25"}},
	TISDN:    {{Go: "Address", K: Str}, {Go: "SubAddress", K: Str}},
	TRT:      {{Go: "Preference", K: U16}, {Go: "Host", K: NameU}},
	TNSAPPTR: one("Ptr", NameU),
	TPX:      {{Go: "Preference", K: U16}, {Go: "Map822", K: NameU}, {Go: "Mapx400", K: NameU}},
	TGPOS:    {{Go: "Longitude", K: Str, Hint: "gpos"}, {Go: "Latitude", K: Str, Hint: "gpos"}, {Go: "Altitude", K: Str, Hint: "gpos"}},
	TLOC: {{Go: "Version", K: U8, Hint: "locver"}, {Go: "Size", K: U8, Hint: "locsize"}, {Go: "HorizPre", K: U8, Hint: "locsize"},
		{Go: "VertPre", K: U8, Hint: "locsize"}, {Go: "Latitude", K: U32, Hint: "loclat"}, {Go: "Longitude", K: U32, Hint: "loclon"},
		{Go: "Altitude", K: U32}},
	TSRV: {{Go: "Priority", K: U16}, {Go: "Weight", K: U16}, {Go: "Port", K: U16}, {Go: "Target", K: NameU}},
	TNAPTR: {{Go: "Order", K: U16}, {Go: "Preference", K: U16}, {Go: "Flags", K: Str}, {Go: "Service", K: Str},
		{Go: "Regexp", K: Str}, {Go: "Replacement", K: NameU}},
	TKX:      {{Go: "Preference", K: U16}, {Go: "Exchanger", K: NameU}},
	TCERT:    {{Go: "Type", K: U16, Hint: "certtype"}, {Go: "KeyTag", K: U16}, {Go: "Algorithm", K: U8, Hint: "alg"}, {Go: "Certificate", K: Rest, R: ReprB64}},
	TDNAME:   one("Target", NameU),
	TAPL:     {{Go: "Prefixes", K: APLs}},
	TDS:      dsLayout,
	TCDS:     dsLayout,
	TDLV:     dsLayout,
	TTA:      dsLayout,
	TSSHFP:   {{Go: "Algorithm", K: U8}, {Go: "Type", K: U8}, {Go: "FingerPrint", K: Rest, R: ReprHex}},
	TIPSECKEY: {{Go: "Precedence", K: U8}, {Go: "GatewayType", K: U8, Hint: "gwtype"}, {Go: "Algorithm", K: U8},
		{Go: "Gateway", K: GW}, {Go: "PublicKey", K: Rest, R: ReprB64}},
	TAMTRELAY:   {{Go: "Precedence", K: U8}, {Go: "GatewayType", K: U8, Hint: "amtgwtype"}, {Go: "Gateway", K: GW}},
	TRRSIG:      sigLayout,
	TSIG:        sigLayout,
	TNSEC:       nsecLayout,
	TNXT:        nsecLayout,
	TDNSKEY:     keyLayout,
	TKEY:        keyLayout,
	TCDNSKEY:    keyLayout,
	TRKEY:       keyLayout,
	TDHCID:      {{Go: "Digest", K: Rest, R: ReprB64}},
	TOPENPGPKEY: {{Go: "PublicKey", K: Rest, R: ReprB64}},
	TNSEC3: {{Go: "Hash", K: U8, Hint: "nsec3hash"}, {Go: "Flags", K: U8}, {Go: "Iterations", K: U16},
		{Go: "Salt", K: L8, R: ReprHex, LenGo: "SaltLength"}, {Go: "NextDomain", K: L8, R: ReprB32, LenGo: "HashLength", Hint: "nsec3next"},
		{Go: "TypeBitMap", K: Bitmap}},
	TNSEC3PARAM: {{Go: "Hash", K: U8, Hint: "nsec3hash"}, {Go: "Flags", K: U8}, {Go: "Iterations", K: U16},
		{Go: "Salt", K: L8, R: ReprHex, LenGo: "SaltLength"}},
	TTLSA:   tlsaLayout,
	TSMIMEA: tlsaLayout,
	THIP:    {{Go: "HIP", K: HIPHdr}, {Go: "RendezvousServers", K: Names}},
	TTALINK: {{Go: "PreviousName", K: NameU}, {Go: "NextName", K: NameU}},
	TCSYNC:  {{Go: "Serial", K: U32}, {Go: "Flags", K: U16}, {Go: "TypeBitMap", K: Bitmap}},
	TZONEMD: {{Go: "Serial", K: U32}, {Go: "Scheme", K: U8}, {Go: "Hash", K: U8}, {Go: "Digest", K: Rest, R: ReprHex}},
	TSVCB:   svcbLayout,
	THTTPS:  svcbLayout,
	TUINFO:  {{Go: "Uinfo", K: Str}},
	TUID:    {{Go: "Uid", K: U32}},
	TGID:    {{Go: "Gid", K: U32}},
	TEID:    {{Go: "Endpoint", K: Rest, R: ReprHex}},
	TNIMLOC: {{Go: "Locator", K: Rest, R: ReprHex}},
	TNID:    {{Go: "Preference", K: U16}, {Go: "NodeID", K: U64}},
	TL64:    {{Go: "Preference", K: U16}, {Go: "Locator64", K: U64}},
	TL32:    {{Go: "Preference", K: U16}, {Go: "Locator32", K: IPv4}},
	TLP:     {{Go: "Preference", K: U16}, {Go: "Fqdn", K: NameU}},
	TEUI48:  {{Go: "Address", K: U48}},
	TEUI64:  {{Go: "Address", K: U64}},
	TURI:    {{Go: "Priority", K: U16}, {Go: "Weight", K: U16}, {Go: "Target", K: Rest, R: ReprOctet}},
	TCAA:    {{Go: "Flag", K: U8}, {Go: "Tag", K: Str, Hint: "caatag"}, {Go: "Value", K: Rest, R: ReprOctet}},
	TTKEY: {{Go: "Algorithm", K: NameU}, {Go: "Inception", K: U32}, {Go: "Expiration", K: U32}, {Go: "Mode", K: U16},
		{Go: "Error", K: U16}, {Go: "Key", K: L16, R: ReprHex, LenGo: "KeySize"}, {Go: "OtherData", K: L16, R: ReprHex, LenGo: "OtherLen"}},
	TTSIG: {{Go: "Algorithm", K: NameU}, {Go: "TimeSigned", K: U48}, {Go: "Fudge", K: U16},
		{Go: "MAC", K: L16, R: ReprHex, LenGo: "MACSize"}, {Go: "OrigId", K: U16}, {Go: "Error", K: U16},
		{Go: "OtherData", K: L16, R: ReprHex, LenGo: "OtherLen"}},
	TOPT:     {{Go: "Option", K: Opts}},
	TANY:     {},
	TNXNAME:  {},
	TPrivate: {{Go: "Data", K: Rest, R: ReprPriv}},
}

// unknownLayout is RFC 3597: the RDATA is opaque.
var unknownLayout = []FieldSpec{{Go: "Rdata", K: Rest, R: ReprHex}}

// LayoutOf returns the layout and whether the type is in the table.
func LayoutOf(t uint16) ([]FieldSpec, bool) {
	l, ok := Layout[t]
	if !ok {
		return unknownLayout, false
	}
	return l, true
}

// RFC1035Compressible is the set of types whose RDATA names may be compressed (RFC 3597 section 4).
var RFC1035Compressible = map[uint16]bool{TNS: true, TMD: true, TMF: true, TCNAME: true, TSOA: true, TMB: true,
	TMG: true, TMR: true, TPTR: true, TMINFO: true, TMX: true}

// Header flag bits.
const (
	FlagQR = 1 << 15
	FlagAA = 1 << 10
	FlagTC = 1 << 9
	FlagRD = 1 << 8
	FlagRA = 1 << 7
	FlagZ  = 1 << 6
	FlagAD = 1 << 5
	FlagCD = 1 << 4
)

// Opcode of the flag word.
func (m *Msg) Opcode() int { return int(m.Flags>>11) & 0xF }

// Opt returns the index of the first OPT record in the additional section, or -1.
func (m *Msg) Opt() int {
	for i := range m.Ex {
		if m.Ex[i].Type == TOPT {
			return i
		}
	}
	return -1
}

// Sections returns pointers to the three record sections.
func (m *Msg) Sections() [3]*[]Rec { return [3]*[]Rec{&m.An, &m.Ns, &m.Ex} }

// AllRecs returns all records in section order.
func (m *Msg) AllRecs() []Rec {
	var out []Rec
	out = append(out, m.An...)
	out = append(out, m.Ns...)
	out = append(out, m.Ex...)
	return out
}
