package wiremodel

import (
	"encoding/binary"
	"errors"
	"fmt"
)

// Ptr is one compression pointer met while reading a name.
type Ptr struct {
	At     int // offset of the two pointer octets
	Target int
}

// NameRef records how one name of a message was read.
type NameRef struct {
	Start   int    // offset of the first octet of the name
	End     int    // offset just after the name in the enclosing stream
	Ctx     string // "question", "owner" or "rdata"
	RRType  uint16 // type of the record (owner / rdata contexts)
	Section int    // 0 question, 1 answer, 2 authority, 3 additional
	Ptrs    []Ptr
	Labels  []int // offset of the length octet of every label, in reading order
	Name    Name
}

// Trace is everything Decode learnt about the names of a message.
type Trace struct {
	Names []NameRef
	// RdataSpan[i] is the [start,end) span of the RDATA of the i-th record (all sections in order).
	RdataSpan [][2]int
	RRStart   []int
}

var (
	ErrShort        = errors.New("wiremodel: message too short")
	ErrBadLabel     = errors.New("wiremodel: bad label type")
	ErrPtrLoop      = errors.New("wiremodel: too many compression pointers")
	ErrNameTooLong  = errors.New("wiremodel: name longer than 255 octets")
	ErrRdata        = errors.New("wiremodel: RDATA does not match its layout")
	ErrNonCanonical = errors.New("wiremodel: non-canonical encoding")
)

// ReadName reads a possibly compressed name at off.
func ReadName(msg []byte, off int) (n Name, ref NameRef, err error) {
	ref.Start = off
	ref.End = -1
	cur := off
	total := 1
	for hops := 0; ; {
		if cur >= len(msg) {
			return nil, ref, ErrShort
		}
		c := int(msg[cur])
		switch c & 0xC0 {
		case 0x00:
			if c == 0 {
				if ref.End < 0 {
					ref.End = cur + 1
				}
				ref.Name = n
				return n, ref, nil
			}
			if cur+1+c > len(msg) {
				return nil, ref, ErrShort
			}
			total += 1 + c
			if total > 255 {
				return nil, ref, ErrNameTooLong
			}
			ref.Labels = append(ref.Labels, cur)
			n = append(n, append([]byte(nil), msg[cur+1:cur+1+c]...))
			cur += 1 + c
		case 0xC0:
			if cur+2 > len(msg) {
				return nil, ref, ErrShort
			}
			t := (c&0x3F)<<8 | int(msg[cur+1])
			ref.Ptrs = append(ref.Ptrs, Ptr{At: cur, Target: t})
			if ref.End < 0 {
				ref.End = cur + 2
			}
			hops++
			if hops > 127 {
				return nil, ref, ErrPtrLoop
			}
			cur = t
		default:
			return nil, ref, ErrBadLabel
		}
	}
}

// DecodeBitmap parses RFC 4034 4.1.2 windows strictly.
func DecodeBitmap(b []byte) ([]uint16, error) {
	var out []uint16
	last := -1
	for i := 0; i < len(b); {
		if i+2 > len(b) {
			return nil, ErrRdata
		}
		w, n := int(b[i]), int(b[i+1])
		i += 2
		if w <= last || n < 1 || n > 32 || i+n > len(b) {
			return nil, ErrRdata
		}
		if b[i+n-1] == 0 {
			return nil, ErrNonCanonical
		}
		for j := 0; j < n; j++ {
			for k := 0; k < 8; k++ {
				if b[i+j]&(0x80>>k) != 0 {
					out = append(out, uint16(w<<8|j*8+k))
				}
			}
		}
		i += n
		last = w
	}
	return out, nil
}

type dec struct {
	msg   []byte
	trace *Trace
}

// decodeRdata decodes msg[off:end] by the layout of type t.
func (d *dec) decodeRdata(t uint16, off, end int, section int) ([]Field, error) {
	layout, _ := LayoutOf(t)
	var fields []Field
	need := func(n int) error {
		if off+n > end {
			return ErrRdata
		}
		return nil
	}
	readName := func(k Kind) (Name, error) {
		n, ref, err := ReadName(d.msg, off)
		if err != nil {
			return nil, err
		}
		if ref.End > end {
			return nil, ErrRdata
		}
		ref.Ctx, ref.RRType, ref.Section = "rdata", t, section
		if d.trace != nil {
			d.trace.Names = append(d.trace.Names, ref)
		}
		off = ref.End
		return n, nil
	}
	for _, spec := range layout {
		f := Field{K: spec.K}
		switch spec.K {
		case U8:
			if err := need(1); err != nil {
				return nil, err
			}
			f.U = uint64(d.msg[off])
			off++
		case U16:
			if err := need(2); err != nil {
				return nil, err
			}
			f.U = uint64(binary.BigEndian.Uint16(d.msg[off:]))
			off += 2
		case U32:
			if err := need(4); err != nil {
				return nil, err
			}
			f.U = uint64(binary.BigEndian.Uint32(d.msg[off:]))
			off += 4
		case U48:
			if err := need(6); err != nil {
				return nil, err
			}
			for i := 0; i < 6; i++ {
				f.U = f.U<<8 | uint64(d.msg[off+i])
			}
			off += 6
		case U64:
			if err := need(8); err != nil {
				return nil, err
			}
			f.U = binary.BigEndian.Uint64(d.msg[off:])
			off += 8
		case NameC, NameU:
			n, err := readName(spec.K)
			if err != nil {
				return nil, err
			}
			f.N = n
		case Names:
			for off < end {
				n, err := readName(spec.K)
				if err != nil {
					return nil, err
				}
				f.NL = append(f.NL, n)
			}
		case Str:
			if err := need(1); err != nil {
				return nil, err
			}
			l := int(d.msg[off])
			if err := need(1 + l); err != nil {
				return nil, err
			}
			f.B = append([]byte{}, d.msg[off+1:off+1+l]...)
			off += 1 + l
		case Strs:
			for off < end {
				l := int(d.msg[off])
				if err := need(1 + l); err != nil {
					return nil, err
				}
				f.L = append(f.L, append([]byte{}, d.msg[off+1:off+1+l]...))
				off += 1 + l
			}
		case Rest:
			f.B = append([]byte{}, d.msg[off:end]...)
			off = end
		case L8:
			if err := need(1); err != nil {
				return nil, err
			}
			l := int(d.msg[off])
			if err := need(1 + l); err != nil {
				return nil, err
			}
			f.B = append([]byte{}, d.msg[off+1:off+1+l]...)
			off += 1 + l
		case L16:
			if err := need(2); err != nil {
				return nil, err
			}
			l := int(binary.BigEndian.Uint16(d.msg[off:]))
			if err := need(2 + l); err != nil {
				return nil, err
			}
			f.B = append([]byte{}, d.msg[off+2:off+2+l]...)
			off += 2 + l
		case IPv4:
			if err := need(4); err != nil {
				return nil, err
			}
			f.B = append([]byte{}, d.msg[off:off+4]...)
			off += 4
		case IPv6:
			if err := need(16); err != nil {
				return nil, err
			}
			f.B = append([]byte{}, d.msg[off:off+16]...)
			off += 16
		case Bitmap:
			t, err := DecodeBitmap(d.msg[off:end])
			if err != nil {
				return nil, err
			}
			f.T = t
			off = end
		case GW:
			var variant uint64
			for i, s := range layout {
				if s.Hint == "gwtype" {
					variant = fields[i].U
				} else if s.Hint == "amtgwtype" {
					variant = fields[i].U & 0x7f
				}
			}
			f.U = variant
			switch variant {
			case 0:
			case 1:
				if err := need(4); err != nil {
					return nil, err
				}
				f.B = append([]byte{}, d.msg[off:off+4]...)
				off += 4
			case 2:
				if err := need(16); err != nil {
					return nil, err
				}
				f.B = append([]byte{}, d.msg[off:off+16]...)
				off += 16
			case 3:
				n, err := readName(NameU)
				if err != nil {
					return nil, err
				}
				f.N = n
			default:
				return nil, ErrRdata
			}
		case HIPHdr:
			if err := need(4); err != nil {
				return nil, err
			}
			hl := int(d.msg[off])
			f.U = uint64(d.msg[off+1])
			pl := int(binary.BigEndian.Uint16(d.msg[off+2:]))
			if err := need(4 + hl + pl); err != nil {
				return nil, err
			}
			f.B = append([]byte{}, d.msg[off+4:off+4+hl]...)
			f.B2 = append([]byte{}, d.msg[off+4+hl:off+4+hl+pl]...)
			off += 4 + hl + pl
		case APLs:
			for off < end {
				if err := need(4); err != nil {
					return nil, err
				}
				it := APLItem{Family: binary.BigEndian.Uint16(d.msg[off:]), Prefix: d.msg[off+2], Neg: d.msg[off+3]&0x80 != 0}
				l := int(d.msg[off+3] & 0x7f)
				if err := need(4 + l); err != nil {
					return nil, err
				}
				it.Afd = append([]byte{}, d.msg[off+4:off+4+l]...)
				f.APL = append(f.APL, it)
				off += 4 + l
			}
		case Opts, Params:
			for off < end {
				if err := need(4); err != nil {
					return nil, err
				}
				o := Option{Code: binary.BigEndian.Uint16(d.msg[off:])}
				l := int(binary.BigEndian.Uint16(d.msg[off+2:]))
				if err := need(4 + l); err != nil {
					return nil, err
				}
				o.Data = append([]byte{}, d.msg[off+4:off+4+l]...)
				f.Opts = append(f.Opts, o)
				off += 4 + l
			}
		default:
			return nil, fmt.Errorf("wiremodel: kind %d", spec.K)
		}
		fields = append(fields, f)
	}
	if off != end {
		return nil, ErrRdata
	}
	return fields, nil
}

// Decode reads a complete message strictly (every count honoured, every RDATA consumed exactly by
// its layout, no trailing octets) and follows compression pointers itself. trace may be nil.
func Decode(msg []byte, trace *Trace) (Msg, error) {
	var m Msg
	if len(msg) < 12 {
		return m, ErrShort
	}
	d := &dec{msg: msg, trace: trace}
	m.ID = binary.BigEndian.Uint16(msg)
	bits := binary.BigEndian.Uint16(msg[2:])
	m.Flags = bits &^ 0xF
	m.Rcode = int(bits & 0xF)
	qd := int(binary.BigEndian.Uint16(msg[4:]))
	counts := [3]int{int(binary.BigEndian.Uint16(msg[6:])), int(binary.BigEndian.Uint16(msg[8:])), int(binary.BigEndian.Uint16(msg[10:]))}
	off := 12
	for i := 0; i < qd; i++ {
		n, ref, err := ReadName(msg, off)
		if err != nil {
			return m, err
		}
		ref.Ctx, ref.Section = "question", 0
		if trace != nil {
			trace.Names = append(trace.Names, ref)
		}
		off = ref.End
		if off+4 > len(msg) {
			return m, ErrShort
		}
		m.Q = append(m.Q, Question{Name: n, Type: binary.BigEndian.Uint16(msg[off:]), Class: binary.BigEndian.Uint16(msg[off+2:])})
		off += 4
	}
	secs := m.Sections()
	for s := 0; s < 3; s++ {
		for i := 0; i < counts[s]; i++ {
			if trace != nil {
				trace.RRStart = append(trace.RRStart, off)
			}
			n, ref, err := ReadName(msg, off)
			if err != nil {
				return m, err
			}
			off = ref.End
			if off+10 > len(msg) {
				return m, ErrShort
			}
			r := Rec{Name: n, Type: binary.BigEndian.Uint16(msg[off:]), Class: binary.BigEndian.Uint16(msg[off+2:]), TTL: binary.BigEndian.Uint32(msg[off+4:])}
			ref.Ctx, ref.Section, ref.RRType = "owner", s+1, r.Type
			if trace != nil {
				trace.Names = append(trace.Names, ref)
			}
			rdl := int(binary.BigEndian.Uint16(msg[off+8:]))
			off += 10
			if off+rdl > len(msg) {
				return m, ErrShort
			}
			if trace != nil {
				trace.RdataSpan = append(trace.RdataSpan, [2]int{off, off + rdl})
			}
			if rdl == 0 {
				if l, _ := LayoutOf(r.Type); len(l) > 0 && !(len(l) == 1 && (l[0].K == Rest || l[0].K == Strs || l[0].K == Opts || l[0].K == APLs || l[0].K == Bitmap)) {
					r.NoRdata = true
				} else {
					f, err := d.decodeRdata(r.Type, off, off, s+1)
					if err != nil {
						return m, err
					}
					r.Fields = f
				}
			} else {
				f, err := d.decodeRdata(r.Type, off, off+rdl, s+1)
				if err != nil {
					return m, err
				}
				r.Fields = f
			}
			off += rdl
			*secs[s] = append(*secs[s], r)
		}
	}
	if off != len(msg) {
		return m, fmt.Errorf("wiremodel: %d trailing octets", len(msg)-off)
	}
	if o := m.Opt(); o >= 0 {
		m.Rcode |= int(m.Ex[o].TTL>>24) << 4
		// the model keeps the extended RCODE in Msg.Rcode only
		m.Ex[o].TTL &= 0x00FFFFFF
	}
	return m, nil
}
