package wiremodel

// EncodeCompressed is an independent compressing encoder used to build *inputs*: every name
// (owners, question names and – when rdataAll is set – names in the RDATA of every type) is
// replaced by a pointer to an earlier identical suffix (octet-for-octet, so the decoded message is
// unchanged) when one exists below offset 16384. RDLENGTH is the compressed length.
func EncodeCompressed(m Msg, rdataAll bool) ([]byte, error) {
	if _, err := Encode(m); err != nil {
		return nil, err
	}
	table := map[string]int{}
	out := make([]byte, 0, 512)
	putName := func(n Name, compress bool) {
		for i := range n {
			key := string(EncodeName(n[i:]))
			if off, ok := table[key]; ok && compress {
				out = append(out, 0xC0|byte(off>>8), byte(off))
				return
			}
			if len(out) < 16384 {
				if _, ok := table[key]; !ok {
					table[key] = len(out)
				}
			}
			out = append(out, byte(len(n[i])))
			out = append(out, n[i]...)
		}
		out = append(out, 0)
	}
	opt := m.Opt()
	out = be16(out, m.ID)
	out = be16(out, m.Flags&^0xF|uint16(m.Rcode&0xF))
	out = be16(out, uint16(len(m.Q)))
	out = be16(out, uint16(len(m.An)))
	out = be16(out, uint16(len(m.Ns)))
	out = be16(out, uint16(len(m.Ex)))
	for _, q := range m.Q {
		putName(q.Name, true)
		out = be16(out, q.Type)
		out = be16(out, q.Class)
	}
	for si, sec := range [][]Rec{m.An, m.Ns, m.Ex} {
		for i, r := range sec {
			if si == 2 && i == opt {
				r.TTL = r.TTL&0x00FFFFFF | uint32(m.Rcode>>4)<<24
			}
			putName(r.Name, true)
			out = be16(out, r.Type)
			out = be16(out, r.Class)
			out = be32(out, r.TTL)
			lenAt := len(out)
			out = append(out, 0, 0)
			if !r.NoRdata {
				for _, f := range r.Fields {
					switch f.K {
					case NameC:
						putName(f.N, true)
					case NameU:
						putName(f.N, rdataAll)
					case Names:
						for _, n := range f.NL {
							putName(n, rdataAll)
						}
					case GW:
						if f.U == 3 {
							putName(f.N, rdataAll)
						} else {
							out = EncodeField(out, f)
						}
					default:
						out = EncodeField(out, f)
					}
				}
			}
			rdl := len(out) - lenAt - 2
			if rdl > 65535 {
				return nil, ErrUnrepresentable
			}
			out[lenAt], out[lenAt+1] = byte(rdl>>8), byte(rdl)
		}
	}
	return out, nil
}
