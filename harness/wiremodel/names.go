// Package wiremodel is an independent statement of the DNS wire layouts and of the presentation
// escaping rules, written from the RFC texts. Nothing in this package calls the library's
// pack / unpack / parse / label functions.
package wiremodel

import (
	"errors"
	"fmt"
	"net"
	"strings"
)

// Name is a sequence of wire labels (root excluded). The root name is the empty sequence.
type Name [][]byte

// special octets that the presentation format escapes with a single backslash inside names.
func nameSpecial(b byte) bool { return strings.IndexByte(`. '@;()"\`, b) >= 0 }

// EscLabel renders one wire label in the canonical presentation escaping:
// backslash before a special character, \DDD for octets outside 0x20..0x7e.
func EscLabel(l []byte) string {
	var sb strings.Builder
	for _, b := range l {
		switch {
		case nameSpecial(b):
			sb.WriteByte('\\')
			sb.WriteByte(b)
		case b < ' ' || b > '~':
			fmt.Fprintf(&sb, "\\%03d", b)
		default:
			sb.WriteByte(b)
		}
	}
	return sb.String()
}

// EscName renders a fully qualified name.
func EscName(n Name) string {
	if len(n) == 0 {
		return "."
	}
	var sb strings.Builder
	for _, l := range n {
		sb.WriteString(EscLabel(l))
		sb.WriteByte('.')
	}
	return sb.String()
}

var (
	ErrEmptyLabel = errors.New("empty label")
	ErrDangling   = errors.New("dangling or malformed escape")
	ErrDDDRange   = errors.New("\\DDD above 255")
)

func isDigit(b byte) bool { return b >= '0' && b <= '9' }

// UnescName reads a presentation name: labels separated by unescaped dots, \DDD = octet value,
// \c = the character c. It reports whether the text ends with an unescaped dot (fully
// qualified). "." is the root; "" is the empty relative name. Empty labels, a trailing lone
// backslash and \DDD > 255 are errors. A backslash followed by one or two digits and then a
// non-digit is read as "\c" with c the first digit (RFC 1035 5.1: \X where X is any character other
// than a digit ... the library reads it that way too; see C03 for what is asserted about it).
func UnescName(s string) (n Name, fq bool, err error) {
	if s == "." {
		return Name{}, true, nil
	}
	if s == "" {
		return Name{}, false, nil
	}
	var lab []byte
	started := false
	for i := 0; i < len(s); {
		c := s[i]
		switch {
		case c == '\\':
			if i+1 >= len(s) {
				return nil, false, ErrDangling
			}
			if i+3 < len(s)+0 && isDigit(s[i+1]) && isDigit(s[i+2]) && isDigit(s[i+3]) {
				v := int(s[i+1]-'0')*100 + int(s[i+2]-'0')*10 + int(s[i+3]-'0')
				if v > 255 {
					return nil, false, ErrDDDRange
				}
				lab = append(lab, byte(v))
				i += 4
			} else {
				lab = append(lab, s[i+1])
				i += 2
			}
			started = true
		case c == '.':
			if !started {
				return nil, false, ErrEmptyLabel
			}
			n = append(n, lab)
			lab = nil
			started = false
			i++
			if i == len(s) {
				return n, true, nil
			}
		default:
			lab = append(lab, c)
			started = true
			i++
		}
	}
	if started {
		n = append(n, lab)
	}
	return n, false, nil
}

// WireLen is the number of octets of the uncompressed wire form, root included.
func (n Name) WireLen() int {
	l := 1
	for _, x := range n {
		l += 1 + len(x)
	}
	return l
}

// Valid reports whether n respects the RFC 1035 limits (labels 1..63, total <= 255).
func (n Name) Valid() bool {
	for _, x := range n {
		if len(x) < 1 || len(x) > 63 {
			return false
		}
	}
	return n.WireLen() <= 255
}

// EncodeName is the uncompressed wire form.
func EncodeName(n Name) []byte {
	out := make([]byte, 0, n.WireLen())
	for _, x := range n {
		out = append(out, byte(len(x)))
		out = append(out, x...)
	}
	return append(out, 0)
}

// LowerBytes lower-cases ASCII letters, nothing else.
func LowerBytes(b []byte) []byte {
	o := make([]byte, len(b))
	for i, c := range b {
		if c >= 'A' && c <= 'Z' {
			c += 32
		}
		o[i] = c
	}
	return o
}

// Lower returns n with ASCII letters lower-cased.
func (n Name) Lower() Name {
	o := make(Name, len(n))
	for i, l := range n {
		o[i] = LowerBytes(l)
	}
	return o
}

// Equal compares octet for octet.
func (n Name) Equal(o Name) bool {
	if len(n) != len(o) {
		return false
	}
	for i := range n {
		if string(n[i]) != string(o[i]) {
			return false
		}
	}
	return true
}

// Clone copies the labels.
func (n Name) Clone() Name {
	o := make(Name, len(n))
	for i, l := range n {
		o[i] = append([]byte(nil), l...)
	}
	return o
}

// MustName parses a canonical presentation name (harness-internal convenience).
func MustName(s string) Name {
	n, _, err := UnescName(s)
	if err != nil {
		panic("wiremodel.MustName(" + s + "): " + err.Error())
	}
	return n
}

// ---------------------------------------------------------------------------------------------
// Alternative spellings of names handed to the library. A name field of a record is presentation
// text; the library accepts every legal spelling of an octet there (raw, \c, \DDD), not only the
// one its own decoder prints. Spelling(seed) makes ToLib/MsgToLib write names with a spelling that
// is a pure function of seed and of the order of the calls (seed 0: canonical, as EscName).

var (
	spellSeed uint64
	spellCtr  uint64
)

// Spelling selects the spelling used by ToLib/MsgToLib from now on and returns a function that
// restores the previous state. Not for concurrent use.
func Spelling(seed uint64) (restore func()) {
	ps, pc := spellSeed, spellCtr
	spellSeed, spellCtr = seed, 0
	return func() { spellSeed, spellCtr = ps, pc }
}

func mix(x uint64) uint64 {
	x += 0x9e3779b97f4a7c15
	x = (x ^ x>>30) * 0xbf58476d1ce4e5b9
	x = (x ^ x>>27) * 0x94d049bb133111eb
	return x ^ x>>31
}

// SpellRaw8 is the Spelling seed for: every octet >= 0x80 written raw, everything else as EscName
// writes it (one fixed spelling per name, so equal text still means equal octets).
const SpellRaw8 = 1 << 63

func libName(n Name) string {
	if spellSeed == 0 || len(n) == 0 {
		return EscName(n)
	}
	if spellSeed == SpellRaw8 {
		var sb strings.Builder
		for _, l := range n {
			for _, b := range l {
				if b >= 0x80 {
					sb.WriteByte(b)
				} else {
					sb.WriteString(EscLabel([]byte{b}))
				}
			}
			sb.WriteByte('.')
		}
		return sb.String()
	}
	spellCtr++
	h := mix(spellSeed ^ mix(spellCtr))
	if h&3 != 0 { // three names in four keep the canonical spelling
		return EscName(n)
	}
	var sb strings.Builder
	for _, l := range n {
		for _, b := range l {
			h = mix(h)
			switch k := h & 7; {
			case k == 0 || (k == 1 && (b == '.' || b == '\\')):
				sb.WriteByte('\\')
				sb.WriteByte('0' + b/100)
				sb.WriteByte('0' + b/10%10)
				sb.WriteByte('0' + b%10)
			case k == 2 && !isDigit(b) && b > ' ' && b < 0x7f:
				sb.WriteByte('\\')
				sb.WriteByte(b)
			case k == 3 && b >= 0x80:
				sb.WriteByte(b) // a raw 8-bit octet, as in a name typed as UTF-8 or Latin-1 text
			default:
				sb.WriteString(EscLabel([]byte{b}))
			}
		}
		sb.WriteByte('.')
	}
	return sb.String()
}

// libIP4 is an IPv4 address for a library field: 4 octets, or (under a Spelling) the 16-octet
// IPv4-in-IPv6 form that net.ParseIP and net.IPv4 return - both are the same address to the library.
func libIP4(b []byte) net.IP {
	ip := make(net.IP, 4)
	copy(ip, b)
	if spellSeed == 0 || spellSeed == SpellRaw8 {
		return ip
	}
	spellCtr++
	if mix(spellSeed^mix(spellCtr))&3 != 0 {
		return ip
	}
	return net.IPv4(ip[0], ip[1], ip[2], ip[3])
}

// libRelName is a name for a field to which the library itself applies Fqdn (the REPORTING agent
// domain): under a Spelling it is sometimes written without the final dot.
func libRelName(n Name) string {
	s := libName(n)
	if spellSeed == 0 || spellSeed == SpellRaw8 || len(n) == 0 {
		return s
	}
	spellCtr++
	if mix(spellSeed^mix(spellCtr))&1 == 0 {
		return s
	}
	return strings.TrimSuffix(s, ".")
}

// libSubnetNoise (under a Spelling): a client-subnet address as a program holds it - the whole
// address, host bits included; the packer applies the source netmask (RFC 7871 section 6).
func libSubnetNoise(ip []byte, mask int) {
	if spellSeed == 0 || spellSeed == SpellRaw8 {
		return
	}
	spellCtr++
	h := mix(spellSeed ^ mix(spellCtr))
	if h&1 == 0 {
		return
	}
	off := 0
	if len(ip) == 16 && mask <= 32 && ip[10] == 0xff && ip[11] == 0xff {
		off = 96 // IPv4 in 16-octet form
	}
	for bit := mask + off; bit < len(ip)*8; bit++ {
		h = mix(h)
		if h&1 == 1 {
			ip[bit/8] |= 0x80 >> uint(bit%8)
		}
	}
}
