package wiremodel

import (
	"encoding/binary"
	"errors"
	"fmt"
)

// ErrUnrepresentable is returned by Encode for models that have no wire form (the library must
// refuse them too): RCODE > 15 without OPT, RDATA > 65535 octets, invalid names, > 65535 records.
var ErrUnrepresentable = errors.New("model has no wire form")

func be16(b []byte, v uint16) []byte { return binary.BigEndian.AppendUint16(b, v) }
func be32(b []byte, v uint32) []byte { return binary.BigEndian.AppendUint32(b, v) }

// EncodeBitmap is RFC 4034 4.1.2: window blocks in ascending order, no empty blocks, no trailing
// zero octets. types must be ascending and unique.
func EncodeBitmap(types []uint16) []byte {
	var out []byte
	i := 0
	for i < len(types) {
		w := types[i] >> 8
		var block [32]byte
		n := 0
		for i < len(types) && types[i]>>8 == w {
			lo := types[i] & 0xff
			block[lo/8] |= 0x80 >> (lo % 8)
			if int(lo/8)+1 > n {
				n = int(lo/8) + 1
			}
			i++
		}
		out = append(out, byte(w), byte(n))
		out = append(out, block[:n]...)
	}
	return out
}

// EncodeField appends the wire form of one field (names uncompressed).
func EncodeField(out []byte, f Field) []byte {
	switch f.K {
	case U8:
		out = append(out, byte(f.U))
	case U16:
		out = be16(out, uint16(f.U))
	case U32:
		out = be32(out, uint32(f.U))
	case U48:
		out = append(out, byte(f.U>>40), byte(f.U>>32), byte(f.U>>24), byte(f.U>>16), byte(f.U>>8), byte(f.U))
	case U64:
		out = binary.BigEndian.AppendUint64(out, f.U)
	case NameC, NameU:
		out = append(out, EncodeName(f.N)...)
	case Names:
		for _, n := range f.NL {
			out = append(out, EncodeName(n)...)
		}
	case Str:
		out = append(out, byte(len(f.B)))
		out = append(out, f.B...)
	case Strs:
		for _, s := range f.L {
			out = append(out, byte(len(s)))
			out = append(out, s...)
		}
	case Rest, IPv4, IPv6:
		out = append(out, f.B...)
	case L8:
		out = append(out, byte(len(f.B)))
		out = append(out, f.B...)
	case L16:
		out = be16(out, uint16(len(f.B)))
		out = append(out, f.B...)
	case Bitmap:
		out = append(out, EncodeBitmap(f.T)...)
	case GW:
		switch f.U {
		case 1, 2:
			out = append(out, f.B...)
		case 3:
			out = append(out, EncodeName(f.N)...)
		}
	case HIPHdr:
		out = append(out, byte(len(f.B)), byte(f.U))
		out = be16(out, uint16(len(f.B2)))
		out = append(out, f.B...)
		out = append(out, f.B2...)
	case APLs:
		for _, it := range f.APL {
			out = be16(out, it.Family)
			out = append(out, it.Prefix)
			n := byte(len(it.Afd))
			if it.Neg {
				n |= 0x80
			}
			out = append(out, n)
			out = append(out, it.Afd...)
		}
	case Opts, Params:
		for _, o := range f.Opts {
			out = be16(out, o.Code)
			out = be16(out, uint16(len(o.Data)))
			out = append(out, o.Data...)
		}
	default:
		panic(fmt.Sprintf("wiremodel: unknown kind %d", f.K))
	}
	return out
}

// EncodeRdata is the uncompressed RDATA of r.
func EncodeRdata(r Rec) []byte {
	if r.NoRdata {
		return nil
	}
	var out []byte
	for _, f := range r.Fields {
		out = EncodeField(out, f)
	}
	return out
}

// EncodeRR is the uncompressed wire form of one record.
func EncodeRR(r Rec) ([]byte, error) {
	if !r.Name.Valid() {
		return nil, ErrUnrepresentable
	}
	if !r.NoRdata {
		for _, f := range r.Fields {
			if !fieldRepresentable(f) {
				return nil, ErrUnrepresentable
			}
		}
	}
	rd := EncodeRdata(r)
	if len(rd) > 65535 {
		return nil, ErrUnrepresentable
	}
	out := EncodeName(r.Name)
	out = be16(out, r.Type)
	out = be16(out, r.Class)
	out = be32(out, r.TTL)
	out = be16(out, uint16(len(rd)))
	return append(out, rd...), nil
}

// Encode is the canonical uncompressed wire form of a message (RFC 1035 4.1, RFC 6891 6.1.3 for
// the upper RCODE bits).
func Encode(m Msg) ([]byte, error) {
	if m.Rcode < 0 || m.Rcode > 0xFFF {
		return nil, ErrUnrepresentable
	}
	opt := m.Opt()
	if m.Rcode > 0xF && opt < 0 {
		return nil, ErrUnrepresentable
	}
	if len(m.Q) > 65535 || len(m.An) > 65535 || len(m.Ns) > 65535 || len(m.Ex) > 65535 {
		return nil, ErrUnrepresentable
	}
	out := make([]byte, 0, 512)
	out = be16(out, m.ID)
	out = be16(out, m.Flags&^0xF|uint16(m.Rcode&0xF))
	out = be16(out, uint16(len(m.Q)))
	out = be16(out, uint16(len(m.An)))
	out = be16(out, uint16(len(m.Ns)))
	out = be16(out, uint16(len(m.Ex)))
	for _, q := range m.Q {
		if !q.Name.Valid() {
			return nil, ErrUnrepresentable
		}
		out = append(out, EncodeName(q.Name)...)
		out = be16(out, q.Type)
		out = be16(out, q.Class)
	}
	for si, sec := range [][]Rec{m.An, m.Ns, m.Ex} {
		for i, r := range sec {
			if si == 2 && i == opt {
				r.TTL = r.TTL&0x00FFFFFF | uint32(m.Rcode>>4)<<24
			}
			b, err := EncodeRR(r)
			if err != nil {
				return nil, err
			}
			out = append(out, b...)
		}
	}
	return out, nil
}

// fieldRepresentable checks the length limits the wire format imposes on a field.
func fieldRepresentable(f Field) bool {
	switch f.K {
	case NameC, NameU:
		return f.N.Valid()
	case Names:
		for _, n := range f.NL {
			if !n.Valid() {
				return false
			}
		}
	case Str, L8:
		return len(f.B) <= 255
	case Strs:
		for _, s := range f.L {
			if len(s) > 255 {
				return false
			}
		}
	case L16:
		return len(f.B) <= 65535
	case GW:
		return f.U != 3 || f.N.Valid()
	case HIPHdr:
		return len(f.B) <= 255 && len(f.B2) <= 65535
	case APLs:
		for _, it := range f.APL {
			if len(it.Afd) > 127 {
				return false
			}
		}
	case Opts, Params:
		for _, o := range f.Opts {
			if len(o.Data) > 65535 {
				return false
			}
		}
	}
	return true
}
