package c11

import (
	"bytes"
	"encoding/base64"
	"encoding/binary"
	"fmt"
	"net"
	"time"

	"github.com/miekg/dns"
	"pgregory.net/rapid"

	"verif/harness/c18/msgspec"
	"verif/harness/pbt"
	ref "verif/harness/refcrypto"
)

// ---------------------------------------------------------------------------------------------
// client side over datagrams: one dns.Conn on an in-memory datagram socket, used for 1..3 signed
// queries one after the other. Between a query and its answer other datagrams arrive on the socket
// - late answers to earlier queries, unsigned noise, junk, things an attacker made - and the
// library reads on until the datagram with the right ID comes (the loops of
// Client.ExchangeWithConn / ExchangeConn call Conn.ReadMsg once per datagram).
//
// Oracle (from the statement; "tsigRequestMAC: running MAC ... client.go Conn"): the request MAC
// of everything read between one Conn.WriteMsg and the next is the MAC of the query written. Every
// single Conn.ReadMsg is judged by the reference verifier with that request MAC: a message that
// carries a TSIG comes back without an error only if its MAC is the RFC 8945 HMAC over the request
// MAC, the message and the TSIG variables, under the secret of the named key, inside the window;
// the correctly signed answer comes back without an error however many datagrams were read (and
// refused, or accepted) before it.

type dgramStep struct {
	Query  msgspec.Spec
	Via    string   // readmsg: Conn.WriteMsg, then one Conn.ReadMsg per datagram; exchange: Client.ExchangeWithConn
	Strays []string // datagrams with another ID that arrive before the answer
	Final  string   // the datagram with the ID of the query
}

type dgramCase struct {
	Steps   []dgramStep
	Key     int
	Fudge   uint16
	FlipBit int
	Junk    []byte // MAC octets of forged records
}

// dgramConn is a datagram socket in memory: every Write is one datagram handed to respond, whose
// return value is what arrives afterwards, one datagram per Read. Nothing blocks: reading from an
// empty socket is a timeout.
type dgramConn struct {
	inbox   [][]byte
	sent    [][]byte
	respond func(req []byte) [][]byte
}

type dgramTimeout struct{}

func (dgramTimeout) Error() string   { return "i/o timeout (no datagram left)" }
func (dgramTimeout) Timeout() bool   { return true }
func (dgramTimeout) Temporary() bool { return true }

func (c *dgramConn) Read(p []byte) (int, error) {
	if len(c.inbox) == 0 {
		return 0, dgramTimeout{}
	}
	d := c.inbox[0]
	c.inbox = c.inbox[1:]
	return copy(p, d), nil
}
func (c *dgramConn) Write(p []byte) (int, error) {
	d := append([]byte(nil), p...)
	c.sent = append(c.sent, d)
	if c.respond != nil {
		c.inbox = append(c.inbox, c.respond(d)...)
	}
	return len(p), nil
}
func (c *dgramConn) ReadFrom(p []byte) (int, net.Addr, error) {
	n, err := c.Read(p)
	return n, memAddr("server"), err
}
func (c *dgramConn) WriteTo(p []byte, _ net.Addr) (int, error) { return c.Write(p) }
func (c *dgramConn) Close() error                              { return nil }
func (c *dgramConn) LocalAddr() net.Addr                       { return memAddr("client") }
func (c *dgramConn) RemoteAddr() net.Addr                      { return memAddr("server") }
func (c *dgramConn) SetDeadline(time.Time) error               { return nil }
func (c *dgramConn) SetReadDeadline(time.Time) error           { return nil }
func (c *dgramConn) SetWriteDeadline(time.Time) error          { return nil }

var _ net.PacketConn = (*dgramConn)(nil)

var dgramStrays = []string{"plain", "late-answer", "late-answer", "junk-tsig", "junk-tsig", "reflected-other-id", "bound-other-id", "unsigned-error", "short", "undecodable"}
var dgramFinals = []string{"good", "good", "good", "good", "reflected", "reflected", "norequestmac", "previous-request-mac", "tampered", "wrongsecret", "late", "unsigned-error", "unsigned"}

func checkDgram(c dgramCase) error {
	if len(c.Steps) == 0 || len(c.Steps) > 3 || c.Fudge < 300 || len(c.Junk) < 16 {
		return nil
	}
	for _, s := range c.Steps {
		if len(s.Strays) > 5 {
			return nil
		}
	}
	key := e2eKeys[((c.Key%len(e2eKeys))+len(e2eKeys))%len(e2eKeys)]
	keyL, _ := labelsOf(key.name)
	algL, _ := labelsOf(key.alg)
	ring := func(n ref.Labels) ([]byte, bool) { return key.secret, n.EqualFold(keyL) }
	secrets := map[string]string{key.name: base64.StdEncoding.EncodeToString(key.secret)}
	sock := &dgramConn{}
	co := &dns.Conn{Conn: sock, TsigSecret: secrets, UDPSize: 4096}
	nStray, nTsigStray := 0, 0
	for _, s := range c.Steps {
		nStray += len(s.Strays)
		for _, k := range s.Strays {
			if k != "plain" && k != "short" && k != "undecodable" {
				nTsigStray++
			}
		}
	}
	pbt.Note([]byte(fmt.Sprintf("%v|%d|%d|%d|%x", c.Steps, c.Key, c.Fudge, c.FlipBit, c.Junk)), nStray > 0 || len(c.Steps) > 1,
		fmt.Sprintf("queries-on-socket=%d", len(c.Steps)), fmt.Sprintf("stray-datagrams=%d", min(nStray, 6)), fmt.Sprintf("stray-datagrams-with-tsig=%d", min(nTsigStray, 4)), "key="+key.name)

	// what the harness remembers of the previous query: its ID and MAC (a late answer to it is a
	// perfectly good message - for that query)
	prevMAC := bytes.Repeat([]byte{0x42}, macLen[key.alg])
	prevID := uint16(0x1111)
	for i, step := range c.Steps {
		spec := step.Query
		spec.Response, spec.Opcode, spec.Rcode, spec.TC = false, 0, 0, false
		spec.Answer, spec.Ns, spec.Extra = nil, nil, nil
		if len(spec.Question) == 0 {
			spec.Question = []msgspec.Q{{Name: 0, Type: 1, Class: 1}}
		}
		spec.Question = append([]msgspec.Q(nil), spec.Question[:1]...)
		spec.ID += uint16(i) * 263
		q := spec.Build()
		if pk, err := q.Pack(); err != nil || len(pk) > 300 {
			return nil
		}
		now := uint64(time.Now().Unix())
		q.SetTsig(key.name, key.alg, c.Fudge, int64(now))
		qid := q.Id

		var reqMAC []byte
		var datagrams [][]byte
		var kinds []string
		var buildErr error
		answer := func(id uint16) []byte {
			rs := msgspec.Spec{ID: id, Response: true, RD: spec.RD, Names: spec.Names, Question: spec.Question,
				Answer: []msgspec.Rec{{Kind: "A", Owner: spec.Question[0].Name, Class: 1, TTL: 30, Data: []byte{192, 0, 2, byte(i + 1)}}}}
			b, err := rs.Build().Pack()
			if err != nil {
				buildErr = err
			}
			return b
		}
		tsigFor := func(id uint16) ref.Tsig {
			return ref.Tsig{KeyName: keyL, Class: ref.ClassANY, Algorithm: algL, TimeSigned: now, Fudge: c.Fudge, OrigID: id}
		}
		sign := func(body []byte, t ref.Tsig, secret, req []byte) []byte {
			out, _, err := ref.TsigSign(body, t, secret, req, false)
			if err != nil {
				buildErr = err
			}
			return out
		}
		sock.respond = func(req []byte) [][]byte {
			rv := ref.TsigVerify(req, ring, nil, false, now, false)
			if !rv.OK {
				buildErr = fmt.Errorf("the query written by the Conn is not a correctly signed request: %s", rv.Why)
				return nil
			}
			reqMAC = rv.Tsig.MAC
			for j, kind := range step.Strays {
				other := qid ^ uint16(0x0101*(j+1))
				var d []byte
				switch kind {
				case "plain":
					d = answer(other)
				case "late-answer": // the answer to the previous query of this socket, correctly signed for that one
					d = sign(answer(prevID), tsigFor(prevID), key.secret, prevMAC)
					if prevID == qid {
						d = sign(answer(other), tsigFor(other), key.secret, prevMAC)
					}
				case "junk-tsig":
					t := tsigFor(other)
					t.MAC = append([]byte(nil), c.Junk[:min(len(c.Junk), macLen[key.alg])]...)
					d = t.AppendTo(answer(other))
				case "reflected-other-id": // the query as it was sent, under another header ID (the original ID restores it)
					d = append([]byte(nil), req...)
					binary.BigEndian.PutUint16(d, other)
				case "bound-other-id": // an answer with another ID that IS signed over this request's MAC
					d = sign(answer(other), tsigFor(other), key.secret, reqMAC)
				case "unsigned-error":
					t := tsigFor(other)
					t.Error = 16 + uint16(j&1)
					d = t.AppendTo(answer(other))
				case "short":
					d = []byte{byte(other >> 8), byte(other), 0x80, 0, 0}
				case "undecodable":
					d = answer(other)
					if len(d) > 14 {
						d = d[:len(d)-3]
					}
				default:
					d = answer(other)
				}
				datagrams = append(datagrams, d)
				kinds = append(kinds, kind)
			}
			var d []byte
			body := answer(qid)
			switch step.Final {
			case "good":
				d = sign(body, tsigFor(qid), key.secret, reqMAC)
			case "reflected": // the client's own signed query sent back: signed under the key, bound to no request
				d = append([]byte(nil), req...)
			case "norequestmac":
				d = sign(body, tsigFor(qid), key.secret, nil)
			case "previous-request-mac":
				d = sign(body, tsigFor(qid), key.secret, prevMAC)
			case "tampered":
				d = sign(body, tsigFor(qid), key.secret, reqMAC)
				if n := (len(body) - 12) * 8; n > 0 && d != nil {
					bit := ((c.FlipBit % n) + n) % n
					d[12+bit/8] ^= 1 << (bit % 8)
				}
			case "wrongsecret":
				d = sign(body, tsigFor(qid), append([]byte("z"), key.secret...), reqMAC)
			case "late":
				t := tsigFor(qid)
				t.TimeSigned = now - uint64(c.Fudge) - 120
				d = sign(body, t, key.secret, reqMAC)
			case "unsigned-error": // what anyone can write: error BADSIG / BADKEY, no MAC, the current time
				t := tsigFor(qid)
				t.Error = 16 + uint16(c.FlipBit&1)
				d = t.AppendTo(body)
			default: // unsigned
				d = body
			}
			datagrams = append(datagrams, d)
			kinds = append(kinds, "final:"+step.Final)
			return datagrams
		}

		// the reference verdict on one datagram, as an answer to the query just written
		verdict := func(d []byte) (hasTsig, ok bool, why string) {
			mp, err := ref.Walk(d)
			if err != nil || mp.AR == 0 || mp.RRs[len(mp.RRs)-1].Type != ref.TypeTSIG {
				return false, false, "no TSIG"
			}
			v := ref.TsigVerify(d, ring, reqMAC, false, uint64(time.Now().Unix()), false)
			return true, v.OK, v.Why
		}
		pbt.Class("via="+step.Via, "final="+step.Final)

		switch step.Via {
		case "exchange":
			cl := &dns.Client{Net: "udp", TsigSecret: secrets, Timeout: 30 * time.Second, UDPSize: 4096}
			r, _, err := cl.ExchangeWithConn(q, co)
			if buildErr != nil {
				return pbt.Errf("query %d of %d on one datagram Conn: %v", i+1, len(c.Steps), buildErr)
			}
			if len(sock.sent) != i+1 {
				return pbt.Errf("query %d: Client.ExchangeWithConn wrote %d datagrams", i+1, len(sock.sent)-i)
			}
			final := datagrams[len(datagrams)-1]
			hasTsig, ok, why := verdict(final)
			for _, k := range kinds[:len(kinds)-1] {
				pbt.Class("exchange-stray=" + k)
			}
			if err == nil && r != nil && r.IsTsig() != nil {
				if r.Id != qid {
					return pbt.Errf("query %d: Client.ExchangeWithConn returned a message with ID %d for the query %d", i+1, r.Id, qid)
				}
				if !ok {
					return pbt.Errf("query %d of %d on one datagram socket, after the stray datagrams %v: Client.ExchangeWithConn returned the %q datagram without an error although its MAC is not the RFC 8945 HMAC over the MAC of the query (reference: %s)",
						i+1, len(c.Steps), step.Strays, step.Final, why)
				}
			}
			if hasTsig && ok && step.Final == "good" && err != nil {
				return pbt.Errf("query %d of %d on one datagram socket, after the stray datagrams %v: Client.ExchangeWithConn refused the answer that is correctly signed over the MAC of the query: %v",
					i+1, len(c.Steps), step.Strays, err)
			}
			sock.inbox = nil
		default: // readmsg
			if err := co.WriteMsg(q); err != nil {
				return pbt.Errf("query %d: Conn.WriteMsg: %v", i+1, err)
			}
			if buildErr != nil {
				return pbt.Errf("query %d of %d on one datagram Conn: %v", i+1, len(c.Steps), buildErr)
			}
			for j, d := range datagrams {
				m, err := co.ReadMsg()
				hasTsig, ok, why := verdict(d)
				pbt.Class("readmsg-datagram=" + kinds[j])
				if len(d) < 12 {
					if err == nil {
						return pbt.Errf("query %d: Conn.ReadMsg returned no error for a datagram of %d octets", i+1, len(d))
					}
					continue
				}
				if !hasTsig {
					if err == nil && m != nil && m.IsTsig() != nil {
						return pbt.Errf("query %d: a datagram without TSIG (%s) decodes with one", i+1, kinds[j])
					}
					continue
				}
				if err == nil && m != nil && m.IsTsig() == nil {
					pbt.Class("datagram-decodes-without-tsig") // the caller can tell: nothing was verified
					continue
				}
				if err == nil && !ok {
					return pbt.Errf("query %d of %d on one datagram socket: Conn.ReadMsg number %d after the query (datagrams so far %v) returned the %q datagram without an error although its MAC is not the RFC 8945 HMAC over the MAC of the query (reference: %s)",
						i+1, len(c.Steps), j+1, kinds[:j], kinds[j], why)
				}
				if err != nil && ok {
					return pbt.Errf("query %d of %d on one datagram socket: Conn.ReadMsg number %d after the query (datagrams so far %v) refused the %q datagram, which is correctly signed over the MAC of the query: %v",
						i+1, len(c.Steps), j+1, kinds[:j], kinds[j], err)
				}
			}
			if _, err := co.ReadMsg(); err == nil {
				return pbt.Errf("query %d: Conn.ReadMsg returned a message from an empty socket", i+1)
			}
		}
		if reqMAC == nil {
			return pbt.Errf("query %d: nothing was written to the socket", i+1)
		}
		prevMAC, prevID = reqMAC, qid
	}
	return nil
}

func genDgram(t *rapid.T) dgramCase {
	c := dgramCase{}
	n := rapid.SampledFrom([]int{1, 1, 2, 2, 3}).Draw(t, "queries")
	for i := 0; i < n; i++ {
		s := dgramStep{Query: msgspec.Gen(t, msgspec.Opts{MaxSmall: 1, PlainNames: true})}
		s.Via = rapid.SampledFrom([]string{"readmsg", "readmsg", "exchange"}).Draw(t, "via")
		k := rapid.SampledFrom([]int{0, 1, 1, 2, 2, 3, 4}).Draw(t, "strays")
		for j := 0; j < k; j++ {
			s.Strays = append(s.Strays, rapid.SampledFrom(dgramStrays).Draw(t, "stray"))
		}
		s.Final = rapid.SampledFrom(dgramFinals).Draw(t, "final")
		c.Steps = append(c.Steps, s)
	}
	c.Key = rapid.IntRange(0, len(e2eKeys)-1).Draw(t, "key")
	c.Fudge = rapid.SampledFrom([]uint16{300, 300, 600, 65535}).Draw(t, "fudge")
	c.FlipBit = rapid.IntRange(0, 1<<20).Draw(t, "flip")
	c.Junk = rapid.SliceOfN(rapid.Byte(), 64, 64).Draw(t, "junk")
	return c
}

func init() {
	pbt.Register(pbt.Sub[dgramCase]{Name: "datagram-conn-sequence", Weight: 1.5, Gen: genDgram, Check: checkDgram})
}
