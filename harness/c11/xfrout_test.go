package c11

import (
	"encoding/base64"
	"encoding/binary"
	"errors"
	"fmt"
	"net"
	"strconv"
	"sync"
	"time"

	"github.com/miekg/dns"

	"verif/harness/pbt"
	ref "verif/harness/refcrypto"
)

// ---------------------------------------------------------------------------------------------
// Transfer.Out on the server side of a TSIG-signed stream: every envelope is signed when it is
// written, not when the transfer began. The handler hands the envelopes to Out with a pause in
// between and notes, inside each envelope, the clock reading it took just before handing it over;
// the TSIG of that envelope must carry a time signed that is not earlier (a receiver whose fudge is
// smaller than the pause would otherwise answer BADTIME / ErrTime to a correctly keyed transfer),
// and the envelopes must chain: first one over the request MAC and all variables, the others over
// the previous MAC and the timers (RFC 8945 5.3.1).

var (
	xfrOnce sync.Once
	xfrL    *pipeListener
	xfrErr  error
)

const xfrPause = 2200 * time.Millisecond

func startXfrServer() (*pipeListener, error) {
	xfrOnce.Do(func() {
		xfrL = &pipeListener{ch: make(chan net.Conn), closed: make(chan struct{})}
		secrets := map[string]string{}
		for _, k := range e2eKeys {
			secrets[k.name] = base64.StdEncoding.EncodeToString(k.secret)
		}
		h := dns.HandlerFunc(func(w dns.ResponseWriter, r *dns.Msg) {
			n := 2 + int(r.Id%2)
			ch := make(chan *dns.Envelope)
			tr := new(dns.Transfer)
			done := make(chan error, 1)
			go func() { done <- tr.Out(w, r, ch) }()
			for i := 0; i < n; i++ {
				if i > 0 {
					time.Sleep(xfrPause)
				}
				now := time.Now().Unix()
				ch <- &dns.Envelope{RR: []dns.RR{&dns.TXT{Hdr: dns.RR_Header{Name: "produced-at.", Rrtype: dns.TypeTXT, Class: dns.ClassCHAOS}, Txt: []string{strconv.FormatInt(now, 10)}}}}
			}
			close(ch)
			<-done
		})
		started := make(chan struct{})
		srv := &dns.Server{Listener: xfrL, Handler: h, TsigSecret: secrets, NotifyStartedFunc: func() { close(started) }}
		go func() {
			if err := srv.ActivateAndServe(); err != nil {
				xfrErr = err
			}
		}()
		select {
		case <-started:
		case <-time.After(10 * time.Second):
			xfrErr = errors.New("transfer server did not start")
		}
	})
	return xfrL, xfrErr
}

type xfrOutCase struct {
	Key   int
	ID    uint16 // low bit: 2 or 3 envelopes
	Fudge uint16
}

func checkXfrOut(c xfrOutCase) error {
	l, err := startXfrServer()
	if err != nil {
		return pbt.Errf("infrastructure: %v", err)
	}
	key := e2eKeys[((c.Key%len(e2eKeys))+len(e2eKeys))%len(e2eKeys)]
	keyL, _ := labelsOf(key.name)
	algL, _ := labelsOf(key.alg)
	ring := func(n ref.Labels) ([]byte, bool) { return key.secret, n.EqualFold(keyL) }
	q := new(dns.Msg)
	q.SetAxfr("zone.example.")
	q.Id = c.ID
	packed, _ := q.Pack()
	now := uint64(time.Now().Unix())
	req, reqMAC, _ := ref.TsigSign(packed, ref.Tsig{KeyName: keyL, Class: ref.ClassANY, Algorithm: algL, TimeSigned: now, Fudge: c.Fudge, OrigID: c.ID}, key.secret, nil, false)
	n := 2 + int(c.ID%2)
	pbt.Note([]byte(fmt.Sprintf("%d|%d|%d", c.Key, c.ID, c.Fudge)), true, fmt.Sprintf("envelopes=%d", n), "key="+key.name)
	sess := openSession(l)
	defer sess.c.Close()
	envs, xerr := sess.roundtrip(req, func([]byte) int { return n - 1 })
	if xerr != nil || len(envs) != n {
		return pbt.Errf("expected %d envelopes from Transfer.Out, got %d (%v)", n, len(envs), xerr)
	}
	prev := reqMAC
	for i, env := range envs {
		_, last, _, werr := ref.StripLast(env)
		if werr != nil || last.Type != ref.TypeTSIG {
			return pbt.Errf("envelope %d of a correctly keyed transfer carries no TSIG as last record", i)
		}
		t, perr := ref.ParseTsig(env, last, false)
		if perr != nil {
			return pbt.Errf("envelope %d: %v", i, perr)
		}
		if v := ref.TsigVerify(env, ring, prev, i > 0, t.TimeSigned, false); !v.OK {
			return pbt.Errf("envelope %d written by Transfer.Out does not verify against the previous MAC (timers only: %v): %s", i, i > 0, v.Why)
		}
		m := new(dns.Msg)
		if uerr := m.Unpack(env); uerr != nil || len(m.Answer) == 0 {
			return pbt.Errf("envelope %d does not unpack: %v", i, uerr)
		}
		produced, _ := strconv.ParseInt(m.Answer[0].(*dns.TXT).Txt[0], 10, 64)
		if int64(t.TimeSigned) < produced {
			return pbt.Errf("envelope %d of %d was handed to Transfer.Out at %d but its TSIG says it was signed at %d, %d s earlier (envelopes are %v apart): a receiver with a fudge below that gap rejects a correctly keyed transfer with ErrTime",
				i+1, n, produced, t.TimeSigned, produced-int64(t.TimeSigned), xfrPause)
		}
		if binary.BigEndian.Uint16(env) != c.ID {
			return pbt.Errf("envelope %d has ID %d, request %d", i, binary.BigEndian.Uint16(env), c.ID)
		}
		prev = t.MAC
	}
	return nil
}

func init() {
	pbt.RegisterEnum(pbt.Enum[xfrOutCase]{Name: "transfer-out-envelope-times", Check: checkXfrOut,
		Each: func(emit func(xfrOutCase)) { emit(xfrOutCase{Key: 0, ID: 4242, Fudge: 300}) }})
}
