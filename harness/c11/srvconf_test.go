package c11

import (
	"bytes"
	"crypto/hmac"
	"encoding/base64"
	"encoding/binary"
	"encoding/hex"
	"errors"
	"fmt"
	"net"
	"strings"
	"time"

	"github.com/miekg/dns"
	"pgregory.net/rapid"

	"verif/harness/c18/msgspec"
	"verif/harness/pbt"
	ref "verif/harness/refcrypto"
)

// ---------------------------------------------------------------------------------------------
// observe_at ResponseWriter.TsigStatus, as a function of the server's secret configuration: every
// case starts a dns.Server of its own (in-memory listener or in-memory PacketConn) configured with
// a nil TsigSecret, an explicitly empty map, a map with some keys of a name family (see
// keylookup_test.go), or a TsigProvider next to a nil / empty / contradicting map ("if defined it
// replaces TsigSecret"). Then a generated sequence runs: requests whose TSIG names a relative of the
// base name with a MAC under one of the secrets around, keys being put into / taken out of the
// live map between two requests (no request is in flight then), and - on the stream transport -
// new connections. The oracle keeps its own copy of what is configured at each moment.
//
// Asserted, whenever the server is configured with a map (empty included) or a provider: the
// handler sees TsigStatus() == nil only for a request the reference accepts under the secret of the
// named key as configured at that moment, and always for a correctly signed request whose key is
// configured as spelled. A server with a NIL map and no provider does no TSIG processing at all
// (TsigStatus() is nil for anything; the documented idiom needs a configured secret) - that
// configuration is generated and counted, not asserted.

type confStep struct {
	Op       string // req, add, del, reconnect
	Key      int    // add / del: index into Keys; req: the MAC is made with Keys[Key].Secret, out of range: with Fresh
	Owner    string // req: owner name of the TSIG, "" = request without TSIG
	Tampered bool   // req: the RD flag flipped after signing
}

type confCase struct {
	Transport string   // tcp, udp
	Conf      string   // nil-map, map, provider, provider+empty-map, provider+decoy-map
	Keys      []mapKey // the keys there are; Initial says which of them are configured at the start
	Initial   []int
	Steps     []confStep
	Fresh     []byte
	Alg       string
	Fudge     uint16
	Msg       msgspec.Spec
}

// ringProvider is a TsigProvider of the harness: HMAC keys by exact lower-case name.
type ringProvider map[string][]byte

func (p ringProvider) mac(msg []byte, t *dns.TSIG) ([]byte, error) {
	s, ok := p[strings.ToLower(t.Hdr.Name)]
	if !ok {
		return nil, dns.ErrSecret
	}
	al, err := labelsOf(t.Algorithm)
	if err != nil || ref.TsigHash(al) == nil {
		return nil, dns.ErrKeyAlg
	}
	h := hmac.New(ref.TsigHash(al), s)
	h.Write(msg)
	return h.Sum(nil), nil
}
func (p ringProvider) Generate(msg []byte, t *dns.TSIG) ([]byte, error) { return p.mac(msg, t) }
func (p ringProvider) Verify(msg []byte, t *dns.TSIG) error {
	want, err := p.mac(msg, t)
	if err != nil {
		return err
	}
	got, err := hex.DecodeString(t.MAC)
	if err != nil || !hmac.Equal(got, want) {
		return dns.ErrSig
	}
	return nil
}

func checkConf(c confCase) error {
	algL, aerr := labelsOf(c.Alg)
	if aerr != nil || ref.TsigHash(algL) == nil || c.Fudge < 300 || len(c.Keys) == 0 || len(c.Keys) > 8 || len(c.Steps) == 0 || len(c.Steps) > 12 {
		return nil
	}
	// configuration: the oracle's model (name as spelled -> secret) and what the server is given
	model := map[string][]byte{}
	var libmap map[string]string
	var provider dns.TsigProvider
	usesMap := c.Conf == "map"
	initial := func() {
		for _, i := range c.Initial {
			if i >= 0 && i < len(c.Keys) {
				model[c.Keys[i].Name] = c.Keys[i].Secret
			}
		}
	}
	switch c.Conf {
	case "nil-map":
	case "map":
		initial()
		libmap = map[string]string{}
		for k, s := range model {
			libmap[k] = base64.StdEncoding.EncodeToString(s)
		}
	case "provider", "provider+empty-map", "provider+decoy-map":
		initial()
		ring := ringProvider{}
		for k, s := range model {
			if k != strings.ToLower(k) || !strings.HasSuffix(k, ".") {
				delete(model, k) // the harness's provider knows canonical names only
				continue
			}
			ring[k] = s
		}
		provider = ring
		if c.Conf == "provider+empty-map" {
			libmap = map[string]string{}
		}
		if c.Conf == "provider+decoy-map" {
			// a map that contradicts the provider: every key there is, each with the secret the requests
			// that must fail are signed with
			libmap = map[string]string{}
			for _, k := range c.Keys {
				libmap[k.Name] = base64.StdEncoding.EncodeToString(c.Fresh)
			}
		}
	default:
		return nil
	}
	nReq := 0
	for _, s := range c.Steps {
		if s.Op == "req" {
			nReq++
		}
	}
	pbt.Note([]byte(fmt.Sprintf("%s|%s|%v|%v|%v|%x|%s|%v", c.Transport, c.Conf, c.Keys, c.Initial, c.Steps, c.Fresh, c.Alg, c.Msg)), nReq > 0,
		"transport="+c.Transport, "conf="+c.Conf, fmt.Sprintf("configured-at-start=%d", min(len(model), 3)), fmt.Sprintf("steps=%d", min(len(c.Steps), 6)))
	if nReq == 0 {
		return nil
	}

	started := make(chan struct{})
	srv := &dns.Server{Handler: dns.HandlerFunc(observingHandler), TsigSecret: libmap, TsigProvider: provider, ReadTimeout: time.Minute,
		IdleTimeout: func() time.Duration { return time.Minute }, NotifyStartedFunc: func() { close(started) }}
	var l *pipeListener
	var pc *memPacketConn
	if c.Transport == "udp" {
		pc = &memPacketConn{in: make(chan memPkt), out: make(chan memPkt, 8), closed: make(chan struct{})}
		srv.PacketConn = pc
		defer pc.Close()
	} else {
		l = &pipeListener{ch: make(chan net.Conn), closed: make(chan struct{})}
		srv.Listener = l
		defer l.Close()
	}
	go srv.ActivateAndServe()
	watchdog := time.After(60 * time.Second) // hang detection only
	select {
	case <-started:
	case <-watchdog:
		return pbt.Errf("infrastructure: server did not start")
	}
	var sess *session
	defer func() {
		if sess != nil {
			sess.c.Close()
		}
	}()
	exchange := func(req []byte) ([]byte, error) {
		if pc != nil {
			select {
			case pc.in <- memPkt{req, memAddr("client")}:
			case <-watchdog:
				return nil, errors.New("server does not read")
			}
			select {
			case k := <-pc.out:
				return k.b, nil
			case <-watchdog:
				return nil, errors.New("no reply")
			}
		}
		if sess == nil {
			a, b := net.Pipe()
			select {
			case l.ch <- b:
			case <-watchdog:
				return nil, errors.New("server does not accept")
			}
			a.SetDeadline(time.Now().Add(60 * time.Second))
			sess = &session{a}
		}
		r, err := sess.roundtrip(req, func([]byte) int { return 0 })
		if err != nil {
			return nil, err
		}
		return r[0], nil
	}

	connAge := 0 // requests served on the current connection
	for i, s := range c.Steps {
		switch s.Op {
		case "add", "del":
			if !usesMap || s.Key < 0 || s.Key >= len(c.Keys) {
				continue
			}
			k := c.Keys[s.Key]
			if s.Op == "add" {
				model[k.Name] = k.Secret
				libmap[k.Name] = base64.StdEncoding.EncodeToString(k.Secret)
				pbt.Class(fmt.Sprintf("key-added-while-running/conn-open=%v", sess != nil))
			} else {
				delete(model, k.Name)
				delete(libmap, k.Name)
				pbt.Class("key-removed-while-running")
			}
		case "reconnect":
			if sess != nil {
				sess.c.Close()
				sess, connAge = nil, 0
				pbt.Class("reconnect")
			}
		case "req":
			packed, qerr := udpQuery(c.Msg, c.Msg.ID+uint16(i)*131)
			if qerr != nil {
				return nil
			}
			now := uint64(time.Now().Unix())
			req, refOK, why, must := packed, false, "", false
			var reqMAC []byte
			var candNames []string
			if s.Owner != "" {
				ownerL, oerr := labelsOf(s.Owner)
				if oerr != nil || !strings.HasSuffix(s.Owner, ".") || strings.Contains(s.Owner, "\\") {
					continue
				}
				secret, signName := c.Fresh, "a secret of its own"
				if s.Key >= 0 && s.Key < len(c.Keys) {
					secret, signName = c.Keys[s.Key].Secret, fmt.Sprintf("the secret of %q", c.Keys[s.Key].Name)
				}
				t := ref.Tsig{KeyName: ownerL, Class: ref.ClassANY, Algorithm: algL, TimeSigned: now, Fudge: c.Fudge, OrigID: binary.BigEndian.Uint16(packed)}
				var serr error
				if req, reqMAC, serr = ref.TsigSign(packed, t, secret, nil, false); serr != nil {
					continue
				}
				if s.Tampered {
					req[2] ^= 1 // the RD flag: the request is routed as before, its octets are not the signed ones
				}
				var candidates [][]byte
				candidates, candNames = sameNameEntries(model, ownerL)
				refOK, why = refAcceptsAny(req, candidates, nil, false, now)
				exact, hasExact := model[s.Owner]
				must = refOK && hasExact && bytes.Equal(exact, secret)
				why = fmt.Sprintf("TSIG names %q, MAC made with %s, tampered=%v; reference: %s; configured entries of that name: %q", s.Owner, signName, s.Tampered, why, candNames)
			}
			resp, xerr := exchange(req)
			if xerr != nil {
				return pbt.Errf("step %d: no reply from the server: %v", i, xerr)
			}
			rm := new(dns.Msg)
			if uerr := rm.Unpack(resp); uerr != nil {
				return pbt.Errf("step %d: reply does not unpack: %v", i, uerr)
			}
			obs := ""
			for _, rr := range rm.Answer {
				if x, ok := rr.(*dns.TXT); ok && x.Hdr.Name == "observation." && len(x.Txt) == 1 {
					obs = x.Txt[0]
				}
			}
			if obs == "" {
				return pbt.Errf("step %d: reply carries no handler observation (rcode %d)", i, rm.Rcode)
			}
			has := strings.HasPrefix(obs, "has=true")
			verified := has && strings.HasSuffix(obs, "status=<nil>")
			history := describeSteps(c.Steps[:i])
			connAge++
			if s.Owner == "" {
				pbt.Class("request-without-tsig")
				if has {
					return pbt.Errf("step %d: the handler saw a TSIG in a request that has none: %s", i, obs)
				}
				continue
			}
			if !has {
				return pbt.Errf("step %d: the handler did not see the TSIG of the request: %s", i, obs)
			}
			pbt.Class(fmt.Sprintf("request: conf=%s ref-accepts=%v status-nil=%v", c.Conf, refOK, verified))
			if c.Conf == "nil-map" {
				pbt.Class("nil-map-and-no-provider: no TSIG processing (counted, not asserted)")
				continue
			}
			if verified && !refOK {
				return pbt.Errf("%s server, configuration %q, now configured %s; after [%s], request %d on its connection: ResponseWriter.TsigStatus() is nil for a request that was not verified against a configured key (%s)",
					c.Transport, c.Conf, describeMap(model), history, connAge, why)
			}
			if must && !verified {
				return pbt.Errf("%s server, configuration %q, now configured %s; after [%s], request %d on its connection: a correctly signed request under a key that is configured as spelled is reported with %q (%s)",
					c.Transport, c.Conf, describeMap(model), history, connAge, obs, why)
			}
			if verified {
				// the handler answered signed: the reply's MAC covers this request's MAC, under the same key
				cands, _ := sameNameEntries(model, mustLabels(s.Owner))
				if ok, rwhy := refAcceptsAny(resp, cands, reqMAC, false, uint64(time.Now().Unix())); !ok {
					return pbt.Errf("%s server, configuration %q: the signed reply to a verified request does not verify against the request MAC under the key %q (reference: %s)", c.Transport, c.Conf, s.Owner, rwhy)
				}
				pbt.Class("signed-reply-verified")
			}
		}
	}
	return nil
}

func mustLabels(s string) ref.Labels {
	l, _ := labelsOf(s)
	return l
}

func describeSteps(steps []confStep) string {
	var o []string
	for _, s := range steps {
		switch s.Op {
		case "req":
			if s.Owner == "" {
				o = append(o, "req(no TSIG)")
			} else {
				o = append(o, fmt.Sprintf("req(%s)", s.Owner))
			}
		case "add", "del":
			o = append(o, fmt.Sprintf("%s(key %d)", s.Op, s.Key))
		default:
			o = append(o, s.Op)
		}
	}
	return strings.Join(o, ", ")
}

func genConf(t *rapid.T) confCase {
	c := confCase{Msg: msgspec.Gen(t, msgspec.Opts{MaxSmall: 1, PlainNames: true})}
	c.Transport = rapid.SampledFrom([]string{"tcp", "tcp", "udp"}).Draw(t, "transport")
	c.Conf = rapid.SampledFrom([]string{"map", "map", "map", "map", "map", "map", "provider", "provider+empty-map", "provider+decoy-map", "nil-map"}).Draw(t, "conf")
	base := genBase(t)
	c.Keys = genKeyFamily(t, base, 4)
	// the base name itself is among the keys more often than not
	if rapid.SampledFrom([]bool{true, true, true, false}).Draw(t, "withbase") {
		c.Keys = append(c.Keys, mapKey{Name: fq(base), Secret: genFamilySecret(t)})
	}
	// (rapid's SampledFrom favours the front of the list)
	switch rapid.SampledFrom([]string{"some", "one", "empty", "some", "empty"}).Draw(t, "initial") {
	case "empty": // nothing configured at the start (an explicitly empty map)
	case "one":
		c.Initial = []int{rapid.IntRange(0, len(c.Keys)-1).Draw(t, "init")}
	default:
		for i := range c.Keys {
			if rapid.Bool().Draw(t, "init") {
				c.Initial = append(c.Initial, i)
			}
		}
	}
	anyKey := func(tag string) int { return rapid.SampledFrom([]int{0, 1, 2, 3, 4}).Draw(t, tag) % len(c.Keys) }
	// what is configured while the steps are drawn, so that a good share of the requests name a key
	// that is configured at that moment
	live := map[int]bool{}
	for _, i := range c.Initial {
		live[i] = true
	}
	liveKey := func() int {
		var on []int
		for i := range c.Keys {
			if live[i] {
				on = append(on, i)
			}
		}
		if len(on) == 0 {
			return anyKey("named")
		}
		return rapid.SampledFrom(on).Draw(t, "livekey")
	}
	req := func() confStep {
		s := confStep{Op: "req"}
		switch rapid.SampledFrom([]string{"named", "named", "relative", "relative", "named", "named-other-secret", "relative", "none"}).Draw(t, "reqkind") {
		case "none":
			// no TSIG
		case "named", "named-other-secret":
			// the TSIG names one of the keys there are (configured at this moment or not), as spelled
			s.Key = liveKey()
			if rapid.SampledFrom([]bool{false, false, false, true}).Draw(t, "maybe-not-configured") {
				s.Key = anyKey("named")
			}
			s.Owner = c.Keys[s.Key].Name
			if !strings.HasSuffix(s.Owner, ".") {
				s.Owner = fq(base)
			}
			if s.Owner == "" || rapid.SampledFrom([]bool{false, false, true}).Draw(t, "othersecret") {
				s.Key = rapid.IntRange(-1, len(c.Keys)-1).Draw(t, "signwith")
			}
		default:
			s.Owner = relative(t, base, rapid.SampledFrom(ownerRelations).Draw(t, "ownerrel"))
			s.Key = rapid.IntRange(-1, len(c.Keys)-1).Draw(t, "signwith")
		}
		s.Tampered = s.Owner != "" && rapid.SampledFrom([]int{0, 1, 2, 3, 4, 5, 6, 7, 8, 9}).Draw(t, "tampered") == 0
		return s
	}
	n := rapid.SampledFrom([]int{0, 1, 2, 3, 4, 5}).Draw(t, "steps")
	for i := 0; i < n; i++ {
		switch rapid.SampledFrom([]string{"add", "add", "del", "reconnect", "req", "req", "req", "req"}).Draw(t, "op") {
		case "add":
			k := anyKey("key")
			live[k] = true
			c.Steps = append(c.Steps, confStep{Op: "add", Key: k})
		case "del":
			k := liveKey()
			delete(live, k)
			c.Steps = append(c.Steps, confStep{Op: "del", Key: k})
		case "reconnect":
			c.Steps = append(c.Steps, confStep{Op: "reconnect"})
		default:
			c.Steps = append(c.Steps, req())
		}
	}
	c.Steps = append(c.Steps, req())
	c.Fresh = genFamilySecret(t)
	c.Alg = rapid.SampledFrom(algNames).Draw(t, "alg")
	c.Fudge = rapid.SampledFrom([]uint16{300, 300, 3600, 65535}).Draw(t, "fudge")
	return c
}

func init() {
	pbt.Register(pbt.Sub[confCase]{Name: "server-secret-configuration", Weight: 1, Gen: genConf, Check: checkConf})
}
