package c11

import (
	"crypto/hmac"
	"crypto/sha256"
	"encoding/base64"
	"encoding/hex"
	"errors"
	"fmt"

	"github.com/miekg/dns"
	"pgregory.net/rapid"

	"verif/harness/c18/msgspec"
	"verif/harness/pbt"
	ref "verif/harness/refcrypto"
)

// ---------------------------------------------------------------------------------------------
// (6) a message without TSIG is never reported as verified

type notsigCase struct {
	Msg     msgspec.Spec
	Secret  []byte
	ReqMAC  []byte
	Timers  bool
	Now     uint64
	SigLast bool // put a SIG(0)-shaped record (type 24) last, the closest relative of a TSIG
}

// keyring is a harness-side TsigProvider of the obvious shape: secrets by key name – including the
// empty name, which is what a record-less "TSIG" decodes to – and a default algorithm.
type keyring map[string][]byte

func (k keyring) mac(msg []byte, t *dns.TSIG) ([]byte, error) {
	s, ok := k[dns.CanonicalName(t.Hdr.Name)]
	if !ok {
		s, ok = k[t.Hdr.Name]
	}
	if !ok {
		return nil, errors.New("no such key")
	}
	h := hmac.New(sha256.New, s)
	h.Write(msg)
	return h.Sum(nil), nil
}
func (k keyring) Generate(msg []byte, t *dns.TSIG) ([]byte, error) { return k.mac(msg, t) }
func (k keyring) Verify(msg []byte, t *dns.TSIG) error {
	want, err := k.mac(msg, t)
	if err != nil {
		return err
	}
	got, err := hex.DecodeString(t.MAC)
	if err != nil || !hmac.Equal(got, want) {
		return errors.New("bad mac")
	}
	return nil
}

func checkNoTsig(c notsigCase) error {
	m := c.Msg.Build()
	if c.SigLast {
		m.Extra = append(m.Extra, &dns.SIG{RRSIG: dns.RRSIG{Hdr: dns.RR_Header{Name: ".", Rrtype: dns.TypeSIG, Class: dns.ClassANY}, Algorithm: 15, SignerName: "k.", KeyTag: 1,
			Signature: base64.StdEncoding.EncodeToString(make([]byte, 64))}})
	}
	packed, err := m.Pack()
	if err != nil {
		return nil
	}
	mp, werr := ref.Walk(packed)
	if werr != nil {
		return nil
	}
	for _, rr := range mp.RRs {
		if rr.Type == ref.TypeTSIG {
			return nil // cannot happen: the generator has no TSIG kind
		}
	}
	pbt.Note(append([]byte(fmt.Sprintf("%x|%x|%v|", c.Secret, c.ReqMAC, c.Timers)), packed...), mp.AR > 0,
		fmt.Sprintf("additional=%d", min(mp.AR, 3)), fmt.Sprintf("siglast=%v", c.SigLast), fmt.Sprintf("timers=%v", c.Timers))
	if err := libVerify(packed, c.Secret, c.ReqMAC, c.Timers, c.Now); err == nil {
		return pbt.Errf("TsigVerify reported a message without TSIG as verified (%d additional records, secret %d octets, timers only %v)", mp.AR, len(c.Secret), c.Timers)
	}
	ring := keyring{"": c.Secret, ".": c.Secret}
	if err := dns.VerifTsigVerifyAt(append([]byte(nil), packed...), ring, hex.EncodeToString(c.ReqMAC), c.Timers, c.Now); err == nil {
		return pbt.Errf("tsigVerify with a key-ring provider holding a secret for the empty name reported a message without TSIG as verified (%d additional records)", mp.AR)
	}
	return nil
}

func genNoTsig(t *rapid.T) notsigCase {
	c := notsigCase{Msg: msgspec.Gen(t, msgspec.Opts{})}
	c.Secret = genSecret(t, "secret")
	if rapid.Bool().Draw(t, "hasreq") {
		c.ReqMAC = rapid.SliceOfN(rapid.Byte(), 20, 20).Draw(t, "reqmac")
	}
	c.Timers = rapid.Bool().Draw(t, "timers")
	c.Now = rapid.Uint64Range(0, 1<<40).Draw(t, "now")
	c.SigLast = rapid.IntRange(0, 3).Draw(t, "siglast") == 0
	return c
}

func init() {
	pbt.Register(pbt.Sub[notsigCase]{Name: "no-tsig-never-verifies", Weight: 4, Gen: genNoTsig, Check: checkNoTsig})
}
