package c11

import (
	"crypto/hmac"
	"crypto/sha256"
	"encoding/base64"
	"encoding/hex"
	"errors"
	"fmt"

	"github.com/miekg/dns"
	"pgregory.net/rapid"

	"verif/harness/c18/msgspec"
	"verif/harness/pbt"
	ref "verif/harness/refcrypto"
)

// ---------------------------------------------------------------------------------------------
// (6) a message without TSIG is never reported as verified

type notsigCase struct {
	Msg     msgspec.Spec
	Secret  []byte
	ReqMAC  []byte
	Timers  bool
	Now     uint64
	SigLast bool // put a SIG(0)-shaped record (type 24) last, the closest relative of a TSIG
	// Last appends one more additional record, so that ARCOUNT > 0 and the record the library's
	// TSIG walk ends on is of a chosen kind: "opt" (what almost every real message ends with), "a",
	// "txt", "unk" (RFC 3597 type 65280), "empty-rdata" (an A-typed record of class NONE without
	// RDATA, as in an UPDATE prerequisite); "" leaves the generated message alone
	Last string
}

// acceptAll is the most permissive TsigProvider there can be (a test double, a provider that
// delegates the decision elsewhere): it calls every MAC right. What it is shown is recorded.
type acceptAll struct{ seen *[]dns.TSIG }

func (p acceptAll) Generate(msg []byte, t *dns.TSIG) ([]byte, error) { return []byte{1}, nil }
func (p acceptAll) Verify(msg []byte, t *dns.TSIG) error {
	*p.seen = append(*p.seen, *t)
	return nil
}

// keyring is a harness-side TsigProvider of the obvious shape: secrets by key name – including the
// empty name, which is what a record-less "TSIG" decodes to – and a default algorithm.
type keyring map[string][]byte

func (k keyring) mac(msg []byte, t *dns.TSIG) ([]byte, error) {
	s, ok := k[dns.CanonicalName(t.Hdr.Name)]
	if !ok {
		s, ok = k[t.Hdr.Name]
	}
	if !ok {
		return nil, errors.New("no such key")
	}
	h := hmac.New(sha256.New, s)
	h.Write(msg)
	return h.Sum(nil), nil
}
func (k keyring) Generate(msg []byte, t *dns.TSIG) ([]byte, error) { return k.mac(msg, t) }
func (k keyring) Verify(msg []byte, t *dns.TSIG) error {
	want, err := k.mac(msg, t)
	if err != nil {
		return err
	}
	got, err := hex.DecodeString(t.MAC)
	if err != nil || !hmac.Equal(got, want) {
		return errors.New("bad mac")
	}
	return nil
}

func checkNoTsig(c notsigCase) error {
	m := c.Msg.Build()
	if c.SigLast {
		m.Extra = append(m.Extra, &dns.SIG{RRSIG: dns.RRSIG{Hdr: dns.RR_Header{Name: ".", Rrtype: dns.TypeSIG, Class: dns.ClassANY}, Algorithm: 15, SignerName: "k.", KeyTag: 1,
			Signature: base64.StdEncoding.EncodeToString(make([]byte, 64))}})
	}
	switch c.Last {
	case "opt":
		hasOpt := false
		for _, rr := range m.Extra {
			hasOpt = hasOpt || rr.Header().Rrtype == dns.TypeOPT
		}
		if !hasOpt {
			m.SetEdns0(1232, true)
		} else if n := len(m.Extra); n > 0 { // move the OPT to the end
			for i, rr := range m.Extra {
				if rr.Header().Rrtype == dns.TypeOPT {
					m.Extra[i], m.Extra[n-1] = m.Extra[n-1], m.Extra[i]
					break
				}
			}
		}
	case "a":
		m.Extra = append(m.Extra, &dns.A{Hdr: dns.RR_Header{Name: "ns.example.", Rrtype: dns.TypeA, Class: dns.ClassINET, Ttl: 300}, A: []byte{192, 0, 2, 53}})
	case "txt":
		m.Extra = append(m.Extra, &dns.TXT{Hdr: dns.RR_Header{Name: ".", Rrtype: dns.TypeTXT, Class: dns.ClassANY}, Txt: []string{"hmac-sha256.", ""}})
	case "unk":
		m.Extra = append(m.Extra, &dns.RFC3597{Hdr: dns.RR_Header{Name: "k.", Rrtype: 65280, Class: dns.ClassANY}, Rdata: "0b686d61632d73686132353600"})
	case "empty-rdata":
		m.Extra = append(m.Extra, &dns.ANY{Hdr: dns.RR_Header{Name: "k.", Rrtype: dns.TypeA, Class: dns.ClassNONE}})
	}
	packed, err := m.Pack()
	if err != nil {
		return nil
	}
	mp, werr := ref.Walk(packed)
	if werr != nil {
		return nil
	}
	for _, rr := range mp.RRs {
		if rr.Type == ref.TypeTSIG {
			return nil // cannot happen: the generator has no TSIG kind
		}
	}
	pbt.Note(append([]byte(fmt.Sprintf("%x|%x|%v|", c.Secret, c.ReqMAC, c.Timers)), packed...), mp.AR > 0,
		fmt.Sprintf("additional=%d", min(mp.AR, 3)), fmt.Sprintf("siglast=%v", c.SigLast), fmt.Sprintf("timers=%v", c.Timers), "last="+lastClass(c, mp))
	if err := libVerify(packed, c.Secret, c.ReqMAC, c.Timers, c.Now); err == nil {
		return pbt.Errf("TsigVerify reported a message without TSIG as verified (%d additional records, secret %d octets, timers only %v)", mp.AR, len(c.Secret), c.Timers)
	}
	ring := keyring{"": c.Secret, ".": c.Secret}
	if err := dns.VerifTsigVerifyAt(append([]byte(nil), packed...), ring, hex.EncodeToString(c.ReqMAC), c.Timers, c.Now); err == nil {
		return pbt.Errf("tsigVerify with a key-ring provider holding a secret for the empty name reported a message without TSIG as verified (%d additional records)", mp.AR)
	}
	// a provider that calls every MAC right: the message still has no TSIG, so the answer must be an
	// error (which one is not part of the statement - the pinned library hands such a provider an
	// all-zero TSIG when ARCOUNT > 0 and then fails its time check)
	var seen []dns.TSIG
	perr := dns.VerifTsigVerifyAt(append([]byte(nil), packed...), acceptAll{&seen}, hex.EncodeToString(c.ReqMAC), c.Timers, c.Now)
	if len(seen) > 0 {
		pbt.Class("accept-all-provider-was-consulted")
	}
	if perr == nil {
		if c.Now == 0 {
			// only the hook can set the verifier's clock to 1970-01-01T00:00:00Z, where the all-zero
			// TSIG (time signed 0, fudge 0) is "timely"; TsigVerifyWithProvider reads the wall clock
			pbt.Class("accept-all-provider-at-clock-0(counted, not asserted)")
			return nil
		}
		return pbt.Errf("tsigVerify with a provider that accepts every MAC reported a message without TSIG as verified (%d additional records, last one %s, clock %d)", mp.AR, lastClass(c, mp), c.Now)
	}
	return nil
}

func lastClass(c notsigCase, mp *ref.Map) string {
	if mp.AR == 0 {
		return "none"
	}
	if c.Last != "" {
		return c.Last
	}
	if c.SigLast {
		return "sig"
	}
	return "generated"
}

func genNoTsig(t *rapid.T) notsigCase {
	c := notsigCase{Msg: msgspec.Gen(t, msgspec.Opts{})}
	c.Secret = genSecret(t, "secret")
	if rapid.Bool().Draw(t, "hasreq") {
		c.ReqMAC = rapid.SliceOfN(rapid.Byte(), 20, 20).Draw(t, "reqmac")
	}
	c.Timers = rapid.Bool().Draw(t, "timers")
	c.Now = rapid.Uint64Range(0, 1<<40).Draw(t, "now")
	c.SigLast = rapid.IntRange(0, 3).Draw(t, "siglast") == 0
	if !c.SigLast {
		c.Last = rapid.SampledFrom([]string{"", "", "opt", "opt", "a", "txt", "unk", "empty-rdata"}).Draw(t, "last")
	}
	if rapid.IntRange(0, 3).Draw(t, "realclock") > 0 {
		c.Now = rapid.Uint64Range(1_500_000_000, 2_000_000_000).Draw(t, "wallclock")
	}
	return c
}

func init() {
	pbt.Register(pbt.Sub[notsigCase]{Name: "no-tsig-never-verifies", Weight: 4, Gen: genNoTsig, Check: checkNoTsig})
	// regression probe (nothing is listed under this id: it has to stay silent): the messages a
	// reviewer pointed at - ARCOUNT > 0 and no TSIG, the last additional record an OPT / A / SIG -
	// through the oracle above and through the public entry points with the wall clock
	pbt.Probe("notsig-arcount-without-tsig", func() error {
		q := msgspec.Spec{ID: 0x1234, RD: true, Names: []string{"www.example.org."}, Question: []msgspec.Q{{Name: 0, Type: 1, Class: 1}}}
		for _, c := range []notsigCase{{Msg: q, Last: "opt"}, {Msg: q, Last: "a"}, {Msg: q, SigLast: true}, {Msg: q, Last: "empty-rdata"}} {
			c.Secret, c.Now = []byte("0123456789abcdef"), 1_700_000_000
			if err := checkNoTsig(c); err != nil {
				return err
			}
		}
		m := q.Build()
		m.SetEdns0(1232, true)
		packed, err := m.Pack()
		if err != nil {
			return err
		}
		var seen []dns.TSIG
		if dns.TsigVerifyWithProvider(append([]byte(nil), packed...), acceptAll{&seen}, "", false) == nil {
			return pbt.Errf("TsigVerifyWithProvider with a provider that accepts every MAC reported a query with an OPT and no TSIG as verified")
		}
		if dns.TsigVerify(append([]byte(nil), packed...), base64.StdEncoding.EncodeToString([]byte("0123456789abcdef")), "", false) == nil {
			return pbt.Errf("TsigVerify reported a query with an OPT and no TSIG as verified")
		}
		return nil
	})
}
