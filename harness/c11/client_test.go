package c11

import (
	"encoding/base64"
	"encoding/binary"
	"fmt"
	"io"
	"net"
	"time"

	"github.com/miekg/dns"
	"pgregory.net/rapid"

	"verif/harness/c18/msgspec"
	"verif/harness/pbt"
	ref "verif/harness/refcrypto"
)

// ---------------------------------------------------------------------------------------------
// client side of (7): a dns.Conn with TsigSecret on an in-memory pipe, the harness plays the
// server on raw octets. Every request the Conn writes must be a correctly signed request
// (reference verifier, no request MAC – RFC 8945 5.2: a request is signed over the message and
// the TSIG variables only), and Conn.ReadMsg must report success exactly for replies that the
// reference accepts against the MAC of the request they answer.

const findConnReuse = "conn-reuse-request-mac"

type clientCase struct {
	Queries []msgspec.Spec // 1..4 queries sent over the same Conn, one after the other
	Key     int
	Fudge   uint16
	Reply   []string // per query: good, tampered, norequestmac, late, wrongsecret, unsigned, unsignederr (error BADSIG / BADKEY and no MAC), ...
	FlipBit int
}

func readFramed(c net.Conn) ([]byte, error) {
	var lb [2]byte
	if _, err := io.ReadFull(c, lb[:]); err != nil {
		return nil, err
	}
	b := make([]byte, binary.BigEndian.Uint16(lb[:]))
	_, err := io.ReadFull(c, b)
	return b, err
}

func writeFramed(c net.Conn, b []byte) error {
	out := make([]byte, 2+len(b))
	binary.BigEndian.PutUint16(out, uint16(len(b)))
	copy(out[2:], b)
	_, err := c.Write(out)
	return err
}

func checkClient(c clientCase) error {
	if len(c.Queries) == 0 || len(c.Queries) > 4 || len(c.Reply) < len(c.Queries) || c.Fudge < 300 {
		return nil
	}
	key := e2eKeys[((c.Key%len(e2eKeys))+len(e2eKeys))%len(e2eKeys)]
	keyL, _ := labelsOf(key.name)
	algL, _ := labelsOf(key.alg)
	ring := func(n ref.Labels) ([]byte, bool) { return key.secret, n.EqualFold(keyL) }
	cli, srv := net.Pipe()
	defer cli.Close()
	defer srv.Close()
	dl := time.Now().Add(20 * time.Second) // watchdog only
	cli.SetDeadline(dl)
	srv.SetDeadline(dl)
	co := &dns.Conn{Conn: cli, TsigSecret: map[string]string{key.name: base64.StdEncoding.EncodeToString(key.secret)}}
	pbt.Note([]byte(fmt.Sprintf("%v|%d|%d|%v|%d", c.Queries, c.Key, c.Fudge, c.Reply, c.FlipBit)), len(c.Queries) >= 2 || c.Reply[0] != "unsigned",
		fmt.Sprintf("queries=%d", len(c.Queries)), "key="+key.name)

	for i, spec := range c.Queries {
		spec.Response, spec.Opcode, spec.Rcode = false, 0, 0
		spec.Answer, spec.Ns = nil, nil
		if len(spec.Extra) > 1 {
			spec.Extra = spec.Extra[:1]
		}
		m := spec.Build()
		now := uint64(time.Now().Unix())
		m.SetTsig(key.name, key.alg, c.Fudge, int64(now))
		werr := make(chan error, 1)
		go func() { werr <- co.WriteMsg(m) }()
		req, rerr := readFramed(srv)
		if rerr != nil {
			return pbt.Errf("query %d: nothing arrived from Conn.WriteMsg: %v (WriteMsg: %v)", i, rerr, <-werr)
		}
		if e := <-werr; e != nil {
			return pbt.Errf("query %d: Conn.WriteMsg: %v", i, e)
		}
		rv := ref.TsigVerify(req, ring, nil, false, now, false)
		pbt.Class(fmt.Sprintf("request-%d-ref-ok=%v", min(i, 1), rv.OK))
		if !rv.OK {
			return pbt.Errf("query %d of %d on one Conn: the request written by Conn.WriteMsg is not a correctly signed request (reference, no request MAC): %s", i+1, len(c.Queries), rv.Why)
		}
		reqMAC := rv.Tsig.MAC
		// the reply
		rs := msgspec.Spec{ID: binary.BigEndian.Uint16(req), Response: true, RD: spec.RD, Names: spec.Names, Question: spec.Question,
			Answer: []msgspec.Rec{{Kind: "A", Owner: 0, Class: 1, TTL: 30, Data: []byte{192, 0, 2, byte(i)}}}}
		if len(rs.Question) > 0 {
			rs.Answer[0].Owner = rs.Question[0].Name
		}
		rp, perr := rs.Build().Pack()
		if perr != nil {
			return nil
		}
		variant := c.Reply[i]
		t := ref.Tsig{KeyName: keyL, Class: ref.ClassANY, Algorithm: algL, TimeSigned: now, Fudge: c.Fudge, OrigID: rs.ID}
		secret, useMAC := key.secret, reqMAC
		switch variant {
		case "late":
			t.TimeSigned = now - uint64(c.Fudge) - 120
		case "wrongsecret":
			secret = append([]byte("y"), secret...)
		case "norequestmac":
			useMAC = nil
		case "unknownkey-emptysecret":
			t.KeyName = append(ref.Labels{[]byte("no")}, keyL...)
			secret = nil
		case "ancestorkey":
			t.KeyName = keyL[1:] // signed with the right secret under the name of the key's parent domain (k3. -> the root)
		}
		var reply []byte
		if variant == "unsigned" {
			reply = rp
		} else if variant == "unsignederr" {
			// what anyone can write without a key: a TSIG naming the key, error BADSIG / BADKEY, no MAC,
			// the current time (RFC 8945 5.3.2: such an answer MUST be treated as unauthenticated)
			t.Error = 16 + uint16(c.FlipBit&1)
			reply = t.AppendTo(rp)
		} else {
			var serr error
			if reply, _, serr = ref.TsigSign(rp, t, secret, useMAC, false); serr != nil {
				return nil
			}
			if variant == "tampered" {
				body := len(rp) - 12
				bit := ((c.FlipBit % (body * 8)) + body*8) % (body * 8)
				reply[12+bit/8] ^= 1 << (bit % 8)
			}
		}
		now2 := uint64(time.Now().Unix())
		want := ref.TsigVerify(reply, ring, reqMAC, false, now2, false).OK
		pbt.Class("reply=" + variant)
		sent := make(chan error, 1)
		go func() { sent <- writeFramed(srv, reply) }()
		got, gerr := co.ReadMsg()
		if e := <-sent; e != nil {
			return pbt.Errf("query %d: writing the reply: %v", i, e)
		}
		if variant == "unsigned" {
			// no TSIG in the reply: ReadMsg does not verify anything; a caller has to look at IsTsig
			if got != nil && got.IsTsig() != nil {
				return pbt.Errf("query %d: an unsigned reply decodes with a TSIG", i)
			}
			continue
		}
		if gerr == nil && got != nil && got.IsTsig() == nil {
			// the alteration made the decoder see no TSIG at the end: nothing was verified and the
			// caller can tell (IsTsig() == nil) - "a message without TSIG is never reported as verified"
			pbt.Class("reply-decodes-without-tsig")
			continue
		}
		if gerr == nil && !want {
			return pbt.Errf("query %d: Conn.ReadMsg reported success for a %q reply the reference rejects", i, variant)
		}
		if gerr != nil && want && variant == "good" {
			return pbt.Errf("query %d of %d on one Conn: Conn.ReadMsg failed for a correctly signed reply: %v", i+1, len(c.Queries), gerr)
		}
	}
	return nil
}

func genClient(t *rapid.T) clientCase {
	c := clientCase{}
	n := rapid.IntRange(1, 4).Draw(t, "n")
	if pbt.Known(findConnReuse) && n > 1 {
		pbt.Excluded(findConnReuse)
		n = 1
	}
	for i := 0; i < n; i++ {
		s := msgspec.Gen(t, msgspec.Opts{MaxSmall: 1, PlainNames: true})
		if len(s.Question) == 0 {
			s.Question = []msgspec.Q{{Name: 0, Type: 1, Class: 1}}
		}
		s.Question = s.Question[:1]
		c.Queries = append(c.Queries, s)
		c.Reply = append(c.Reply, rapid.SampledFrom([]string{"good", "good", "good", "tampered", "norequestmac", "late", "wrongsecret", "unknownkey-emptysecret", "unsigned", "ancestorkey", "unsignederr"}).Draw(t, "reply"))
	}
	c.Key = rapid.IntRange(0, len(e2eKeys)-1).Draw(t, "key")
	c.Fudge = rapid.Uint16Range(300, 65535).Draw(t, "fudge")
	c.FlipBit = rapid.IntRange(0, 1<<20).Draw(t, "flip")
	return c
}

func init() {
	pbt.Register(pbt.Sub[clientCase]{Name: "client-conn", Weight: 2, Gen: genClient, Check: checkClient})
	pbt.Probe(findConnReuse, func() error {
		q := msgspec.Spec{ID: 7, RD: true, Names: []string{"www.example.org."}, Question: []msgspec.Q{{Name: 0, Type: 1, Class: 1}}}
		q2 := q
		q2.ID = 8
		return checkClient(clientCase{Queries: []msgspec.Spec{q, q2}, Key: 0, Fudge: 300, Reply: []string{"good", "good"}})
	})
}
