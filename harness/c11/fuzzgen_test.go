package c11

import (
	"testing"

	"verif/harness/pbt"
)

// FuzzGen: coverage-guided search over the generators of this package (see pbt.FuzzGen).
func FuzzGen(f *testing.F) { pbt.FuzzGen(f) }
