package c11

import (
	"encoding/base64"
	"fmt"
	"net"
	"time"

	"github.com/miekg/dns"
	"pgregory.net/rapid"

	"verif/harness/pbt"
	ref "verif/harness/refcrypto"
)

// ---------------------------------------------------------------------------------------------
// The receiving side of a signed stream (Transfer.In / Transfer.ReadMsg with TsigSecret): the
// harness plays the server on a net.Pipe and sends a chain of envelopes signed by the reference -
// first over the request MAC and all variables, the others over the previous MAC and the timers
// (RFC 8945 5.3.1) - cut into envelopes in a generated way (a first envelope that holds the SOA
// alone, RFC 5936 2.2, among them; a closing envelope that holds the SOA alone; the whole zone in
// one message), asked for with AXFR or IXFR, and with one generated fault at any position: an
// envelope sent WITHOUT its TSIG, altered after signing, signed in the mode of the other position
// (timers only for the first, all variables for a later one), signed with another secret, removed,
// or exchanged with its successor. Asserted: the intact chain is delivered without an error
// ("chains of envelopes where each MAC covers the previous one"); the first message whose MAC is
// not the RFC 8945 HMAC for its position is reported with an error and nothing after it is
// delivered. Pinned behaviour: once a secret is configured every envelope has to carry a valid TSIG
// ("a message without TSIG is never reported as verified"). RFC 8945 5.3.1 would tolerate unsigned
// intermediate envelopes that a later TSIG covers; the library does not implement that and the
// check does not ask for it.

type xfrInCase struct {
	Key      int
	ID       uint16
	N        int // envelopes, 1..6
	Unsigned int // (cases saved before round 9) index of the envelope sent without TSIG (1..N-1), 0 = none
	Tamper   int // (cases saved before round 9) index of an envelope altered after signing (1..N-1), 0 = none
	Fudge    uint16
	// Round 9: how the server cuts the zone into envelopes, the kind of transfer and faults at any
	// position. Recs[i] = records of envelope i besides the opening SOA (i == 0) and the closing SOA
	// (i == N-1); nil = one each. Recs[0] == 0 with N >= 2 is the stream of RFC 5936 2.2 whose first
	// message holds nothing but the SOA.
	Recs  []int
	Ixfr  bool   // an IXFR request (answered in AXFR style, RFC 1995 4): Transfer.In takes its other loop
	Fault string // "", "unsigned", "tamper", "wrongmode", "wrongsecret", "drop", "swap", "nomac" (a TSIG with error BADSIG / BADKEY and MAC Size 0)
	At    int    // the envelope the fault applies to (drop / swap: At and At+1)
}

var xfrInFaults = []string{"unsigned", "tamper", "wrongmode", "wrongsecret", "drop", "swap", "nomac"}

func checkXfrIn(c xfrInCase) error {
	if c.N < 1 || c.N > 6 || c.Unsigned < 0 || c.Unsigned >= c.N || c.Tamper < 0 || c.Tamper >= c.N || c.Fudge < 300 {
		return nil
	}
	fault, at := c.Fault, c.At
	if fault == "" && c.Unsigned > 0 {
		fault, at = "unsigned", c.Unsigned
	} else if fault == "" && c.Tamper > 0 {
		fault, at = "tamper", c.Tamper
	}
	recs := c.Recs
	if recs == nil {
		recs = make([]int, c.N)
		for i := range recs {
			recs[i] = 1
		}
	}
	if len(recs) != c.N {
		return nil
	}
	for i, r := range recs {
		if r < 0 || r > 3 || (r == 0 && i > 0 && i < c.N-1) {
			return nil // an envelope in the middle carries at least one record
		}
	}
	switch fault {
	case "":
	case "unsigned", "tamper", "wrongmode", "wrongsecret", "nomac":
		if at < 0 || at >= c.N {
			return nil
		}
	case "drop", "swap":
		if at < 0 || at+1 >= c.N {
			return nil
		}
	default:
		return nil
	}
	key := e2eKeys[((c.Key%len(e2eKeys))+len(e2eKeys))%len(e2eKeys)]
	keyL, _ := labelsOf(key.name)
	algL, _ := labelsOf(key.alg)
	ring := func(n ref.Labels) ([]byte, bool) { return key.secret, n.EqualFold(keyL) }
	what := "intact"
	switch {
	case fault == "unsigned" && at == c.N-1:
		what = "last-unsigned"
	case fault == "unsigned" && at > 0:
		what = "middle-unsigned"
	case fault == "unsigned":
		what = "first-unsigned"
	case fault == "tamper":
		what = "tampered"
	case fault != "":
		what = fault
	}
	lone := c.N >= 2 && recs[0] == 0
	first, kind, where := "first=soa+records", "xfr=axfr", "fault-at=none"
	if lone {
		first = "first=lone-soa"
	}
	if c.N == 1 {
		first = "first=whole-zone"
	}
	if c.Ixfr {
		kind = "xfr=ixfr"
	}
	if fault != "" {
		where = "fault-at=" + []string{"first", "second", "later"}[min(at, 2)]
		if lone {
			where += "-after-lone-soa"
		}
	}
	pbt.Note([]byte(fmt.Sprintf("%d|%d|%d|%s|%d|%v|%v", c.Key, c.ID, c.N, fault, at, recs, c.Ixfr)), fault != "" || c.N >= 2,
		"stream="+what, fmt.Sprintf("envelopes=%d", c.N), first, kind, where)

	cli, srv := net.Pipe()
	defer srv.Close()
	dl := time.Now().Add(30 * time.Second) // watchdog only
	cli.SetDeadline(dl)
	srv.SetDeadline(dl)
	q := new(dns.Msg)
	if c.Ixfr {
		q.SetIxfr("zone.example.", 3, "ns.zone.example.", "h.zone.example.")
	} else {
		q.SetAxfr("zone.example.")
	}
	q.Id = c.ID
	q.SetTsig(key.name, key.alg, c.Fudge, time.Now().Unix())
	tr := &dns.Transfer{TsigSecret: map[string]string{key.name: base64.StdEncoding.EncodeToString(key.secret)}, ReadTimeout: 20 * time.Second}
	tr.Conn = &dns.Conn{Conn: cli}
	type inRes struct {
		ch  chan *dns.Envelope
		err error
	}
	started := make(chan inRes, 1)
	go func() {
		ch, err := tr.In(q, "unused")
		started <- inRes{ch, err}
	}()
	req, rerr := readFramed(srv)
	if rerr != nil {
		return pbt.Errf("no request from Transfer.In: %v", rerr)
	}
	in := <-started
	if in.err != nil {
		return pbt.Errf("Transfer.In: %v", in.err)
	}
	now := uint64(time.Now().Unix())
	rv := ref.TsigVerify(req, ring, nil, false, now, false)
	if !rv.OK {
		return pbt.Errf("the request written by Transfer.In is not correctly signed: %s", rv.Why)
	}
	// the server side: envelopes signed by the reference, RFC 8945 5.3.1 - the first one over the
	// request MAC and the TSIG variables, every other one over the previous MAC and the timers
	soa := &dns.SOA{Hdr: dns.RR_Header{Name: "zone.example.", Rrtype: dns.TypeSOA, Class: 1, Ttl: 60}, Ns: "ns.zone.example.", Mbox: "h.zone.example.", Serial: 7, Refresh: 1, Retry: 1, Expire: 1, Minttl: 1}
	var stream [][]byte
	var shape []string
	prev := rv.Tsig.MAC
	host := 0
	for i := 0; i < c.N; i++ {
		m := new(dns.Msg)
		m.SetReply(q)
		m.Ns, m.Extra = nil, nil
		if i == 0 {
			m.Answer = append(m.Answer, soa)
		}
		for k := 0; k < recs[i]; k++ {
			m.Answer = append(m.Answer, &dns.A{Hdr: dns.RR_Header{Name: fmt.Sprintf("h%d.zone.example.", host), Rrtype: dns.TypeA, Class: 1, Ttl: 60}, A: net.IPv4(192, 0, 2, byte(host)).To4()})
			host++
		}
		if i == c.N-1 {
			m.Answer = append(m.Answer, soa)
		}
		shape = append(shape, fmt.Sprintf("%d rr", len(m.Answer)))
		packed, err := m.Pack()
		if err != nil {
			return pbt.Errf("infrastructure: envelope %d does not pack: %v", i, err)
		}
		out := packed
		if !(fault == "unsigned" && i == at) {
			t := ref.Tsig{KeyName: keyL, Class: ref.ClassANY, Algorithm: algL, TimeSigned: uint64(time.Now().Unix()), Fudge: c.Fudge, OrigID: c.ID}
			timers, secret := i > 0, key.secret
			if fault == "wrongmode" && i == at {
				timers = !timers
			}
			if fault == "wrongsecret" && i == at {
				secret = append([]byte("not-"), key.secret...)
			}
			var mac []byte
			out, mac, err = ref.TsigSign(packed, t, secret, prev, timers)
			if err != nil {
				return pbt.Errf("infrastructure: reference signer: %v", err)
			}
			prev = mac
			if fault == "nomac" && i == at {
				// what anyone can put into the stream without the key: the records, and a TSIG that names
				// the key, reports BADSIG / BADKEY and carries no MAC (RFC 8945 5.3.2: unauthenticated)
				u := t
				u.Error = 16 + c.ID&1
				out = u.AppendTo(packed)
			}
		}
		if fault == "tamper" && i == at {
			out = append([]byte(nil), out...)
			out[len(packed)-1] ^= 1 // last octet of the last answer record
		}
		stream = append(stream, out)
	}
	switch fault {
	case "drop":
		stream = append(stream[:at:at], stream[at+1:]...)
	case "swap":
		stream[at], stream[at+1] = stream[at+1], stream[at]
	}
	go func() {
		for _, out := range stream {
			if writeFramed(srv, out) != nil {
				return
			}
		}
	}()
	bad := -1
	if fault != "" {
		bad = at
	}
	desc := fmt.Sprintf("%s answered with %d envelopes %v, key %s", kind[4:], c.N, shape, key.name)
	got := 0
	for env := range in.ch {
		switch {
		case bad >= 0 && got == bad:
			if env.Error == nil {
				var how string
				switch fault {
				case "unsigned":
					how = "was sent without a TSIG"
				case "tamper":
					how = "was altered after signing"
				case "wrongmode":
					how = "was signed over the previous MAC and the timers only, where RFC 8945 5.3.1 asks for the request MAC and all TSIG variables"
					if at > 0 {
						how = "was signed over the previous MAC and all TSIG variables, where RFC 8945 5.3.1 asks for the previous MAC and the timers only"
					}
				case "wrongsecret":
					how = "was signed with another secret"
				case "nomac":
					how = "carries a TSIG with error BADSIG / BADKEY and no MAC at all"
				case "drop":
					how = fmt.Sprintf("covers the MAC of envelope %d, which was removed from the stream,", at+1)
				case "swap":
					how = fmt.Sprintf("is envelope %d of the signer, exchanged with its predecessor,", at+2)
				}
				return pbt.Errf("message %d of a TSIG-protected transfer %s and is delivered by Transfer.In without an error (%d records; %s)", got+1, how, len(env.RR), desc)
			}
		case bad >= 0 && got > bad:
			return pbt.Errf("Transfer.In delivers message %d after message %d failed verification (%s, fault %q)", got+1, bad+1, desc, fault)
		default:
			if env.Error != nil {
				return pbt.Errf("envelope %d of %d of a transfer signed as RFC 8945 5.3.1 says (first over the request MAC and the variables, every later one over the previous MAC and the timers) is reported with an error: %v (%s, fault %q at %d)", got+1, c.N, env.Error, desc, fault, at)
			}
		}
		got++
	}
	want := c.N
	if bad >= 0 {
		want = bad + 1
	}
	if got != want {
		return pbt.Errf("Transfer.In delivered %d envelopes, want %d (%s, stream %s)", got, want, desc, what)
	}
	return nil
}

func genXfrIn(t *rapid.T) xfrInCase {
	c := xfrInCase{Key: rapid.IntRange(0, len(e2eKeys)-1).Draw(t, "key"), ID: rapid.Uint16().Draw(t, "id"), N: rapid.IntRange(1, 6).Draw(t, "n"), Fudge: 300}
	c.Ixfr = rapid.IntRange(0, 3).Draw(t, "ixfr") == 0
	c.Recs = make([]int, c.N)
	for i := range c.Recs {
		lo := 0
		if i > 0 && i < c.N-1 {
			lo = 1
		}
		c.Recs[i] = rapid.IntRange(lo, 3).Draw(t, "recs")
	}
	if c.N >= 2 && rapid.IntRange(0, 2).Draw(t, "lone") == 0 {
		c.Recs[0] = 0 // RFC 5936 2.2: the first message may hold the SOA alone
	}
	if k := rapid.IntRange(0, len(xfrInFaults)+1).Draw(t, "fault"); k < len(xfrInFaults) {
		c.Fault = xfrInFaults[k]
		hi := c.N - 1
		if c.Fault == "drop" || c.Fault == "swap" {
			hi--
		}
		if hi < 0 {
			c.Fault, hi = "tamper", 0
		}
		// the second envelope is where the mode changes: a third of the faults go to the first two
		c.At = rapid.IntRange(0, hi).Draw(t, "at")
		if hi >= 1 && rapid.IntRange(0, 2).Draw(t, "early") == 0 {
			c.At = rapid.IntRange(0, 1).Draw(t, "at01")
		}
	}
	return c
}

func init() {
	pbt.Register(pbt.Sub[xfrInCase]{Name: "transfer-in-envelope-without-tsig", Weight: 0.5, Gen: genXfrIn, Check: checkXfrIn})
}
