package c11

import (
	"encoding/base64"
	"encoding/binary"
	"fmt"
	"net"
	"time"

	"github.com/miekg/dns"
	"pgregory.net/rapid"

	"verif/harness/pbt"
	ref "verif/harness/refcrypto"
)

// ---------------------------------------------------------------------------------------------
// The receiving side of a signed stream (Transfer.In / Transfer.ReadMsg with TsigSecret): the
// harness plays the server on a net.Pipe and sends a chain of envelopes signed by the reference -
// first over the request MAC and all variables, the others over the previous MAC and the timers -
// with one envelope optionally sent WITHOUT its TSIG. Asserted is the pinned behaviour: once a
// secret is configured every envelope has to carry a valid TSIG; an envelope without one is
// reported with an error and nothing after it is delivered ("a message without TSIG is never
// reported as verified"). RFC 8945 5.3.1 would tolerate unsigned intermediate envelopes that a
// later TSIG covers; the library does not implement that and the check does not ask for it.

type xfrInCase struct {
	Key      int
	ID       uint16
	N        int // envelopes, 2..6
	Unsigned int // index of the envelope sent without TSIG (1..N-1), 0 = none
	Tamper   int // index of an envelope whose body is altered after signing (1..N-1), 0 = none
	Fudge    uint16
}

func checkXfrIn(c xfrInCase) error {
	if c.N < 2 || c.N > 6 || c.Unsigned < 0 || c.Unsigned >= c.N || c.Tamper < 0 || c.Tamper >= c.N || c.Fudge < 300 {
		return nil
	}
	key := e2eKeys[((c.Key%len(e2eKeys))+len(e2eKeys))%len(e2eKeys)]
	keyL, _ := labelsOf(key.name)
	algL, _ := labelsOf(key.alg)
	ring := func(n ref.Labels) ([]byte, bool) { return key.secret, n.EqualFold(keyL) }
	what := "intact"
	switch {
	case c.Unsigned > 0 && c.Unsigned == c.N-1:
		what = "last-unsigned"
	case c.Unsigned > 0:
		what = "middle-unsigned"
	case c.Tamper > 0:
		what = "tampered"
	}
	pbt.Note([]byte(fmt.Sprintf("%d|%d|%d|%d|%d", c.Key, c.ID, c.N, c.Unsigned, c.Tamper)), what != "intact", "stream="+what, fmt.Sprintf("envelopes=%d", c.N))

	cli, srv := net.Pipe()
	defer srv.Close()
	dl := time.Now().Add(30 * time.Second) // watchdog only
	cli.SetDeadline(dl)
	srv.SetDeadline(dl)
	q := new(dns.Msg)
	q.SetAxfr("zone.example.")
	q.Id = c.ID
	q.SetTsig(key.name, key.alg, c.Fudge, time.Now().Unix())
	tr := &dns.Transfer{TsigSecret: map[string]string{key.name: base64.StdEncoding.EncodeToString(key.secret)}, ReadTimeout: 20 * time.Second}
	tr.Conn = &dns.Conn{Conn: cli}
	type inRes struct {
		ch  chan *dns.Envelope
		err error
	}
	started := make(chan inRes, 1)
	go func() {
		ch, err := tr.In(q, "unused")
		started <- inRes{ch, err}
	}()
	req, rerr := readFramed(srv)
	if rerr != nil {
		return pbt.Errf("no request from Transfer.In: %v", rerr)
	}
	in := <-started
	if in.err != nil {
		return pbt.Errf("Transfer.In: %v", in.err)
	}
	now := uint64(time.Now().Unix())
	rv := ref.TsigVerify(req, ring, nil, false, now, false)
	if !rv.OK {
		return pbt.Errf("the request written by Transfer.In is not correctly signed: %s", rv.Why)
	}
	// the server side: envelopes signed by the reference
	soa := &dns.SOA{Hdr: dns.RR_Header{Name: "zone.example.", Rrtype: dns.TypeSOA, Class: 1, Ttl: 60}, Ns: "ns.zone.example.", Mbox: "h.zone.example.", Serial: 7, Refresh: 1, Retry: 1, Expire: 1, Minttl: 1}
	go func() {
		prev := rv.Tsig.MAC
		for i := 0; i < c.N; i++ {
			m := new(dns.Msg)
			m.SetReply(q)
			m.Extra = nil
			if i == 0 {
				m.Answer = append(m.Answer, soa)
			}
			m.Answer = append(m.Answer, &dns.A{Hdr: dns.RR_Header{Name: fmt.Sprintf("h%d.zone.example.", i), Rrtype: dns.TypeA, Class: 1, Ttl: 60}, A: net.IPv4(192, 0, 2, byte(i)).To4()})
			if i == c.N-1 {
				m.Answer = append(m.Answer, soa)
			}
			packed, err := m.Pack()
			if err != nil {
				return
			}
			out := packed
			if i != c.Unsigned || i == 0 {
				t := ref.Tsig{KeyName: keyL, Class: ref.ClassANY, Algorithm: algL, TimeSigned: uint64(time.Now().Unix()), Fudge: c.Fudge, OrigID: c.ID}
				var mac []byte
				out, mac, _ = ref.TsigSign(packed, t, key.secret, prev, i > 0)
				prev = mac
			}
			if i == c.Tamper && i > 0 {
				out = append([]byte(nil), out...)
				out[len(packed)-1] ^= 1 // last octet of the last answer record
			}
			if writeFramed(srv, out) != nil {
				return
			}
		}
	}()
	bad := c.Unsigned
	if bad == 0 {
		bad = c.Tamper
	}
	got := 0
	for env := range in.ch {
		switch {
		case bad > 0 && got == bad:
			if env.Error == nil {
				kind := "sent without a TSIG"
				if c.Unsigned == 0 {
					kind = "altered after signing"
				}
				return pbt.Errf("envelope %d of %d of a TSIG-protected transfer was %s and is delivered by Transfer.In without an error (%d records)", got+1, c.N, kind, len(env.RR))
			}
		case bad > 0 && got > bad:
			return pbt.Errf("Transfer.In delivers envelope %d after envelope %d failed verification", got+1, bad+1)
		default:
			if env.Error != nil {
				return pbt.Errf("envelope %d of %d of a correctly signed transfer is reported with an error: %v", got+1, c.N, env.Error)
			}
		}
		got++
	}
	want := c.N
	if bad > 0 {
		want = bad + 1
	}
	if got != want {
		return pbt.Errf("Transfer.In delivered %d envelopes, want %d (stream of %d, %s)", got, want, c.N, what)
	}
	_ = binary.BigEndian
	return nil
}

func genXfrIn(t *rapid.T) xfrInCase {
	c := xfrInCase{Key: rapid.IntRange(0, len(e2eKeys)-1).Draw(t, "key"), ID: rapid.Uint16().Draw(t, "id"), N: rapid.IntRange(2, 6).Draw(t, "n"), Fudge: 300}
	switch rapid.IntRange(0, 3).Draw(t, "kind") {
	case 0:
	case 1:
		c.Unsigned = c.N - 1
	case 2:
		c.Unsigned = rapid.IntRange(1, c.N-1).Draw(t, "unsigned")
	default:
		c.Tamper = rapid.IntRange(1, c.N-1).Draw(t, "tamper")
	}
	return c
}

func init() {
	pbt.Register(pbt.Sub[xfrInCase]{Name: "transfer-in-envelope-without-tsig", Weight: 0.25, Gen: genXfrIn, Check: checkXfrIn})
}
