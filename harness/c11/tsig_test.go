package c11

import (
	"bytes"
	"encoding/base64"
	"encoding/binary"
	"encoding/hex"
	"fmt"
	"runtime"
	"sort"
	"strings"
	"sync"
	"time"

	"github.com/miekg/dns"
	"pgregory.net/rapid"

	"verif/harness/c18/msgspec"
	"verif/harness/gen"
	"verif/harness/pbt"
	ref "verif/harness/refcrypto"
	wm "verif/harness/wiremodel"
)

const (
	findClass   = "tsig-class-not-any"     // DESIGN §4 #18
	findFudge   = "tsig-fudge-zero"        // a Fudge of 0 on the wire is replaced by 300 before the MAC is computed
	findReqMAC1 = "tsig-reqmac-one-octet"  // a request MAC of exactly one octet: tsigBuffer's scratch buffer is one octet short
	findDDDName = "tsig-name-ddd-upper"    // a key / algorithm name handed to TsigGenerate with an upper-case letter written as \DDD is digested unfolded
	findNotLast = "tsig-not-last-accepted" // TsigVerify takes the first TSIG of the additional section, wherever it stands, and ignores what follows it
	findNotAuth = "tsig-rcode-notauth"     // a message with RCODE 9 (NOTAUTH) signed by TsigGenerate does not verify: stripTsig returns ErrAuth before any MAC is looked at
)

// dddUpper finds the \DDD escapes of s that denote an upper-case ASCII letter (\075 is a K) and
// returns s with each of them replaced by the letter itself (the same name, spelled plainly).
func dddUpper(s string) (plain string, n int) {
	var sb strings.Builder
	for i := 0; i < len(s); i++ {
		if s[i] != '\\' || i+1 >= len(s) {
			sb.WriteByte(s[i])
			continue
		}
		if i+3 < len(s) && isDig(s[i+1]) && isDig(s[i+2]) && isDig(s[i+3]) {
			v := int(s[i+1]-'0')*100 + int(s[i+2]-'0')*10 + int(s[i+3]-'0')
			if v >= 'A' && v <= 'Z' {
				sb.WriteByte(byte(v))
				n++
			} else {
				sb.WriteString(s[i : i+4])
			}
			i += 3
			continue
		}
		sb.WriteString(s[i : i+2]) // \c
		i++
	}
	return sb.String(), n
}

func isDig(b byte) bool { return b >= '0' && b <= '9' }

// spellTsigName writes a name of the TSIG variables (key name, algorithm name) the way a program may:
// any octet as \DDD or \c. While the finding findDDDName reproduces, exactly its class - an upper-case
// letter written as \DDD - is spelled plainly instead (counted).
func spellTsigName(t *rapid.T, n wm.Name) string {
	s := gen.SpellName(t, n)
	if plain, k := dddUpper(s); k > 0 && pbt.Known(findDDDName) {
		pbt.Excluded(findDDDName)
		return plain
	}
	return s
}

// reqMACLens are the request-MAC lengths the generators draw from. The request MAC is whatever MAC
// the previous message carried: HMACs are 20..64 octets, RFC 8945 truncation goes down to 10, a
// custom TsigProvider (GSS-TSIG, a test double) returns what it likes - one octet included.
var reqMACLens = []int{10, 16, 20, 28, 32, 48, 64, 64, 65, 66, 80, 128, 200, 1000, 1, 1, 2, 3, 4, 5, 9}

// genReqMAC draws a request MAC of one of the lengths; while the one-octet finding is live that
// length is replaced by two octets (counted).
func genReqMAC(t *rapid.T, lens []int) []byte {
	n := rapid.SampledFrom(lens).Draw(t, "reqlen")
	if n == 1 && pbt.Known(findReqMAC1) {
		pbt.Excluded(findReqMAC1)
		n = 2
	}
	return rapid.SliceOfN(rapid.Byte(), n, n).Draw(t, "reqmac")
}

func reqLenClass(n int) string {
	switch {
	case n == 0:
		return "reqmac-octets=0"
	case n <= 3:
		return fmt.Sprintf("reqmac-octets=%d", n)
	case n < 10:
		return "reqmac-octets=4-9"
	case n <= 64:
		return "reqmac-octets=10-64"
	default:
		return "reqmac-octets>64"
	}
}

var algNames = []string{"hmac-sha1.", "hmac-sha224.", "hmac-sha256.", "hmac-sha384.", "hmac-sha512."}
var macLen = map[string]int{"hmac-sha1.": 20, "hmac-sha224.": 28, "hmac-sha256.": 32, "hmac-sha384.": 48, "hmac-sha512.": 64}

type tsigCase struct {
	Msg         msgspec.Spec
	KeyName     string // presentation, any case, may carry escapes
	Alg         string // presentation of the algorithm name, any case
	Secret      []byte
	ReqMAC      []byte // empty: no request MAC
	TimersOnly  bool
	Fudge       uint16 // >= 1
	Time        uint64 // signing time, > Fudge
	Error       uint16
	Other       []byte
	RefSigned   bool    // the reference signs (header ID may differ from OrigId by IDDelta)
	IDDelta     uint16  // header ID = OrigId + IDDelta (reference-signed: the header is rewritten after signing; library-signed: Msg.Id differs from the TSIG's OrigId before TsigGenerate, RFC 8945 4.2 "Original ID")
	StaleStub   bool    // library-signed: the TSIG stub handed to TsigGenerate still carries a MAC from an earlier use
	ZeroFudge   bool    // library-signed: the stub carries Fudge 0 (documented default: 300); Fudge must then be 300
	ZeroTime    bool    // library-signed: the stub carries TimeSigned 0 (documented default: now); Time is replaced by what TsigGenerate used
	Sample      []int   // sampled flip positions for long messages
	Far         []int64 // verifier clock offsets (now - time signed) far outside the window: +-(k*2^j) + d, |d| <= fudge+1
	Secret2     []byte  // "wrong secret" for the only-if clause
	SkipClass   bool    // set by the generator only (known finding #18): alterations of the TSIG CLASS field are not evaluated
	SkipFudge0  bool    // set by the generator only (known finding): the alteration Fudge := 0 is not evaluated
	SkipNotLast bool    // set by the generator only (known finding): messages made by a key holder whose TSIG is not the last additional record are not evaluated
	SkipNotAuth bool    // set by the generator only (known finding): a correctly signed message with RCODE NOTAUTH is not required to verify
}

func labelsOf(text string) (ref.Labels, error) {
	n, _, err := wm.UnescName(text)
	return ref.Labels(n), err
}

func lower(s string) string { return strings.ToLower(s) }

func fullLimit() int {
	if pbt.Thorough() {
		return 1200
	}
	return 400
}

// parallelEach evaluates f(i) for i in [0,n) on a few goroutines; results are positional.
func parallelEach(n int, f func(i int) bool) []bool {
	out := make([]bool, n)
	workers := min(4, runtime.GOMAXPROCS(0))
	if n < 256 || workers < 2 {
		for i := 0; i < n; i++ {
			out[i] = f(i)
		}
		return out
	}
	var wg sync.WaitGroup
	var pmu sync.Mutex
	var pv any
	for w := 0; w < workers; w++ {
		wg.Add(1)
		go func(w int) {
			defer wg.Done()
			defer func() {
				if r := recover(); r != nil {
					pmu.Lock()
					if pv == nil {
						pv = r
					}
					pmu.Unlock()
				}
			}()
			for i := w; i < n; i += workers {
				out[i] = f(i)
			}
		}(w)
	}
	wg.Wait()
	if pv != nil {
		panic(pv)
	}
	return out
}

// libVerify calls the library's verifier with an explicit clock on a private copy of msg
// (tsigVerify rewrites ARCOUNT and the ID in place).
func libVerify(msg []byte, secret, reqMAC []byte, timersOnly bool, now uint64) error {
	return dns.VerifTsigVerifySecretAt(append([]byte(nil), msg...), base64.StdEncoding.EncodeToString(secret), hex.EncodeToString(reqMAC), timersOnly, now)
}

type verdictKind int

const (
	vRejected    verdictKind = iota
	vBoth                    // accepted by the library and by the strict reference
	vLenientTail             // accepted by the library; the reference accepts once trailing zero fields cut off by RDLENGTH are read as zero
	vViolation
)

// judge applies reference consensus to one (possibly altered) message.
func judge(msg []byte, secret, reqMAC []byte, timersOnly bool, now uint64) (verdictKind, string) {
	if libVerify(msg, secret, reqMAC, timersOnly, now) != nil {
		return vRejected, ""
	}
	ring := func(ref.Labels) ([]byte, bool) { return secret, true } // TsigVerify(msg, secret, ...) names no key: one secret for every name
	v := ref.TsigVerify(msg, ring, reqMAC, timersOnly, now, false)
	if v.OK {
		return vBoth, ""
	}
	if l := ref.TsigVerify(msg, ring, reqMAC, timersOnly, now, true); l.OK {
		return vLenientTail, ""
	}
	return vViolation, v.Why
}

func checkTsig(c tsigCase) (err error) {
	keyL, e1 := labelsOf(c.KeyName)
	algL, e2 := labelsOf(c.Alg)
	if e1 != nil || e2 != nil || c.Fudge == 0 || c.Time <= uint64(c.Fudge)+1 || c.Time >= 1<<48-uint64(c.Fudge)-2 {
		return nil
	}
	supported := ref.TsigHash(algL) != nil
	packed, perr := c.Msg.Build().Pack()
	if perr != nil || len(packed)+len(keyL.Wire())+10+len(algL.Wire())+16+64+len(c.Other) > 65535 {
		return nil
	}
	flags := binary.BigEndian.Uint16(packed[2:])
	notauth := flags&0xF == 9
	unsignedErr := c.Error == 16 || c.Error == 17 // BADSIG / BADKEY answers carry an empty MAC (RFC 8945 5.3.2)
	classes := []string{"alg=" + lower(c.Alg), fmt.Sprintf("reqmac=%v", len(c.ReqMAC) > 0), fmt.Sprintf("reqmac>64=%v", len(c.ReqMAC) > 64), reqLenClass(len(c.ReqMAC)), fmt.Sprintf("timersonly=%v", c.TimersOnly),
		fmt.Sprintf("refsigned=%v", c.RefSigned), sizeClass(len(packed)), fmt.Sprintf("compress=%v", c.Msg.Compress), fmt.Sprintf("error=%d", min(int(c.Error), 19)),
		fmt.Sprintf("other=%v", len(c.Other) > 0), fmt.Sprintf("secretlen=%s", lenClass(len(c.Secret)))}
	if strings.Contains(c.KeyName, "\\") {
		classes = append(classes, "keyname-spelled-with-escapes")
		if _, k := dddUpper(c.KeyName); k > 0 {
			classes = append(classes, "keyname-upper-letter-as-ddd")
		}
	}
	nontrivial := c.Msg.Records() >= 1
	defer func() {
		key := append([]byte(fmt.Sprintf("%s|%s|%x|%x|%v|%d|%d|%d|", c.KeyName, c.Alg, c.Secret, c.ReqMAC, c.TimersOnly, c.Fudge, c.Time, c.Error)), packed...)
		pbt.Note(key, nontrivial, classes...)
	}()

	want := ref.Tsig{KeyName: keyL, Class: ref.ClassANY, TTL: 0, Algorithm: algL, TimeSigned: c.Time, Fudge: c.Fudge,
		OrigID: binary.BigEndian.Uint16(packed), Error: c.Error, OtherData: c.Other}

	var out []byte
	if c.RefSigned {
		if !supported {
			return nil
		}
		if unsignedErr {
			classes = append(classes, "unsigned-error-record(made by the reference)")
			return checkUnsigned(c, packed, want, nil)
		}
		var serr error
		out, _, serr = ref.TsigSign(packed, want, c.Secret, c.ReqMAC, c.TimersOnly)
		if serr != nil {
			return nil
		}
		ref.SetID(out, want.OrigID+c.IDDelta) // a forwarder may have rewritten the ID; OrigId restores it
	} else {
		// (1) TsigGenerate
		m := c.Msg.Build()
		// the stub: what the caller hands over. A Fudge of 0 and a TimeSigned of 0 are documented as
		// "use the default" (300 s / the current time); c.Fudge and c.Time hold the effective values
		stubFudge, stubTime := c.Fudge, int64(c.Time)
		if c.ZeroFudge {
			stubFudge = 0
		}
		if c.ZeroTime {
			stubTime = 0
		}
		wallBefore := uint64(time.Now().Unix())
		m.SetTsig(c.KeyName, c.Alg, stubFudge, stubTime)
		ts := m.IsTsig()
		ts.Error = c.Error
		ts.OtherLen, ts.OtherData = uint16(len(c.Other)), hex.EncodeToString(c.Other)
		if c.StaleStub {
			// the stub is a TSIG value that was used before (a template kept by the caller): MAC and
			// MAC size still hold the previous message's; TsigGenerate must replace them, and must send
			// an empty MAC for BADSIG / BADKEY answers (RFC 8945 5.3.2)
			ts.MAC, ts.MACSize = "00112233445566778899aabbccddeeff00112233", 20
			classes = append(classes, "stub-with-stale-mac")
		}
		if c.IDDelta != 0 {
			// the message was first sent (and its TSIG set up) under another ID: the MAC covers that
			// original ID, whatever ID the header carries now
			want.OrigID = m.Id - c.IDDelta
			ts.OrigId = want.OrigID
			classes = append(classes, "libsigned-origid-differs")
			if want.OrigID == 0 {
				// a stub that was made before the message got its ID (SetTsig, then SetQuestion), or a
				// hand-built one without OrigId
				classes = append(classes, "libsigned-stub-origid-0")
			}
		}
		var mac string
		var gerr error
		out, mac, gerr = dns.TsigGenerate(m, base64.StdEncoding.EncodeToString(c.Secret), hex.EncodeToString(c.ReqMAC), c.TimersOnly)
		if !supported {
			classes = append(classes, "unsupported-algorithm")
			if gerr == nil && !unsignedErr {
				return pbt.Errf("TsigGenerate signed with unsupported algorithm %q (MAC %s)", c.Alg, mac)
			}
			return nil
		}
		if gerr != nil {
			return pbt.Errf("TsigGenerate failed: %v (alg %s, message %d octets, request MAC %d octets, timers only %v)", gerr, c.Alg, len(packed), len(c.ReqMAC), c.TimersOnly)
		}
		stripped, last, mp, werr := ref.StripLast(out)
		if werr != nil {
			return pbt.Errf("TsigGenerate output does not parse: %v", werr)
		}
		if c.IDDelta != 0 && len(stripped) >= 2 {
			// which of the two IDs TsigGenerate leaves in the header is not part of the statement
			// (the pinned library sends the original one); everything else must be the packed message
			if id := binary.BigEndian.Uint16(stripped); id != want.OrigID && id != binary.BigEndian.Uint16(packed) {
				return pbt.Errf("TsigGenerate output carries header ID %d, neither the message's %d nor the original %d", id, binary.BigEndian.Uint16(packed), want.OrigID)
			}
			ref.SetID(stripped, binary.BigEndian.Uint16(packed))
		}
		if !bytes.Equal(stripped, packed) {
			return pbt.Errf("TsigGenerate output minus its last additional record differs from Pack() of the message (first difference at octet %d, lengths %d/%d)", firstDiff(stripped, packed), len(stripped), len(packed))
		}
		if int(ref.ARCount(out)) != int(ref.ARCount(packed))+1 || mp.AR != len(c.Msg.Extra)+1 {
			return pbt.Errf("ARCOUNT of the signed message is %d, the message has %d additional records", ref.ARCount(out), len(c.Msg.Extra))
		}
		if last.End != len(out) || last.Type != ref.TypeTSIG {
			return pbt.Errf("appended record has type %d and ends at %d of %d octets; want one TSIG record at the very end", last.Type, last.End, len(out))
		}
		got, terr := ref.ParseTsig(out, last, false)
		if terr != nil {
			return pbt.Errf("appended TSIG record is malformed: %v", terr)
		}
		if got.Class != ref.ClassANY || got.TTL != 0 || !got.KeyName.EqualFold(keyL) || !got.Algorithm.EqualFold(algL) || got.Fudge != c.Fudge ||
			got.OrigID != want.OrigID || got.Error != c.Error || !bytes.Equal(got.OtherData, c.Other) {
			return pbt.Errf("TSIG record %+v does not carry the requested key/algorithm/fudge/original ID/error/other data", got)
		}
		if unsignedErr {
			classes = append(classes, "unsigned-error-response")
			if len(got.MAC) != 0 || mac != "" {
				return pbt.Errf("TSIG error %d response carries a MAC (RFC 8945 5.3.2: it must not be signed)", c.Error)
			}
			if libVerify(out, c.Secret, c.ReqMAC, c.TimersOnly, c.Time) == nil {
				return pbt.Errf("TsigVerify accepted an unsigned TSIG error response")
			}
			return checkUnsigned(c, packed, want, out)
		}
		if c.ZeroTime {
			// the signing time is the wall clock at the call: take what is on the wire, it must lie
			// between the readings taken around the call
			if wallAfter := uint64(time.Now().Unix()); got.TimeSigned < wallBefore || got.TimeSigned > wallAfter {
				return pbt.Errf("TsigGenerate with TimeSigned 0 in the stub put time signed %d on the wire, the clock read %d..%d", got.TimeSigned, wallBefore, wallAfter)
			}
			c.Time, want.TimeSigned = got.TimeSigned, got.TimeSigned
			classes = append(classes, "stub-timesigned-0")
		}
		if c.ZeroFudge {
			classes = append(classes, "stub-fudge-0")
		}
		if got.TimeSigned != c.Time {
			return pbt.Errf("TSIG time signed %d, want %d", got.TimeSigned, c.Time)
		}
		wantMAC, _ := ref.TsigMAC(algL, c.Secret, ref.TsigDigestInput(c.ReqMAC, packed, &want, c.TimersOnly))
		if !bytes.Equal(got.MAC, wantMAC) || !strings.EqualFold(mac, hex.EncodeToString(wantMAC)) {
			return pbt.Errf("TsigGenerate MAC %x (returned %s), RFC 8945 4.3 gives %x (alg %s, request MAC %d octets, timers only %v, error %d, other data %d octets)",
				got.MAC, mac, wantMAC, c.Alg, len(c.ReqMAC), c.TimersOnly, c.Error, len(c.Other))
		}
	}

	// (2) the signed message verifies (library and reference)
	ring := func(ref.Labels) ([]byte, bool) { return c.Secret, true }
	if v := ref.TsigVerify(out, ring, c.ReqMAC, c.TimersOnly, c.Time, false); !v.OK {
		if c.RefSigned {
			return nil
		}
		return pbt.Errf("reference rejects the output of TsigGenerate: %s", v.Why)
	}
	if notauth {
		classes = append(classes, "rcode-notauth")
	}
	if notauth && c.SkipNotAuth {
		// known finding: TsigVerify reports every RCODE NOTAUTH message as ErrAuth before looking at
		// the MAC, so a correctly signed one (a signed BADTIME answer, RFC 8945 5.2.3) does not verify.
		// While it is listed the if-direction is not asserted for these messages; the only-if
		// direction holds trivially.
		classes = append(classes, "rcode-notauth(known finding, not asserted)")
		if libVerify(out, c.Secret, c.ReqMAC, c.TimersOnly, c.Time) == nil {
			classes = append(classes, "rcode-notauth-accepted")
		}
		return nil
	}
	if verr := libVerify(out, c.Secret, c.ReqMAC, c.TimersOnly, c.Time); verr != nil {
		return pbt.Errf("TsigVerify of a correctly signed message failed: %v (alg %s, refsigned=%v, header ID %d, original ID %d, request MAC %d octets, timers only %v)",
			verr, c.Alg, c.RefSigned, binary.BigEndian.Uint16(out), want.OrigID, len(c.ReqMAC), c.TimersOnly)
	}
	// (3) time window, probed on both sides
	f := uint64(c.Fudge)
	for _, now := range []uint64{c.Time - f - 1, c.Time - f, c.Time - f + 1, c.Time - 1, c.Time + 1, c.Time + f - 1, c.Time + f, c.Time + f + 1} {
		d := now - c.Time
		if now < c.Time {
			d = c.Time - now
		}
		verr := libVerify(out, c.Secret, c.ReqMAC, c.TimersOnly, now)
		if (verr == nil) != (d <= f) {
			return pbt.Errf("TsigVerify at now = time signed %+d with fudge %d: %v, want accepted=%v", int64(now)-int64(c.Time), c.Fudge, verr, d <= f)
		}
	}

	// ... and far away: the difference now - time signed is a 48-bit quantity (and the verifier's clock a
	// 64-bit one); offsets that are a multiple of a power of two plus something small must be
	// rejected like any other offset beyond the fudge
	for _, off := range c.Far {
		if off < 0 && uint64(-off) > c.Time {
			continue
		}
		now := uint64(int64(c.Time) + off)
		d := off
		if d < 0 {
			d = -d
		}
		verr := libVerify(out, c.Secret, c.ReqMAC, c.TimersOnly, now)
		if (verr == nil) != (d <= int64(f)) {
			return pbt.Errf("TsigVerify of a genuine MAC at now = time signed %+d (time signed %d, fudge %d): %v, want accepted=%v", off, c.Time, c.Fudge, verr, d <= int64(f))
		}
		pbt.Class("far-clock-offset")
	}

	// (4) only-if: single-bit flips
	_, last, _, _ := ref.StripLast(out)
	var bits []int
	if len(out) <= fullLimit() {
		for b := 0; b < len(out)*8; b++ {
			bits = append(bits, b)
		}
		classes = append(classes, "flips=exhaustive")
	} else {
		seen := map[int]bool{}
		add := func(b int) {
			if !seen[b] {
				seen[b] = true
				bits = append(bits, b)
			}
		}
		for b := 0; b < 12*8; b++ {
			add(b)
		}
		for b := last.Start * 8; b < len(out)*8; b++ {
			add(b)
		}
		for _, s := range c.Sample {
			if s < 0 {
				s = -s
			}
			add(s % (last.Start * 8))
		}
		sort.Ints(bits)
		classes = append(classes, "flips=header+tsig+sampled")
	}
	classField := func(o int) bool { return o >= last.Fixed+2 && o < last.Fixed+4 }
	type res struct {
		k   verdictKind
		why string
	}
	results := make([]res, len(bits))
	parallelEach(len(bits), func(i int) bool {
		o := bits[i] / 8
		if c.SkipClass && classField(o) {
			return false
		}
		x := append([]byte(nil), out...)
		x[o] ^= 1 << (bits[i] % 8)
		k, why := judge(x, c.Secret, c.ReqMAC, c.TimersOnly, c.Time)
		results[i] = res{k, why}
		return k != vRejected
	})
	nFlip, nBoth, nTail := 0, 0, 0
	for i, r := range results {
		o := bits[i] / 8
		if c.SkipClass && classField(o) {
			continue
		}
		nFlip++
		switch r.k {
		case vBoth:
			nBoth++
		case vLenientTail:
			nTail++
			// expected places: the TSIG record's RDLENGTH (cuts off trailing zero fields), or - in
			// timers-only mode, where it is not covered by the MAC - the Other Len field of a record
			// without Other Data
			inRdlen := o >= last.Fixed+8 && o < last.Fixed+10
			inOtherLen := c.TimersOnly && o >= last.End-2 && len(c.Other) == 0
			if !inRdlen && !inOtherLen {
				return pbt.Errf("TsigVerify accepted a flip of bit %d in octet %d that only a decoder stopping at field boundaries accepts, and the octet is neither in the TSIG RDLENGTH (%d..%d) nor in an unsigned Other Len", bits[i]%8, o, last.Fixed+8, last.Fixed+9)
			}
		case vViolation:
			return pbt.Errf("TsigVerify accepted the signed message with bit %d of octet %d flipped (message %d octets, TSIG record at %d, its fixed part at %d, RDATA at %d; timers only %v); reference: %s",
				bits[i]%8, o, len(out), last.Start, last.Fixed, last.RData, c.TimersOnly, r.why)
		}
	}
	for i := 0; i < nFlip; i++ {
		pbt.Class("flip")
	}
	for i := 0; i < nBoth; i++ {
		pbt.Class("flip-accepted-by-both(id/letter-case/unsigned-in-timers-mode)")
	}
	for i := 0; i < nTail; i++ {
		pbt.Class("flip-lenient-tail(counted, not asserted)")
	}

	// (4) only-if: single-field alterations, MAC left as it is
	base, perr2 := ref.ParseTsig(out, last, false)
	if perr2 != nil {
		return pbt.Errf("internal: signed message does not re-parse: %v", perr2)
	}
	stripped := append([]byte(nil), out[:last.Start]...)
	ref.SetARCount(stripped, ref.ARCount(out)-1)
	rebuild := func(t ref.Tsig) []byte { return t.AppendTo(stripped) }
	type alt struct {
		name   string
		msg    []byte
		secret []byte
		req    []byte
		timers bool
	}
	var alts []alt
	field := func(name string, f func(t *ref.Tsig)) {
		t := *base
		t.MAC = append([]byte(nil), base.MAC...)
		t.OtherData = append([]byte(nil), base.OtherData...)
		f(&t)
		alts = append(alts, alt{name, rebuild(t), c.Secret, c.ReqMAC, c.TimersOnly})
	}
	field("key name: other name", func(t *ref.Tsig) { t.KeyName = append(ref.Labels{[]byte("x")}, t.KeyName...) })
	field("key name: last label dropped", func(t *ref.Tsig) {
		if len(t.KeyName) > 0 {
			t.KeyName = t.KeyName[:len(t.KeyName)-1]
		}
	})
	field("key name: letter case inverted", func(t *ref.Tsig) { t.KeyName = invertCase(t.KeyName) })
	field("algorithm: letter case inverted", func(t *ref.Tsig) { t.Algorithm = invertCase(t.Algorithm) })
	for _, a := range algNames {
		if l, _ := labelsOf(a); !l.EqualFold(algL) {
			field("algorithm: "+a, func(t *ref.Tsig) { t.Algorithm = l })
			break
		}
	}
	field("time signed +1", func(t *ref.Tsig) { t.TimeSigned++ })
	field("time signed -1", func(t *ref.Tsig) { t.TimeSigned-- })
	field("fudge +1", func(t *ref.Tsig) { t.Fudge++ })
	field("fudge -1", func(t *ref.Tsig) { t.Fudge-- })
	if !c.SkipFudge0 {
		field("fudge := 0", func(t *ref.Tsig) { t.Fudge = 0 })
	}
	field("error +1", func(t *ref.Tsig) { t.Error++ })
	field("error := BADTIME", func(t *ref.Tsig) { t.Error = 18 })
	field("other data: octet appended", func(t *ref.Tsig) { t.OtherData = append(t.OtherData, 0) })
	field("other data: six zero octets", func(t *ref.Tsig) { t.OtherData = make([]byte, 6) })
	field("MAC: truncated to half", func(t *ref.Tsig) { t.MAC = t.MAC[:len(t.MAC)/2] })
	field("MAC: truncated to 10 octets", func(t *ref.Tsig) { t.MAC = t.MAC[:10] })
	field("MAC: empty", func(t *ref.Tsig) { t.MAC = nil })
	// no MAC at all under every kind of Error value: an unsigned record is what an answer that
	// reports BADSIG / BADKEY looks like (RFC 8945 5.3.2), and like every other record whose MAC is
	// not the HMAC it never verifies - anyone can write one, no key is needed
	for _, e := range unsignedErrors {
		if e != base.Error {
			e := e
			field(fmt.Sprintf("MAC: empty and error := %d", e), func(t *ref.Tsig) { t.MAC, t.Error = nil, e })
		}
	}
	// every proper prefix of the genuine MAC (MAC Size and RDLENGTH consistent), and the genuine MAC
	// with octets added: RFC 8945 5.2.2.1 lets a verifier accept truncation down to max(10, half) by
	// local policy; the pinned library has none and accepts the full-length MAC only
	// (every length for messages whose flips are enumerated exhaustively; for the long ones, where one
	// verification costs a walk over hundreds of records, the lengths around 1, 10, half and full
	// plus four sampled ones)
	prefixLens := map[int]bool{}
	if n := len(base.MAC); len(out) > fullLimit() && n > 16 {
		for _, k := range []int{1, 2, 9, 10, 11, n/2 - 1, n / 2, n/2 + 1, n - 2, n - 1} {
			prefixLens[k] = true
		}
		for i := 0; i < 4 && i < len(c.Sample); i++ {
			prefixLens[1+abs(c.Sample[i])%(n-1)] = true
		}
	}
	for k := 1; k < len(base.MAC); k++ {
		k := k
		if len(prefixLens) > 0 && !prefixLens[k] {
			continue
		}
		field(fmt.Sprintf("MAC: first %d of %d octets", k, len(base.MAC)), func(t *ref.Tsig) { t.MAC = t.MAC[:k] })
	}
	field("MAC: one octet appended", func(t *ref.Tsig) { t.MAC = append(t.MAC, 0x5a) })
	field("MAC: sixteen octets appended", func(t *ref.Tsig) { t.MAC = append(t.MAC, make([]byte, 16)...) })
	field("MAC: doubled", func(t *ref.Tsig) { t.MAC = append(t.MAC, t.MAC...) })
	field("MAC: zero octet appended", func(t *ref.Tsig) { t.MAC = append(t.MAC, 0) })
	field("MAC: last octet changed", func(t *ref.Tsig) { t.MAC[len(t.MAC)-1] ^= 0x80 })
	field("original ID +1", func(t *ref.Tsig) { t.OrigID++ })
	field("TTL := 1", func(t *ref.Tsig) { t.TTL = 1 })
	if !c.SkipClass {
		field("class := IN", func(t *ref.Tsig) { t.Class = 1 })
		field("class := NONE", func(t *ref.Tsig) { t.Class = 254 })
	}
	// environment alterations
	alts = append(alts, alt{"wrong secret", out, c.Secret2, c.ReqMAC, c.TimersOnly})
	alts = append(alts, alt{"secret with one more octet", out, append(append([]byte(nil), c.Secret...), 1), c.ReqMAC, c.TimersOnly})
	if len(c.ReqMAC) > 0 {
		r := append([]byte(nil), c.ReqMAC...)
		r[0] ^= 1
		alts = append(alts, alt{"request MAC altered", out, c.Secret, r, c.TimersOnly},
			alt{"request MAC dropped", out, c.Secret, nil, c.TimersOnly},
			alt{"request MAC shortened", out, c.Secret, c.ReqMAC[:len(c.ReqMAC)-1], c.TimersOnly})
	} else {
		alts = append(alts, alt{"request MAC added", out, c.Secret, bytes.Repeat([]byte{0}, 20), c.TimersOnly})
	}
	alts = append(alts, alt{"other timers-only setting", out, c.Secret, c.ReqMAC, !c.TimersOnly})
	// MAC Size rewritten in place, octets and RDLENGTH left as they are (inconsistent record)
	if macSizeOff := last.RData + len(base.Algorithm.Wire()) + 8; macSizeOff+2 <= len(out) {
		for _, k := range []int{0, 1, 10, len(base.MAC) / 2, len(base.MAC) - 1, len(base.MAC) + 1} {
			x := append([]byte(nil), out...)
			binary.BigEndian.PutUint16(x[macSizeOff:], uint16(k))
			alts = append(alts, alt{fmt.Sprintf("MAC Size := %d in place (octets and RDLENGTH unchanged)", k), x, c.Secret, c.ReqMAC, c.TimersOnly})
		}
	}
	// structure alterations
	alts = append(alts, alt{"TSIG removed, ARCOUNT fixed", stripped, c.Secret, c.ReqMAC, c.TimersOnly})
	noFix := append([]byte(nil), out[:last.Start]...)
	alts = append(alts, alt{"TSIG removed, ARCOUNT not fixed", noFix, c.Secret, c.ReqMAC, c.TimersOnly})
	after := ref.AppendRR(append([]byte(nil), out...), ref.Labels{[]byte("x")}, 1, 1, 0, []byte{192, 0, 2, 1})
	ref.SetARCount(after, ref.ARCount(out)+1)
	alts = append(alts, alt{"TSIG not last: A record appended after it", after, c.Secret, c.ReqMAC, c.TimersOnly})
	dup := append(append([]byte(nil), out...), out[last.Start:]...)
	ref.SetARCount(dup, ref.ARCount(out)+1)
	alts = append(alts, alt{"TSIG duplicated", dup, c.Secret, c.ReqMAC, c.TimersOnly})
	before := append(append([]byte(nil), stripped...), out[last.Start:]...)
	before = ref.AppendRR(before, ref.Labels{[]byte("x")}, 1, 1, 0, []byte{192, 0, 2, 1})
	ref.SetARCount(before, ref.ARCount(out)+1)
	alts = append(alts, alt{"TSIG followed by an A record, ARCOUNT raised", before, c.Secret, c.ReqMAC, c.TimersOnly})
	// messages made by a holder of the secret who does not sign what RFC 8945 4.3.2 says: the TSIG is
	// NOT the last additional record (1..2 records follow it: an A record, an OPT, a second TSIG under
	// another key name, a copy of itself), and the MAC covers the octets in front of the TSIG with an
	// ARCOUNT that counts everything but the TSIG. "The message without the TSIG record" includes the
	// records after it, so this MAC is not the RFC 8945 HMAC of the message as received (and RFC 8945
	// 5.2 refuses a TSIG in any position but the last, and more than one, with FORMERR)
	if !c.SkipNotLast {
		for _, h := range holderTails {
			p := append([]byte(nil), stripped...)
			ref.SetARCount(p, ref.ARCount(stripped)+uint16(h.n))
			t := *base
			x, _, serr := ref.TsigSign(p, t, c.Secret, c.ReqMAC, c.TimersOnly)
			if serr != nil {
				continue
			}
			x = h.tail(x, base)
			ref.SetARCount(x, ref.ARCount(stripped)+1+uint16(h.n))
			alts = append(alts, alt{"made by a key holder: MAC over the octets in front of the TSIG, " + h.name, x, c.Secret, c.ReqMAC, c.TimersOnly})
		}
	}
	// octets after the TSIG record are outside the message the header counts delimit: every decoder
	// of the library ignores them, and so does the reference (classified by consensus, never asserted)
	alts = append(alts, alt{"octets appended after the TSIG record", append(append([]byte(nil), out...), 0, 0, 250, 0, 255), c.Secret, c.ReqMAC, c.TimersOnly})
	for _, a := range alts {
		if len(a.msg) < 12 {
			continue
		}
		k, why := judge(a.msg, a.secret, a.req, a.timers, c.Time)
		pbt.Class("alteration")
		switch k {
		case vBoth:
			pbt.Class("alteration-accepted-by-both:" + a.name)
		case vLenientTail:
			return pbt.Errf("TsigVerify accepted alteration %q only under the cut-off-fields reading", a.name)
		case vViolation:
			return pbt.Errf("TsigVerify accepted the signed message after the alteration %q (alg %s, timers only %v, request MAC %d octets); reference: %s", a.name, c.Alg, c.TimersOnly, len(c.ReqMAC), why)
		}
	}
	// the request MAC is handed over as a hex string: the same octets in upper-case digits are the
	// same request MAC; a string that is no whole number of octets is no request MAC at all and
	// must not make anything verify
	secret64, reqHex := base64.StdEncoding.EncodeToString(c.Secret), hex.EncodeToString(c.ReqMAC)
	if up := strings.ToUpper(reqHex); up != reqHex {
		pbt.Class("reqmac-hex-upper-case")
		if verr := dns.VerifTsigVerifySecretAt(append([]byte(nil), out...), secret64, up, c.TimersOnly, c.Time); verr != nil {
			return pbt.Errf("TsigVerify of a correctly signed message fails when the request MAC (%d octets) is written with upper-case hex digits: %v", len(c.ReqMAC), verr)
		}
	}
	odd := []string{reqHex + "0", "0" + reqHex}
	if len(reqHex) > 0 {
		odd = append(odd, reqHex[:len(reqHex)-1], reqHex[1:])
	}
	for _, o := range odd {
		pbt.Class("reqmac-odd-hex")
		if dns.VerifTsigVerifySecretAt(append([]byte(nil), out...), secret64, o, c.TimersOnly, c.Time) == nil {
			return pbt.Errf("TsigVerify accepted the signed message with the request MAC argument %q, which is not a whole number of octets (signed over %q)", o, reqHex)
		}
	}
	return nil
}

// unsignedErrors: the Error values an unsigned record (MAC Size 0) is tried with: none, an RCODE,
// the three TSIG errors, BADTRUNC and the largest value.
var unsignedErrors = []uint16{0, 1, 16, 17, 18, 22, 65535}

// checkUnsigned: TSIG records that carry no MAC. RFC 8945 5.3.2 sends an answer that reports
// BADSIG or BADKEY without a MAC, and the receiver "MUST treat it as unauthenticated": whatever
// Error, Time Signed and Other Data such a record names, with whatever request MAC and mode it is
// checked and whenever, its MAC is not the RFC 8945 HMAC and it does not verify. libOut is the
// output of TsigGenerate for the case (nil when the reference made the record).
func checkUnsigned(c tsigCase, packed []byte, want ref.Tsig, libOut []byte) error {
	type probe struct {
		name string
		msg  []byte
		at   uint64
	}
	var ps []probe
	if libOut != nil {
		if _, last, _, err := ref.StripLast(libOut); err == nil {
			if g, perr := ref.ParseTsig(libOut, last, false); perr == nil {
				ps = append(ps, probe{"as TsigGenerate wrote it, checked at its own time signed", libOut, g.TimeSigned})
			}
		}
	}
	for _, e := range []uint16{want.Error, 33 - want.Error} { // BADSIG and BADKEY
		u := want
		u.Error, u.MAC = e, nil
		ps = append(ps, probe{fmt.Sprintf("error %d, time signed = now", e), u.AppendTo(packed), c.Time})
		u.TimeSigned = 0
		ps = append(ps, probe{fmt.Sprintf("error %d, time signed 0, checked at 0", e), u.AppendTo(packed), 0},
			probe{fmt.Sprintf("error %d, time signed 0, checked at fudge", e), u.AppendTo(packed), uint64(c.Fudge)})
		u.TimeSigned, u.OtherData = c.Time, nil
		ps = append(ps, probe{fmt.Sprintf("error %d, no other data, time signed = now", e), u.AppendTo(packed), c.Time})
	}
	type env struct {
		req    []byte
		timers bool
	}
	envs := []env{{c.ReqMAC, c.TimersOnly}, {c.ReqMAC, !c.TimersOnly}, {nil, false}}
	for _, p := range ps {
		for _, e := range envs {
			pbt.Class("unsigned-record-probe")
			if k, why := judge(p.msg, c.Secret, e.req, e.timers, p.at); k != vRejected {
				return pbt.Errf("TsigVerify accepted a message whose TSIG record carries no MAC (%s; alg %s, request MAC %d octets, timers only %v, clock %d); reference: %s",
					p.name, c.Alg, len(e.req), e.timers, p.at, why)
			}
		}
	}
	return nil
}

// holderTails: what follows a TSIG that is not the last additional record (see checkTsig).
var holderTails = []struct {
	name string
	n    int
	tail func(x []byte, genuine *ref.Tsig) []byte
}{
	{"an A record after it", 1, func(x []byte, _ *ref.Tsig) []byte {
		return ref.AppendRR(x, ref.Labels{[]byte("x")}, 1, 1, 0, []byte{192, 0, 2, 1})
	}},
	{"an OPT record after it", 1, func(x []byte, _ *ref.Tsig) []byte { return ref.AppendRR(x, nil, 41, 1232, 0, nil) }},
	{"a second TSIG under another key name after it", 1, func(x []byte, g *ref.Tsig) []byte { return otherTsig(g).AppendTo(x) }},
	{"a copy of the TSIG after it", 1, func(x []byte, g *ref.Tsig) []byte {
		t := *g
		return t.AppendTo(x) // g.MAC is the MAC of the unaltered message, any octets will do here
	}},
	{"an A record and a second TSIG under another key name after it", 2, func(x []byte, g *ref.Tsig) []byte {
		x = ref.AppendRR(x, ref.Labels{[]byte("x")}, 1, 1, 0, []byte{192, 0, 2, 1})
		return otherTsig(g).AppendTo(x)
	}},
}

func otherTsig(g *ref.Tsig) *ref.Tsig {
	t := *g
	t.KeyName = ref.Labels{[]byte("another-key")}
	t.MAC = bytes.Repeat([]byte{0xa5}, len(g.MAC))
	return &t
}

func abs(i int) int {
	if i < 0 {
		return -i
	}
	return i
}

func btoi(b bool) int {
	if b {
		return 1
	}
	return 0
}

func invertCase(n ref.Labels) ref.Labels {
	o := make(ref.Labels, len(n))
	for i, l := range n {
		o[i] = append([]byte(nil), l...)
		for j, c := range o[i] {
			if c >= 'a' && c <= 'z' || c >= 'A' && c <= 'Z' {
				o[i][j] = c ^ 0x20
			}
		}
	}
	return o
}

func firstDiff(a, b []byte) int {
	for i := 0; i < len(a) && i < len(b); i++ {
		if a[i] != b[i] {
			return i
		}
	}
	return min(len(a), len(b))
}

func sizeClass(n int) string {
	switch {
	case n <= 64:
		return "size<=64"
	case n <= 512:
		return "size=65-512"
	case n <= 4096:
		return "size=513-4096"
	case n <= 16384:
		return "size=4097-16384"
	default:
		return "size>16384"
	}
}

func lenClass(n int) string {
	switch {
	case n == 0:
		return "0"
	case n <= 32:
		return "1-32"
	case n <= 64:
		return "33-64"
	default:
		return "65-128"
	}
}

// ---------------------------------------------------------------------------------------------

func genSecret(t *rapid.T, tag string) []byte {
	n := rapid.OneOf(rapid.SampledFrom([]int{0, 1, 16, 20, 32, 63, 64, 65, 127, 128}), rapid.IntRange(0, 128)).Draw(t, tag+"len")
	return rapid.SliceOfN(rapid.Byte(), n, n).Draw(t, tag)
}

func genAlg(t *rapid.T) string {
	a := rapid.SampledFrom(algNames).Draw(t, "alg")
	switch rapid.IntRange(0, 11).Draw(t, "algk") {
	case 0:
		return strings.ToUpper(a)
	case 1:
		b := []byte(a)
		for i, c := range b {
			if c >= 'a' && c <= 'z' && rapid.Bool().Draw(t, "uc") {
				b[i] = c ^ 0x20
			}
		}
		return string(b)
	case 2:
		return rapid.SampledFrom([]string{"hmac-md5.sig-alg.reg.int.", "hmac-sha3-256.", "hmac-sha256.example.", "."}).Draw(t, "badalg")
	}
	return a
}

func genTime(t *rapid.T, fudge uint16) uint64 {
	lo := uint64(fudge) + 2
	hi := uint64(1)<<48 - uint64(fudge) - 3
	switch rapid.IntRange(0, 9).Draw(t, "tk") {
	case 0:
		return lo + rapid.Uint64Range(0, 10).Draw(t, "t")
	case 1:
		return hi - rapid.Uint64Range(0, 10).Draw(t, "t")
	case 2:
		return uint64(1)<<32 + rapid.Uint64Range(0, 20).Draw(t, "t") - 10
	case 3:
		return rapid.Uint64Range(lo, hi).Draw(t, "t")
	default:
		return rapid.Uint64Range(1_500_000_000, 2_000_000_000).Draw(t, "t")
	}
}

func genTsig(t *rapid.T) tsigCase {
	c := tsigCase{}
	c.Msg = msgspec.Gen(t, msgspec.Opts{Big: true, ManyExtra: rapid.IntRange(0, 3).Draw(t, "many") == 0})
	kn := gen.Name(t, gen.NameOpts{MaxLabs: 4, MaxLabel: 12, Plain: rapid.IntRange(0, 2).Draw(t, "plainkey") > 0})
	c.KeyName = wm.EscName(kn)
	if rapid.IntRange(0, 3).Draw(t, "spellkey") == 0 {
		// the same name as a program may write it: letters and other octets as \DDD or \c
		c.KeyName = spellTsigName(t, kn)
	}
	c.Alg = genAlg(t)
	c.Secret = genSecret(t, "secret")
	c.Secret2 = genSecret(t, "secret2")
	if rapid.IntRange(0, 2).Draw(t, "hasreq") > 0 {
		c.ReqMAC = genReqMAC(t, reqMACLens)
	}
	c.TimersOnly = rapid.IntRange(0, 3).Draw(t, "timers") == 0
	c.Fudge = rapid.OneOf(rapid.SampledFrom([]uint16{300, 300, 300, 1, 2, 256, 65535}), rapid.Uint16Range(1, 65535)).Draw(t, "fudge")
	c.Time = genTime(t, c.Fudge)
	c.Error = rapid.SampledFrom([]uint16{0, 0, 0, 0, 0, 0, 18, 18, 16, 17, 1, 22, 65535}).Draw(t, "error")
	if c.Error == 18 || rapid.IntRange(0, 7).Draw(t, "hasother") == 0 {
		n := rapid.SampledFrom([]int{6, 6, 1, 40}).Draw(t, "otherlen")
		c.Other = rapid.SliceOfN(rapid.Byte(), n, n).Draw(t, "other")
	}
	c.RefSigned = rapid.IntRange(0, 2).Draw(t, "refsigned") == 0
	if rapid.IntRange(0, 2-btoi(c.RefSigned)).Draw(t, "otherid") == 0 {
		c.IDDelta = rapid.Uint16Range(1, 65535).Draw(t, "iddelta")
		if !c.RefSigned && c.Msg.ID != 0 && rapid.IntRange(0, 3).Draw(t, "origid0") == 0 {
			c.IDDelta = c.Msg.ID // the stub's OrigId is 0: it was made before the message got its ID
		}
	}
	c.StaleStub = rapid.IntRange(0, 2).Draw(t, "stalestub") == 0
	if !c.RefSigned {
		if rapid.IntRange(0, 3).Draw(t, "zerofudge") == 0 {
			c.ZeroFudge, c.Fudge = true, 300
			c.Time = genTime(t, c.Fudge)
		}
		if rapid.IntRange(0, 5).Draw(t, "zerotime") == 0 {
			c.ZeroTime, c.Time = true, 1_700_000_000 // replaced by the time TsigGenerate takes from the clock
		}
	}
	c.Sample = rapid.SliceOfN(rapid.IntRange(0, 1<<22), 64, 64).Draw(t, "sample")
	for i := 0; i < 6; i++ {
		j := rapid.IntRange(8, 47).Draw(t, "farbit")
		k := rapid.OneOf(rapid.Int64Range(1, 3), rapid.Int64Range(1, 65535)).Draw(t, "fark")
		base := k << uint(j)
		for base >= 1<<48 {
			base >>= 1
		}
		d := rapid.OneOf(rapid.SampledFrom([]int64{0, 1, -1, int64(c.Fudge), -int64(c.Fudge), int64(c.Fudge) + 1, -int64(c.Fudge) - 1}),
			rapid.Int64Range(-int64(c.Fudge)-1, int64(c.Fudge)+1)).Draw(t, "fard")
		off := base + d
		if rapid.Bool().Draw(t, "farneg") {
			off = -off
		}
		c.Far = append(c.Far, off)
	}
	if pbt.Known(findClass) {
		pbt.Excluded(findClass)
		c.SkipClass = true
	}
	if pbt.Known(findFudge) {
		pbt.Excluded(findFudge)
		c.SkipFudge0 = true
	}
	if pbt.Known(findNotLast) {
		pbt.Excluded(findNotLast)
		c.SkipNotLast = true
	}
	if pbt.Known(findNotAuth) {
		c.SkipNotAuth = true
		if c.Msg.Rcode&0xF == 9 {
			pbt.Excluded(findNotAuth)
		}
	}
	return c
}

func init() {
	pbt.Register(pbt.Sub[tsigCase]{Name: "generate-verify-tamper", Weight: 1, Gen: genTsig, Check: checkTsig})
	simple := tsigCase{
		Msg: msgspec.Spec{ID: 0x4242, RD: true, Names: []string{"www.example.org.", "example.org."},
			Question: []msgspec.Q{{Name: 0, Type: 1, Class: 1}},
			Answer:   []msgspec.Rec{{Kind: "A", Owner: 0, Class: 1, TTL: 60, Data: []byte{192, 0, 2, 1}}}},
		KeyName: "key.example.", Alg: "hmac-sha256.", Secret: []byte("0123456789abcdef"), Secret2: []byte("other"), Fudge: 300, Time: 1_700_000_000,
	}
	pbt.Probe(findClass, func() error {
		c := simple
		c.SkipFudge0, c.SkipNotLast = true, true
		return checkTsig(c)
	})
	pbt.Probe(findFudge, func() error {
		c := simple
		c.SkipClass, c.SkipNotLast = true, true
		return checkTsig(c)
	})
	// the breaker's input: TsigGenerate(m, secret, "ab", false) - a request MAC of one octet
	pbt.Probe(findReqMAC1, func() error {
		c := simple
		c.SkipClass, c.SkipFudge0, c.SkipNotLast = true, true, true
		c.ReqMAC = []byte{0xab}
		return checkTsig(c)
	})
	// the breaker's input: m.SetTsig(`\075ey.`, ...) - the key name Key. with its K written as \075
	pbt.Probe(findDDDName, func() error {
		c := simple
		c.KeyName = `\075ey.`
		c.SkipNotLast = true
		return checkTsig(c)
	})
	// the breaker's input: a message with two TSIG records, the first one made with the holder's key,
	// the last one naming another key
	pbt.Probe(findNotLast, func() error {
		c := simple
		c.RefSigned = true
		c.SkipClass, c.SkipFudge0 = true, true
		return checkTsig(c)
	})
	// a signed BADTIME answer (RFC 8945 5.2.3: RCODE NOTAUTH, TSIG error 18, the server's clock as
	// other data) made by TsigGenerate, verified under the same key, request MAC and mode
	pbt.Probe(findNotAuth, func() error {
		c := simple
		c.Msg.Response, c.Msg.Rcode = true, 9
		c.Error, c.Other = 18, []byte{0, 0, 0x65, 0x53, 0xf1, 0}
		c.ReqMAC = bytes.Repeat([]byte{7}, 32)
		return checkTsig(c)
	})
}
