package c11

import (
	"crypto/hmac"
	"encoding/binary"
	"encoding/hex"
	"errors"
	"fmt"
	"net"
	"strings"
	"sync"
	"sync/atomic"
	"time"

	"github.com/miekg/dns"
	"pgregory.net/rapid"

	"verif/harness/c18/msgspec"
	"verif/harness/pbt"
	ref "verif/harness/refcrypto"
)

// ---------------------------------------------------------------------------------------------
// (7) over datagrams: a dns.Server on an in-memory net.PacketConn (the generic read path with the
// pooled read buffers) and a TsigProvider whose Verify the harness can hold back. While the
// verification of one signed request is held, further datagrams are sent and answered; the held
// request must come out verified all the same (its octets are the server's to keep until it is
// done with them), its reply must be signed over *its* MAC, and every other request must get its
// own answer.

type memAddr string

func (a memAddr) Network() string { return "mem" }
func (a memAddr) String() string  { return string(a) }

type memPkt struct {
	b    []byte
	addr net.Addr
}

type memPacketConn struct {
	in     chan memPkt
	out    chan memPkt
	closed chan struct{}
	once   sync.Once
}

func (p *memPacketConn) ReadFrom(b []byte) (int, net.Addr, error) {
	select {
	case k := <-p.in:
		return copy(b, k.b), k.addr, nil
	case <-p.closed:
		return 0, nil, errors.New("closed")
	}
}
func (p *memPacketConn) WriteTo(b []byte, a net.Addr) (int, error) {
	select {
	case p.out <- memPkt{append([]byte(nil), b...), a}:
		return len(b), nil
	case <-p.closed:
		return 0, errors.New("closed")
	}
}
func (p *memPacketConn) Close() error                     { p.once.Do(func() { close(p.closed) }); return nil }
func (p *memPacketConn) LocalAddr() net.Addr              { return memAddr("server") }
func (p *memPacketConn) SetDeadline(time.Time) error      { return nil }
func (p *memPacketConn) SetReadDeadline(time.Time) error  { return nil }
func (p *memPacketConn) SetWriteDeadline(time.Time) error { return nil }

// gatedProvider is an HMAC key ring (the e2e keys) whose Verify can be held by the harness.
type gatedProvider struct {
	hold    atomic.Bool   // the next Verify call waits for release
	entered chan struct{} // signalled when a Verify call starts waiting
	release chan struct{}
}

func (g *gatedProvider) mac(msg []byte, t *dns.TSIG) ([]byte, error) {
	for _, k := range e2eKeys {
		if strings.EqualFold(k.name, t.Hdr.Name) {
			al, err := labelsOf(t.Algorithm)
			if err != nil || ref.TsigHash(al) == nil {
				return nil, dns.ErrKeyAlg
			}
			h := hmac.New(ref.TsigHash(al), k.secret)
			h.Write(msg)
			return h.Sum(nil), nil
		}
	}
	return nil, dns.ErrSecret
}

func (g *gatedProvider) Generate(msg []byte, t *dns.TSIG) ([]byte, error) { return g.mac(msg, t) }

func (g *gatedProvider) Verify(msg []byte, t *dns.TSIG) error {
	if g.hold.CompareAndSwap(true, false) {
		g.entered <- struct{}{}
		<-g.release
	}
	want, err := g.mac(msg, t)
	if err != nil {
		return err
	}
	got, err := hex.DecodeString(t.MAC)
	if err != nil || !hmac.Equal(got, want) {
		return dns.ErrSig
	}
	return nil
}

var (
	udpOnce sync.Once
	udpPC   *memPacketConn
	udpGate *gatedProvider
	udpErr  error
)

func startUDPServer() (*memPacketConn, *gatedProvider, error) {
	udpOnce.Do(func() {
		udpPC = &memPacketConn{in: make(chan memPkt), out: make(chan memPkt, 64), closed: make(chan struct{})}
		udpGate = &gatedProvider{entered: make(chan struct{}, 1), release: make(chan struct{})}
		started := make(chan struct{})
		srv := &dns.Server{PacketConn: udpPC, Handler: dns.HandlerFunc(observingHandler), TsigProvider: udpGate, NotifyStartedFunc: func() { close(started) }}
		go func() {
			if err := srv.ActivateAndServe(); err != nil {
				udpErr = err
			}
		}()
		select {
		case <-started:
		case <-time.After(10 * time.Second):
			udpErr = errors.New("datagram server did not start")
		}
	})
	return udpPC, udpGate, udpErr
}

type udpCase struct {
	Victim msgspec.Spec   // the signed request whose verification is held
	Key    int            // its key
	Others []msgspec.Spec // requests sent while it is held (at most 16)
	Signed []bool         // which of the others carry a TSIG of their own
	Fudge  uint16
}

func udpQuery(spec msgspec.Spec, id uint16) ([]byte, error) {
	spec.ID = id
	spec.Response, spec.Opcode, spec.Rcode, spec.TC = false, 0, 0, false
	if len(spec.Question) == 0 {
		spec.Question = []msgspec.Q{{Name: 0, Type: 1, Class: 1}}
	}
	spec.Question = append([]msgspec.Q(nil), spec.Question[:1]...)
	if spec.Question[0].Type == dns.TypeAXFR {
		spec.Question[0].Type = dns.TypeA
	}
	spec.Answer, spec.Ns = nil, nil
	if len(spec.Extra) > 1 {
		spec.Extra = spec.Extra[:1]
	}
	b, err := spec.Build().Pack()
	if err == nil && len(b) > 380 {
		err = errors.New("too long for the 512-octet datagram buffers")
	}
	return b, err
}

func checkUDP(c udpCase) error {
	if len(c.Others) == 0 || len(c.Others) > 16 || len(c.Signed) < len(c.Others) || c.Fudge < 300 {
		return nil
	}
	pc, gate, err := startUDPServer()
	if err != nil {
		return pbt.Errf("infrastructure: %v", err)
	}
	key := e2eKeys[((c.Key%len(e2eKeys))+len(e2eKeys))%len(e2eKeys)]
	keyL, _ := labelsOf(key.name)
	algL, _ := labelsOf(key.alg)
	ring := func(n ref.Labels) ([]byte, bool) {
		for _, k := range e2eKeys {
			if kl, _ := labelsOf(k.name); kl.EqualFold(n) {
				return k.secret, true
			}
		}
		return nil, false
	}
	now := uint64(time.Now().Unix())
	sign := func(packed []byte) ([]byte, []byte) {
		t := ref.Tsig{KeyName: keyL, Class: ref.ClassANY, Algorithm: algL, TimeSigned: now, Fudge: c.Fudge, OrigID: binary.BigEndian.Uint16(packed)}
		out, mac, _ := ref.TsigSign(packed, t, key.secret, nil, false)
		return out, mac
	}
	base := c.Victim.ID
	vp, verr := udpQuery(c.Victim, base)
	if verr != nil {
		return nil
	}
	victim, victimMAC := sign(vp)
	type other struct {
		req, mac []byte
		id       uint16
	}
	var others []other
	for i, s := range c.Others {
		id := base + 1 + uint16(i)
		p, e := udpQuery(s, id)
		if e != nil {
			return nil
		}
		o := other{req: p, id: id}
		if c.Signed[i] {
			o.req, o.mac = sign(p)
		}
		others = append(others, o)
	}
	nSigned := 0
	for i := range others {
		if others[i].mac != nil {
			nSigned++
		}
	}
	pbt.Note(append([]byte(fmt.Sprintf("%d|%v|", c.Key, c.Signed)), victim...), true, fmt.Sprintf("others=%d", min(len(others), 8)), fmt.Sprintf("others-signed=%d", min(nSigned, 4)), "key="+key.name)

	deadline := make(chan struct{}) // watchdog only
	wd := time.AfterFunc(30*time.Second, func() { close(deadline) })
	defer wd.Stop()
	send := func(b []byte, from string) error {
		select {
		case pc.in <- memPkt{b, memAddr(from)}:
			return nil
		case <-deadline:
			return errors.New("server does not read")
		}
	}
	recv := func() (memPkt, error) {
		select {
		case k := <-pc.out:
			return k, nil
		case <-deadline:
			return memPkt{}, errors.New("no reply")
		}
	}
	// the victim goes in and is held inside TsigProvider.Verify
	gate.hold.Store(true)
	if err := send(victim, "victim"); err != nil {
		return pbt.Errf("infrastructure: %v", err)
	}
	select {
	case <-gate.entered:
	case <-deadline:
		gate.hold.Store(false)
		return pbt.Errf("the signed request never reached TsigProvider.Verify")
	}
	// the others are served meanwhile
	replies := map[uint16][]byte{}
	var firstErr error
	for _, o := range others {
		if err := send(o.req, fmt.Sprintf("other-%d", o.id)); err != nil {
			firstErr = err
			break
		}
		k, err := recv()
		if err != nil {
			firstErr = err
			break
		}
		if len(k.b) >= 2 {
			replies[binary.BigEndian.Uint16(k.b)] = k.b
		}
	}
	gate.release <- struct{}{}
	if firstErr != nil {
		recv()
		return pbt.Errf("while one request was being verified the server stopped serving: %v", firstErr)
	}
	vr, err := recv()
	if err != nil {
		return pbt.Errf("no reply to the held request: %v", err)
	}
	obsOf := func(b []byte) (string, *dns.Msg, error) {
		m := new(dns.Msg)
		if err := m.Unpack(b); err != nil {
			return "", nil, err
		}
		for _, rr := range m.Answer {
			if x, ok := rr.(*dns.TXT); ok && x.Hdr.Name == "observation." && len(x.Txt) == 1 {
				return x.Txt[0], m, nil
			}
		}
		return "", m, nil
	}
	now2 := uint64(time.Now().Unix())
	for _, o := range others {
		b, ok := replies[o.id]
		if !ok {
			return pbt.Errf("request %d sent while another was being verified got no reply of its own (replies for IDs %v)", o.id, keysOf(replies))
		}
		obs, _, uerr := obsOf(b)
		if uerr != nil {
			return pbt.Errf("reply to request %d does not unpack: %v", o.id, uerr)
		}
		if o.mac == nil {
			if obs != "has=false status=<nil>" {
				return pbt.Errf("unsigned request %d: handler observed %q", o.id, obs)
			}
			continue
		}
		if obs != "has=true status=<nil>" {
			return pbt.Errf("correctly signed request %d (sent while another request was being verified): handler observed %q", o.id, obs)
		}
		if rv := ref.TsigVerify(b, ring, o.mac, false, now2, false); !rv.OK {
			return pbt.Errf("reply to signed request %d does not verify against that request's MAC (reference: %s)", o.id, rv.Why)
		}
	}
	if len(vr.b) < 2 || binary.BigEndian.Uint16(vr.b) != base {
		return pbt.Errf("reply after the release has ID %d, the held request had %d", binary.BigEndian.Uint16(vr.b), base)
	}
	obs, _, uerr := obsOf(vr.b)
	if uerr != nil {
		return pbt.Errf("reply to the held request does not unpack: %v", uerr)
	}
	if obs != "has=true status=<nil>" {
		return pbt.Errf("a correctly signed request whose verification was held while %d other datagrams (%d signed) were served: handler observed %q", len(others), nSigned, obs)
	}
	if rv := ref.TsigVerify(vr.b, ring, victimMAC, false, now2, false); !rv.OK {
		return pbt.Errf("reply to the held request does not verify against its MAC (reference: %s)", rv.Why)
	}
	return nil
}

func keysOf(m map[uint16][]byte) []uint16 {
	var o []uint16
	for k := range m {
		o = append(o, k)
	}
	return o
}

func genUDP(t *rapid.T) udpCase {
	c := udpCase{Victim: msgspec.Gen(t, msgspec.Opts{MaxSmall: 1, PlainNames: true})}
	c.Key = rapid.IntRange(0, len(e2eKeys)-1).Draw(t, "key")
	n := rapid.IntRange(1, 12).Draw(t, "others")
	for i := 0; i < n; i++ {
		c.Others = append(c.Others, msgspec.Gen(t, msgspec.Opts{MaxSmall: 1, PlainNames: true}))
		c.Signed = append(c.Signed, rapid.IntRange(0, 2).Draw(t, "signed") == 0)
	}
	c.Fudge = rapid.Uint16Range(300, 65535).Draw(t, "fudge")
	return c
}

func init() {
	pbt.Register(pbt.Sub[udpCase]{Name: "datagram-server-held-verify", Weight: 0.5, Gen: genUDP, Check: checkUDP})
}
