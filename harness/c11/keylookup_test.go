package c11

import (
	"bytes"
	"encoding/base64"
	"encoding/binary"
	"errors"
	"fmt"
	"io"
	"net"
	"sort"
	"strings"
	"time"

	"github.com/miekg/dns"
	"pgregory.net/rapid"

	"verif/harness/c18/msgspec"
	"verif/harness/pbt"
	ref "verif/harness/refcrypto"
)

// ---------------------------------------------------------------------------------------------
// "computed with the secret of the named key": the key lookup of the secret maps (TsigSecret of
// Conn / Client, Transfer and Server - one unexported provider type behind all of them, reachable
// only through those fields). A map holds several keys whose names are relatives of one base name
// (the name itself, ancestors down to the root, descendants, siblings, other letter case, the name
// without its closing dot, names that merely share a string suffix / prefix), the TSIG names one
// relative, and the MAC is made with the secret of one of the map's entries (or a fresh one).
//
// Oracle: the *named* key is an entry whose name is the same domain name as the TSIG owner - the
// same labels, compared case-insensitively. Success is allowed only when the MAC is the RFC 8945
// HMAC under the secret of such an entry (reference verifier); success is required when the map
// holds an entry that is spelled exactly as the owner arrives (the documented use: canonical names)
// and the MAC was made with that entry's secret. Entries in another letter case or without the
// closing dot are caller mistakes the library may or may not see through - not asserted.

type mapKey struct {
	Name   string // as spelled in the map
	Secret []byte
}

type lookupCase struct {
	Keys     []mapKey
	NilMap   bool   // the TsigSecret field is left nil (Keys is ignored)
	Owner    string // owner name of the TSIG: fully qualified, plain labels
	SignWith int    // read paths: the MAC is made with Keys[SignWith].Secret; out of range: with Fresh
	Fresh    []byte
	Path     string // conn-read, transfer-read, conn-write, transfer-write
	Alg      string
	Fudge    uint16 // >= 300
	Msg      msgspec.Spec
	NoMAC    uint16 // read paths, when 16 or 17: the TSIG carries this error (BADSIG / BADKEY) and no MAC at all - nothing is signed
}

// bufConn is a net.Conn over two buffers: what the library writes is kept, what it reads was put
// there beforehand. Nothing blocks.
type bufConn struct {
	r *bytes.Reader
	w bytes.Buffer
}

func (c *bufConn) Read(p []byte) (int, error)       { return c.r.Read(p) }
func (c *bufConn) Write(p []byte) (int, error)      { return c.w.Write(p) }
func (c *bufConn) Close() error                     { return nil }
func (c *bufConn) LocalAddr() net.Addr              { return pipeAddr{} }
func (c *bufConn) RemoteAddr() net.Addr             { return pipeAddr{} }
func (c *bufConn) SetDeadline(time.Time) error      { return nil }
func (c *bufConn) SetReadDeadline(time.Time) error  { return nil }
func (c *bufConn) SetWriteDeadline(time.Time) error { return nil }

func framed(b []byte) []byte {
	out := make([]byte, 2+len(b))
	binary.BigEndian.PutUint16(out, uint16(len(b)))
	copy(out[2:], b)
	return out
}

func unframe(b []byte) ([]byte, error) {
	if len(b) < 2 || int(binary.BigEndian.Uint16(b)) != len(b)-2 {
		return nil, errors.New("not exactly one length-prefixed message")
	}
	return b[2:], nil
}

// sameNameEntries returns the secrets of the entries of m whose name is the domain name owner,
// sorted (the order of a Go map must not matter).
func sameNameEntries(m map[string][]byte, owner ref.Labels) (secrets [][]byte, names []string) {
	var ks []string
	for k := range m {
		ks = append(ks, k)
	}
	sort.Strings(ks)
	for _, k := range ks {
		if l, err := labelsOf(k); err == nil && l.EqualFold(owner) {
			secrets = append(secrets, m[k])
			names = append(names, k)
		}
	}
	return
}

// refAcceptsAny is the reference verdict with "the secret of the named key" = any of the candidates.
func refAcceptsAny(msg []byte, candidates [][]byte, reqMAC []byte, timersOnly bool, now uint64) (ok bool, why string) {
	why = "no key of that name"
	for _, s := range candidates {
		s := s
		v := ref.TsigVerify(msg, func(ref.Labels) ([]byte, bool) { return s, true }, reqMAC, timersOnly, now, false)
		if v.OK {
			return true, ""
		}
		why = v.Why
	}
	return false, why
}

func describeMap(m map[string][]byte) string {
	var ks []string
	for k := range m {
		ks = append(ks, fmt.Sprintf("%q", k))
	}
	sort.Strings(ks)
	return "{" + strings.Join(ks, ", ") + "}"
}

func checkLookup(c lookupCase) error {
	ownerL, oerr := labelsOf(c.Owner)
	algL, aerr := labelsOf(c.Alg)
	if oerr != nil || aerr != nil || ref.TsigHash(algL) == nil || !strings.HasSuffix(c.Owner, ".") || strings.Contains(c.Owner, "\\") || c.Fudge < 300 || len(c.Keys) > 8 {
		return nil
	}
	spec := c.Msg
	spec.Rcode = 0 // (also keeps RCODE NOTAUTH out, which TsigVerify reports as ErrAuth whatever the MAC: known finding tsig-rcode-notauth, see checkTsig)
	if len(spec.Extra) > 2 {
		spec.Extra = spec.Extra[:2]
	}
	packed, perr := spec.Build().Pack()
	if perr != nil || len(packed) > 30000 {
		return nil
	}
	model := map[string][]byte{}  // what the oracle knows: name as spelled -> secret
	libmap := map[string]string{} // what the library gets
	if !c.NilMap {
		for _, k := range c.Keys {
			model[k.Name] = k.Secret
			libmap[k.Name] = base64.StdEncoding.EncodeToString(k.Secret)
		}
	} else {
		libmap = nil
	}
	candidates, candNames := sameNameEntries(model, ownerL)
	exact, hasExact := model[c.Owner]
	signSecret, signName := c.Fresh, "a secret that is not in the map"
	if !c.NilMap && c.SignWith >= 0 && c.SignWith < len(c.Keys) {
		signSecret, signName = c.Keys[c.SignWith].Secret, fmt.Sprintf("the secret of the entry %q", c.Keys[c.SignWith].Name)
	}
	rel := "named-key-absent"
	switch {
	case c.NilMap:
		rel = "nil-map"
	case hasExact:
		rel = "named-key-present-as-spelled"
	case len(candidates) > 0:
		rel = "named-key-present-in-other-spelling"
	}
	ancestorOfEntry := false
	for k := range model {
		if kl, err := labelsOf(k); err == nil && len(kl) > len(ownerL) && ref.Labels(kl[len(kl)-len(ownerL):]).EqualFold(ownerL) {
			ancestorOfEntry = true
		}
	}
	pbt.Note([]byte(fmt.Sprintf("%v|%v|%s|%d|%x|%s|%s|%d|%v", c.Keys, c.NilMap, c.Owner, c.SignWith, c.Fresh, c.Path, c.Alg, c.Fudge, c.Msg)), len(model) >= 2 || rel != "named-key-present-as-spelled",
		"path="+c.Path, rel, fmt.Sprintf("map-entries=%d", min(len(model), 5)), fmt.Sprintf("owner-is-ancestor-of-an-entry=%v", ancestorOfEntry), fmt.Sprintf("owner-labels=%d", min(len(ownerL), 4)))

	now := uint64(time.Now().Unix())
	switch c.Path {
	case "conn-read", "transfer-read":
		t := ref.Tsig{KeyName: ownerL, Class: ref.ClassANY, Algorithm: algL, TimeSigned: now, Fudge: c.Fudge, OrigID: binary.BigEndian.Uint16(packed)}
		signed, _, serr := ref.TsigSign(packed, t, signSecret, nil, false)
		if serr != nil {
			return nil
		}
		if c.NoMAC == 16 || c.NoMAC == 17 {
			// RFC 8945 5.3.2: the answer to a request that failed with BADSIG / BADKEY carries no MAC and
			// "MUST be treated as unauthenticated"; anyone can write one
			u := t
			u.Error = c.NoMAC
			signed, signName = u.AppendTo(packed), "no secret at all (MAC Size 0)"
			pbt.Class("tsig-error-without-mac")
		}
		refOK, why := refAcceptsAny(signed, candidates, nil, false, now)
		bc := &bufConn{r: bytes.NewReader(framed(signed))}
		var m *dns.Msg
		var err error
		if c.Path == "conn-read" {
			co := &dns.Conn{Conn: bc, TsigSecret: libmap}
			m, err = co.ReadMsg()
		} else {
			tr := &dns.Transfer{TsigSecret: libmap}
			tr.Conn = &dns.Conn{Conn: bc}
			m, err = tr.ReadMsg()
		}
		if m == nil || m.IsTsig() == nil {
			return pbt.Errf("%s: the signed message did not come back with its TSIG (error %v)", c.Path, err)
		}
		accepted := err == nil
		pbt.Class(fmt.Sprintf("lib-accepts=%v/ref-accepts=%v", accepted, refOK))
		if c.NilMap && c.Path == "transfer-read" {
			// a Transfer without secrets does no TSIG processing at all (as a Server without: the caller
			// has to configure a secret before the outcome means anything) - counted, not asserted
			pbt.Class("transfer-without-secrets-does-not-verify(not asserted)")
			return nil
		}
		if accepted && !refOK {
			return pbt.Errf("%s with the secret map %s: a message whose TSIG names the key %q, MAC made with %s, is reported as verified; no entry of that name has a secret that gives this MAC (reference: %s; entries of that name: %q)",
				c.Path, describeMap(model), c.Owner, signName, why, candNames)
		}
		if !accepted && hasExact && bytes.Equal(exact, signSecret) && refOK {
			return pbt.Errf("%s with the secret map %s: a message correctly signed with the secret of the entry %q, which its TSIG names, fails: %v", c.Path, describeMap(model), c.Owner, err)
		}
	case "conn-write", "transfer-write":
		m := spec.Build()
		m.SetTsig(c.Owner, c.Alg, c.Fudge, int64(now))
		bc := &bufConn{r: bytes.NewReader(nil)}
		var err error
		if c.Path == "conn-write" {
			co := &dns.Conn{Conn: bc, TsigSecret: libmap}
			err = co.WriteMsg(m)
		} else {
			tr := &dns.Transfer{TsigSecret: libmap}
			tr.Conn = &dns.Conn{Conn: bc}
			err = tr.WriteMsg(m)
		}
		pbt.Class(fmt.Sprintf("lib-signs=%v", err == nil))
		if err != nil {
			if bc.w.Len() > 0 {
				return pbt.Errf("%s returned %v and still wrote %d octets", c.Path, err, bc.w.Len())
			}
			if hasExact {
				return pbt.Errf("%s with the secret map %s: signing under the key %q, which is in the map as spelled, fails: %v", c.Path, describeMap(model), c.Owner, err)
			}
			return nil
		}
		if c.NilMap && c.Path == "transfer-write" {
			pbt.Class("transfer-without-secrets-does-not-sign(not asserted)")
			return nil
		}
		out, uerr := unframe(bc.w.Bytes())
		if uerr != nil {
			return pbt.Errf("%s wrote %d octets: %v", c.Path, bc.w.Len(), uerr)
		}
		if stripped, last, _, serr := ref.StripLast(out); serr != nil || last.Type != ref.TypeTSIG || !bytes.Equal(stripped, packed) {
			return pbt.Errf("%s: what was written is not the packed message followed by one TSIG record (%v)", c.Path, serr)
		}
		if ok, why := refAcceptsAny(out, candidates, nil, false, now); !ok {
			return pbt.Errf("%s with the secret map %s: the message was signed under the key name %q, but its MAC is not the RFC 8945 HMAC under the secret of an entry of that name (reference: %s; entries of that name: %q)",
				c.Path, describeMap(model), c.Owner, why, candNames)
		}
	default:
		return nil
	}
	return nil
}

// ---------------------------------------------------------------------------------------------
// the family of names around one base name

var famLabels = []string{"key", "xfr", "example", "org", "a", "b", "c", "k1", "tsig-key", "ns1", "zone", "x"}

func genBase(t *rapid.T) []string {
	n := rapid.IntRange(1, 4).Draw(t, "baselabels")
	var b []string
	for i := 0; i < n; i++ {
		b = append(b, rapid.SampledFrom(famLabels).Draw(t, "baselabel"))
	}
	return b
}

func fq(labels []string) string {
	if len(labels) == 0 {
		return "."
	}
	return strings.Join(labels, ".") + "."
}

var ownerRelations = []string{"same", "same", "parent", "parent", "ancestor", "root", "child", "sibling", "upper", "strsuffix", "strprefix", "unrelated"}
var entryRelations = []string{"same", "same", "same", "parent", "ancestor", "root", "child", "child", "grandchild", "sibling", "upper", "mixed", "undotted", "strsuffix", "strprefix", "unrelated", "empty"}

// relative spells a name that stands in the given relation to the base name.
func relative(t *rapid.T, base []string, rel string) string {
	other := func() string { return rapid.SampledFrom(famLabels).Draw(t, "otherlabel") }
	switch rel {
	case "parent":
		return fq(base[1:])
	case "ancestor":
		return fq(base[rapid.IntRange(1, len(base)).Draw(t, "drop"):])
	case "root":
		return "."
	case "child":
		return fq(append([]string{other()}, base...))
	case "grandchild":
		return fq(append([]string{other(), other()}, base...))
	case "sibling":
		return fq(append([]string{base[0] + "2"}, base[1:]...))
	case "upper":
		return strings.ToUpper(fq(base))
	case "mixed":
		b := []byte(fq(base))
		for i, ch := range b {
			if ch >= 'a' && ch <= 'z' && rapid.Bool().Draw(t, "uc") {
				b[i] = ch ^ 0x20
			}
		}
		return string(b)
	case "undotted":
		return strings.Join(base, ".")
	case "strsuffix": // ends with the base name as a string, not as a name: xkey.example. for key.example.
		return fq(append([]string{other() + base[0]}, base[1:]...))
	case "strprefix":
		return fq(append(append([]string(nil), base[:len(base)-1]...), base[len(base)-1]+other()))
	case "unrelated":
		return fq([]string{other(), "unrelated"})
	case "empty":
		return ""
	}
	return fq(base)
}

func genKeyFamily(t *rapid.T, base []string, max int) []mapKey {
	n := rapid.IntRange(1, max).Draw(t, "entries")
	var ks []mapKey
	for i := 0; i < n; i++ {
		ks = append(ks, mapKey{Name: relative(t, base, rapid.SampledFrom(entryRelations).Draw(t, "entryrel")), Secret: genFamilySecret(t)})
	}
	return ks
}

func genFamilySecret(t *rapid.T) []byte {
	n := rapid.SampledFrom([]int{16, 16, 32, 20, 1, 64}).Draw(t, "seclen")
	return rapid.SliceOfN(rapid.Byte(), n, n).Draw(t, "sec")
}

// fqEntries lists the indices of the entries whose name is fully qualified (what a TSIG can name as spelled).
func fqEntries(ks []mapKey) []int {
	var o []int
	for i, k := range ks {
		if strings.HasSuffix(k.Name, ".") {
			o = append(o, i)
		}
	}
	return o
}

func genLookup(t *rapid.T) lookupCase {
	c := lookupCase{Msg: msgspec.Gen(t, msgspec.Opts{MaxSmall: 2, PlainNames: true})}
	base := genBase(t)
	c.Keys = genKeyFamily(t, base, 5)
	c.Fresh = genFamilySecret(t)
	// (rapid's integer ranges favour small values; SampledFrom over a list does not)
	switch rapid.SampledFrom([]string{"named", "relative", "relative", "named", "relative", "named", "relative", "named-other-secret", "relative", "empty-map", "nil-map"}).Draw(t, "scenario") {
	case "named":
		// the TSIG names an entry as spelled and the MAC is made with its secret
		if fqs := fqEntries(c.Keys); len(fqs) > 0 {
			c.SignWith = rapid.SampledFrom(fqs).Draw(t, "named")
			c.Owner = c.Keys[c.SignWith].Name
			break
		}
		c.Keys = append(c.Keys, mapKey{Name: fq(base), Secret: genFamilySecret(t)})
		c.SignWith, c.Owner = len(c.Keys)-1, fq(base)
	case "named-other-secret":
		c.Owner = fq(base)
		if fqs := fqEntries(c.Keys); len(fqs) > 0 {
			c.Owner = c.Keys[rapid.SampledFrom(fqs).Draw(t, "named")].Name
		}
		c.SignWith = rapid.IntRange(-1, len(c.Keys)-1).Draw(t, "signwith")
	case "nil-map":
		c.NilMap = true
		c.Owner = relative(t, base, rapid.SampledFrom(ownerRelations).Draw(t, "ownerrel"))
		c.SignWith = -1
	case "empty-map":
		c.Keys = nil // an explicitly empty map
		c.Owner = relative(t, base, rapid.SampledFrom(ownerRelations).Draw(t, "ownerrel"))
		c.SignWith = -1
	default:
		c.Owner = relative(t, base, rapid.SampledFrom(ownerRelations).Draw(t, "ownerrel"))
		c.SignWith = rapid.SampledFrom([]int{-1, 0, 0, 1, 2, 3, 4}).Draw(t, "signwith") % len(c.Keys)
	}
	c.Path = rapid.SampledFrom([]string{"conn-read", "conn-read", "transfer-read", "conn-write", "transfer-write"}).Draw(t, "path")
	c.Alg = rapid.SampledFrom(algNames).Draw(t, "alg")
	c.Fudge = rapid.SampledFrom([]uint16{300, 300, 600, 65535}).Draw(t, "fudge")
	c.NoMAC = rapid.SampledFrom([]uint16{0, 0, 0, 0, 0, 0, 0, 0, 16, 17}).Draw(t, "nomac")
	return c
}

func init() {
	pbt.Register(pbt.Sub[lookupCase]{Name: "secret-map-key-lookup", Weight: 1.5, Gen: genLookup, Check: checkLookup})
}

var _ = io.EOF
