package c11

import (
	"bytes"
	"encoding/base64"
	"encoding/binary"
	"encoding/hex"
	"errors"
	"fmt"
	"io"
	"net"
	"strings"
	"sync"
	"time"

	"github.com/miekg/dns"
	"pgregory.net/rapid"

	"verif/harness/c18/msgspec"
	"verif/harness/pbt"
	ref "verif/harness/refcrypto"
)

// ---------------------------------------------------------------------------------------------
// (7) end to end: a dns.Server with TsigSecret behind an in-memory listener. The harness plays
// the client on raw octets (requests signed by the reference), the handler reports what it saw
// in-band, and the signed reply is verified by the reference against the request MAC.

type pipeListener struct {
	ch     chan net.Conn
	closed chan struct{}
	once   sync.Once
}

type pipeAddr struct{}

func (pipeAddr) Network() string { return "pipe" }
func (pipeAddr) String() string  { return "pipe" }

func (l *pipeListener) Accept() (net.Conn, error) {
	select {
	case c := <-l.ch:
		return c, nil
	case <-l.closed:
		return nil, errors.New("listener closed")
	}
}
func (l *pipeListener) Close() error   { l.once.Do(func() { close(l.closed) }); return nil }
func (l *pipeListener) Addr() net.Addr { return pipeAddr{} }
func (l *pipeListener) dial() net.Conn {
	a, b := net.Pipe()
	l.ch <- b
	return a
}

type e2eKey struct {
	name   string // canonical form, as Server.TsigSecret wants it
	alg    string
	secret []byte
}

var e2eKeys = []e2eKey{
	{"key1.example.", "hmac-sha256.", []byte("0123456789abcdef0123456789abcdef")},
	{"key2.example.org.", "hmac-sha1.", []byte("short")},
	{"k3.", "hmac-sha512.", []byte(strings.Repeat("long-secret-", 12))},
	{"k-4.keys.example.", "hmac-sha384.", []byte{0, 1, 2, 3, 4, 5, 6, 7, 8, 9, 10, 11, 12, 13, 14, 15, 16, 17, 18, 19, 20, 21, 22, 23}},
}

var (
	srvOnce sync.Once
	srvL    *pipeListener
	srvErr  error
)

// observingHandler is the handler of the in-memory servers: it reports what it saw of the TSIG
// in-band and signs the reply the way RFC 8945 asks a server to.
func observingHandler(w dns.ResponseWriter, r *dns.Msg) {
	m := new(dns.Msg)
	m.SetReply(r)
	ts := r.IsTsig()
	st := w.TsigStatus()
	obs := fmt.Sprintf("has=%v status=%v", ts != nil, st)
	m.Answer = append(m.Answer, &dns.TXT{Hdr: dns.RR_Header{Name: "observation.", Rrtype: dns.TypeTXT, Class: dns.ClassCHAOS}, Txt: []string{obs}})
	if ts != nil && st == nil {
		m.SetTsig(ts.Hdr.Name, ts.Algorithm, 300, time.Now().Unix())
	}
	if ts != nil && st == dns.ErrTime {
		// RFC 8945 5.2.3: a request with a good MAC but a time outside the window is answered
		// NOTAUTH / BADTIME, signed (over the request MAC), with the server's clock as other data
		now := time.Now().Unix()
		m.Rcode = dns.RcodeNotAuth
		m.SetTsig(ts.Hdr.Name, ts.Algorithm, 300, now)
		t := m.IsTsig()
		t.Error = dns.RcodeBadTime
		t.OtherLen = 6
		t.OtherData = fmt.Sprintf("%012x", now)
	}
	w.WriteMsg(m)
	if ts != nil && st == nil && len(r.Question) == 1 && r.Question[0].Qtype == dns.TypeAXFR {
		// a stream of envelopes: the first one was signed over the request MAC and all
		// variables, the following ones over the previous MAC and the timers (RFC 8945 5.3.1)
		w.TsigTimersOnly(true)
		for i := 0; i < 1+int(r.Id%3); i++ {
			e := new(dns.Msg)
			e.SetReply(r)
			e.Answer = append(e.Answer, &dns.TXT{Hdr: dns.RR_Header{Name: "envelope.", Rrtype: dns.TypeTXT, Class: dns.ClassCHAOS}, Txt: []string{fmt.Sprint(i + 1)}})
			e.SetTsig(ts.Hdr.Name, ts.Algorithm, 300, time.Now().Unix())
			w.WriteMsg(e)
		}
	}
}

func startServer() (*pipeListener, error) {
	srvOnce.Do(func() {
		srvL = &pipeListener{ch: make(chan net.Conn), closed: make(chan struct{})}
		secrets := map[string]string{}
		for _, k := range e2eKeys {
			secrets[k.name] = base64.StdEncoding.EncodeToString(k.secret)
		}
		h := dns.HandlerFunc(observingHandler)
		started := make(chan struct{})
		srv := &dns.Server{Listener: srvL, Handler: h, TsigSecret: secrets, NotifyStartedFunc: func() { close(started) }}
		go func() {
			if err := srv.ActivateAndServe(); err != nil {
				srvErr = err
			}
		}()
		select {
		case <-started:
		case <-time.After(10 * time.Second):
			srvErr = errors.New("server did not start")
		}
	})
	return srvL, srvErr
}

type e2eCase struct {
	Msg        msgspec.Spec
	Key        int      // index into e2eKeys
	Variant    string   // good, edge, late, early, tampered, wrongsecret, unknownkey, casekey, ancestorkey, rootkey, twotsig, unsignederr, none, libsigned
	Fudge      uint16   // >= 300
	FlipBit    int      // tampered: bit position in the message body (reduced modulo its length)
	Follow     []string // variants of further requests sent on the same connection (good, edge, late, early, wrongsecret)
	UpperAlg   bool
	BadTimeLib bool // set by the generator only: the signed BADTIME reply (RCODE NOTAUTH) must verify with the library's TsigVerify too (not while the finding tsig-rcode-notauth is live)
}

// session is one client connection to the in-memory server; several requests may follow each
// other on it.
type session struct{ c net.Conn }

func openSession(l *pipeListener) *session {
	c := l.dial()
	c.SetDeadline(time.Now().Add(30 * time.Second)) // watchdog only: a normal exchange takes well under a millisecond
	return &session{c}
}

// roundtrip sends one request and reads 1 + more(first reply) replies.
func (s *session) roundtrip(req []byte, more func(first []byte) int) ([][]byte, error) {
	buf := make([]byte, 2+len(req))
	binary.BigEndian.PutUint16(buf, uint16(len(req)))
	copy(buf[2:], req)
	if _, err := s.c.Write(buf); err != nil {
		return nil, err
	}
	var out [][]byte
	n := 1
	for i := 0; i < n; i++ {
		var lb [2]byte
		if _, err := io.ReadFull(s.c, lb[:]); err != nil {
			return out, err
		}
		resp := make([]byte, binary.BigEndian.Uint16(lb[:]))
		if _, err := io.ReadFull(s.c, resp); err != nil {
			return out, err
		}
		out = append(out, resp)
		if i == 0 {
			n += more(resp)
		}
	}
	return out, nil
}

var errStop = errors.New("session over") // the connection cannot be used any further (not a violation)

func checkE2E(c e2eCase) error {
	if c.Fudge < 300 || len(c.Msg.Question) == 0 || len(c.Follow) > 4 {
		return nil
	}
	l, err := startServer()
	if err != nil {
		return pbt.Errf("infrastructure: %v", err)
	}
	sess := openSession(l)
	defer sess.c.Close()
	for i, v := range append([]string{c.Variant}, c.Follow...) {
		err := oneRequest(sess, c, v, i)
		if err == errStop {
			return nil
		}
		if err != nil {
			if i > 0 {
				return pbt.Errf("request %d on the same connection (after %v): %v", i+1, append([]string{c.Variant}, c.Follow...)[:i], err)
			}
			return err
		}
	}
	return nil
}

// oneRequest sends the step-th request of the case (variant v) over the session and judges the
// handler's observation and the reply.
func oneRequest(sess *session, c e2eCase, variant string, step int) error {
	c.Variant = variant
	key := e2eKeys[((c.Key%len(e2eKeys))+len(e2eKeys))%len(e2eKeys)]
	// a plain query the server will route to the handler: QUERY opcode, exactly one question, not a response
	spec := c.Msg
	spec.ID += uint16(step) * 257
	spec.Response, spec.Opcode, spec.Rcode = false, 0, 0
	spec.Question = append([]msgspec.Q(nil), spec.Question[:1]...)
	if c.Variant == "multi" {
		spec.Question[0] = msgspec.Q{Name: spec.Question[0].Name, Type: dns.TypeAXFR, Class: 1}
	} else if spec.Question[0].Type == dns.TypeAXFR {
		spec.Question[0].Type = dns.TypeA
	}
	spec.Answer, spec.Ns = nil, nil
	if len(spec.Extra) > 1 { // the default MsgAcceptFunc refuses more than two additional records (one + TSIG)
		spec.Extra = spec.Extra[:1]
	}
	if c.Variant == "twotsig" {
		spec.Extra = nil // two TSIG records are the two additional records the default MsgAcceptFunc lets through
	}
	packed, perr := spec.Build().Pack()
	if perr != nil || len(packed) > 60000 {
		return nil
	}
	now := uint64(time.Now().Unix())
	keyL, _ := labelsOf(key.name)
	algL, _ := labelsOf(key.alg)
	if c.UpperAlg {
		algL, _ = labelsOf(strings.ToUpper(key.alg))
	}
	t := ref.Tsig{KeyName: keyL, Class: ref.ClassANY, Algorithm: algL, TimeSigned: now, Fudge: c.Fudge, OrigID: binary.BigEndian.Uint16(packed)}
	secret := key.secret
	canonicalName := true
	switch c.Variant {
	case "edge":
		t.TimeSigned = now - uint64(c.Fudge) + 120
	case "late":
		t.TimeSigned = now - uint64(c.Fudge) - 120
	case "early":
		t.TimeSigned = now + uint64(c.Fudge) + 120
	case "wrongsecret":
		secret = append([]byte("x"), secret...)
	case "unknownkey":
		t.KeyName = append(ref.Labels{[]byte("no")}, keyL...)
	case "unknownkey-emptysecret", "unknownkey-namesecret":
		// a key name the server has no secret for, MACed with what a sloppy lookup would come up with:
		// the empty secret (the zero value of a missing map entry) or the name itself
		t.KeyName = append(ref.Labels{[]byte("no")}, keyL...)
		secret = nil
		if c.Variant == "unknownkey-namesecret" {
			secret = []byte("no." + key.name)
		}
	case "casekey":
		t.KeyName = invertCase(keyL)
		canonicalName = false
	case "ancestorkey", "rootkey":
		// the holder of a key presents itself under the name of a parent domain of that key (or the
		// root), for which nothing is registered: the named key does not exist
		t.KeyName = keyL[1:]
		if c.Variant == "rootkey" {
			t.KeyName = ref.Labels{}
		}
	}
	var req, reqMAC []byte
	switch c.Variant {
	case "none":
		req = packed
	case "libsigned":
		m := spec.Build()
		m.SetTsig(key.name, key.alg, c.Fudge, int64(now))
		out, mac, gerr := dns.TsigGenerate(m, base64.StdEncoding.EncodeToString(key.secret), "", false)
		if gerr != nil {
			return pbt.Errf("TsigGenerate: %v", gerr)
		}
		req = out
		reqMAC, _ = hex.DecodeString(mac)
	default:
		var serr error
		req, reqMAC, serr = ref.TsigSign(packed, t, secret, nil, false)
		if serr != nil {
			return nil
		}
		if c.Variant == "twotsig" {
			// the holder of one configured key presents itself as the holder of another: its own TSIG,
			// MACed over the octets in front of it with an ARCOUNT of 1, followed by a TSIG that names the
			// other key (any MAC) as last record - the one Msg.IsTsig() shows to the handler. Not an RFC
			// 8945 message (a TSIG anywhere but last, more than one TSIG): the reference refuses it
			p := append([]byte(nil), packed...)
			ref.SetARCount(p, 1)
			if req, reqMAC, serr = ref.TsigSign(p, t, secret, nil, false); serr != nil {
				return nil
			}
			other := e2eKeys[(((c.Key+1)%len(e2eKeys))+len(e2eKeys))%len(e2eKeys)]
			t2 := t
			t2.KeyName, _ = labelsOf(other.name)
			t2.Algorithm, _ = labelsOf(other.alg)
			t2.MAC = bytes.Repeat([]byte{0xa5}, macLen[other.alg])
			req = t2.AppendTo(req)
			ref.SetARCount(req, 2)
		}
		if c.Variant == "unsignederr" {
			// a "request" anyone can write: a TSIG naming a configured key, error BADSIG / BADKEY, no
			// MAC at all, the current time
			u := t
			u.Error, u.MAC = 16+uint16(c.FlipBit&1), nil
			req, reqMAC = u.AppendTo(packed), nil
		}
		if c.Variant == "tampered" {
			// somewhere in the question (the header flags and counts decide routing, leave them)
			body := len(packed) - 12
			if body <= 0 {
				return nil
			}
			bit := ((c.FlipBit % (body * 8)) + body*8) % (body * 8)
			req[12+bit/8] ^= 1 << (bit % 8)
		}
	}
	// reference verdict on the request as sent
	ring := func(n ref.Labels) ([]byte, bool) {
		for _, k := range e2eKeys {
			if kl, _ := labelsOf(k.name); kl.EqualFold(n) {
				return k.secret, true
			}
		}
		return nil, false
	}
	refOK, timeOnly := false, false
	if c.Variant != "none" {
		v := ref.TsigVerify(req, ring, nil, false, now, false)
		refOK = v.OK
		timeOnly = !v.OK && v.Why == "outside the fudge window" // the MAC is right, only the time is not
	}
	if step == 0 {
		pbt.Note(append([]byte(fmt.Sprintf("%s|%v|%s|", c.Variant, c.Follow, key.name)), packed...), c.Variant != "none" && c.Variant != "good" || len(c.Follow) > 0,
			"variant="+c.Variant, "key="+key.name, fmt.Sprintf("ref-accepts=%v", refOK), fmt.Sprintf("requests-on-conn=%d", 1+len(c.Follow)))
	} else {
		pbt.Class("followup="+c.Variant, fmt.Sprintf("followup-ref-accepts=%v", refOK))
	}

	extra := 0
	if c.Variant == "multi" {
		extra = 1 + int(binary.BigEndian.Uint16(req)%3)
	}
	resps, xerr := sess.roundtrip(req, func(first []byte) int {
		if mp, e := ref.Walk(first); e == nil && mp.AR > 0 && mp.RRs[len(mp.RRs)-1].Type == ref.TypeTSIG {
			return extra // the handler only streams after a verified request, which it answers with a signed first envelope
		}
		return 0
	})
	var resp []byte
	if len(resps) > 0 {
		resp = resps[0]
	}
	if xerr != nil {
		if c.Variant == "tampered" {
			pbt.Class("tampered-request-not-answered") // the flip made the question undecodable: the server answers FORMERR or drops
			return errStop
		}
		return pbt.Errf("no reply from the server for variant %q: %v", c.Variant, xerr)
	}
	rm := new(dns.Msg)
	if uerr := rm.Unpack(resp); uerr != nil {
		return pbt.Errf("reply does not unpack: %v", uerr)
	}
	obs := ""
	for _, rr := range rm.Answer {
		if x, ok := rr.(*dns.TXT); ok && x.Hdr.Name == "observation." && len(x.Txt) == 1 {
			obs = x.Txt[0]
		}
	}
	if obs == "" {
		if c.Variant == "tampered" {
			pbt.Class("tampered-request-rejected-before-handler")
			return errStop
		}
		return pbt.Errf("reply carries no handler observation (variant %q, rcode %d)", c.Variant, rm.Rcode)
	}
	has := strings.HasPrefix(obs, "has=true")
	verified := has && strings.HasSuffix(obs, "status=<nil>")
	if c.Variant == "none" {
		if has {
			return pbt.Errf("handler saw a TSIG in a request that has none: %s", obs)
		}
		if mp, e := ref.Walk(resp); e == nil {
			for _, rr := range mp.RRs {
				if rr.Type == ref.TypeTSIG {
					return pbt.Errf("reply to a request without TSIG carries a TSIG record")
				}
			}
		}
		return nil
	}
	if verified && !refOK {
		return pbt.Errf("ResponseWriter.TsigStatus() is nil for a request the reference rejects (variant %q, key %s): %s", c.Variant, key.name, obs)
	}
	if refOK && canonicalName && !verified {
		return pbt.Errf("ResponseWriter.TsigStatus() = %q for a correctly signed, timely request (variant %q, key %s, alg %s, fudge %d, time signed now%+d)", obs, c.Variant, key.name, key.alg, c.Fudge, int64(t.TimeSigned)-int64(now))
	}
	if !verified {
		if has && timeOnly && canonicalName {
			// good MAC, bad time: the handler signs a BADTIME answer; its MAC covers the MAC of *this*
			// request (RFC 8945 5.2.3 / 5.3.2). Judged with the reference HMAC only: the library's
			// client side reports every NOTAUTH message as ErrAuth before looking at the MAC.
			if !strings.HasSuffix(obs, "status="+dns.ErrTime.Error()) {
				return pbt.Errf("ResponseWriter.TsigStatus() = %q for a request with a correct MAC whose time signed is now%+d (fudge %d); want ErrTime", obs, int64(t.TimeSigned)-int64(now), c.Fudge)
			}
			rv := ref.TsigVerify(resp, ring, reqMAC, false, uint64(time.Now().Unix()), false)
			if !rv.OK {
				return pbt.Errf("the BADTIME reply signed by the handler does not verify against the MAC of the request it answers (reference: %s)", rv.Why)
			}
			if rv.Tsig.Error != 18 || len(rv.Tsig.OtherData) != 6 {
				return pbt.Errf("BADTIME reply carries TSIG error %d and %d octets of other data", rv.Tsig.Error, len(rv.Tsig.OtherData))
			}
			if c.BadTimeLib {
				// (not while the finding tsig-rcode-notauth is live: TsigVerify gives ErrAuth for every NOTAUTH message)
				if lerr := libVerify(resp, key.secret, reqMAC, false, uint64(time.Now().Unix())); lerr != nil {
					return pbt.Errf("TsigVerify (client side) of the signed BADTIME reply, which the reference accepts against the MAC of the request, failed: %v", lerr)
				}
				pbt.Class("badtime-reply-verified-by-the-library")
			}
			pbt.Class("badtime-reply-verified")
		}
		return nil
	}
	// the signed reply: TSIG last, MAC over request MAC | reply | variables, inside the window
	now2 := uint64(time.Now().Unix())
	rv := ref.TsigVerify(resp, ring, reqMAC, false, now2, false)
	if !rv.OK {
		return pbt.Errf("signed reply does not verify against the request MAC (reference: %s)", rv.Why)
	}
	if rv.Tsig.OrigID != binary.BigEndian.Uint16(req) || binary.BigEndian.Uint16(resp) != binary.BigEndian.Uint16(req) {
		return pbt.Errf("reply ID %d / original ID %d, request ID %d", binary.BigEndian.Uint16(resp), rv.Tsig.OrigID, binary.BigEndian.Uint16(req))
	}
	if lerr := libVerify(resp, key.secret, reqMAC, false, now2); lerr != nil {
		return pbt.Errf("TsigVerify (client side) of the server's signed reply failed: %v", lerr)
	}
	if libVerify(resp, key.secret, nil, false, now2) == nil {
		return pbt.Errf("the server's reply verifies without the request MAC")
	}
	if c.Variant == "multi" {
		if len(resps) != 1+extra {
			return pbt.Errf("expected %d envelopes, got %d", 1+extra, len(resps))
		}
		prev := rv.Tsig.MAC
		for i, env := range resps[1:] {
			ev := ref.TsigVerify(env, ring, prev, true, now2, false)
			if !ev.OK {
				return pbt.Errf("envelope %d of %d written after TsigTimersOnly(true) does not verify against the previous MAC with the timers-only digest (reference: %s)", i+2, len(resps), ev.Why)
			}
			if lerr := libVerify(env, key.secret, prev, true, now2); lerr != nil {
				return pbt.Errf("TsigVerify (client side) of envelope %d failed: %v", i+2, lerr)
			}
			prev = ev.Tsig.MAC
			pbt.Class("stream-envelope-verified")
		}
	}
	return nil
}

func genE2E(t *rapid.T) e2eCase {
	c := e2eCase{Msg: msgspec.Gen(t, msgspec.Opts{MaxSmall: 2, PlainNames: rapid.Bool().Draw(t, "plain")})}
	if len(c.Msg.Question) == 0 {
		c.Msg.Question = []msgspec.Q{{Name: 0, Type: 1, Class: 1}}
	}
	c.Key = rapid.IntRange(0, len(e2eKeys)-1).Draw(t, "key")
	c.Variant = rapid.SampledFrom([]string{"good", "good", "edge", "late", "early", "tampered", "tampered", "wrongsecret", "unknownkey", "unknownkey-emptysecret", "unknownkey-namesecret", "casekey", "none", "libsigned", "multi", "multi", "ancestorkey", "rootkey", "twotsig", "unsignederr"}).Draw(t, "variant")
	if c.Variant == "twotsig" && pbt.Known(findNotLast) {
		pbt.Excluded(findNotLast)
		c.Variant = "good"
	}
	c.Fudge = rapid.OneOf(rapid.Just(uint16(300)), rapid.Uint16Range(300, 65535)).Draw(t, "fudge")
	c.FlipBit = rapid.IntRange(0, 1<<20).Draw(t, "flipbit")
	c.UpperAlg = rapid.IntRange(0, 3).Draw(t, "upperalg") == 0
	c.BadTimeLib = !pbt.Known(findNotAuth)
	if !c.BadTimeLib && (c.Variant == "late" || c.Variant == "early") {
		pbt.Excluded(findNotAuth)
	}
	if rapid.IntRange(0, 2).Draw(t, "reuse") == 0 {
		c.Follow = rapid.SliceOfN(rapid.SampledFrom([]string{"good", "good", "edge", "late", "early", "wrongsecret", "unsignederr"}), 1, 3).Draw(t, "follow")
	}
	return c
}

func init() {
	pbt.Register(pbt.Sub[e2eCase]{Name: "server-end-to-end", Weight: 4, Gen: genE2E, Check: checkE2E})
}
