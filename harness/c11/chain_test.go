package c11

import (
	"bytes"
	"crypto/hmac"
	"crypto/sha256"
	"encoding/base64"
	"encoding/hex"
	"fmt"
	"strings"

	"github.com/miekg/dns"
	"pgregory.net/rapid"

	"verif/harness/c18/msgspec"
	"verif/harness/gen"
	"verif/harness/pbt"
	ref "verif/harness/refcrypto"
	wm "verif/harness/wiremodel"
)

// ---------------------------------------------------------------------------------------------
// (5) chains of envelopes: envelope 0 is signed with the request MAC (if any) and all TSIG
// variables, envelope i > 0 with the MAC of envelope i-1 and the timers only (RFC 8945 5.3.1).

type chainCase struct {
	Msgs    []msgspec.Spec // 1..8 envelopes
	KeyName string
	Alg     string
	Secret  []byte
	Secret2 []byte
	ReqMAC  []byte
	Fudge   uint16
	Time    uint64 // time signed of envelope 0; envelope i is signed at Time + i
	Fault   string // "", drop, dup, swap, rekey
	At      int    // envelope the fault applies to (reduced modulo what the fault needs)
	NotAuth bool   // set by the generator only, when the finding tsig-rcode-notauth is not live: envelopes keep an RCODE NOTAUTH
}

func checkChain(c chainCase) error {
	n := len(c.Msgs)
	algL, e1 := labelsOf(c.Alg)
	_, e2 := labelsOf(c.KeyName)
	if n < 1 || n > 8 || e1 != nil || e2 != nil || ref.TsigHash(algL) == nil || c.Fudge < 16 || c.Time <= uint64(c.Fudge)+16 || c.Time >= 1<<47 {
		return nil
	}
	pbt.Note([]byte(fmt.Sprintf("%v|%s|%s|%x|%x|%d|%d|%s|%d", c.Msgs, c.KeyName, c.Alg, c.Secret, c.ReqMAC, c.Fudge, c.Time, c.Fault, c.At)), n >= 2,
		fmt.Sprintf("envelopes=%d", n), "fault="+c.Fault, "alg="+lower(c.Alg), fmt.Sprintf("reqmac=%v", len(c.ReqMAC) > 0), reqLenClass(len(c.ReqMAC)))
	secret64 := base64.StdEncoding.EncodeToString(c.Secret)
	// sign the chain with the library
	envs := make([][]byte, n)
	macs := make([][]byte, n)
	prev := c.ReqMAC
	for i := 0; i < n; i++ {
		sec := secret64
		if c.Fault == "rekey" && i == c.At%n {
			sec = base64.StdEncoding.EncodeToString(c.Secret2)
		}
		m := c.Msgs[i].Build()
		if m.Rcode&0xF == dns.RcodeNotAuth && !c.NotAuth {
			m.Rcode = dns.RcodeSuccess // known finding tsig-rcode-notauth (see checkTsig): NOTAUTH is reported as ErrAuth whatever the MAC
		} else if m.Rcode&0xF == dns.RcodeNotAuth {
			pbt.Class("envelope-with-rcode-notauth")
		}
		m.SetTsig(c.KeyName, c.Alg, c.Fudge, int64(c.Time)+int64(i))
		out, mac, err := dns.TsigGenerate(m, sec, hex.EncodeToString(prev), i > 0)
		if err != nil {
			return pbt.Errf("TsigGenerate of envelope %d failed: %v (previous MAC %d octets)", i, err, len(prev))
		}
		envs[i] = out
		macs[i], _ = hex.DecodeString(mac)
		prev = macs[i]
	}
	// the receiver's view: the envelopes in arrival order
	order := make([]int, n)
	for i := range order {
		order[i] = i
	}
	switch c.Fault {
	case "drop":
		if n >= 2 {
			at := c.At % n
			order = append(order[:at:at], order[at+1:]...)
		}
	case "dup":
		at := c.At % n
		order = append(order[:at+1:at+1], append([]int{at}, order[at+1:]...)...)
	case "swap":
		if n >= 2 {
			at := c.At % (n - 1)
			order[at], order[at+1] = order[at+1], order[at]
		}
	}
	held := c.ReqMAC
	firstBad := -1
	for pos, e := range order {
		timers := pos > 0
		now := c.Time + uint64(e)
		lerr := libVerify(envs[e], c.Secret, held, timers, now)
		ring := func(ref.Labels) ([]byte, bool) { return c.Secret, true }
		rv := ref.TsigVerify(envs[e], ring, held, timers, now, false)
		if lerr == nil && !rv.OK {
			return pbt.Errf("chain of %d envelopes, fault %q at %d: TsigVerify accepted envelope %d at position %d (timers only %v) although the reference rejects it: %s", n, c.Fault, c.At, e, pos, timers, rv.Why)
		}
		if rv.OK && lerr != nil {
			// reference acceptance means: signed with this secret over exactly this previous MAC and
			// timers-only setting, inside the window - i.e. the setting TsigGenerate was called with
			return pbt.Errf("chain of %d envelopes (fault %q at %d): envelope %d at position %d (timers only %v, previous MAC %d octets) fails to verify: %v", n, c.Fault, c.At, e, pos, timers, len(held), lerr)
		}
		if lerr != nil {
			firstBad = pos
			break // a receiver stops at the first failure
		}
		held = macs[e]
	}
	switch {
	case c.Fault == "" && firstBad >= 0:
		return pbt.Errf("untampered chain of %d envelopes fails at position %d", n, firstBad)
	case c.Fault != "" && firstBad >= 0:
		pbt.Class("fault-detected")
	case c.Fault != "":
		pbt.Class("fault-not-detectable(" + c.Fault + ")") // e.g. the last envelope dropped, swap in a chain of one
	}
	return nil
}

func genChain(t *rapid.T) chainCase {
	c := chainCase{}
	n := rapid.IntRange(1, 8).Draw(t, "n")
	for i := 0; i < n; i++ {
		c.Msgs = append(c.Msgs, msgspec.Gen(t, msgspec.Opts{MaxSmall: 2}))
	}
	c.KeyName = wm.EscName(gen.Name(t, gen.NameOpts{MaxLabs: 3, MaxLabel: 8, Plain: true}))
	c.Alg = rapid.SampledFrom(algNames).Draw(t, "alg")
	c.Secret = genSecret(t, "secret")
	c.Secret2 = append([]byte{0x77}, genSecret(t, "secret2")...)
	if rapid.Bool().Draw(t, "hasreq") {
		c.ReqMAC = genReqMAC(t, []int{16, 20, 32, 64, 65, 200, 1, 2, 3, 9})
	}
	c.Fudge = rapid.Uint16Range(16, 65535).Draw(t, "fudge")
	c.Time = rapid.Uint64Range(uint64(c.Fudge)+17, 1<<40).Draw(t, "time")
	c.Fault = rapid.SampledFrom([]string{"", "", "drop", "dup", "swap", "rekey"}).Draw(t, "fault")
	c.At = rapid.IntRange(0, 7).Draw(t, "at")
	c.NotAuth = keepNotAuth(c.Msgs)
	return c
}

func init() {
	pbt.Register(pbt.Sub[chainCase]{Name: "envelope-chains", Weight: 2, Gen: genChain, Check: checkChain})
}

// ---------------------------------------------------------------------------------------------
// chains through a custom TsigProvider whose MACs are longer than any HMAC (the TsigProvider
// interface exists for GSS-TSIG and the like): every envelope is signed over the previous -
// long - MAC; generation and verification go through the provider entry points, the digest input
// handed to the provider must be the RFC 8945 one.

type longProvider struct {
	secret []byte
	extra  int
	seen   *[][]byte // digest inputs handed to Generate, in order
}

func (p longProvider) mac(msg []byte) []byte {
	h := hmac.New(sha256.New, p.secret)
	h.Write(msg)
	m := h.Sum(nil)
	for len(m) < 32+p.extra {
		x := sha256.Sum256(m)
		m = append(m, x[:]...)
	}
	return m[:32+p.extra]
}

func (p longProvider) Generate(msg []byte, t *dns.TSIG) ([]byte, error) {
	*p.seen = append(*p.seen, append([]byte(nil), msg...))
	return p.mac(msg), nil
}

func (p longProvider) Verify(msg []byte, t *dns.TSIG) error {
	got, err := hex.DecodeString(t.MAC)
	if err != nil || !hmac.Equal(got, p.mac(msg)) {
		return dns.ErrSig
	}
	return nil
}

type longCase struct {
	Msgs    []msgspec.Spec
	KeyName string
	Secret  []byte
	Extra   int // MAC length = 32 + Extra
	ReqMAC  []byte
	Fudge   uint16
	Time    uint64
	AlgName string // the provider's algorithm name as the caller writes it; "" = long-mac.example.
	NotAuth bool   // set by the generator only, when the finding tsig-rcode-notauth is not live: envelopes keep an RCODE NOTAUTH
}

func checkLongMAC(c longCase) error {
	n := len(c.Msgs)
	keyL, e := labelsOf(c.KeyName)
	algName := c.AlgName
	if algName == "" {
		algName = "long-mac.example."
	}
	algL, ea := labelsOf(algName)
	if ea != nil {
		return nil
	}
	if strings.Contains(c.KeyName+algName, "\\") {
		pbt.Class("names-spelled-with-escapes")
	}
	if n < 1 || n > 6 || e != nil || c.Extra < -31 || c.Extra > 2000 || c.Fudge < 16 || c.Time <= uint64(c.Fudge)+16 || c.Time >= 1<<47 {
		return nil
	}
	pbt.Note([]byte(fmt.Sprintf("%v|%s|%x|%d|%x|%d", c.Msgs, c.KeyName, c.Secret, c.Extra, c.ReqMAC, c.Time)), c.Extra > 32 || len(c.ReqMAC) > 64 || c.Extra < -22 || (len(c.ReqMAC) > 0 && len(c.ReqMAC) < 10),
		fmt.Sprintf("envelopes=%d", n), fmt.Sprintf("mac-octets=%s", macOctetsClass(32+c.Extra)), fmt.Sprintf("reqmac>64=%v", len(c.ReqMAC) > 64), reqLenClass(len(c.ReqMAC)))
	var seen [][]byte
	prov := longProvider{secret: c.Secret, extra: c.Extra, seen: &seen}
	prev := c.ReqMAC
	for i := 0; i < n; i++ {
		spec := c.Msgs[i]
		if spec.Rcode&0xF == dns.RcodeNotAuth && !c.NotAuth {
			spec.Rcode = 0 // known finding tsig-rcode-notauth (see checkTsig): NOTAUTH is reported as ErrAuth whatever the MAC
		} else if spec.Rcode&0xF == dns.RcodeNotAuth {
			pbt.Class("envelope-with-rcode-notauth")
		}
		m := spec.Build()
		packed, perr := spec.Build().Pack()
		if perr != nil {
			return nil
		}
		m.SetTsig(c.KeyName, algName, c.Fudge, int64(c.Time)+int64(i))
		out, mac, err := dns.TsigGenerateWithProvider(m, prov, hex.EncodeToString(prev), i > 0)
		if err != nil {
			return pbt.Errf("TsigGenerateWithProvider of envelope %d failed: %v (previous MAC %d octets, provider MACs %d octets)", i, err, len(prev), 32+c.Extra)
		}
		t := &ref.Tsig{KeyName: keyL, Class: ref.ClassANY, Algorithm: algL, TimeSigned: c.Time + uint64(i), Fudge: c.Fudge, OrigID: m.Id}
		want := ref.TsigDigestInput(prev, packed, t, i > 0)
		if len(seen) != i+1 || !bytes.Equal(seen[i], want) {
			return pbt.Errf("envelope %d: the octets handed to TsigProvider.Generate are not the RFC 8945 digest input (previous MAC %d octets; first difference at octet %d of %d/%d)", i, len(prev), firstDiff(seen[len(seen)-1], want), len(seen[len(seen)-1]), len(want))
		}
		macB, _ := hex.DecodeString(mac)
		if !bytes.Equal(macB, prov.mac(want)) {
			return pbt.Errf("envelope %d: returned MAC is not the provider's MAC of the digest input", i)
		}
		if verr := dns.VerifTsigVerifyAt(append([]byte(nil), out...), prov, hex.EncodeToString(prev), i > 0, c.Time+uint64(i)); verr != nil {
			return pbt.Errf("envelope %d signed through a provider with %d-octet MACs (previous MAC %d octets) does not verify: %v", i, 32+c.Extra, len(prev), verr)
		}
		if len(prev) > 0 {
			bad := append([]byte(nil), prev...)
			bad[len(bad)-1] ^= 1
			// with provider MACs of 1..3 octets the changed digest input has the same MAC once in 2^8..2^24
			// cases: the expectation is the provider's own MAC of the reference digest input, not "refused"
			collides := bytes.Equal(prov.mac(ref.TsigDigestInput(bad, packed, t, i > 0)), macB)
			if collides {
				pbt.Class("short-provider-mac-collides")
			}
			if got := dns.VerifTsigVerifyAt(append([]byte(nil), out...), prov, hex.EncodeToString(bad), i > 0, c.Time+uint64(i)) == nil; got != collides {
				return pbt.Errf("envelope %d with the last octet of the %d-octet previous MAC changed: verified=%v, the provider's MAC of the RFC 8945 digest input says %v", i, len(prev), got, collides)
			}
		}
		prev = macB
	}
	return nil
}

func macOctetsClass(n int) string {
	switch {
	case n <= 3:
		return fmt.Sprintf("%d", n)
	case n < 32:
		return "4-31"
	case n <= 64:
		return "32-64"
	}
	return ">64"
}

func genLongMAC(t *rapid.T) longCase {
	c := longCase{}
	for i, n := 0, rapid.IntRange(1, 4).Draw(t, "n"); i < n; i++ {
		c.Msgs = append(c.Msgs, msgspec.Gen(t, msgspec.Opts{MaxSmall: 2}))
	}
	c.KeyName = wm.EscName(gen.Name(t, gen.NameOpts{MaxLabs: 3, MaxLabel: 8, Plain: true}))
	if rapid.IntRange(0, 3).Draw(t, "spell") == 0 {
		// key name and algorithm name as a program may write them (mixed case, \DDD, \c): both enter
		// the digest in canonical form whatever the spelling
		c.KeyName = spellTsigName(t, gen.FlipCase(t, gen.Name(t, gen.NameOpts{MaxLabs: 3, MaxLabel: 8, Plain: true})))
		c.AlgName = spellTsigName(t, gen.FlipCase(t, wm.Name{[]byte("long-mac"), []byte("example")}))
	}
	c.Secret = genSecret(t, "secret")
	// 32 + Extra octets per MAC; negative: a provider whose MACs are shorter than any HMAC (1, 2, 3, 10, 16 octets)
	c.Extra = rapid.SampledFrom([]int{0, 1, 32, 33, 48, 168, 968, -31, -30, -29, -22, -16}).Draw(t, "extra")
	if c.Extra == -31 && pbt.Known(findReqMAC1) {
		pbt.Excluded(findReqMAC1) // every envelope after the first is signed over a one-octet MAC
		c.Extra = -30
	}
	if rapid.Bool().Draw(t, "hasreq") {
		c.ReqMAC = genReqMAC(t, []int{16, 64, 65, 100, 1000, 1, 2, 3})
	}
	c.Fudge = rapid.Uint16Range(16, 65535).Draw(t, "fudge")
	c.Time = rapid.Uint64Range(uint64(c.Fudge)+17, 1<<40).Draw(t, "time")
	c.NotAuth = keepNotAuth(c.Msgs)
	return c
}

// keepNotAuth: envelopes with RCODE NOTAUTH stay as generated unless the known finding
// tsig-rcode-notauth reproduces; then the RCODE is replaced in the check (counted per message).
func keepNotAuth(msgs []msgspec.Spec) bool {
	if !pbt.Known(findNotAuth) {
		return true
	}
	for _, m := range msgs {
		if m.Rcode&0xF == dns.RcodeNotAuth {
			pbt.Excluded(findNotAuth)
		}
	}
	return false
}

func init() {
	pbt.Register(pbt.Sub[longCase]{Name: "provider-long-macs", Weight: 1, Gen: genLongMAC, Check: checkLongMAC})
}
