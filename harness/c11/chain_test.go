package c11

import (
	"encoding/base64"
	"encoding/hex"
	"fmt"

	"github.com/miekg/dns"
	"pgregory.net/rapid"

	"verif/harness/c18/msgspec"
	"verif/harness/gen"
	"verif/harness/pbt"
	ref "verif/harness/refcrypto"
	wm "verif/harness/wiremodel"
)

// ---------------------------------------------------------------------------------------------
// (5) chains of envelopes: envelope 0 is signed with the request MAC (if any) and all TSIG
// variables, envelope i > 0 with the MAC of envelope i-1 and the timers only (RFC 8945 5.3.1).

type chainCase struct {
	Msgs    []msgspec.Spec // 1..8 envelopes
	KeyName string
	Alg     string
	Secret  []byte
	Secret2 []byte
	ReqMAC  []byte
	Fudge   uint16
	Time    uint64 // time signed of envelope 0; envelope i is signed at Time + i
	Fault   string // "", drop, dup, swap, rekey
	At      int    // envelope the fault applies to (reduced modulo what the fault needs)
}

func checkChain(c chainCase) error {
	n := len(c.Msgs)
	algL, e1 := labelsOf(c.Alg)
	_, e2 := labelsOf(c.KeyName)
	if n < 1 || n > 8 || e1 != nil || e2 != nil || ref.TsigHash(algL) == nil || c.Fudge < 16 || c.Time <= uint64(c.Fudge)+16 || c.Time >= 1<<47 {
		return nil
	}
	if len(c.ReqMAC) > 0 && len(c.ReqMAC) < 10 {
		return nil
	}
	pbt.Note([]byte(fmt.Sprintf("%v|%s|%s|%x|%x|%d|%d|%s|%d", c.Msgs, c.KeyName, c.Alg, c.Secret, c.ReqMAC, c.Fudge, c.Time, c.Fault, c.At)), n >= 2,
		fmt.Sprintf("envelopes=%d", n), "fault="+c.Fault, "alg="+lower(c.Alg), fmt.Sprintf("reqmac=%v", len(c.ReqMAC) > 0))
	secret64 := base64.StdEncoding.EncodeToString(c.Secret)
	// sign the chain with the library
	envs := make([][]byte, n)
	macs := make([][]byte, n)
	prev := c.ReqMAC
	for i := 0; i < n; i++ {
		sec := secret64
		if c.Fault == "rekey" && i == c.At%n {
			sec = base64.StdEncoding.EncodeToString(c.Secret2)
		}
		m := c.Msgs[i].Build()
		if m.Rcode&0xF == dns.RcodeNotAuth {
			m.Rcode = dns.RcodeSuccess // see checkTsig: NOTAUTH is reported as ErrAuth by design
		}
		m.SetTsig(c.KeyName, c.Alg, c.Fudge, int64(c.Time)+int64(i))
		out, mac, err := dns.TsigGenerate(m, sec, hex.EncodeToString(prev), i > 0)
		if err != nil {
			return pbt.Errf("TsigGenerate of envelope %d failed: %v", i, err)
		}
		envs[i] = out
		macs[i], _ = hex.DecodeString(mac)
		prev = macs[i]
	}
	// the receiver's view: the envelopes in arrival order
	order := make([]int, n)
	for i := range order {
		order[i] = i
	}
	switch c.Fault {
	case "drop":
		if n >= 2 {
			at := c.At % n
			order = append(order[:at:at], order[at+1:]...)
		}
	case "dup":
		at := c.At % n
		order = append(order[:at+1:at+1], append([]int{at}, order[at+1:]...)...)
	case "swap":
		if n >= 2 {
			at := c.At % (n - 1)
			order[at], order[at+1] = order[at+1], order[at]
		}
	}
	held := c.ReqMAC
	firstBad := -1
	for pos, e := range order {
		timers := pos > 0
		now := c.Time + uint64(e)
		lerr := libVerify(envs[e], c.Secret, held, timers, now)
		ring := func(ref.Labels) ([]byte, bool) { return c.Secret, true }
		rv := ref.TsigVerify(envs[e], ring, held, timers, now, false)
		if lerr == nil && !rv.OK {
			return pbt.Errf("chain of %d envelopes, fault %q at %d: TsigVerify accepted envelope %d at position %d (timers only %v) although the reference rejects it: %s", n, c.Fault, c.At, e, pos, timers, rv.Why)
		}
		if rv.OK && lerr != nil {
			// reference acceptance means: signed with this secret over exactly this previous MAC and
			// timers-only setting, inside the window - i.e. the setting TsigGenerate was called with
			return pbt.Errf("chain of %d envelopes (fault %q at %d): envelope %d at position %d (timers only %v, previous MAC %d octets) fails to verify: %v", n, c.Fault, c.At, e, pos, timers, len(held), lerr)
		}
		if lerr != nil {
			firstBad = pos
			break // a receiver stops at the first failure
		}
		held = macs[e]
	}
	switch {
	case c.Fault == "" && firstBad >= 0:
		return pbt.Errf("untampered chain of %d envelopes fails at position %d", n, firstBad)
	case c.Fault != "" && firstBad >= 0:
		pbt.Class("fault-detected")
	case c.Fault != "":
		pbt.Class("fault-not-detectable(" + c.Fault + ")") // e.g. the last envelope dropped, swap in a chain of one
	}
	return nil
}

func genChain(t *rapid.T) chainCase {
	c := chainCase{}
	n := rapid.IntRange(1, 8).Draw(t, "n")
	for i := 0; i < n; i++ {
		c.Msgs = append(c.Msgs, msgspec.Gen(t, msgspec.Opts{MaxSmall: 2}))
	}
	c.KeyName = wm.EscName(gen.Name(t, gen.NameOpts{MaxLabs: 3, MaxLabel: 8, Plain: true}))
	c.Alg = rapid.SampledFrom(algNames).Draw(t, "alg")
	c.Secret = genSecret(t, "secret")
	c.Secret2 = append([]byte{0x77}, genSecret(t, "secret2")...)
	if rapid.Bool().Draw(t, "hasreq") {
		nr := rapid.SampledFrom([]int{16, 20, 32, 64}).Draw(t, "reqlen")
		c.ReqMAC = rapid.SliceOfN(rapid.Byte(), nr, nr).Draw(t, "reqmac")
	}
	c.Fudge = rapid.Uint16Range(16, 65535).Draw(t, "fudge")
	c.Time = rapid.Uint64Range(uint64(c.Fudge)+17, 1<<40).Draw(t, "time")
	c.Fault = rapid.SampledFrom([]string{"", "", "drop", "dup", "swap", "rekey"}).Draw(t, "fault")
	c.At = rapid.IntRange(0, 7).Draw(t, "at")
	return c
}

func init() {
	pbt.Register(pbt.Sub[chainCase]{Name: "envelope-chains", Weight: 2, Gen: genChain, Check: checkChain})
}
