module verif/harness

go 1.25.0

require (
	github.com/miekg/dns v0.0.0
	pgregory.net/rapid v1.3.0
)

require (
	golang.org/x/mod v0.36.0 // indirect
	golang.org/x/net v0.55.0 // indirect
	golang.org/x/sync v0.20.0 // indirect
	golang.org/x/sys v0.45.0 // indirect
	golang.org/x/tools v0.45.0 // indirect
)

replace github.com/miekg/dns => /repo
