package c09

import (
	"bytes"

	"pgregory.net/rapid"

	"verif/harness/gen"
	"verif/harness/pbt"
	wm "verif/harness/wiremodel"
)

// The "heavy base" class (round 7): replies in which header + question + OPT ALONE come close to,
// meet exactly or exceed the limit max(size,512) - the region of the statement's conditional
// clause ("whenever header, question and OPT alone fit in that") and of its unconditional ones
// (OPT always retained, prefixes, TC) where no record at all can stay. The weight sits in
//   - the OPT record: RFC 7830 padding / NSID / EDE / local options of some hundred (up to some
//     thousand) octets, or many medium options,
//   - the question section: names up to 255 octets, 0..3 questions, under one long name (the
//     section compresses) or unrelated (it does not),
// and the bulk is sized so that len(header+question+OPT) = limit + d for d in -13..+4 (below -11
// the smallest possible record still fits; in 1/8 d is -120..120), or so that the OPT record alone
// is limit + d octets (the budget left after reserving its room is <= 0). 0..6 small records follow (0: nothing to drop, the
// message is only "too big"), an extended RCODE (upper bits live in the OPT: Pack fails when the
// OPT is lost) in half of the replies with OPT, the OPT at any position of the additional section.
// Sizes: the exact base length -2..+2, anything below 512, the limit aimed at, and pickSize's.

func baseOf(m wm.Msg) wm.Msg {
	b := wm.Msg{ID: m.ID, Flags: m.Flags, Rcode: m.Rcode, Q: m.Q}
	if o := m.Opt(); o >= 0 {
		b.Ex = []wm.Rec{m.Ex[o]}
	}
	return b
}

// baseLen: header + question + OPT, the question section compressed (RFC 1035 4.1.4: a name is
// replaced by a pointer to an earlier occurrence of one of its suffixes), computed on the model.
func baseLen(m wm.Msg) int {
	b := baseOf(m)
	if w, err := wm.EncodeCompressed(b, false); err == nil {
		return len(w)
	}
	w, _ := wm.Encode(b)
	return len(w)
}

func heavyQuestions(t *rapid.T, plain bool) []wm.Question {
	no := gen.NameOpts{Plain: plain}
	nq := rapid.SampledFrom([]int{1, 1, 1, 2, 2, 3, 0}).Draw(t, "hnq")
	var qs []wm.Question
	shape := rapid.IntRange(0, 3).Draw(t, "qshape")
	var first wm.Name
	for i := 0; i < nq; i++ {
		var n wm.Name
		switch {
		case shape == 0:
			// short names: the OPT carries the weight
			n = gen.Name(t, gen.NameOpts{Plain: plain, MaxLabs: 3, MaxLabel: 12})
		case shape == 1 && i > 0:
			// same long name again, a child or the parent of it: the section compresses
			n = first.Clone()
			switch rapid.IntRange(0, 2).Draw(t, "qrel") {
			case 1:
				c := append(wm.Name{gen.Label(t, gen.NameOpts{Plain: plain, MaxLabel: 8})}, first...)
				if c.Valid() {
					n = c.Clone()
				}
			case 2:
				if len(first) > 1 {
					n = wm.Name(first[1:]).Clone()
				}
			}
		case shape == 3:
			// the longest names
			n = gen.NameOfWireLen(t, rapid.IntRange(250, 255).Draw(t, "qlenmax"), no)
		default:
			n = gen.NameOfWireLen(t, rapid.IntRange(40, 255).Draw(t, "qlen"), no)
		}
		if !n.Valid() {
			n = wm.MustName("example.org.")
		}
		if i == 0 {
			first = n
		}
		qt := rapid.SampledFrom([]uint16{wm.TA, wm.TAAAA, wm.TTXT, wm.TNS, wm.TSOA, wm.TANY, wm.THTTPS}).Draw(t, "hqt")
		qs = append(qs, wm.Question{Name: n.Clone(), Type: qt, Class: 1})
	}
	return qs
}

func bulkData(t *rapid.T, n int) []byte {
	if n <= 0 {
		return []byte{}
	}
	if rapid.Bool().Draw(t, "zeropad") {
		return make([]byte, n) // RFC 7830: padding octets are zero
	}
	pat := gen.Bytes(t, rapid.IntRange(1, 4).Draw(t, "bulkpat"), false)
	return bytes.Repeat(pat, n/len(pat)+1)[:n]
}

func genHeavy(t *rapid.T) truncCase {
	plain := rapid.IntRange(0, 3).Draw(t, "hplain") != 3
	var m wm.Msg
	if plain {
		m = gen.PlainMsg(t, 3, false)
	} else {
		mo := &gen.MsgOpts{Share: true, MaxQ: 2, MaxRecs: 3, NoOPT: true}
		for _, x := range gen.AllTypes {
			if x != wm.TTSIG {
				mo.Types = append(mo.Types, x)
			}
		}
		m = gen.Msg(t, mo)
	}
	m.Rcode = rapid.SampledFrom([]int{0, 0, 0, 2, 3, 5}).Draw(t, "hrcode")
	m.Q = heavyQuestions(t, plain)

	// the records: what PlainMsg / Msg drew (0..3 per section, own names), thinned out, plus small
	// records owned by a question name (compress to 2 octets of owner), plus the smallest possible one
	hrecs := rapid.IntRange(0, 4).Draw(t, "hrecs")
	switch hrecs {
	case 0:
		m.An, m.Ns, m.Ex = nil, nil, nil // nothing to drop: the reply is just too big
	case 1:
		// one section only
		keep := rapid.IntRange(0, 2).Draw(t, "honly")
		for i, sec := range m.Sections() {
			if i != keep {
				*sec = nil
			}
		}
	}
	if len(m.Q) > 0 && hrecs != 0 {
		for i, sec := range m.Sections() {
			for j, n := 0, rapid.IntRange(0, 2).Draw(t, "hown"); j < n; j++ {
				q := m.Q[rapid.IntRange(0, len(m.Q)-1).Draw(t, "hownq")].Name
				r := wm.Rec{Name: q.Clone(), Type: wm.TA, Class: 1, TTL: 60, Fields: []wm.Field{{K: wm.IPv4, B: []byte{192, 0, 2, byte(16*i + j)}}}}
				if rapid.IntRange(0, 3).Draw(t, "htiny") == 0 {
					r = wm.Rec{Name: wm.Name{}, Type: wm.TTXT, Class: 1, TTL: 0, Fields: []wm.Field{{K: wm.Strs}}}
				}
				if rapid.Bool().Draw(t, "hfront") {
					*sec = append([]wm.Rec{r}, *sec...)
				} else {
					*sec = append(*sec, r)
				}
			}
		}
	}

	// the limit aimed at
	L := 512
	switch rapid.IntRange(0, 7).Draw(t, "hlimit") {
	case 5, 6:
		L = rapid.IntRange(513, 900).Draw(t, "hlimit1")
	case 7:
		L = rapid.SampledFrom([]int{1232, 1452, 4096}).Draw(t, "hlimit2")
	}

	withOpt := rapid.IntRange(0, 5).Draw(t, "hopt") != 5
	if withOpt {
		opt := gen.OptRec(t, &gen.Opts{Plain: plain})
		pos := rapid.IntRange(0, len(m.Ex)).Draw(t, "hoptpos")
		m.Ex = append(m.Ex[:pos:pos], append([]wm.Rec{opt}, m.Ex[pos:]...)...)
		if rapid.Bool().Draw(t, "hext") {
			// extended RCODE: BADVERS, BADCOOKIE, BADTRUNC, a value with only upper bits, the maximum
			m.Rcode = rapid.SampledFrom([]int{16, 23, 22, 256, 4095, 17}).Draw(t, "hextrcode")
		}
		// bulk options: k options that together bring header+question+OPT to L+d
		k := 1
		if rapid.IntRange(0, 3).Draw(t, "hmany") == 0 {
			k = rapid.IntRange(2, 12).Draw(t, "hk")
		}
		d := rapid.IntRange(-13, 4).Draw(t, "hd")
		if rapid.IntRange(0, 7).Draw(t, "hfar") == 0 {
			d = rapid.IntRange(-120, 120).Draw(t, "hdfar")
		}
		if rapid.IntRange(0, 9).Draw(t, "hnobulk") == 0 {
			k = 0 // only what OptRec drew: the question section carries the weight (or nothing does)
		}
		if k > 0 {
			oi := m.Opt()
			f := &m.Ex[oi].Fields[0]
			code := rapid.SampledFrom([]uint16{12, 12, 3, 15, 4, 65001}).Draw(t, "hbulkcode")
			at := len(f.Opts)
			if rapid.Bool().Draw(t, "hbulkfirst") {
				at = 0
			}
			empty := make([]wm.Option, k)
			for i := range empty {
				empty[i] = wm.Option{Code: code, Data: []byte{}}
			}
			f.Opts = append(f.Opts[:at:at], append(empty, f.Opts[at:]...)...)
			room := L + d - baseLen(m) // octets of option data still to place
			if rapid.IntRange(0, 5).Draw(t, "haimopt") == 5 {
				// the OPT record ALONE is limit+d octets: the budget left after reserving room for it
				// is zero or negative
				ob, _ := wm.EncodeRR(m.Ex[oi])
				room = L + d - len(ob)
			}
			if code == 15 && room < 2*k {
				for i := 0; i < k; i++ {
					f.Opts[at+i].Code = 12
				}
			}
			for i := 0; i < k; i++ {
				n := room / (k - i)
				if i < k-1 && room > 0 {
					n = rapid.IntRange(0, room).Draw(t, "hsplit")
					if code == 15 && f.Opts[at+i].Code == 15 {
						// extended error: at least the info code; leave as much for every later one
						if n < 2 {
							n = 2
						}
						if max := room - 2*(k-1-i); n > max {
							n = max
						}
					}
				}
				if n < 0 {
					n = 0
				}
				if n > 65000 {
					n = 65000
				}
				f.Opts[at+i].Data = bulkData(t, n)
				room -= n
			}
		}
	}

	base := baseLen(m)
	var size int
	switch rapid.IntRange(0, 7).Draw(t, "hsizek") {
	case 0, 1, 2:
		size = base + rapid.IntRange(-2, 2).Draw(t, "hdelta")
	case 3:
		size = rapid.IntRange(0, 511).Draw(t, "hbelowfloor")
	case 4:
		size = L
	case 5:
		size = rapid.SampledFrom([]int{0, 511, 512, 513}).Draw(t, "hfloor")
	default:
		size = pickSize(t, m)
	}
	if size < 0 {
		size = 0
	}
	return truncCase{M: m, Size: size, Plain: plain, TC: rapid.IntRange(0, 4).Draw(t, "tc") == 0, Comp: rapid.IntRange(0, 3).Draw(t, "comp") == 0, FitsAll: !plain && fitsAll(m)}
}

func init() {
	pbt.Register(pbt.Sub[truncCase]{Name: "truncate-heavy-base", Weight: 4, Gen: genHeavy, Check: checkTrunc})
}
