package c09

import (
	"pgregory.net/rapid"

	"verif/harness/gen"
	"verif/harness/pbt"
	wm "verif/harness/wiremodel"
)

// Round 9: the class "replies made of RRsets". A reply is not a bag of unrelated records: its
// sections consist of RRsets - runs of records with the SAME owner name and type (an address set, an
// NS set with its glue, a CNAME followed by the target's addresses) - and those are what a cut goes
// through. The older generators draw every record on its own (two neighbours with the same owner and
// type are an accident, a run of thirty does not occur), so everything that treats "the rest of the
// RRset" differently from "the next record" was out of reach.
//
// The second dimension is how the owner of a run is WRITTEN. The statement quantifies over all replies
// "with shared and unshared names"; whether two names share octets in the packed message depends on
// their spelling, not on their value: a compression pointer is only written to a name spelled
// identically. An RRset assembled from several sources (a case-preserving cache, answers to 0x20
// queries, glue copied from a referral) has one owner in several spellings:
//   - all records spelled identically,
//   - every record in its own letter case (0x20),
//   - 2..4 spellings, each record picks one (runs of equal spelling inside the run),
//   - one odd record (first, last or in the middle) in another case,
// and outside the plain sub-domain also the same octets escaped differently (\065 for A, \a for a:
// truncCase.Spell, the spelling seed of wiremodel.Spelling, applied to every name of the reply).
// Letter case needs no escape, so the first three stay inside the plain sub-domain (maximality and
// "fits => keeps all" are asserted for them).
//
// Shape: question <host>.<zone> (or the zone itself); answer: optional CNAME chain, then 1..3 RRsets;
// authority: 0..2 RRsets (NS set of the zone ...); additional: address sets owned by names that occur
// in the RDATA before (glue; the owner may be spelled differently from the NS target) or by further
// hosts of the zone. Set sizes 1..12, in half of the replies one set of 20..70 records (an address set
// of 16 octets per record needs more than thirty members to pass the 512-octet floor); in 1/3 a TXT
// record of some hundred octets in front lifts the reply towards the floor. Sizes: pickSize (exact
// packed length of every record prefix -2..+2, uniform, well-known), computed under the same spelling.

var rrsetTypes = []uint16{wm.TA, wm.TA, wm.TA, wm.TAAAA, wm.TAAAA, wm.TAAAA, wm.TNS, wm.TMX, wm.TTXT, wm.TSRV, wm.TPTR}
var addrTypes = []uint16{wm.TA, wm.TA, wm.TAAAA}

type ownerSpelling int

const (
	spellSame ownerSpelling = iota
	spellEach
	spellFew
	spellOdd
)

// rrset draws n records of one type under one owner, the owner written per record as mode says.
func rrset(t *rapid.T, owner wm.Name, typ uint16, n int, mode ownerSpelling, o *gen.Opts) []wm.Rec {
	ttl := uint32(rapid.SampledFrom([]int{0, 30, 60, 300, 3600, 86400}).Draw(t, "setttl"))
	var variants []wm.Name
	if mode == spellFew {
		for i, k := 0, rapid.IntRange(2, 4).Draw(t, "nvariants"); i < k; i++ {
			variants = append(variants, gen.FlipCase(t, owner))
		}
	}
	odd := -1
	if mode == spellOdd {
		odd = rapid.SampledFrom([]int{0, n - 1, n / 2, 1}).Draw(t, "oddat")
	}
	var out []wm.Rec
	for i := 0; i < n; i++ {
		r := gen.RecOfType(t, typ, o)
		r.Class, r.TTL = 1, ttl
		switch typ {
		case wm.TA:
			r.Fields = []wm.Field{{K: wm.IPv4, B: []byte{10, byte(i >> 8), byte(i), byte(rapid.IntRange(1, 254).Draw(t, "host"))}}}
		}
		switch {
		case mode == spellEach:
			r.Name = gen.FlipCase(t, owner)
		case mode == spellFew:
			r.Name = variants[rapid.IntRange(0, len(variants)-1).Draw(t, "variant")].Clone()
		case i == odd:
			r.Name = gen.FlipCase(t, owner)
		default:
			r.Name = owner.Clone()
		}
		out = append(out, r)
	}
	return out
}

func drawSpelling(t *rapid.T) ownerSpelling {
	return rapid.SampledFrom([]ownerSpelling{spellSame, spellSame, spellEach, spellEach, spellFew, spellOdd}).Draw(t, "ownerspelling")
}

// rdataNames: the names in the RDATA of the records (NS targets, MX exchanges, CNAME targets ...).
func rdataNames(recs []wm.Rec) []wm.Name {
	var out []wm.Name
	for _, r := range recs {
		for _, f := range r.Fields {
			if (f.K == wm.NameC || f.K == wm.NameU) && len(f.N) > 0 {
				out = append(out, f.N)
			}
		}
	}
	return out
}

func genRRsets(t *rapid.T) truncCase {
	plain := rapid.IntRange(0, 3).Draw(t, "rplain") != 3
	no := gen.NameOpts{Plain: plain, MaxLabs: 3, MaxLabel: 12}
	zone := gen.Name(t, no)
	if len(zone) == 0 && rapid.IntRange(0, 7).Draw(t, "rootzone") != 0 {
		zone = wm.Name{gen.Label(t, no)}
	}
	host := func() wm.Name {
		n := append(wm.Name{gen.Label(t, no)}, zone...)
		if rapid.IntRange(0, 4).Draw(t, "deep") == 0 {
			n = append(wm.Name{gen.Label(t, no)}, n...)
		}
		if !n.Valid() {
			return zone.Clone()
		}
		return n.Clone()
	}
	// names in the RDATA: hosts of the zone (mostly), of other zones, sometimes in another case
	var hosts []wm.Name
	o := &gen.Opts{Plain: plain}
	o.NameGen = func(t *rapid.T) wm.Name {
		switch k := rapid.IntRange(0, 9).Draw(t, "rdname"); {
		case k < 5 && len(hosts) > 0:
			h := hosts[rapid.IntRange(0, len(hosts)-1).Draw(t, "oldhost")].Clone()
			if rapid.IntRange(0, 3).Draw(t, "rdcase") == 0 {
				h = gen.FlipCase(t, h)
			}
			return h
		case k < 9:
			h := host()
			hosts = append(hosts, h)
			return h
		}
		return gen.Name(t, gen.NameOpts{Plain: plain, MaxLabs: 4, MaxLabel: 10})
	}

	qname := host()
	if rapid.IntRange(0, 5).Draw(t, "qzone") == 0 {
		qname = zone.Clone()
	}
	var m wm.Msg
	m.ID = uint16(gen.UintB(t, 16))
	m.Flags = wm.FlagQR | wm.FlagRD | wm.FlagRA
	if rapid.Bool().Draw(t, "aa") {
		m.Flags = wm.FlagQR | wm.FlagAA
	}
	m.Q = []wm.Question{{Name: qname.Clone(), Type: rapid.SampledFrom([]uint16{wm.TA, wm.TAAAA, wm.TANY, wm.TMX, wm.TNS, wm.TTXT}).Draw(t, "rqtype"), Class: 1}}
	if rapid.IntRange(0, 2).Draw(t, "qcase") == 0 {
		m.Q[0].Name = gen.FlipCase(t, qname) // the 0x20 query itself
	}

	// one set of the reply may be large
	big := -1
	nsets := [3]int{rapid.IntRange(1, 3).Draw(t, "nan"), rapid.IntRange(0, 2).Draw(t, "nns"), rapid.IntRange(0, 3).Draw(t, "nex")}
	total := nsets[0] + nsets[1] + nsets[2]
	if rapid.Bool().Draw(t, "hasbig") {
		big = rapid.IntRange(0, total-1).Draw(t, "bigset")
	}
	maxBig := 70
	if pbt.Thorough() {
		maxBig = 200
	}
	setNo := 0
	size := func() int {
		defer func() { setNo++ }()
		if setNo == big {
			return rapid.IntRange(20, maxBig).Draw(t, "bigsize")
		}
		return rapid.IntRange(1, 12).Draw(t, "setsize")
	}

	// answer section
	owner := qname
	if rapid.IntRange(0, 2).Draw(t, "front") == 0 {
		f := gen.PlainFiller(rapid.IntRange(100, 440).Draw(t, "frontlen"))
		f.Name = owner.Clone()
		m.An = append(m.An, f)
	}
	for i, k := 0, rapid.SampledFrom([]int{0, 0, 0, 1, 2}).Draw(t, "cnames"); i < k; i++ {
		target := host()
		m.An = append(m.An, wm.Rec{Name: owner.Clone(), Type: wm.TCNAME, Class: 1, TTL: 300, Fields: []wm.Field{{K: wm.NameC, N: target.Clone()}}})
		owner = target
		if rapid.IntRange(0, 2).Draw(t, "cnamecase") == 0 {
			owner = gen.FlipCase(t, target) // the address set under the target, written as another source had it
		}
	}
	for i := 0; i < nsets[0]; i++ {
		typ := rapid.SampledFrom(rrsetTypes).Draw(t, "antype")
		m.An = append(m.An, rrset(t, owner, typ, size(), drawSpelling(t), o)...)
		if rapid.IntRange(0, 2).Draw(t, "nextowner") == 0 {
			owner = host()
		}
	}
	// authority section: sets owned by the zone (NS mostly)
	for i := 0; i < nsets[1]; i++ {
		typ := rapid.SampledFrom([]uint16{wm.TNS, wm.TNS, wm.TNS, wm.TA, wm.TAAAA, wm.TTXT, wm.TMX}).Draw(t, "nstype")
		m.Ns = append(m.Ns, rrset(t, zone, typ, size(), drawSpelling(t), o)...)
	}
	// additional section: address sets of names used in the RDATA so far (glue), or of further hosts
	targets := rdataNames(append(append([]wm.Rec{}, m.An...), m.Ns...))
	for i := 0; i < nsets[2]; i++ {
		var own wm.Name
		if len(targets) > 0 && rapid.IntRange(0, 3).Draw(t, "glue") != 0 {
			own = targets[rapid.IntRange(0, len(targets)-1).Draw(t, "gluefor")].Clone()
		} else {
			own = host()
		}
		typ := rapid.SampledFrom(addrTypes).Draw(t, "extype")
		m.Ex = append(m.Ex, rrset(t, own, typ, size(), drawSpelling(t), o)...)
	}
	if rapid.IntRange(0, 1).Draw(t, "ropt") == 0 {
		opt := gen.OptRec(t, &gen.Opts{Plain: plain})
		pos := rapid.IntRange(0, len(m.Ex)).Draw(t, "roptpos")
		m.Ex = append(m.Ex[:pos:pos], append([]wm.Rec{opt}, m.Ex[pos:]...)...)
	}
	extRcode(t, &m)

	c := truncCase{M: m, Plain: plain, TC: rapid.IntRange(0, 4).Draw(t, "tc") == 0, Comp: rapid.IntRange(0, 3).Draw(t, "comp") == 0}
	if !plain {
		if rapid.Bool().Draw(t, "respell") {
			c.Spell = drawSpell(t)
		}
		c.FitsAll = fitsAllSpelled(m, c.Spell)
	}
	c.Size = pickSizeSpelled(t, m, c.Spell)
	return c
}

// drawSpell: a non-zero seed for wiremodel.Spelling (one name in four is then written with \DDD and
// \c escapes for octets that need none).
func drawSpell(t *rapid.T) uint64 {
	return uint64(rapid.IntRange(1, 1<<30).Draw(t, "spell"))
}

func init() {
	pbt.Register(pbt.Sub[truncCase]{Name: "truncate-rrsets", Weight: 2, Gen: genRRsets, Check: checkTrunc})
}
