package c09

import (
	"bytes"
	"fmt"

	"github.com/miekg/dns"
	"pgregory.net/rapid"

	"verif/harness/gen"
	"verif/harness/pbt"
	wm "verif/harness/wiremodel"
)

type truncCase struct {
	M     wm.Msg
	Size  int
	Plain bool
	TC    bool // TC already set before the call
	Comp  bool `json:",omitempty"` // Compress already set before the call (a reply built by a handler that compresses)
	// FitsAll: the reply is outside the plain sub-domain but contains no record of a (live) known
	// over-estimate class (fits_test.go), so "a message that already fits keeps all its records" is
	// asserted for it too. Decided by the generator.
	FitsAll bool `json:",omitempty"`
	// Spell: seed of wiremodel.Spelling - how the names of the reply are WRITTEN in the library's
	// structs (0: the canonical spelling; else one name in four carries \DDD / \c escapes for octets
	// that need none). Same octets on the wire, different text: different sharing between names.
	Spell uint64 `json:",omitempty"`
}

// identity of a record for the prefix check: its uncompressed RFC encoding
func ident(rr dns.RR) string {
	r, err := wm.FromLib(rr, false)
	if err != nil {
		return "?" + rr.String()
	}
	b, _ := wm.EncodeRR(r)
	return string(b)
}

func splitOpt(rrs []dns.RR) (rest []dns.RR, opts int) {
	for _, rr := range rrs {
		if rr.Header().Rrtype == dns.TypeOPT {
			opts++
		} else {
			rest = append(rest, rr)
		}
	}
	return
}

func isPrefix(after, before []dns.RR) bool {
	if len(after) > len(before) {
		return false
	}
	for i := range after {
		if ident(after[i]) != ident(before[i]) {
			return false
		}
	}
	return true
}

func checkTrunc(c truncCase) error {
	m := c.M
	if c.TC {
		m.Flags |= wm.FlagTC
	} else {
		m.Flags &^= wm.FlagTC
	}
	w, err := wm.Encode(m)
	if err != nil || len(w) > 400000 {
		return nil
	}
	restore := wm.Spelling(c.Spell)
	lib, err := wm.MsgToLib(m, c.Comp)
	restore()
	if err != nil {
		return nil
	}
	orig := lib.Copy()
	S := c.Size
	if S < 512 {
		S = 512
	}
	// size of header + question + OPT alone (uncompressed: a sound upper bound)
	base := wm.Msg{ID: m.ID, Flags: m.Flags, Rcode: m.Rcode, Q: m.Q}
	if o := m.Opt(); o >= 0 {
		base.Ex = []wm.Rec{m.Ex[o]}
	}
	bw, _ := wm.Encode(base)
	// ... and compressed, as the library itself packs them (several questions under one long name
	// only fit thanks to compression)
	// (taken from the message itself, so that the names are spelled as they are in the reply)
	{
		bl := orig.Copy()
		bl.Answer, bl.Ns, bl.Extra = nil, nil, nil
		if o := orig.IsEdns0(); o != nil {
			bl.Extra = []dns.RR{dns.Copy(o)}
		}
		bl.Compress = true
		if bp, err := bl.Pack(); err == nil && len(bp) < len(bw) {
			bw = bp
		}
	}

	lib.Truncate(c.Size)

	// the OPT as Truncate left it (Pack writes the upper bits of an extended RCODE into its TTL)
	optAfter := ""
	if o := lib.IsEdns0(); o != nil {
		optAfter = ident(o)
	}
	p, err := lib.Pack()
	if err != nil {
		return pbt.Errf("Pack after Truncate(%d) failed: %v", c.Size, err)
	}
	bAn, _ := splitOpt(orig.Answer)
	bNs, _ := splitOpt(orig.Ns)
	bEx, bOpts := splitOpt(orig.Extra)
	aAn, _ := splitOpt(lib.Answer)
	aNs, _ := splitOpt(lib.Ns)
	aEx, aOpts := splitOpt(lib.Extra)
	dropped := (len(bAn) - len(aAn)) + (len(bNs) - len(aNs)) + (len(bEx) - len(aEx))
	kept := len(aAn) + len(aNs) + len(aEx)

	var classes []string
	if bOpts > 0 {
		classes = append(classes, "with-opt")
	} else {
		classes = append(classes, "without-opt")
	}
	switch {
	case len(aAn) < len(bAn):
		classes = append(classes, "cut-in-answer")
	case len(aNs) < len(bNs):
		classes = append(classes, "cut-in-authority")
	case len(aEx) < len(bEx):
		classes = append(classes, "cut-in-additional")
	default:
		classes = append(classes, "nothing-dropped")
	}
	if len(p) == S {
		classes = append(classes, "exact-fit")
	}
	if c.Plain {
		classes = append(classes, "plain")
	}
	if c.Size < 512 {
		classes = append(classes, "size<512")
	}
	// where header + question + OPT alone stand relative to the limit (a record is >= 11 octets:
	// from limit-10 on not one record can stay)
	switch {
	case len(bw) > S:
		classes = append(classes, "base>limit")
	case len(bw) == S:
		classes = append(classes, "base=limit")
	case len(bw) > S-11:
		classes = append(classes, "base-near-limit")
	}
	if len(bw) > S-11 && bOpts > 0 {
		classes = append(classes, "base-heavy-with-opt")
	}
	if m.Rcode > 15 {
		classes = append(classes, "ext-rcode")
	}
	if dropped > 0 && kept == 0 {
		classes = append(classes, "all-dropped")
	}
	if c.Spell != 0 {
		classes = append(classes, "respelled-names")
	}
	classes = append(classes, runClasses(m, orig, [3]int{len(aAn), len(aNs), len(aEx)})...)
	if len(bAn)+len(bNs)+len(bEx) == 0 && len(bw) > S {
		classes = append(classes, "no-records-base>limit") // nothing to drop, the reply is just too big
	}
	// the whole original reply, packed compressed: "already fits" means len(full) <= S
	justFits := false
	fullLen := -1
	if c.Plain || c.FitsAll {
		oc := orig.Copy()
		oc.Compress = true
		if full, err := oc.Pack(); err == nil {
			fullLen = len(full)
		}
		if fullLen >= 0 && fullLen <= S && len(bAn)+len(bNs)+len(bEx) > 0 {
			classes = append(classes, "fits-clause-applies")
			if !c.Plain {
				classes = append(classes, "fits-clause-applies-nonplain")
			}
			if fullLen > 500 && fullLen >= S-3 {
				justFits = true
				classes = append(classes, "just-fits")
			}
		}
	} else {
		classes = append(classes, "fits-clause-off(known class)")
	}
	pbt.Note(append([]byte(fmt.Sprint(c.Size, c.TC)), w...), dropped > 0 && kept > 0 || len(p) >= S-2 && len(p) <= S+2 || len(bw) > S-11 || justFits, classes...)
	if dropped > 0 && kept > 0 {
		pbt.Sample("cut", fmt.Sprintf("size=%d: %d/%d/%d records -> %d/%d/%d, packed %d", c.Size, len(bAn), len(bNs), len(bEx), len(aAn), len(aNs), len(aEx), len(p)))
	}

	// (1) upper bound
	if len(bw) <= S && len(p) > S {
		return pbt.Errf("Truncate(%d): packed message is %d octets > %d although header+question+OPT need only %d", c.Size, len(p), S, len(bw))
	}
	// (2) prefixes, and nothing of a later section once an earlier one lost a record
	if !isPrefix(aAn, bAn) || !isPrefix(aNs, bNs) || !isPrefix(aEx, bEx) {
		return pbt.Errf("Truncate(%d): a section is not a prefix of the original section", c.Size)
	}
	if len(aAn) < len(bAn) && (len(aNs) > 0 || len(aEx) > 0) {
		return pbt.Errf("Truncate(%d): answer lost records but authority/additional kept %d/%d", c.Size, len(aNs), len(aEx))
	}
	if len(aNs) < len(bNs) && len(aEx) > 0 {
		return pbt.Errf("Truncate(%d): authority lost records but additional kept %d", c.Size, len(aEx))
	}
	// (3) OPT retained, unchanged
	if aOpts != bOpts {
		return pbt.Errf("Truncate(%d): %d OPT records before, %d after", c.Size, bOpts, aOpts)
	}
	if bOpts == 1 {
		if ident(orig.IsEdns0()) != optAfter {
			return pbt.Errf("Truncate(%d): OPT record changed", c.Size)
		}
	}
	// (4) TC
	if want := c.TC || dropped > 0; lib.Truncated != want {
		return pbt.Errf("Truncate(%d): TC=%v, want %v (was %v, %d records dropped)", c.Size, lib.Truncated, want, c.TC, dropped)
	}
	// header and question untouched
	if lib.Id != orig.Id || lib.Rcode != orig.Rcode || lib.Opcode != orig.Opcode || lib.Response != orig.Response || len(lib.Question) != len(orig.Question) {
		return pbt.Errf("Truncate(%d) changed header or question", c.Size)
	}
	// idempotence: truncating the result again to the same size changes nothing
	again := lib.Copy()
	again.Truncate(c.Size)
	p2, err := again.Pack()
	if err != nil || !bytes.Equal(p2, p) {
		// (Compress may be switched off by the second call when the result now fits uncompressed)
		again.Compress = lib.Compress
		p2, err = again.Pack()
	}
	if err != nil || !bytes.Equal(p2, p) || again.Truncated != lib.Truncated {
		return pbt.Errf("Truncate(%d) is not idempotent: second call changes the message (%d -> %d octets, TC %v -> %v, err=%v)", c.Size, len(p), len(p2), lib.Truncated, again.Truncated, err)
	}
	// (5) fits => nothing dropped: all replies (the statement restricts only the maximality clause);
	// outside the plain sub-domain minus the known over-estimate classes, see fits_test.go.
	// Maximality: plain sub-domain only.
	if c.Plain || c.FitsAll {
		if fullLen < 0 {
			return nil
		}
		if fullLen <= S && dropped > 0 {
			return pbt.Errf("Truncate(%d): the whole message packs into %d octets but %d records were dropped", c.Size, fullLen, dropped)
		}
		if dropped > 0 && c.Plain {
			re := lib.Copy()
			re.Compress = true
			opt := re.IsEdns0()
			if opt != nil {
				ex, _ := splitOpt(re.Extra)
				re.Extra = ex
			}
			switch {
			case len(aAn) < len(bAn):
				re.Answer = append(re.Answer, bAn[len(aAn)])
			case len(aNs) < len(bNs):
				re.Ns = append(re.Ns, bNs[len(aNs)])
			default:
				re.Extra = append(re.Extra, bEx[len(aEx)])
			}
			if opt != nil {
				re.Extra = append(re.Extra, opt)
			}
			rp, err := re.Pack()
			if err == nil && len(rp) <= S {
				return pbt.Errf("Truncate(%d) is not maximal: with the first dropped record re-added the message still packs into %d <= %d octets", c.Size, len(rp), S)
			}
		}
	}
	_ = bytes.Equal
	return nil
}

// runClasses: the RRset structure of the reply. A run = two or more neighbouring records of one
// section with the same type and the same owner NAME (RFC 4343: letters compare without case); its
// spelling is mixed when the owner TEXTS handed to the library differ. kept = number of records (OPT
// aside) each section retained.
func runClasses(m wm.Msg, orig *dns.Msg, kept [3]int) []string {
	var run, mixed, addrMixed, cutIn, cutInMixed, long bool
	for si, sec := range [][]wm.Rec{m.An, m.Ns, m.Ex} {
		libsec := [][]dns.RR{orig.Answer, orig.Ns, orig.Extra}[si]
		if len(libsec) != len(sec) {
			continue
		}
		pos := 0 // index among the non-OPT records
		start := -1
		runLen := 0
		runMixed := false
		for i := range sec {
			if sec[i].Type == wm.TOPT {
				continue
			}
			same := start >= 0 && sec[i].Type == sec[start].Type && sec[i].Name.Lower().Equal(sec[start].Name.Lower())
			if same {
				runLen++
				run = true
				if runLen >= 20 {
					long = true
				}
				if libsec[i].Header().Name != libsec[start].Header().Name {
					runMixed = true
				}
				if runMixed {
					mixed = true
					if sec[i].Type == wm.TA || sec[i].Type == wm.TAAAA {
						addrMixed = true
					}
				}
				if pos == kept[si] && kept[si] < countNonOpt(sec) {
					cutIn = true // the first dropped record continues a run
					if runMixed {
						cutInMixed = true
					}
				}
			} else {
				start, runLen, runMixed = i, 1, false
			}
			pos++
		}
	}
	var out []string
	if run {
		out = append(out, "rrset-run")
	}
	if long {
		out = append(out, "rrset-run>=20")
	}
	if mixed {
		out = append(out, "rrset-run-mixed-spelling")
	}
	if addrMixed {
		out = append(out, "address-rrset-mixed-spelling")
	}
	if cutIn {
		out = append(out, "cut-inside-rrset")
	}
	if cutInMixed {
		out = append(out, "cut-inside-mixed-spelling-rrset")
	}
	return out
}

func countNonOpt(sec []wm.Rec) int {
	n := 0
	for _, r := range sec {
		if r.Type != wm.TOPT {
			n++
		}
	}
	return n
}

// boundary sizes: the compressed packed length of every record prefix (OPT kept), +-1
func pickSize(t *rapid.T, m wm.Msg) int { return pickSizeSpelled(t, m, 0) }

// pickSizeSpelled: the boundaries are those of the reply as it is written under the spelling seed
// (Spelling is a pure function of the seed and the order of the names, which is that of checkTrunc).
func pickSizeSpelled(t *rapid.T, m wm.Msg, spell uint64) int {
	switch rapid.IntRange(0, 7).Draw(t, "sizek") {
	case 0, 1:
		return rapid.IntRange(0, 65535).Draw(t, "size")
	case 2:
		// the sizes callers actually pass, and the ends of the range
		return rapid.SampledFrom([]int{0, 511, 512, 513, 1232, 1452, 4096, 16383, 16384, 16385, 32767, 65534, 65535, 65535, 65536, 1 << 20}).Draw(t, "wellknownsize")
	}
	restore := wm.Spelling(spell)
	lib, err := wm.MsgToLib(m, true)
	restore()
	if err != nil {
		return 512
	}
	an, _ := splitOpt(lib.Answer)
	ns, _ := splitOpt(lib.Ns)
	ex, _ := splitOpt(lib.Extra)
	opt := lib.IsEdns0()
	total := len(an) + len(ns) + len(ex)
	var lens []int
	step := 1
	if total > 120 {
		step = total / 40 // very long replies: a selection of prefixes
	}
	// The packed length of every prefix in ONE packing: a compression pointer only points backwards,
	// so the reply with the first k records (and the OPT, whose root owner and option data never
	// compress, behind them) packs to the offset at which record k ends in the packing of all of them
	// plus the length of the OPT. (Round 9; packing each prefix on its own, from a deep copy of the
	// whole reply, was half of the cost of the quick tier.)
	x := *lib
	x.Answer, x.Ns = an, ns
	x.Extra = append([]dns.RR{}, ex...)
	if opt != nil {
		x.Extra = append(x.Extra, opt)
	}
	p, err := x.Pack()
	if err != nil {
		return 512
	}
	ends, ok := recordEnds(p, len(x.Question), total)
	if !ok {
		return 512
	}
	optLen := len(p) - ends[total]
	for k := 0; k <= total; k += step {
		if step > 1 && k+step > total {
			k = total
		}
		lens = append(lens, ends[k]+optLen)
	}
	// prefer boundaries that lie above the 512-octet floor
	var high []int
	for _, l := range lens {
		if l >= 510 {
			high = append(high, l)
		}
	}
	pick := lens
	if len(high) > 0 && rapid.IntRange(0, 4).Draw(t, "high") != 0 {
		pick = high
	}
	s := pick[rapid.IntRange(0, len(pick)-1).Draw(t, "prefix")] + rapid.IntRange(-2, 2).Draw(t, "delta")
	if s < 0 {
		s = 0
	}
	return s
}

// recordEnds walks a packed message (RFC 1035 4.1): ends[k] = offset behind the k-th record after the
// question section (ends[0] = end of the question section), for k = 0..n.
func recordEnds(p []byte, nq, n int) ([]int, bool) {
	skipName := func(off int) int {
		for off < len(p) {
			c := int(p[off])
			switch {
			case c == 0:
				return off + 1
			case c&0xC0 == 0xC0:
				return off + 2
			case c&0xC0 != 0:
				return -1
			}
			off += 1 + c
		}
		return -1
	}
	off := 12
	for i := 0; i < nq; i++ {
		if off = skipName(off); off < 0 || off+4 > len(p) {
			return nil, false
		}
		off += 4
	}
	ends := []int{off}
	for i := 0; i < n; i++ {
		if off = skipName(off); off < 0 || off+10 > len(p) {
			return nil, false
		}
		off += 10 + int(p[off+8])<<8 + int(p[off+9])
		if off > len(p) {
			return nil, false
		}
		ends = append(ends, off)
	}
	return ends, true
}

// extRcode gives a quarter of the replies that carry an OPT an extended RCODE (RFC 6891 6.1.3: the
// upper 8 bits live in the OPT record, so such a reply cannot be packed once the OPT is lost).
func extRcode(t *rapid.T, m *wm.Msg) {
	if m.Opt() >= 0 && rapid.IntRange(0, 3).Draw(t, "extrc") == 3 {
		m.Rcode = rapid.SampledFrom([]int{16, 23, 22, 256, 4095, 17}).Draw(t, "extrcode")
	}
}

func genPlain(t *rapid.T) truncCase {
	max := 14
	if pbt.Thorough() {
		max = 40
	}
	m := gen.PlainMsg(t, max, true)
	switch rapid.IntRange(0, 7).Draw(t, "special") {
	case 0:
		// the smallest possible records (root owner, no RDATA: 11 octets) at the start of sections,
		// so that "exactly this much room is left" meets "exactly this small a record"
		tiny := wm.Rec{Name: wm.Name{}, Type: wm.TTXT, Class: 1, TTL: 0, Fields: []wm.Field{{K: wm.Strs}}}
		for _, sec := range m.Sections() {
			if rapid.Bool().Draw(t, "tinyfirst") {
				*sec = append([]wm.Rec{tiny}, *sec...)
			}
		}
	case 1, 2:
		// a reply beyond 16 KiB: names first written around offset 16384 and repeated later, sizes
		// above the pointer limit
		pre := 12
		for _, q := range m.Q {
			pre += q.Name.WireLen() + 4
		}
		k := rapid.IntRange(-30, 60).Draw(t, "k")
		m.An = append([]wm.Rec{gen.PlainFiller(16384 - pre - 16 - k)}, m.An...)
		// make sure names repeat behind the boundary
		var reuse []wm.Rec
		for _, r := range m.An[1:] {
			reuse = append(reuse, wm.Rec{Name: r.Name.Clone(), Type: wm.TNS, Class: 1, TTL: 1, Fields: []wm.Field{{K: wm.NameC, N: r.Name.Clone()}}})
		}
		m.Ns = append(reuse, m.Ns...)
		m.Ns = append(m.Ns, reuse...)
	case 5:
		if gen.Rarely(t, 2) {
			// a reply that does not fit 65535 octets even compressed (Pack has no size limit)
			owner := gen.Name(t, gen.NameOpts{Plain: true, MaxLabs: 3, MaxLabel: 10})
			n := rapid.IntRange(4200, 5200).Draw(t, "hugecount")
			big := make([]wm.Rec, n)
			for i := range big {
				big[i] = wm.Rec{Name: owner, Type: wm.TA, Class: 1, TTL: 60, Fields: []wm.Field{{K: wm.IPv4, B: []byte{10, byte(i >> 16), byte(i >> 8), byte(i)}}}}
			}
			switch rapid.IntRange(0, 2).Draw(t, "hugesec") {
			case 0:
				m.An = append(m.An, big...)
			case 1:
				m.Ns = append(m.Ns, big...)
			default:
				m.Ex = append(m.Ex, big...)
			}
		}
	case 3, 4:
		// a sparse reply: one question with a long name, records in ONE section only (1..4 of them,
		// a few hundred octets each, owned by the question name or a child of it), mostly no OPT –
		// the shapes in which compression alone decides whether the last kept record fits and in
		// which every "is there anything to compress" shortcut of the packer is at its edge
		q := gen.NameOfWireLen(t, rapid.IntRange(60, 250).Draw(t, "qlen"), gen.NameOpts{Plain: true})
		m.Q = []wm.Question{{Name: q, Type: wm.TTXT, Class: 1}}
		for i, nq := 0, rapid.IntRange(0, 2).Draw(t, "moreq"); i < nq; i++ {
			// further questions under the same long name: the question section itself compresses
			qn := append(wm.Name{[]byte{"abc"[i]}}, q...)
			if !qn.Valid() {
				qn = q.Clone()
			}
			m.Q = append(m.Q, wm.Question{Name: qn.Clone(), Type: wm.TA, Class: 1})
		}
		var recs []wm.Rec
		for i, n := 0, rapid.IntRange(0, 4).Draw(t, "nsparse"); i < n; i++ {
			r := gen.PlainFiller(rapid.IntRange(2, 420).Draw(t, "fill"))
			r.Name = q.Clone()
			if len(q) > 1 && rapid.IntRange(0, 3).Draw(t, "parent") == 0 {
				r.Name = wm.Name(q[1:]).Clone()
			}
			recs = append(recs, r)
		}
		var opt []wm.Rec
		if i := m.Opt(); i >= 0 && rapid.IntRange(0, 2).Draw(t, "keepopt") == 0 {
			opt = []wm.Rec{m.Ex[i]}
		}
		m.An, m.Ns, m.Ex = nil, nil, nil
		switch rapid.IntRange(0, 2).Draw(t, "onlysec") {
		case 0:
			m.An = recs
		case 1:
			m.Ns = recs
		default:
			m.Ex = recs
		}
		if opt != nil {
			pos := rapid.IntRange(0, len(m.Ex)).Draw(t, "sparseoptpos")
			m.Ex = append(m.Ex[:pos:pos], append(opt, m.Ex[pos:]...)...)
		}
	}
	extRcode(t, &m)
	return truncCase{M: m, Size: pickSize(t, m), Plain: true, TC: rapid.IntRange(0, 4).Draw(t, "tc") == 0, Comp: rapid.IntRange(0, 3).Draw(t, "comp") == 0}
}

func genAny(t *rapid.T) truncCase {
	mo := &gen.MsgOpts{Share: true, MaxQ: 2, MaxRecs: 10}
	var types []uint16
	for _, x := range gen.AllTypes {
		if x != wm.TTSIG {
			types = append(types, x)
		}
	}
	mo.Types = types
	m := gen.Msg(t, mo)
	if rapid.IntRange(0, 9).Draw(t, "filler16k") == 0 {
		// names with escapes first written around offset 16384 and used again later: the walk's
		// length prediction and the packer must agree on which of them can be pointed at
		pre := 12
		for _, q := range m.Q {
			pre += q.Name.WireLen() + 4
		}
		k := rapid.IntRange(-30, 60).Draw(t, "k16")
		m.An = append([]wm.Rec{gen.PlainFiller(16384 - pre - 16 - k)}, m.An...)
		var reuse []wm.Rec
		for _, r := range m.An[1:] {
			reuse = append(reuse, wm.Rec{Name: r.Name.Clone(), Type: wm.TNS, Class: 1, TTL: 1, Fields: []wm.Field{{K: wm.NameC, N: r.Name.Clone()}}})
		}
		if len(reuse) == 0 {
			n := gen.Name(t, gen.NameOpts{MaxLabs: 4, MaxLabel: 6})
			reuse = append(reuse, wm.Rec{Name: n, Type: wm.TNS, Class: 1, TTL: 1, Fields: []wm.Field{{K: wm.NameC, N: n.Clone()}}})
		}
		m.Ns = append(reuse, m.Ns...)
		m.Ns = append(m.Ns, reuse...)
		m.Ex = append(m.Ex, reuse...)
	}
	if rapid.IntRange(0, 7).Draw(t, "sig0") == 0 {
		// a transaction signature that is NOT a TSIG: the SIG(0) record of RFC 2931 (root owner,
		// class ANY, type covered 0) closes the additional section; Truncate's exemption is for TSIG only
		sig := gen.RecOfType(t, wm.TSIG, &gen.Opts{Plain: true})
		sig.Name, sig.Class, sig.TTL = wm.Name{}, 255, 0
		if len(sig.Fields) > 0 {
			sig.Fields[0].U = 0
		}
		m.Ex = append(m.Ex, sig)
	}
	extRcode(t, &m)
	// round 9: in a third of the replies the names are written with other (legal) escapes
	var spell uint64
	if rapid.IntRange(0, 2).Draw(t, "respell") == 0 {
		spell = drawSpell(t)
	}
	return truncCase{M: m, Size: pickSizeSpelled(t, m, spell), TC: rapid.IntRange(0, 4).Draw(t, "tc") == 0, Comp: rapid.IntRange(0, 3).Draw(t, "comp") == 0, FitsAll: fitsAllSpelled(m, spell), Spell: spell}
}

func init() {
	pbt.Register(pbt.Sub[truncCase]{Name: "truncate-plain", Weight: 10, Gen: genPlain, Check: checkTrunc})
	pbt.Register(pbt.Sub[truncCase]{Name: "truncate-any", Weight: 6, Gen: genAny, Check: checkTrunc})
}
