package c09

import (
	"sort"

	"pgregory.net/rapid"

	"verif/harness/gen"
	"verif/harness/pbt"
	wm "verif/harness/wiremodel"
)

// Round 8: "a message that already fits keeps all its records" is stated for ALL replies (only the
// maximality clause is restricted to escape-free messages of the common types). Truncate judges
// "fits" by the library's length estimate, so every record whose estimate is larger than what Pack
// writes makes a reply that fits lose records. The classes of such records found on the unchanged
// tree are listed here (one known finding each, decided structurally on the model); a reply that
// contains none of the live ones gets the clause asserted (truncCase.FitsAll).

const (
	kNsec3   = "fits-nsec3-hash-len"     // NSEC3.len counts the base32 text of the next hashed owner, plus 2
	kBase64  = "fits-base64-padding"     // base64 fields: DecodedLen counts the '=' padding as data
	kBitmap  = "fits-empty-bitmap"       // NSEC/NSEC3/CSYNC/NXT without any type: 2 octets for a window that is not written
	kEscText = "fits-escaped-text"       // character-string / octet text fields: the escape sequences are counted as written
	kAPL     = "fits-apl-trailing-zeros" // APL: (prefix+7)/8 address octets counted, trailing zero octets are not written
	kGateway = "fits-gateway-host"       // IPSECKEY/AMTRELAY gateway name: len(text)+1 ("." counts 2, escapes as written)
	// round 9: the length walk decides "can this label still be pointed at" (offset < 16384) with the
	// offset in the escaped TEXT of the name, the packer with the offset in the message
	kEsc16k = "fits-escaped-name-16k"
)

var overIDs = []string{kNsec3, kBase64, kBitmap, kEscText, kAPL, kGateway, kEsc16k}

func needsTxtEscape(b []byte) bool {
	for _, c := range b {
		if c == '"' || c == '\\' || c < ' ' || c > '~' {
			return true
		}
	}
	return false
}

func nameNeedsEscape(n wm.Name) bool {
	return wm.EscName(n) != string(joinLabels(n))
}

func joinLabels(n wm.Name) []byte {
	if len(n) == 0 {
		return []byte(".")
	}
	var out []byte
	for _, l := range n {
		out = append(out, l...)
		out = append(out, '.')
	}
	return out
}

// recOverClasses: the over-estimate classes one record falls into (by the layout table).
func recOverClasses(r wm.Rec, add func(string)) {
	if r.NoRdata || r.Type == wm.TOPT {
		return
	}
	layout, known := wm.LayoutOf(r.Type)
	if !known || len(r.Fields) != len(layout) {
		return
	}
	if r.Type == wm.TNSEC3 {
		add(kNsec3)
	}
	for i, spec := range layout {
		f := r.Fields[i]
		switch spec.K {
		case wm.Str:
			if needsTxtEscape(f.B) {
				add(kEscText)
			}
		case wm.Strs:
			for _, s := range f.L {
				if needsTxtEscape(s) {
					add(kEscText)
				}
			}
		case wm.Rest, wm.L8, wm.L16:
			switch spec.R {
			case wm.ReprB64:
				if len(f.B)%3 != 0 {
					add(kBase64)
				}
			case wm.ReprOctet, wm.ReprTxt:
				if needsTxtEscape(f.B) {
					add(kEscText)
				}
			}
		case wm.HIPHdr:
			if len(f.B2)%3 != 0 {
				add(kBase64)
			}
		case wm.Bitmap:
			if len(f.T) == 0 {
				add(kBitmap)
			}
		case wm.APLs:
			for _, it := range f.APL {
				if len(it.Afd) < (int(it.Prefix)+7)/8 {
					add(kAPL)
				}
			}
		case wm.GW:
			if f.U == 3 {
				add(kGateway)
			}
		}
	}
}

func overClasses(m wm.Msg) []string {
	set := map[string]bool{}
	for _, r := range m.AllRecs() {
		recOverClasses(r, func(c string) { set[c] = true })
	}
	var out []string
	for c := range set {
		out = append(out, c)
	}
	sort.Strings(out)
	return out
}

// fitsAll decides in the generator whether the "fits => keeps all" clause is asserted for a reply
// outside the plain sub-domain: yes unless it contains a record of a known class whose probe still
// reproduces (each such reply is counted with pbt.Excluded).
func fitsAll(m wm.Msg) bool { return fitsAllSpelled(m, 0) }

// fitsAllSpelled: the same for a reply whose names are written under the spelling seed spell.
func fitsAllSpelled(m wm.Msg, spell uint64) bool {
	ok := true
	for _, c := range overClasses(m) {
		if pbt.Known(c) {
			pbt.Excluded(c)
			ok = false
		}
	}
	if escapedNameNear16k(m, spell) && pbt.Known(kEsc16k) {
		pbt.Excluded(kEsc16k)
		ok = false
	}
	return ok
}

// escapedNameNear16k: the class of kEsc16k, decided on the model - a name whose text carries an
// escape can begin within 1020 octets (255 octets written as \DDD) below message offset 16384 only if
// the reply is longer than 16384-1020 octets; under a spelling seed any name may carry escapes.
func escapedNameNear16k(m wm.Msg, spell uint64) bool {
	w, err := wm.Encode(m)
	if err != nil || len(w) <= 16384-1020 {
		return false
	}
	if spell != 0 {
		return true
	}
	for _, q := range m.Q {
		if nameNeedsEscape(q.Name) {
			return true
		}
	}
	for _, r := range m.AllRecs() {
		if nameNeedsEscape(r.Name) {
			return true
		}
		for _, f := range r.Fields {
			if len(f.N) > 0 && nameNeedsEscape(f.N) {
				return true
			}
			for _, n := range f.NL {
				if nameNeedsEscape(n) {
					return true
				}
			}
		}
	}
	return false
}

// Types whose length estimate is exact as long as the content is escape-free, outside the common
// types: fixed-width, name, hex and bitmap fields (DS, TLSA, SSHFP, NSEC with types, SVCB, LOC ...).
var dnssecTypes = []uint16{wm.TRRSIG, wm.TRRSIG, wm.TNSEC3, wm.TNSEC3, wm.TNSEC, wm.TDNSKEY, wm.TDS, wm.TNSEC3PARAM, wm.TCDS,
	wm.TCDNSKEY, wm.TCSYNC, wm.TTLSA, wm.TSSHFP, wm.TSOA, wm.TA, wm.TAAAA, wm.TNS, wm.TMX, wm.TTXT, wm.TCNAME, wm.TSVCB, wm.THTTPS}

func allButTsig() []uint16 {
	var types []uint16
	for _, x := range gen.AllTypes {
		if x != wm.TTSIG {
			types = append(types, x)
		}
	}
	return types
}

// genFits: the class "replies that just fit" - any types (DNSSEC-shaped negative and positive
// replies, all types escape-free, all types with escapes), and a size equal to the packed length of
// the WHOLE reply (compressed, or uncompressed) plus 0..3 (mostly), up to +40, or just below it.
func genFits(t *rapid.T) truncCase {
	var m wm.Msg
	max := 12
	if pbt.Thorough() {
		max = 30
	}
	switch rapid.IntRange(0, 5).Draw(t, "fshape") {
	case 0, 1:
		m = gen.PlainMsgOf(t, max, true, dnssecTypes)
	case 2, 3:
		m = gen.PlainMsgOf(t, max, true, allButTsig())
	case 4:
		mo := &gen.MsgOpts{Share: true, MaxQ: 2, MaxRecs: max}
		mo.Types = allButTsig()
		m = gen.Msg(t, mo)
	default:
		// a negative DNSSEC reply: SOA + RRSIG, k x (NSEC3 | NSEC) + RRSIG in the authority section
		o := &gen.Opts{Plain: true, NameGen: gen.SharedNames(gen.NameOpts{Plain: true, MaxLabs: 4, MaxLabel: 10})}
		m = gen.PlainMsgOf(t, 1, true, []uint16{wm.TA})
		m.An = nil
		den := rapid.SampledFrom([]uint16{wm.TNSEC3, wm.TNSEC3, wm.TNSEC}).Draw(t, "denial")
		m.Ns = []wm.Rec{gen.RecOfType(t, wm.TSOA, o), gen.RecOfType(t, wm.TRRSIG, o)}
		for i, k := 0, rapid.IntRange(1, 8).Draw(t, "ndenial"); i < k; i++ {
			m.Ns = append(m.Ns, gen.RecOfType(t, den, o), gen.RecOfType(t, wm.TRRSIG, o))
		}
	}
	extRcode(t, &m)
	c := truncCase{M: m, TC: rapid.IntRange(0, 4).Draw(t, "tc") == 0, Comp: rapid.IntRange(0, 3).Draw(t, "comp") == 0, FitsAll: fitsAll(m)}
	c.Size = 512
	lib, err := wm.MsgToLib(m, true)
	if err != nil {
		return c
	}
	full, err := lib.Pack()
	if err != nil {
		return c
	}
	n := len(full)
	if rapid.IntRange(0, 3).Draw(t, "funcomp") == 0 {
		lib.Compress = false
		if u, err := lib.Pack(); err == nil {
			n = len(u)
		}
	}
	d := 0
	switch rapid.IntRange(0, 7).Draw(t, "fdk") {
	case 0, 1, 2:
	case 3, 4:
		d = rapid.IntRange(1, 3).Draw(t, "fd3")
	case 5:
		d = rapid.IntRange(4, 40).Draw(t, "fd40")
	case 6:
		d = rapid.IntRange(-3, -1).Draw(t, "fdneg")
	default:
		if n <= 512 {
			d = rapid.SampledFrom([]int{512 - n, -n}).Draw(t, "ffloor") // the floor: 512 and 0
		}
	}
	c.Size = n + d
	if c.Size < 0 {
		c.Size = 0
	}
	return c
}

// ---- deterministic reproductions -------------------------------------------------------------

func exampleOrg(first string) wm.Name {
	return wm.Name{[]byte(first), []byte("example"), []byte("org")}
}

// probeFits: question nx.example.org. A; n records in the given section made by mk(i); the size is
// the exact compressed packed length of the whole reply (it fits without a single octet to spare).
func probeFits(n int, sec int, mk func(i int) wm.Rec) func() error {
	return func() error {
		c, err := probeCase(n, sec, mk)
		if err != nil {
			return nil
		}
		return checkTrunc(c)
	}
}

func probeCase(n int, sec int, mk func(i int) wm.Rec) (truncCase, error) {
	m := wm.Msg{ID: 1, Flags: wm.FlagQR | wm.FlagAA, Q: []wm.Question{{Name: exampleOrg("nx"), Type: wm.TA, Class: 1}}}
	for i := 0; i < n; i++ {
		*m.Sections()[sec] = append(*m.Sections()[sec], mk(i))
	}
	lib, err := wm.MsgToLib(m, true)
	if err != nil {
		return truncCase{}, err
	}
	p, err := lib.Pack()
	if err != nil {
		return truncCase{}, err
	}
	return truncCase{M: m, Size: len(p), FitsAll: true}, nil
}

func two(i int) string { return string([]byte{'0' + byte(i/10), '0' + byte(i%10)}) }

var probeDefs = []struct {
	id  string
	n   int
	sec int
	mk  func(i int) wm.Rec
}{
	// NN ptu5...example.org. 3600 IN NSEC3 1 1 12 aabbccdd <20-octet hash> A RRSIG
	{kNsec3, 12, 1, func(i int) wm.Rec {
		h := make([]byte, 20)
		for j := range h {
			h[j] = byte(7*j + 3)
		}
		return wm.Rec{Name: exampleOrg(two(i) + "ptu5timamqttgl4luu9kg21e0aor3s"), Type: wm.TNSEC3, Class: 1, TTL: 3600, Fields: []wm.Field{
			{K: wm.U8, U: 1}, {K: wm.U8, U: 1}, {K: wm.U16, U: 12}, {K: wm.L8, B: []byte{0xaa, 0xbb, 0xcc, 0xdd}}, {K: wm.L8, B: h},
			{K: wm.Bitmap, T: []uint16{1, 46}}}}
	}},
	// example.org. 3600 IN RRSIG A 13 2 3600 <exp> <inc> 12345 example.org. <64 octets: 86 characters and "==">
	{kBase64, 8, 0, func(i int) wm.Rec {
		return wm.Rec{Name: wm.MustName("example.org."), Type: wm.TRRSIG, Class: 1, TTL: 3600, Fields: []wm.Field{
			{K: wm.U16, U: 1}, {K: wm.U8, U: 13}, {K: wm.U8, U: 2}, {K: wm.U32, U: 3600}, {K: wm.U32, U: 1700000000 + uint64(i)}, {K: wm.U32, U: 1690000000},
			{K: wm.U16, U: 12345}, {K: wm.NameU, N: wm.MustName("example.org.")}, {K: wm.Rest, B: make([]byte, 64)}}}
	}},
	// NN.example.org. 3600 IN NSEC next.example.org. (no types)
	{kBitmap, 24, 1, func(i int) wm.Rec {
		return wm.Rec{Name: exampleOrg(two(i)), Type: wm.TNSEC, Class: 1, TTL: 3600, Fields: []wm.Field{
			{K: wm.NameU, N: exampleOrg("next")}, {K: wm.Bitmap}}}
	}},
	// example.org. 3600 IN TXT "say \"hello\" NN ........"
	{kEscText, 12, 0, func(i int) wm.Rec {
		return wm.Rec{Name: wm.MustName("example.org."), Type: wm.TTXT, Class: 1, TTL: 3600, Fields: []wm.Field{
			{K: wm.Strs, L: [][]byte{[]byte("say \"hello\" " + two(i) + " and some more text to fill the record")}}}}
	}},
	// NN.example.org. 3600 IN APL 1:10.0.0.0/24 2:2001:db8::/64
	{kAPL, 20, 0, func(i int) wm.Rec {
		return wm.Rec{Name: exampleOrg(two(i)), Type: wm.TAPL, Class: 1, TTL: 3600, Fields: []wm.Field{
			{K: wm.APLs, APL: []wm.APLItem{{Family: 1, Prefix: 24, Afd: []byte{10}}, {Family: 2, Prefix: 64, Afd: []byte{0x20, 0x01, 0x0d, 0xb8}}}}}}
	}},
	// NN.example.org. 3600 IN AMTRELAY 10 0 3 .
	{kGateway, 40, 0, func(i int) wm.Rec {
		return wm.Rec{Name: exampleOrg(two(i)), Type: wm.TAMTRELAY, Class: 1, TTL: 3600, Fields: []wm.Field{
			{K: wm.U8, U: 10}, {K: wm.U8, U: 3}, {K: wm.GW, U: 3, N: wm.Name{}}}}
	}},
	// fill. TXT <16292 octets>; then at offset 16340 the owner \000 x20 .other.test. (its label "other"
	// sits at message offset 16361, at offset 81 of the text), then 8 x other.test. A
	{kEsc16k, 10, 0, func(i int) wm.Rec {
		switch i {
		case 0:
			return gen.PlainFiller(16340 - 12 - 20 - 16)
		case 1:
			return wm.Rec{Name: wm.Name{make([]byte, 20), []byte("other"), []byte("test")}, Type: wm.TA, Class: 1, TTL: 60, Fields: []wm.Field{{K: wm.IPv4, B: []byte{192, 0, 2, 1}}}}
		}
		return wm.Rec{Name: wm.MustName("other.test."), Type: wm.TA, Class: 1, TTL: 60, Fields: []wm.Field{{K: wm.IPv4, B: []byte{192, 0, 2, byte(i)}}}}
	}},
}

func init() {
	pbt.Register(pbt.Sub[truncCase]{Name: "truncate-just-fits", Weight: 4, Gen: genFits, Check: checkTrunc})
	for _, d := range probeDefs {
		pbt.Probe(d.id, probeFits(d.n, d.sec, d.mk))
	}
}
