package c03

import (
	"bytes"
	"fmt"
	"strings"

	"github.com/miekg/dns"
	"pgregory.net/rapid"

	"verif/harness/gen"
	"verif/harness/pbt"
	wm "verif/harness/wiremodel"
)

// ---------------------------------------------------------------------------------------------
// (8) Printing a name that came in ANY legal spelling (round 10).
//
// "Text and wire forms correspond ... the escaping is unambiguous for all 256 octet values in
// every position": a name is the same name however it is spelled, so the text that the printing
// path (sprintName: Name.String, the String method of every record, of the header and of a
// question) writes for a valid fully qualified text s must denote the labels that s denotes. Up to
// round 9 only two spellings went into the printing paths: the one UnpackDomainName produces and
// "every octet raw". The text side (text-validity, the small-text enumerations) was never printed,
// and the generated spellings never put a backslash in front of a digit (`\1` is a legal spelling
// of the octet '1' as long as it is not followed by two more digits), so a printer that rewrites
// one part of a text and copies another part verbatim - and thereby lets a kept `\1` run into
// digits that it now writes bare - went through.

// specialChar: the characters that mean something in a master file and therefore carry a backslash
// in a printed name.
func specialChar(b byte) bool { return strings.IndexByte(`.'@;()"\ `, b) >= 0 }

func isDig(b byte) bool { return b >= '0' && b <= '9' }

// wellEscaped: txt consists of printable ASCII, and every special character in it (other than the
// dots between labels) is the second character of a \c escape.
func wellEscaped(txt string) error {
	for i := 0; i < len(txt); {
		c := txt[i]
		switch {
		case c < 0x20 || c > 0x7e:
			return fmt.Errorf("the octet 0x%02x at text position %d is not printable", c, i)
		case c == '\\':
			if i+1 >= len(txt) {
				return fmt.Errorf("a backslash at the end")
			}
			if i+3 < len(txt) && isDig(txt[i+1]) && isDig(txt[i+2]) && isDig(txt[i+3]) {
				i += 4
				continue
			}
			if txt[i+1] < 0x20 || txt[i+1] > 0x7e {
				return fmt.Errorf("the octet 0x%02x at text position %d is not printable", txt[i+1], i+1)
			}
			i += 2
			continue
		case c != '.' && specialChar(c):
			return fmt.Errorf("the character %q at text position %d has no backslash in front of it", c, i)
		}
		i++
	}
	return nil
}

// printingPaths: the text that each path writes for the name s (the name field cut out of the line).
func printingPaths(s string) [][2]string {
	hdr := func(name string, typ uint16) dns.RR_Header {
		return dns.RR_Header{Name: name, Rrtype: typ, Class: 1, Ttl: 3600}
	}
	first := func(line string) string { return strings.SplitN(line, "\t", 2)[0] }
	last := func(line string) string { return line[strings.LastIndexByte(line, '\t')+1:] }
	behindSpace := func(f string) string { return f[strings.IndexByte(f, ' ')+1:] }
	h := hdr(s, dns.TypeA)
	return [][2]string{
		{"Name.String()", dns.Name(s).String()},
		{"RR_Header.String()", first(h.String())},
		{"Question.String()", strings.TrimPrefix(first((&dns.Question{Name: s, Qtype: 1, Qclass: 1}).String()), ";")},
		{"the owner in NS.String()", first((&dns.NS{Hdr: hdr(s, dns.TypeNS), Ns: "."}).String())},
		{"the target in NS.String()", last((&dns.NS{Hdr: hdr("x.", dns.TypeNS), Ns: s}).String())},
		{"the exchange in MX.String()", behindSpace(last((&dns.MX{Hdr: hdr("x.", dns.TypeMX), Preference: 10, Mx: s}).String()))},
	}
}

// checkPrinted: s is a valid fully qualified text that denotes the labels n (by the harness's
// unescaper); whatever a printing path writes for it is printable, has its special characters
// escaped, denotes n again, and is read by the library itself (IsDomainName, PackDomainName) as n.
func checkPrinted(s string, n wm.Name) error {
	w := wm.EncodeName(n)
	for _, p := range printingPaths(s) {
		how, txt := p[0], p[1]
		if err := wellEscaped(txt); err != nil {
			return pbt.Errf("%s of %q is %q: %v", how, short(s), short(txt), err)
		}
		pn, pfq, perr := wm.UnescName(txt)
		if perr != nil || !pfq || !pn.Equal(n) {
			return pbt.Errf("%s of %q is %q, which denotes the labels %q (fully qualified: %v, err=%v); the name it was given has the labels %q (wire %x)", how, short(s), short(txt), short(labelsText(pn)), pfq, perr, short(labelsText(n)), w)
		}
		if how != "Name.String()" {
			continue // every path is the same function; the library's own reading once is enough
		}
		if _, ok := dns.IsDomainName(txt); !ok {
			return pbt.Errf("%s of %q is %q, which IsDomainName rejects", how, short(s), short(txt))
		}
		buf := make([]byte, len(w)+1)
		off, err := dns.PackDomainName(txt, buf, 0, nil, false)
		if err != nil || off != len(w) || !bytes.Equal(buf[:len(w)], w) {
			return pbt.Errf("%s of %q is %q, which PackDomainName packs to %x (offset %d, err=%v); the name it was given is %x", how, short(s), short(txt), buf[:min(max(off, 0), len(buf))], off, err, w)
		}
	}
	return nil
}

func labelsText(n wm.Name) string {
	if n == nil {
		return "(none)"
	}
	return wm.EscName(n)
}

// spellClasses names the spelling features of a text that matter to a printer which looks at
// escapes: a backslash in front of a digit that is not a \DDD escape (`\1`, `\12x`), a \DDD escape
// of a printable octet, and the two next to each other (a `\d` escape, at most one plain digit,
// then the \DDD escape of a digit: kept verbatim and written bare respectively, they would fuse).
func spellClasses(s string) []string {
	escDigit, dddPrintable, adjacent := false, false, false
	open := 0 // digits written since a `\d` escape with nothing else in between (0: no such escape is open)
	for i := 0; i < len(s); {
		c := s[i]
		switch {
		case c == '\\' && i+3 < len(s) && isDig(s[i+1]) && isDig(s[i+2]) && isDig(s[i+3]):
			v := int(s[i+1]-'0')*100 + int(s[i+2]-'0')*10 + int(s[i+3]-'0')
			if v >= 0x21 && v <= 0x7e {
				dddPrintable = true
				if isDig(byte(v)) && open > 0 {
					adjacent = true
				}
			}
			open = 0
			i += 4
		case c == '\\' && i+1 < len(s):
			if isDig(s[i+1]) {
				escDigit = true
				open = 1
			} else {
				open = 0
			}
			i += 2
		default:
			if isDig(c) && open > 0 {
				open++
			} else {
				open = 0
			}
			i++
		}
	}
	var out []string
	if escDigit {
		out = append(out, "spelling:backslash-digit")
	}
	if dddPrintable {
		out = append(out, "spelling:ddd-of-a-printable-octet")
	}
	if adjacent {
		out = append(out, "spelling:backslash-digit-then-ddd-of-a-digit")
	}
	return out
}

// ---------------------------------------------------------------------------------------------
// generator: every legal spelling of a label, `\d` included

// speller writes the octets of a name one by one and knows when a plain digit may not follow: a
// backslash, a digit and two more digits are a \DDD escape, so behind `\d` at most ONE digit can be
// written plainly - the next one has to be escaped itself.
type speller struct {
	sb   strings.Builder
	open int // 1: the text ends in `\d`, 2: in `\dd` (an escaped digit and one plain digit)
	raw  bool
}

func (sp *speller) octet(t *rapid.T, b byte) {
	unprintable := b < 0x21 || b > 0x7e
	digit := isDig(b)
	k := rapid.IntRange(0, 7).Draw(t, "fk")
	if digit {
		// digits are what the escapes are made of: spell them all three ways about equally often
		k = rapid.IntRange(0, 2).Draw(t, "fdk")
	}
	switch {
	case b >= 0x80 && sp.raw && k >= 2:
		sp.sb.WriteByte(b)
		sp.open = 0
	case unprintable || k == 0 || digit && k == 2 && sp.open == 2:
		fmt.Fprintf(&sp.sb, "\\%03d", b)
		sp.open = 0
	case specialChar(b) || k == 1:
		sp.sb.WriteByte('\\')
		sp.sb.WriteByte(b)
		sp.open = 0
		if digit {
			sp.open = 1
		}
	default:
		sp.sb.WriteByte(b)
		if digit && sp.open > 0 {
			sp.open++
		} else {
			sp.open = 0
		}
	}
}

func (sp *speller) dot() {
	sp.sb.WriteByte('.')
	sp.open = 0
}

// spellForeign: a fully qualified text for n in which every octet is written raw, as \c or as
// \DDD by a generated choice (raw: octets >= 0x80 may stay as they are).
func spellForeign(t *rapid.T, n wm.Name, raw bool) string {
	if len(n) == 0 {
		return "."
	}
	sp := &speller{raw: raw}
	for _, l := range n {
		for _, b := range l {
			sp.octet(t, b)
		}
		sp.dot()
	}
	return sp.sb.String()
}

// genDigitName: 1..4 short labels, mostly digits, some letters, now and then any octet (so that
// the name has, or has not, a character that needs escaping in front of the digits).
func genDigitName(t *rapid.T) wm.Name {
	var n wm.Name
	nl := rapid.IntRange(1, 4).Draw(t, "dlabels")
	clean := rapid.Bool().Draw(t, "dclean")
	for i := 0; i < nl; i++ {
		ll := rapid.IntRange(1, 8).Draw(t, "dlen")
		l := make([]byte, ll)
		for j := range l {
			switch k := rapid.IntRange(0, 9).Draw(t, "dk"); {
			case k < 7:
				l[j] = byte(rapid.IntRange('0', '9').Draw(t, "dd"))
			case k < 9 || clean:
				l[j] = gen.PlainOctet(t)
			default:
				l[j] = gen.Octet(t)
			}
		}
		n = append(n, l)
	}
	return n
}

// ---------------------------------------------------------------------------------------------
// exhaustive: all texts of at most 6 units over an alphabet made for the escapes of digits - a
// plain digit, a bare backslash (with the digit: `\1`; with the next unit: `\\`, `\.`), the \DDD
// escape of a digit, a letter, the dot, an escaped dot (a special character in front). 55986 texts,
// about a third of them valid fully qualified names; the rest goes through the validity oracle.
var digitUnits = []string{"1", `\`, `\050`, ".", "a", `\.`}

func eachDigitText(maxUnits int, emit0 func(textCase)) {
	k := 0
	var rec func(cur string, used int)
	rec = func(cur string, used int) {
		if cur != "" {
			emit0(textCase{S: cur, D: dirtyOf(k)})
			k++
		}
		if used == maxUnits {
			return
		}
		for _, u := range digitUnits {
			rec(cur+u, used+1)
		}
	}
	rec("", 0)
}

func init() {
	pbt.RegisterEnum(pbt.Enum[textCase]{Name: "digit-escapes-exhaustive-6", Tiers: "quick", Exhaustive: true, Each: func(e func(textCase)) { eachDigitText(6, e) }, Check: checkText})
	pbt.RegisterEnum(pbt.Enum[textCase]{Name: "digit-escapes-exhaustive-8", Tiers: "thorough", Exhaustive: true, Each: func(e func(textCase)) { eachDigitText(8, e) }, Check: checkText})
}
