package c03

import (
	"bytes"
	"fmt"
	"strings"

	"github.com/miekg/dns"
	"pgregory.net/rapid"

	"verif/harness/gen"
	"verif/harness/pbt"
	wm "verif/harness/wiremodel"
)

// ---------------------------------------------------------------------------------------------
// (1) wire -> text -> wire for valid wire names

type wireCase struct {
	Labels [][]byte
	D      dirty // the buffer the packs go into (dirty_test.go); zero value: a fresh buffer, offset 0
}

func nearLimit(n wm.Name) bool {
	if n.WireLen() >= 252 {
		return true
	}
	for _, l := range n {
		if len(l) >= 61 {
			return true
		}
	}
	return false
}

func hasEscapeWorthy(n wm.Name) bool {
	for _, l := range n {
		for _, c := range l {
			if c < '!' || c > '~' || strings.IndexByte(`.'@;()"\`, c) >= 0 {
				return true
			}
		}
	}
	return false
}

func checkWire(c wireCase) error {
	n := wm.Name(c.Labels)
	for _, l := range n {
		if len(l) < 1 || len(l) > 63 {
			return nil // has no wire form at all
		}
	}
	w := wm.EncodeName(n)
	d := c.D.norm()
	if !n.Valid() {
		// the limit "that the unpacker enforces": more than 255 octets must be refused
		pbt.Note(w, true, fmt.Sprintf("wirelen=%d", lenBucket(len(w))), "over-long-wire", pointerClass(n))
		if s, _, err := dns.UnpackDomainName(w, 0); err == nil {
			return pbt.Errf("UnpackDomainName accepts a wire name of %d octets: %q", len(w), short(s))
		}
		return checkThroughPointer(n, "")
	}
	pbt.Note(w, nearLimit(n) || hasEscapeWorthy(n), fmt.Sprintf("wirelen=%d", lenBucket(len(w))), fmt.Sprintf("labels=%d", min(len(n), 5)), d.class(), highClass(n), pointerClass(n))
	// the name sits behind a few unrelated octets, so offsets are exercised too
	msg := append([]byte{0xde, 0xad, 0xbe}, w...)
	msg = append(msg, 0x55)
	s, off, err := dns.UnpackDomainName(msg, 3)
	if err != nil {
		return pbt.Errf("UnpackDomainName rejects a valid %d-octet wire name: %v (%x)", len(w), err, w)
	}
	if off != 3+len(w) {
		return pbt.Errf("UnpackDomainName consumed up to %d, want %d", off, 3+len(w))
	}
	back, fq, uerr := wm.UnescName(s)
	if uerr != nil || !fq || !back.Equal(n) {
		return pbt.Errf("unpacked text %q does not denote the wire labels %q (unescape: %q fq=%v err=%v)", s, n, back, fq, uerr)
	}
	// the spelling of every octet is a function of the octet alone (utf8_test.go)
	if serr := checkSpelling(fmt.Sprintf("UnpackDomainName(%x)", w), s, n); serr != nil {
		return serr
	}
	// the limit and the text are those of the name, however its octets are laid out in the message
	if perr := checkThroughPointer(n, s); perr != nil {
		return perr
	}
	buf, poff, err := d.packName(s, len(w))
	if err != nil {
		return pbt.Errf("PackDomainName rejects %q, which UnpackDomainName produced: %v (%v)", s, err, d)
	}
	if verr := d.verify(fmt.Sprintf("PackDomainName(%q)", short(s)), buf, poff, w); verr != nil {
		return verr
	}
	if _, ok := dns.IsDomainName(s); !ok {
		return pbt.Errf("IsDomainName rejects %q, which UnpackDomainName produced", s)
	}
	// the printing path used by String() methods
	ps := dns.Name(s).String()
	pn, pfq, perr := wm.UnescName(ps)
	if perr != nil || !pfq || !pn.Equal(n) {
		return pbt.Errf("Name(%q).String()=%q does not denote the same labels", s, ps)
	}
	if serr := checkSpelling(fmt.Sprintf("Name(%q).String()", short(s)), ps, n); serr != nil {
		return serr
	}
	// ... and for a name a program put together itself: every octet raw except the two that cannot
	// be (a dot inside a label, a backslash). It is a valid name for the packer, and every printing
	// path has to escape it (that is what the escaping-on-output helpers are for)
	var rb []byte
	for _, l := range n {
		for _, b := range l {
			if b == '.' || b == '\\' {
				rb = append(rb, '\\')
			}
			rb = append(rb, b)
		}
		rb = append(rb, '.')
	}
	raw := string(rb)
	if len(n) == 0 {
		raw = "."
	}
	rbuf, roff, err := d.packName(raw, len(w))
	if err != nil {
		return pbt.Errf("PackDomainName of the raw spelling %q: err=%v (%v)", short(raw), err, d)
	}
	if verr := d.verify(fmt.Sprintf("PackDomainName(%q) (raw spelling)", short(raw)), rbuf, roff, w); verr != nil {
		return verr
	}
	printed := map[string]string{
		"Name.String()":      dns.Name(raw).String(),
		"RR_Header.String()": strings.SplitN((&dns.RR_Header{Name: raw, Rrtype: dns.TypeA, Class: 1}).String(), "\t", 2)[0],
		"A.String()":         strings.SplitN((&dns.A{Hdr: dns.RR_Header{Name: raw, Rrtype: dns.TypeA, Class: 1}, A: []byte{192, 0, 2, 1}}).String(), "\t", 2)[0],
		"RFC3597.String()":   strings.SplitN((&dns.RFC3597{Hdr: dns.RR_Header{Name: raw, Rrtype: 65280, Class: 1}, Rdata: "00"}).String(), "\t", 2)[0],
		"Question.String()":  strings.SplitN(strings.TrimPrefix((&dns.Question{Name: raw, Qtype: 1, Qclass: 1}).String(), ";"), "\t", 2)[0],
	}
	for _, how := range []string{"Name.String()", "RR_Header.String()", "A.String()", "RFC3597.String()", "Question.String()"} {
		txt := printed[how]
		for i := 0; i < len(txt); i++ {
			if txt[i] < ' ' || txt[i] > '~' || (txt[i] == ' ' && (i == 0 || txt[i-1] != '\\')) {
				return pbt.Errf("%s of the raw name %q prints the octet 0x%02x unescaped: %q", how, short(raw), txt[i], short(txt))
			}
		}
		pn, pfq, perr := wm.UnescName(txt)
		if perr != nil || !pfq || !pn.Equal(n) {
			return pbt.Errf("%s of the raw name %q is %q, which does not denote the same labels (err=%v)", how, short(raw), short(txt), perr)
		}
		for i := 0; i < len(txt); i++ {
			if strings.IndexByte(`"();@'`, txt[i]) >= 0 && (i == 0 || txt[i-1] != '\\') {
				return pbt.Errf("%s of the raw name %q leaves %q unescaped: %q", how, short(raw), txt[i], short(txt))
			}
		}
	}
	return nil
}

func pointerClass(n wm.Name) string {
	if len(n) < 2 {
		return "read-through-a-pointer=false"
	}
	return "read-through-a-pointer=true"
}

// checkThroughPointer: the same name as the unpacker meets it in a message - its tail stands
// somewhere earlier, the leading labels are followed by a compression pointer to it (cut behind
// the first label, in the middle, in front of the last label). "The 255-octet name limit that the
// unpacker enforces" is a limit of the NAME: a name of more than 255 octets must be refused however
// it is laid out, and a valid one reads as the same text (text == "": the name is over-long).
func checkThroughPointer(n wm.Name, text string) error {
	if len(n) < 2 {
		return nil
	}
	valid := n.Valid()
	done := map[int]bool{}
	for _, cut := range []int{1, len(n) / 2, len(n) - 1} {
		if done[cut] {
			continue
		}
		done[cut] = true
		msg := []byte{0xde, 0xad, 0xbe}
		msg = append(msg, wm.EncodeName(n[cut:])...)
		start := len(msg)
		head := wm.EncodeName(n[:cut])
		msg = append(msg, head[:len(head)-1]...) // without its root octet
		msg = append(msg, 0xc0, 3, 0x55)
		s, off, err := dns.UnpackDomainName(msg, start)
		what := fmt.Sprintf("UnpackDomainName of %d labels (%d octets) followed by a pointer to the other %d labels (%d octets)", cut, len(head)-1, len(n)-cut, n[cut:].WireLen())
		if !valid {
			if err == nil {
				return pbt.Errf("%s accepts a name of %d octets in all: %q", what, n.WireLen(), short(s))
			}
			continue
		}
		if err != nil {
			return pbt.Errf("%s rejects a valid name of %d octets: %v (%x)", what, n.WireLen(), err, msg)
		}
		if off != len(msg)-1 {
			return pbt.Errf("%s consumed up to %d, want %d (behind the pointer)", what, off, len(msg)-1)
		}
		if s != text {
			return pbt.Errf("%s = %q, but the same name written out unpacks to %q", what, short(s), short(text))
		}
	}
	return nil
}

func lenBucket(n int) int {
	for _, b := range []int{1, 10, 64, 200, 249, 250, 251, 252, 253, 254, 255} {
		if n <= b {
			return b
		}
	}
	return 1000
}

func genWire(t *rapid.T) wireCase {
	d := genDirty(t)
	switch rapid.IntRange(0, 11).Draw(t, "long") {
	case 0, 1, 2, 3:
		return wireCase{Labels: uniformly(t, gen.NameOfWireLen(t, rapid.IntRange(245, 262).Draw(t, "wl"), gen.NameOpts{})), D: d}
	case 4:
		// the names whose encoding consists (almost) only of octets that a fresh buffer holds
		// anyway: the root, and one or two labels of NUL octets
		k := rapid.IntRange(0, 2).Draw(t, "nuls")
		var n wm.Name
		for i := 0; i < k; i++ {
			n = append(n, make([]byte, rapid.IntRange(1, 3).Draw(t, "nullen")))
		}
		return wireCase{Labels: n, D: d}
	case 5:
		// labels out of UTF-8 material: well-formed multi-octet characters alone, among ASCII, next
		// to ill-formed sequences (utf8_test.go)
		return wireCase{Labels: genUTF8Name(t, 63), D: d}
	}
	return wireCase{Labels: uniformly(t, gen.Name(t, gen.NameOpts{MaxLabs: 10, Long: rapid.Bool().Draw(t, "biaslong")})), D: d}
}

// uniformly sometimes rewrites every octet of the name to one escaping class (all need \DDD, all
// need \c, all plain), so that the text form is as long or as short as the wire length allows.
func uniformly(t *rapid.T, n wm.Name) wm.Name {
	if !gen.Rarely(t, 2) {
		return n
	}
	class := rapid.SampledFrom([]string{"\x00\x01\x1f\x7f\x80\xfe\xff", ".\\ \"();@'", "abcXYZ019-_"}).Draw(t, "uclass")
	n = n.Clone()
	for _, l := range n {
		for i := range l {
			l[i] = class[rapid.IntRange(0, len(class)-1).Draw(t, "uo")]
		}
	}
	return n
}

// all 256 octet values x first/middle/last position x first/middle/last label
func eachOctetPosition(emit0 func(wireCase)) {
	// the destination buffers cycle through dirtyCycle
	k := 0
	emit := func(c wireCase) {
		c.D = dirtyOf(k)
		k++
		emit0(c)
	}
	// the names of no or few labels (the root first of all) over every value the destination octets
	// can hold beforehand
	for v := 0; v < 256; v++ {
		for _, n := range []wm.Name{{}, {{0}}, {{'a'}}, {{0, 0}, {0}}} {
			for _, off := range []int{0, 1, 7} {
				for mp := 0; mp < 3; mp++ {
					emit0(wireCase{Labels: n, D: dirty{Pat: []byte{byte(v)}, Off: off, Slack: off % 2, Map: mp}})
				}
			}
		}
	}
	// every total length around the limit, as maximal labels, filled with one octet of each escaping
	// class (plain: 1 character per octet, \c: 2, \DDD: 4 - the longest text a name can have is the
	// 255-octet name of four labels in which every octet needs \DDD: 1004 characters)
	for _, fill := range []byte{'x', 'X', '7', '.', '\\', ' ', '"', 0x00, 0x1f, 0x7f, 0x80, 0xff} {
		for wl := 240; wl <= 270; wl++ {
			var n wm.Name
			left := wl - 1
			for left > 0 {
				ll := min(left-1, 63)
				if left-1-ll == 1 {
					ll--
				}
				n = append(n, bytes.Repeat([]byte{fill}, ll))
				left -= 1 + ll
			}
			emit(wireCase{Labels: n})
		}
	}
	for v := 0; v < 256; v++ {
		for pos := 0; pos < 3; pos++ {
			for lab := 0; lab < 3; lab++ {
				n := wm.Name{[]byte("abc"), []byte("def"), []byte("ghi")}
				n = n.Clone()
				n[lab][pos] = byte(v)
				emit(wireCase{Labels: n})
			}
		}
		emit(wireCase{Labels: wm.Name{{byte(v)}}})
		emit(wireCase{Labels: wm.Name{{byte(v), byte(v)}, {byte(v)}}})
		// followed by digits, so that a \DDD escape is followed by more digits
		emit(wireCase{Labels: wm.Name{{byte(v), '1', '2', '3'}, {'0', byte(v), '9'}}})
	}
}

// ---------------------------------------------------------------------------------------------
// (2)-(4) presentation strings near and beyond the limits, and malformed text

type textCase struct {
	S string
	D dirty // the buffer the pack goes into (dirty_test.go); zero value: a fresh buffer, offset 0
}

type verdict struct {
	valid  bool
	fq     bool
	name   wm.Name
	reason string
	ddd    bool // contains \DDD > 255: outside the domain
}

func isFQ(s string) bool {
	if !strings.HasSuffix(s, ".") {
		return false
	}
	// count backslashes before the final dot, taking \DDD into account is unnecessary: a digit is not a backslash
	n := 0
	for i := len(s) - 2; i >= 0 && s[i] == '\\'; i-- {
		n++
	}
	return n%2 == 0
}

func refJudge(s string) verdict {
	v := verdict{fq: isFQ(s)}
	n, fq, err := wm.UnescName(s)
	if err == wm.ErrDDDRange {
		v.ddd = true
		return v
	}
	if err != nil {
		v.reason = err.Error()
		return v
	}
	if fq != v.fq {
		v.reason = "fq disagreement inside the reference"
		return v
	}
	v.name = n
	for _, l := range n {
		if len(l) > 63 {
			v.reason = "label longer than 63 octets"
			return v
		}
	}
	if n.WireLen() > 255 {
		v.reason = fmt.Sprintf("wire length %d > 255", n.WireLen())
		return v
	}
	v.valid = true
	return v
}

func checkText(c textCase) error {
	s := c.S
	d := c.D.norm()
	if s == "" {
		// Not a name at all: the library's representation of an absent name field (zero-value
		// records, RDATA-less update records - the repository's TestNoRdataPack pins it). The
		// statement speaks of names; what it leaves to check is that no name is emitted for it:
		// either the packer refuses, or it writes nothing and does not advance.
		pbt.Note(nil, false, "empty-string", d.class())
		b, off1, err := d.packName(s, 0)
		if err == nil {
			if off1 != d.Off {
				return pbt.Errf("PackDomainName(\"\") into %v returns offset %d and no error: the empty string is not a fully qualified name, nothing may be emitted for it", d, off1)
			}
			return d.untouched("PackDomainName(\"\")", b, d.Off, d.Off)
		}
		return nil
	}
	v := refJudge(s)
	if v.ddd {
		pbt.Excluded("ddd-above-255")
		return nil
	}
	esc := strings.Contains(s, `\`)
	near := v.name != nil && nearLimit(v.name) || len(s) > 240
	cls := "valid"
	if !v.valid {
		cls = "invalid:" + v.reason
		if strings.HasPrefix(v.reason, "wire length") {
			cls = "invalid:wire length > 255"
		}
	}
	if !v.fq {
		cls = "not-fq"
	}
	pbt.Note([]byte(s), esc || near, append([]string{cls, d.class(), highClass(v.name)}, spellClasses(s)...)...)
	if esc || near {
		pbt.Sample(cls, s)
	}
	// a valid name gets exactly the room it needs (plus the generated slack), anything else more
	// than any reading of the text could need
	need := len(s) + 2
	if v.valid && v.fq {
		need = v.name.WireLen()
	}
	buf, off, perr := d.packName(s, need)
	if !v.fq {
		if perr == nil {
			return pbt.Errf("PackDomainName accepts %q, which is not fully qualified", short(s))
		}
		return nil
	}
	if v.valid && v.name != nil && len(v.name) > 0 && pbt.Known("name-256-257") && false {
		return nil
	}
	if longName(v) && pbt.Known("name-over-255") {
		pbt.Excluded("name-over-255")
		return nil
	}
	labels, ok := dns.IsDomainName(s)
	if ok != v.valid {
		return pbt.Errf("IsDomainName(%q)=%v but the reference says valid=%v (%s)", short(s), ok, v.valid, v.reason)
	}
	if (perr == nil) != v.valid {
		return pbt.Errf("PackDomainName(%q) err=%v but the reference says valid=%v (%s)", short(s), perr, v.valid, v.reason)
	}
	if v.valid {
		if len(v.name) > 0 && labels != len(v.name) {
			return pbt.Errf("IsDomainName(%q) counts %d labels, want %d", short(s), labels, len(v.name))
		}
		w := wm.EncodeName(v.name)
		if verr := d.verify(fmt.Sprintf("PackDomainName(%q)", short(s)), buf, off, w); verr != nil {
			return verr
		}
		// the name is the same name however it is spelled: what the printing paths write for this
		// spelling denotes the same labels (print_test.go)
		if perr := checkPrinted(s, v.name); perr != nil {
			return perr
		}
	}
	// (4) whatever the packer emits, the unpacker accepts
	if perr == nil && off >= d.Off && off <= len(buf) {
		if _, _, err := dns.UnpackDomainName(buf[:off], d.Off); err != nil {
			return pbt.Errf("PackDomainName(%q) emitted %d octets that UnpackDomainName rejects: %v", short(s), off, err)
		}
	}
	return nil
}

func longName(v verdict) bool {
	return v.fq && v.name != nil && v.name.WireLen() > 255
}

func short(s string) string {
	if len(s) > 300 {
		return s[:140] + "…" + s[len(s)-140:]
	}
	return s
}

// spelled names around the limits
func genText(t *rapid.T) textCase {
	var n wm.Name
	shape := rapid.IntRange(0, 6).Draw(t, "shape")
	switch shape {
	case 6: // short labels that are mostly digits: what the escapes themselves are made of (print_test.go)
		n = genDigitName(t)
	case 0: // total wire length 250..262
		n = gen.NameOfWireLen(t, rapid.IntRange(248, 262).Draw(t, "wl"), gen.NameOpts{})
	case 1: // one label of 60..66 octets
		n = gen.Name(t, gen.NameOpts{MaxLabs: 3, MaxLabel: 8})
		l := gen.Bytes(t, rapid.IntRange(60, 66).Draw(t, "ll"), false)
		pos := rapid.IntRange(0, len(n)).Draw(t, "pos")
		n = append(n[:pos:pos], append(wm.Name{l}, n[pos:]...)...)
	case 3: // labels of multi-octet UTF-8 characters, up to and beyond 63 octets (fewer characters than octets)
		n = genUTF8Name(t, 66)
	case 2: // far beyond
		n = gen.NameOfWireLen(t, rapid.SampledFrom([]int{300, 400, 1000}).Draw(t, "far"), gen.NameOpts{})
	default:
		n = gen.Name(t, gen.NameOpts{MaxLabs: 6})
	}
	var sb strings.Builder
	raw := rapid.IntRange(0, 3).Draw(t, "rawhigh") == 0
	// every legal spelling, a backslash in front of a digit included (half of the names; always for
	// the digit names)
	foreign := rapid.Bool().Draw(t, "foreign") || shape == 6
	for _, l := range n {
		if foreign {
			break
		}
		if raw {
			sb.WriteString(gen.SpellLabelRaw(t, l))
		} else {
			sb.WriteString(gen.SpellLabel(t, l))
		}
		sb.WriteByte('.')
	}
	s := sb.String()
	if foreign {
		s = spellForeign(t, n, raw)
	}
	if len(n) == 0 {
		s = "."
	}
	switch rapid.IntRange(0, 9).Draw(t, "tweak") {
	case 0:
		s = strings.TrimSuffix(s, ".") // not fully qualified
	case 1:
		s = s + "." // empty last label
	case 2:
		s = "." + s // leading dot
	case 3:
		if len(s) > 1 {
			s = s[:len(s)-1] + `\.` // escaped final dot: not fully qualified
		}
	}
	return textCase{S: s, D: genDirty(t)}
}

var textUnits = []string{"a", "A", "0", ".", `\`, `\.`, `\\`, `\065`, `\0`, `\06`, "\xc3\xa9"}

func eachSmallText(maxUnits int, emit0 func(textCase)) {
	k := 0
	emit := func(c textCase) {
		c.D = dirtyOf(k)
		k++
		emit0(c)
	}
	var rec func(cur string, used int)
	rec = func(cur string, used int) {
		if cur != "" {
			emit(textCase{S: cur})
		}
		if used == maxUnits {
			return
		}
		for _, u := range textUnits {
			rec(cur+u, used+1)
		}
	}
	rec("", 0)
}

// systematic sweep: total wire length 1..260, as one run of maximal labels, plain and fully escaped
func eachLength(emit0 func(textCase)) {
	k := 0
	emit := func(c textCase) {
		c.D = dirtyOf(k)
		k++
		emit0(c)
	}
	for i := range dirtyCycle {
		emit0(textCase{S: "", D: dirtyOf(i)})
		emit0(textCase{S: ".", D: dirtyOf(i)})
	}
	for wl := 2; wl <= 262; wl++ {
		for variant := 0; variant < 3; variant++ {
			left := wl - 1
			var sb strings.Builder
			for left > 0 {
				ll := left - 1
				if ll > 63 {
					ll = 63
				}
				if left-1-ll == 1 {
					ll--
				}
				if ll < 1 {
					break
				}
				for i := 0; i < ll; i++ {
					switch variant {
					case 0:
						sb.WriteByte('a')
					case 1:
						sb.WriteString(`\097`)
					default:
						sb.WriteString(`\.`)
					}
				}
				sb.WriteByte('.')
				left -= 1 + ll
			}
			emit(textCase{S: sb.String()})
		}
	}
	for ll := 58; ll <= 68; ll++ {
		emit(textCase{S: strings.Repeat("a", ll) + "."})
		emit(textCase{S: strings.Repeat(`\000`, ll) + ".b."})
		emit(textCase{S: "b." + strings.Repeat(`\\`, ll) + "."})
	}
}

func init() {
	pbt.Probe("name-over-255", func() error {
		for _, wl := range []int{256, 257, 259, 300} {
			var sb strings.Builder
			left := wl - 1
			for left > 0 {
				ll := min(left-1, 63)
				if left-1-ll == 1 {
					ll--
				}
				sb.WriteString(strings.Repeat("a", ll) + ".")
				left -= 1 + ll
			}
			s := sb.String()
			_, ok := dns.IsDomainName(s)
			_, err := dns.PackDomainName(s, make([]byte, 400), 0, nil, false)
			if ok || err == nil {
				return pbt.Errf("a name of %d wire octets: IsDomainName=%v PackDomainName err=%v (must both refuse; UnpackDomainName enforces 255)", wl, ok, err)
			}
		}
		return nil
	})
	pbt.Register(pbt.Sub[wireCase]{Name: "wire-text-wire", Weight: 100, Gen: genWire, Check: checkWire})
	pbt.RegisterEnum(pbt.Enum[wireCase]{Name: "octet-position-exhaustive", Exhaustive: true, Each: eachOctetPosition, Check: checkWire})
	pbt.Register(pbt.Sub[textCase]{Name: "text-validity", Weight: 100, Gen: genText, Check: checkText})
	pbt.RegisterEnum(pbt.Enum[textCase]{Name: "length-sweep", Exhaustive: true, Each: eachLength, Check: checkText})
	pbt.RegisterEnum(pbt.Enum[textCase]{Name: "small-text-exhaustive-5", Tiers: "quick", Exhaustive: true, Each: func(e func(textCase)) { eachSmallText(5, e) }, Check: checkText})
	pbt.RegisterEnum(pbt.Enum[textCase]{Name: "small-text-exhaustive-7", Tiers: "thorough", Exhaustive: true, Each: func(e func(textCase)) { eachSmallText(7, e) }, Check: checkText})
}

// ---------------------------------------------------------------------------------------------
// the limits also hold when the packer compresses: an over-long name whose tail is already in the
// compression map must be refused, not written as "a few labels + pointer"

type behindCase struct {
	Labels [][]byte // the whole name
	Cut    int      // the suffix Labels[Cut:] is packed first and is what the pointer can refer to
	D      dirty    // the buffer both packs go into (Map is not used: there is always a map here)
}

func checkBehindPointer(c behindCase) error {
	n := wm.Name(c.Labels)
	for _, l := range n {
		if len(l) < 1 || len(l) > 63 {
			return nil
		}
	}
	if c.Cut < 1 || c.Cut >= len(n) {
		return nil
	}
	suffix := wm.Name(n[c.Cut:])
	if !suffix.Valid() {
		return nil
	}
	valid := n.Valid()
	d := c.D.norm()
	pbt.Note(wm.EncodeName(n), true, fmt.Sprintf("valid=%v", valid), fmt.Sprintf("wirelen=%d", lenBucket(n.WireLen())), d.class())
	// room for the suffix and for the whole name written out (it takes less: some labels and a pointer)
	buf := d.buf(suffix.WireLen() + n.WireLen() + 2)
	comp := map[string]int{}
	off, err := dns.PackDomainName(wm.EscName(suffix), buf, d.Off, comp, true)
	if err != nil {
		return pbt.Errf("PackDomainName(%q) failed: %v", short(wm.EscName(suffix)), err)
	}
	// nothing to point to yet: the first name can only be written out
	if verr := d.verify(fmt.Sprintf("PackDomainName(%q) with an empty compression map", short(wm.EscName(suffix))), buf, off, wm.EncodeName(suffix)); verr != nil {
		return verr
	}
	off2, err := dns.PackDomainName(wm.EscName(n), buf, off, comp, true)
	if valid != (err == nil) {
		return pbt.Errf("PackDomainName with compression of a name of %d wire octets (tail of %d octets already in the message): err=%v, the reference says valid=%v", n.WireLen(), suffix.WireLen(), err, valid)
	}
	if err == nil {
		got, _, rerr := wm.ReadName(buf[:off2], off)
		if rerr != nil || !got.Equal(n) {
			return pbt.Errf("compressed name reads back as %q (err=%v), want %q", short(wm.EscName(got)), rerr, short(wm.EscName(n)))
		}
		if _, _, uerr := dns.UnpackDomainName(buf[:off2], off); uerr != nil {
			return pbt.Errf("PackDomainName emitted a compressed name that UnpackDomainName rejects: %v", uerr)
		}
		if verr := d.untouched("the two PackDomainName calls", buf, d.Off, off2); verr != nil {
			return verr
		}
	}
	// the same through a whole message
	m := new(dns.Msg)
	m.Compress = true
	m.Question = []dns.Question{{Name: wm.EscName(suffix), Qtype: 1, Qclass: 1}}
	m.Answer = []dns.RR{&dns.NS{Hdr: dns.RR_Header{Name: wm.EscName(n), Rrtype: dns.TypeNS, Class: 1}, Ns: wm.EscName(n)}}
	p, perr := m.Pack()
	if valid != (perr == nil) {
		return pbt.Errf("Msg.Pack (compressed) with an owner name of %d wire octets whose tail is the question name: err=%v, the reference says valid=%v", n.WireLen(), perr, valid)
	}
	if perr == nil {
		var u dns.Msg
		if uerr := u.Unpack(p); uerr != nil {
			return pbt.Errf("Msg.Pack emitted a message that Unpack rejects: %v", uerr)
		}
	}
	return nil
}

func genBehind(t *rapid.T) behindCase {
	n := gen.NameOfWireLen(t, rapid.IntRange(240, 275).Draw(t, "wl"), gen.NameOpts{Plain: rapid.Bool().Draw(t, "plain")})
	if len(n) < 2 {
		n = append(wm.Name{[]byte("x")}, n...)
	}
	return behindCase{Labels: n, Cut: rapid.IntRange(1, len(n)-1).Draw(t, "cut"), D: genDirty(t)}
}

func init() {
	pbt.Register(pbt.Sub[behindCase]{Name: "limit-behind-pointer", Weight: 20, Gen: genBehind, Check: checkBehindPointer})
}
