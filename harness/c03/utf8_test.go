package c03

import (
	"fmt"
	"reflect"
	"strings"
	"unicode/utf8"

	"github.com/miekg/dns"
	"pgregory.net/rapid"

	"verif/harness/gen"
	"verif/harness/pbt"
	wm "verif/harness/wiremodel"
)

// ---------------------------------------------------------------------------------------------
// (7) The spelling of an octet is a function of the octet alone (round 8).
//
// "The escaping (backslash before special characters, \DDD for non-printable octets) is unambiguous
// for all 256 octet values in every position": how an octet of a label is written may depend on
// its value only, not on what stands next to it. Up to round 7 the text that UnpackDomainName
// returns was only read back through the harness's unescaper (which, like the packer, takes raw
// 8-bit octets), so a text that keeps some octets raw where the label "looks like text" went
// through. Now the text is compared octet by octet with the harness's own rendering, and the
// generators produce the neighbourhoods in which a renderer is tempted to look around: well-formed
// multi-octet UTF-8 sequences (2, 3, 4 octets) alone, among ASCII, next to each other, next to
// ill-formed ones (lone continuation and lead octets, overlong forms, surrogates, beyond U+10FFFF,
// cut-off sequences), in one label of a name or in all of them - and, exhaustively, every pair of
// octets and every three-octet sequence of the UTF-8 shape.

// refSpell is how one octet of a label is written in the text form: the statement's rule, written
// down once more from RFC 1035 section 5.1 and the list of characters that mean something in a
// master file (. ' @ ; ( ) " \ and the space).
func refSpell(b byte) string {
	switch {
	case b == '.' || b == ' ' || b == '\'' || b == '@' || b == ';' || b == '(' || b == ')' || b == '"' || b == '\\':
		return string([]byte{'\\', b})
	case b < 0x21 || b > 0x7e:
		return string([]byte{'\\', '0' + b/100, '0' + b/10%10, '0' + b%10})
	}
	return string([]byte{b})
}

// checkSpelling compares a text form that the library produced for the labels n with the
// reference rendering, octet by octet, and names the first octet that is written differently.
func checkSpelling(what, text string, n wm.Name) error {
	if len(n) == 0 {
		if text != "." {
			return pbt.Errf("%s is %q for the root name, want \".\"", what, short(text))
		}
		return nil
	}
	p := 0
	for li, l := range n {
		for oi, b := range l {
			want := refSpell(b)
			if !strings.HasPrefix(text[p:], want) {
				got := text[p:min(len(text), p+len(want))]
				why := "the spelling of an octet must not depend on its neighbours"
				if p < len(text) && (text[p] < 0x20 || text[p] > 0x7e) {
					why = fmt.Sprintf("the octet 0x%02x is not printable and has to be written \\%03d wherever it stands", text[p], text[p])
				}
				return pbt.Errf("%s = %q: octet %d of label %d (0x%02x, label % x) is written %q, want %q (%s)", what, short(text), oi, li, b, l, got, want, why)
			}
			p += len(want)
		}
		if p >= len(text) || text[p] != '.' {
			return pbt.Errf("%s = %q: no dot behind label %d (% x) at text position %d", what, short(text), li, l, p)
		}
		p++
	}
	if p != len(text) {
		return pbt.Errf("%s = %q: %d characters behind the last label", what, short(text), len(text)-p)
	}
	return nil
}

// highClass says what kind of octets above 0x7f a name holds.
func highClass(n wm.Name) string {
	high, wfLabel, all := false, false, true
	for _, l := range n {
		h := false
		for _, b := range l {
			h = h || b >= 0x80
		}
		if !h {
			continue
		}
		high = true
		if utf8.Valid(l) {
			wfLabel = true
		} else {
			all = false
		}
	}
	switch {
	case !high:
		return "high-octets:none"
	case wfLabel && all:
		return "high-octets:every-such-label-is-well-formed-utf8"
	case wfLabel:
		return "high-octets:well-formed-and-ill-formed-labels"
	}
	return "high-octets:ill-formed-only"
}

// ---------------------------------------------------------------------------------------------
// generator of labels out of UTF-8 material

// characters a "readable" rendering is written for (accented letters, CJK, the DNS-SD apostrophe,
// an emoji), the ends of the 2-, 3- and 4-octet ranges, and characters that are well-formed but
// not printable as text (C1 controls, no-break space, soft hyphen, zero width space, BOM, U+FFFD)
var utf8Runes = []rune{0xe9, 0xc9, 0xfc, 0xdf, 0x3b1, 0x430, 0x5d0, 0x2019, 0x65e5, 0x672c, 0xac00, 0x1f600, 0x1f4a9,
	0x80, 0x7ff, 0x800, 0xd7ff, 0xe000, 0xffff, 0x10000, 0x10ffff,
	0x85, 0x9f, 0xa0, 0xad, 0x200b, 0x202e, 0xfeff, 0xfffd, 0xfffe}

// sequences that are not well-formed UTF-8
var illFormed = [][]byte{{0x80}, {0xbf}, {0xa9}, {0xc3}, {0xe6}, {0xf0}, {0xc0, 0x80}, {0xc1, 0xbf}, {0xe0, 0x80, 0x80}, {0xe0, 0x9f, 0xbf},
	{0xed, 0xa0, 0x80}, {0xed, 0xbf, 0xbf}, {0xf0, 0x80, 0x80, 0x80}, {0xf0, 0x8f, 0xbf, 0xbf}, {0xf4, 0x90, 0x80, 0x80}, {0xf5, 0x80, 0x80, 0x80},
	{0xf8, 0x88, 0x80, 0x80, 0x80}, {0xfe}, {0xff}, {0xff, 0xfe}, {0xe6, 0x97}, {0xf0, 0x9f, 0x98}, {0xa9, 0xc3}, {0xc3, 0x28}, {0xc3, 0xc3, 0xa9}}

func genRune(t *rapid.T) rune {
	switch rapid.IntRange(0, 5).Draw(t, "rk") {
	case 0:
		return rune(rapid.IntRange(0x80, 0x7ff).Draw(t, "r2"))
	case 1:
		r := rune(rapid.IntRange(0x800, 0xffff).Draw(t, "r3"))
		if r >= 0xd800 && r <= 0xdfff {
			r = 0xd7ff
		}
		return r
	case 2:
		return rune(rapid.IntRange(0x10000, 0x10ffff).Draw(t, "r4"))
	}
	return rapid.SampledFrom(utf8Runes).Draw(t, "rl")
}

// genUTF8Label: units are multi-octet characters, ASCII (letters, digits, characters that need a
// backslash) and, unless wellFormed, ill-formed sequences; at most maxLen octets, at least one
// multi-octet character (it is put first if nothing else fits).
func genUTF8Label(t *rapid.T, wellFormed bool, maxLen int) []byte {
	target := rapid.SampledFrom([]int{2, 3, 4, 6, 9, 14, 30, 61, 62, 63, 64, 66}).Draw(t, "u8len")
	target = min(target, maxLen)
	var l []byte
	multi := false
	for tries := 0; len(l) < target && tries < 200; tries++ {
		var u []byte
		switch k := rapid.IntRange(0, 9).Draw(t, "u8unit"); {
		case k < 5:
			u = []byte(string(genRune(t)))
		case k < 7 || wellFormed && k < 9:
			u = []byte{rapid.SampledFrom([]byte("abzAZ09-_ .\\'@;()\"\t\x00\x7f")).Draw(t, "u8ascii")}
		case k < 9:
			u = rapid.SampledFrom(illFormed).Draw(t, "u8ill")
		default:
			u = []byte{'e'}
		}
		if len(l)+len(u) > target {
			continue
		}
		multi = multi || len(u) > 1 && utf8.Valid(u)
		l = append(l, u...)
	}
	if !multi {
		u := []byte(string(genRune(t)))
		if len(l)+len(u) > maxLen {
			l = l[:max(0, maxLen-len(u))]
			for wellFormed && len(l) > 0 && !utf8.Valid(l) { // no cut-off character in a label meant to be well-formed
				l = l[:len(l)-1]
			}
		}
		l = append(append([]byte{}, u...), l...)
	}
	return l
}

// genUTF8Name: 1..4 labels (63 octets at most each: a wire name); kind 0: every label is
// well-formed UTF-8 with a multi-octet character, 1: one such label among generated ordinary
// ones, 2: well-formed and ill-formed material mixed within the labels.
func genUTF8Name(t *rapid.T, maxLabel int) wm.Name {
	kind := rapid.IntRange(0, 2).Draw(t, "u8kind")
	nl := rapid.IntRange(1, 4).Draw(t, "u8labels")
	at := rapid.IntRange(0, nl-1).Draw(t, "u8at")
	var n wm.Name
	for i := 0; i < nl; i++ {
		switch {
		case kind == 0 || kind == 1 && i == at:
			n = append(n, genUTF8Label(t, true, maxLabel))
		case kind == 1:
			n = append(n, gen.Label(t, gen.NameOpts{MaxLabel: 10}))
		default:
			n = append(n, genUTF8Label(t, false, maxLabel))
		}
	}
	return n
}

// ---------------------------------------------------------------------------------------------
// exhaustive: every pair of octets, every three-octet sequence of the UTF-8 shape (lead e0..ef,
// two octets of 80..bf), four-octet sequences (lead f0..f7; all of them in the thorough tier),
// each as a label by itself and between ASCII letters in front of another label

type runCase struct {
	Run      []byte
	Embedded bool `json:",omitempty"` // "x" Run "y" . "example" instead of Run alone
}

func checkRun(c runCase) error {
	if len(c.Run) < 1 || len(c.Run) > 61 {
		return nil
	}
	n := wm.Name{append([]byte{}, c.Run...)}
	if c.Embedded {
		n = wm.Name{append(append([]byte{'x'}, c.Run...), 'y'), []byte("example")}
	}
	w := wm.EncodeName(n)
	wf := "run:ill-formed-utf8"
	if utf8.Valid(c.Run) {
		wf = "run:well-formed-utf8"
		if len(c.Run) == utf8.RuneCount(c.Run) {
			wf = "run:ascii"
		}
	}
	pbt.Note(w, hasEscapeWorthy(n), fmt.Sprintf("run-of-%d", len(c.Run)), wf, fmt.Sprintf("embedded=%v", c.Embedded))
	s, off, err := dns.UnpackDomainName(w, 0)
	if err != nil || off != len(w) {
		return pbt.Errf("UnpackDomainName(%x) = offset %d, err %v; want %d, nil", w, off, err, len(w))
	}
	if err := checkSpelling(fmt.Sprintf("UnpackDomainName(%x)", w), s, n); err != nil {
		return err
	}
	buf := make([]byte, len(w))
	off1, err := dns.PackDomainName(s, buf, 0, nil, false)
	if err != nil || off1 != len(w) || string(buf) != string(w) {
		return pbt.Errf("PackDomainName(%q) = %x (offset %d, err %v), want %x", s, buf[:min(max(off1, 0), len(buf))], off1, err, w)
	}
	if labels, ok := dns.IsDomainName(s); !ok || labels != len(n) {
		return pbt.Errf("IsDomainName(%q) = %d, %v; want %d, true", s, labels, ok, len(n))
	}
	return nil
}

func eachRun(all4 bool, emit0 func(runCase)) {
	emit := func(r ...byte) {
		emit0(runCase{Run: r})
		emit0(runCase{Run: r, Embedded: true})
	}
	for a := 0; a < 256; a++ {
		for b := 0; b < 256; b++ {
			emit(byte(a), byte(b))
		}
	}
	for a := 0xe0; a <= 0xef; a++ {
		for b := 0x80; b <= 0xbf; b++ {
			for c := 0x80; c <= 0xbf; c++ {
				emit(byte(a), byte(b), byte(c))
			}
		}
	}
	tail := []int{0x80, 0x8f, 0x90, 0xa5, 0xbf}
	if all4 {
		tail = nil
		for c := 0x80; c <= 0xbf; c++ {
			tail = append(tail, c)
		}
	}
	for a := 0xf0; a <= 0xf7; a++ {
		for b := 0x80; b <= 0xbf; b++ {
			for _, c := range tail {
				for _, d := range tail {
					emit(byte(a), byte(b), byte(c), byte(d))
				}
			}
		}
	}
	// the written-out examples: several characters in a row, with ASCII that needs a backslash or
	// digits next to them, and the same cut off or spoilt by one octet
	for _, s := range []string{"café", "École", "日本", "\U0001f600", "Bob\u2019s Printer", "é.é", "é\\é", "1é2", "é123",
		"é\x00", "\x7fé", "é\xff", "\xc3", "\xa9\xc3", "\xff\xfe", "日\xe6\x97", "\xed\xa0\x80é", "\ufeffa", "a\u200bb", "\u0085"} {
		emit([]byte(s)...)
	}
}

// ---------------------------------------------------------------------------------------------
// the names of an unpacked message / record, in wire order, as the library wrote them

func rrNameTexts(rr dns.RR) []string {
	out := []string{rr.Header().Name}
	v := reflect.ValueOf(rr)
	if v.Kind() != reflect.Ptr || v.Elem().Kind() != reflect.Struct {
		return out
	}
	v = v.Elem()
	for i := 0; i < v.NumField(); i++ {
		tag := v.Type().Field(i).Tag.Get("dns")
		if tag != "cdomain-name" && tag != "domain-name" {
			continue
		}
		switch f := v.Field(i); f.Kind() {
		case reflect.String:
			out = append(out, f.String())
		case reflect.Slice:
			for k := 0; k < f.Len(); k++ {
				if f.Index(k).Kind() == reflect.String {
					out = append(out, f.Index(k).String())
				}
			}
		}
	}
	return out
}

func msgNameTexts(m *dns.Msg) []string {
	var out []string
	for _, q := range m.Question {
		out = append(out, q.Name)
	}
	for _, sec := range [][]dns.RR{m.Answer, m.Ns, m.Extra} {
		for _, rr := range sec {
			out = append(out, rrNameTexts(rr)...)
		}
	}
	return out
}

// checkNameTexts: the names an unpacking entry point returned are, one by one, the reference
// rendering of the names that were packed.
func checkNameTexts(what string, got []string, want []wm.Name) error {
	if len(got) != len(want) {
		return pbt.Errf("%s yields %d names (%q), the message holds %d (%s)", what, len(got), got, len(want), describeNames(want))
	}
	for i := range got {
		if err := checkSpelling(fmt.Sprintf("name %d of %s", i+1, what), got[i], want[i]); err != nil {
			return err
		}
	}
	return nil
}

func init() {
	pbt.RegisterEnum(pbt.Enum[runCase]{Name: "octet-runs-exhaustive", Tiers: "quick", Exhaustive: true, Each: func(e func(runCase)) { eachRun(false, e) }, Check: checkRun})
	pbt.RegisterEnum(pbt.Enum[runCase]{Name: "octet-runs-exhaustive-all-4", Tiers: "thorough", Exhaustive: true, Each: func(e func(runCase)) { eachRun(true, e) }, Check: checkRun})
}
