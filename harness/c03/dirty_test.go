package c03

import (
	"bytes"
	"fmt"

	"github.com/miekg/dns"
	"pgregory.net/rapid"

	"verif/harness/pbt"
)

// ---------------------------------------------------------------------------------------------
// The destination of a pack call. "Packs back to the identical octets" is a statement about what
// is in the buffer afterwards, so it has to hold whatever the buffer held before: a packer that
// leaves an octet of the name unwritten looks right in a fresh (all zero) buffer exactly when that
// octet happens to be zero - the root label, a zero-length count. Every pack of the round-trip
// sub-checks therefore goes into a buffer that is filled with a generated pattern beforehand, at a
// generated offset, with generated room behind the name (none at all included) and sometimes with
// spare capacity beyond len; afterwards the octets of [off, off1) must be the reference encoding
// and every other octet of the whole capacity must still hold the pattern.

type dirty struct {
	Pat   []byte `json:",omitempty"` // repeated over the whole capacity beforehand; empty: zeroes (a fresh buffer)
	Off   int    `json:",omitempty"` // where the name goes
	Slack int    `json:",omitempty"` // octets of len(buf) behind what the name needs (0: exact fit)
	Extra int    `json:",omitempty"` // cap(buf) - len(buf)
	Map   int    `json:",omitempty"` // 0: no compression map, 1: empty map + compress=false, 2: empty map + compress=true
}

func (d dirty) norm() dirty {
	clamp := func(v, hi int) int {
		if v < 0 {
			return 0
		}
		if v > hi {
			return hi
		}
		return v
	}
	d.Off, d.Slack, d.Extra = clamp(d.Off, 20000), clamp(d.Slack, 4096), clamp(d.Extra, 4096)
	return d
}

func (d dirty) at(i int) byte {
	if len(d.Pat) == 0 {
		return 0
	}
	return d.Pat[i%len(d.Pat)]
}

// buf is a buffer with room for need octets at d.Off (plus the slack), pre-filled.
func (d dirty) buf(need int) []byte {
	if need < 0 {
		need = 0
	}
	n := d.Off + need + d.Slack
	b := make([]byte, n+d.Extra)
	if len(d.Pat) > 0 {
		for i := range b {
			b[i] = d.Pat[i%len(d.Pat)]
		}
	}
	return b[:n]
}

func (d dirty) comp() (map[string]int, bool) {
	switch d.Map {
	case 1:
		return map[string]int{}, false
	case 2:
		return map[string]int{}, true
	}
	return nil, false
}

func (d dirty) String() string {
	return fmt.Sprintf("a buffer pre-filled with % x, offset %d, %d octets of room behind the name, cap-len=%d, map=%d", d.Pat, d.Off, d.Slack, d.Extra, d.Map)
}

// untouched: every octet of the whole capacity outside [from,to) still holds the pattern.
func (d dirty) untouched(what string, b []byte, from, to int) error {
	full := b[:cap(b)]
	for i, x := range full {
		if (i < from || i >= to) && x != d.at(i) {
			where := "behind the name"
			if i < from {
				where = "in front of the name"
			} else if i >= len(b) {
				where = "beyond len(buf)"
			}
			return pbt.Errf("%s into %v: the octet at %d (%s, which occupies [%d,%d)) was 0x%02x and is now 0x%02x", what, d, i, where, from, to, d.at(i), x)
		}
	}
	return nil
}

// verify: the call returned off1 without an error; [d.Off, off1) must be want, the rest untouched.
func (d dirty) verify(what string, b []byte, off1 int, want []byte) error {
	if off1 != d.Off+len(want) {
		return pbt.Errf("%s into %v: returned offset %d, want %d (%d octets of name)", what, d, off1, d.Off+len(want), len(want))
	}
	if got := b[d.Off:off1]; !bytes.Equal(got, want) {
		return pbt.Errf("%s into %v: the buffer holds %x at [%d,%d), the name is %x", what, d, got, d.Off, off1, want)
	}
	return d.untouched(what, b, d.Off, off1)
}

// packName packs s by PackDomainName into a buffer as d describes it, with room for need octets.
func (d dirty) packName(s string, need int) (b []byte, off1 int, err error) {
	b = d.buf(need)
	comp, compress := d.comp()
	off1, err = dns.PackDomainName(s, b, d.Off, comp, compress)
	return
}

var dirtyOctets = []byte{0x01, 0x3f, 0x40, 0x7f, 0x80, 0xc0, 0xc1, 0xff, '.', '\\', 'a', 0x00}

func genDirty(t *rapid.T) dirty {
	var d dirty
	switch rapid.IntRange(0, 7).Draw(t, "dkind") {
	case 0: // the classic: a fresh buffer
	case 1: // one octet value everywhere, any of the 256
		d.Pat = []byte{byte(rapid.IntRange(1, 255).Draw(t, "dfill"))}
	default:
		n := rapid.IntRange(1, 3).Draw(t, "dpatlen")
		for i := 0; i < n; i++ {
			d.Pat = append(d.Pat, rapid.SampledFrom(dirtyOctets).Draw(t, "dpat"))
		}
	}
	switch rapid.IntRange(0, 3).Draw(t, "doffk") {
	case 0:
	case 1:
		d.Off = rapid.IntRange(1, 13).Draw(t, "doff")
	default:
		d.Off = rapid.IntRange(0, 600).Draw(t, "doffbig")
	}
	d.Slack = rapid.SampledFrom([]int{0, 0, 1, 2, 17, 300}).Draw(t, "dslack")
	d.Extra = rapid.SampledFrom([]int{0, 0, 1, 5, 64}).Draw(t, "dextra")
	d.Map = rapid.SampledFrom([]int{0, 0, 1, 2}).Draw(t, "dmap")
	return d
}

// the buffers of the enumerations: a fixed cycle
var dirtyCycle = []dirty{
	{},
	{Pat: []byte{0xff}, Off: 0},
	{Pat: []byte{0x01}, Off: 1, Slack: 1},
	{Pat: []byte{0xc0, 0x0c}, Off: 12, Extra: 5},
	{Pat: []byte{0x3f}, Off: 7, Slack: 17, Map: 1},
	{Pat: []byte{0x40, 0x00, 0x80}, Off: 3, Slack: 2, Extra: 1, Map: 2},
	{Pat: []byte{'.'}, Off: 2},
	{Pat: []byte{'\\', '0'}, Off: 0, Slack: 300},
	{Pat: []byte{0x00, 0xff}, Off: 5, Map: 2},
	{Pat: []byte{0x7f}, Off: 255, Extra: 64, Map: 1},
	{Pat: []byte{'a'}, Off: 1},
	{Pat: []byte{0x80, 0xc0, 0x01}, Off: 0, Slack: 1, Extra: 1},
	{Pat: []byte{0xc1}, Off: 64, Map: 2},
}

// (13 buffers: a prime, so that the cycle does not fall into step with the enumerations, which go
// through 11 text units, 3 spellings, 12 fill octets)

func dirtyOf(i int) dirty { return dirtyCycle[i%len(dirtyCycle)] }

func (d dirty) class() string {
	switch {
	case len(d.Pat) == 0 && d.Off == 0:
		return "buffer:fresh"
	case len(d.Pat) == 0:
		return "buffer:zero-at-offset"
	}
	return "buffer:pre-filled"
}
