package c03

import (
	"bytes"
	"fmt"
	"sort"
	"strings"

	"github.com/miekg/dns"
	"pgregory.net/rapid"

	"verif/harness/gen"
	"verif/harness/pbt"
	wm "verif/harness/wiremodel"
)

// ---------------------------------------------------------------------------------------------
// (5) IsDomainName <=> PackDomainName accepts, over SEQUENCES of calls that share one buffer and one
// compression map - the way the exported PackDomainName / PackRR are meant to be used. Whether a
// name is accepted must depend on the name only, not on what earlier calls (accepted or refused)
// left behind in the map or in the buffer.

type mapStep struct {
	Labels   [][]byte // may hold an empty label or a label of more than 63 octets: then the name is not valid
	Compress bool
	NewMap   bool `json:",omitempty"` // the caller starts a fresh map with this call
	// Short > 0: the caller first makes the call with only Short-1 octets of buffer behind the offset
	// (buf[:off+Short-1]: the buffer it has at that moment) and, when that is refused, repeats it with
	// the whole buffer - the same name, the same offset, the same map (round 9)
	Short int `json:",omitempty"`
}

type mapSeqCase struct {
	Steps []mapStep
	D     dirty // the shared buffer (Map is not used)
}

// stepText spells the labels the way EscName does, but also for label lists that are no name.
func stepText(labels [][]byte) string {
	if len(labels) == 0 {
		return "."
	}
	var sb strings.Builder
	for _, l := range labels {
		sb.WriteString(wm.EscLabel(l))
		sb.WriteByte('.')
	}
	return sb.String()
}

// defect: index of the first label that no name can have (-1: none).
func defect(labels [][]byte) int {
	for i, l := range labels {
		if len(l) < 1 || len(l) > 63 {
			return i
		}
	}
	return -1
}

func stepValid(labels [][]byte) bool {
	return defect(labels) < 0 && wm.Name(labels).WireLen() <= 255
}

func eqLabels(a, b [][]byte) bool {
	if len(a) != len(b) {
		return false
	}
	for i := range a {
		if !bytes.Equal(a[i], b[i]) {
			return false
		}
	}
	return true
}

const staleMapID = "stale-map-after-refusal"

// the same mechanism met by a VALID name: the call that was refused for lack of room entered the
// suffixes it had written so far, and the repetition in a buffer with room finds itself in the map
const shortMapID = "stale-map-after-short-buffer"

// hitsStale: step i is an invalid name that, packed with compress=true, meets in the map a key
// that a REFUSED earlier call left there: the refused call entered every suffix it had walked
// over before it met its bad label; step i walks up to its own bad label and looks each suffix up.
func hitsStale(steps []mapStep, i int) bool {
	si := steps[i]
	ei := defect(si.Labels)
	if ei <= 0 || !si.Compress || si.NewMap {
		return false
	}
	for j := i - 1; j >= 0; j-- {
		sj := steps[j]
		if ej := defect(sj.Labels); ej > 0 && wm.Name(sj.Labels).WireLen() <= 255 {
			for k := 0; k < ei; k++ {
				for m := 0; m < ej; m++ {
					if eqLabels(si.Labels[k:], sj.Labels[m:]) {
						return true
					}
				}
			}
		}
		if sj.NewMap {
			break
		}
	}
	return false
}

func checkMapSeq(c mapSeqCase) error {
	return checkMapSeq1(c, pbt.Known(staleMapID), pbt.Known(shortMapID))
}

// leaveOutStale, leaveOutShort: the repetition of a call that was refused for lack of room does not
// meet what that call left in the map - for an invalid name (stale-map-after-refusal) / for a valid
// name (stale-map-after-short-buffer); the probes run with false, false
func checkMapSeq1(c mapSeqCase, leaveOutStale, leaveOutShort bool) error {
	d := c.D.norm()
	if len(c.Steps) == 0 || len(c.Steps) > 64 {
		return nil
	}
	for _, st := range c.Steps {
		if len(st.Labels) == 1 && len(st.Labels[0]) == 0 {
			return nil // spells ".", the root: not a label list with an empty label
		}
	}
	need := 0
	var key []byte
	nInvalid, afterRefusal, shortRefused, shortAccepted := 0, false, 0, 0
	for _, st := range c.Steps {
		t := stepText(st.Labels)
		need += len(t) + 2
		key = append(append(key, t...), 0, b2b(st.Compress), b2b(st.NewMap), byte(min(max(st.Short, 0), 255)))
		if !stepValid(st.Labels) {
			nInvalid++
		}
	}
	classes := []string{d.class(), fmt.Sprintf("invalid-names=%d", min(nInvalid, 3))}
	buf := d.buf(need)
	comp := map[string]int{}
	off := d.Off
	refused := false
	for i, st := range c.Steps {
		s := stepText(st.Labels)
		valid := stepValid(st.Labels)
		if st.NewMap {
			comp = map[string]int{}
			refused = false
		}
		if refused {
			afterRefusal = true
		}
		_, ok := dns.IsDomainName(s)
		if ok != valid {
			return pbt.Errf("IsDomainName(%q)=%v but the reference says valid=%v", short(s), ok, valid)
		}
		if st.Short > 0 {
			// the buffer of the moment ends Short-1 octets behind the offset
			room := min(st.Short-1, len(buf)-off)
			var keys map[string]bool
			if valid && leaveOutShort || !valid && leaveOutStale {
				keys = map[string]bool{}
				for k := range comp {
					keys[k] = true
				}
			}
			behind := append([]byte(nil), buf[off+room:cap(buf)]...)
			off1, err := dns.PackDomainName(s, buf[:off+room], off, comp, st.Compress)
			if now := buf[off+room : cap(buf)]; !bytes.Equal(behind, now) {
				return pbt.Errf("PackDomainName(%q, compress=%v) at offset %d of a buffer of %d octets (err=%v) changed octets at and beyond len: %x, before %x; calls so far: %s", short(s), st.Compress, off, off+room, err, now, behind, describeSteps(c.Steps[:i+1]))
			}
			if err == nil {
				// there was room (all of the name, or some labels and a pointer): this is the call
				shortAccepted++
				if !valid {
					return pbt.Errf("PackDomainName(%q, compress=%v) at offset %d of a buffer of %d octets: accepted, but IsDomainName and the reference say valid=false; calls so far: %s", short(s), st.Compress, off, off+room, describeSteps(c.Steps[:i+1]))
				}
				got, _, rerr := wm.ReadName(buf[:min(max(off1, off), off+room)], off)
				if off1 > off+room || rerr != nil || !got.Equal(wm.Name(st.Labels)) {
					return pbt.Errf("PackDomainName(%q, compress=%v) at offset %d of a buffer of %d octets returned offset %d and wrote %x, which reads back as %q (err=%v); calls so far: %s", short(s), st.Compress, off, off+room, off1, buf[off:min(max(off1, off), off+room)], short(wm.EscName(got)), rerr, describeSteps(c.Steps[:i+1]))
				}
				if _, _, uerr := dns.UnpackDomainName(buf[:off1], off); uerr != nil {
					return pbt.Errf("PackDomainName(%q) emitted octets that UnpackDomainName rejects: %v", short(s), uerr)
				}
				off = off1
				continue
			}
			shortRefused++
			if keys != nil && len(comp) > len(keys) {
				// known finding: the refused call left the suffixes it had written so far in the map; the
				// repetition (compress=true) would find the name itself there. The class is left out
				// while the finding is listed and reproduces: the caller takes those keys out again.
				if valid {
					pbt.Excluded(shortMapID)
				} else {
					pbt.Excluded(staleMapID)
				}
				for k := range comp {
					if !keys[k] {
						delete(comp, k)
					}
				}
			}
		}
		off1, err := dns.PackDomainName(s, buf, off, comp, st.Compress)
		if (err == nil) != valid {
			how := "the first call with this compression map"
			if i > 0 && !st.NewMap {
				how = fmt.Sprintf("call %d with the same compression map (an earlier call was refused: %v)", i+1, refused)
			}
			if st.Short > 0 {
				how += fmt.Sprintf(", repeated with the whole buffer after the same call was refused with %d octets of room", st.Short-1)
			}
			return pbt.Errf("PackDomainName(%q, compress=%v) at offset %d, %s: err=%v, but IsDomainName and the reference say valid=%v; calls so far: %s", short(s), st.Compress, off, how, err, valid, describeSteps(c.Steps[:i+1]))
		}
		if err != nil {
			refused = true
			continue // the caller keeps its offset: nothing was emitted
		}
		got, _, rerr := wm.ReadName(buf[:off1], off)
		if rerr != nil || !got.Equal(wm.Name(st.Labels)) {
			again := ""
			if st.Short > 0 {
				again = fmt.Sprintf(", repeated with the whole buffer after the same call was refused for lack of room (%d octets)", st.Short-1)
			}
			return pbt.Errf("PackDomainName(%q, compress=%v) at offset %d (call %d with a shared map and buffer%s, %v) wrote %x, which reads back as %q (err=%v); calls so far: %s", short(s), st.Compress, off, i+1, again, d, buf[off:min(max(off1, off), len(buf))], short(wm.EscName(got)), rerr, describeSteps(c.Steps[:i+1]))
		}
		if _, _, uerr := dns.UnpackDomainName(buf[:off1], off); uerr != nil {
			return pbt.Errf("PackDomainName(%q) emitted octets that UnpackDomainName rejects: %v", short(s), uerr)
		}
		off = off1
	}
	if afterRefusal {
		classes = append(classes, "call-after-a-refused-call-same-map")
	}
	if shortRefused > 0 {
		classes = append(classes, "no-room-then-repeated-with-room")
	}
	if shortAccepted > 0 {
		classes = append(classes, "short-buffer-had-room")
	}
	pbt.Note(key, nInvalid > 0 || len(d.Pat) > 0, classes...)
	// a refused call may have written a part of its name behind off; in front of the first name and
	// beyond len nothing may change
	return d.untouched("a sequence of PackDomainName calls", buf, d.Off, len(buf))
}

func b2b(b bool) byte {
	if b {
		return 1
	}
	return 0
}

func describeSteps(steps []mapStep) string {
	var out []string
	for _, st := range steps {
		x := fmt.Sprintf("%q", short(stepText(st.Labels)))
		if st.Compress {
			x += "+compress"
		}
		if st.NewMap {
			x += "+newmap"
		}
		if st.Short > 0 {
			x += fmt.Sprintf("+first-with-%d-octets-of-room", st.Short-1)
		}
		out = append(out, x)
	}
	return strings.Join(out, ", ")
}

func genMapSeq(t *rapid.T) mapSeqCase {
	var steps []mapStep
	n := rapid.IntRange(2, 6).Draw(t, "nsteps")
	small := gen.NameOpts{MaxLabs: 4, MaxLabel: 8, Plain: rapid.IntRange(0, 2).Draw(t, "plainnames") != 0}
	for i := 0; i < n; i++ {
		var labels [][]byte
		if len(steps) > 0 && rapid.IntRange(0, 9).Draw(t, "share") < 7 {
			// some new labels in front of a suffix (or the whole) of an earlier name, bad labels included
			base := steps[rapid.IntRange(0, len(steps)-1).Draw(t, "base")].Labels
			cut := rapid.IntRange(0, len(base)).Draw(t, "cut")
			for k := rapid.IntRange(0, 2).Draw(t, "front"); k > 0; k-- {
				labels = append(labels, gen.Label(t, small))
			}
			for _, l := range base[cut:] {
				labels = append(labels, append([]byte{}, l...))
			}
		} else {
			labels = gen.Name(t, small)
		}
		switch rapid.IntRange(0, 8).Draw(t, "spoil") {
		case 0: // an empty label somewhere
			if len(labels) > 0 { // (the empty label alone spells the root)
				p := rapid.IntRange(0, len(labels)).Draw(t, "emptyat")
				labels = append(labels[:p:p], append([][]byte{{}}, labels[p:]...)...)
			}
		case 1: // a label beyond 63 octets
			if len(labels) > 0 {
				p := rapid.IntRange(0, len(labels)-1).Draw(t, "longat")
				labels[p] = bytes.Repeat([]byte{'y'}, rapid.IntRange(64, 70).Draw(t, "longlen"))
			}
		case 2: // more than 255 octets in all
			for wm.Name(labels).WireLen() <= 255 {
				labels = append([][]byte{bytes.Repeat([]byte{'n'}, 63)}, labels...)
			}
		}
		// keep the bad-label names well below 255 octets, so that they have one defect only
		if defect(labels) >= 0 && wm.Name(labels).WireLen() > 200 {
			labels = labels[len(labels)-1:]
		}
		st := mapStep{Labels: labels, Compress: rapid.IntRange(0, 3).Draw(t, "compress") != 0, NewMap: i > 0 && rapid.IntRange(0, 9).Draw(t, "newmap") == 0}
		if rapid.IntRange(0, 3).Draw(t, "shortfirst") == 0 {
			// the buffer of the moment ends somewhere inside the name (0 octets of room .. exactly enough):
			// refused, and repeated with the whole buffer
			st.Short = 1 + rapid.IntRange(0, min(wm.Name(labels).WireLen(), 300)).Draw(t, "room")
		}
		steps = append(steps, st)
	}
	if pbt.Known(staleMapID) {
		for i := range steps {
			if hitsStale(steps, i) {
				pbt.Excluded(staleMapID)
				steps[i].NewMap = true // the caller drops the map it used in a refused call
			}
		}
	}
	return mapSeqCase{Steps: steps, D: genDirty(t)}
}

func lab(ss ...string) [][]byte {
	var out [][]byte
	for _, s := range ss {
		out = append(out, []byte(s))
	}
	return out
}

func init() {
	pbt.Probe(staleMapID, func() error {
		y64 := strings.Repeat("y", 64)
		for _, c := range []mapSeqCase{
			{Steps: []mapStep{{Labels: lab("x", "y", "", "example"), Compress: true}, {Labels: lab("z", "x", "y", "", "example"), Compress: true}}},
			{Steps: []mapStep{{Labels: lab("x", y64, "example"), Compress: true}, {Labels: lab("z", "x", y64, "example"), Compress: true}}},
		} {
			if err := checkMapSeq1(c, false, false); err != nil {
				return err
			}
		}
		return nil
	})
	pbt.Probe(shortMapID, func() error {
		for _, c := range []mapSeqCase{
			// the breaker's shape: the second name of a buffer runs out of room behind its first label
			{Steps: []mapStep{{Labels: lab("example", "org"), Compress: true}, {Labels: lab("www", "sub", "example", "org"), Compress: true, Short: 1 + 5}}},
			// one call is enough
			{Steps: []mapStep{{Labels: lab("aaa", "bbb", "ccc"), Compress: true, Short: 1 + 10}}},
		} {
			if err := checkMapSeq1(c, false, false); err != nil {
				return err
			}
		}
		return nil
	})
	pbt.Register(pbt.Sub[mapSeqCase]{Name: "calls-sharing-map-and-buffer", Weight: 20, Gen: genMapSeq, Check: checkMapSeq})
}

// ---------------------------------------------------------------------------------------------
// (6) the same names where a program meets them: in the question, as owner and inside the RDATA of
// a record, packed by PackRR at an offset of a used buffer and by Msg.PackBuffer into a buffer
// that held another message before. Reference: the harness's own encoder.

type msgBufCase struct {
	First    *wm.Msg `json:",omitempty"` // packed into the same buffer beforehand
	M        wm.Msg
	Compress bool
	Spell    uint64 // spelling of the names handed to the library (wiremodel.Spelling)
	D        dirty  // Off/Slack: PackRR offset and room; for PackBuffer Off+Slack is the room behind the message
}

// every type whose RDATA consists of integers and at least one domain name
var nameTypes []uint16

func init() {
	for typ, l := range wm.Layout {
		names, ok := 0, typ != wm.TOPT && typ != wm.TPrivate
		for _, sp := range l {
			switch sp.K {
			case wm.U8, wm.U16, wm.U32:
			case wm.NameC, wm.NameU:
				names++
			default:
				ok = false
			}
		}
		if ok && names > 0 {
			nameTypes = append(nameTypes, typ)
		}
	}
	sort.Slice(nameTypes, func(i, j int) bool { return nameTypes[i] < nameTypes[j] })
	pbt.Register(pbt.Sub[msgBufCase]{Name: "names-in-records-used-buffer", Weight: 10, Gen: genMsgBuf, Check: checkMsgBuf})
}

func msgNames(m wm.Msg) (all []wm.Name) {
	for _, q := range m.Q {
		all = append(all, q.Name)
	}
	for _, r := range m.AllRecs() {
		all = append(all, r.Name)
		for _, f := range r.Fields {
			if f.K == wm.NameC || f.K == wm.NameU {
				all = append(all, f.N)
			}
		}
	}
	return all
}

func checkMsgBuf(c msgBufCase) error {
	d := c.D.norm()
	d.Map = 0
	want, err := wm.Encode(c.M)
	if err != nil {
		return nil // not a message
	}
	roots, special, u8 := 0, false, false
	names := msgNames(c.M)
	for _, n := range names {
		if len(n) == 0 {
			roots++
		}
		special = special || hasEscapeWorthy(n)
		if strings.Contains(highClass(wm.Name(n)), "well-formed") {
			u8 = true
		}
	}
	pbt.Note(want, roots > 0 || special, d.class(), fmt.Sprintf("name-with-well-formed-utf8-label=%v", u8), fmt.Sprintf("root-names=%d", min(roots, 3)), fmt.Sprintf("compress=%v", c.Compress), fmt.Sprintf("reused-after-message=%v", c.First != nil))
	restore := wm.Spelling(c.Spell)
	defer restore()
	lm, err := wm.MsgToLib(c.M, c.Compress)
	if err != nil {
		return nil
	}
	room := len(want) + 1
	var fm *dns.Msg
	if c.First != nil {
		if fw, err := wm.Encode(*c.First); err == nil {
			if fm, err = wm.MsgToLib(*c.First, false); err == nil {
				room = max(room, len(fw)+1)
			}
		}
	}
	buf := d.buf(room)
	if fm != nil {
		fm.PackBuffer(buf) // whatever it leaves in buf
	}
	packed, err := lm.PackBuffer(buf)
	if err != nil {
		return pbt.Errf("Msg.PackBuffer refuses a message whose names are all valid: %v (names %s)", err, describeNames(names))
	}
	if !c.Compress {
		if !bytes.Equal(packed, want) {
			return pbt.Errf("Msg.PackBuffer into a used buffer (%v, first message: %v): got %x, want %x (names %s)", d, c.First != nil, packed, want, describeNames(names))
		}
	} else {
		dm, derr := wm.Decode(packed, nil)
		if derr != nil {
			return pbt.Errf("Msg.PackBuffer (compressed) into a used buffer (%v): the result %x does not decode: %v (names %s)", d, packed, derr, describeNames(names))
		}
		if re, rerr := wm.Encode(dm); rerr != nil || !bytes.Equal(re, want) {
			return pbt.Errf("Msg.PackBuffer (compressed) into a used buffer (%v): the result %x written out is %x (err=%v), want %x (names %s)", d, packed, re, rerr, want, describeNames(names))
		}
	}
	var back dns.Msg
	if uerr := back.Unpack(packed); uerr != nil {
		return pbt.Errf("Msg.PackBuffer into a used buffer (%v) emitted %x, which Msg.Unpack rejects: %v (names %s)", d, packed, uerr, describeNames(names))
	}
	// the names Msg.Unpack hands out are written the one way the statement describes, whatever the
	// spelling they were handed in with and whether they were read through a pointer or not
	if nerr := checkNameTexts(fmt.Sprintf("Msg.Unpack(%x)", packed), msgNameTexts(&back), names); nerr != nil {
		return nerr
	}
	// every record by itself, at an offset of a used buffer
	for _, r := range c.M.AllRecs() {
		rw, err := wm.EncodeRR(r)
		if err != nil {
			continue
		}
		rr, err := wm.ToLib(r)
		if err != nil {
			continue
		}
		b := d.buf(len(rw))
		off1, perr := dns.PackRR(rr, b, d.Off, nil, false)
		what := fmt.Sprintf("PackRR of a %s record (names %s)", dns.Type(r.Type), describeNames(msgNames(wm.Msg{An: []wm.Rec{r}})))
		if perr != nil {
			return pbt.Errf("%s into %v fails: %v", what, d, perr)
		}
		if off1 != d.Off+len(rw) || !bytes.Equal(b[d.Off:off1], rw) {
			return pbt.Errf("%s into %v: returned offset %d and wrote %x, want offset %d and %x", what, d, off1, b[d.Off:min(max(off1, d.Off), len(b))], d.Off+len(rw), rw)
		}
		if verr := d.untouched(what, b, d.Off, len(b)); verr != nil {
			return verr
		}
		urr, uoff, uerr := dns.UnpackRR(b[:off1], d.Off)
		if uerr != nil || uoff != off1 {
			return pbt.Errf("UnpackRR of what %s wrote (%x): offset %d, err %v; want %d, nil", what, rw, uoff, uerr, off1)
		}
		if nerr := checkNameTexts(fmt.Sprintf("UnpackRR(%x)", rw), rrNameTexts(urr), msgNames(wm.Msg{An: []wm.Rec{r}})); nerr != nil {
			return nerr
		}
	}
	return nil
}

func describeNames(names []wm.Name) string {
	var out []string
	for _, n := range names {
		out = append(out, fmt.Sprintf("%q", short(wm.EscName(n))))
	}
	return strings.Join(out, " ")
}

func genMsgBuf(t *rapid.T) msgBufCase {
	var pool []wm.Name
	nameGen := func(t *rapid.T) wm.Name {
		switch k := rapid.IntRange(0, 9).Draw(t, "namekind"); {
		case k < 3:
			return wm.Name{} // the root: question for ". NS", null MX / SRV target, SOA of the root zone
		case k == 9 && rapid.Bool().Draw(t, "u8name"):
			// DNS-SD instance names, U-labels: labels of multi-octet UTF-8 characters (utf8_test.go)
			n := genUTF8Name(t, 20)
			pool = append(pool, n)
			return n
		case k < 6 && len(pool) > 0:
			base := pool[rapid.IntRange(0, len(pool)-1).Draw(t, "base")]
			n := wm.Name{gen.Label(t, gen.NameOpts{MaxLabel: 6})}
			n = append(n, base[rapid.IntRange(0, len(base)).Draw(t, "cut"):]...).Clone()
			if n.Valid() {
				pool = append(pool, n)
				return n
			}
		}
		n := gen.Name(t, gen.NameOpts{MaxLabs: 4, MaxLabel: 12, Long: gen.Rarely(t, 4)})
		pool = append(pool, n)
		return n
	}
	mo := &gen.MsgOpts{MaxQ: 2, MaxRecs: 2, NoOPT: true}
	mo.Types = nameTypes
	mo.NameGen = nameGen
	m := gen.Msg(t, mo)
	if rapid.IntRange(0, 2).Draw(t, "opt") == 0 {
		// an OPT pseudo-record without options: root owner, CLASS = UDP size
		m.Ex = append(m.Ex, wm.Rec{Name: wm.Name{}, Type: wm.TOPT, Class: uint16(rapid.SampledFrom([]int{512, 1232, 4096}).Draw(t, "udpsize")), Fields: []wm.Field{{K: wm.Opts}}})
	}
	c := msgBufCase{M: m, Compress: rapid.Bool().Draw(t, "compress"), D: genDirty(t)}
	if rapid.Bool().Draw(t, "spelled") {
		c.Spell = rapid.Uint64Range(1, 1<<62).Draw(t, "spell")
	}
	if rapid.IntRange(0, 2).Draw(t, "first") == 0 {
		fo := &gen.MsgOpts{MaxQ: 1, MaxRecs: 3, NoOPT: true}
		fo.Plain = true
		fo.Types = []uint16{wm.TNS, wm.TMX, wm.TTXT, wm.TSOA}
		f := gen.Msg(t, fo)
		c.First = &f
	}
	return c
}
