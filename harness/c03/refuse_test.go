package c03

import (
	"bytes"
	"fmt"
	"reflect"

	"github.com/miekg/dns"

	"verif/harness/gen"
	"verif/harness/pbt"
	wm "verif/harness/wiremodel"
)

// "names that are not fully qualified are refused by the packer", and so are names that break
// the 63/255 limits - wherever the name sits: the owner and every name-valued RDATA field of every
// type (a refusal that a per-type packer swallows turns into a silently damaged record).

type refuseCase struct {
	Type  uint16
	Field int    // -1: owner, else index into the type's layout
	Sub   int    // index into a list-of-names field
	Bad   string // the offending name text
	Why   string
}

var badNames = []struct{ text, why string }{
	{"not-qualified", "not fully qualified"},
	{"also.not.qualified", "not fully qualified"},
	{string(bytes.Repeat([]byte{'l'}, 64)) + ".example.", "label of 64 octets"},
	{"empty..label.", "empty label"},
}

func init() {
	var long []byte
	for i := 0; i < 4; i++ {
		long = append(append(long, bytes.Repeat([]byte{'n'}, 63)...), '.')
	}
	badNames = append(badNames, struct{ text, why string }{string(long), "name of 257 octets"})
}

func sampleRec(typ uint16) wm.Rec {
	r := wm.Rec{Name: wm.MustName("owner.example."), Type: typ, Class: 1, TTL: 5}
	for _, sp := range wm.Layout[typ] {
		f := wm.Field{K: sp.K}
		switch sp.K {
		case wm.U8, wm.U16, wm.U32, wm.U48, wm.U64:
			f.U = 1
			if sp.Hint == "gwtype" || sp.Hint == "amtgwtype" {
				f.U = 3
			}
		case wm.NameC, wm.NameU:
			f.N = wm.MustName("target.example.")
		case wm.Names:
			f.NL = []wm.Name{wm.MustName("one.example."), wm.MustName("two.example.")}
		case wm.Str, wm.Rest, wm.L8, wm.L16:
			f.B = []byte{1, 2, 3, 4}
			if sp.Hint == "nsec3next" {
				f.B = bytes.Repeat([]byte{7}, 20)
			}
		case wm.Strs:
			f.L = [][]byte{[]byte("s")}
		case wm.IPv4:
			f.B = []byte{192, 0, 2, 1}
		case wm.IPv6:
			f.B = append([]byte{0x20, 1}, make([]byte, 14)...)
		case wm.Bitmap:
			f.T = []uint16{1, 2}
		case wm.GW:
			f.U, f.N = 3, wm.MustName("gw.example.")
		case wm.HIPHdr:
			f.U, f.B, f.B2 = 2, []byte{1, 2}, []byte{3, 4}
		}
		r.Fields = append(r.Fields, f)
	}
	return r
}

func eachRefusal(emit func(refuseCase)) {
	types := append([]uint16{}, gen.AllTypes...)
	for _, typ := range types {
		if typ == wm.TPrivate {
			continue
		}
		for _, b := range badNames {
			emit(refuseCase{Type: typ, Field: -1, Bad: b.text, Why: b.why})
		}
		for i, sp := range wm.Layout[typ] {
			switch sp.K {
			case wm.NameC, wm.NameU, wm.GW:
				for _, b := range badNames {
					emit(refuseCase{Type: typ, Field: i, Bad: b.text, Why: b.why})
				}
			case wm.Names:
				for sub := 0; sub < 2; sub++ {
					for _, b := range badNames {
						emit(refuseCase{Type: typ, Field: i, Sub: sub, Bad: b.text, Why: b.why})
					}
				}
			}
		}
	}
}

func checkRefusal(c refuseCase) error {
	layout, ok := wm.Layout[c.Type]
	if !ok {
		return nil
	}
	rr, err := wm.ToLib(sampleRec(c.Type))
	if err != nil {
		return nil
	}
	where := "owner"
	if c.Field < 0 {
		rr.Header().Name = c.Bad
	} else {
		if c.Field >= len(layout) {
			return nil
		}
		sp := layout[c.Field]
		where = sp.Go
		v := reflect.ValueOf(rr).Elem()
		switch sp.K {
		case wm.NameC, wm.NameU:
			f := v.FieldByName(sp.Go)
			if !f.IsValid() || f.Kind() != reflect.String {
				return nil
			}
			f.SetString(c.Bad)
		case wm.GW:
			f := v.FieldByName("GatewayHost")
			if !f.IsValid() {
				return nil
			}
			f.SetString(c.Bad)
			where = "GatewayHost"
		case wm.Names:
			f := v.FieldByName(sp.Go)
			if !f.IsValid() || f.Kind() != reflect.Slice || c.Sub >= f.Len() {
				return nil
			}
			f.Index(c.Sub).SetString(c.Bad)
			where = fmt.Sprintf("%s[%d]", sp.Go, c.Sub)
		default:
			return nil
		}
	}
	tn := dns.TypeToString[c.Type]
	pbt.Note([]byte(fmt.Sprint(c.Type, c.Field, c.Sub, c.Bad)), true, "why:"+c.Why, "type:"+tn)
	buf := make([]byte, 2048)
	off, perr := dns.PackRR(rr, buf, 0, nil, false)
	if perr == nil {
		return pbt.Errf("PackRR accepts a %s record whose %s is %q (%s): it returns %d octets and no error", tn, where, short(c.Bad), c.Why, off)
	}
	m := new(dns.Msg)
	m.Answer = []dns.RR{rr}
	for _, compress := range []bool{false, true} {
		m.Compress = compress
		if p, err := m.Pack(); err == nil {
			return pbt.Errf("Msg.Pack (compress=%v) accepts a %s record whose %s is %q (%s): %d octets, no error", compress, tn, where, short(c.Bad), c.Why, len(p))
		}
	}
	return nil
}

// the one EDNS0 option that carries a domain name
func checkOptionRefusal(c refuseCase) error {
	pbt.Note([]byte("opt"+c.Bad), true, "why:"+c.Why, "type:OPT")
	if c.Why == "not fully qualified" {
		return nil // the agent domain is completed with Fqdn by the option's packer
	}
	opt := &dns.OPT{Hdr: dns.RR_Header{Name: ".", Rrtype: dns.TypeOPT, Class: 1232}}
	opt.Option = []dns.EDNS0{&dns.EDNS0_REPORTING{Code: dns.EDNS0REPORTING, AgentDomain: c.Bad}}
	m := new(dns.Msg)
	m.Extra = []dns.RR{opt}
	if p, err := m.Pack(); err == nil {
		return pbt.Errf("Msg.Pack accepts a REPORTING option whose agent domain is %q (%s): %d octets, no error", short(c.Bad), c.Why, len(p))
	}
	return nil
}

func init() {
	pbt.RegisterEnum(pbt.Enum[refuseCase]{Name: "option-name-refuses-bad-names", Exhaustive: true, Each: func(emit func(refuseCase)) {
		for _, b := range badNames {
			emit(refuseCase{Type: wm.TOPT, Bad: b.text, Why: b.why})
		}
	}, Check: checkOptionRefusal})
	pbt.RegisterEnum(pbt.Enum[refuseCase]{Name: "every-name-field-refuses-bad-names", Exhaustive: true, Each: eachRefusal, Check: checkRefusal})
}
